/-
  Proofs about the daser worker model (`Lumina.Model.Daser`) for C33 and C34:

  * `Inv'` / `Inv`: representation invariants of every `BlockRanges` field, the characterisation
    of the queue (`queue = cand − timedOut − ongoing − willBePruned`), `ongoing` = heights of the
    sampling futures (one future per height), the bound on the number of futures;
  * `Good m P`: the worker-monad computation `m` succeeds with a result satisfying `P`, or
    `random_indexes` diverges on the given draws — in particular no failed `expect` and no loop
    bound is hit;
  * one `…_good` lemma per model function, stating the invariant afterwards and that the C34
    monitor (`Lumina.Spec.C34.walk`) and the C33 monitor (`Lumina.Spec.C33.walk`, via `W33`) accept the
    emitted actions, moving from the view of the state before to the view of the state after;
  * `step_ok`, `run_ok`: every stimulus / every history.
-/
import Lumina.Proofs.DaserRanges
import Lumina.Proofs.DaserIndexes
import Mathlib.Tactic.Tauto
import Lumina.Model.DaserView

namespace Lumina.Proofs.Daser
open Lumina.Model.Ranges hiding Inv
open Lumina.Model.Daser
open Lumina.Proofs.Ranges Lumina.Proofs.DaserRanges Lumina.Proofs.DaserIndexes
open Lumina.Spec

local notation "RInv" => Lumina.Model.Ranges.Inv

/-! ### outcomes of the worker monad -/

/-- the computation succeeds with a result satisfying `P`, or `random_indexes` diverges -/
def Good {α} (m : M α) (P : α → Prop) : Prop :=
  match m with
  | .ok a => P a
  | .error e => e = Fail.diverge

theorem Good.bind {α β} {m : M α} {k : α → M β} {P : α → Prop} {Q : β → Prop}
    (hm : Good m P) (hk : ∀ a, P a → Good (k a) Q) : Good (m >>= k) Q := by
  cases m with
  | ok a => exact hk a hm
  | error e => exact hm

theorem Good.pure {α} {a : α} {P : α → Prop} (h : P a) : Good (pure a : M α) P := h

theorem Good.ok {α} {a : α} {P : α → Prop} (h : P a) : Good (.ok a : M α) P := h

theorem Good.liftR {α} {r : Res α} {a : α} {P : α → Prop} (hr : r = .ok a) (h : P a) : Good (liftR r) P := by
  subst hr; exact h

theorem Good.mono {α} {m : M α} {P Q : α → Prop} (hm : Good m P) (h : ∀ a, P a → Q a) : Good m Q := by
  cases m with
  | ok a => exact h a hm
  | error e => exact hm

theorem Good.of_ok {α} {m : M α} {P : α → Prop} {a : α} (hm : Good m P) (h : m = .ok a) : P a := by
  subst h; exact hm

/-! ### the invariant -/

/-- `hand = some h`: `h` has been popped from the queue and not yet been put anywhere -/
structure Inv' (s : State) (hand : Option Nat) : Prop where
  stored : RInv s.store.stored
  sampled : RInv s.store.sampled
  queue : RInv s.w.queue
  timedOut : RInv s.w.timedOut
  ongoing : RInv s.w.ongoing
  wbp : RInv s.w.willBePruned
  cand : RInv s.w.cand
  queue_eq : ∀ x, mem s.w.queue x ↔
    (some x ≠ hand ∧ mem s.w.cand x ∧ ¬ mem s.w.timedOut x ∧ ¬ mem s.w.ongoing x ∧ ¬ mem s.w.willBePruned x)
  ongoing_eq : ∀ x, mem s.w.ongoing x ↔ ∃ f ∈ s.w.futs, f.height = x
  nodup : (s.w.futs.map (·.height)).Nodup
  cand_le : ∀ x, mem s.w.cand x → x ≤ s.w.headHeight.getD 0
  futs_le : s.w.futs.length ≤ s.cfg.limit + s.cfg.extra
  /-- nothing is sampled while the worker waits for peers -/
  disc : s.w.connected = false → s.w.futs = []

abbrev Inv (s : State) : Prop := Inv' s none

theorem inv_init (cfg : Cfg) (hdr : Nat → Hdr) : Inv (init cfg hdr) := by
  refine ⟨inv_nil, inv_nil, inv_nil, inv_nil, inv_nil, inv_nil, inv_nil, ?_, ?_, ?_, ?_, ?_, ?_⟩ <;>
    simp [init, Worker.init, mem_nil]

/-- same configuration, chain, connection state -/
structure Frame (s s' : State) : Prop where
  cfg : s'.cfg = s.cfg
  hdr : s'.hdr = s.hdr
  connected : s'.w.connected = s.w.connected
  dead : s'.w.dead = s.w.dead

theorem Frame.refl (s : State) : Frame s s := ⟨rfl, rfl, rfl, rfl⟩
theorem Frame.trans {a b c : State} (h1 : Frame a b) (h2 : Frame b c) : Frame a c :=
  ⟨h2.cfg.trans h1.cfg, h2.hdr.trans h1.hdr, h2.connected.trans h1.connected, h2.dead.trans h1.dead⟩

/-! ### walks -/

theorem walk34_append (v : C34.View) (a b : List Tok) :
    C34.walk v (a ++ b) = (C34.walk v a).bind (fun v' => C34.walk v' b) := by
  induction a generalizing v with
  | nil => rfl
  | cons t ts ih =>
    simp only [List.cons_append, C34.walk]
    cases C34.onTok v t with
    | none => rfl
    | some v' => exact ih v'

theorem walk34_pollNew (v : C34.View) (fs : List Fut) (hin : ∀ f ∈ fs, v.inProgress f.height = true) :
    C34.walk v (pollNew fs) = some v := by
  unfold pollNew
  rw [walk34_append]
  have h1 : ∀ (l : List Fut), (∀ f ∈ l, v.inProgress f.height = true) →
      C34.walk v (l.map (fun f => Tok.started f.height f.width f.shares)) = some v := by
    intro l; induction l with
    | nil => intro _; rfl
    | cons f l ih =>
      intro hl
      simp only [List.map_cons, C34.walk, C34.onTok, C34.partOf, hl f (by simp), if_true]
      exact ih (fun g hg => hl g (by simp [hg]))
  have h2 : ∀ (l : List Fut), (∀ f ∈ l, v.inProgress f.height = true) →
      C34.walk v (l.map (fun f => Tok.req f.height f.shares)) = some v := by
    intro l; induction l with
    | nil => intro _; rfl
    | cons f l ih =>
      intro hl
      simp only [List.map_cons, C34.walk, C34.onTok, C34.partOf, hl f (by simp), if_true]
      exact ih (fun g hg => hl g (by simp [hg]))
  simp [h1 fs hin, h2 fs hin]

/-- the C34 monitor accepts `toks` from the view of `s` and ends in a view that agrees with the view of `s'` on
    what is in progress (after a window cut-off the two differ in `timedOut` only) -/
def WalkTo (s : State) (toks : List Tok) (s' : State) : Prop :=
  ∃ v', C34.walk (view34 s) toks = some v' ∧ v'.inProgress = (view34 s').inProgress

/-- the constants the properties quote -/
def CfgOK (c : Cfg) : Prop := c.prunerThreshold = 512 ∧ c.maxSamples = 16

/-! ### the C33 monitor along the model -/

/-- the C33 view of a state, with the "just finished successfully" marker set to `j` -/
def view33j (s : State) (j : Option Nat) : C33.View := { view33 s with justOk := j }

/-- the C33 monitor accepts `toks` and moves from the view of `s` to the view of `s'` -/
def W33 (s : State) (toks : List Tok) (s' : State) : Prop :=
  ∀ j, C33.walk (view33j s j) toks = some (view33j s' j)

theorem walk33_append (v : C33.View) (a b : List Tok) :
    C33.walk v (a ++ b) = (C33.walk v a).bind (fun v' => C33.walk v' b) := by
  induction a generalizing v with
  | nil => rfl
  | cons t ts ih =>
    simp only [List.cons_append, C33.walk]
    cases C33.onTok v t with
    | none => rfl
    | some v' => exact ih v'

theorem W33.trans {a b c : State} {t1 t2 : List Tok} (h1 : W33 a t1 b) (h2 : W33 b t2 c) : W33 a (t1 ++ t2) c := by
  intro j; rw [walk33_append, h1 j]; exact h2 j

theorem W33.nil (s : State) : W33 s [] s := fun _ => rfl

/-- futures and recorded metadata only grow -/
structure Grow (s s' : State) : Prop where
  futs : ∀ g ∈ s.w.futs, g ∈ s'.w.futs
  smeta : ∀ h p, p ∈ metaGet s.store.smeta h → p ∈ metaGet s'.store.smeta h

theorem Grow.refl (s : State) : Grow s s := ⟨fun _ h => h, fun _ _ h => h⟩
theorem Grow.trans {a b c : State} (h1 : Grow a b) (h2 : Grow b c) : Grow a c :=
  ⟨fun g hg => h2.futs g (h1.futs g hg), fun h p hp => h2.smeta h p (h1.smeta h p hp)⟩

/-- a block that has just been started -/
structure NewFut (s : State) (f : Fut) : Prop where
  mem : f ∈ s.w.futs
  pending : f.pending = f.shares
  fresh : f.timedOut = false
  ok : C33.sharesOK f.width f.shares = true
  width : f.width = (s.hdr f.height).width
  recorded : ∀ p ∈ f.shares, p ∈ metaGet s.store.smeta f.height

theorem NewFut.grow {s s' : State} {f : Fut} (h : NewFut s f) (g : Grow s s') (hh : s'.hdr = s.hdr) : NewFut s' f :=
  ⟨g.futs f h.mem, h.pending, h.fresh, h.ok, by rw [hh]; exact h.width, fun p hp => g.smeta _ p (h.recorded p hp)⟩

theorem find_blk : ∀ {futs : List Fut} {f : Fut}, f ∈ futs → (futs.map (·.height)).Nodup →
    (futs.map blkOf).find? (fun b => b.height == f.height) = some (blkOf f)
  | g :: rest, f, hf, hnd => by
    simp only [List.map_cons, List.nodup_cons] at hnd
    rcases List.mem_cons.1 hf with rfl | hf
    · simp [List.find?_cons, blkOf]
    · have hne : (g.height == f.height) = false := by
        simp only [beq_eq_false_iff_ne, ne_eq]
        intro hgf
        exact hnd.1 (List.mem_map.2 ⟨f, hf, hgf.symm⟩)
      simp only [List.map_cons, List.find?_cons]
      have : ((blkOf g).height == f.height) = false := hne
      rw [this]
      exact find_blk hf hnd.2

theorem sameSet_refl (l : List Share) : C33.sameSet l l = true := by
  simp [C33.sameSet]

/-- the first poll of freshly started futures is accepted: `SamplingStarted` lists the chosen shares and
    every request is for a share already recorded -/
theorem W33_pollNew {s : State} (hnd : (s.w.futs.map (·.height)).Nodup) (fs : List Fut)
    (hfs : ∀ f ∈ fs, NewFut s f) : W33 s (pollNew fs) s := by
  intro j
  unfold pollNew
  rw [walk33_append]
  have hfind : ∀ f ∈ fs, C33.findBlk (view33j s j) f.height = some (blkOf f) := by
    intro f hf
    exact find_blk (hfs f hf).mem hnd
  have h1 : ∀ (l : List Fut), (∀ f ∈ l, f ∈ fs) →
      C33.walk (view33j s j) (l.map (fun f => Tok.started f.height f.width f.shares)) = some (view33j s j) := by
    intro l
    induction l with
    | nil => intro _; rfl
    | cons f l ih =>
      intro hl
      have hf := hl f (by simp)
      have hn := hfs f hf
      have hw : (f.width == (view33j s j).width f.height) = true := by
        simp [view33j, view33, hn.width]
      simp only [List.map_cons, C33.walk, C33.onTok, hfind f hf, blkOf, hw, sameSet_refl, hn.ok, Bool.and_self, if_true]
      exact ih (fun g hg => hl g (by simp [hg]))
  have h2 : ∀ (l : List Fut), (∀ f ∈ l, f ∈ fs) →
      C33.walk (view33j s j) (l.map (fun f => Tok.req f.height f.shares)) = some (view33j s j) := by
    intro l
    induction l with
    | nil => intro _; rfl
    | cons f l ih =>
      intro hl
      have hf := hl f (by simp)
      have hn := hfs f hf
      have hnodup : decide f.shares.Nodup = true := by
        have := hn.ok
        simp only [C33.sharesOK, Bool.and_eq_true] at this
        exact this.1.1
      have hrec : f.shares.all (fun p => ((view33j s j).recorded f.height).contains p) = true := by
        simp only [List.all_eq_true, view33j, view33]
        intro p hp
        simpa using hn.recorded p hp
      simp only [List.map_cons, C33.walk, C33.onTok, hfind f hf, blkOf, sameSet_refl, hnodup, hrec, Bool.and_self, if_true]
      exact ih (fun g hg => hl g (by simp [hg]))
  rw [h1 fs (fun _ h => h)]
  exact h2 fs (fun _ h => h)

theorem view33j_congr {s s' : State} (hst : s'.store = s.store) (hfu : s'.w.futs = s.w.futs) (hf : Frame s s')
    (j : Option Nat) : view33j s' j = view33j s j := by
  simp only [view33j, view33, hst, hfu, hf.hdr, hf.connected]

/-- reading the store is invisible to the C33 monitor -/
theorem W33_of_same {s s' : State} {toks : List Tok} (hst : s'.store = s.store) (hfu : s'.w.futs = s.w.futs)
    (hf : Frame s s') (htoks : ∀ t ∈ toks, t = Tok.scan) : W33 s toks s' := by
  intro j
  rw [view33j_congr hst hfu hf j]
  induction toks with
  | nil => rfl
  | cons t ts ih =>
    have := htoks t (by simp)
    subst this
    simp only [C33.walk, C33.onTok]
    exact ih (fun t ht => htoks t (by simp [ht]))

theorem W33.to_same {a b c : State} {t : List Tok} (h : W33 a t b) (hst : c.store = b.store) (hfu : c.w.futs = b.w.futs)
    (hf : Frame b c) : W33 a t c := by
  intro j; rw [view33j_congr hst hfu hf j]; exact h j

theorem Grow.of_same {s s' : State} (hst : s'.store = s.store) (hfu : s'.w.futs = s.w.futs) : Grow s s' :=
  ⟨fun g hg => by rw [hfu]; exact hg, fun h p hp => by rw [hst]; exact hp⟩

/-! ### `update_queue` -/

theorem updateQueue_good {s : State} {hand : Option Nat} (hi : Inv' s hand) :
    Good (updateQueue s) (fun r => Inv r.1 ∧ Frame s r.1 ∧ r.1.store = s.store ∧ r.1.w.futs = s.w.futs ∧
      r.2 = [Tok.scan] ∧ C34.walk (view34 s) r.2 = some (view34 r.1) ∧
      (∀ x, mem r.1.w.queue x → mem r.1.store.stored x)) := by
  unfold updateQueue
  obtain ⟨c, hc, hci, hcm⟩ := sub_spec hi.stored hi.sampled
  obtain ⟨q1, hq1, hq1i, hq1m⟩ := sub_spec hci hi.timedOut
  obtain ⟨q2, hq2, hq2i, hq2m⟩ := sub_spec hq1i hi.ongoing
  obtain ⟨q3, hq3, hq3i, hq3m⟩ := sub_spec hq2i hi.wbp
  refine Good.bind (Good.liftR hc (P := fun a => c = a) rfl) ?_
  rintro _ rfl
  refine Good.bind (Good.liftR hq1 (P := fun a => q1 = a) rfl) ?_
  rintro _ rfl
  refine Good.bind (Good.liftR hq2 (P := fun a => q2 = a) rfl) ?_
  rintro _ rfl
  refine Good.bind (Good.liftR hq3 (P := fun a => q3 = a) rfl) ?_
  rintro _ rfl
  refine Good.pure ⟨?_, ⟨rfl, rfl, rfl, rfl⟩, rfl, rfl, rfl, ?_, ?_⟩
  · refine ⟨hi.stored, hi.sampled, hq3i, hi.timedOut, hi.ongoing, hi.wbp, hci, ?_, hi.ongoing_eq, hi.nodup, ?_, hi.futs_le, hi.disc⟩
    · intro x
      simp only [hq3m, hq2m, hq1m, ne_eq, reduceCtorEq, not_false_eq_true, true_and]
      tauto
    · intro x hx
      dsimp only at hx ⊢
      have hxs := ((hcm x).1 hx).1
      cases hh : head s.store.stored with
      | none => rw [head_eq_none_iff] at hh; rw [hh] at hxs; exact absurd hxs (mem_nil x)
      | some y => exact (head_spec hi.stored hh).2 x hxs
  · simp only [C34.walk, C34.onTok, view34]
    congr 2
    symm
    apply contains_eq_of_iff
    intro x
    rw [hcm, ← contains_iff_mem, ← contains_false_iff]
    cases contains s.store.stored x <;> cases contains s.store.sampled x <;> simp
  · intro x hx
    dsimp only at hx ⊢
    exact ((hcm x).1 ((hq1m x).1 ((hq2m x).1 ((hq3m x).1 hx).1).1).1).1

/-! ### the `loop` of `schedule_next_sample_block` -/

/-- a height has been popped and passed the concurrency and store checks -/
structure Picked (s : State) (h : Nat) : Prop where
  inv : Inv' s (some h)
  stored : contains s.store.stored h = true
  cand : mem s.w.cand h
  nto : ¬ mem s.w.timedOut h
  nong : ¬ mem s.w.ongoing h
  nwbp : ¬ mem s.w.willBePruned h
  maxi : ∀ x, mem s.w.cand x → ¬ mem s.w.timedOut x → ¬ mem s.w.ongoing x → ¬ mem s.w.willBePruned x → x ≤ h
  lim : s.w.futs.length < concurrencyLimit s.cfg s.w h

def PickPost (s : State) (r : Option Nat × State × List Tok) : Prop :=
  Frame s r.2.1 ∧ r.2.1.store = s.store ∧ r.2.1.w.futs = s.w.futs ∧
  C34.walk (view34 s) r.2.2 = some (view34 r.2.1) ∧ (∀ t ∈ r.2.2, t = Tok.scan) ∧
  match r.1 with
  | none => Inv r.2.1
  | some h => Picked r.2.1 h

theorem pickHeader_step {s : State} (hi : Inv s) (fuel : Nat)
    (hqs : (∀ x, mem s.w.queue x → mem s.store.stored x) ∨
      (∀ s2, Inv s2 → (∀ x, mem s2.w.queue x → mem s2.store.stored x) → Good (pickHeader fuel s2) (PickPost s2))) :
    Good (pickHeader (fuel + 1) s) (PickPost s) := by
  unfold pickHeader
  rcases popHead_spec hi.queue with ⟨hnil, hpop⟩ | ⟨h, rs', hpop, hrs', hmem, hmax, hrm⟩
  · refine Good.bind (Good.liftR hpop (P := fun a => a = (none, s.w.queue)) rfl) ?_
    rintro _ rfl
    exact Good.pure ⟨Frame.refl s, rfl, rfl, rfl, by simp, hi⟩
  · refine Good.bind (Good.liftR hpop (P := fun a => a = (some h, rs')) rfl) ?_
    rintro _ rfl
    dsimp only
    have hq := (hi.queue_eq h).1 hmem
    have hb := mem_bounds hi.queue hmem
    split
    · -- concurrency limit reached: put it back
      obtain ⟨q2, hq2, hq2i, hq2m⟩ := insertRelaxed_spec hrs' (validR_single hb.1 hb.2)
      refine Good.bind (Good.liftR hq2 (P := fun a => q2 = a) rfl) ?_
      rintro _ rfl
      refine Good.pure ⟨⟨rfl, rfl, rfl, rfl⟩, rfl, rfl, rfl, by simp, ?_⟩
      refine ⟨hi.stored, hi.sampled, hq2i, hi.timedOut, hi.ongoing, hi.wbp, hi.cand, ?_, hi.ongoing_eq, hi.nodup,
        hi.cand_le, hi.futs_le, hi.disc⟩
      intro x
      dsimp only
      rw [hq2m, hrm, ← hi.queue_eq]
      constructor
      · rintro (⟨hx, _⟩ | ⟨h1, h2⟩)
        · exact hx
        · have : x = h := by simp at h1 h2; omega
          subst this; exact hmem
      · intro hx
        by_cases hxh : x = h
        · right; subst hxh; simp
        · left; exact ⟨hx, hxh⟩
    · have hi1 : Inv' { s with w := { s.w with queue := rs' } } (some h) := by
        refine ⟨hi.stored, hi.sampled, hrs', hi.timedOut, hi.ongoing, hi.wbp, hi.cand, ?_, hi.ongoing_eq, hi.nodup,
          hi.cand_le, hi.futs_le, hi.disc⟩
        intro x
        dsimp only
        rw [hrm, hi.queue_eq]
        simp only [ne_eq, reduceCtorEq, not_false_eq_true, true_and, Option.some.injEq]
        tauto
      split
      · -- header found
        rename_i hlim hst
        refine Good.pure ⟨⟨rfl, rfl, rfl, rfl⟩, rfl, rfl, rfl, by simp, ?_⟩
        exact ⟨hi1, hst, hq.2.1, hq.2.2.1, hq.2.2.2.1, hq.2.2.2.2,
          fun x h1 h2 h3 h4 => hmax x ((hi.queue_eq x).2 ⟨by simp, h1, h2, h3, h4⟩), by simpa using hlim⟩
      · -- not in the store: the queue is stale; repopulate and try again
        rename_i hlim hst
        rcases hqs with hqs | hrec
        · exact absurd ((contains_iff_mem _ _).2 (hqs h hmem)) hst
        · refine Good.bind (updateQueue_good hi1) ?_
          rintro ⟨s2, t2⟩ ⟨hi2, hf2, hst2, hfu2, rfl, hw2, hqs2⟩
          refine Good.bind (hrec s2 hi2 hqs2) ?_
          rintro ⟨r, s3, t3⟩ ⟨hf3, hst3, hfu3, hw3, hsc3, hr⟩
          refine Good.pure ⟨?_, ?_, ?_, ?_, ?_, hr⟩
          · exact Frame.trans (Frame.trans (b := { s with w := { s.w with queue := rs' } }) ⟨rfl, rfl, rfl, rfl⟩ hf2) hf3
          · exact hst3.trans hst2
          · exact hfu3.trans hfu2
          · dsimp only at hw2 hw3 ⊢
            rw [walk34_append]
            have : C34.walk (view34 s) [Tok.scan] = some (view34 s2) := hw2
            rw [this]
            exact hw3
          · intro t ht
            simp only [List.mem_append, List.mem_singleton] at ht
            rcases ht with rfl | ht
            · rfl
            · exact hsc3 t ht

theorem pickHeader_good {s : State} (hi : Inv s) (fuel : Nat) :
    Good (pickHeader (fuel + 2) s) (PickPost s) :=
  pickHeader_step hi (fuel + 1) (Or.inr (fun _ h2 q2 => pickHeader_step h2 fuel (Or.inl q2)))

theorem concurrencyLimit_le (cfg : Cfg) (w : Worker) (h : Nat) : concurrencyLimit cfg w h ≤ cfg.limit + cfg.extra := by
  unfold concurrencyLimit
  split
  · omega
  · split <;> omega

/-- the monitor's start condition holds for a picked height whose header is inside the window -/
theorem startOK_of_picked {s : State} {h : Nat} (hp : Picked s h) (hfresh : (s.hdr h).fresh = true)
    (hconn : s.w.connected = true) (hdead : s.w.dead = false) (hthr : s.cfg.prunerThreshold = 512) :
    C34.startOK (view34 s) h = true := by
  have hb := mem_bounds hp.inv.cand hp.cand
  have helig : ∀ x, C34.eligible (view34 s) x = true ↔
      (mem s.w.cand x ∧ ¬ mem s.w.ongoing x ∧ ¬ mem s.w.willBePruned x ∧ ¬ mem s.w.timedOut x) := by
    intro x
    simp only [C34.eligible, view34, Bool.and_eq_true, Bool.not_eq_true', contains_iff_mem, contains_false_iff]
    tauto
  have hlim := hp.lim
  unfold concurrencyLimit at hlim
  simp only [C34.startOK, Bool.and_eq_true, Bool.or_eq_true, Bool.not_eq_true', List.all_eq_true, decide_eq_true_eq]
  refine ⟨⟨⟨⟨⟨⟨⟨?_, ?_⟩, ?_⟩, ?_⟩, ?_⟩, ?_⟩, ?_⟩, ?_⟩
  · simp [view34, hdead]
  · simp [view34, hconn]
  · exact hp.stored
  · exact (helig h).2 ⟨hp.cand, hp.nong, hp.nwbp, hp.nto⟩
  · intro x hx
    simp only [C34.above, List.mem_range'_1] at hx
    cases he : C34.eligible (view34 s) x
    · rfl
    · obtain ⟨h1, h2, h3, h4⟩ := (helig x).1 he
      have := hp.maxi x h1 h4 h2 h3
      omega
  · exact hfresh
  · split at hlim
    · omega
    · rename_i hc
      simp only [view34, hthr] at hc ⊢
      cases hd : (decide (h ≤ s.w.highestPrunable.getD 0) && decide (s.w.numPrunable ≥ 512))
      · exact hd
      · exact absurd hd hc
  · split at hlim
    · omega
    · split at hlim
      · rename_i hh
        right
        simp only [view34]
        refine ⟨?_, hlim⟩
        have : h = s.w.headHeight.getD 0 := by simpa using hh
        cases hhh : s.w.headHeight with
        | none => rw [hhh] at this; simp at this; omega
        | some y => rw [hhh] at this; simp at this; subst this; simp
      · left; exact hlim

/-! ### `schedule_next_sample_block` -/

/-- hypotheses under which the worker schedules: connected, alive, thresholds as stated -/
structure Sched (s : State) : Prop where
  conn : s.w.connected = true
  alive : s.w.dead = false
  thr : CfgOK s.cfg

theorem Sched.frame {s s' : State} (h : Sched s) (f : Frame s s') : Sched s' :=
  ⟨f.connected.trans h.conn, f.dead.trans h.alive, by rw [f.cfg]; exact h.thr⟩

def NextPost (s : State) (r : Option Fut × State × List Tok) : Prop :=
  Frame s r.2.1 ∧ Inv r.2.1 ∧ Grow s r.2.1 ∧ W33 s r.2.2 r.2.1 ∧
  match r.1 with
  | some f => C34.walk (view34 s) r.2.2 = some (view34 r.2.1) ∧ r.2.1.w.futs = s.w.futs ++ [f] ∧ NewFut r.2.1 f
  | none => WalkTo s r.2.2 r.2.1 ∧ r.2.1.w.futs = s.w.futs

theorem scheduleNext_good {s : State} (hi : Inv s) (hs : Sched s) (draws : List (Nat × Nat)) :
    Good (scheduleNext s draws) (NextPost s) := by
  unfold scheduleNext
  refine Good.bind (pickHeader_good hi 1) ?_
  rintro ⟨top, s1, t1⟩ ⟨hf1, hst1, hfu1, hw1, hsc1, hr⟩
  have hw33 : W33 s t1 s1 := W33_of_same hst1 hfu1 hf1 hsc1
  have hg1 : Grow s s1 := Grow.of_same hst1 hfu1
  cases top with
  | none =>
    exact Good.pure ⟨hf1, hr, hg1, hw33, ⟨_, hw1, rfl⟩, hfu1⟩
  | some h =>
    dsimp only at hr hw1 hfu1 hst1 ⊢
    have hp : Picked s1 h := hr
    have hb := mem_bounds hp.inv.cand hp.cand
    have hs1 := hs.frame hf1
    split
    · -- outside the sampling window: everything up to `h` is dropped
      have hv : ValidR (1, h) := ⟨Nat.le_refl _, hb.1, hb.2⟩
      obtain ⟨q, hq, hqi, hqm⟩ := removeRelaxed_spec hp.inv.queue hv
      obtain ⟨t, ht, hti, htm⟩ := insertRelaxed_spec hp.inv.timedOut hv
      refine Good.bind (Good.liftR hq (P := fun a => q = a) rfl) ?_
      rintro _ rfl
      refine Good.bind (Good.liftR ht (P := fun a => t = a) rfl) ?_
      rintro _ rfl
      refine Good.pure ⟨Frame.trans hf1 ⟨rfl, rfl, rfl, rfl⟩, ?_, Grow.trans hg1 (Grow.of_same rfl rfl), ?_, ⟨_, hw1, rfl⟩, hfu1⟩
      rotate_left
      · exact hw33.to_same rfl rfl ⟨rfl, rfl, rfl, rfl⟩
      refine ⟨hp.inv.stored, hp.inv.sampled, hqi, hti, hp.inv.ongoing, hp.inv.wbp, hp.inv.cand, ?_, hp.inv.ongoing_eq,
        hp.inv.nodup, hp.inv.cand_le, hp.inv.futs_le, hp.inv.disc⟩
      intro x
      dsimp only
      rw [hqm, htm, hp.inv.queue_eq]
      simp only [ne_eq, Option.some.injEq, reduceCtorEq, not_false_eq_true, true_and]
      constructor
      · rintro ⟨⟨h1, h2, h3, h4, h5⟩, h6⟩
        exact ⟨h2, fun hc => hc.elim h3 h6, h4, h5⟩
      · rintro ⟨h2, h3, h4, h5⟩
        have hxb := mem_bounds hp.inv.cand h2
        refine ⟨⟨?_, h2, fun hc => h3 (Or.inl hc), h4, h5⟩, fun hc => h3 (Or.inr hc)⟩
        intro hxh; subst hxh
        exact h3 (Or.inr ⟨hxb.1, Nat.le_refl _⟩)
    · rename_i hfr
      have hfresh : (s1.hdr h).fresh = true := by simpa using hfr
      split
      · exact rfl
      · rename_i shares hri
        obtain ⟨o, ho, hoi, hom⟩ := insertRelaxed_spec hp.inv.ongoing (validR_single hb.1 hb.2)
        refine Good.bind (Good.liftR ho (P := fun a => o = a) rfl) ?_
        rintro _ rfl
        have hok : C33.sharesOK (s1.hdr h).width shares = true := by
          have := hs1.thr.2
          rw [this] at hri
          exact sharesOK_of_randomIndexes _ _ _ hri
        have hnd : shares.Nodup := by
          simp only [C33.sharesOK, Bool.and_eq_true, decide_eq_true_eq] at hok
          exact hok.1.1
        have hmeta := metaGet_metaUpdate h shares hnd s1.store.smeta
        have hnoblk : ∀ g ∈ s1.w.futs, g.height ≠ h := fun g hg hgh => hp.nong ((hp.inv.ongoing_eq h).2 ⟨g, hg, hgh⟩)
        have hgrow : Grow s1 { s1 with store := { s1.store with smeta := metaUpdate s1.store.smeta h shares }, w := { s1.w with futs := s1.w.futs ++ [{ height := h, width := (s1.hdr h).width, shares := shares, pending := shares, timedOut := false }], ongoing := o } } := by
          refine ⟨fun g hg => List.mem_append_left _ hg, ?_⟩
          intro x p hp'
          dsimp only
          rw [hmeta]
          simp only [C33.setRecorded]
          split
          · rename_i hx
            have hx' : x = h := by simpa using hx
            subst hx'
            rw [addAll_eq, mem_foldl_setInsert]; exact Or.inl hp'
          · exact hp'
        refine Good.pure ⟨Frame.trans hf1 ⟨rfl, rfl, rfl, rfl⟩, ?inv, Grow.trans hg1 hgrow, ?w33, ?w34, by dsimp only; rw [hfu1], ?nf⟩
        case w33 =>
          -- the C33 monitor: the chosen shares are recorded, a block record is opened
          refine W33.trans hw33 ?_
          intro j
          have hnone : (C33.findBlk (view33j s1 j) h).isNone = true := by
            simp only [C33.findBlk, view33j, view33, Option.isNone_iff_eq_none, List.find?_eq_none, List.mem_map,
              beq_iff_eq]
            rintro b ⟨g, hg, rfl⟩
            exact hnoblk g hg
          have hok' : C33.sharesOK ((view33j s1 j).width h) shares = true := hok
          simp only [C33.walk, C33.onTok, hok', hnone, Bool.and_self, if_true]
          simp only [view33j, view33, hmeta, List.map_append, List.map_cons, List.map_nil, blkOf]
        case nf =>
          -- the new future
          refine ⟨by dsimp only; simp, rfl, rfl, hok, rfl, ?_⟩
          intro p hp'
          dsimp only
          rw [hmeta]
          simp only [C33.setRecorded, beq_self_eq_true, if_true, addAll_eq, mem_foldl_setInsert]
          exact Or.inr hp'
        case inv =>
          refine ⟨hp.inv.stored, hp.inv.sampled, hp.inv.queue, hp.inv.timedOut, hoi, hp.inv.wbp, hp.inv.cand, ?_, ?_, ?_,
            hp.inv.cand_le, ?_, fun hc => by rw [hs1.conn] at hc; cases hc⟩
          · intro x
            dsimp only
            rw [hom, hp.inv.queue_eq]
            simp only [ne_eq, Option.some.injEq, reduceCtorEq, not_false_eq_true, true_and]
            constructor
            · rintro ⟨h1, h2, h3, h4, h5⟩
              exact ⟨h2, h3, fun hc => hc.elim h4 (fun hh => h1 (by omega)), h5⟩
            · rintro ⟨h2, h3, h4, h5⟩
              refine ⟨?_, h2, h3, fun hc => h4 (Or.inl hc), h5⟩
              intro hxh; subst hxh
              exact h4 (Or.inr ⟨Nat.le_refl _, Nat.le_refl _⟩)
          · intro x
            dsimp only
            rw [hom, hp.inv.ongoing_eq]
            simp only [List.mem_append, List.mem_singleton]
            constructor
            · rintro (⟨f, hf, rfl⟩ | hx)
              · exact ⟨f, Or.inl hf, rfl⟩
              · exact ⟨_, Or.inr rfl, by dsimp only; omega⟩
            · rintro ⟨f, hf | rfl, rfl⟩
              · exact Or.inl ⟨f, hf, rfl⟩
              · right; dsimp only; omega
          · dsimp only
            rw [List.map_append, List.nodup_append]
            refine ⟨hp.inv.nodup, by simp, ?_⟩
            intro a ha b hb'
            simp only [List.map_cons, List.map_nil, List.mem_singleton] at hb'
            subst hb'
            obtain ⟨f, hf, rfl⟩ := List.mem_map.1 ha
            intro hfe
            exact hp.nong ((hp.inv.ongoing_eq _).2 ⟨f, hf, hfe⟩)
          · dsimp only
            have := hp.lim
            have := concurrencyLimit_le s1.cfg s1.w h
            simp only [List.length_append, List.length_singleton]
            omega
        case w34 =>
          dsimp only
          rw [walk34_append, hw1]
          simp only [Option.bind, C34.walk, C34.onTok, C34.start, startOK_of_picked hp hfresh hs1.conn hs1.alive hs1.thr.1, if_true]
          congr 1
          simp only [view34, List.length_append, List.length_singleton]
          congr 1
          symm
          apply contains_eq_of_iff
          intro x
          rw [hom]
          simp only [C34.add, Bool.or_eq_true, beq_iff_eq, contains_iff_mem]
          constructor
          · rintro (hx | hx)
            · exact Or.inr hx
            · left; omega
          · rintro (hx | hx)
            · right; omega
            · exact Or.inl hx

/-! ### the `while` loop and the following `select!` -/

def LoopPost (s : State) (r : List Fut × State × List Tok) : Prop :=
  Frame s r.2.1 ∧ Inv r.2.1 ∧ WalkTo s r.2.2 r.2.1 ∧ r.2.1.w.futs = s.w.futs ++ r.1 ∧
  Grow s r.2.1 ∧ W33 s r.2.2 r.2.1 ∧ ∀ f ∈ r.1, NewFut r.2.1 f

theorem scheduleLoop_good : ∀ (fuel : Nat) (s : State) (rnd : List (List (Nat × Nat))), Inv s → Sched s →
    s.cfg.limit + s.cfg.extra < fuel + s.w.futs.length → Good (scheduleLoop fuel s rnd) (LoopPost s)
  | 0, s, _, hi, _, hlt => by
    have := hi.futs_le; omega
  | fuel + 1, s, rnd, hi, hs, hlt => by
    unfold scheduleLoop
    refine Good.bind (scheduleNext_good hi hs _) ?_
    rintro ⟨r, s1, t1⟩ ⟨hf1, hi1, hg1, hw33, hr⟩
    cases r with
    | none =>
      exact Good.pure ⟨hf1, hi1, hr.1, by rw [hr.2]; simp, hg1, hw33, by simp⟩
    | some f =>
      dsimp only at hr hg1 hw33 ⊢
      have hlt1 : s1.cfg.limit + s1.cfg.extra < fuel + s1.w.futs.length := by
        rw [hf1.cfg, hr.2.1]; simp only [List.length_append, List.length_singleton]; omega
      refine Good.bind (scheduleLoop_good fuel s1 rnd.tail hi1 (hs.frame hf1) hlt1) ?_
      rintro ⟨fs, s2, t2⟩ ⟨hf2, hi2, hw2, hfu2, hg2, hw33', hnf⟩
      refine Good.pure ⟨Frame.trans hf1 hf2, hi2, ?_, ?_, Grow.trans hg1 hg2, W33.trans hw33 hw33', ?_⟩
      · obtain ⟨v', hv', hip⟩ := hw2
        exact ⟨v', by dsimp only at hv' ⊢; rw [walk34_append, hr.1]; exact hv', hip⟩
      · dsimp only at hfu2 ⊢
        rw [hfu2, hr.2.1]; simp
      · intro g hg
        rcases List.mem_cons.1 hg with rfl | hg
        · exact hr.2.2.grow hg2 hf2.hdr
        · exact hnf g hg

def AllPost (s : State) (r : State × List Tok) : Prop :=
  Frame s r.1 ∧ Inv r.1 ∧ (C34.walk (view34 s) r.2).isSome = true ∧ W33 s r.2 r.1

theorem scheduleAll_good {s : State} (hi : Inv s) (hs : Sched s) (rnd : List (List (Nat × Nat))) :
    Good (scheduleAll s rnd) (AllPost s) := by
  unfold scheduleAll
  refine Good.bind (scheduleLoop_good _ s rnd hi hs (by omega)) ?_
  rintro ⟨fs, s1, t1⟩ ⟨hf1, hi1, ⟨v', hw1, hip⟩, hfu, _, hw33, hnf⟩
  refine Good.pure ⟨hf1, hi1, ?_, W33.trans hw33 (W33_pollNew hi1.nodup fs hnf)⟩
  dsimp only at hw1 hip hfu ⊢
  rw [walk34_append, hw1]
  have hin : ∀ f ∈ fs, v'.inProgress f.height = true := by
    intro f hf
    rw [hip]
    simp only [view34, contains_iff_mem]
    exact (hi1.ongoing_eq _).2 ⟨f, by rw [hfu]; exact List.mem_append_right _ hf, rfl⟩
  simp [Option.bind, walk34_pollNew v' fs hin]

/-! ### the store (environment) -/

/-- the stimulus' arguments are `u64` values -/
def EvWF : Ev → Prop
  | .insert _ hi => hi ≤ U64_MAX
  | .prune h => h ≤ U64_MAX
  | _ => True

instance (ev : Ev) : Decidable (EvWF ev) := by
  cases ev <;> unfold EvWF <;> infer_instance

theorem storeInsert_spec {st st' : StoreSt} {lo hi : Nat} (h1 : RInv st.stored) (h2 : RInv st.sampled)
    (hhi : hi ≤ U64_MAX) (h : storeInsert st lo hi = some st') :
    RInv st'.stored ∧ RInv st'.sampled ∧ st'.smeta = st.smeta ∧
    (∀ x, mem st'.stored x ↔ mem st.stored x ∨ (lo ≤ x ∧ x ≤ hi)) ∧
    (∀ x, mem st'.sampled x ↔ mem st.sampled x ∧ ¬ (lo ≤ x ∧ x ≤ hi)) ∧
    head st'.stored = some (max hi ((head st.stored).getD 0)) := by
  unfold storeInsert at h
  cases hc : checkInsertionConstraints st.stored (lo, hi) with
  | error e => rw [hc] at h; simp at h
  | ok b =>
    rw [hc] at h
    have hvalid : Range.valid (lo, hi) = true := by
      cases hv : Range.valid (lo, hi)
      · rw [checkInsertionConstraints_invalid hv] at hc; simp at hc
      · rfl
    have hv : ValidR (lo, hi) := by
      have := (valid_iff (lo, hi)).1 hvalid
      exact ⟨this.1, this.2, hhi⟩
    obtain ⟨a, ha, hai, ham⟩ := insertRelaxed_spec h1 hv
    obtain ⟨b', hb, hbi, hbm⟩ := removeRelaxed_spec h2 hv
    rw [ha, hb] at h
    simp only [Option.some.injEq] at h
    subst h
    exact ⟨hai, hbi, rfl, ham, hbm, head_insert hai h1 hv ham⟩

theorem storeRemove_spec {st st' : StoreSt} {h : Nat} (h1 : RInv st.stored) (h2 : RInv st.sampled)
    (hr : storeRemove st h = some st') :
    RInv st'.stored ∧ RInv st'.sampled ∧
    (∀ x, mem st'.stored x ↔ mem st.stored x ∧ x ≠ h) ∧
    (∀ x, mem st'.sampled x ↔ mem st.sampled x ∧ x ≠ h) ∧
    head st'.stored = (if head st.stored == some h then findBelow (fun x => contains st.stored x) h else head st.stored) := by
  unfold storeRemove at hr
  cases hc : contains st.stored h with
  | false => rw [hc] at hr; simp at hr
  | true =>
    rw [hc] at hr
    have hb := mem_bounds h1 ((contains_iff_mem _ _).1 hc)
    have hv := validR_single hb.1 hb.2
    obtain ⟨a, ha, hai, ham⟩ := removeRelaxed_spec h1 hv
    obtain ⟨b', hb', hbi, hbm⟩ := removeRelaxed_spec h2 hv
    rw [ha, hb'] at hr
    simp only [Bool.not_true, Bool.false_eq_true, if_false, Option.some.injEq] at hr
    subst hr
    have ham' : ∀ x, mem a x ↔ mem st.stored x ∧ x ≠ h := by
      intro x; rw [ham]; simp only [and_congr_right_iff]; intro _; omega
    have hbm' : ∀ x, mem b' x ↔ mem st.sampled x ∧ x ≠ h := by
      intro x; rw [hbm]; simp only [and_congr_right_iff]; intro _; omega
    exact ⟨hai, hbi, ham', hbm', head_remove hai h1 ham'⟩

/-! ### one stimulus -/

def EvPost (s : State) (ev : Ev) (r : State × List Tok) : Prop :=
  Inv r.1 ∧ r.1.cfg = s.cfg ∧ r.1.hdr = s.hdr ∧ C34.specOK (view34 s) ev r.2 = true ∧
  C33.specOK (view33 s) ev r.2 = true

theorem isSome_of_W33 {v0 : C33.View} {s1 s2 : State} {toks : List Tok} (hv : v0 = view33j s1 none)
    (hw : W33 s1 toks s2) : (C33.walk v0 toks).isSome = true := by
  rw [hv, hw none]; rfl

theorem scan_ne_storeErr (t : List Tok) : ((Tok.scan :: t) == [Tok.storeErr]) = false := by
  cases t <;> simp

/-- `update_queue` followed by scheduling, from a state whose view is `v0` -/
theorem rescan_good {s : State} (hi : Inv s) (hs : Sched s) (rnd : List (List (Nat × Nat))) :
    Good (do let (s3, t3) ← updateQueue s; let (s4, t4) ← scheduleAll s3 rnd; pure (s4, t3 ++ t4))
      (fun r => Frame s r.1 ∧ Inv r.1 ∧ (C34.walk (view34 s) r.2).isSome = true ∧ (∃ t, r.2 = Tok.scan :: t) ∧
        W33 s r.2 r.1) := by
  refine Good.bind (updateQueue_good hi) ?_
  rintro ⟨s3, t3⟩ ⟨hi3, hf3, hst3, hfu3, rfl, hw3, _⟩
  refine Good.bind (scheduleAll_good hi3 (hs.frame hf3) rnd) ?_
  rintro ⟨s4, t4⟩ ⟨hf4, hi4, hw4, hw33⟩
  refine Good.pure ⟨Frame.trans hf3 hf4, hi4, ?_, ⟨t4, rfl⟩,
    W33.trans (W33_of_same hst3 hfu3 hf3 (by simp)) hw33⟩
  dsimp only at hw3 hw4 ⊢
  rw [walk34_append, hw3]
  exact hw4

theorem insert_good {s : State} (hi : Inv s) (hal : s.w.dead = false) (hthr : CfgOK s.cfg)
    (lo hi' : Nat) (hhi : hi' ≤ U64_MAX) (rnd : List (List (Nat × Nat))) :
    Good (stepM s (.insert lo hi') rnd) (EvPost s (.insert lo hi')) := by
  simp only [stepM]
  cases hsi : storeInsert s.store lo hi' with
  | none =>
    exact Good.pure ⟨hi, rfl, rfl, by simp [C34.specOK, C34.applyEv, C34.walk, C34.onTok],
      by simp [C33.specOK, C33.applyEv, C33.walk, C33.onTok]⟩
  | some st =>
    obtain ⟨h1, h2, hsm, hm1, hm2, hhd⟩ := storeInsert_spec hi.stored hi.sampled hhi hsi
    have hv33 : ∀ rej, C33.applyEv (view33 s) (.insert lo hi') rej = view33j { s with store := st } none := by
      intro rej; simp only [C33.applyEv, view33j, view33, hsm]
    dsimp only
    have hi1 : Inv { s with store := st } := { hi with stored := h1, sampled := h2 }
    have hv1 : C34.applyEv (view34 s) (.insert lo hi') false = view34 { s with store := st } := by
      simp only [C34.applyEv, view34, Bool.false_eq_true, if_false, C34.View.mk.injEq, true_and, and_true]
      refine ⟨?_, ?_, hhd.symm⟩
      · symm; apply contains_eq_of_iff; intro x
        rw [hm1]; simp only [Bool.or_eq_true, Bool.and_eq_true, decide_eq_true_eq, contains_iff_mem]; tauto
      · symm; apply contains_eq_of_iff; intro x
        rw [hm2]; simp only [Bool.and_eq_true, Bool.not_eq_true', decide_eq_true_eq, contains_iff_mem,
          Bool.and_eq_false_imp, decide_eq_false_iff_not]
        constructor
        · rintro ⟨h3, h4⟩; exact ⟨fun h5 => by omega, h3⟩
        · rintro ⟨h3, h4⟩; exact ⟨h4, fun h5 => by have := h3 h5.1; omega⟩
    split
    · rename_i hc
      have hconn : s.w.connected = true := by simp only [Bool.and_eq_true] at hc; exact hc.1
      refine Good.mono (rescan_good (s := { s with store := st, w := { s.w with waitHead := (head st.stored).getD 0 } })
        { hi1 with } ⟨hconn, hal, hthr⟩ rnd) ?_
      rintro ⟨s4, t4⟩ ⟨hf, hi4, hw, ⟨t, rfl⟩, hw33⟩
      refine ⟨hi4, hf.cfg, hf.hdr, ?_, ?_⟩
      · simp only [C34.specOK, scan_ne_storeErr, hv1]
        exact hw
      · simp only [C33.specOK]
        exact isSome_of_W33 (hv33 _) (fun j => hw33 j)
    · refine Good.pure ⟨hi1, rfl, rfl, ?_, by simp [C33.specOK, C33.walk]⟩
      have : (([] : List Tok) == [Tok.storeErr]) = false := rfl
      simp only [C34.specOK, this, hv1, C34.walk, Option.isSome_some]

theorem remove_good {s : State} (hi : Inv s) (h : Nat) (rnd : List (List (Nat × Nat))) :
    Good (stepM s (.remove h) rnd) (EvPost s (.remove h)) := by
  simp only [stepM]
  cases hsr : storeRemove s.store h with
  | none =>
    exact Good.pure ⟨hi, rfl, rfl, by simp [C34.specOK, C34.applyEv, C34.walk, C34.onTok],
      by simp [C33.specOK, C33.applyEv, C33.walk, C33.onTok]⟩
  | some st =>
    obtain ⟨h1, h2, hm1, hm2, hhd⟩ := storeRemove_spec hi.stored hi.sampled hsr
    have hi1 : Inv { s with store := st } := { hi with stored := h1, sampled := h2 }
    refine Good.pure ⟨hi1, rfl, rfl, ?_, by simp [C33.specOK, C33.walk]⟩
    have : (([] : List Tok) == [Tok.storeErr]) = false := rfl
    simp only [C34.specOK, this, C34.walk, Option.isSome_some]

theorem view34_disconnect {s : State} (hal : s.w.dead = false) (hc : s.w.connected = true) :
    C34.applyEv (view34 s) (.peers 0) false = view34 (disconnect s) := by
  simp only [C34.applyEv, view34, hal, hc, disconnect, Bool.not_false, Bool.not_true, Bool.false_eq_true, if_false,
    Bool.true_and, beq_self_eq_true, if_true, C34.View.mk.injEq, true_and, List.length_nil, and_true]
  refine ⟨?_, ?_, ?_⟩ <;> (funext x; simp [C34.none', contains])

theorem inv_disconnect {s : State} (hi : Inv s) : Inv (disconnect s) := by
  refine ⟨hi.stored, hi.sampled, inv_nil, inv_nil, inv_nil, hi.wbp, inv_nil, ?_, ?_, ?_, ?_, ?_, ?_⟩ <;>
    simp [disconnect, mem_nil]

theorem peers_good {s : State} (hi : Inv s) (hal : s.w.dead = false) (hthr : CfgOK s.cfg)
    (n : Nat) (rnd : List (List (Nat × Nat))) :
    Good (stepM s (.peers n) rnd) (EvPost s (.peers n)) := by
  simp only [stepM]
  have hne : ∀ t : List Tok, C34.specOK (view34 s) (.peers n) t =
      (C34.walk (C34.applyEv (view34 s) (.peers n) false) t).isSome := by
    intro t; simp [C34.specOK, C34.applyEv]
  cases hc : s.w.connected with
  | true =>
    simp only [if_true]
    by_cases hn : n = 0
    · subst hn
      simp only [beq_self_eq_true, if_true]
      exact Good.pure ⟨inv_disconnect hi, rfl, rfl, by rw [hne]; simp [C34.walk], by simp [C33.specOK, C33.walk]⟩
    · have : (n == 0) = false := by simpa using hn
      simp only [this, Bool.false_eq_true, if_false]
      refine Good.mono (scheduleAll_good hi ⟨hc, hal, hthr⟩ rnd) ?_
      rintro ⟨s1, t1⟩ ⟨hf, hi1, hw, hw33⟩
      refine ⟨hi1, hf.cfg, hf.hdr, ?_, ?_⟩
      · rw [hne]
        have : C34.applyEv (view34 s) (.peers n) false = view34 s := by
          simp [C34.applyEv, view34, hal, hc, this]
        rw [this]; exact hw
      · simp only [C33.specOK]
        refine isSome_of_W33 ?_ hw33
        simp [C33.applyEv, view33j, view33, hc, this]
  | false =>
    simp only [Bool.false_eq_true, if_false]
    by_cases hn : n = 0
    · subst hn
      simp only [beq_self_eq_true, if_true]
      exact Good.pure ⟨hi, rfl, rfl, by rw [hne]; simp [C34.walk], by simp [C33.specOK, C33.walk]⟩
    · have hn' : (n == 0) = false := by simpa using hn
      simp only [hn', Bool.false_eq_true, if_false]
      unfold connect
      have hv0 : C34.applyEv (view34 s) (.peers n) false =
          view34 { s with w := { s.w with connected := true, waitHead := (head s.store.stored).getD 0 } } := by
        simp [C34.applyEv, view34, hal, hc, hn]
      refine Good.mono (rescan_good (s := { s with w := { s.w with connected := true, waitHead := (head s.store.stored).getD 0 } })
        { hi with disc := fun hc => by cases hc } ⟨rfl, hal, hthr⟩ rnd) ?_
      rintro ⟨s4, t4⟩ ⟨hf, hi4, hw, ⟨t, rfl⟩, hw33⟩
      refine ⟨hi4, hf.cfg, hf.hdr, ?_, ?_⟩
      · rw [hne, hv0]
        exact hw
      · simp only [C33.specOK]
        refine isSome_of_W33 ?_ hw33
        simp [C33.applyEv, view33j, view33, hc, hn]

theorem onWantToPrune_good {s : State} (hi : Inv s) (h : Nat) (h1 : 1 ≤ h) (h2 : h ≤ U64_MAX) :
    Good (onWantToPrune s h) (fun r => Frame s r.2 ∧ Inv r.2 ∧
      C34.onTok (view34 s) (Tok.grant h r.1) = some (view34 r.2) ∧ r.2.store = s.store ∧ r.2.w.futs = s.w.futs) := by
  unfold onWantToPrune
  split
  · exact Good.pure ⟨Frame.refl s, hi, rfl, rfl, rfl⟩
  · rename_i hc
    have hno : ¬ mem s.w.ongoing h := by rw [← contains_iff_mem]; exact hc
    obtain ⟨q, hq, hqi, hqm⟩ := removeRelaxed_spec hi.queue (validR_single h1 h2)
    obtain ⟨p, hp, hpi, hpm⟩ := insertRelaxed_spec hi.wbp (validR_single h1 h2)
    refine Good.bind (Good.liftR hq (P := fun a => q = a) rfl) ?_
    rintro _ rfl
    refine Good.bind (Good.liftR hp (P := fun a => p = a) rfl) ?_
    rintro _ rfl
    refine Good.pure ⟨⟨rfl, rfl, rfl, rfl⟩, ?_, ?_, rfl, rfl⟩
    · refine ⟨hi.stored, hi.sampled, hqi, hi.timedOut, hi.ongoing, hpi, hi.cand, ?_, hi.ongoing_eq, hi.nodup,
        hi.cand_le, hi.futs_le, hi.disc⟩
      intro x
      dsimp only
      rw [hqm, hpm, hi.queue_eq]
      simp only [ne_eq, reduceCtorEq, not_false_eq_true, true_and]
      constructor
      · rintro ⟨⟨a, b, c, d⟩, e⟩
        exact ⟨a, b, c, fun hc => hc.elim d e⟩
      · rintro ⟨a, b, c, d⟩
        exact ⟨⟨a, b, c, fun hc => d (Or.inl hc)⟩, fun hc => d (Or.inr hc)⟩
    · simp only [C34.onTok, if_true, view34, Option.some.injEq, C34.View.mk.injEq, true_and, and_true]
      symm; apply contains_eq_of_iff; intro x
      rw [hpm]
      simp only [C34.add, Bool.or_eq_true, beq_iff_eq, contains_iff_mem]
      constructor
      · rintro (hx | hx)
        · exact Or.inr hx
        · left; omega
      · rintro (hx | hx)
        · right; omega
        · exact Or.inl hx

theorem grant_ne_storeErr (h : Nat) (ok : Bool) (t : List Tok) : ((Tok.grant h ok :: t) == [Tok.storeErr]) = false := by
  cases t <;> simp

theorem prune_good {s : State} (hi : Inv s) (hal : s.w.dead = false) (hthr : CfgOK s.cfg)
    (h : Nat) (h1 : 1 ≤ h) (h2 : h ≤ U64_MAX) (rnd : List (List (Nat × Nat))) :
    Good (stepM s (.prune h) rnd) (EvPost s (.prune h)) := by
  simp only [stepM]
  refine Good.bind (onWantToPrune_good hi h h1 h2) ?_
  rintro ⟨ok, s1⟩ ⟨hf1, hi1, hw1, hst1, hfu1⟩
  dsimp only at hf1 hi1 hw1 hst1 hfu1 ⊢
  split
  · rename_i hc
    refine Good.bind (scheduleAll_good hi1 ⟨hc, hf1.dead.trans hal, by rw [hf1.cfg]; exact hthr⟩ rnd) ?_
    rintro ⟨s2, t2⟩ ⟨hf2, hi2, hw2, hw33⟩
    refine Good.pure ⟨hi2, hf2.cfg.trans hf1.cfg, hf2.hdr.trans hf1.hdr, ?_, ?_⟩
    · simp only [C34.specOK, C34.applyEv, C34.walk, hw1]
      exact hw2
    · simp only [C33.specOK, C33.applyEv, C33.walk, C33.onTok]
      exact isSome_of_W33 (view33j_congr hst1 hfu1 hf1 none).symm hw33
  · refine Good.pure ⟨hi1, hf1.cfg, hf1.hdr, ?_, by simp [C33.specOK, C33.applyEv, C33.walk, C33.onTok]⟩
    simp only [C34.specOK, C34.applyEv, C34.walk, hw1, Option.isSome_some]

theorem setHighestPrunable_good {s : State} (hi : Inv s) (hal : s.w.dead = false) (hthr : CfgOK s.cfg)
    (v : Nat) (rnd : List (List (Nat × Nat))) :
    Good (stepM s (.setHighestPrunable v) rnd) (EvPost s (.setHighestPrunable v)) := by
  simp only [stepM]
  have hv : ∀ t, C34.specOK (view34 s) (.setHighestPrunable v) t =
      (C34.walk (view34 { s with w := { s.w with highestPrunable := some v } }) t).isSome := by
    intro t; simp [C34.specOK, C34.applyEv, view34, hal]
  split
  · rename_i hc
    refine Good.mono (scheduleAll_good (s := { s with w := { s.w with highestPrunable := some v } }) { hi with }
      ⟨hc, hal, hthr⟩ rnd) ?_
    rintro ⟨s2, t2⟩ ⟨hf2, hi2, hw2, hw33⟩
    exact ⟨hi2, hf2.cfg, hf2.hdr, by rw [hv]; exact hw2,
      by simp only [C33.specOK, C33.applyEv]; exact isSome_of_W33 rfl hw33⟩
  · exact Good.pure ⟨{ hi with }, rfl, rfl, by rw [hv]; rfl, by simp [C33.specOK, C33.walk]⟩

theorem setNumPrunable_good {s : State} (hi : Inv s) (hal : s.w.dead = false) (hthr : CfgOK s.cfg)
    (v : Nat) (rnd : List (List (Nat × Nat))) :
    Good (stepM s (.setNumPrunable v) rnd) (EvPost s (.setNumPrunable v)) := by
  simp only [stepM]
  have hv : ∀ t, C34.specOK (view34 s) (.setNumPrunable v) t =
      (C34.walk (view34 { s with w := { s.w with numPrunable := v } }) t).isSome := by
    intro t; simp [C34.specOK, C34.applyEv, view34, hal]
  split
  · rename_i hc
    refine Good.mono (scheduleAll_good (s := { s with w := { s.w with numPrunable := v } }) { hi with }
      ⟨hc, hal, hthr⟩ rnd) ?_
    rintro ⟨s2, t2⟩ ⟨hf2, hi2, hw2, hw33⟩
    exact ⟨hi2, hf2.cfg, hf2.hdr, by rw [hv]; exact hw2,
      by simp only [C33.specOK, C33.applyEv]; exact isSome_of_W33 rfl hw33⟩
  · exact Good.pure ⟨{ hi with }, rfl, rfl, by rw [hv]; rfl, by simp [C33.specOK, C33.walk]⟩

/-! ### a block finishes -/

theorem filter_ne_length : ∀ {futs : List Fut} {h : Nat}, (futs.map (·.height)).Nodup →
    (∃ f ∈ futs, f.height = h) → (futs.filter (fun f => f.height != h)).length = futs.length - 1
  | [], _, _, hex => by obtain ⟨f, hf, _⟩ := hex; simp at hf
  | g :: rest, h, hnd, hex => by
    simp only [List.map_cons, List.nodup_cons] at hnd
    by_cases hg : g.height = h
    · have hall : ∀ f ∈ rest, (f.height != h) = true := by
        intro f hf
        simp only [bne_iff_ne, ne_eq]
        intro hfh
        exact hnd.1 (List.mem_map.2 ⟨f, hf, by rw [hfh, hg]⟩)
      simp [List.filter_cons, hg, List.filter_eq_self.2 hall]
    · have hex' : ∃ f ∈ rest, f.height = h := by
        obtain ⟨f, hf, hfh⟩ := hex
        rcases List.mem_cons.1 hf with rfl | hf
        · exact absurd hfh hg
        · exact ⟨f, hf, hfh⟩
      have ih := filter_ne_length hnd.2 hex'
      have hpos : 0 < rest.length := by
        obtain ⟨f, hf, _⟩ := hex'; exact List.length_pos_of_mem hf
      have : (g.height != h) = true := by simpa using hg
      simp only [List.filter_cons, this, if_true, List.length_cons, ih]
      omega

theorem nodup_filter {futs : List Fut} (p : Fut → Bool) (hnd : (futs.map (·.height)).Nodup) :
    ((futs.filter p).map (·.height)).Nodup :=
  List.Nodup.sublist (List.Sublist.map _ List.filter_sublist) hnd

/-- a C33 view in which block `h` has just received its last answer -/
structure V1OK (s : State) (h : Nat) (to : Bool) (v1 : C33.View) : Prop where
  width : v1.width = (view33 s).width
  recorded : v1.recorded = (view33 s).recorded
  connected : v1.connected = s.w.connected
  justOk : v1.justOk = none
  blk : ∃ b, C33.findBlk v1 h = some b ∧ b.pending.isEmpty = true ∧ b.anyTimeout = to
  rest : v1.blocks.filter (fun b => b.height != h) = (s.w.futs.filter (fun f => f.height != h)).map blkOf

theorem onTok_result {v1 : C33.View} {s : State} {h : Nat} {to : Bool} (hv : V1OK s h to v1) :
    C33.onTok v1 (Tok.result h to) =
      some { v1 with blocks := v1.blocks.filter (fun b => b.height != h), justOk := if to then none else some h } := by
  obtain ⟨b, hb, hp, ha⟩ := hv.blk
  simp [C33.onTok, hb, hp, ha]

theorem onSamplingDone_good {s : State} (hi : Inv s) (hs : Sched s) (h : Nat) (hex : ∃ f ∈ s.w.futs, f.height = h)
    (to : Bool) (rnd : List (List (Nat × Nat))) :
    Good (onSamplingDone s h to rnd) (fun r => Inv r.1 ∧ r.1.cfg = s.cfg ∧ r.1.hdr = s.hdr ∧
      (C34.walk (view34 s) (Tok.result h to :: r.2)).isSome = true ∧
      ∀ v1, V1OK s h to v1 → (C33.walk v1 (Tok.result h to :: r.2)).isSome = true) := by
  have hong : mem s.w.ongoing h := (hi.ongoing_eq h).2 hex
  have hb := mem_bounds hi.ongoing hong
  have hv := validR_single hb.1 hb.2
  have hnq : ¬ mem s.w.queue h := fun hq => ((hi.queue_eq h).1 hq).2.2.2.1 hong
  obtain ⟨o, ho, hoi, hom⟩ := removeRelaxed_spec hi.ongoing hv
  have hom' : ∀ x, mem o x ↔ mem s.w.ongoing x ∧ x ≠ h := by
    intro x; rw [hom]; simp only [and_congr_right_iff]; intro _; omega
  have hong_eq : ∀ x, mem o x ↔ ∃ f ∈ s.w.futs.filter (fun f => f.height != h), f.height = x := by
    intro x
    rw [hom', hi.ongoing_eq]
    simp only [List.mem_filter, bne_iff_ne, ne_eq]
    constructor
    · rintro ⟨⟨f, hf, rfl⟩, hne⟩; exact ⟨f, ⟨hf, hne⟩, rfl⟩
    · rintro ⟨f, ⟨hf, hne⟩, rfl⟩; exact ⟨⟨f, hf, rfl⟩, hne⟩
  have hlen := filter_ne_length hi.nodup hex
  have hfle : (s.w.futs.filter (fun f => f.height != h)).length ≤ s.cfg.limit + s.cfg.extra := by
    have := hi.futs_le; omega
  have hdel : (fun x => contains o x) = C34.del (fun x => contains s.w.ongoing x) h := by
    apply contains_eq_of_iff; intro x
    rw [hom']; simp only [C34.del, Bool.and_eq_true, bne_iff_ne, ne_eq, contains_iff_mem]; tauto
  unfold onSamplingDone
  cases to with
  | true =>
    simp only [if_true]
    obtain ⟨t, ht, hti, htm⟩ := insertRelaxed_spec hi.timedOut hv
    refine Good.bind (Good.liftR ht (P := fun a => t = a) rfl) ?_
    rintro _ rfl
    refine Good.bind (Good.liftR ho (P := fun a => o = a) rfl) ?_
    rintro _ rfl
    have himid : Inv { s with w := { s.w with futs := s.w.futs.filter (fun f => f.height != h), timedOut := t, ongoing := o } } := by
      refine ⟨hi.stored, hi.sampled, hi.queue, hti, hoi, hi.wbp, hi.cand, ?_, hong_eq, nodup_filter _ hi.nodup,
        hi.cand_le, hfle, fun hc => by simp [hi.disc hc]⟩
      intro x
      dsimp only
      rw [htm, hom', hi.queue_eq]
      simp only [ne_eq, reduceCtorEq, not_false_eq_true, true_and]
      constructor
      · rintro ⟨a, b, c, d⟩
        refine ⟨a, fun hc => hc.elim b (fun hh => c ?_), fun hc => c hc.1, d⟩
        have : x = h := by omega
        subst this; exact hong
      · rintro ⟨a, b, c, d⟩
        have hxh : x ≠ h := fun hxh => b (Or.inr (by omega))
        exact ⟨a, fun hc => b (Or.inl hc), fun hc => c ⟨hc, hxh⟩, d⟩
    refine Good.mono (scheduleAll_good himid ⟨hs.conn, hs.alive, hs.thr⟩ rnd) ?_
    rintro ⟨s2, t2⟩ ⟨hf2, hi2, hw2, hw33⟩
    refine ⟨hi2, hf2.cfg, hf2.hdr, ?_, ?_⟩
    rotate_left
    · intro v1 hv1
      simp only [C33.walk]
      rw [onTok_result hv1]
      simp only [if_true]
      refine isSome_of_W33 ?_ hw33
      simp only [view33j, view33, C33.View.mk.injEq]
      exact ⟨hv1.width, hv1.recorded, hv1.rest, trivial, hv1.connected⟩
    have hstep : C34.onTok (view34 s) (Tok.result h true) =
        some (view34 { s with w := { s.w with futs := s.w.futs.filter (fun f => f.height != h), timedOut := t, ongoing := o } }) := by
      simp only [C34.onTok, if_true, view34, Option.some.injEq, C34.View.mk.injEq, true_and, hdel, hlen, and_true]
      symm; apply contains_eq_of_iff; intro x
      rw [htm]
      simp only [C34.add, Bool.or_eq_true, beq_iff_eq, contains_iff_mem]
      constructor
      · rintro (hx | hx)
        · exact Or.inr hx
        · left; omega
      · rintro (hx | hx)
        · right; omega
        · exact Or.inl hx
    simp only [C34.walk, hstep]
    exact hw2
  | false =>
    simp only [Bool.false_eq_true, if_false]
    split
    · -- the header is gone: `mark_as_sampled` fails, the worker stops
      refine Good.pure ⟨?_, rfl, rfl, ?_, ?_⟩
      · refine ⟨hi.stored, hi.sampled, inv_nil, inv_nil, inv_nil, inv_nil, inv_nil, ?_, ?_, ?_, ?_, ?_, ?_⟩ <;>
          simp [die, Worker.deadState, Worker.init, mem_nil]
      · simp [C34.walk, C34.onTok]
      · intro v1 hv1
        simp only [C33.walk]
        rw [onTok_result hv1]
        simp [C33.onTok]
    · rename_i hst
      have hstored : contains s.store.stored h = true := by simpa using hst
      obtain ⟨sm, hsm, hsmi, hsmm⟩ := insertRelaxed_spec hi.sampled hv
      obtain ⟨c, hc, hci, hcm⟩ := removeRelaxed_spec hi.cand hv
      have hcm' : ∀ x, mem c x ↔ mem s.w.cand x ∧ x ≠ h := by
        intro x; rw [hcm]; simp only [and_congr_right_iff]; intro _; omega
      refine Good.bind (Good.liftR hsm (P := fun a => sm = a) rfl) ?_
      rintro _ rfl
      refine Good.bind (Good.liftR hc (P := fun a => c = a) rfl) ?_
      rintro _ rfl
      refine Good.bind (Good.liftR ho (P := fun a => o = a) rfl) ?_
      rintro _ rfl
      have himid : Inv { s with store := { s.store with sampled := sm }, w := { s.w with futs := s.w.futs.filter (fun f => f.height != h), ongoing := o, cand := c } } := by
        refine ⟨hi.stored, hsmi, hi.queue, hi.timedOut, hoi, hi.wbp, hci, ?_, hong_eq, nodup_filter _ hi.nodup,
          ?_, hfle, fun hc => by simp [hi.disc hc]⟩
        · intro x
          dsimp only
          rw [hcm', hom', hi.queue_eq]
          simp only [ne_eq, reduceCtorEq, not_false_eq_true, true_and]
          constructor
          · rintro ⟨a, b, c', d⟩
            have hxh : x ≠ h := by intro hxh; subst hxh; exact c' hong
            exact ⟨⟨a, hxh⟩, b, fun hc => c' hc.1, d⟩
          · rintro ⟨⟨a, hxh⟩, b, c', d⟩
            exact ⟨a, b, fun hc => c' ⟨hc, hxh⟩, d⟩
        · intro x hx
          exact hi.cand_le x ((hcm' x).1 hx).1
      refine Good.bind (scheduleAll_good himid ⟨hs.conn, hs.alive, hs.thr⟩ rnd) ?_
      rintro ⟨s2, t2⟩ ⟨hf2, hi2, hw2, hw33⟩
      refine Good.pure ⟨hi2, hf2.cfg, hf2.hdr, ?_, ?_⟩
      rotate_left
      · intro v1 hv1
        simp only [C33.walk]
        rw [onTok_result hv1]
        simp only [C33.onTok, Bool.false_eq_true, if_false, beq_self_eq_true, if_true]
        refine isSome_of_W33 ?_ hw33
        simp only [view33j, view33, C33.View.mk.injEq]
        exact ⟨hv1.width, hv1.recorded, hv1.rest, trivial, hv1.connected⟩
      have hstep : (C34.onTok (view34 s) (Tok.result h false)).bind (fun v => C34.onTok v (Tok.mark h)) =
          some (view34 { s with store := { s.store with sampled := sm }, w := { s.w with futs := s.w.futs.filter (fun f => f.height != h), ongoing := o, cand := c } }) := by
        simp only [C34.onTok, Bool.false_eq_true, if_false, Option.bind, view34, hstored, if_true, Option.some.injEq,
          C34.View.mk.injEq, true_and, hdel, hlen, and_true]
        refine ⟨?_, ?_⟩
        · symm; apply contains_eq_of_iff; intro x
          rw [hsmm]
          simp only [C34.add, Bool.or_eq_true, beq_iff_eq, contains_iff_mem]
          constructor
          · rintro (hx | hx)
            · exact Or.inr hx
            · left; omega
          · rintro (hx | hx)
            · right; omega
            · exact Or.inl hx
        · symm; apply contains_eq_of_iff; intro x
          rw [hcm']; simp only [C34.del, Bool.and_eq_true, bne_iff_ne, ne_eq, contains_iff_mem]; tauto
      dsimp only
      simp only [C34.walk]
      cases h1 : C34.onTok (view34 s) (Tok.result h false) with
      | none => rw [h1] at hstep; simp [Option.bind] at hstep
      | some v1 =>
        rw [h1] at hstep
        simp only [Option.bind] at hstep
        simp only [hstep]
        exact hw2

theorem map_height_congr {futs : List Fut} {h : Nat} {f' : Fut} (hf' : f'.height = h) :
    (futs.map (fun g => if g.height == h then f' else g)).map (·.height) = futs.map (·.height) := by
  rw [List.map_map]
  apply List.map_congr_left
  intro g _
  simp only [Function.comp]
  split
  · rename_i hg; rw [hf']; exact (by simpa using hg : g.height = h).symm
  · rfl

/-- updating the block of one height: where that block is found afterwards -/
theorem find_map_upd (g : C33.Blk → C33.Blk) (hg : ∀ b, (g b).height = b.height) :
    ∀ {futs : List Fut} {f : Fut}, f ∈ futs → (futs.map (·.height)).Nodup →
    ((futs.map blkOf).map g).find? (fun b => b.height == f.height) = some (g (blkOf f))
  | k :: rest, f, hf, hnd => by
    simp only [List.map_cons, List.nodup_cons] at hnd
    rcases List.mem_cons.1 hf with rfl | hf
    · simp [List.find?_cons, hg, blkOf]
    · have hne : ((g (blkOf k)).height == f.height) = false := by
        rw [hg]
        simp only [blkOf, beq_eq_false_iff_ne, ne_eq]
        intro hkf
        exact hnd.1 (List.mem_map.2 ⟨f, hf, hkf.symm⟩)
      simp only [List.map_cons, List.find?_cons, hne]
      exact find_map_upd g hg hf hnd.2

/-- … and the other blocks are untouched -/
theorem filter_map_upd (h : Nat) (g : C33.Blk → C33.Blk) (hg : ∀ b, (g b).height = b.height)
    (hid : ∀ b, b.height ≠ h → g b = b) : ∀ (futs : List Fut),
    ((futs.map blkOf).map g).filter (fun b => b.height != h) = (futs.filter (fun f => f.height != h)).map blkOf
  | [] => rfl
  | k :: rest => by
    simp only [List.map_cons, List.filter_cons, hg]
    have ih := filter_map_upd h g hg hid rest
    by_cases hk : k.height = h
    · have : ((blkOf k).height != h) = false := by simp [blkOf, hk]
      have h2 : (k.height != h) = false := by simp [hk]
      simp only [this, h2, Bool.false_eq_true, if_false]
      exact ih
    · have : ((blkOf k).height != h) = true := by simp [blkOf, hk]
      have h2 : (k.height != h) = true := by simp [hk]
      simp only [this, h2, if_true, List.map_cons, hid (blkOf k) (by simpa [blkOf] using hk)]
      rw [ih]

theorem answer_good {s : State} (hi : Inv s) (hal : s.w.dead = false) (hthr : CfgOK s.cfg)
    (h : Nat) (p : Share) (to : Bool) (rnd : List (List (Nat × Nat))) :
    Good (stepM s (.answer h p to) rnd) (EvPost s (.answer h p to)) := by
  simp only [stepM]
  unfold onAnswer
  have hspec : ∀ t, C34.specOK (view34 s) (.answer h p to) t = (C34.walk (view34 s) t).isSome := by
    intro t; simp [C34.specOK, C34.applyEv]
  cases hfind : s.w.futs.find? (fun f => f.height == h) with
  | none => exact Good.pure ⟨hi, rfl, rfl, by rw [hspec]; rfl, by simp [C33.specOK, C33.walk]⟩
  | some f =>
    have hfm : f ∈ s.w.futs := List.mem_of_find?_eq_some hfind
    have hfh : f.height = h := by simpa using List.find?_some hfind
    dsimp only
    split
    · exact Good.pure ⟨hi, rfl, rfl, by rw [hspec]; rfl, by simp [C33.specOK, C33.walk]⟩
    · rename_i hcont
      have hcont' : f.pending.contains p = true := by simpa using hcont
      split
      · -- last pending share of the block
        have hconn : s.w.connected = true := by
          -- a disconnected worker has no futures... not needed: scheduling hypotheses come from `Sched`
          cases hc : s.w.connected with
          | true => rfl
          | false => rw [hi.disc hc] at hfm; simp at hfm
        refine Good.bind (onSamplingDone_good hi ⟨hconn, hal, hthr⟩ h ⟨f, hfm, hfh⟩ _ rnd) ?_
        rintro ⟨s1, t1⟩ ⟨hi1, hc1, hh1, hw1, hw33⟩
        rename_i hemp
        refine Good.pure ⟨hi1, hc1, hh1, ?_, ?_⟩
        · rw [hspec]
          simp only [C34.walk, C34.onTok] at hw1 ⊢
          exact hw1
        · -- C33: the block record after this answer has nothing pending
          let g : C33.Blk → C33.Blk := fun b =>
            if b.height == h && b.pending.contains p then
              { b with pending := b.pending.erase p, anyTimeout := b.anyTimeout || to } else b
          have hg : ∀ b, (g b).height = b.height := by
            intro b; simp only [g]; split <;> rfl
          have hid : ∀ b, b.height ≠ h → g b = b := by
            intro b hb
            have : (b.height == h) = false := by simpa using hb
            simp only [g, this, Bool.false_and, Bool.false_eq_true, if_false]
          have hv1 : V1OK s h (f.timedOut || to) (C33.applyEv (view33 s) (.answer h p to) false) := by
            refine ⟨rfl, rfl, rfl, rfl, ?_, ?_⟩
            · refine ⟨g (blkOf f), ?_, ?_, ?_⟩
              · have := find_map_upd g hg hfm hi.nodup
                rw [hfh] at this
                exact this
              · simp only [g, blkOf, hfh, beq_self_eq_true, hcont', Bool.and_self, if_true]
                exact hemp
              · simp only [g, blkOf, hfh, beq_self_eq_true, hcont', Bool.and_self, if_true]
            · exact filter_map_upd h g hg hid s.w.futs
          have := hw33 _ hv1
          simp only [C33.specOK, C33.walk, C33.onTok] at this ⊢
          exact this
      · -- more shares pending
        refine Good.pure ⟨?_, rfl, rfl, ?_, ?_⟩
        · refine ⟨hi.stored, hi.sampled, hi.queue, hi.timedOut, hi.ongoing, hi.wbp, hi.cand, hi.queue_eq, ?_, ?_,
            hi.cand_le, ?_, fun hc => by simp [hi.disc hc]⟩
          · intro x
            dsimp only
            rw [hi.ongoing_eq]
            have := map_height_congr (futs := s.w.futs) (h := h)
              (f' := { f with pending := f.pending.erase p, timedOut := f.timedOut || to }) hfh
            constructor
            · rintro ⟨g, hg, rfl⟩
              have : g.height ∈ (s.w.futs.map (fun g => if g.height == h then
                  ({ f with pending := f.pending.erase p, timedOut := f.timedOut || to } : Fut) else g)).map (·.height) := by
                rw [this]; exact List.mem_map.2 ⟨g, hg, rfl⟩
              obtain ⟨g', hg', hgh⟩ := List.mem_map.1 this
              exact ⟨g', hg', hgh⟩
            · rintro ⟨g, hg, rfl⟩
              have : g.height ∈ s.w.futs.map (·.height) := by
                rw [← this]; exact List.mem_map.2 ⟨g, hg, rfl⟩
              obtain ⟨g', hg', hgh⟩ := List.mem_map.1 this
              exact ⟨g', hg', hgh⟩
          · dsimp only
            rw [map_height_congr (by exact hfh)]
            exact hi.nodup
          · dsimp only
            rw [List.length_map]
            exact hi.futs_le
        · rw [hspec]
          simp [C34.walk, C34.onTok]
        · simp [C33.specOK, C33.walk, C33.onTok]

/-! ### the step function -/

theorem stepM_good {s : State} (hi : Inv s) (hal : s.w.dead = false) (hthr : CfgOK s.cfg)
    (ev : Ev) (hwf : EvWF ev) (hp0 : ev ≠ .prune 0) (rnd : List (List (Nat × Nat))) :
    Good (stepM s ev rnd) (EvPost s ev) := by
  cases ev with
  | insert lo hi' => exact insert_good hi hal hthr lo hi' hwf rnd
  | remove h => exact remove_good hi h rnd
  | peers n => exact peers_good hi hal hthr n rnd
  | prune h =>
    have h1 : 1 ≤ h := by
      cases h with
      | zero => exact absurd rfl hp0
      | succ k => omega
    exact prune_good hi hal hthr h h1 hwf rnd
  | setHighestPrunable v => exact setHighestPrunable_good hi hal hthr v rnd
  | setNumPrunable v => exact setNumPrunable_good hi hal hthr v rnd
  | answer h p to => exact answer_good hi hal hthr h p to rnd

/-- asking about height 0 kills the worker task (`expect("invalid height")`) -/
theorem prune_zero_panics {s : State} (hi : Inv s) (rnd : List (List (Nat × Nat))) :
    stepM s (.prune 0) rnd = .error .panic := by
  have hc : contains s.w.ongoing 0 = false := (contains_false_iff _ _).2 (not_mem_zero hi.ongoing)
  have hr : removeRelaxed s.w.queue (0, 0) = .error (.invalid (0, 0)) := removeRelaxed_invalid (by decide)
  simp [stepM, onWantToPrune, hc, hr, liftR]
  rfl

theorem inv_die {s : State} (hi : Inv s) : Inv (die s) := by
  refine ⟨hi.stored, hi.sampled, inv_nil, inv_nil, inv_nil, inv_nil, inv_nil, ?_, ?_, ?_, ?_, ?_, ?_⟩ <;>
    simp [die, Worker.deadState, Worker.init, mem_nil]

/-- what every reachable state satisfies -/
structure StateOK (s : State) : Prop where
  inv : Inv s
  thr : CfgOK s.cfg

theorem stepDead_ok {s : State} (hs : StateOK s) (ev : Ev) (hwf : EvWF ev) :
    StateOK (stepDead s ev).1 ∧ C34.specOK (view34 s) ev (stepDead s ev).2 = true ∧
    C33.specOK (view33 s) ev (stepDead s ev).2 = true := by
  cases ev with
  | insert lo hi' =>
    simp only [stepDead]
    cases hsi : storeInsert s.store lo hi' with
    | none => exact ⟨hs, by simp [C34.specOK, C34.applyEv, C34.walk, C34.onTok],
        by simp [C33.specOK, C33.applyEv, C33.walk, C33.onTok]⟩
    | some st =>
      obtain ⟨h1, h2, _⟩ := storeInsert_spec hs.inv.stored hs.inv.sampled hwf hsi
      exact ⟨⟨{ hs.inv with stored := h1, sampled := h2 }, hs.thr⟩, by simp [C34.specOK, C34.walk],
        by simp [C33.specOK, C33.walk]⟩
  | remove h =>
    simp only [stepDead]
    cases hsr : storeRemove s.store h with
    | none => exact ⟨hs, by simp [C34.specOK, C34.applyEv, C34.walk, C34.onTok],
        by simp [C33.specOK, C33.applyEv, C33.walk, C33.onTok]⟩
    | some st =>
      obtain ⟨h1, h2, _⟩ := storeRemove_spec hs.inv.stored hs.inv.sampled hsr
      exact ⟨⟨{ hs.inv with stored := h1, sampled := h2 }, hs.thr⟩, by simp [C34.specOK, C34.walk],
        by simp [C33.specOK, C33.walk]⟩
  | prune h => exact ⟨hs, by simp [stepDead, C34.specOK, C34.applyEv, C34.walk, C34.onTok],
      by simp [stepDead, C33.specOK, C33.applyEv, C33.walk, C33.onTok]⟩
  | peers n => exact ⟨hs, by simp [stepDead, C34.specOK, C34.walk], by simp [stepDead, C33.specOK, C33.walk]⟩
  | setHighestPrunable v => exact ⟨hs, by simp [stepDead, C34.specOK, C34.walk], by simp [stepDead, C33.specOK, C33.walk]⟩
  | setNumPrunable v => exact ⟨hs, by simp [stepDead, C34.specOK, C34.walk], by simp [stepDead, C33.specOK, C33.walk]⟩
  | answer h p to => exact ⟨hs, by simp [stepDead, C34.specOK, C34.walk], by simp [stepDead, C33.specOK, C33.walk]⟩

/-- **one stimulus**: the invariant is kept and both monitors accept everything the worker does -/
theorem step_ok {s : State} (hs : StateOK s) (ev : Ev) (hwf : EvWF ev) (rnd : List (List (Nat × Nat))) :
    StateOK (step s ev rnd).1 ∧ C34.specOK (view34 s) ev (step s ev rnd).2 = true ∧
    C33.specOK (view33 s) ev (step s ev rnd).2 = true := by
  unfold step
  cases hd : s.w.dead with
  | true => simp only [if_true]; exact stepDead_ok hs ev hwf
  | false =>
    simp only [Bool.false_eq_true, if_false]
    cases hm : stepM s ev rnd with
    | ok r =>
      have hp0 : ev ≠ .prune 0 := by
        intro h0; subst h0; rw [prune_zero_panics hs.inv] at hm; cases hm
      have := (stepM_good hs.inv hd hs.thr ev hwf hp0 rnd).of_ok hm
      exact ⟨⟨this.1, by rw [this.2.1]; exact hs.thr⟩, this.2.2.2.1, this.2.2.2.2⟩
    | error e =>
      refine ⟨⟨inv_die hs.inv, hs.thr⟩, ?_, ?_⟩
      · cases ev <;> simp [C34.specOK, C34.applyEv, C34.walk, C34.onTok]
      · cases ev <;> simp [C33.specOK, C33.applyEv, C33.walk, C33.onTok]

/-- the C34 monitor's verdicts along a whole history -/
def accepts34 (s : State) : List (Ev × List (List (Nat × Nat))) → Bool
  | [] => true
  | (ev, rnd) :: rest => C34.specOK (view34 s) ev (step s ev rnd).2 && accepts34 (step s ev rnd).1 rest

/-- the C33 monitor's verdicts along a whole history -/
def accepts33 (s : State) : List (Ev × List (List (Nat × Nat))) → Bool
  | [] => true
  | (ev, rnd) :: rest => C33.specOK (view33 s) ev (step s ev rnd).2 && accepts33 (step s ev rnd).1 rest

theorem run_ok : ∀ (evs : List (Ev × List (List (Nat × Nat)))) (s : State), StateOK s → (∀ e ∈ evs, EvWF e.1) →
    accepts34 s evs = true ∧ accepts33 s evs = true ∧ StateOK (run s evs).1
  | [], s, hs, _ => ⟨rfl, rfl, hs⟩
  | (ev, rnd) :: rest, s, hs, hwf => by
    have h1 := step_ok hs ev (hwf (ev, rnd) (by simp)) rnd
    have h2 := run_ok rest (step s ev rnd).1 h1.1 (fun e he => hwf e (by simp [he]))
    refine ⟨by simp [accepts34, h1.2.1, h2.1], by simp [accepts33, h1.2.2, h2.2.1], ?_⟩
    simp only [run]
    exact h2.2.2

/-! ### answers that are neither a sample nor a timeout -/

/-- such an answer to a pending request stops the worker (`FatalDaserError`), marks nothing, and leaves the store
    alone; to anything else it is a no-op.  Both monitors accept. -/
theorem onBadAnswer_ok {s : State} (hs : StateOK s) (h : Nat) (p : Share) :
    StateOK (onBadAnswer s h p).1 ∧
    C34.specBadAnswer (view34 s) (onBadAnswer s h p).2 = true ∧
    C33.specBadAnswer (view33 s) (onBadAnswer s h p).2 = true ∧
    (onBadAnswer s h p = (s, []) ∨ onBadAnswer s h p = (die s, [Tok.fatal])) := by
  unfold onBadAnswer
  have hnil : StateOK s ∧ C34.specBadAnswer (view34 s) [] = true ∧ C33.specBadAnswer (view33 s) [] = true ∧
      ((s, ([] : List Tok)) = (s, []) ∨ (s, ([] : List Tok)) = (die s, [Tok.fatal])) :=
    ⟨hs, rfl, rfl, Or.inl rfl⟩
  split
  · exact hnil
  · split
    · exact hnil
    · split
      · exact ⟨⟨inv_die hs.inv, hs.thr⟩, by simp [C34.specBadAnswer, C34.walk, C34.onTok],
          by simp [C33.specBadAnswer, C33.walk, C33.onTok], Or.inr rfl⟩
      · exact hnil

/-- the monitors' verdicts along a history of stimuli of both kinds -/
def acceptsX34 (s : State) : List Stim → Bool
  | [] => true
  | st :: rest =>
    (match st with
     | .ev e rnd => C34.specOK (view34 s) e (step s e rnd).2
     | .badAnswer h p => C34.specBadAnswer (view34 s) (onBadAnswer s h p).2) && acceptsX34 (stepX s st).1 rest

def acceptsX33 (s : State) : List Stim → Bool
  | [] => true
  | st :: rest =>
    (match st with
     | .ev e rnd => C33.specOK (view33 s) e (step s e rnd).2
     | .badAnswer h p => C33.specBadAnswer (view33 s) (onBadAnswer s h p).2) && acceptsX33 (stepX s st).1 rest

def StimWF : Stim → Prop
  | .ev e _ => EvWF e
  | .badAnswer _ _ => True

theorem runX_ok : ∀ (sts : List Stim) (s : State), StateOK s → (∀ st ∈ sts, StimWF st) →
    acceptsX34 s sts = true ∧ acceptsX33 s sts = true ∧ StateOK (runX s sts).1
  | [], s, hs, _ => ⟨rfl, rfl, hs⟩
  | .ev e rnd :: rest, s, hs, hwf => by
    have h1 := step_ok hs e (hwf (.ev e rnd) (by simp)) rnd
    have h2 := runX_ok rest (step s e rnd).1 h1.1 (fun st hst => hwf st (by simp [hst]))
    refine ⟨by simp [acceptsX34, stepX, h1.2.1, h2.1], by simp [acceptsX33, stepX, h1.2.2, h2.2.1], ?_⟩
    simp only [runX, stepX]
    exact h2.2.2
  | .badAnswer h p :: rest, s, hs, hwf => by
    have h1 := onBadAnswer_ok hs h p
    have h2 := runX_ok rest (onBadAnswer s h p).1 h1.1 (fun st hst => hwf st (by simp [hst]))
    refine ⟨by simp [acceptsX34, stepX, h1.2.1, h2.1], by simp [acceptsX33, stepX, h1.2.2.1, h2.2.1], ?_⟩
    simp only [runX, stepX]
    exact h2.2.2

attribute [local simp] ok_bind err_bind map_ok map_err pure_eq throw_eq

/-! ### `|ongoing| = |sampling_futs|` -/

theorem mem_heights (rs : Ranges) (x : Nat) : x ∈ heights rs ↔ mem rs x := by
  simp only [heights, List.mem_flatMap, List.mem_range'_1, mem]
  constructor
  · rintro ⟨r, hr, h1, h2⟩; exact ⟨r, hr, h1, by omega⟩
  · rintro ⟨r, hr, h1, h2⟩; exact ⟨r, hr, h1, by omega⟩

theorem heights_cons (r : Range) (rs : Ranges) :
    heights (r :: rs) = List.range' r.1 (r.2 + 1 - r.1) ++ heights rs := by
  simp [heights]

theorem nodup_heights : ∀ {rs : Ranges}, RInv rs → (heights rs).Nodup
  | [], _ => by simp [heights]
  | r :: rs, hi => by
    obtain ⟨hsep, hv, hrs⟩ := inv_cons.1 hi
    rw [heights_cons, List.nodup_append]
    refine ⟨List.nodup_range', nodup_heights hrs, ?_⟩
    intro a ha b hb hab
    subst hab
    simp only [List.mem_range'_1] at ha
    obtain ⟨y, hy, h1, h2⟩ := (mem_heights rs a).1 hb
    have := hsep y hy
    omega

/-- `len` never overflows on an `Inv` value and counts the heights -/
theorem lenGo_spec : ∀ {rs : Ranges} (acc : Nat), RInv rs → acc ≤ U64_MAX → (∀ r ∈ rs, acc + 1 ≤ r.1) →
    lenGo acc rs = .ok (acc + (heights rs).length)
  | [], acc, _, _, _ => by simp [lenGo, heights]
  | r :: rs, acc, hi, hacc0, hacc => by
    obtain ⟨hsep, hv, hrs⟩ := inv_cons.1 hi
    have hr := hacc r (by simp)
    obtain ⟨v1, v2, v3⟩ := hv
    have hl : Range.len r = .ok (r.2 - r.1 + 1) := len_valid ⟨v1, v2, v3⟩
    have hadd : addU64 acc (r.2 - r.1 + 1) = .ok (acc + (r.2 - r.1 + 1)) := by
      simp only [addU64]; rw [if_pos (by omega)]
    have ih := lenGo_spec (rs := rs) (acc + (r.2 - r.1 + 1)) hrs (by omega)
      (fun y hy => by have := hsep y hy; omega)
    simp only [lenGo, hl, hadd, ok_bind, ih, heights_cons, List.length_append, List.length_range']
    congr 1; omega

theorem len_eq_heights {rs : Ranges} (hi : RInv rs) : len rs = .ok (heights rs).length := by
  have := lenGo_spec (rs := rs) 0 hi (by decide) (fun r hr => by have := (inv_validR hi hr).1; omega)
  simpa [len] using this

/-- `|ongoing| = |sampling_futs|`: the worker's `ongoing` set has exactly one height per future -/
theorem ongoing_len {s : State} (hi : Inv s) : len s.w.ongoing = .ok s.w.futs.length := by
  rw [len_eq_heights hi.ongoing]
  congr 1
  have hperm : (heights s.w.ongoing).Perm (s.w.futs.map (·.height)) := by
    rw [List.perm_ext_iff_of_nodup (nodup_heights hi.ongoing) hi.nodup]
    intro x
    rw [mem_heights, hi.ongoing_eq, List.mem_map]
  rw [hperm.length_eq, List.length_map]

/-- no failed `expect`, no exhausted loop bound: a step either succeeds or `random_indexes` diverges -/
theorem stepM_no_panic {s : State} (hi : Inv s) (hal : s.w.dead = false) (hthr : CfgOK s.cfg)
    (ev : Ev) (hwf : EvWF ev) (hp0 : ev ≠ .prune 0) (rnd : List (List (Nat × Nat))) (e : Fail)
    (he : stepM s ev rnd = .error e) : e = .diverge := by
  have := stepM_good hi hal hthr ev hwf hp0 rnd
  rw [he] at this
  exact this

end Lumina.Proofs.Daser

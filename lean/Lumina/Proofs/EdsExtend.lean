/-
  The erasure extension `Eds.extendRaw` (the three passes of `ExtendedDataSquare::from_ods`) in closed form:
  under the shape hypothesis on the codec (`k` data shards ↦ `k` parity shards) the extended square is the
  `2k × 2k` grid of `extCell`.

  Owner: group D2.
-/
import Lumina.Proofs.EdsCode

namespace Lumina.Proofs.EdsExtend
open Lumina.Util Lumina.Model.Nmt Lumina.Model.Eds Lumina.Model.EdsCode Lumina.Proofs.EdsCode

/-- shape of the codec: `k` data shards give `k` parity shards (leopard writes the parity in place into the `k`
    trailing buffers it is handed) -/
def EncShape (enc : List Bytes → List Bytes) (k : Nat) : Prop := ∀ row, row.length = k → (enc row).length = k

def odsRow (k : Nat) (ods : List Bytes) (r : Nat) : List Bytes := (ods.drop (r * k)).take k
def odsCol (k : Nat) (ods : List Bytes) (c : Nat) : List Bytes := (List.range k).map (fun r => ods.getD (r * k + c) [])
def q2Row (enc : List Bytes → List Bytes) (k : Nat) (ods : List Bytes) (r : Nat) : List Bytes :=
  (List.range k).map (fun c => (enc (odsCol k ods c)).getD r [])

/-- the share at `(r, c)` of the extension of the `k × k` square `ods` -/
def extCell (enc : List Bytes → List Bytes) (k : Nat) (ods : List Bytes) (r c : Nat) : Bytes :=
  if r < k then
    if c < k then ods.getD (r * k + c) [] else (enc (odsRow k ods r)).getD (c - k) []
  else
    if c < k then (enc (odsCol k ods c)).getD (r - k) [] else (enc (q2Row enc k ods (r - k))).getD (c - k) []

/-- the extension as a grid -/
def extGrid (enc : List Bytes → List Bytes) (k : Nat) (ods : List Bytes) : List Bytes :=
  ((List.range (2 * k)).map (fun r => (List.range (2 * k)).map (extCell enc k ods r))).flatten

theorem odsRow_length {k : Nat} {ods : List Bytes} (hl : ods.length = k * k) {r : Nat} (hr : r < k) :
    (odsRow k ods r).length = k := by
  unfold odsRow
  rw [List.length_take, List.length_drop, hl]
  have : r * k + k ≤ k * k := by
    calc r * k + k = (r + 1) * k := by rw [Nat.succ_mul]
      _ ≤ k * k := Nat.mul_le_mul_right k hr
  omega

theorem odsRow_getElem? {k : Nat} {ods : List Bytes} {r c : Nat} (hc : c < k) :
    (odsRow k ods r)[c]? = ods[r * k + c]? := by
  unfold odsRow
  rw [List.getElem?_take_of_lt hc, List.getElem?_drop]

/-- a row of the extension: `data ++ enc data` is the list of its `2k` cells -/
theorem row_cells {k : Nat} (data par : List Bytes) (hd : data.length = k) (hp : par.length = k)
    (f : Nat → Bytes) (h1 : ∀ c, c < k → f c = data.getD c []) (h2 : ∀ c, k ≤ c → c < 2 * k → f c = par.getD (c - k) []) :
    data ++ par = (List.range (2 * k)).map f := by
  apply List.ext_getElem?
  intro c
  by_cases hck : c < k
  · rw [List.getElem?_append_left (by omega), List.getElem?_map, List.getElem?_range (by omega)]
    simp only [Option.map_some, h1 c hck, List.getD_eq_getElem?_getD]
    rw [List.getElem?_eq_getElem (by omega)]; rfl
  · by_cases hc2 : c < 2 * k
    · rw [List.getElem?_append_right (by omega), List.getElem?_map, List.getElem?_range hc2]
      simp only [Option.map_some, h2 c (by omega) hc2, List.getD_eq_getElem?_getD, hd]
      rw [List.getElem?_eq_getElem (by omega)]; rfl
    · rw [List.getElem?_eq_none (by simp; omega), List.getElem?_eq_none (by simp; omega)]

/-- **closed form of the three passes** -/
theorem extendRaw_grid {enc : List Bytes → List Bytes} {k : Nat} {ods : List Bytes} (hs : EncShape enc k)
    (hl : ods.length = k * k) : extendRaw enc k ods = extGrid enc k ods := by
  unfold extendRaw extGrid
  simp only
  congr 1
  have split : ∀ (F : Nat → List Bytes), (List.range (2 * k)).map F =
      (List.range k).map F ++ (List.range k).map (fun r => F (k + r)) := by
    intro F
    have h2k : 2 * k = k + k := by omega
    rw [h2k, List.range_add, List.map_append, List.map_map]
    rfl
  rw [split]
  congr 1
  · -- top half
    rw [List.map_map]
    apply List.map_congr_left
    intro r hr
    have hr' := List.mem_range.mp hr
    simp only [Function.comp_apply]
    apply row_cells _ _ (odsRow_length hl hr') (hs _ (odsRow_length hl hr'))
    · intro c hc
      simp only [extCell, hr', hc, ↓reduceIte, List.getD_eq_getElem?_getD]
      rw [odsRow_getElem? (k := k) (ods := ods) (r := r) hc]
    · intro c hc _
      have : ¬ c < k := by omega
      simp only [extCell, hr', this, ↓reduceIte, odsRow]
  · -- bottom half
    rw [List.map_map]
    apply List.map_congr_left
    intro r hr
    have hr' := List.mem_range.mp hr
    simp only [Function.comp_apply]
    have hq : (List.map (fun colv => colv.getD r [])
        (List.map enc (List.map (fun c => List.map (fun r => ods.getD (r * k + c) []) (List.range k)) (List.range k)))) =
        q2Row enc k ods r := by
      simp [q2Row, odsCol, List.map_map, Function.comp_def]
    rw [hq]
    have hql : (q2Row enc k ods r).length = k := by simp [q2Row]
    apply row_cells _ _ hql (hs _ hql)
    · intro c hc
      have hnr : ¬ k + r < k := by omega
      simp only [extCell, hnr, hc, ↓reduceIte, Nat.add_sub_cancel_left]
      simp [q2Row, List.getD_eq_getElem?_getD, List.getElem?_map, List.getElem?_range hc]
    · intro c hc _
      have hnr : ¬ k + r < k := by omega
      have : ¬ c < k := by omega
      simp only [extCell, hnr, this, ↓reduceIte, Nat.add_sub_cancel_left]

theorem extGrid_length (enc : List Bytes → List Bytes) (k : Nat) (ods : List Bytes) :
    (extGrid enc k ods).length = 2 * k * (2 * k) := grid_length _ _ _

theorem extGrid_getD (enc : List Bytes → List Bytes) (k : Nat) (ods : List Bytes) {r c : Nat}
    (hr : r < 2 * k) (hc : c < 2 * k) : (extGrid enc k ods).getD (r * (2 * k) + c) [] = extCell enc k ods r c := by
  rw [List.getD_eq_getElem?_getD]
  unfold extGrid
  rw [grid_getElem? (fun r c => extCell enc k ods r c) (2 * k) (2 * k) r c hr hc]
  rfl

/-- a `k × k` row-major square is the grid of its cells -/
theorem square_eq_grid {k : Nat} {ods : List Bytes} (hl : ods.length = k * k) :
    ((List.range k).map (fun r => (List.range k).map (fun c => ods.getD (r * k + c) []))).flatten = ods := by
  apply List.ext_getElem?
  intro i
  by_cases hi : i < k * k
  · have hk : 0 < k := by
      cases k with
      | zero => simp at hi
      | succ k => omega
    have hdm : i / k * k + i % k = i := by rw [Nat.mul_comm]; exact Nat.div_add_mod i k
    have := grid_getElem? (fun r c => ods.getD (r * k + c) []) k k (i / k) (i % k)
      (Nat.div_lt_of_lt_mul (by simpa using hi)) (Nat.mod_lt i hk)
    rw [hdm] at this
    rw [this, List.getD_eq_getElem?_getD, List.getElem?_eq_getElem (by omega)]
    rfl
  · rw [List.getElem?_eq_none (by rw [grid_length]; omega), List.getElem?_eq_none (by omega)]

end Lumina.Proofs.EdsExtend

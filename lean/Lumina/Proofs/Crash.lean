/-
  Helper lemmas for C22: one transaction = one abstract step; histories; prefixes.
-/
import Lumina.Model.Crash
import Lumina.Spec.C22

namespace Lumina.Proofs.Crash
open Lumina.Model.Crash

variable {D σ ε : Type}

theorem writeTx_view (B : Backend D σ) (h : AtomicDurableCommit B) (d : D) (op : Op σ ε) :
    B.view (writeTx B d op).1 = applyOp (B.view d) op := by
  unfold writeTx applyOp
  cases hop : op (B.view d) with
  | ok w => simp [h.commit_visible]
  | error e => simp [h.abort_invisible]

theorem writeTx_result (B : Backend D σ) (d : D) (op : Op σ ε) :
    (writeTx B d op).2 = resultOf (B.view d) op := by
  unfold writeTx resultOf
  cases hop : op (B.view d) <;> simp

theorem runDisk_cons (B : Backend D σ) (d : D) (op : Op σ ε) (ops : List (Op σ ε)) :
    runDisk B d (op :: ops) = runDisk B (writeTx B d op).1 ops := rfl

theorem runAbs_cons (s : σ) (op : Op σ ε) (ops : List (Op σ ε)) :
    runAbs s (op :: ops) = runAbs (applyOp s op) ops := rfl

theorem runAbs_append (s : σ) (a b : List (Op σ ε)) : runAbs s (a ++ b) = runAbs (runAbs s a) b := by
  simp [runAbs, List.foldl_append]

theorem runDisk_view (B : Backend D σ) (h : AtomicDurableCommit B) (d : D) (ops : List (Op σ ε)) :
    B.view (runDisk B d ops) = runAbs (B.view d) ops := by
  induction ops generalizing d with
  | nil => rfl
  | cons op rest ih => rw [runDisk_cons, runAbs_cons, ih, writeTx_view B h]

theorem runResults_eq (B : Backend D σ) (h : AtomicDurableCommit B) (d : D) (ops : List (Op σ ε)) :
    runResults B d ops = resultsAbs (B.view d) ops := by
  induction ops generalizing d with
  | nil => rfl
  | cons op rest ih =>
    simp only [runResults, resultsAbs]
    rw [ih, writeTx_view B h, writeTx_result]

theorem take_length_append (pre post : List (Op σ ε)) : (pre ++ post).take pre.length = pre := by
  simp

theorem take_succ_append (pre post : List (Op σ ε)) (op : Op σ ε) :
    (pre ++ op :: post).take (pre.length + 1) = pre ++ [op] := by
  rw [List.take_append]
  simp [List.take_of_length_le]

theorem runAbs_snoc (s : σ) (pre : List (Op σ ε)) (op : Op σ ε) :
    runAbs s (pre ++ [op]) = applyOp (runAbs s pre) op := by
  rw [runAbs_append]; rfl

theorem prefixStates_length (s : σ) (ops : List (Op σ ε)) : (prefixStates s ops).length = ops.length + 1 := by
  induction ops generalizing s with
  | nil => rfl
  | cons op rest ih => simp [prefixStates, ih]

/-- `prefixStates s ops` at index `k` is the state after the first `k` operations -/
theorem prefixStates_get (s : σ) (ops : List (Op σ ε)) (k : Nat) (hk : k ≤ ops.length) :
    (prefixStates s ops)[k]? = some (runAbs s (ops.take k)) := by
  induction ops generalizing s k with
  | nil =>
    have : k = 0 := by simpa using hk
    subst this; rfl
  | cons op rest ih =>
    cases k with
    | zero => rfl
    | succ k =>
      simp only [prefixStates, List.getElem?_cons_succ, List.take_succ_cons, runAbs_cons]
      exact ih _ k (by simpa using hk)

/-- invariants are carried along any history -/
theorem runAbs_inv (Inv : σ → Prop) (ops : List (Op σ ε))
    (hpres : ∀ op ∈ ops, ∀ s s', Inv s → op s = .ok s' → Inv s') (s : σ) (hs : Inv s) :
    Inv (runAbs s ops) := by
  induction ops generalizing s with
  | nil => exact hs
  | cons op rest ih =>
    rw [runAbs_cons]
    apply ih (fun o ho => hpres o (List.mem_cons_of_mem _ ho))
    unfold applyOp
    cases hop : op s with
    | ok s' => exact hpres op (List.mem_cons_self) s s' hs hop
    | error e => exact hs

end Lumina.Proofs.Crash

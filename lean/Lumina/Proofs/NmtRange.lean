/-
  General range proofs of the nmt-rs model: the verifier's recursion evaluates a proof tree whose frontier is
  (left siblings) ++ (leaves) ++ (right siblings) (`frontier_inner`), how many siblings it takes on each side
  (`nLeft`, `nRight`) and that `compute_tree_size` makes it consume ALL proof nodes; agreement of a proof tree with the
  real tree under the idealised hash; namespace ranges of sorted trees; soundness of `verify_complete_namespace`.
-/
import Lumina.Proofs.Nmt

namespace Lumina.Proofs.NmtRange
open Lumina.Util Lumina.Model.Nmt Lumina.Proofs.Nmt


/-- verifier-side proof tree: the given hashes (leaf hashes and siblings) at the frontier -/
inductive PT where
  | leaf (h : NsHash)
  | node (l r : PT)

def PT.eval (H : HashFn) (ign : Bool) : PT → Except Err NsHash
  | .leaf h => .ok h
  | .node l r =>
    match l.eval H ign, r.eval H ign with
    | .ok a, .ok b => hashNodes H ign a b
    | .error e, _ => .error e
    | _, .error e => .error e

def PT.frontier : PT → List NsHash
  | .leaf h => [h]
  | .node l r => l.frontier ++ r.frontier

/-- one-step inversion of `check_range_proof_inner` (any number of remaining leaves) -/
theorem inner_step {H : HashFn} {ign : Bool} {fuel : Nat} {X P : List NsHash} {s size off : Nat}
    {h : NsHash} {X2 P2 : List NsHash}
    (e : checkRangeProofInner H ign (fuel + 1) X P s size off = .ok (h, X2, P2)) :
    X.length + s ≠ 0 ∧ ∃ right X1 P1 left,
      (if X.length + s - 1 ≥ nextSmallerPo2 size + off then
         (if size - nextSmallerPo2 size = 1 then takeLast? X = some (right, X1) ∧ P1 = P
          else checkRangeProofInner H ign fuel X P s (size - nextSmallerPo2 size) (off + nextSmallerPo2 size) = .ok (right, X1, P1))
       else takeLast? P = some (right, P1) ∧ X1 = X) ∧
      (if s < nextSmallerPo2 size + off then
         (if nextSmallerPo2 size = 1 then takeLast? X1 = some (left, X2) ∧ P2 = P1
          else checkRangeProofInner H ign fuel X1 P1 s (nextSmallerPo2 size) off = .ok (left, X2, P2))
       else takeLast? P1 = some (left, P2) ∧ X2 = X1) ∧
      hashNodes H ign left right = .ok h := by
  unfold checkRangeProofInner at e
  by_cases h0 : X.length + s = 0
  · simp [h0] at e
  · refine ⟨h0, ?_⟩
    simp only [h0, ↓reduceIte] at e
    split at e
    · cases e
    · rename_i right X1 P1 hr
      split at e
      · cases e
      · rename_i left X2' P2' hl
        split at e
        · cases e
        · rename_i hh hn
          simp only [Except.ok.injEq, Prod.mk.injEq] at e
          obtain ⟨rfl, rfl, rfl⟩ := e
          refine ⟨right, X1, P1, left, ?_, ?_, hn⟩
          · by_cases c1 : X.length + s - 1 ≥ nextSmallerPo2 size + off
            · simp only [c1, ↓reduceIte] at hr ⊢
              by_cases c2 : size - nextSmallerPo2 size = 1
              · simp only [c2, ↓reduceIte] at hr ⊢
                cases ht : takeLast? X with
                | none => simp [ht] at hr
                | some v =>
                  simp only [ht, Except.ok.injEq, Prod.mk.injEq] at hr
                  obtain ⟨a, b, c⟩ := hr
                  subst a; subst b; subst c; exact ⟨rfl, rfl⟩
              · simp only [c2, ↓reduceIte] at hr ⊢; exact hr
            · simp only [c1, ↓reduceIte] at hr ⊢
              cases ht : takeLast? P with
              | none => simp [ht] at hr
              | some v =>
                simp only [ht, Except.ok.injEq, Prod.mk.injEq] at hr
                obtain ⟨a, b, c⟩ := hr
                subst a; subst b; subst c; exact ⟨rfl, rfl⟩
          · by_cases c1 : s < nextSmallerPo2 size + off
            · simp only [c1, ↓reduceIte] at hl ⊢
              by_cases c2 : nextSmallerPo2 size = 1
              · simp only [c2, ↓reduceIte] at hl ⊢
                cases ht : takeLast? X1 with
                | none => simp [ht] at hl
                | some v =>
                  simp only [ht, Except.ok.injEq, Prod.mk.injEq] at hl
                  obtain ⟨a, b, c⟩ := hl
                  subst a; subst b; subst c; exact ⟨rfl, rfl⟩
              · simp only [c2, ↓reduceIte] at hl ⊢; exact hl
            · simp only [c1, ↓reduceIte] at hl ⊢
              cases ht : takeLast? P1 with
              | none => simp [ht] at hl
              | some v =>
                simp only [ht, Except.ok.injEq, Prod.mk.injEq] at hl
                obtain ⟨a, b, c⟩ := hl
                subst a; subst b; subst c; exact ⟨rfl, rfl⟩

/-- number of right siblings the recursion takes for last index `e` (relative) in a subtree of `size` leaves -/
def nRight : Nat → Nat → Nat → Nat
  | 0, _, _ => 0
  | f + 1, e, size =>
    if size ≤ 1 then 0
    else if e ≥ nextSmallerPo2 size then nRight f (e - nextSmallerPo2 size) (size - nextSmallerPo2 size)
    else 1 + nRight f e (nextSmallerPo2 size)

/-- number of left siblings for first index `s` (relative) -/
def nLeft : Nat → Nat → Nat → Nat
  | 0, _, _ => 0
  | f + 1, s, size =>
    if size ≤ 1 then 0
    else if s ≥ nextSmallerPo2 size then 1 + nLeft f (s - nextSmallerPo2 size) (size - nextSmallerPo2 size)
    else nLeft f s (nextSmallerPo2 size)

theorem nRight_one (f e : Nat) : nRight f e 1 = 0 := by cases f <;> simp [nRight]
theorem nLeft_one (f s : Nat) : nLeft f s 1 = 0 := by cases f <;> simp [nLeft]

/-- result of processing a child: a single leaf is taken directly, larger children recurse -/
def ChildRes (H : HashFn) (ign : Bool) (fuel : Nat) (X P : List NsHash) (s csize coff : Nat)
    (h : NsHash) (X' P' : List NsHash) : Prop :=
  if csize = 1 then takeLast? X = some (h, X') ∧ P' = P
  else checkRangeProofInner H ign fuel X P s csize coff = .ok (h, X', P')

/-- what a successful (sub)call did: it evaluated a proof tree whose frontier is
    (left siblings) ++ (consumed leaves) ++ (right siblings), all taken from the ends of the two stacks -/
def FrontierOK (H : HashFn) (ign : Bool) (fuel : Nat) (X P : List NsHash) (s size off : Nat)
    (h : NsHash) (X' P' : List NsHash) : Prop :=
  ∃ (t : PT) (PL XS PR : List NsHash), X = X' ++ XS ∧ P = P' ++ PL ++ PR ∧
    t.frontier = PL ++ XS ++ PR ∧ t.eval H ign = .ok h ∧
    XS.length = (X.length + s - 1) - max s off + 1 ∧
    PR.length = nRight fuel (X.length + s - 1 - off) size ∧
    PL.length = (if off ≤ s then nLeft fuel (s - off) size else 0)

theorem nRight_last : ∀ (f m : Nat), nRight f (2 ^ m - 1) (2 ^ m) = 0 := by
  intro f
  induction f with
  | zero => intro m; rfl
  | succ f ih =>
    intro m
    cases m with
    | zero => simp [nRight]
    | succ m =>
      unfold nRight
      have h2 := two_le_two_pow_succ m
      have hn : ¬ (2 ^ (m + 1) ≤ 1) := by omega
      have hp : 2 ^ (m + 1) = 2 ^ m + 2 ^ m := by rw [Nat.pow_succ]; omega
      have h1 : 1 ≤ 2 ^ m := Nat.one_le_two_pow
      simp only [hn, ↓reduceIte, nextSmallerPo2_pow]
      have hge : 2 ^ (m + 1) - 1 ≥ 2 ^ m := by omega
      simp only [hge, ↓reduceIte]
      have e1 : 2 ^ (m + 1) - 1 - 2 ^ m = 2 ^ m - 1 := by omega
      have e2 : 2 ^ (m + 1) - 2 ^ m = 2 ^ m := by omega
      rw [e1, e2]; exact ih m

theorem frontier_child {H : HashFn} {ign : Bool} {f : Nat}
    (ih : ∀ {X P : List NsHash} {s size off : Nat} {h : NsHash} {X' P' : List NsHash},
      2 ≤ size → off ≤ X.length + s - 1 → X.length + s - 1 < off + size → s < off + size → 1 ≤ X.length →
      checkRangeProofInner H ign f X P s size off = .ok (h, X', P') → FrontierOK H ign f X P s size off h X' P')
    {X P : List NsHash} {s csize coff : Nat} {h : NsHash} {X' P' : List NsHash}
    (hc1 : 1 ≤ csize) (h1 : coff ≤ X.length + s - 1) (h2 : X.length + s - 1 < coff + csize) (h3 : s < coff + csize)
    (h4 : 1 ≤ X.length) (hc : ChildRes H ign f X P s csize coff h X' P') :
    FrontierOK H ign f X P s csize coff h X' P' := by
  unfold ChildRes at hc
  by_cases hcs : csize = 1
  · subst hcs
    simp only [↓reduceIte] at hc
    obtain ⟨htl, rfl⟩ := hc
    have hx := takeLast?_some htl
    refine ⟨.leaf h, [], [h], [], hx, by simp, by simp [PT.frontier], rfl, ?_, by simp [nRight_one], ?_⟩
    · simp only [List.length_singleton]
      have : max s coff = coff := by omega
      rw [this]; omega
    · simp [nLeft_one]
  · simp only [hcs, ↓reduceIte] at hc
    exact ih (by omega) h1 h2 h3 h4 hc

theorem frontier_inner {H : HashFn} {ign : Bool} : ∀ (fuel : Nat) {X P : List NsHash} {s size off : Nat}
    {h : NsHash} {X' P' : List NsHash},
    2 ≤ size → off ≤ X.length + s - 1 → X.length + s - 1 < off + size → s < off + size → 1 ≤ X.length →
    checkRangeProofInner H ign fuel X P s size off = .ok (h, X', P') → FrontierOK H ign fuel X P s size off h X' P' := by
  intro fuel
  induction fuel with
  | zero => intro X P s size off h X' P' _ _ _ _ _ e; simp [checkRangeProofInner] at e
  | succ f ih =>
    intro X P s size off h X2 P2 hsz h1 h2 h3 h4 e
    obtain ⟨m, hm, hmlt, hmle⟩ := nextSmallerPo2_spec size hsz
    have hsp1 : 1 ≤ nextSmallerPo2 size := by rw [hm]; exact Nat.one_le_two_pow
    have hspl : nextSmallerPo2 size < size := by rw [hm]; exact hmlt
    obtain ⟨_, right, X1, P1, left, hR, hL, hn⟩ := inner_step e
    have hsz1 : ¬ (size ≤ 1) := by omega
    by_cases cA : X.length + s - 1 ≥ nextSmallerPo2 size + off
    · -- the right child overlaps the range
      simp only [cA, ↓reduceIte] at hR
      have hchildR : ChildRes H ign f X P s (size - nextSmallerPo2 size) (off + nextSmallerPo2 size) right X1 P1 := by
        unfold ChildRes; exact hR
      obtain ⟨tR, PLr, XSr, PRr, hX, hP, hfr, hev, hxs, hpr, hpl⟩ :=
        frontier_child ih (by omega) (by omega) (by omega) (by omega) h4 hchildR
      by_cases cL : s < nextSmallerPo2 size + off
      · -- … and so does the left child
        simp only [cL, ↓reduceIte] at hL
        have hnl : ¬ (off + nextSmallerPo2 size ≤ s) := by omega
        simp only [hnl, ↓reduceIte] at hpl
        have hPLr : PLr = [] := List.eq_nil_of_length_eq_zero hpl
        subst hPLr
        have hmax : max s (off + nextSmallerPo2 size) = off + nextSmallerPo2 size := by omega
        rw [hmax] at hxs
        have hXlen : X.length = X1.length + XSr.length := by rw [hX]; simp
        have hX1 : X1.length + s - 1 = off + nextSmallerPo2 size - 1 := by omega
        have hX1pos : 1 ≤ X1.length := by omega
        have hchildL : ChildRes H ign f X1 P1 s (nextSmallerPo2 size) off left X2 P2 := by
          unfold ChildRes; exact hL
        obtain ⟨tL, PLl, XSl, PRl, hX', hP', hfr', hev', hxs', hpr', hpl'⟩ :=
          frontier_child ih hsp1 (by omega) (by omega) (by omega) hX1pos hchildL
        have hPRl : PRl = [] := by
          apply List.eq_nil_of_length_eq_zero
          rw [hpr', hX1]
          have : off + nextSmallerPo2 size - 1 - off = nextSmallerPo2 size - 1 := by omega
          rw [this, hm]; exact nRight_last f m
        subst hPRl
        refine ⟨.node tL tR, PLl, XSl ++ XSr, PRr, ?_, ?_, ?_, ?_, ?_, ?_, ?_⟩
        · rw [hX, hX']; simp
        · rw [hP, hP']; simp
        · simp [PT.frontier, hfr, hfr']
        · simp [PT.eval, hev, hev', hn]
        · simp only [List.length_append, hxs, hxs', hX1]; omega
        · rw [hpr]
          conv => rhs; unfold nRight
          have : X.length + s - 1 - off ≥ nextSmallerPo2 size := by omega
          simp only [hsz1, ↓reduceIte, this]
          congr 1; omega
        · rw [hpl']
          by_cases ho : off ≤ s
          · simp only [ho, ↓reduceIte]
            conv => rhs; unfold nLeft
            have : ¬ (s - off ≥ nextSmallerPo2 size) := by omega
            simp only [hsz1, ↓reduceIte, this]
          · simp [ho]
      · -- the left child is a sibling
        simp only [cL, ↓reduceIte] at hL
        obtain ⟨htl, rfl⟩ := hL
        have hP1 := takeLast?_some htl
        have hge : off + nextSmallerPo2 size ≤ s := by omega
        simp only [hge, ↓reduceIte] at hpl
        have hmax : max s (off + nextSmallerPo2 size) = s := by omega
        rw [hmax] at hxs
        have hXlen : X.length = X2.length + XSr.length := by rw [hX]; simp
        have hX1nil : X2 = [] := List.eq_nil_of_length_eq_zero (by omega)
        refine ⟨.node (.leaf left) tR, left :: PLr, XSr, PRr, hX, ?_, ?_, ?_, ?_, ?_, ?_⟩
        · rw [hP, hP1]; simp
        · simp [PT.frontier, hfr]
        · simp [PT.eval, hev, hn]
        · have : max s off = s := by omega
          rw [this]; omega
        · rw [hpr]
          conv => rhs; unfold nRight
          have : X.length + s - 1 - off ≥ nextSmallerPo2 size := by omega
          simp only [hsz1, ↓reduceIte, this]
          congr 1; omega
        · have ho : off ≤ s := by omega
          simp only [ho, ↓reduceIte, List.length_cons, hpl]
          conv => rhs; unfold nLeft
          have : s - off ≥ nextSmallerPo2 size := by omega
          simp only [hsz1, ↓reduceIte, this]
          have e1 : s - (off + nextSmallerPo2 size) = s - off - nextSmallerPo2 size := by omega
          rw [e1]; omega
    · -- the right child is a sibling; the left child contains the whole remaining range
      simp only [cA, ↓reduceIte] at hR
      obtain ⟨htl, hx⟩ := hR
      have hx' := hx.symm
      subst hx'
      have hP1 := takeLast?_some htl
      have cL : s < nextSmallerPo2 size + off := by omega
      simp only [cL, ↓reduceIte] at hL
      have hchildL : ChildRes H ign f X P1 s (nextSmallerPo2 size) off left X2 P2 := by
        unfold ChildRes; exact hL
      obtain ⟨tL, PLl, XSl, PRl, hX', hP', hfr', hev', hxs', hpr', hpl'⟩ :=
        frontier_child ih hsp1 h1 (by omega) (by omega) h4 hchildL
      refine ⟨.node tL (.leaf right), PLl, XSl, PRl ++ [right], hX', ?_, ?_, ?_, hxs', ?_, ?_⟩
      · rw [hP1, hP']; simp
      · simp [PT.frontier, hfr']
      · simp [PT.eval, hev', hn]
      · simp only [List.length_append, List.length_singleton, hpr']
        conv => rhs; unfold nRight
        have : ¬ (X.length + s - 1 - off ≥ nextSmallerPo2 size) := by omega
        simp only [hsz1, ↓reduceIte, this]; omega
      · rw [hpl']
        by_cases ho : off ≤ s
        · simp only [ho, ↓reduceIte]
          conv => rhs; unfold nLeft
          have : ¬ (s - off ≥ nextSmallerPo2 size) := by omega
          simp only [hsz1, ↓reduceIte, this]
        · simp [ho]


theorem popcountAux_fuel2 : ∀ (fuel fuel' n : Nat), n ≤ fuel → n ≤ fuel' → popcountAux fuel n = popcountAux fuel' n := by
  intro fuel
  induction fuel with
  | zero =>
    intro fuel' n h _
    have : n = 0 := by omega
    subst this
    cases fuel' <;> simp [popcountAux]
  | succ f ih =>
    intro fuel' n h h'
    by_cases hn : n = 0
    · subst hn; cases fuel' <;> simp [popcountAux]
    · obtain ⟨f', rfl⟩ : ∃ f', fuel' = f' + 1 := ⟨fuel' - 1, by omega⟩
      unfold popcountAux
      simp only [hn, ↓reduceIte]
      rw [ih f' (n / 2) (by omega) (by omega)]

theorem popcountAux_fuel (fuel n : Nat) (h : n ≤ fuel) : popcountAux fuel n = popcountAux n n :=
  popcountAux_fuel2 fuel n n h (Nat.le_refl _)

theorem cnls_rec {n : Nat} (hn : n ≠ 0) :
    computeNumLeftSiblings n = n % 2 + computeNumLeftSiblings (n / 2) := by
  unfold computeNumLeftSiblings
  obtain ⟨n', rfl⟩ : ∃ n', n = n' + 1 := ⟨n - 1, by omega⟩
  conv => lhs; unfold popcountAux
  simp only [hn, ↓reduceIte]
  rw [popcountAux_fuel n' ((n' + 1) / 2) (by omega)]

theorem cnls_zero : computeNumLeftSiblings 0 = 0 := rfl

/-- adding a power of two above the number adds one to the popcount -/
theorem cnls_add_pow : ∀ (m r : Nat), r < 2 ^ m → computeNumLeftSiblings (2 ^ m + r) = 1 + computeNumLeftSiblings r := by
  intro m
  induction m with
  | zero =>
    intro r hr
    have : r = 0 := by simpa using hr
    subst this
    rw [cnls_rec (by decide)]
  | succ m ih =>
    intro r hr
    have hp : 2 ^ (m + 1) = 2 * 2 ^ m := by rw [Nat.pow_succ]; omega
    have h1 : 1 ≤ 2 ^ m := Nat.one_le_two_pow
    rw [cnls_rec (by omega)]
    have e1 : (2 ^ (m + 1) + r) % 2 = r % 2 := by omega
    have e2 : (2 ^ (m + 1) + r) / 2 = 2 ^ m + r / 2 := by omega
    rw [e1, e2, ih (r / 2) (by omega)]
    by_cases hr0 : r = 0
    · subst hr0; simp [cnls_zero]
    · rw [cnls_rec hr0]; omega

/-- the recursion takes `popcount(s)` left siblings -/
theorem nLeft_popcount : ∀ (fuel size s : Nat), size ≤ fuel → s < size → nLeft fuel s size = computeNumLeftSiblings s := by
  intro fuel
  induction fuel with
  | zero => intro size s h1 h2; omega
  | succ f ih =>
    intro size s hf hs
    unfold nLeft
    by_cases h1 : size ≤ 1
    · have : s = 0 := by omega
      subst this; simp [h1, cnls_zero]
    · simp only [h1, ↓reduceIte]
      obtain ⟨m, hm, hmlt, hmle⟩ := nextSmallerPo2_spec size (by omega)
      rw [hm]
      have hp : 2 ^ (m + 1) = 2 * 2 ^ m := by rw [Nat.pow_succ]; omega
      by_cases hge : s ≥ 2 ^ m
      · simp only [hge, ↓reduceIte]
        rw [ih (size - 2 ^ m) (s - 2 ^ m) (by omega) (by omega)]
        have : s = 2 ^ m + (s - 2 ^ m) := by omega
        conv => rhs; rw [this]
        rw [cnls_add_pow m (s - 2 ^ m) (by omega)]
      · simp only [hge, ↓reduceIte]
        exact ih (2 ^ m) s (by omega) (by omega)

theorem zerosLow_add_mul : ∀ (t q r : Nat), r < 2 ^ t → zerosLow (q * 2 ^ t + r) t = zerosLow r t := by
  intro t
  induction t with
  | zero => intro q r _; rfl
  | succ t ih =>
    intro q r hr
    have hp : 2 ^ (t + 1) = 2 * 2 ^ t := by rw [Nat.pow_succ]; omega
    unfold zerosLow
    have e0 : q * 2 ^ (t + 1) = 2 * (q * 2 ^ t) := by rw [hp, Nat.mul_left_comm]
    have e1 : (q * 2 ^ (t + 1) + r) % 2 = r % 2 := by rw [e0]; omega
    have e2 : (q * 2 ^ (t + 1) + r) / 2 = q * 2 ^ t + r / 2 := by rw [e0]; omega
    rw [e1, e2, ih q (r / 2) (by omega)]

theorem zerosLow_snoc : ∀ (t r : Nat), r < 2 ^ (t + 1) →
    zerosLow r (t + 1) = zerosLow (r % 2 ^ t) t + (if r < 2 ^ t then 1 else 0) := by
  intro t
  induction t with
  | zero =>
    intro r hr
    have : r = 0 ∨ r = 1 := by simp at hr; omega
    rcases this with rfl | rfl <;> simp [zerosLow]
  | succ t ih =>
    intro r hr
    have hp : 2 ^ (t + 1) = 2 * 2 ^ t := by rw [Nat.pow_succ]; omega
    have hp2 : 2 ^ (t + 1 + 1) = 2 * 2 ^ (t + 1) := by rw [Nat.pow_succ]; omega
    conv => lhs; unfold zerosLow
    rw [ih (r / 2) (by omega)]
    conv => rhs; unfold zerosLow
    have e1 : r % 2 ^ (t + 1) % 2 = r % 2 := by rw [hp]; exact Nat.mod_mod_of_dvd r ⟨2 ^ t, rfl⟩
    have e2 : r % 2 ^ (t + 1) / 2 = r / 2 % 2 ^ t := by rw [hp]; exact Nat.mod_mul_right_div_self r 2 (2 ^ t)
    rw [e1, e2]
    have e3 : (r / 2 < 2 ^ t) ↔ (r < 2 ^ (t + 1)) := by rw [hp]; omega
    by_cases hc : r < 2 ^ (t + 1)
    · simp [hc, e3.mpr hc]; omega
    · have : ¬ (r / 2 < 2 ^ t) := fun h => hc (e3.mp h)
      simp [hc, this]

theorem nRight_perfect : ∀ (t fuel r : Nat), 2 ^ t ≤ fuel → r < 2 ^ t → nRight fuel r (2 ^ t) = zerosLow r t := by
  intro t
  induction t with
  | zero => intro fuel r _ _; simp [nRight_one, zerosLow]
  | succ t ih =>
    intro fuel r hf hr
    have hp : 2 ^ (t + 1) = 2 ^ t + 2 ^ t := by rw [Nat.pow_succ]; omega
    have h1 : 1 ≤ 2 ^ t := Nat.one_le_two_pow
    obtain ⟨f, rfl⟩ : ∃ f, fuel = f + 1 := ⟨fuel - 1, by omega⟩
    unfold nRight
    have hn : ¬ (2 ^ (t + 1) ≤ 1) := by omega
    simp only [hn, ↓reduceIte, nextSmallerPo2_pow]
    rw [zerosLow_snoc t r hr]
    by_cases hge : r ≥ 2 ^ t
    · have e2 : 2 ^ (t + 1) - 2 ^ t = 2 ^ t := by omega
      have : ¬ (r < 2 ^ t) := by omega
      simp only [hge, ↓reduceIte, e2, this, Nat.add_zero]
      rw [ih f (r - 2 ^ t) (by omega) (by omega)]
      congr 1
      have : r = 2 ^ t + (r - 2 ^ t) := by omega
      conv => rhs; rw [this]
      rw [Nat.add_mod_left, Nat.mod_eq_of_lt (by omega)]
    · have hlt : r < 2 ^ t := by omega
      simp only [hge, ↓reduceIte, hlt]
      rw [ih f r (by omega) hlt, Nat.mod_eq_of_lt hlt]; omega

/-- `next_smaller_po2` of a multiple of `2^t` (at least two of them) is a multiple of `2^t` -/
theorem nextSmallerPo2_mul {q t : Nat} (hq : 1 ≤ q) :
    ∃ S, nextSmallerPo2 ((q + 1) * 2 ^ t) = S * 2 ^ t ∧ 1 ≤ S ∧ S ≤ q := by
  have h1 : 1 ≤ 2 ^ t := Nat.one_le_two_pow
  have hsz : 2 ≤ (q + 1) * 2 ^ t := by
    have : 2 * 1 ≤ (q + 1) * 2 ^ t := Nat.mul_le_mul (by omega) h1
    omega
  obtain ⟨m, hm, hlt, hle⟩ := nextSmallerPo2_spec _ hsz
  have hmt : t ≤ m := by
    have : 2 * 2 ^ t ≤ (q + 1) * 2 ^ t := Nat.mul_le_mul_right _ (by omega)
    have : 2 ^ (t + 1) ≤ 2 ^ (m + 1) := by rw [Nat.pow_succ]; omega
    have := (Nat.pow_le_pow_iff_right (by omega)).mp this
    omega
  refine ⟨2 ^ (m - t), ?_, Nat.one_le_two_pow, ?_⟩
  · rw [hm, ← Nat.pow_add]; congr 1; omega
  · have e : 2 ^ m = 2 ^ (m - t) * 2 ^ t := by rw [← Nat.pow_add]; congr 1; omega
    rw [e] at hlt
    have := Nat.lt_of_mul_lt_mul_right hlt
    omega

/-- **fixed point of `compute_tree_size`**: in a tree of `(q+1)·2^t` leaves the last index `q·2^t + r` has exactly
    as many right siblings as `r` has zero bits among its low `t` bits -/
theorem nRight_fill : ∀ (fuel q t r : Nat), r < 2 ^ t → (q + 1) * 2 ^ t ≤ fuel →
    nRight fuel (q * 2 ^ t + r) ((q + 1) * 2 ^ t) = zerosLow r t := by
  intro fuel
  induction fuel with
  | zero =>
    intro q t r _ hf
    have h1 : 1 ≤ 2 ^ t := Nat.one_le_two_pow
    have : 1 * 1 ≤ (q + 1) * 2 ^ t := Nat.mul_le_mul (by omega) h1
    omega
  | succ f ih =>
    intro q t r hr hf
    by_cases hq : q = 0
    · subst hq
      simp only [Nat.zero_mul, Nat.zero_add, Nat.one_mul] at hf ⊢
      exact nRight_perfect t (f + 1) r hf hr
    · obtain ⟨S, hS, hS1, hSq⟩ := nextSmallerPo2_mul (t := t) (show 1 ≤ q by omega)
      have h1 : 1 ≤ 2 ^ t := Nat.one_le_two_pow
      obtain ⟨q', rfl⟩ : ∃ q', q = S + q' := ⟨q - S, by omega⟩
      have eA : (S + q') * 2 ^ t = S * 2 ^ t + q' * 2 ^ t := Nat.add_mul _ _ _
      have eB : (S + q' + 1) * 2 ^ t = S * 2 ^ t + (q' + 1) * 2 ^ t := by
        rw [Nat.add_assoc, Nat.add_mul]
      have hsz : ¬ ((S + q' + 1) * 2 ^ t ≤ 1) := by
        have : 2 * 1 ≤ (S + q' + 1) * 2 ^ t := Nat.mul_le_mul (by omega) h1
        omega
      have hSpos : 1 * 1 ≤ S * 2 ^ t := Nat.mul_le_mul hS1 h1
      unfold nRight
      simp only [hsz, ↓reduceIte, hS]
      have hge : (S + q') * 2 ^ t + r ≥ S * 2 ^ t := by rw [eA]; omega
      simp only [hge, ↓reduceIte]
      have e1 : (S + q') * 2 ^ t + r - S * 2 ^ t = q' * 2 ^ t + r := by rw [eA]; omega
      have e2 : (S + q' + 1) * 2 ^ t - S * 2 ^ t = (q' + 1) * 2 ^ t := by rw [eB]; omega
      rw [e1, e2]
      apply ih q' t r hr
      rw [eB] at hf; omega


/-- `roots` are the roots of consecutive non-empty segments that partition `M` -/
inductive Segs (H : HashFn) (ign : Bool) : List NsHash → List NsHash → Prop where
  | nil : Segs H ign [] []
  | cons {seg rest : List NsHash} {r : NsHash} {rs : List NsHash} :
      seg ≠ [] → computeRoot H ign seg = .ok r → Segs H ign rest rs → Segs H ign (seg ++ rest) (r :: rs)

theorem Segs.append {H : HashFn} {ign : Bool} {M1 M2 r1 r2 : List NsHash} (h1 : Segs H ign M1 r1) (h2 : Segs H ign M2 r2) :
    Segs H ign (M1 ++ M2) (r1 ++ r2) := by
  induction h1 with
  | nil => simpa using h2
  | cons hne hr _ ih => rw [List.append_assoc]; exact Segs.cons hne hr ih

theorem Segs.single {H : HashFn} {ign : Bool} {seg : List NsHash} {r : NsHash} (hne : seg ≠ [])
    (hr : computeRoot H ign seg = .ok r) : Segs H ign seg [r] := by
  have := Segs.cons hne hr (Segs.nil (H := H) (ign := ign))
  simpa using this

theorem Segs.length_le {H : HashFn} {ign : Bool} {M roots : List NsHash} (h : Segs H ign M roots) :
    roots.length ≤ M.length := by
  induction h with
  | nil => simp
  | @cons seg rest r rs hne _ _ ih =>
    have : 1 ≤ seg.length := by
      cases seg with
      | nil => exact absurd rfl hne
      | cons a t => simp
    simp only [List.length_cons, List.length_append]; omega

/-- the honest single-leaf proof: roots of segments left of the leaf, then roots of segments right of it -/
theorem build_single_segs {H : HashFn} {ign : Bool} : ∀ (j fuelB : Nat) (L : List NsHash) (off idx : Nat) (root : NsHash),
    L.length = 2 ^ (j + 1) → off ≤ idx → idx < off + 2 ^ (j + 1) → perfectRoot H ign (j + 1) L = .ok root →
    2 ^ (j + 1) < fuelB →
    ∃ pl pr, buildRangeProofAux H ign fuelB L off idx (idx + 1) = .ok (pl ++ pr) ∧
      Segs H ign (L.take (idx - off)) pl ∧ Segs H ign (L.drop (idx - off + 1)) pr ∧
      pl.length = computeNumLeftSiblings (idx - off) := by
  intro j
  induction j with
  | zero =>
    intro fuelB L off idx root hl ho hi hr hfb
    match L, hl with
    | [a, b], _ =>
      obtain ⟨fb, rfl⟩ : ∃ fb, fuelB = fb + 1 := ⟨fuelB - 1, by omega⟩
      rw [buildRangeProofAux_unfold (by simp)]
      simp only [List.length_cons, List.length_nil, Nat.zero_add, Nat.reduceAdd, nextSmallerPo2_two]
      by_cases hc : idx = off
      · subst hc
        refine ⟨[], [b], ?_, ?_, ?_, ?_⟩
        · have c1 : ¬ (idx ≥ idx + 1) := by omega
          have c2 : ¬ (idx > idx ∨ idx + 1 < idx + 1) := by omega
          have c3 : idx + 1 ≤ idx + 1 := by omega
          simp [c1, c2, c3, computeRoot_single, Except.map]
        · simp; exact Segs.nil
        · simp; exact Segs.single (by simp) (computeRoot_single b)
        · simp [cnls_zero]
      · have hidx : idx = off + 1 := by simp at hi; omega
        subst hidx
        refine ⟨[a], [], ?_, ?_, ?_, ?_⟩
        · have c1 : off + 1 ≥ off + 1 := by omega
          have c2 : ¬ (off + 1 + 1 ≤ off + 1) := by omega
          have c3 : ¬ (off + 1 > off + 1 ∨ off + 1 + 1 < off + 2) := by omega
          simp [c1, c2, c3, computeRoot_single, Except.map]
        · have : off + 1 - off = 1 := by omega
          rw [this]; simp; exact Segs.single (by simp) (computeRoot_single a)
        · have : off + 1 - off + 1 = 2 := by omega
          rw [this]; simp; exact Segs.nil
        · have : off + 1 - off = 1 := by omega
          rw [this]; rfl
  | succ j ih =>
    intro fuelB L off idx root hl ho hi hr hfb
    obtain ⟨fb, rfl⟩ : ∃ fb, fuelB = fb + 1 := ⟨fuelB - 1, by omega⟩
    obtain ⟨l, r, hl', hr', hn⟩ := perfectRoot_succ hr
    have hpow : 2 ^ (j + 1 + 1) = 2 ^ (j + 1) + 2 ^ (j + 1) := by rw [Nat.pow_succ]; omega
    have h2 : 2 ≤ 2 ^ (j + 1) := two_le_two_pow_succ j
    have hlt : (L.take (2 ^ (j + 1))).length = 2 ^ (j + 1) := by rw [List.length_take, hl]; omega
    have hld : (L.drop (2 ^ (j + 1))).length = 2 ^ (j + 1) := by rw [List.length_drop, hl]; omega
    have htne : L.take (2 ^ (j + 1)) ≠ [] := by
      intro h; rw [h] at hlt; simp at hlt; omega
    have hdne : L.drop (2 ^ (j + 1)) ≠ [] := by
      intro h; rw [h] at hld; simp at hld; omega
    rw [buildRangeProofAux_unfold (by omega)]
    simp only [hl, nextSmallerPo2_pow]
    by_cases hc : idx < off + 2 ^ (j + 1)
    · obtain ⟨pl, pr, hb, hsl, hsr, hpl⟩ := ih fb (L.take (2 ^ (j + 1))) off idx l hlt ho hc hl' (by omega)
      refine ⟨pl, pr ++ [r], ?_, ?_, ?_, hpl⟩
      · have c1 : ¬ (idx ≥ off + 2 ^ (j + 1)) := by omega
        have c2 : idx > off ∨ idx + 1 < off + 2 ^ (j + 1) := by omega
        have c3 : idx + 1 ≤ off + 2 ^ (j + 1) := by omega
        simp only [c1, c2, c3, ↓reduceIte, hb]
        rw [computeRoot_perfect hld, hr']
        simp [Except.map]
      · rw [List.take_take] at hsl
        have : min (idx - off) (2 ^ (j + 1)) = idx - off := by omega
        rw [this] at hsl; exact hsl
      · have hsplit : L.drop (idx - off + 1) = (L.take (2 ^ (j + 1))).drop (idx - off + 1) ++ L.drop (2 ^ (j + 1)) := by
          conv => lhs; rw [← List.take_append_drop (2 ^ (j + 1)) L]
          rw [List.drop_append_of_le_length (by rw [hlt]; omega)]
        rw [hsplit]
        exact hsr.append (Segs.single hdne (by rw [computeRoot_perfect hld]; exact hr'))
    · obtain ⟨pl, pr, hb, hsl, hsr, hpl⟩ := ih fb (L.drop (2 ^ (j + 1))) (off + 2 ^ (j + 1)) idx r hld
        (by omega) (by omega) hr' (by omega)
      refine ⟨[l] ++ pl, pr, ?_, ?_, ?_, ?_⟩
      · have c1 : idx ≥ off + 2 ^ (j + 1) := by omega
        have c2 : ¬ (idx + 1 ≤ off + 2 ^ (j + 1)) := by omega
        have c3 : idx > off + 2 ^ (j + 1) ∨ idx + 1 < off + 2 ^ (j + 1 + 1) := by omega
        simp only [c1, c2, c3, ↓reduceIte, hb]
        rw [computeRoot_perfect hlt, hl']
        simp [Except.map]
      · have hsplit : L.take (idx - off) = L.take (2 ^ (j + 1)) ++ (L.drop (2 ^ (j + 1))).take (idx - (off + 2 ^ (j + 1))) := by
          have e : idx - off = 2 ^ (j + 1) + (idx - (off + 2 ^ (j + 1))) := by omega
          conv => lhs; rw [e]
          rw [List.take_add]
        rw [hsplit]
        exact (Segs.single htne (by rw [computeRoot_perfect hlt]; exact hl')).append hsl
      · have : L.drop (idx - off + 1) = (L.drop (2 ^ (j + 1))).drop (idx - (off + 2 ^ (j + 1)) + 1) := by
          rw [List.drop_drop]; congr 1; omega
        rw [this]; exact hsr
      · simp only [List.length_append, List.length_singleton, hpl]
        have e : idx - off = 2 ^ (j + 1) + (idx - (off + 2 ^ (j + 1))) := by omega
        rw [e, cnls_add_pow (j + 1) _ (by omega)]

theorem Segs.mem {H : HashFn} {ign : Bool} {M roots : List NsHash} (h : Segs H ign M roots) :
    ∀ r ∈ roots, ∃ seg, seg ≠ [] ∧ seg.Sublist M ∧ computeRoot H ign seg = .ok r := by
  induction h with
  | nil => intro r hr; simp at hr
  | @cons seg rest r0 rs hne hr _ ih =>
    intro r hmem
    rcases List.mem_cons.mp hmem with h | h
    · subst h; exact ⟨seg, hne, List.sublist_append_left seg rest, hr⟩
    · obtain ⟨s, h1, h2, h3⟩ := ih r h
      exact ⟨s, h1, h2.trans (List.sublist_append_right seg rest), h3⟩

abbrev SortedNs (L : List NsHash) : Prop := L.Pairwise (fun a b => leB a.minNs b.minNs = true)

theorem computeRoot_range {H : HashFn} {L : List NsHash} {r : NsHash} (hne : L ≠ []) (hleaf : ∀ x ∈ L, LeafNs x)
    (hs : SortedNs L) (e : computeRoot H true L = .ok r) : RangeOK L r :=
  computeRootAux_range _ hne hleaf hs e

/-- roots of consecutive segments of a sorted list of leaf hashes are ordered: `min ≤ max` each, `max ≤ next min` -/
theorem Segs.ordered {H : HashFn} {M roots : List NsHash} (h : Segs H true M roots) (hleaf : ∀ x ∈ M, LeafNs x)
    (hs : SortedNs M) : adjacentBad roots = false ∧ ∀ r ∈ roots, ltB r.maxNs r.minNs = false := by
  induction h with
  | nil => exact ⟨rfl, by intro r hr; simp at hr⟩
  | @cons seg rest r0 rs hne hr hrest ih =>
    have hs' := hs
    unfold SortedNs at hs'
    rw [List.pairwise_append] at hs'
    obtain ⟨hsseg, hsrest, hcross⟩ := hs'
    have R0 := computeRoot_range hne (fun x hx => hleaf x (List.mem_append_left _ hx)) hsseg hr
    obtain ⟨ih1, ih2⟩ := ih (fun x hx => hleaf x (List.mem_append_right _ hx)) hsrest
    refine ⟨?_, ?_⟩
    · cases hrest with
      | nil => rfl
      | @cons seg2 rest2 r2 rs2 hne2 hr2 hrest2 =>
        simp only [adjacentBad, Bool.or_eq_false_iff]
        refine ⟨?_, ih1⟩
        have hs2 : SortedNs seg2 := by
          unfold SortedNs; rw [List.pairwise_append] at hsrest; exact hsrest.1
        have R2 := computeRoot_range hne2
          (fun x hx => hleaf x (List.mem_append_right _ (List.mem_append_left _ hx))) hs2 hr2
        obtain ⟨x, hx, hxle⟩ := R0.maxMem
        obtain ⟨y, hy, hye⟩ := R2.minMem
        have : leB r0.maxNs r2.minNs = true := by
          rw [hye]; exact leB_trans hxle (hcross x hx y (List.mem_append_left _ hy))
        unfold leB at this; simpa using this
    · intro r hmem
      rcases List.mem_cons.mp hmem with h | h
      · subst h
        have := R0.minMax
        unfold leB at this; simpa using this
      · exact ih2 r h

/-- **the honest single-leaf proof passes lumina's shape validation** -/
theorem validateShape_honest {H : HashFn} {L pl pr : List NsHash} {idx : Nat} {x : NsHash}
    (hleaf : ∀ y ∈ L, LeafNs y) (hs : SortedNs L) (hx : L[idx]? = some x)
    (hpl : Segs H true (L.take idx) pl) (hpr : Segs H true (L.drop (idx + 1)) pr)
    (hlen : pl.length = computeNumLeftSiblings idx) (ign : Bool) :
    validateShape ⟨idx, idx + 1, pl ++ pr, ign, false, none⟩ x.minNs x.minNs = .ok () := by
  have hidx : idx < L.length := (List.getElem?_eq_some_iff.mp hx).1
  have hsplit : L = L.take idx ++ x :: L.drop (idx + 1) := by
    have h1 : L.drop idx = x :: L.drop (idx + 1) := by
      rw [List.drop_eq_getElem_cons hidx]
      have := (List.getElem?_eq_some_iff.mp hx).2
      rw [this]
    conv => lhs; rw [← List.take_append_drop idx L, h1]
  have hs' := hs
  unfold SortedNs at hs'
  rw [hsplit, List.pairwise_append] at hs'
  obtain ⟨hsl, hsxr, hcross⟩ := hs'
  rw [List.pairwise_cons] at hsxr
  obtain ⟨hxr, hsr⟩ := hsxr
  -- the siblings are the segment roots of L without x, which is still sorted
  have hM : SortedNs (L.take idx ++ L.drop (idx + 1)) := by
    unfold SortedNs; rw [List.pairwise_append]
    exact ⟨hsl, hsr, fun a ha b hb => hcross a ha b (List.mem_cons_of_mem _ hb)⟩
  have hleafM : ∀ y ∈ L.take idx ++ L.drop (idx + 1), LeafNs y := by
    intro y hy
    rcases List.mem_append.mp hy with h | h
    · exact hleaf y (List.mem_of_mem_take h)
    · exact hleaf y (List.mem_of_mem_drop h)
  obtain ⟨hadj, hmm⟩ := (hpl.append hpr).ordered hleafM hM
  unfold validateShape
  simp only
  have c1 : ¬ (computeNumLeftSiblings idx > (pl ++ pr).length) := by simp [List.length_append, hlen]
  have c2 : (pl ++ pr).any (fun n => ltB n.maxNs n.minNs) = false := by
    rw [List.any_eq_false]; intro r hr; simpa using hmm r hr
  simp only [c1, ↓reduceIte, c2, hadj, Bool.false_eq_true]
  -- left neighbour
  have c4 : ∀ l, computeNumLeftSiblings idx ≠ 0 → (pl ++ pr)[computeNumLeftSiblings idx - 1]? = some l →
      ltB x.minNs l.maxNs = false := by
    intro l h0 hl
    have hlt : computeNumLeftSiblings idx - 1 < pl.length := by omega
    rw [List.getElem?_append_left hlt, List.getElem?_eq_getElem hlt] at hl
    injection hl with hl
    subst hl
    obtain ⟨seg, hne, hsub, hroot⟩ := hpl.mem _ (List.getElem_mem hlt)
    have R := computeRoot_range hne (fun y hy => hleaf y (List.mem_of_mem_take (hsub.subset hy)))
      (hsl.sublist hsub) hroot
    obtain ⟨y, hy, hyle⟩ := R.maxMem
    have : leB (pl[computeNumLeftSiblings idx - 1]).maxNs x.minNs = true :=
      leB_trans hyle (hcross y (hsub.subset hy) x (by simp))
    unfold leB at this; simpa using this
  have c5 : ∀ r, (pl ++ pr)[computeNumLeftSiblings idx]? = some r → ltB r.minNs x.minNs = false := by
    intro r hr0
    rw [← hlen, List.getElem?_append_right (Nat.le_refl _), Nat.sub_self] at hr0
    have hmem : r ∈ pr := List.mem_of_getElem? hr0
    obtain ⟨seg, hne, hsub, hroot⟩ := hpr.mem _ hmem
    have R := computeRoot_range hne (fun y hy => hleaf y (List.mem_of_mem_drop (hsub.subset hy)))
      (hsr.sublist hsub) hroot
    obtain ⟨y, hy, hye⟩ := R.minMem
    have : leB x.minNs r.minNs = true := by rw [hye]; exact hxr y (hsub.subset hy)
    unfold leB at this; simpa using this
  have fin : ∀ (b : Bool), b = false →
      (if b = true then Except.error Err.malformedProof
       else if (match (pl ++ pr)[computeNumLeftSiblings idx]? with
                | some r => ltB r.minNs x.minNs
                | none => false) = true then Except.error Err.malformedProof
       else (Except.ok () : Except Err Unit)) = Except.ok () := by
    intro b hb
    subst hb
    simp only [Bool.false_eq_true, ↓reduceIte]
    cases hr0 : (pl ++ pr)[computeNumLeftSiblings idx]? with
    | none => simp
    | some r => simp [c5 r hr0]
  apply fin
  by_cases h0 : computeNumLeftSiblings idx = 0
  · simp [h0]
  · simp only [ne_eq, h0, not_false_eq_true, ↓reduceIte]
    cases hl : (pl ++ pr)[computeNumLeftSiblings idx - 1]? with
    | none => rfl
    | some l => simp [c4 l h0 hl]

theorem pushLeaves_some' {H : HashFn} {leaves : List (Bytes × Bytes)} {hs : List NsHash}
    (h : pushLeaves H leaves = some hs) : hs = leaves.map (fun p => hashLeaf H p.1 p.2) := by
  unfold pushLeaves at h
  split at h
  · injection h with h; rw [← h]
  · cases h

theorem pushOrderOk_sorted : ∀ (nss : List Bytes) (hi : Bytes), pushOrderOk hi nss = true →
    nss.Pairwise (fun a b => leB a b = true) ∧ ∀ x ∈ nss, leB hi x = true := by
  intro nss
  induction nss with
  | nil => intro hi _; exact ⟨List.Pairwise.nil, by intro x hx; simp at hx⟩
  | cons a t ih =>
    intro hi h
    unfold pushOrderOk at h
    split at h
    · cases h
    · rename_i hlt
      obtain ⟨h1, h2⟩ := ih a h
      have ha : leB hi a = true := by unfold leB; simpa using hlt
      refine ⟨List.Pairwise.cons h2 h1, ?_⟩
      intro x hx
      rcases List.mem_cons.mp hx with rfl | hx
      · exact ha
      · exact leB_trans ha (h2 x hx)

/-- the leaf hashes `push_leaf` accepts are namespace-sorted leaf hashes -/
theorem pushLeaves_sorted {H : HashFn} {leaves : List (Bytes × Bytes)} {hs : List NsHash}
    (h : pushLeaves H leaves = some hs) (hlen : ∀ p ∈ leaves, p.1.length = NS_SIZE) :
    SortedNs hs ∧ ∀ x ∈ hs, LeafNs x := by
  have hmap := pushLeaves_some' h
  unfold pushLeaves at h
  split at h
  · rename_i hok
    obtain ⟨hp, _⟩ := pushOrderOk_sorted _ _ hok
    subst hmap
    refine ⟨?_, ?_⟩
    · unfold SortedNs
      rw [List.pairwise_map]
      rw [List.pairwise_map] at hp
      exact hp
    · intro x hx
      obtain ⟨p, hp', rfl⟩ := List.mem_map.mp hx
      exact ⟨rfl, hlen p hp'⟩
  · cases h


theorem zerosLow_succ' : ∀ (t e : Nat), zerosLow e (t + 1) = zerosLow e t + (if (e / 2 ^ t) % 2 = 0 then 1 else 0) := by
  intro t
  induction t with
  | zero => intro e; simp [zerosLow]
  | succ t ih =>
    intro e
    conv => lhs; unfold zerosLow
    rw [ih (e / 2)]
    conv => rhs; unfold zerosLow
    have : e / 2 / 2 ^ t = e / 2 ^ (t + 1) := by
      rw [Nat.div_div_eq_div_mul, Nat.pow_succ, Nat.mul_comm]
    rw [this]; omega

theorem pow_le_u32 {t idx : Nat} (h1 : 2 ^ t - 1 ≤ idx) (h2 : idx ≤ U32_MAX) : t ≤ 32 := by
  have : 2 ^ t ≤ 2 ^ 32 := by simp [U32_MAX] at h2; omega
  exact (Nat.pow_le_pow_iff_right (by omega)).mp this

/-- the loop of `compute_tree_size`: the result is `(e / 2^t' + 1) · 2^t'` for the `t'` at which the requested number
    of zero bits of `e` has been filled -/
theorem computeTreeSizeAux_char (e : Nat) : ∀ (fuel t rem idx T : Nat),
    idx = (e / 2 ^ t) * 2 ^ t + (2 ^ t - 1) → (idx < U32_MAX ∨ t = 0) → idx ≤ U32_MAX →
    computeTreeSizeAux fuel rem idx (2 ^ t) = .ok T →
    ∃ t', T = (e / 2 ^ t' + 1) * 2 ^ t' ∧ zerosLow e t' = zerosLow e t + rem := by
  intro fuel
  induction fuel with
  | zero => intro t rem idx T _ _ _ h; simp [computeTreeSizeAux] at h
  | succ f ih =>
    intro t rem idx T hidx hlt hle h
    have hpt : 1 ≤ 2 ^ t := Nat.one_le_two_pow
    unfold computeTreeSizeAux at h
    by_cases hr : rem = 0
    · simp only [hr, ↓reduceIte, Except.ok.injEq] at h
      refine ⟨t, ?_, by simp [hr]⟩
      rw [← h, hidx, Nat.add_mul]; omega
    · simp only [hr, ↓reduceIte] at h
      have hm0 : ¬ (2 ^ t = 0) := by omega
      simp only [hm0, ↓reduceIte] at h
      have hdiv : idx / 2 ^ t = e / 2 ^ t := by rw [hidx]; exact fill_div _ _ hpt
      rw [hdiv] at h
      have ht32 : t ≤ 32 := pow_le_u32 (by rw [hidx]; omega) hle
      have hmask : 2 ^ t * 2 % USIZE_MOD = 2 ^ (t + 1) := by
        rw [← Nat.pow_succ]
        apply Nat.mod_eq_of_lt
        have : 2 ^ (t + 1) ≤ 2 ^ 33 := Nat.pow_le_pow_right (by omega) (by omega)
        simp [USIZE_MOD]; omega
      rw [hmask] at h
      have hq2 : e / 2 ^ (t + 1) = e / 2 ^ t / 2 := by
        rw [Nat.div_div_eq_div_mul, Nat.pow_succ]
      have hpow1 : 2 ^ (t + 1) = 2 * 2 ^ t := by rw [Nat.pow_succ]; omega
      by_cases h0 : (e / 2 ^ t) % 2 = 0
      · simp only [h0, beq_self_eq_true, ↓reduceIte] at h
        have hq' : e / 2 ^ t = 2 * (e / 2 ^ t / 2) := by omega
        have hidx' : idx + 2 ^ t = (e / 2 ^ (t + 1)) * 2 ^ (t + 1) + (2 ^ (t + 1) - 1) := by
          rw [hidx, hq2, hpow1]
          conv => lhs; rw [hq']
          exact fill_even _ _ hpt
        -- idx + 2^t ≤ U32_MAX: bit t of idx is zero and t < 32 (or t = 0 and idx even)
        have hle' : idx + 2 ^ t ≤ U32_MAX := by
          rcases hlt with hlt | ht0
          · -- idx < 2^32 - 1, its bit t is 0: idx + 2^t is idx with that bit set, still below 2^32
            have hbit : idx / 2 ^ t % 2 = 0 := by rw [hdiv]; exact h0
            have ht : t < 32 := by
              rcases Nat.lt_or_ge t 32 with h | h
              · exact h
              · exfalso
                have : t = 32 := by omega
                subst this
                simp [U32_MAX] at hlt hidx
                omega
            -- idx = a·2^(t+1) + b with b < 2^t, and a·2^(t+1) + 2^(t+1) ≤ 2^32
            have hb := Nat.div_add_mod idx (2 ^ (t + 1))
            have hmodlt : idx % 2 ^ (t + 1) < 2 ^ t := by
              rw [Nat.mod_pow_succ, hbit]; simp
              exact Nat.mod_lt _ (by omega)
            have hdvd : 2 ^ (t + 1) ∣ 2 ^ 32 := Nat.pow_dvd_pow 2 (by omega)
            obtain ⟨c, hc⟩ := hdvd
            have hA : idx / 2 ^ (t + 1) < c := by
              apply Nat.div_lt_of_lt_mul
              rw [← hc]; simp [U32_MAX] at hlt; omega
            have hB : (idx / 2 ^ (t + 1) + 1) * 2 ^ (t + 1) ≤ c * 2 ^ (t + 1) := Nat.mul_le_mul_right _ (by omega)
            rw [Nat.add_mul, Nat.one_mul, Nat.mul_comm c, ← hc, Nat.mul_comm] at hB
            simp [U32_MAX]
            omega
          · subst ht0
            simp at hidx h0 ⊢
            simp [U32_MAX] at hle ⊢
            omega
        by_cases hu : idx + 2 ^ t = U32_MAX
        · simp [hu] at h
        · simp only [hu, ↓reduceIte] at h
          obtain ⟨t', hT, hz⟩ := ih (t + 1) (rem - 1) (idx + 2 ^ t) T hidx' (Or.inl (by omega)) hle' h
          refine ⟨t', hT, ?_⟩
          rw [hz, zerosLow_succ', if_pos h0]; omega
      · have h1 : (e / 2 ^ t) % 2 = 1 := by omega
        have hb : ((1 : Nat) == 0) = false := rfl
        simp only [h1, hb, Bool.false_eq_true, ↓reduceIte] at h
        have hq' : e / 2 ^ t = 2 * (e / 2 ^ t / 2) + 1 := by omega
        have hidx' : idx = (e / 2 ^ (t + 1)) * 2 ^ (t + 1) + (2 ^ (t + 1) - 1) := by
          rw [hidx, hq2, hpow1]
          conv => lhs; rw [hq']
          exact fill_odd _ _ hpt
        by_cases hu : idx = U32_MAX
        · simp [hu] at h
        · simp only [hu, ↓reduceIte] at h
          obtain ⟨t', hT, hz⟩ := ih (t + 1) rem idx T hidx' (Or.inl (by omega)) hle h
          refine ⟨t', hT, ?_⟩
          rw [hz, zerosLow_succ', if_neg (by omega)]; omega

theorem computeTreeSize_char {c e T : Nat} (he : e ≤ U32_MAX) (h : computeTreeSize c e = .ok T) :
    ∃ t, T = (e / 2 ^ t + 1) * 2 ^ t ∧ zerosLow e t = c := by
  unfold computeTreeSize at h
  have := computeTreeSizeAux_char e (c + 70) 0 c e T (by simp) (Or.inr rfl) he (by simpa using h)
  simpa [zerosLow] using this

/-- **What `check_range_proof` evaluates**: when it accepts a non-trivial proof it has evaluated a proof tree whose
    frontier is exactly (the first `popcount(start)` proof nodes) ++ (all the leaves) ++ (ALL the remaining proof nodes):
    `compute_tree_size` makes the recursion consume every proof node. -/
theorem checkRangeProof_frontier {H : HashFn} {ign : Bool} {root : NsHash} {X P : List NsHash} {s : Nat}
    (hX : 1 ≤ X.length) (hnt : ¬ (X.length = 1 ∧ P = [])) (hu : s + X.length ≤ U32_MAX + 1)
    (h : checkRangeProof H ign root X P s = .ok ()) :
    computeNumLeftSiblings s ≤ P.length ∧
    ∃ t : PT, t.frontier = P.take (computeNumLeftSiblings s) ++ X ++ P.drop (computeNumLeftSiblings s) ∧
      t.eval H ign = .ok root := by
  unfold checkRangeProof at h
  have h0 : ¬ (X.length = 0) := by omega
  simp only [h0, ↓reduceIte] at h
  have hnt' : ¬ (X.length = 1 ∧ P.isEmpty = true) := by
    intro hc; exact hnt ⟨hc.1, by simpa using hc.2⟩
  simp only [hnt', ↓reduceIte] at h
  split at h
  · cases h
  · rename_i hnl
    refine ⟨by omega, ?_⟩
    split at h
    · cases h
    · rename_i T hts
      split at h
      · cases h
      · rename_i computed X' P' hin
        split at h
        · rename_i heq
          have heq' : computed = root := by simpa using heq
          subst heq'
          have hge := computeTreeSize_ge hts
          have hT2 : 2 ≤ T := by
            by_cases h2 : 2 ≤ X.length
            · omega
            · have hx1 : X.length = 1 := by omega
              have hP : P ≠ [] := fun hp => hnt ⟨hx1, hp⟩
              by_cases hs0 : s = 0
              · subst hs0
                have hn0 : computeNumLeftSiblings 0 = 0 := rfl
                rw [hn0, hx1] at hts
                have : 1 ≤ P.length := by
                  cases P with
                  | nil => exact absurd rfl hP
                  | cons a b => simp
                exact computeTreeSize_ge_two (by omega) hts
              · omega
          obtain ⟨t, PL, XS, PR, hXe, hPe, hfr, hev, hxs, hpr, hpl⟩ :=
            frontier_inner T hT2 (Nat.zero_le _) (by omega) (by omega) hX hin
          -- all leaves consumed
          have hXS : XS.length = X.length := by
            rw [hxs]; have : max s 0 = s := by omega
            rw [this]; omega
          have hX' : X' = [] := by
            apply List.eq_nil_of_length_eq_zero
            have := congrArg List.length hXe
            simp at this; omega
          subst hX'
          simp only [List.nil_append] at hXe
          subst hXe
          -- sibling counts
          simp only [Nat.zero_le, ↓reduceIte, Nat.sub_zero] at hpl hpr
          rw [nLeft_popcount T T s (Nat.le_refl _) (by omega)] at hpl
          obtain ⟨tt, hTt, hz⟩ := computeTreeSize_char (by omega) hts
          have hdm : X.length + s - 1 = (X.length + s - 1) / 2 ^ tt * 2 ^ tt + (X.length + s - 1) % 2 ^ tt := by
            have := Nat.div_add_mod (X.length + s - 1) (2 ^ tt)
            rw [Nat.mul_comm] at this; omega
          have hes : s + X.length - 1 = X.length + s - 1 := by omega
          rw [hes] at hTt hz
          have hpos : 0 < 2 ^ tt := Nat.two_pow_pos tt
          have hmodlt : (X.length + s - 1) % 2 ^ tt < 2 ^ tt := Nat.mod_lt _ hpos
          have hnr : nRight T (X.length + s - 1) T = P.length - computeNumLeftSiblings s := by
            conv => lhs; rw [hdm, hTt]
            rw [nRight_fill _ _ tt _ hmodlt (by rw [← hTt]; exact Nat.le_refl _)]
            rw [← hz]
            conv => rhs; rw [hdm]
            rw [zerosLow_add_mul tt _ _ hmodlt]
          rw [hnr] at hpr
          have hP' : P' = [] := by
            apply List.eq_nil_of_length_eq_zero
            have := congrArg List.length hPe
            simp at this; omega
          subst hP'
          simp only [List.nil_append] at hPe
          have hPL : PL = P.take (computeNumLeftSiblings s) := by
            rw [hPe, ← hpl]; simp
          have hPR : PR = P.drop (computeNumLeftSiblings s) := by
            rw [hPe, ← hpl]; simp
          exact ⟨t, by rw [hfr, hPL, hPR], hev⟩
        · cases h


theorem computeRootAux_fuel {H : HashFn} {ign : Bool} : ∀ (f f' : Nat) (L : List NsHash), L.length < f → L.length < f' →
    computeRootAux H ign f L = computeRootAux H ign f' L := by
  intro f
  induction f with
  | zero => intro f' L h; omega
  | succ f ih =>
    intro f' L h h'
    obtain ⟨g, rfl⟩ : ∃ g, f' = g + 1 := ⟨f' - 1, by omega⟩
    match L, h, h' with
    | [], _, _ => rfl
    | [x], _, _ => rfl
    | a :: b :: rest, h, h' =>
      obtain ⟨m, hm, hmlt, _⟩ := nextSmallerPo2_spec (a :: b :: rest).length (by simp)
      have h1 : 1 ≤ nextSmallerPo2 (a :: b :: rest).length := by rw [hm]; exact Nat.one_le_two_pow
      have h2 : nextSmallerPo2 (a :: b :: rest).length < (a :: b :: rest).length := by rw [hm]; exact hmlt
      unfold computeRootAux
      simp only
      rw [ih g _ (by rw [List.length_take]; omega) (by rw [List.length_take]; omega),
        ih g _ (by rw [List.length_drop]; omega) (by rw [List.length_drop]; omega)]

theorem PT.eval_node {H : HashFn} {ign : Bool} {l r : PT} {h : NsHash} (e : (PT.node l r).eval H ign = .ok h) :
    ∃ a b, l.eval H ign = .ok a ∧ r.eval H ign = .ok b ∧ hashNodes H ign a b = .ok h := by
  unfold PT.eval at e
  cases hl : l.eval H ign with
  | error er => simp [hl] at e
  | ok a =>
    cases hr : r.eval H ign with
    | error er => simp [hl, hr] at e
    | ok b => simp only [hl, hr] at e; exact ⟨a, b, rfl, rfl, e⟩

theorem PT.eval_WF {H : HashFn} (hk : HashLen H) {ign : Bool} : ∀ (t : PT) {h : NsHash},
    (∀ x ∈ t.frontier, x.WF) → t.eval H ign = .ok h → h.WF := by
  intro t
  induction t with
  | leaf x => intro h w e; simp [PT.eval] at e; subst e; exact w x (by simp [PT.frontier])
  | node l r ihl ihr =>
    intro h w e
    obtain ⟨a, b, ha, hb, hn⟩ := PT.eval_node e
    exact hashNodes_WF hk (ihl (fun x hx => w x (by simp [PT.frontier, hx])) ha)
      (ihr (fun x hx => w x (by simp [PT.frontier, hx])) hb) hn

theorem Segs.split {H : HashFn} {ign : Bool} : ∀ (r1 : List NsHash) {M r2 : List NsHash}, Segs H ign M (r1 ++ r2) →
    ∃ M1 M2, M = M1 ++ M2 ∧ Segs H ign M1 r1 ∧ Segs H ign M2 r2 := by
  intro r1
  induction r1 with
  | nil => intro M r2 h; exact ⟨[], M, rfl, Segs.nil, h⟩
  | cons a t ih =>
    intro M r2 h
    cases h with
    | @cons seg rest _ _ hne hr hrest =>
      obtain ⟨M1, M2, he, h1, h2⟩ := ih hrest
      exact ⟨seg ++ M1, M2, by rw [he, List.append_assoc], Segs.cons hne hr h1, h2⟩

theorem Segs.nil_roots {H : HashFn} {ign : Bool} {M : List NsHash} (h : Segs H ign M []) : M = [] := by
  cases h; rfl

theorem Segs.single_inv {H : HashFn} {ign : Bool} {M : List NsHash} {r : NsHash} (h : Segs H ign M [r]) :
    M ≠ [] ∧ computeRoot H ign M = .ok r := by
  cases h with
  | @cons seg rest _ _ hne hr hrest =>
    have := hrest.nil_roots
    subst this
    simp only [List.append_nil]
    exact ⟨hne, hr⟩

theorem ltB_irrefl' {a : Bytes} (h : ltB a a = true) : False := by rw [ltB_irrefl] at h; cases h

/-- nothing left of the range has the namespace, when the rightmost left sibling's max is below it -/
theorem left_none {H : HashFn} {ML init : List NsHash} {r : NsHash} {ns : Bytes}
    (hsegs : Segs H true ML (init ++ [r])) (hleaf : ∀ x ∈ ML, LeafNs x) (hs : SortedNs ML)
    (hns : ns.length = NS_SIZE) (hnm : ns ≠ maxNsId) (hchk : ltB r.maxNs ns = true) :
    ∀ y ∈ ML, y.minNs ≠ ns := by
  obtain ⟨M1, seg, hM, _, h2⟩ := Segs.split init hsegs
  obtain ⟨hne, hroot⟩ := h2.single_inv
  subst hM
  have hs' := hs
  unfold SortedNs at hs'
  rw [List.pairwise_append] at hs'
  obtain ⟨_, hsseg, hcross⟩ := hs'
  have R := computeRoot_range hne (fun x hx => hleaf x (List.mem_append_right _ hx)) hsseg hroot
  -- the segment is not all-parity
  have hex : ∃ z ∈ seg, z.minNs ≠ maxNsId := by
    apply Classical.byContradiction
    intro hno
    have hall : ∀ x ∈ seg, x.minNs = maxNsId := by
      intro x hx
      apply Classical.byContradiction
      intro hne'
      exact hno ⟨x, hx, hne'⟩
    have := R.maxAll hall
    rw [this] at hchk
    have hle := leB_maxNsId NS_SIZE ns hns
    unfold leB at hle
    rw [show List.replicate NS_SIZE (255 : UInt8) = maxNsId from rfl, hchk] at hle
    cases hle
  obtain ⟨z, hz, hzne⟩ := hex
  have hzle : ltB z.minNs ns = true := ltB_of_leB_of_ltB (R.maxGe z hz hzne) hchk
  intro y hy heq
  rcases List.mem_append.mp hy with h | h
  · have := hcross y h z hz
    rw [heq] at this
    exact ltB_irrefl' (ltB_of_leB_of_ltB this hzle)
  · have := R.maxGe y h (by rw [heq]; exact hnm)
    rw [heq] at this
    exact ltB_irrefl' (ltB_of_leB_of_ltB this hchk)

/-- nothing right of the range has the namespace, when the leftmost right sibling's min is above it -/
theorem right_none {H : HashFn} {MR rest : List NsHash} {r : NsHash} {ns : Bytes}
    (hsegs : Segs H true MR (r :: rest)) (hleaf : ∀ x ∈ MR, LeafNs x) (hs : SortedNs MR)
    (hchk : ltB ns r.minNs = true) : ∀ y ∈ MR, y.minNs ≠ ns := by
  cases hsegs with
  | @cons seg rest' _ _ hne hroot hrest =>
    have hs' := hs
    unfold SortedNs at hs'
    rw [List.pairwise_append] at hs'
    obtain ⟨hsseg, _, hcross⟩ := hs'
    have R := computeRoot_range hne (fun x hx => hleaf x (List.mem_append_left _ hx)) hsseg hroot
    obtain ⟨z, hz, hze⟩ := R.minMem
    intro y hy heq
    rcases List.mem_append.mp hy with h | h
    · have := R.minLe y h
      rw [heq] at this
      exact ltB_irrefl' (ltB_of_ltB_of_leB hchk this)
    · have := hcross z hz y h
      rw [← hze, heq] at this
      exact ltB_irrefl' (ltB_of_ltB_of_leB hchk this)

theorem AllLeaf.leafNs {H : HashFn} {L : List NsHash} (al : AllLeaf H L) : ∀ x ∈ L, LeafNs x := by
  intro x hx
  obtain ⟨ns, d, hl, rfl⟩ := al x hx
  exact ⟨rfl, hl⟩

theorem filter_of_block {L ML X MR : List NsHash} {ns : Bytes} (hL : L = ML ++ X ++ MR)
    (hl : ∀ y ∈ ML, y.minNs ≠ ns) (hr : ∀ y ∈ MR, y.minNs ≠ ns) (hx : ∀ x ∈ X, x.minNs = ns) :
    L.filter (fun x => x.minNs == ns) = X := by
  subst hL
  rw [List.filter_append, List.filter_append]
  have h1 : ML.filter (fun x => x.minNs == ns) = [] := by
    rw [List.filter_eq_nil_iff]; intro a ha; simpa using hl a ha
  have h2 : MR.filter (fun x => x.minNs == ns) = [] := by
    rw [List.filter_eq_nil_iff]; intro a ha; simpa using hr a ha
  have h3 : X.filter (fun x => x.minNs == ns) = X := by
    rw [List.filter_eq_self]; intro a ha; simpa using hx a ha
  rw [h1, h2, h3]; simp

theorem take_succ_last {α} {P : List α} {n : Nat} (hn : n < P.length) : P.take (n + 1) = P.take n ++ [P[n]] := by
  rw [List.take_succ, List.getElem?_eq_getElem hn]; rfl

theorem leB_false_iff {a b : Bytes} : leB a b = false ↔ ltB b a = true := by
  unfold leB; simp

theorem luminaVCN_ok {H : HashFn} {p : NsProof} {root : NsHash} {l : List Bytes} {ns : Bytes}
    (h : luminaVerifyCompleteNamespace H p root l ns = .ok ()) : verifyCompleteNamespace H p root l ns = .ok () := by
  unfold luminaVerifyCompleteNamespace at h
  split at h
  · cases h
  · exact h

/-! ## Relative collision-freeness (`HashOKOn`): ports of the hash-dependent lemmas -/

/-- inputs hashed when a proof tree is evaluated -/
def PT.inputs (H : HashFn) (ign : Bool) : PT → List Bytes
  | .leaf _ => []
  | .node l r =>
    l.inputs H ign ++ r.inputs H ign ++
      (match l.eval H ign, r.eval H ign with
       | .ok a, .ok b => [nodeInput a b]
       | _, _ => [])

/-- the inputs of one step of `check_range_proof_inner`, from the data `inner_step` provides -/
theorem innerInputs_step {H : HashFn} {ign : Bool} {fuel : Nat} {X P : List NsHash} {s size off : Nat}
    {h right left : NsHash} {X1 P1 X2 P2 : List NsHash} (h0 : X.length + s ≠ 0)
    (hR : if X.length + s - 1 ≥ nextSmallerPo2 size + off then
         (if size - nextSmallerPo2 size = 1 then takeLast? X = some (right, X1) ∧ P1 = P
          else checkRangeProofInner H ign fuel X P s (size - nextSmallerPo2 size) (off + nextSmallerPo2 size) = .ok (right, X1, P1))
       else takeLast? P = some (right, P1) ∧ X1 = X)
    (hL : if s < nextSmallerPo2 size + off then
         (if nextSmallerPo2 size = 1 then takeLast? X1 = some (left, X2) ∧ P2 = P1
          else checkRangeProofInner H ign fuel X1 P1 s (nextSmallerPo2 size) off = .ok (left, X2, P2))
       else takeLast? P1 = some (left, P2) ∧ X2 = X1)
    (hn : hashNodes H ign left right = .ok h) :
    innerInputs H ign (fuel + 1) X P s size off =
      (if X.length + s - 1 ≥ nextSmallerPo2 size + off then
         (if size - nextSmallerPo2 size = 1 then []
          else innerInputs H ign fuel X P s (size - nextSmallerPo2 size) (off + nextSmallerPo2 size))
       else []) ++
      (if s < nextSmallerPo2 size + off then
         (if nextSmallerPo2 size = 1 then [] else innerInputs H ign fuel X1 P1 s (nextSmallerPo2 size) off)
       else []) ++ [nodeInput left right] := by
  conv => lhs; unfold innerInputs
  simp only [h0, ↓reduceIte]
  by_cases c1 : X.length + s - 1 ≥ nextSmallerPo2 size + off
  · (try simp only [c1, ↓reduceIte] at hR); (try simp only [c1, ↓reduceIte])
    by_cases c2 : size - nextSmallerPo2 size = 1
    · (try simp only [c2, ↓reduceIte] at hR); (try simp only [c2, ↓reduceIte])
      obtain ⟨hr1, rfl⟩ := hR
      simp only [hr1]
      by_cases d1 : s < nextSmallerPo2 size + off
      · (try simp only [d1, ↓reduceIte] at hL); (try simp only [d1, ↓reduceIte])
        by_cases d2 : nextSmallerPo2 size = 1
        · (try simp only [d2, ↓reduceIte] at hL); (try simp only [d2, ↓reduceIte])
          simp only [hL.1]
        · (try simp only [d2, ↓reduceIte] at hL); (try simp only [d2, ↓reduceIte])
          simp only [hL]
      · (try simp only [d1, ↓reduceIte] at hL); (try simp only [d1, ↓reduceIte])
        simp only [hL.1]
    · (try simp only [c2, ↓reduceIte] at hR); (try simp only [c2, ↓reduceIte])
      simp only [hR]
      by_cases d1 : s < nextSmallerPo2 size + off
      · (try simp only [d1, ↓reduceIte] at hL); (try simp only [d1, ↓reduceIte])
        by_cases d2 : nextSmallerPo2 size = 1
        · (try simp only [d2, ↓reduceIte] at hL); (try simp only [d2, ↓reduceIte])
          simp only [hL.1]
        · (try simp only [d2, ↓reduceIte] at hL); (try simp only [d2, ↓reduceIte])
          simp only [hL]
      · (try simp only [d1, ↓reduceIte] at hL); (try simp only [d1, ↓reduceIte])
        simp only [hL.1]
  · (try simp only [c1, ↓reduceIte] at hR); (try simp only [c1, ↓reduceIte])
    obtain ⟨hr1, rfl⟩ := hR
    simp only [hr1]
    by_cases d1 : s < nextSmallerPo2 size + off
    · (try simp only [d1, ↓reduceIte] at hL); (try simp only [d1, ↓reduceIte])
      by_cases d2 : nextSmallerPo2 size = 1
      · (try simp only [d2, ↓reduceIte] at hL); (try simp only [d2, ↓reduceIte])
        simp only [hL.1]
      · (try simp only [d2, ↓reduceIte] at hL); (try simp only [d2, ↓reduceIte])
        simp only [hL]
    · (try simp only [d1, ↓reduceIte] at hL); (try simp only [d1, ↓reduceIte])
      simp only [hL.1]

def FrontierOKOn (H : HashFn) (ign : Bool) (fuel : Nat) (X P : List NsHash) (s size off : Nat)
    (h : NsHash) (X' P' : List NsHash) (I : List Bytes) : Prop :=
  ∃ (t : PT) (PL XS PR : List NsHash), X = X' ++ XS ∧ P = P' ++ PL ++ PR ∧
    t.frontier = PL ++ XS ++ PR ∧ t.eval H ign = .ok h ∧
    XS.length = (X.length + s - 1) - max s off + 1 ∧
    PR.length = nRight fuel (X.length + s - 1 - off) size ∧
    PL.length = (if off ≤ s then nLeft fuel (s - off) size else 0) ∧
    ∀ y ∈ t.inputs H ign, y ∈ I

theorem frontier_child_on {H : HashFn} {ign : Bool} {f : Nat}
    (ih : ∀ {X P : List NsHash} {s size off : Nat} {h : NsHash} {X' P' : List NsHash},
      2 ≤ size → off ≤ X.length + s - 1 → X.length + s - 1 < off + size → s < off + size → 1 ≤ X.length →
      checkRangeProofInner H ign f X P s size off = .ok (h, X', P') → FrontierOKOn H ign f X P s size off h X' P' (innerInputs H ign f X P s size off))
    {X P : List NsHash} {s csize coff : Nat} {h : NsHash} {X' P' : List NsHash}
    (hc1 : 1 ≤ csize) (h1 : coff ≤ X.length + s - 1) (h2 : X.length + s - 1 < coff + csize) (h3 : s < coff + csize)
    (h4 : 1 ≤ X.length) (hc : ChildRes H ign f X P s csize coff h X' P') :
    FrontierOKOn H ign f X P s csize coff h X' P'
      (if csize = 1 then [] else innerInputs H ign f X P s csize coff) := by
  unfold ChildRes at hc
  by_cases hcs : csize = 1
  · subst hcs
    simp only [↓reduceIte] at hc
    obtain ⟨htl, rfl⟩ := hc
    have hx := takeLast?_some htl
    refine ⟨.leaf h, [], [h], [], hx, by simp, by simp [PT.frontier], rfl, ?_, by simp [nRight_one], ?_,
      by intro y hy; simp [PT.inputs] at hy⟩
    · simp only [List.length_singleton]
      have : max s coff = coff := by omega
      rw [this]; omega
    · simp [nLeft_one]
  · simp only [hcs, ↓reduceIte] at hc
    simp only [hcs, ↓reduceIte]
    exact ih (by omega) h1 h2 h3 h4 hc

theorem frontier_inner_on {H : HashFn} {ign : Bool} : ∀ (fuel : Nat) {X P : List NsHash} {s size off : Nat}
    {h : NsHash} {X' P' : List NsHash},
    2 ≤ size → off ≤ X.length + s - 1 → X.length + s - 1 < off + size → s < off + size → 1 ≤ X.length →
    checkRangeProofInner H ign fuel X P s size off = .ok (h, X', P') →
    FrontierOKOn H ign fuel X P s size off h X' P' (innerInputs H ign fuel X P s size off) := by
  intro fuel
  induction fuel with
  | zero => intro X P s size off h X' P' _ _ _ _ _ e; simp [checkRangeProofInner] at e
  | succ f ih =>
    intro X P s size off h X2 P2 hsz h1 h2 h3 h4 e
    obtain ⟨m, hm, hmlt, hmle⟩ := nextSmallerPo2_spec size hsz
    have hsp1 : 1 ≤ nextSmallerPo2 size := by rw [hm]; exact Nat.one_le_two_pow
    have hspl : nextSmallerPo2 size < size := by rw [hm]; exact hmlt
    obtain ⟨hne0, right, X1, P1, left, hR, hL, hn⟩ := inner_step e
    have hI := innerInputs_step hne0 hR hL hn
    have hsz1 : ¬ (size ≤ 1) := by omega
    by_cases cA : X.length + s - 1 ≥ nextSmallerPo2 size + off
    · -- the right child overlaps the range
      simp only [cA, ↓reduceIte] at hR
      have hchildR : ChildRes H ign f X P s (size - nextSmallerPo2 size) (off + nextSmallerPo2 size) right X1 P1 := by
        unfold ChildRes; exact hR
      obtain ⟨tR, PLr, XSr, PRr, hX, hP, hfr, hev, hxs, hpr, hpl, hin⟩ :=
        frontier_child_on ih (by omega) (by omega) (by omega) (by omega) h4 hchildR
      by_cases cL : s < nextSmallerPo2 size + off
      · -- … and so does the left child
        simp only [cL, ↓reduceIte] at hL
        have hnl : ¬ (off + nextSmallerPo2 size ≤ s) := by omega
        simp only [hnl, ↓reduceIte] at hpl
        have hPLr : PLr = [] := List.eq_nil_of_length_eq_zero hpl
        subst hPLr
        have hmax : max s (off + nextSmallerPo2 size) = off + nextSmallerPo2 size := by omega
        rw [hmax] at hxs
        have hXlen : X.length = X1.length + XSr.length := by rw [hX]; simp
        have hX1 : X1.length + s - 1 = off + nextSmallerPo2 size - 1 := by omega
        have hX1pos : 1 ≤ X1.length := by omega
        have hchildL : ChildRes H ign f X1 P1 s (nextSmallerPo2 size) off left X2 P2 := by
          unfold ChildRes; exact hL
        obtain ⟨tL, PLl, XSl, PRl, hX', hP', hfr', hev', hxs', hpr', hpl', hin'⟩ :=
          frontier_child_on ih hsp1 (by omega) (by omega) (by omega) hX1pos hchildL
        have hPRl : PRl = [] := by
          apply List.eq_nil_of_length_eq_zero
          rw [hpr', hX1]
          have : off + nextSmallerPo2 size - 1 - off = nextSmallerPo2 size - 1 := by omega
          rw [this, hm]; exact nRight_last f m
        subst hPRl
        refine ⟨.node tL tR, PLl, XSl ++ XSr, PRr, ?_, ?_, ?_, ?_, ?_, ?_, ?_, ?_⟩
        · rw [hX, hX']; simp
        · rw [hP, hP']; simp
        · simp [PT.frontier, hfr, hfr']
        · simp [PT.eval, hev, hev', hn]
        · simp only [List.length_append, hxs, hxs', hX1]; omega
        · rw [hpr]
          conv => rhs; unfold nRight
          have : X.length + s - 1 - off ≥ nextSmallerPo2 size := by omega
          simp only [hsz1, ↓reduceIte, this]
          congr 1; omega
        · rw [hpl']
          by_cases ho : off ≤ s
          · simp only [ho, ↓reduceIte]
            conv => rhs; unfold nLeft
            have : ¬ (s - off ≥ nextSmallerPo2 size) := by omega
            simp only [hsz1, ↓reduceIte, this]
          · simp [ho]
        · intro y hy
          rw [hI]
          simp only [PT.inputs, hev, hev', List.mem_append, List.mem_singleton] at hy
          have hcA : X.length + s - 1 ≥ nextSmallerPo2 size + off := cA
          simp only [hcA, cL, ↓reduceIte]
          rcases hy with (hy | hy) | hy
          · exact List.mem_append_left _ (List.mem_append_right _ (hin' y hy))
          · exact List.mem_append_left _ (List.mem_append_left _ (hin y hy))
          · rw [hy]; simp
      · -- the left child is a sibling
        simp only [cL, ↓reduceIte] at hL
        obtain ⟨htl, rfl⟩ := hL
        have hP1 := takeLast?_some htl
        have hge : off + nextSmallerPo2 size ≤ s := by omega
        simp only [hge, ↓reduceIte] at hpl
        have hmax : max s (off + nextSmallerPo2 size) = s := by omega
        rw [hmax] at hxs
        have hXlen : X.length = X2.length + XSr.length := by rw [hX]; simp
        have hX1nil : X2 = [] := List.eq_nil_of_length_eq_zero (by omega)
        refine ⟨.node (.leaf left) tR, left :: PLr, XSr, PRr, hX, ?_, ?_, ?_, ?_, ?_, ?_, ?_⟩
        · rw [hP, hP1]; simp
        · simp [PT.frontier, hfr]
        · simp [PT.eval, hev, hn]
        · have : max s off = s := by omega
          rw [this]; omega
        · rw [hpr]
          conv => rhs; unfold nRight
          have : X.length + s - 1 - off ≥ nextSmallerPo2 size := by omega
          simp only [hsz1, ↓reduceIte, this]
          congr 1; omega
        · have ho : off ≤ s := by omega
          simp only [ho, ↓reduceIte, List.length_cons, hpl]
          conv => rhs; unfold nLeft
          have : s - off ≥ nextSmallerPo2 size := by omega
          simp only [hsz1, ↓reduceIte, this]
          have e1 : s - (off + nextSmallerPo2 size) = s - off - nextSmallerPo2 size := by omega
          rw [e1]; omega
        · intro y hy
          rw [hI]
          simp only [PT.inputs, PT.eval, hev, List.mem_append, List.mem_singleton, List.nil_append, List.not_mem_nil, false_or] at hy
          have hcA : X.length + s - 1 ≥ nextSmallerPo2 size + off := cA
          simp only [hcA, cL, ↓reduceIte, List.append_nil]
          rcases hy with hy | hy
          · exact List.mem_append_left _ (hin y hy)
          · rw [hy]; simp
    · -- the right child is a sibling; the left child contains the whole remaining range
      simp only [cA, ↓reduceIte] at hR
      obtain ⟨htl, hx⟩ := hR
      have hx' := hx.symm
      subst hx'
      have hP1 := takeLast?_some htl
      have cL : s < nextSmallerPo2 size + off := by omega
      simp only [cL, ↓reduceIte] at hL
      have hchildL : ChildRes H ign f X P1 s (nextSmallerPo2 size) off left X2 P2 := by
        unfold ChildRes; exact hL
      obtain ⟨tL, PLl, XSl, PRl, hX', hP', hfr', hev', hxs', hpr', hpl', hin'⟩ :=
        frontier_child_on ih hsp1 h1 (by omega) (by omega) h4 hchildL
      refine ⟨.node tL (.leaf right), PLl, XSl, PRl ++ [right], hX', ?_, ?_, ?_, hxs', ?_, ?_, ?_⟩
      · rw [hP1, hP']; simp
      · simp [PT.frontier, hfr']
      · simp [PT.eval, hev', hn]
      · simp only [List.length_append, List.length_singleton, hpr']
        conv => rhs; unfold nRight
        have : ¬ (X.length + s - 1 - off ≥ nextSmallerPo2 size) := by omega
        simp only [hsz1, ↓reduceIte, this]; omega
      · rw [hpl']
        by_cases ho : off ≤ s
        · simp only [ho, ↓reduceIte]
          conv => rhs; unfold nLeft
          have : ¬ (s - off ≥ nextSmallerPo2 size) := by omega
          simp only [hsz1, ↓reduceIte, this]
        · simp [ho]
      · intro y hy
        rw [hI]
        simp only [PT.inputs, PT.eval, hev', List.mem_append, List.mem_singleton, List.append_nil] at hy
        simp only [cA, cL, ↓reduceIte, List.nil_append]
        rcases hy with hy | hy
        · exact List.mem_append_left _ (hin' y hy)
        · rw [hy]; simp



/-- **What `check_range_proof` evaluates**: when it accepts a non-trivial proof it has evaluated a proof tree whose
    frontier is exactly (the first `popcount(start)` proof nodes) ++ (all the leaves) ++ (ALL the remaining proof nodes):
    `compute_tree_size` makes the recursion consume every proof node. -/
theorem checkRangeProof_frontier_on {H : HashFn} {ign : Bool} {root : NsHash} {X P : List NsHash} {s : Nat}
    (hX : 1 ≤ X.length) (hnt : ¬ (X.length = 1 ∧ P = [])) (hu : s + X.length ≤ U32_MAX + 1)
    (h : checkRangeProof H ign root X P s = .ok ()) :
    computeNumLeftSiblings s ≤ P.length ∧
    ∃ t : PT, t.frontier = P.take (computeNumLeftSiblings s) ++ X ++ P.drop (computeNumLeftSiblings s) ∧
      t.eval H ign = .ok root ∧ ∀ y ∈ t.inputs H ign, y ∈ proofInputs H ign X P s := by
  unfold checkRangeProof at h
  have h0 : ¬ (X.length = 0) := by omega
  simp only [h0, ↓reduceIte] at h
  have hnt' : ¬ (X.length = 1 ∧ P.isEmpty = true) := by
    intro hc; exact hnt ⟨hc.1, by simpa using hc.2⟩
  simp only [hnt', ↓reduceIte] at h
  split at h
  · cases h
  · rename_i hnl
    refine ⟨by omega, ?_⟩
    split at h
    · cases h
    · rename_i T hts
      split at h
      · cases h
      · rename_i computed X' P' hin
        split at h
        · rename_i heq
          have heq' : computed = root := by simpa using heq
          subst heq'
          have hge := computeTreeSize_ge hts
          have hT2 : 2 ≤ T := by
            by_cases h2 : 2 ≤ X.length
            · omega
            · have hx1 : X.length = 1 := by omega
              have hP : P ≠ [] := fun hp => hnt ⟨hx1, hp⟩
              by_cases hs0 : s = 0
              · subst hs0
                have hn0 : computeNumLeftSiblings 0 = 0 := rfl
                rw [hn0, hx1] at hts
                have : 1 ≤ P.length := by
                  cases P with
                  | nil => exact absurd rfl hP
                  | cons a b => simp
                exact computeTreeSize_ge_two (by omega) hts
              · omega
          obtain ⟨t, PL, XS, PR, hXe, hPe, hfr, hev, hxs, hpr, hpl, hinp⟩ :=
            frontier_inner_on T hT2 (Nat.zero_le _) (by omega) (by omega) hX hin
          -- all leaves consumed
          have hXS : XS.length = X.length := by
            rw [hxs]; have : max s 0 = s := by omega
            rw [this]; omega
          have hX' : X' = [] := by
            apply List.eq_nil_of_length_eq_zero
            have := congrArg List.length hXe
            simp at this; omega
          subst hX'
          simp only [List.nil_append] at hXe
          subst hXe
          -- sibling counts
          simp only [Nat.zero_le, ↓reduceIte, Nat.sub_zero] at hpl hpr
          rw [nLeft_popcount T T s (Nat.le_refl _) (by omega)] at hpl
          obtain ⟨tt, hTt, hz⟩ := computeTreeSize_char (by omega) hts
          have hdm : X.length + s - 1 = (X.length + s - 1) / 2 ^ tt * 2 ^ tt + (X.length + s - 1) % 2 ^ tt := by
            have := Nat.div_add_mod (X.length + s - 1) (2 ^ tt)
            rw [Nat.mul_comm] at this; omega
          have hes : s + X.length - 1 = X.length + s - 1 := by omega
          rw [hes] at hTt hz
          have hpos : 0 < 2 ^ tt := Nat.two_pow_pos tt
          have hmodlt : (X.length + s - 1) % 2 ^ tt < 2 ^ tt := Nat.mod_lt _ hpos
          have hnr : nRight T (X.length + s - 1) T = P.length - computeNumLeftSiblings s := by
            conv => lhs; rw [hdm, hTt]
            rw [nRight_fill _ _ tt _ hmodlt (by rw [← hTt]; exact Nat.le_refl _)]
            rw [← hz]
            conv => rhs; rw [hdm]
            rw [zerosLow_add_mul tt _ _ hmodlt]
          rw [hnr] at hpr
          have hP' : P' = [] := by
            apply List.eq_nil_of_length_eq_zero
            have := congrArg List.length hPe
            simp at this; omega
          subst hP'
          simp only [List.nil_append] at hPe
          have hPL : PL = P.take (computeNumLeftSiblings s) := by
            rw [hPe, ← hpl]; simp
          have hPR : PR = P.drop (computeNumLeftSiblings s) := by
            rw [hPe, ← hpl]; simp
          refine ⟨t, by rw [hfr, hPL, hPR], hev, ?_⟩
          intro y hy
          unfold proofInputs
          simp only [h0, ↓reduceIte, hnt', hnl, hts]
          exact hinp y hy
        · cases h



theorem rootInputs_fuel {H : HashFn} {ign : Bool} : ∀ (f f' : Nat) (L : List NsHash), L.length < f → L.length < f' →
    rootInputs H ign f L = rootInputs H ign f' L := by
  intro f
  induction f with
  | zero => intro f' L h; omega
  | succ f ih =>
    intro f' L h h'
    obtain ⟨g, rfl⟩ : ∃ g, f' = g + 1 := ⟨f' - 1, by omega⟩
    match L, h, h' with
    | [], _, _ => rfl
    | [x], _, _ => rfl
    | a :: b :: rest, h, h' =>
      obtain ⟨m, hm, hmlt, _⟩ := nextSmallerPo2_spec (a :: b :: rest).length (by simp)
      have h1 : 1 ≤ nextSmallerPo2 (a :: b :: rest).length := by rw [hm]; exact Nat.one_le_two_pow
      have h2 : nextSmallerPo2 (a :: b :: rest).length < (a :: b :: rest).length := by rw [hm]; exact hmlt
      unfold rootInputs
      simp only
      rw [ih g _ (by rw [List.length_take]; omega) (by rw [List.length_take]; omega),
        ih g _ (by rw [List.length_drop]; omega) (by rw [List.length_drop]; omega),
        computeRootAux_fuel f g _ (by rw [List.length_take]; omega) (by rw [List.length_take]; omega),
        computeRootAux_fuel f g _ (by rw [List.length_drop]; omega) (by rw [List.length_drop]; omega)]

/-- `Segs` whose segment root computations only hash inputs in `S` -/
inductive SegsOn (H : HashFn) (ign : Bool) (S : Bytes → Prop) : List NsHash → List NsHash → Prop where
  | nil : SegsOn H ign S [] []
  | cons {seg rest : List NsHash} {r : NsHash} {rs : List NsHash} :
      seg ≠ [] → computeRoot H ign seg = .ok r → (∀ y ∈ rootInputs H ign (seg.length + 1) seg, S y) →
      SegsOn H ign S rest rs → SegsOn H ign S (seg ++ rest) (r :: rs)

theorem SegsOn.segs {H : HashFn} {ign : Bool} {S : Bytes → Prop} {M roots : List NsHash} (h : SegsOn H ign S M roots) :
    Segs H ign M roots := by
  induction h with
  | nil => exact Segs.nil
  | cons hne hr _ _ ih => exact Segs.cons hne hr ih

theorem SegsOn.append {H : HashFn} {ign : Bool} {S : Bytes → Prop} {M1 M2 r1 r2 : List NsHash}
    (h1 : SegsOn H ign S M1 r1) (h2 : SegsOn H ign S M2 r2) : SegsOn H ign S (M1 ++ M2) (r1 ++ r2) := by
  induction h1 with
  | nil => simpa using h2
  | cons hne hr hT _ ih => rw [List.append_assoc]; exact SegsOn.cons hne hr hT ih

theorem SegsOn.single {H : HashFn} {ign : Bool} {S : Bytes → Prop} {seg : List NsHash} {r : NsHash} (hne : seg ≠ [])
    (hr : computeRoot H ign seg = .ok r) (hT : ∀ y ∈ rootInputs H ign (seg.length + 1) seg, S y) :
    SegsOn H ign S seg [r] := by
  have := SegsOn.cons hne hr hT (SegsOn.nil (H := H) (ign := ign) (S := S))
  simpa using this

theorem SegsOn.split {H : HashFn} {ign : Bool} {S : Bytes → Prop} : ∀ (r1 : List NsHash) {M r2 : List NsHash},
    SegsOn H ign S M (r1 ++ r2) → ∃ M1 M2, M = M1 ++ M2 ∧ SegsOn H ign S M1 r1 ∧ SegsOn H ign S M2 r2 := by
  intro r1
  induction r1 with
  | nil => intro M r2 h; exact ⟨[], M, rfl, SegsOn.nil, h⟩
  | cons a t ih =>
    intro M r2 h
    cases h with
    | @cons seg rest _ _ hne hr hT hrest =>
      obtain ⟨M1, M2, he, h1, h2⟩ := ih hrest
      exact ⟨seg ++ M1, M2, by rw [he, List.append_assoc], SegsOn.cons hne hr hT h1, h2⟩

theorem PT.inputs_node {H : HashFn} {ign : Bool} {l r : PT} {a b : NsHash} (ha : l.eval H ign = .ok a)
    (hb : r.eval H ign = .ok b) :
    (PT.node l r).inputs H ign = l.inputs H ign ++ r.inputs H ign ++ [nodeInput a b] := by
  conv => lhs; unfold PT.inputs
  simp only [ha, hb]

/-- **agreement of a proof tree with the real tree** under collision-freeness relative to the inputs hashed by the two
    evaluations -/
theorem agree_on {H : HashFn} {S : Bytes → Prop} (hk : HashOKOn H S) {ign ign' : Bool} :
    ∀ (t : PT) (fuel : Nat) (L : List NsHash) (r : NsHash),
    L ≠ [] → L.length < fuel → AllLeafOn H S L → (∀ x ∈ t.frontier, x.WF) →
    (∀ y ∈ t.inputs H ign, S y) → (∀ y ∈ rootInputs H ign' fuel L, S y) →
    t.eval H ign = .ok r → computeRootAux H ign' fuel L = .ok r → SegsOn H ign' S L t.frontier := by
  intro t
  induction t with
  | leaf x =>
    intro fuel L r hne hf _ _ _ hT e e'
    simp [PT.eval] at e
    subst e
    have : computeRoot H ign' L = .ok x := by
      unfold computeRoot; rw [computeRootAux_fuel _ fuel L (by omega) hf]; exact e'
    exact SegsOn.single hne this (by rw [rootInputs_fuel _ fuel L (by omega) hf]; exact hT)
  | node l rt ihl ihr =>
    intro fuel L r hne hf al w hV hT e e'
    obtain ⟨a, b, ha, hb, hn⟩ := PT.eval_node e
    have hPI := PT.inputs_node ha hb
    have hVn : S (nodeInput a b) := hV _ (by rw [hPI]; simp)
    obtain ⟨f, rfl⟩ : ∃ f, fuel = f + 1 := ⟨fuel - 1, by omega⟩
    match L, hne, hf, al, hT, e' with
    | [y], _, _, al, _, e' =>
      exfalso
      simp [computeRootAux] at e'
      subst e'
      obtain ⟨ns, d, _, hy, hS⟩ := al y (by simp)
      rw [hy] at hn
      exact leaf_ne_node_on hk.inj hn hS hVn rfl
    | a0 :: b0 :: rest, _, hf, al, hT, e' =>
      obtain ⟨l', rr', hl', hr', hn', hRI⟩ := rootInputs_cons2 e'
      obtain ⟨m, hm, hmlt, _⟩ := nextSmallerPo2_spec (a0 :: b0 :: rest).length (by simp)
      have h1 : 1 ≤ nextSmallerPo2 (a0 :: b0 :: rest).length := by rw [hm]; exact Nat.one_le_two_pow
      have h2 : nextSmallerPo2 (a0 :: b0 :: rest).length < (a0 :: b0 :: rest).length := by rw [hm]; exact hmlt
      have wa := PT.eval_WF hk.hlen l (fun x hx => w x (by simp [PT.frontier, hx])) ha
      have wb := PT.eval_WF hk.hlen rt (fun x hx => w x (by simp [PT.frontier, hx])) hb
      have wl' := computeRootAux_WF hk.hlen _ (AllLeaf.allWF hk.hlen (al.take _).allLeaf) hl'
      have wr' := computeRootAux_WF hk.hlen _ (AllLeaf.allWF hk.hlen (al.drop _).allLeaf) hr'
      obtain ⟨rfl, rfl⟩ := hashNodes_hash_inj_on hk.inj wa wb wl' wr' hn hn' hVn (hT _ (by rw [hRI]; simp)) rfl
      have htne : (a0 :: b0 :: rest).take (nextSmallerPo2 (a0 :: b0 :: rest).length) ≠ [] := by
        intro h; have := congrArg List.length h; rw [List.length_take, List.length_nil] at this; omega
      have hdne : (a0 :: b0 :: rest).drop (nextSmallerPo2 (a0 :: b0 :: rest).length) ≠ [] := by
        intro h; have := congrArg List.length h; rw [List.length_drop, List.length_nil] at this; omega
      have s1 := ihl f _ _ htne (by rw [List.length_take]; omega) (al.take _)
        (fun x hx => w x (by simp [PT.frontier, hx]))
        (fun y hy => hV y (by rw [hPI]; exact List.mem_append_left _ (List.mem_append_left _ hy)))
        (fun y hy => hT y (by rw [hRI]; exact List.mem_append_left _ (List.mem_append_left _ hy))) ha hl'
      have s2 := ihr f _ _ hdne (by rw [List.length_drop]; omega) (al.drop _)
        (fun x hx => w x (by simp [PT.frontier, hx]))
        (fun y hy => hV y (by rw [hPI]; exact List.mem_append_left _ (List.mem_append_right _ hy)))
        (fun y hy => hT y (by rw [hRI]; exact List.mem_append_left _ (List.mem_append_right _ hy))) hb hr'
      have := s1.append s2
      rw [List.take_append_drop] at this
      exact this

/-- segments whose roots are leaf hashes are single leaves -/
theorem SegsOn.leaves {H : HashFn} {S : Bytes → Prop} (hi : NoCollOn H S) {ign : Bool} : ∀ {X M : List NsHash},
    SegsOn H ign S M X → (∀ x ∈ X, IsLeafOn H S x) → M = X := by
  intro X
  induction X with
  | nil => intro M h _; exact h.segs.nil_roots
  | cons x t ih =>
    intro M h lx
    cases h with
    | @cons seg rest _ _ hne hr hT hrest =>
      have hrest' := ih hrest (fun y hy => lx y (List.mem_cons_of_mem _ hy))
      have hseg : seg = [x] := by
        match seg, hne, hr, hT with
        | [y], _, hr, _ => simp [computeRoot, computeRootAux] at hr; rw [hr]
        | a :: b :: rest', _, hr, hT =>
          exfalso
          obtain ⟨l, rr, _, _, hn, hRI⟩ := rootInputs_cons2 hr
          obtain ⟨ns, d, _, hx, hS⟩ := lx x (by simp)
          rw [hx] at hn
          exact leaf_ne_node_on hi hn hS (hT _ (by rw [hRI]; simp)) rfl
      rw [hseg, hrest']; rfl

/-- a non-empty list of leaf hashes never has the empty-tree root -/
theorem computeRoot_ne_empty_on {H : HashFn} {S : Bytes → Prop} (hi : NoCollOn H S) (hE : S []) {ign : Bool}
    {L : List NsHash} {r : NsHash} (hne : L ≠ []) (al : AllLeafOn H S L)
    (hT : ∀ y ∈ rootInputs H ign (L.length + 1) L, S y) (h : computeRoot H ign L = .ok r) : r ≠ emptyRoot H := by
  intro he
  match L, hne, al, hT, h with
  | [x], _, al, _, h =>
    simp [computeRoot, computeRootAux] at h
    obtain ⟨ns, d, _, hx, hS⟩ := al x (by simp)
    rw [← h, hx] at he
    exact emptyRoot_ne_leaf_on hi hE hS (congrArg NsHash.hash he).symm
  | a :: b :: rest, _, _, hT, h =>
    obtain ⟨l, rr, _, _, hn, hRI⟩ := rootInputs_cons2 h
    rw [he] at hn
    exact emptyRoot_ne_node_on hi hn hE (hT _ (by rw [hRI]; simp)) rfl

/-- the frontier decomposition obtained from an accepted non-trivial range proof against the real root -/
theorem accepted_block_on {H : HashFn} {S : Bytes → Prop} (hk : HashOKOn H S) {ign : Bool} {L : List NsHash}
    {root : NsHash} {X P : List NsHash} {s : Nat}
    (hne : L ≠ []) (al : AllLeafOn H S L) (hroot : computeRoot H true L = .ok root)
    (hT : ∀ y ∈ rootInputs H true (L.length + 1) L, S y) (hV : ∀ y ∈ proofInputs H ign X P s, S y)
    (wp : ∀ x ∈ P, x.WF) (wx : ∀ x ∈ X, x.WF)
    (hX : 1 ≤ X.length) (hnt : ¬ (X.length = 1 ∧ P = [])) (hu : s + X.length ≤ U32_MAX + 1)
    (h : checkRangeProof H ign root X P s = .ok ()) :
    computeNumLeftSiblings s ≤ P.length ∧ ∃ ML MX MR, L = ML ++ MX ++ MR ∧
      SegsOn H true S ML (P.take (computeNumLeftSiblings s)) ∧ SegsOn H true S MX X ∧
      SegsOn H true S MR (P.drop (computeNumLeftSiblings s)) := by
  obtain ⟨hnl, t, hfr, hev, hinp⟩ := checkRangeProof_frontier_on hX hnt hu h
  refine ⟨hnl, ?_⟩
  have wf : ∀ x ∈ t.frontier, x.WF := by
    intro x hx
    rw [hfr] at hx
    rcases List.mem_append.mp hx with h1 | h1
    · rcases List.mem_append.mp h1 with h2 | h2
      · exact wp x (List.mem_of_mem_take h2)
      · exact wx x h2
    · exact wp x (List.mem_of_mem_drop h1)
  have hseg := agree_on hk t (L.length + 1) L root hne (by omega) al wf (fun y hy => hV y (hinp y hy)) hT hev hroot
  rw [hfr, List.append_assoc] at hseg
  obtain ⟨ML, M2, hL, hsl, h2⟩ := SegsOn.split _ hseg
  obtain ⟨MX, MR, hM2, hsx, hsr⟩ := SegsOn.split _ h2
  exact ⟨ML, MX, MR, by rw [hL, hM2, List.append_assoc], hsl, hsx, hsr⟩

/-- inputs hashed by `verify_complete_namespace`: the claimed leaves' preimages and the `hash_nodes` calls of the range-proof
    check (over the claimed leaves for a presence proof, over the proof's leaf hash for an absence proof) -/
def vcnInputs (H : HashFn) (p : NsProof) (datas : List Bytes) (ns : Bytes) : List Bytes :=
  datas.map (leafInput ns) ++
    proofInputs H p.ignoreMaxNs (if p.isAbsence then p.leaf.toList else datas.map (hashLeaf H ns)) p.siblings p.start

/-- absence proofs: an accepted proof means no leaf of the tree has the namespace -/
theorem absence_sound_on {H : HashFn} {S : Bytes → Prop} (hk : HashOKOn H S) {ign : Bool} {L : List NsHash} {root : NsHash} {P : List NsHash} {s : Nat}
    {lf : NsHash} {ns : Bytes}
    (hne : L ≠ []) (al : AllLeafOn H S L) (hs : SortedNs L) (hroot : computeRoot H true L = .ok root)
    (hT : ∀ y ∈ rootInputs H true (L.length + 1) L, S y) (hV : ∀ y ∈ proofInputs H ign [lf] P s, S y)
    (wp : ∀ x ∈ P, x.WF) (wlf : lf.WF) (hstart : s ≤ U32_MAX) (hns : ns.length = NS_SIZE)
    (hcont : root.contains H ns = true) (hlt : leB lf.minNs ns = false)
    (hleft : ∀ sib, computeNumLeftSiblings s > 0 → P[computeNumLeftSiblings s - 1]? = some sib → leB ns sib.maxNs = false)
    (h : checkRangeProof H ign root [lf] P s = .ok ()) : ∀ y ∈ L, y.minNs ≠ ns := by
  have hleaf := AllLeaf.leafNs al.allLeaf
  by_cases hP : P = []
  · -- single-node tree: the "leaf" is the root itself
    subst hP
    exfalso
    unfold checkRangeProof at h
    simp only [List.length_singleton, Nat.one_ne_zero, ↓reduceIte, List.isEmpty_nil, and_self] at h
    split at h
    · rename_i hc
      simp only [List.head?_cons, Bool.and_eq_true, beq_iff_eq, Option.some.injEq] at hc
      obtain ⟨rfl, _⟩ := hc
      unfold NsHash.contains at hcont
      simp only [Bool.and_eq_true] at hcont
      rw [hcont.1.1] at hlt; cases hlt
    · cases h
  · obtain ⟨hnl, ML, MX, MR, hL, hsl, hsx, hsr⟩ := accepted_block_on hk hne al hroot hT hV wp
      (by intro x hx; simp at hx; subst hx; exact wlf) (by simp) (by intro hc; exact hP hc.2) (by simp; omega) h
    obtain ⟨hxne, hxroot⟩ := hsx.segs.single_inv
    have hs' := hs
    unfold SortedNs at hs'
    rw [hL, List.append_assoc, List.pairwise_append] at hs'
    obtain ⟨hsML, hsrest, _⟩ := hs'
    rw [List.pairwise_append] at hsrest
    obtain ⟨hsMX, hsMR, hcrossXR⟩ := hsrest
    have hmemL : ∀ y, y ∈ L → y ∈ ML ∨ y ∈ MX ∨ y ∈ MR := by
      intro y hy; rw [hL] at hy; simp only [List.mem_append] at hy
      rcases hy with (h | h) | h
      · exact Or.inl h
      · exact Or.inr (Or.inl h)
      · exact Or.inr (Or.inr h)
    have hsub : ∀ y, (y ∈ ML ∨ y ∈ MX ∨ y ∈ MR) → y ∈ L := by
      intro y hy; rw [hL]; simp only [List.mem_append]
      rcases hy with h | h | h
      · exact Or.inl (Or.inl h)
      · exact Or.inl (Or.inr h)
      · exact Or.inr h
    have RX := computeRoot_range hxne (fun x hx => hleaf x (hsub x (Or.inr (Or.inl hx)))) hsMX hxroot
    have hltns : ltB ns lf.minNs = true := leB_false_iff.mp hlt
    -- ns is not the parity namespace
    have hnm : ns ≠ maxNsId := by
      intro he
      have := leB_maxNsId NS_SIZE lf.minNs wlf.1
      rw [he] at hltns
      unfold leB at this
      rw [show List.replicate NS_SIZE (255 : UInt8) = maxNsId from rfl, hltns] at this
      cases this
    intro y hy heq
    rcases hmemL y hy with hm | hm | hm
    · -- left of the leaf
      by_cases h0 : computeNumLeftSiblings s = 0
      · rw [h0] at hsl
        simp at hsl
        have := hsl.segs.nil_roots
        subst this; simp at hm
      · have hlt' : computeNumLeftSiblings s - 1 < P.length := by omega
        have htk : P.take (computeNumLeftSiblings s) = P.take (computeNumLeftSiblings s - 1) ++ [P[computeNumLeftSiblings s - 1]] := by
          have := take_succ_last hlt'
          have e : computeNumLeftSiblings s - 1 + 1 = computeNumLeftSiblings s := by omega
          rw [e] at this; exact this
        rw [htk] at hsl
        have hchk := hleft _ (by omega) (List.getElem?_eq_getElem hlt')
        exact left_none hsl.segs (fun x hx => hleaf x (hsub x (Or.inl hx))) hsML hns hnm (leB_false_iff.mp hchk) y hm heq
    · have := RX.minLe y hm
      rw [heq] at this
      rw [this] at hlt; cases hlt
    · obtain ⟨z, hz, hze⟩ := RX.minMem
      have := hcrossXR z hz y hm
      rw [← hze, heq] at this
      rw [this] at hlt; cases hlt

/-- presence proofs: an accepted complete-namespace proof means the leaves are exactly the tree's leaves of the namespace -/
theorem presence_sound_on {H : HashFn} {S : Bytes → Prop} (hk : HashOKOn H S) {ign : Bool} {L : List NsHash} {root : NsHash} {P : List NsHash} {s : Nat}
    {ns : Bytes} {datas : List Bytes}
    (hne : L ≠ []) (al : AllLeafOn H S L) (hs : SortedNs L) (hroot : computeRoot H true L = .ok root)
    (hT : ∀ y ∈ rootInputs H true (L.length + 1) L, S y)
    (hV : ∀ y ∈ proofInputs H ign (datas.map (hashLeaf H ns)) P s, S y) (hXin : ∀ d ∈ datas, S (leafInput ns d))
    (wp : ∀ x ∈ P, x.WF) (hend : s + datas.length ≤ U32_MAX + 1) (hns : ns.length = NS_SIZE)
    (hcont : root.contains H ns = true) (hd : 1 ≤ datas.length)
    (h : nmtCheckRangeProof H ign root (datas.map (hashLeaf H ns)) P s = .ok true) :
    L.filter (fun x => x.minNs == ns) = datas.map (hashLeaf H ns) := by
  have hleaf := AllLeaf.leafNs al.allLeaf
  have hXlen : (datas.map (hashLeaf H ns)).length = datas.length := by simp
  have hXleaf : ∀ x ∈ datas.map (hashLeaf H ns), IsLeafOn H S x := by
    intro x hx; obtain ⟨d, hd', rfl⟩ := List.mem_map.mp hx; exact ⟨ns, d, hns, rfl, hXin d hd'⟩
  have hXns : ∀ x ∈ datas.map (hashLeaf H ns), x.minNs = ns := by
    intro x hx; obtain ⟨d, _, rfl⟩ := List.mem_map.mp hx; rfl
  have RL := computeRoot_range hne hleaf hs hroot
  unfold nmtCheckRangeProof at h
  have h0 : ¬ ((datas.map (hashLeaf H ns)).length = 0) := by rw [hXlen]; omega
  simp only [h0, ↓reduceIte] at h
  by_cases htriv : (datas.map (hashLeaf H ns)).length = 1 ∧ P.isEmpty = true
  · -- single-leaf tree
    simp only [htriv, and_self, ↓reduceIte] at h
    split at h
    · rename_i hc
      simp only [Bool.and_eq_true, beq_iff_eq] at hc
      match hX : datas.map (hashLeaf H ns), htriv.1 with
      | [x], _ =>
        rw [hX] at hc
        simp only [List.head?_cons, Option.some.injEq] at hc
        obtain ⟨rfl, _⟩ := hc
        -- the real tree is that single leaf
        have hLx : L = [x] := by
          match L, hne, hroot, al, hT with
          | [y], _, hroot, _, _ => simp [computeRoot, computeRootAux] at hroot; rw [hroot]
          | a :: b :: rest, _, hroot, _, hT =>
            exfalso
            obtain ⟨l, rr, _, _, hn, hRI⟩ := rootInputs_cons2 hroot
            obtain ⟨ns', d', _, hx, hS⟩ := hXleaf x (by rw [hX]; simp)
            rw [hx] at hn
            exact leaf_ne_node_on hk.inj hn hS (hT _ (by rw [hRI]; simp)) rfl
        rw [hLx]
        have := hXns x (by rw [hX]; simp)
        simp [this]
    · cases h
  · simp only [htriv, ↓reduceIte] at h
    split at h
    · cases h
    · split at h
      · cases h
      · rename_i complete hcomp
        split at h
        · cases h
        · rename_i hchk
          simp only [Except.ok.injEq] at h
          subst h
          have hnt : ¬ ((datas.map (hashLeaf H ns)).length = 1 ∧ P = []) := by
            intro hc; exact htriv ⟨hc.1, by simp [hc.2]⟩
          obtain ⟨hnl, ML, MX, MR, hL, hsl, hsx, hsr⟩ := accepted_block_on hk hne al hroot hT hV wp
            (fun x hx => (hXleaf x hx).WF hk.hlen) (by rw [hXlen]; exact hd) hnt (by rw [hXlen]; exact hend) hchk
          have hsub : ∀ y, (y ∈ ML ∨ y ∈ MX ∨ y ∈ MR) → y ∈ L := by
            intro y hy; rw [hL]; simp only [List.mem_append]
            rcases hy with h | h | h
            · exact Or.inl (Or.inl h)
            · exact Or.inl (Or.inr h)
            · exact Or.inr h
          have hMX : MX = datas.map (hashLeaf H ns) :=
            SegsOn.leaves hk.inj hsx hXleaf
          have hs' := hs
          unfold SortedNs at hs'
          rw [hL, List.append_assoc, List.pairwise_append] at hs'
          obtain ⟨hsML, hsrest, _⟩ := hs'
          rw [List.pairwise_append] at hsrest
          obtain ⟨_, hsMR, _⟩ := hsrest
          -- unpack the completeness check
          unfold checkProofCompleteness at hcomp
          have hnp : ¬ (computeNumLeftSiblings s ≠ 0 ∧ P.length < computeNumLeftSiblings s) := by omega
          simp only [hnp, ↓reduceIte, Except.ok.injEq, Bool.and_eq_true] at hcomp
          obtain ⟨hc1, hc2⟩ := hcomp
          obtain ⟨d0, dt, hdat⟩ : ∃ d0 dt, datas = d0 :: dt := by
            cases datas with
            | nil => simp at hd
            | cons a b => exact ⟨a, b, rfl⟩
          have hhead : (datas.map (hashLeaf H ns)).head? = some (hashLeaf H ns d0) := by rw [hdat]; rfl
          have hlast : ∃ dl, (datas.map (hashLeaf H ns)).getLast? = some (hashLeaf H ns dl) := by
            have hne' : datas ≠ [] := by rw [hdat]; simp
            exact ⟨datas.getLast hne', by rw [List.getLast?_map, List.getLast?_eq_some_getLast hne']; rfl⟩
          obtain ⟨dl, hlast⟩ := hlast
          refine (filter_of_block (by rw [hL, hMX]) ?_ ?_ hXns)
          · -- left part
            by_cases hz : computeNumLeftSiblings s = 0
            · rw [hz] at hsl; simp at hsl
              have := hsl.segs.nil_roots
              subst this; intro y hy; simp at hy
            · have hlt' : computeNumLeftSiblings s - 1 < P.length := by omega
              have htk : P.take (computeNumLeftSiblings s) = P.take (computeNumLeftSiblings s - 1) ++ [P[computeNumLeftSiblings s - 1]] := by
                have := take_succ_last hlt'
                have e : computeNumLeftSiblings s - 1 + 1 = computeNumLeftSiblings s := by omega
                rw [e] at this; exact this
              rw [htk] at hsl
              simp only [ne_eq, hz, not_false_eq_true, ↓reduceIte, List.getElem?_eq_getElem hlt', hhead] at hc1
              have hchk1 : ltB (P[computeNumLeftSiblings s - 1]).maxNs ns = true := hc1
              by_cases hnm : ns = maxNsId
              · -- parity namespace: the whole tree is parity, so the left sibling's max is parity too: contradiction
                exfalso
                unfold NsHash.contains at hcont
                simp only [Bool.and_eq_true] at hcont
                have wroot := computeRoot_WF hk.hlen (AllLeaf.allWF hk.hlen al.allLeaf) hroot
                have hrm : root.maxNs = maxNsId := eq_maxNsId_of_le wroot.2.1 (by rw [← hnm]; exact hcont.1.2)
                have hall : ∀ x ∈ L, x.minNs = maxNsId := by
                  intro x hx
                  apply Classical.byContradiction
                  intro hne'
                  exact RL.maxNotAll ⟨x, hx, hne'⟩ hrm
                obtain ⟨M1, seg, hM, _, h2⟩ := Segs.split _ hsl.segs
                obtain ⟨hsne, hsroot⟩ := h2.single_inv
                have hsML' := hsML
                rw [hM, List.pairwise_append] at hsML'
                have Rs := computeRoot_range hsne (fun x hx => hleaf x (hsub x (Or.inl (by rw [hM]; exact List.mem_append_right _ hx))))
                  hsML'.2.1 hsroot
                have := Rs.maxAll (fun x hx => hall x (hsub x (Or.inl (by rw [hM]; exact List.mem_append_right _ hx))))
                rw [this, hnm] at hchk1
                exact ltB_irrefl' hchk1
              · exact left_none hsl.segs (fun x hx => hleaf x (hsub x (Or.inl hx))) hsML hns hnm hchk1
          · -- right part
            cases hdr : P.drop (computeNumLeftSiblings s) with
            | nil =>
              rw [hdr] at hsr
              have := hsr.segs.nil_roots
              subst this; intro y hy; simp at hy
            | cons r rest =>
              rw [hdr] at hsr
              have hlen2 : P.length - computeNumLeftSiblings s ≠ 0 := by
                have := congrArg List.length hdr
                simp only [List.length_drop, List.length_cons] at this; omega
              have hget : P[computeNumLeftSiblings s]? = some r := by
                have := congrArg (fun l => l[0]?) hdr
                simpa using this
              simp only [ne_eq, hlen2, not_false_eq_true, ↓reduceIte, hget, hlast] at hc2
              have hchk2 : ltB ns r.minNs = true := hc2
              exact right_none hsr.segs (fun x hx => hleaf x (hsub x (Or.inr (Or.inr hx)))) hsMR hchk2


/-- **Soundness of `verify_complete_namespace`** against the root of a namespace-sorted list of leaf hashes whose
    range covers the namespace: accepted raw leaves are exactly the tree's leaves of that namespace (none for an
    absence proof).  `hwpt` is the proof-type/emptiness agreement that `RowNamespaceData::verify` checks first. -/
theorem vcn_sound_on {H : HashFn} {S : Bytes → Prop} (hk : HashOKOn H S) (hE : S []) {L : List NsHash} {root : NsHash} {p : NsProof} {ns : Bytes} {datas : List Bytes}
    (hne : L ≠ []) (al : AllLeafOn H S L) (hs : SortedNs L) (hroot : computeRoot H true L = .ok root)
    (hT : ∀ y ∈ rootInputs H true (L.length + 1) L, S y) (hV : ∀ y ∈ vcnInputs H p datas ns, S y)
    (wp : ∀ x ∈ p.siblings, x.WF) (wl : ∀ l, p.leaf = some l → l.WF)
    (hstart : p.start ≤ U32_MAX) (hend : p.end_ ≤ U32_MAX) (hns : ns.length = NS_SIZE)
    (hwpt : datas.isEmpty = p.isAbsence) (hcont : root.contains H ns = true)
    (h : verifyCompleteNamespace H p root datas ns = .ok ()) :
    L.filter (fun x => x.minNs == ns) = datas.map (hashLeaf H ns) := by
  unfold verifyCompleteNamespace at h
  split at h
  · cases h
  · rename_i hlen
    unfold verifyNamespace at h
    have hnotempty : root.isEmptyRoot H = false := by
      unfold NsHash.isEmptyRoot
      have := computeRoot_ne_empty_on hk.inj hE hne al hT hroot
      simpa using this
    simp only [hnotempty, Bool.false_and, Bool.false_eq_true, ↓reduceIte] at h
    by_cases hab : p.isAbsence = true
    · -- absence proof
      have hd : datas = [] := by
        rw [hab] at hwpt
        cases datas with
        | nil => rfl
        | cons a b => simp at hwpt
      subst hd
      simp only [hab, ↓reduceIte, hcont, Bool.not_true, Bool.false_eq_true] at h
      cases hleaf : p.leaf with
      | none => simp [hleaf] at h
      | some lf =>
        simp only [hleaf, List.isEmpty_nil, Bool.not_true, Bool.false_eq_true, ↓reduceIte] at h
        by_cases hlt : leB lf.minNs ns = true
        · simp [hlt] at h
        · simp only [hlt, Bool.false_eq_true, ↓reduceIte] at h
          by_cases hnp : computeNumLeftSiblings p.start > 0 ∧ p.siblings.length < computeNumLeftSiblings p.start
          · simp [hnp] at h
          · simp only [hnp, ↓reduceIte] at h
            generalize hbad : (if computeNumLeftSiblings p.start > 0 then
                match p.siblings[computeNumLeftSiblings p.start - 1]? with
                | some sib => leB ns sib.maxNs
                | none => false
              else false) = bad at h
            cases bad with
            | true => simp at h
            | false =>
              simp only [Bool.false_eq_true, ↓reduceIte] at h
              have hnone := absence_sound_on hk hne al hs hroot hT (fun y hy => hV y (by unfold vcnInputs; simp only [hab, ↓reduceIte, hleaf, Option.toList_some]; exact List.mem_append_right _ hy)) wp (wl lf hleaf) hstart hns hcont
                (by simpa using hlt)
                (by
                  intro sib hpos hget
                  have := hbad
                  simp only [hpos, ↓reduceIte, hget] at this
                  exact this) h
              simp only [List.map_nil]
              rw [List.filter_eq_nil_iff]
              intro a ha
              simpa using hnone a ha
    · -- presence proof
      have hab' : p.isAbsence = false := by simpa using hab
      have hdne : datas.isEmpty = false := by rw [hwpt, hab']
      have hd1 : 1 ≤ datas.length := by
        cases datas with
        | nil => simp at hdne
        | cons a b => simp
      simp only [hab', Bool.false_eq_true, ↓reduceIte, hcont, Bool.not_true] at h
      have hlen' : datas.length = p.rangeLen := by
        simp only [hab', Bool.not_false, Bool.true_and, decide_eq_true_eq, ne_eq, Decidable.not_not] at hlen
        exact hlen
      split at h
      · cases h
      · rename_i complete hck
        split at h
        · rename_i hc
          subst hc
          have hend' : p.start + datas.length ≤ U32_MAX + 1 := by
            unfold NsProof.rangeLen at hlen'; omega
          exact presence_sound_on hk hne al hs hroot hT (fun y hy => hV y (by unfold vcnInputs; simp only [hab', Bool.false_eq_true, ↓reduceIte]; exact List.mem_append_right _ hy)) (fun d hd' => hV _ (by unfold vcnInputs; exact List.mem_append_left _ (List.mem_map.mpr ⟨d, hd', rfl⟩))) wp hend' hns hcont hd1 hck
        · cases h




end Lumina.Proofs.NmtRange

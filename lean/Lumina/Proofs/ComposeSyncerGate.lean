/-
  COMPOSITION C25 × C38 (strengthening round S7), part 1: the fetch decision in the presence of
  PRUNED heights and an ARMED slow-sync height.

  `Proofs/SyncerGate.lean` proves progress of `fetch_next_batch` (`gate_progress`) only for
  `pruned = []` and `slowSync = none`.  Here:

    * `gate_idle_cases`: what the two idle outcomes of the sampling-window gate mean
      (`boundOutsideWindow`: the height above the batch is stored and outside the window;
      `boundPruned` — the branch added by the C25 fix: it is synced, not stored);
    * `window_gate_blocks_only_outside_window`: whenever the window gate (either branch, in
      particular the repaired one) says "nothing", NO unsynced height up to the head is inside the
      sampling window — the gate, and the C25 fix, cost no liveness.  Hypothesis on pruned heights:
      each is outside the sampling window or has a synced height directly below it (what the
      pruner's safety condition C35 leaves behind, `PrunedHist`);
    * `gate_progress_pruned`: progress with pruned heights and an armed slow-sync height, when the
      pruned heights and the slow-sync height are outside the sampling window (pruning window ≥
      sampling window) and some stored height is inside it.

  Core Lean only.
-/
import Lumina.Proofs.SyncerGate

namespace Lumina.Proofs.ComposeSyncerGate
open Lumina.Model.Ranges hiding Inv
open Lumina.Model.SyncerGate Lumina.Model.FetchRange Lumina.Proofs.Ranges Lumina.Proofs.SyncerGate

local notation "RInv" => Lumina.Model.Ranges.Inv

/-- what an idle outcome of the sampling-window gate implies -/
theorem gate_idle_cases {pc : Bool} {slowMin : Nat} {i : GateIn} {w : Idle}
    (h : fetchDecisionWith pc slowMin i = .ok (.idle w))
    (hw : w = .boundOutsideWindow ∨ w = .boundPruned) :
    ∃ head synced r, i.head = some head ∧ add i.pruned i.stored = .ok synced ∧
      calculateRangeToFetch head synced i.batchSize = .ok r ∧ Range.isEmpty r = false ∧
      ((w = .boundOutsideWindow ∧ contains i.stored (r.2 + 1) = true ∧ i.inWindow (r.2 + 1) = false) ∨
       (w = .boundPruned ∧ contains i.stored (r.2 + 1) = false ∧ pc = true ∧
          contains synced (r.2 + 1) = true)) := by
  unfold fetchDecisionWith at h
  split at h
  · injection h with h; injection h with h; subst h; rcases hw with hw | hw <;> cases hw
  split at h
  · injection h with h; injection h with h; subst h; rcases hw with hw | hw <;> cases hw
  split at h
  · injection h with h; injection h with h; subst h; rcases hw with hw | hw <;> cases hw
  rename_i head hhead
  split at h
  · cases h
  rename_i synced hadd
  split at h
  · cases h
  rename_i nb hcalc
  split at h
  · injection h with h; injection h with h; subst h; rcases hw with hw | hw <;> cases hw
  rename_i hne
  split at h
  · cases h
  · injection h with h; injection h with h; subst h; rcases hw with hw | hw <;> cases hw
  split at h
  · cases h
  rename_i bound hb
  have hb' : bound = nb.2 + 1 := by
    unfold addU64 at hb
    split at hb
    · injection hb with hb; exact hb.symm
    · cases hb
  subst hb'
  injection h with h
  unfold windowGate at h
  refine ⟨head, synced, nb, hhead, hadd, hcalc, by simpa using hne, ?_⟩
  split at h
  · rename_i hst
    split at h
    · cases h
    · rename_i hwin
      injection h with h; subst h
      exact Or.inl ⟨rfl, hst, by simpa using hwin⟩
  · rename_i hst
    split at h
    · rename_i hp
      injection h with h; subst h
      simp only [Bool.and_eq_true] at hp
      exact Or.inr ⟨rfl, by simpa using hst, hp.1, hp.2⟩
    · cases h

/-- **The sampling-window gate, including the branch added by the C25 fix, costs no liveness.**
    In any state the worker can read — well-formed stored / pruned sets, header age monotone in the
    height, every pruned height outside the sampling window or with a synced height directly below
    it — if `fetch_next_batch` returns without a request because of the window gate
    (`boundOutsideWindow`: `get_by_height(end + 1)` is stored and outside the window;
    `boundPruned`: it is `NotFound` and `end + 1` is synced), then every height `1 ≤ m ≤ head`
    that is NOT synced lies outside the sampling window: nothing the window needs is withheld. -/
theorem window_gate_blocks_only_outside_window {pc : Bool} {slowMin : Nat} {i : GateIn}
    {old : Nat → Bool} {w : Idle} {H m : Nat}
    (hst : RInv i.stored) (hpr : RInv i.pruned)
    (hwin : ∀ h, i.inWindow h = !old h)
    (hmono : ∀ h1 h2, h1 ≤ h2 → old h2 = true → old h1 = true)
    (hprh : ∀ p, mem i.pruned p → old p = true ∨ mem i.stored (p - 1) ∨ mem i.pruned (p - 1))
    (h : fetchDecisionWith pc slowMin i = .ok (.idle w))
    (hw : w = .boundOutsideWindow ∨ w = .boundPruned)
    (hhead : i.head = some H) (hm1 : 1 ≤ m) (hm2 : m ≤ H)
    (hm3 : ¬ (mem i.stored m ∨ mem i.pruned m)) : old m = true := by
  obtain ⟨head, synced, r, hh, hadd, hcalc, hne, hcase⟩ := gate_idle_cases h hw
  rw [hhead] at hh
  injection hh with hh
  subst hh
  obtain ⟨c, hc, hci, hcm⟩ := add_spec hpr hst
  rw [hadd] at hc
  injection hc with hc
  subst hc
  obtain ⟨_, _, hshape⟩ := calc_cases hci hcalc hne
  have hboundSynced : mem synced (r.2 + 1) := by
    rcases hcase with ⟨_, hcs, _⟩ | ⟨_, _, _, hcs⟩
    · exact (hcm _).2 (Or.inr ((contains_iff_mem _ _).1 hcs))
    · exact (contains_iff_mem _ _).1 hcs
  rcases hshape with ⟨habove, _, _⟩ | ⟨_, hfill, hgap⟩
  · -- forward batch: the bound is above everything synced, so the gate cannot have fired
    have := habove _ hboundSynced
    omega
  · have hmb : m ≤ r.2 := by
      by_cases hle : m ≤ r.2
      · exact hle
      · exact absurd ((hcm m).1 (hfill m (by omega) hm2)).symm hm3
    have hbold : old (r.2 + 1) = true := by
      rcases hcase with ⟨_, _, hiw⟩ | ⟨_, hns, _, _⟩
      · rw [hwin] at hiw; simpa using hiw
      · -- the bound is synced and not stored: it was pruned; the height below it is not synced
        have hp : mem i.pruned (r.2 + 1) := by
          rcases (hcm _).1 hboundSynced with hp | hs
          · exact hp
          · have := (contains_iff_mem _ _).2 hs
            rw [hns] at this; cases this
        rcases hprh _ hp with ho | hs | hp'
        · exact ho
        · exact absurd ((hcm _).2 (Or.inr hs)) (by simpa using hgap r.2 (by omega) (Nat.le_refl _))
        · exact absurd ((hcm _).2 (Or.inl hp')) (by simpa using hgap r.2 (by omega) (Nat.le_refl _))
    exact hmono m (r.2 + 1) (by omega) hbold

/-- **Progress of the fetch decision with pruned heights and an armed slow-sync height.**
    No batch ongoing, a peer connected, batch size ≥ 1; every pruned height and the slow-sync
    height (if any) are outside the sampling window, some stored height is inside it: if some
    height `1 ≤ m ≤ head` inside the sampling window is not stored, `fetch_next_batch` (the code
    AFTER the C25 fix) schedules a request — neither the slow-sync throttle nor the repaired window
    gate withholds it. -/
theorem gate_progress_pruned {slowMin : Nat} {i : GateIn} {old : Nat → Bool} {H m : Nat}
    (hst : RInv i.stored) (hpr : RInv i.pruned) (hong : i.ongoing = false)
    (hpeers : i.connectedPeers ≠ 0) (hhead : i.head = some H) (hH : H < U64_MAX)
    (hbs : 1 ≤ i.batchSize)
    (hwin : ∀ h, i.inWindow h = !old h)
    (hmono : ∀ h1 h2, h1 ≤ h2 → old h2 = true → old h1 = true)
    (hprOld : ∀ p, mem i.pruned p → old p = true)
    (hslow : ∀ h0, i.slowSync = some h0 → old h0 = true)
    (hfresh : ∃ y, mem i.stored y ∧ old y = false)
    (hm1 : 1 ≤ m) (hm2 : m ≤ H) (hm3 : ¬ mem i.stored m) (hm4 : old m = false) :
    ∃ r, fetchDecisionWith true slowMin i = .ok (.request r) := by
  obtain ⟨synced, hadd, hci, hcm⟩ := add_spec hpr hst
  have hmns : ¬ mem synced m := by
    intro hc
    rcases (hcm m).1 hc with hp | hs
    · have := hprOld m hp; rw [hm4] at this; cases this
    · exact hm3 hs
  obtain ⟨r, hcalc, hne⟩ := calc_nonempty (limit := i.batchSize) hci hbs (Nat.le_of_lt hH) hm1 hm2 hmns
  obtain ⟨_, _, hshape⟩ := calc_cases hci hcalc hne
  have hle : r.2 + 1 ≤ U64_MAX := by
    rcases hshape with ⟨_, h2, _⟩ | ⟨hmm, _⟩
    · omega
    · exact (mem_bounds hci hmm).2
  -- the batch reaches above every height outside the window that matters
  have hnotold : ∀ h0, old h0 = true → h0 < r.2 := by
    intro h0 ho
    rcases hshape with ⟨habove, _, _⟩ | ⟨_, hfill, _⟩
    · obtain ⟨y, hy, hyo⟩ := hfresh
      have hy1 := habove y ((hcm y).2 (Or.inr hy))
      by_cases hc : h0 < r.2
      · exact hc
      · have := hmono y h0 (by omega) ho
        rw [hyo] at this; cases this
    · have hmb : m ≤ r.2 := by
        by_cases hc : m ≤ r.2
        · exact hc
        · exact absurd (hfill m (by omega) hm2) hmns
      by_cases hc : h0 < r.2
      · exact hc
      · have := hmono m h0 (by omega) ho
        rw [hm4] at this; cases this
  have hss : slowSyncStop slowMin i r = .ok false := by
    unfold slowSyncStop
    cases hs : i.slowSync with
    | none => simp
    | some h0 =>
      have := hnotold h0 (hslow h0 hs)
      have hd : decide (r.2 ≤ h0) = false := by simp; omega
      simp [hd]
  refine ⟨r, ?_⟩
  unfold fetchDecisionWith
  rw [if_neg (by simp [hong]), if_neg (by simpa using hpeers)]
  simp only [hhead, hadd, hcalc, hne, Bool.false_eq_true, ↓reduceIte]
  simp only [hss, addU64, hle, ↓reduceIte]
  congr 1
  unfold windowGate
  rcases hshape with ⟨habove, _, _⟩ | ⟨hbound, hfill, _⟩
  · have hnc : contains i.stored (r.2 + 1) = false := by
      cases hc : contains i.stored (r.2 + 1) with
      | false => rfl
      | true =>
        have := habove _ ((hcm _).2 (Or.inr ((contains_iff_mem _ _).1 hc)))
        omega
    have hns : contains synced (r.2 + 1) = false := by
      cases hc : contains synced (r.2 + 1) with
      | false => rfl
      | true =>
        have := habove _ ((contains_iff_mem _ _).1 hc)
        omega
    simp [hnc, hns]
  · have hmb : m ≤ r.2 := by
      by_cases hc : m ≤ r.2
      · exact hc
      · exact absurd (hfill m (by omega) hm2) hmns
    have hob : old (r.2 + 1) = false := by
      cases ho : old (r.2 + 1) with
      | false => rfl
      | true => have := hmono m (r.2 + 1) (by omega) ho; rw [hm4] at this; cases this
    have hcs : contains i.stored (r.2 + 1) = true := by
      rcases (hcm _).1 hbound with hp | hs
      · have := hprOld _ hp; rw [hob] at this; cases this
      · exact (contains_iff_mem _ _).2 hs
    simp [hcs, hwin, hob]

end Lumina.Proofs.ComposeSyncerGate

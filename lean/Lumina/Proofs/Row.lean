/-
  Helper lemmas for C05 (rows): leaf-hash lists determine the share bytes, `buildShares` on honest rows.
-/
import Lumina.Proofs.Sample
import Lumina.Model.Row
import Lumina.Spec.C05

namespace Lumina.Proofs.Row
open Lumina.Util Lumina.Model.Nmt Lumina.Model.Eds Lumina.Model.Row
open Lumina.Proofs.Nmt Lumina.Proofs.Eds Lumina.Proofs.Sample Lumina.Spec.C05
open Lumina.Model.Sample (SErr shareFromRaw shareParity)

theorem allLeaf_of_shares {H : HashFn} {l : List Share} (h : ∀ sh ∈ l, NS_SIZE ≤ sh.data.length) :
    AllLeaf H (l.map (Share.leafHash H)) := by
  intro x hx
  obtain ⟨y, hy, rfl⟩ := List.mem_map.mp hx
  exact ⟨y.ns, y.data, share_ns_length (h y hy), rfl⟩

/-! ### Relative collision-freeness (audit repair): the inputs hashed for a row tree -/

/-- inputs hashed when the verifier rebuilds the row tree from the received shares: the leaf preimages
    `0x00 ‖ ns ‖ share` and the inner-node preimages -/
def rowInputs (H : HashFn) (l : List Share) : List Bytes :=
  l.map (fun sh => leafInput sh.ns sh.data) ++ rootInputs H true (l.length + 1) (l.map (Share.leafHash H))

theorem allLeafOn_of_shares {H : HashFn} {S : Bytes → Prop} {l : List Share}
    (h : ∀ sh ∈ l, NS_SIZE ≤ sh.data.length) (hS : ∀ sh ∈ l, S (leafInput sh.ns sh.data)) :
    AllLeafOn H S (l.map (Share.leafHash H)) := by
  intro x hx
  obtain ⟨y, hy, rfl⟩ := List.mem_map.mp hx
  exact ⟨y.ns, y.data, share_ns_length (h y hy), rfl, hS y hy⟩

/-- equal leaf-hash lists have equal data, the hash being collision-free on the leaf preimages of both lists -/
theorem leafHash_map_inj_on {H : HashFn} {S : Bytes → Prop} (hk : HashOKOn H S) : ∀ {l l' : List Share},
    (∀ sh ∈ l, NS_SIZE ≤ sh.data.length) → (∀ sh ∈ l', NS_SIZE ≤ sh.data.length) →
    (∀ sh ∈ l, S (leafInput sh.ns sh.data)) → (∀ sh ∈ l', S (leafInput sh.ns sh.data)) →
    l.map (Share.leafHash H) = l'.map (Share.leafHash H) → l.map Share.data = l'.map Share.data := by
  intro l
  induction l with
  | nil => intro l' _ _ _ _ h; cases l' with
    | nil => rfl
    | cons a t => simp at h
  | cons a t ih =>
    intro l' hl hl' hs hs' h
    cases l' with
    | nil => simp at h
    | cons a' t' =>
      simp only [List.map_cons, List.cons.injEq] at h ⊢
      refine ⟨?_, ih (fun s hs => hl s (by simp [hs])) (fun s hs => hl' s (by simp [hs]))
        (fun s h => hs s (by simp [h])) (fun s h => hs' s (by simp [h])) h.2⟩
      have h1 := h.1
      unfold Share.leafHash at h1
      have hn : a.ns.length = a'.ns.length := by
        rw [share_ns_length (hl a (by simp)), share_ns_length (hl' a' (by simp))]
      exact (hashLeaf_inj_on hk.inj hn (hs a (by simp)) (hs' a' (by simp)) (congrArg NsHash.hash h1)).2

/-! ### The codec properties the round trips need (audit repair: stated about the codec, not as the conclusion) -/

/-- the row's bytes are a codeword of the systematic encoder `enc` (`k` data shards ↦ `k` parity shards): the second
    half is the encoding of the first half.  (Same shape as `Lumina.Proofs.EdsLinear.IsCodeword`.) -/
def RowCodeword (enc : List Bytes → List Bytes) (k : Nat) (cw : List Bytes) : Prop :=
  cw.length = 2 * k ∧ cw.drop k = enc (cw.take k)

/-- `leopard_codec::encode` as a function of the shard vector `Row::from_raw` passes: SYSTEMATIC — the first half of
    the shards is kept, the second (zeroed) half is overwritten with `enc` of the first half -/
def encodeCodec (enc : List Bytes → List Bytes) : List Bytes → CodecRes :=
  fun l => .ok (l.take (l.length / 2) ++ enc (l.take (l.length / 2)))

/-- `leopard_codec::reconstruct` as a total function on the shard vector -/
def reconstructCodec (rec : List Bytes → List Bytes) : List Bytes → CodecRes := fun l => .ok (rec l)

/-- the MDS property the right-half round trip needs: `rec` recovers every codeword of `enc` from its parity half
    (the data half erased, i.e. replaced by empty shards) -/
def RecoversFromRight (enc rec : List Bytes → List Bytes) (k : Nat) : Prop :=
  ∀ cw, RowCodeword enc k cw → rec (List.replicate k [] ++ cw.drop k) = cw

/-- `buildShares` gives back shares whose flags follow the quadrant rule and whose bytes are well-formed -/
theorem buildShares_ok (i ds : Nat) : ∀ (l : List Share) (col : Nat),
    (∀ j sh, l[j]? = some sh → sh.data.length = SHARE_SIZE ∧
      sh.isParity = !(decide (i < ds ∧ col + j < ds)) ∧
      (sh.isParity = false → ∃ n, Lumina.Model.Namespace.fromRaw (sh.data.take NS_SIZE) = .ok n)) →
    buildShares i ds col (l.map Share.data) = .ok l := by
  intro l
  induction l with
  | nil => intro col _; rfl
  | cons a t ih =>
    intro col h
    obtain ⟨h1, h2, h3⟩ := h 0 a rfl
    have ht := ih (col + 1) (fun j sh hj => by
      have := h (j + 1) sh (by simpa using hj)
      have e : col + (j + 1) = col + 1 + j := by omega
      rw [e] at this; exact this)
    simp only [List.map_cons, buildShares, ht]
    simp only [Nat.add_zero] at h2
    by_cases hq : i < ds ∧ col < ds
    · have hp : a.isParity = false := by simp [h2, hq]
      obtain ⟨n, hn⟩ := h3 hp
      simp only [hq, and_self, ↓reduceIte, shareFromRaw, h1, ne_eq, not_true_eq_false, hn]
      cases a with
      | mk d p => simp at hp; subst hp; rfl
    · have hp : a.isParity = true := by simp [h2, hq]
      simp only [hq, ↓reduceIte, shareParity, h1, ne_eq, not_true_eq_false]
      cases a with
      | mk d p => simp at hp; subst hp; rfl

/-- what `Row::from_raw` may assume about an honest row of an extended square: `2k` shares of 512 bytes, flags by
    quadrant for row index `i`, valid namespaces on original-data shares -/
structure HonestRow (r : Row) (i k : Nat) : Prop where
  len : r.shares.length = 2 * k
  kpos : 1 ≤ k
  ok : ∀ j sh, r.shares[j]? = some sh → sh.data.length = SHARE_SIZE ∧
      sh.isParity = !(decide (i < k ∧ j < k)) ∧
      (sh.isParity = false → ∃ n, Lumina.Model.Namespace.fromRaw (sh.data.take NS_SIZE) = .ok n)


end Lumina.Proofs.Row

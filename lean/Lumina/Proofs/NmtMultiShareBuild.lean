/-
  Multi-leaf range proofs, part 7: honestly built share proofs verify (C13, completeness of `ShareProof`).

  `rowRange_verifies`: for a namespace-ordered axis, `build_range_proof(s..en)` over a run of shares that all carry the
  namespace `ns` is accepted by lumina's `NamespaceProof::verify_range` (shape validation + nmt-rs) with those shares.
  `buildLoop_ok`: the per-row loop of the honest construction succeeds, and both loops of `ShareProof::verify`
  (`shares_needed`, the range-proof loop) accept its output.
-/
import Lumina.Proofs.NmtMultiNs
import Lumina.Proofs.NmtMultiShare

namespace Lumina.Proofs.NmtMulti
open Lumina.Util Lumina.Model.Nmt Lumina.Model.Eds
open Lumina.Proofs.Nmt Lumina.Proofs.NmtRange Lumina.Proofs.Eds Lumina.Proofs.Sample
open Lumina.Model.ShareProof (sharesNeeded rangeLoop buildLoop BuildOutcome u32Max u64Max)
open Lumina.Spec.C13 (pathsOk ProofObs)
open Lumina.Model.Merkle (HashFns)

/-! ### the two transcriptions of `validate_shape` agree (the direction needed here) -/

theorem adjacentBad_eq' : ∀ l : List NsHash, adjacentBad l = !Lumina.Model.Decoders.siblingsOrdered l := by
  intro l
  induction l with
  | nil => rfl
  | cons a t ih =>
    cases t with
    | nil => rfl
    | cons b r =>
      simp only [adjacentBad, Lumina.Model.Decoders.siblingsOrdered, ih, leB]
      cases ltB b.minNs a.maxNs <;> simp

theorem decodersValidateShape_of_ok {p : NsProof} {a b : Bytes} (h : validateShape p a b = .ok ()) :
    Lumina.Model.Decoders.validateShape p a b = true := by
  have hb : validateShape p a b =
      if Lumina.Model.Decoders.validateShape p a b then .ok () else .error .malformedProof := by
    unfold validateShape Lumina.Model.Decoders.validateShape
    simp only [adjacentBad_eq', leB]
    repeat' split
    all_goals simp_all
  rw [hb] at h
  split at h
  · assumption
  · cases h

/-- an honest range proof over a run of `ns`-shares is accepted by lumina's `verify_range` (both transcriptions) -/
theorem rowRange_verifies {H : HashFn} {shares : List Share} {root : NsHash} {ns : Bytes} {s en : Nat}
    (hlen : shares.length ≤ 2 ^ 31) (hsort : SortedBy Share.ns shares) (hnsl : ∀ sh ∈ shares, sh.ns.length = NS_SIZE)
    (hroot : computeRoot H true (shares.map (Share.leafHash H)) = .ok root)
    (hse : s < en) (hen : en ≤ shares.length) (hall : ∀ sh ∈ (shares.drop s).take (en - s), sh.ns = ns) :
    ∃ sibs, buildRangeProof H true (shares.map (Share.leafHash H)) s en = .ok sibs ∧
      Lumina.Model.Decoders.safeVerifyRange H ⟨s, en, sibs, true, false, none⟩ root
        (((shares.drop s).take (en - s)).map Share.data) ns = .ok () := by
  obtain ⟨pl, pr, hb, hsl, hsr, hpl, hchk⟩ := range_complete (s := s) (e := en) hroot hse
    (by rw [List.length_map]; exact hen) (by rw [List.length_map]; exact hlen)
  refine ⟨pl ++ pr, hb, ?_⟩
  -- a share of the run, to compare the neighbours with
  have hBlen : ((shares.drop s).take (en - s)).length = en - s := by
    rw [List.length_take, List.length_drop]; omega
  obtain ⟨b0, hb0⟩ : ∃ b0, b0 ∈ (shares.drop s).take (en - s) := by
    cases hB : (shares.drop s).take (en - s) with
    | nil => rw [hB] at hBlen; simp at hBlen; omega
    | cons a t => exact ⟨a, by simp⟩
  have hb0ns := hall b0 hb0
  -- decomposition of the sorted list
  have hsplit : shares = shares.take s ++ ((shares.drop s).take (en - s) ++ shares.drop en) := by
    have h1 : shares.drop s = (shares.drop s).take (en - s) ++ (shares.drop s).drop (en - s) :=
      (List.take_append_drop _ _).symm
    rw [List.drop_drop] at h1
    have e1 : s + (en - s) = en := by omega
    rw [e1] at h1
    conv => lhs; rw [← List.take_append_drop s shares, h1]
  have hsort' := hsort
  unfold SortedBy at hsort'
  rw [hsplit, List.map_append, List.map_append, List.pairwise_append] at hsort'
  obtain ⟨_, hBR, hAcross⟩ := hsort'
  rw [List.pairwise_append] at hBR
  obtain ⟨_, _, hBcross⟩ := hBR
  have hmemB : b0.ns ∈ ((shares.drop s).take (en - s)).map Share.ns := List.mem_map.mpr ⟨b0, hb0, rfl⟩
  have hA : ∀ y ∈ (shares.take s).map (Share.leafHash H), leB y.minNs ns = true := by
    intro y hy
    obtain ⟨sh, hsh, rfl⟩ := List.mem_map.mp hy
    have := hAcross sh.ns (List.mem_map.mpr ⟨sh, hsh, rfl⟩) b0.ns (List.mem_append_left _ hmemB)
    rw [hb0ns] at this; exact this
  have hR : ∀ y ∈ (shares.drop en).map (Share.leafHash H), leB ns y.minNs = true := by
    intro y hy
    obtain ⟨sh, hsh, rfl⟩ := List.mem_map.mp hy
    have := hBcross b0.ns hmemB sh.ns (List.mem_map.mpr ⟨sh, hsh, rfl⟩)
    rw [hb0ns] at this; exact this
  rw [List.map_take] at hA; rw [List.map_drop] at hR
  have hleafAll : ∀ y ∈ shares.map (Share.leafHash H), LeafNs y := by
    intro y hy; obtain ⟨sh, hsh, rfl⟩ := List.mem_map.mp hy; exact ⟨rfl, hnsl sh hsh⟩
  have hsortAll : SortedNs (shares.map (Share.leafHash H)) := by
    unfold SortedNs; rw [List.pairwise_map]
    unfold SortedBy at hsort; rw [List.pairwise_map] at hsort
    exact hsort
  have hsub : ((shares.map (Share.leafHash H)).take s ++ (shares.map (Share.leafHash H)).drop en).Sublist
      (shares.map (Share.leafHash H)) := by
    have h2 : (shares.map (Share.leafHash H)).drop en = ((shares.map (Share.leafHash H)).drop s).drop (en - s) := by
      rw [List.drop_drop]; congr 1; omega
    have : (shares.map (Share.leafHash H)) = (shares.map (Share.leafHash H)).take s ++ (shares.map (Share.leafHash H)).drop s :=
      (List.take_append_drop _ _).symm
    conv => rhs; rw [this]
    rw [h2]
    exact List.Sublist.append (List.Sublist.refl _) (List.drop_sublist _ _)
  have hvs : validateShape ⟨s, en, pl ++ pr, true, false, none⟩ ns ns = .ok () :=
    validateShape_honest_multi (fun y hy => hleafAll y (hsub.subset hy)) (hsortAll.sublist hsub) hsl hsr rfl hpl hA hR
  unfold Lumina.Model.Decoders.safeVerifyRange
  rw [decodersValidateShape_of_ok hvs]
  simp only [Bool.not_true, Bool.false_eq_true, ↓reduceIte]
  unfold verifyRange
  simp only [Bool.false_eq_true, ↓reduceIte, List.length_map, hBlen, NsProof.rangeLen, ne_eq, not_true_eq_false]
  have hX : (((shares.drop s).take (en - s)).map Share.data).map (hashLeaf H ns) =
      ((shares.map (Share.leafHash H)).drop s).take (en - s) := by
    rw [List.map_map, ← List.map_drop, ← List.map_take]
    apply List.map_congr_left
    intro sh hsh
    show hashLeaf H ns sh.data = hashLeaf H sh.ns sh.data
    rw [hall sh hsh]
  rw [hX]
  exact hchk

/-- **the honest per-row construction succeeds and both loops of `ShareProof::verify` accept it** -/
theorem buildLoop_ok {D : Type} [DecidableEq D] (H : HashFns D) {h : HashFn} (hl : HashLen h) {e : Eds} {dah : Dah}
    (hd : Dah.ofEds h e = .ok dah) (hsz : ∀ sh ∈ e.shares, NS_SIZE ≤ sh.data.length) (hw : e.width ≤ 65535) (ns : Bytes) :
    ∀ (ranges : List (Nat × Nat)) (row : Nat) (rs : List Bytes) (mps : List (ProofObs D)),
      row + ranges.length ≤ e.width → rs.length = ranges.length →
      pathsOk H dah.allRootsBytes row rs mps = true →
      (∀ i s en shares, ranges[i]? = some (s, en) → e.row? (row + i) = some shares →
        s < en ∧ en ≤ e.width ∧ ∀ sh ∈ (shares.drop s).take (en - s), sh.ns = ns) →
      ∃ d ps, buildLoop h e row ranges = .ok (d, ps) ∧ ps.length = ranges.length ∧
        d.length ≤ ranges.length * e.width ∧
        (∀ acc, acc + d.length ≤ u32Max → sharesNeeded acc ps = .ok (acc + d.length)) ∧
        rangeLoop h ns d ps rs = .ok := by
  intro ranges
  induction ranges with
  | nil =>
    intro row rs mps _ hrl _ _
    have : rs = [] := List.eq_nil_of_length_eq_zero (by simpa using hrl)
    subst this
    exact ⟨[], [], rfl, rfl, by simp, fun acc _ => by simp [sharesNeeded], by simp [rangeLoop]⟩
  | cons rg rest ih =>
    intro row rs mps hrow hrl hpo hrg
    obtain ⟨s, en⟩ := rg
    obtain ⟨r, rs', rfl⟩ : ∃ r rs', rs = r :: rs' := by
      cases rs with
      | nil => simp at hrl
      | cons a t => exact ⟨a, t, rfl⟩
    simp only [List.length_cons] at hrow hrl
    have hroww : row < e.width := by omega
    -- the row and its root
    obtain ⟨hrlen, _, hrows, _⟩ := dah_ofEds_roots hd
    obtain ⟨root, hroot, hget⟩ := hrows row hroww
    obtain ⟨shares, hax, hcr, halh⟩ := axisRoot_ok hroot
    obtain ⟨hslen, hsget⟩ := axis?_some hax
    have hmem : ∀ x ∈ shares, x ∈ e.shares := by
      intro x hx
      obtain ⟨n, hn, rfl⟩ := List.getElem_of_mem hx
      obtain ⟨y, hy1, hy2⟩ := hsget n (by omega)
      rw [List.getElem?_eq_getElem hn] at hy2
      injection hy2 with hy2
      rw [hy2]
      exact List.mem_of_getElem? hy1
    have hnsl : ∀ sh ∈ shares, sh.ns.length = NS_SIZE := fun sh hsh => share_ns_length (hsz sh (hmem sh hsh))
    have hpush : pushLeaves h (shares.map Share.leaf) = some (shares.map (Share.leafHash h)) := by
      have := halh
      unfold Eds.axisLeafHashes at this
      simp only [hax] at this
      cases hp : pushLeaves h (shares.map Share.leaf) with
      | none => simp [hp] at this
      | some v => simp only [hp, Except.ok.injEq] at this; rw [this]
    have hsort : SortedBy Share.ns shares := by
      unfold pushLeaves at hpush
      split at hpush
      · rename_i hok
        have := (pushOrderOk_sorted _ _ hok).1
        unfold SortedBy
        simpa [List.map_map, Share.leaf, Function.comp_def] using this
      · cases hpush
    obtain ⟨hse, hen, hall⟩ := hrg 0 s en shares rfl (by simpa [Eds.row?] using hax)
    obtain ⟨sibs, hbr, hvr⟩ := rowRange_verifies (H := h) (by omega) hsort hnsl hcr hse (by omega) hall
    -- the rest
    cases mps with
    | nil => simp [pathsOk] at hpo
    | cons mp mps' =>
      simp only [pathsOk, Bool.and_eq_true, beq_iff_eq] at hpo
      obtain ⟨⟨⟨⟨⟨_, _⟩, hall_r⟩, _⟩, _⟩, hpo'⟩ := hpo
      obtain ⟨d', ps', hbl, hpsl, hdl, hsn, hrl'⟩ := ih (row + 1) rs' mps' (by omega) (by omega) hpo'
        (by
          intro i s' en' shares' hi hrow'
          have e1 : row + 1 + i = row + (i + 1) := by omega
          rw [e1] at hrow'
          exact hrg (i + 1) s' en' shares' (by simpa using hi) hrow')
      have hBlen : (((shares.drop s).take (en - s)).map Share.data).length = en - s := by
        rw [List.length_map, List.length_take, List.length_drop]; omega
      refine ⟨((shares.drop s).take (en - s)).map Share.data ++ d', ⟨s, en, sibs, true, false, none⟩ :: ps', ?_, ?_, ?_, ?_, ?_⟩
      · unfold buildLoop
        simp only [halh, Eds.row?, hax, hbr, hbl]
      · simp [hpsl]
      · rw [List.length_append, hBlen, List.length_cons, Nat.add_mul, Nat.one_mul]; omega
      · intro acc hacc
        rw [List.length_append, hBlen] at hacc
        unfold sharesNeeded
        have c2 : ¬ (en ≤ s) := by omega
        have h3264 : u32Max ≤ u64Max := by decide
        have c3 : ¬ (u64Max < acc + (en - s)) := by omega
        simp only [Bool.false_eq_true, ↓reduceIte, c2, c3]
        rw [hsn (acc + (en - s)) (by omega), List.length_append, hBlen]
        congr 1; omega
      · unfold rangeLoop
        have c1 : ¬ ((((shares.drop s).take (en - s)).map Share.data ++ d').length < en - s) := by
          rw [List.length_append, hBlen]; omega
        simp only [c1, ↓reduceIte]
        -- the root bytes
        have hr : r = root.toBytes := by
          unfold Dah.allRootsBytes at hall_r
          rw [List.getElem?_map, List.getElem?_append_left (by omega), hget] at hall_r
          simpa using hall_r.symm
        have al : ∀ x ∈ shares.map (Share.leafHash h), x.WF := by
          intro x hx
          obtain ⟨y, hy, rfl⟩ := List.mem_map.mp hx
          exact hashLeaf_WF hl (hnsl y hy)
        have wroot : root.WF := computeRoot_WF hl al hcr
        rw [hr, ofBytes_toBytes wroot]
        simp only
        rw [List.take_left' hBlen, hvr]
        simp only
        rw [List.drop_left' hBlen]
        exact hrl'

end Lumina.Proofs.NmtMulti

/-
  Lemmas for C10: the sequential macro body (`hashBlock`) against the declarative conjunction (`Kind.allowed`).
  Owner: group D2.
-/
import Lumina.Model.ShwapHasher

namespace Lumina.Proofs.ShwapHasher
open Lumina.Util Lumina.Model.Nmt Lumina.Model.Eds Lumina.Model.ShwapId Lumina.Model.Decoders Lumina.Model.ShwapHasher
open Lumina.Spec.C10 (allows)

/-- the macro body never reports `UnknownMultihashCode`; it yields `h` exactly when the conjunction holds with
    identifier hash `h`; a reported error means the conjunction fails -/
theorem hashBlock_cases {Id C : Type} (K : Kind Id C) (db : Bytes → Option (Bytes × Bytes)) (store : Nat → Option Dah)
    (input : Bytes) :
    (∃ h, hashBlock K db store input = .ok h ∧ K.allowed db store input = some h) ∨
    (hashBlock K db store input = .error .fatal ∧ K.allowed db store input = none) ∨
    (hashBlock K db store input = .error .panic ∧ K.allowed db store input = none) := by
  unfold hashBlock Kind.allowed allows
  cases hdb : db input with
  | none => simp
  | some blk =>
    obtain ⟨cidB, cont⟩ := blk
    simp only
    cases hcid : Cid.read cidB with
    | none => simp
    | some cid =>
      simp only [Option.bind_some]
      cases hid : K.ofCid cid with
      | error e => simp [Except.toOption]
      | ok id =>
        simp only [Except.toOption]
        cases hdec : K.decode id cont with
        | err => simp [outOpt]
        | panic s => simp [outOpt]
        | ok c =>
          simp only [outOpt]
          cases hst : store (K.height id) with
          | none => simp
          | some dah =>
            simp only
            cases hv : K.verify c id dah with
            | err => simp [outOk]
            | panic s => simp [outOk]
            | ok u => simp [outOk]

/-- the dispatch on the multihash code: which macro instantiation runs -/
theorem dispatch (H : HashFn) (P : Params) (store : Nat → Option Dah) (code : Nat) (input : Bytes)
    (hk : knownCode code = true) :
    (multihash H P store code input = hashBlock (rowKind H P) P.decodeBlock store input ∧
      allowed H P store code input = (rowKind H P).allowed P.decodeBlock store input) ∨
    (multihash H P store code input = hashBlock (rndKind H P) P.decodeBlock store input ∧
      allowed H P store code input = (rndKind H P).allowed P.decodeBlock store input) ∨
    (multihash H P store code input = hashBlock (sampleKind H P) P.decodeBlock store input ∧
      allowed H P store code input = (sampleKind H P).allowed P.decodeBlock store input) := by
  unfold knownCode at hk
  by_cases h1 : code = Lumina.Gen.C15.ROW_ID_MULTIHASH_CODE
  · exact Or.inl ⟨by unfold multihash; rw [if_pos h1], by unfold allowed; rw [if_pos h1]⟩
  · by_cases h2 : code = Lumina.Gen.C15.ROW_NAMESPACE_DATA_ID_MULTIHASH_CODE
    · exact Or.inr (Or.inl ⟨by unfold multihash; rw [if_neg h1, if_pos h2], by unfold allowed; rw [if_neg h1, if_pos h2]⟩)
    · have h3 : code = Lumina.Gen.C15.SAMPLE_ID_MULTIHASH_CODE := by simpa [h1, h2] using hk
      exact Or.inr (Or.inr ⟨by unfold multihash; rw [if_neg h1, if_neg h2, if_pos h3],
        by unfold allowed; rw [if_neg h1, if_neg h2]⟩)

end Lumina.Proofs.ShwapHasher

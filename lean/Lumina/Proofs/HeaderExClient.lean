/-
  Lemmas about the header-ex client model (used by Props/C28 and Props/C27).
-/
import Lumina.Model.HeaderExClient
import Lumina.Model.HeaderExClientView

namespace Lumina.Proofs.HeaderExClient
open Lumina.Model.HeaderExClient

/-- validated OK entries of a response list, in order -/
def validated (resps : List Resp) : List Hdr :=
  resps.filterMap (fun r => if r.status = 1 then r.decoded else none)

theorem toValidated_ok (r : Resp) (h : Hdr) :
    toValidated r = .ok h ↔ r.status = 1 ∧ r.decoded = some h := by
  unfold toValidated
  by_cases h1 : r.status = 1
  · simp only [h1, ↓reduceIte, true_and]
    cases r.decoded <;> simp
  · simp only [h1, ↓reduceIte, false_and, iff_false]
    split <;> simp

theorem validated_cons_ok (r : Resp) (rs : List Resp) (h : Hdr) (hv : toValidated r = .ok h) :
    validated (r :: rs) = h :: validated rs := by
  obtain ⟨h1, h2⟩ := (toValidated_ok r h).mp hv
  simp [validated, List.filterMap_cons, h1, h2]

theorem mem_validated_cons (r : Resp) (rs : List Resp) (x : Hdr) (hx : x ∈ validated rs) :
    x ∈ validated (r :: rs) := by
  simp only [validated, List.filterMap_cons] at hx ⊢
  split
  · exact hx
  · exact List.mem_cons_of_mem _ hx

/-- what the decoding loop returns -/
theorem decodeLoop_ok (resps : List Resp) :
    ∀ (acc hs : List Hdr), decodeLoop resps acc = .ok hs →
      ∃ more, hs = acc ++ more ∧ (∀ h ∈ more, h ∈ validated resps) ∧ more.length ≤ resps.length ∧
        (acc = [] → resps ≠ [] → more ≠ []) := by
  induction resps with
  | nil =>
    intro acc hs h
    simp only [decodeLoop, Except.ok.injEq] at h
    exact ⟨[], by simp [h], by simp, by simp, by simp⟩
  | cons r rs ih =>
    intro acc hs h
    simp only [decodeLoop] at h
    cases hv : toValidated r with
    | ok x =>
      rw [hv] at h
      obtain ⟨more, h1, h2, h3, _⟩ := ih (acc ++ [x]) hs h
      refine ⟨x :: more, by simp [h1], ?_, by simp; omega, by simp⟩
      intro y hy
      rw [validated_cons_ok r rs x hv]
      simp only [List.mem_cons] at hy ⊢
      rcases hy with rfl | hy
      · exact Or.inl rfl
      · exact Or.inr (h2 y hy)
    | error e =>
      rw [hv] at h
      simp only at h
      by_cases hacc : acc.isEmpty
      · simp [hacc] at h
      · simp only [hacc, Bool.false_eq_true, ↓reduceIte, Except.ok.injEq] at h
        refine ⟨[], by simp [h], by simp, by simp, ?_⟩
        intro h0; simp [h0] at hacc

/-- on an all-OK, all-validated list the loop returns everything -/
theorem decodeLoop_all (resps : List Resp) (hall : ∀ r ∈ resps, r.status = 1 ∧ r.decoded.isSome = true) :
    ∀ acc, decodeLoop resps acc = .ok (acc ++ validated resps) := by
  induction resps with
  | nil => intro acc; simp [decodeLoop, validated]
  | cons r rs ih =>
    intro acc
    obtain ⟨h1, h2⟩ := hall r (by simp)
    obtain ⟨x, hx⟩ := Option.isSome_iff_exists.mp h2
    have hv : toValidated r = .ok x := (toValidated_ok r x).mpr ⟨h1, hx⟩
    simp only [decodeLoop, hv]
    rw [ih (fun r' hr' => hall r' (List.mem_cons_of_mem _ hr')) (acc ++ [x]), validated_cons_ok r rs x hv]
    simp

theorem insertByHeight_perm (h : Hdr) (l : List Hdr) : (insertByHeight h l).Perm (h :: l) := by
  induction l with
  | nil => exact List.Perm.refl _
  | cons x xs ih =>
    simp only [insertByHeight]
    split
    · exact List.Perm.refl _
    · exact (List.Perm.cons x ih).trans (List.Perm.swap h x xs)

theorem sortByHeight_perm (l : List Hdr) : (sortByHeight l).Perm l := by
  induction l with
  | nil => exact List.Perm.refl _
  | cons x xs ih => exact (insertByHeight_perm x _).trans (List.Perm.cons x ih)

/-- an already ascending list is left alone -/
theorem sortByHeight_id (l : List Hdr) (h : l.Pairwise (fun a b => a.height ≤ b.height)) :
    sortByHeight l = l := by
  induction l with
  | nil => rfl
  | cons x xs ih =>
    rw [List.pairwise_cons] at h
    simp only [sortByHeight, ih h.2]
    cases xs with
    | nil => rfl
    | cons y ys => simp [insertByHeight, h.1 y (by simp)]

theorem heightsMatchFrom_sound (hs : List Hdr) :
    ∀ start, heightsMatchFrom start hs = true → hs.map (·.height) = List.range' start hs.length := by
  induction hs with
  | nil => intro _ _; rfl
  | cons h hs ih =>
    intro start hm
    simp only [heightsMatchFrom, Bool.and_eq_true, decide_eq_true_eq] at hm
    simp only [List.map_cons, List.length_cons, List.range'_succ, hm.1.2, ih (start + 1) hm.2]

theorem heightsMatchFrom_complete (hs : List Hdr) (hfit : ∀ h ∈ hs, h.height ≤ U64_MAX) :
    ∀ start, hs.map (·.height) = List.range' start hs.length → heightsMatchFrom start hs = true := by
  induction hs with
  | nil => intro _ _; rfl
  | cons h hs ih =>
    intro start hm
    simp only [List.map_cons, List.length_cons, List.range'_succ, List.cons.injEq] at hm
    have := hfit h (by simp)
    simp only [heightsMatchFrom, Bool.and_eq_true, decide_eq_true_eq]
    exact ⟨⟨by omega, hm.1⟩, ih (fun x hx => hfit x (List.mem_cons_of_mem _ hx)) (start + 1) hm.2⟩

theorem range'_heights_ascending (hs : List Hdr) (start : Nat)
    (h : hs.map (·.height) = List.range' start hs.length) :
    hs.Pairwise (fun a b => a.height ≤ b.height) := by
  have : (hs.map (·.height)).Pairwise (· < ·) := by rw [h]; exact List.pairwise_lt_range'
  rw [List.pairwise_map] at this
  exact this.imp (fun hab => Nat.le_of_lt hab)

end Lumina.Proofs.HeaderExClient

/-
  Lemmas about the header-ex client model (used by Props/C28 and Props/C27).
-/
import Lumina.Model.HeaderExClient
import Lumina.Model.HeaderExClientView

namespace Lumina.Proofs.HeaderExClient
open Lumina.Model.HeaderExClient

/-- validated OK entries of a response list, in order -/
def validated (resps : List Resp) : List Hdr :=
  resps.filterMap (fun r => if r.status = 1 then r.decoded else none)

theorem toValidated_ok (r : Resp) (h : Hdr) :
    toValidated r = .ok h ↔ r.status = 1 ∧ r.decoded = some h := by
  unfold toValidated
  by_cases h1 : r.status = 1
  · simp only [h1, ↓reduceIte, true_and]
    cases r.decoded <;> simp
  · simp only [h1, ↓reduceIte, false_and, iff_false]
    split <;> simp

theorem validated_cons_ok (r : Resp) (rs : List Resp) (h : Hdr) (hv : toValidated r = .ok h) :
    validated (r :: rs) = h :: validated rs := by
  obtain ⟨h1, h2⟩ := (toValidated_ok r h).mp hv
  simp [validated, List.filterMap_cons, h1, h2]

theorem mem_validated_cons (r : Resp) (rs : List Resp) (x : Hdr) (hx : x ∈ validated rs) :
    x ∈ validated (r :: rs) := by
  simp only [validated, List.filterMap_cons] at hx ⊢
  split
  · exact hx
  · exact List.mem_cons_of_mem _ hx

/-- what the decoding loop returns -/
theorem decodeLoop_ok (resps : List Resp) :
    ∀ (acc hs : List Hdr), decodeLoop resps acc = .ok hs →
      ∃ more, hs = acc ++ more ∧ (∀ h ∈ more, h ∈ validated resps) ∧ more.length ≤ resps.length ∧
        (acc = [] → resps ≠ [] → more ≠ []) := by
  induction resps with
  | nil =>
    intro acc hs h
    simp only [decodeLoop, Except.ok.injEq] at h
    exact ⟨[], by simp [h], by simp, by simp, by simp⟩
  | cons r rs ih =>
    intro acc hs h
    simp only [decodeLoop] at h
    cases hv : toValidated r with
    | ok x =>
      rw [hv] at h
      obtain ⟨more, h1, h2, h3, _⟩ := ih (acc ++ [x]) hs h
      refine ⟨x :: more, by simp [h1], ?_, by simp; omega, by simp⟩
      intro y hy
      rw [validated_cons_ok r rs x hv]
      simp only [List.mem_cons] at hy ⊢
      rcases hy with rfl | hy
      · exact Or.inl rfl
      · exact Or.inr (h2 y hy)
    | error e =>
      rw [hv] at h
      simp only at h
      by_cases hacc : acc.isEmpty
      · simp [hacc] at h
      · simp only [hacc, Bool.false_eq_true, ↓reduceIte, Except.ok.injEq] at h
        refine ⟨[], by simp [h], by simp, by simp, ?_⟩
        intro h0; simp [h0] at hacc

/-- on an all-OK, all-validated list the loop returns everything -/
theorem decodeLoop_all (resps : List Resp) (hall : ∀ r ∈ resps, r.status = 1 ∧ r.decoded.isSome = true) :
    ∀ acc, decodeLoop resps acc = .ok (acc ++ validated resps) := by
  induction resps with
  | nil => intro acc; simp [decodeLoop, validated]
  | cons r rs ih =>
    intro acc
    obtain ⟨h1, h2⟩ := hall r (by simp)
    obtain ⟨x, hx⟩ := Option.isSome_iff_exists.mp h2
    have hv : toValidated r = .ok x := (toValidated_ok r x).mpr ⟨h1, hx⟩
    simp only [decodeLoop, hv]
    rw [ih (fun r' hr' => hall r' (List.mem_cons_of_mem _ hr')) (acc ++ [x]), validated_cons_ok r rs x hv]
    simp

theorem insertByHeight_perm (h : Hdr) (l : List Hdr) : (insertByHeight h l).Perm (h :: l) := by
  induction l with
  | nil => exact List.Perm.refl _
  | cons x xs ih =>
    simp only [insertByHeight]
    split
    · exact List.Perm.refl _
    · exact (List.Perm.cons x ih).trans (List.Perm.swap h x xs)

theorem sortByHeight_perm (l : List Hdr) : (sortByHeight l).Perm l := by
  induction l with
  | nil => exact List.Perm.refl _
  | cons x xs ih => exact (insertByHeight_perm x _).trans (List.Perm.cons x ih)

/-- an already ascending list is left alone -/
theorem sortByHeight_id (l : List Hdr) (h : l.Pairwise (fun a b => a.height ≤ b.height)) :
    sortByHeight l = l := by
  induction l with
  | nil => rfl
  | cons x xs ih =>
    rw [List.pairwise_cons] at h
    simp only [sortByHeight, ih h.2]
    cases xs with
    | nil => rfl
    | cons y ys => simp [insertByHeight, h.1 y (by simp)]

theorem heightsMatchFrom_sound (hs : List Hdr) :
    ∀ start, heightsMatchFrom start hs = true → hs.map (·.height) = List.range' start hs.length := by
  induction hs with
  | nil => intro _ _; rfl
  | cons h hs ih =>
    intro start hm
    simp only [heightsMatchFrom, Bool.and_eq_true, decide_eq_true_eq] at hm
    simp only [List.map_cons, List.length_cons, List.range'_succ, hm.1.2, ih (start + 1) hm.2]

theorem heightsMatchFrom_complete (hs : List Hdr) (hfit : ∀ h ∈ hs, h.height ≤ U64_MAX) :
    ∀ start, hs.map (·.height) = List.range' start hs.length → heightsMatchFrom start hs = true := by
  induction hs with
  | nil => intro _ _; rfl
  | cons h hs ih =>
    intro start hm
    simp only [List.map_cons, List.length_cons, List.range'_succ, List.cons.injEq] at hm
    have := hfit h (by simp)
    simp only [heightsMatchFrom, Bool.and_eq_true, decide_eq_true_eq]
    exact ⟨⟨by omega, hm.1⟩, ih (fun x hx => hfit x (List.mem_cons_of_mem _ hx)) (start + 1) hm.2⟩

theorem range'_heights_ascending (hs : List Hdr) (start : Nat)
    (h : hs.map (·.height) = List.range' start hs.length) :
    hs.Pairwise (fun a b => a.height ≤ b.height) := by
  have : (hs.map (·.height)).Pairwise (· < ·) := by rw [h]; exact List.pairwise_lt_range'
  rw [List.pairwise_map] at this
  exact this.imp (fun hab => Nat.le_of_lt hab)

/-! ### response-level lemmas (strict reading of C28) -/

/-- entry is OK and its body validated -/
def goodB (r : Resp) : Bool := decide (r.status = 1) && r.decoded.isSome

theorem toValidated_of_good (r : Resp) (h : goodB r = true) : ∃ x, toValidated r = .ok x := by
  simp only [goodB, Bool.and_eq_true, decide_eq_true_eq] at h
  obtain ⟨x, hx⟩ := Option.isSome_iff_exists.mp h.2
  exact ⟨x, (toValidated_ok r x).mpr ⟨h.1, hx⟩⟩

theorem toValidated_of_bad (r : Resp) (h : goodB r = false) : ∃ e, toValidated r = .error e := by
  cases hv : toValidated r with
  | error e => exact ⟨e, rfl⟩
  | ok x =>
    obtain ⟨h1, h2⟩ := (toValidated_ok r x).mp hv
    simp [goodB, h1, h2] at h

/-- with something already decoded the loop returns the maximal good prefix -/
theorem decodeLoop_prefix (resps : List Resp) :
    ∀ acc, acc ≠ [] → decodeLoop resps acc = .ok (acc ++ validated (resps.takeWhile goodB)) := by
  induction resps with
  | nil => intro acc _; simp [decodeLoop, validated]
  | cons r rs ih =>
    intro acc hacc
    by_cases hg : goodB r = true
    · obtain ⟨x, hx⟩ := toValidated_of_good r hg
      simp only [decodeLoop, hx, List.takeWhile_cons, hg, ↓reduceIte]
      rw [ih (acc ++ [x]) (by simp), validated_cons_ok r _ x hx]
      simp
    · have hg' : goodB r = false := by simpa using hg
      obtain ⟨e, he⟩ := toValidated_of_bad r hg'
      have : acc.isEmpty = false := by
        cases acc with
        | nil => exact absurd rfl hacc
        | cons _ _ => rfl
      simp [decodeLoop, he, this, List.takeWhile_cons, hg', validated]

/-- from scratch: the maximal good prefix if the first entry is good, the first entry's error
    otherwise -/
theorem decodeLoop_first_good (r : Resp) (rs : List Resp) (hg : goodB r = true) :
    decodeLoop (r :: rs) [] = .ok (validated ((r :: rs).takeWhile goodB)) := by
  obtain ⟨x, hx⟩ := toValidated_of_good r hg
  simp only [decodeLoop, hx, List.nil_append, List.takeWhile_cons, hg, ↓reduceIte]
  rw [decodeLoop_prefix rs [x] (by simp), validated_cons_ok r _ x hx]
  simp

theorem decodeLoop_first_bad (r : Resp) (rs : List Resp) (hg : goodB r = false) :
    ∃ e, decodeLoop (r :: rs) [] = .error e := by
  obtain ⟨e, he⟩ := toValidated_of_bad r hg
  exact ⟨e, by simp [decodeLoop, he]⟩

theorem takeWhile_all_good (resps : List Resp) : ∀ r ∈ resps.takeWhile goodB, goodB r = true := by
  induction resps with
  | nil => intro r hr; simp at hr
  | cons x xs ih =>
    intro r hr
    by_cases hx : goodB x = true
    · simp only [List.takeWhile_cons, hx, ↓reduceIte, List.mem_cons] at hr
      rcases hr with rfl | hr
      · exact hx
      · exact ih r hr
    · simp [List.takeWhile_cons, hx] at hr

theorem mem_of_mem_takeWhile (resps : List Resp) : ∀ r ∈ resps.takeWhile goodB, r ∈ resps := by
  induction resps with
  | nil => intro r hr; simp at hr
  | cons x xs ih =>
    intro r hr
    by_cases hx : goodB x = true
    · simp only [List.takeWhile_cons, hx, ↓reduceIte, List.mem_cons] at hr ⊢
      rcases hr with rfl | hr
      · exact Or.inl rfl
      · exact Or.inr (ih r hr)
    · simp [List.takeWhile_cons, hx] at hr

theorem takeWhile_eq_self_of_all (resps : List Resp) (h : ∀ r ∈ resps, goodB r = true) :
    resps.takeWhile goodB = resps := by
  induction resps with
  | nil => rfl
  | cons x xs ih =>
    have hx := h x (by simp)
    simp only [List.takeWhile_cons, hx, ↓reduceIte]
    rw [ih (fun r hr => h r (List.mem_cons_of_mem _ hr))]

theorem takeWhile_length_le (resps : List Resp) : (resps.takeWhile goodB).length ≤ resps.length := by
  induction resps with
  | nil => simp
  | cons x xs ih =>
    by_cases hx : goodB x = true
    · simp only [List.takeWhile_cons, hx, ↓reduceIte, List.length_cons]; omega
    · simp [List.takeWhile_cons, hx]

/-- a response whose good prefix is non-empty and that is not oversized is treated exactly like
    its good prefix -/
theorem decode_prefix (fixed : Bool) (req : Request) (resps : List Resp)
    (hp : resps.takeWhile goodB ≠ []) (hlen : resps.length ≤ req.amount) :
    decodeAndVerifyG fixed req resps = decodeAndVerifyG fixed req (resps.takeWhile goodB) := by
  cases resps with
  | nil => simp at hp
  | cons r rs =>
    have hg : goodB r = true := by
      by_cases h : goodB r = true
      · exact h
      · simp [List.takeWhile_cons, h] at hp
    have h1 := decodeLoop_first_good r rs hg
    -- the prefix, decoded on its own
    have hpl : ((r :: rs).takeWhile goodB).length ≤ (r :: rs).length := takeWhile_length_le _
    have h2 : decodeLoop ((r :: rs).takeWhile goodB) [] = .ok (validated ((r :: rs).takeWhile goodB)) := by
      have := decodeLoop_all ((r :: rs).takeWhile goodB)
        (by
          intro x hx
          have := takeWhile_all_good (r :: rs) x hx
          simpa [goodB] using this) []
      simpa using this
    have e1 : (r :: rs).isEmpty = false := rfl
    have e2 : ((r :: rs).takeWhile goodB).isEmpty = false := by
      cases h : (r :: rs).takeWhile goodB with
      | nil => exact absurd h hp
      | cons _ _ => rfl
    have l1 : ¬ (r :: rs).length > req.amount := by omega
    have l2 : ¬ ((r :: rs).takeWhile goodB).length > req.amount := by omega
    simp only [decodeAndVerifyG, e1, e2, Bool.false_eq_true, ↓reduceIte, l1, l2, h1, h2]

theorem sortH_eq (l : List Hdr) : Lumina.Spec.C28.sortH (·.height) l = sortByHeight l := by
  have hi : ∀ (h : Hdr) (l : List Hdr), Lumina.Spec.C28.insertH (·.height) h l = insertByHeight h l := by
    intro h l
    induction l with
    | nil => rfl
    | cons x xs ih => simp only [Lumina.Spec.C28.insertH, insertByHeight, ih]
  induction l with
  | nil => rfl
  | cons x xs ih => simp only [Lumina.Spec.C28.sortH, sortByHeight, ih, hi]

/-- what an `Ok` of the acceptance function is made of -/
theorem ok_sorted (req : Request) (resps : List Resp) (hs : List Hdr)
    (h : decodeAndVerify req resps = .ok hs) :
    resps.length ≤ req.amount ∧ ∃ headers, decodeLoop resps [] = .ok headers ∧ hs = sortByHeight headers := by
  unfold decodeAndVerify decodeAndVerifyG at h
  split at h
  · cases h
  · split at h
    · cases h
    · rename_i hl
      refine ⟨by omega, ?_⟩
      split at h
      · cases h
      · rename_i headers hd
        refine ⟨headers, hd, ?_⟩
        dsimp only at h
        split at h
        · split at h
          · split at h
            · injection h with h; exact h.symm
            · cases h
          · split at h
            · cases h
            · simp only [↓reduceIte] at h
              split at h
              · injection h with h; exact h.symm
              · cases h
        · split at h
          · split at h
            · injection h with h; exact h.symm
            · cases h
          · cases h
        · cases h


end Lumina.Proofs.HeaderExClient

/-
  C10 inherits the containers' soundness: a sample block accepted by the multihasher carries the share at the
  coordinates of its CID in the square committed by the stored header at the CID's height.

  The position-binding lemma is group D's `Proofs/Sample.lean: axis_leaf_bound_on` (collision-freeness relative to the
  hashed inputs); `decodedSample` names the sample the hash hypothesis of `mh_sample_sound` is relative to.
  Owner: group D2.
-/
import Lumina.Proofs.Eds
import Lumina.Proofs.Sample
import Lumina.Proofs.ShwapHasher

namespace Lumina.Proofs.ShwapSound
open Lumina.Util Lumina.Model.Nmt Lumina.Model.Eds Lumina.Model.ShwapId Lumina.Model.Decoders Lumina.Model.ShwapHasher
open Lumina.Proofs.Nmt Lumina.Proofs.Eds

theorem share_ns_length {sh : Share} (h : NS_SIZE ≤ sh.data.length) : sh.ns.length = NS_SIZE := by
  unfold Share.ns
  split
  · simp [parityNs, maxNsId]
  · simp [List.length_take]; omega

/-- the sample a block carries for the multihasher: identifier from the block's CID, container decoded for it
    (`none` when one of the decoding steps fails) -/
def decodedSample (P : Params) (input : Bytes) : Option (SampleId × Lumina.Model.Sample.Sample) :=
  match P.decodeBlock input with
  | none => none
  | some (cidB, cont) =>
    match Cid.read cidB with
    | none => none
    | some cid =>
      match SampleId.ofCid cid with
      | .error _ => none
      | .ok id =>
        match P.decodeSample cont with
        | none => none
        | some raw =>
          match sampleFromRaw id.row.index id.column raw with
          | .ok s => some (id, s)
          | _ => none

theorem ofBytes?_WF {b : Bytes} {h : NsHash} (e : NsHash.ofBytes? b = some h) : h.WF := by
  unfold NsHash.ofBytes? at e
  split at e
  · rename_i hl
    injection e with e
    subst e
    simp only [NsHash.WF, NAMESPACED_HASH_SIZE, NS_SIZE, HASH_LEN] at hl ⊢
    simp [List.length_take, List.length_drop]; omega
  · cases e

theorem parseNodes_WF : ∀ {l : List Bytes} {hs : List NsHash}, parseNodes l = some hs → ∀ p ∈ hs, p.WF
  | [], hs, e, p, hp => by simp [parseNodes] at e; subst e; simp at hp
  | b :: rest, hs, e, p, hp => by
    simp only [parseNodes] at e
    cases h1 : NsHash.ofBytes? b with
    | none => simp [h1] at e
    | some h =>
      cases h2 : parseNodes rest with
      | none => simp [h1, h2] at e
      | some t =>
        simp only [h1, h2, Option.some.injEq] at e
        subst e
        rcases List.mem_cons.mp hp with rfl | hp
        · exact ofBytes?_WF h1
        · exact parseNodes_WF h2 p hp

theorem ofRaw_WF {st en : Nat} {nodes : List Bytes} {leaf : Bytes} {ign : Bool} {q : NsProof}
    (e : NsProof.ofRaw st en nodes leaf ign = some q) : ∀ p ∈ q.siblings, p.WF := by
  unfold NsProof.ofRaw at e
  cases hp : parseNodes nodes with
  | none => simp [hp] at e
  | some sibs =>
    simp only [hp] at e
    split at e
    · injection e with e; subst e; exact parseNodes_WF hp
    · cases hl : NsHash.ofBytes? leaf with
      | none => simp [hl] at e
      | some lf => simp only [hl, Option.some.injEq] at e; subst e; exact parseNodes_WF hp

/-- a decoded sample carries a 512-byte share and well-formed proof nodes -/
theorem sampleFromRaw_ok {row col : Nat} {raw : RawSample} {s : Lumina.Model.Sample.Sample}
    (e : sampleFromRaw row col raw = .ok s) : s.share.data.length = SHARE_SIZE ∧ ∀ p ∈ s.proof.siblings, p.WF := by
  unfold sampleFromRaw sampleFromRawWith at e
  cases hp : raw.proof with
  | none => simp [hp] at e
  | some rp =>
    simp only [hp] at e
    unfold proofFromRaw at e
    cases ho : NsProof.ofRaw rp.start rp.end_ rp.nodes rp.leafHash rp.ign with
    | none => simp [ho, Out.bind] at e
    | some proof =>
      simp only [ho, Out.bind] at e
      cases hax : axisOfI32 raw.proofType with
      | none => simp [hax] at e
      | some ax =>
        simp only [hax] at e
        split at e
        · cases e
        · cases hsh : raw.share with
          | none => simp [hsh] at e
          | some data =>
            simp only [hsh] at e
            cases ht : totalLeaves proof with
            | none => simp [ht] at e
            | some sz =>
              simp only [ht, sampleFinish] at e
              split at e
              · cases e
              · rename_i share hshare
                injection e with e
                subst e
                refine ⟨?_, ofRaw_WF ho⟩
                simp only
                split at hshare
                · unfold Lumina.Model.Sample.shareFromRaw at hshare
                  split at hshare
                  · cases hshare
                  · rename_i hl
                    split at hshare
                    · cases hshare
                    · injection hshare with hshare; subst hshare; simpa using hl
                · unfold Lumina.Model.Sample.shareParity at hshare
                  split at hshare
                  · cases hshare
                  · rename_i hl; injection hshare with hshare; subst hshare; simpa using hl

end Lumina.Proofs.ShwapSound

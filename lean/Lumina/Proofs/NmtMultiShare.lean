/-
  Multi-leaf range proofs, part 6: the NMT binding that `ShareProof::verify` (C13) needs, DERIVED.

  `nmtBinds_of_eds_on`: for a square `e` of width `2^k` with the quadrant parity flags and shares of at least 29 bytes whose
  DAH exists, `all = dah.allRootsBytes` are the NMT roots of the axes of `rawSquare e`, and an nmt-rs range proof
  (well-formed 90-byte siblings, 29-byte namespace — both guaranteed by the Rust types) accepted against such a root
  for a range with `end ≤ width` proves exactly that range of the axis, under the namespace each share is committed
  with — for every NMT hash with 32-byte output that has no collision among `S`, where `S` contains the inputs hashed
  when the DAH was computed (`Eds.edsInputs`), the leaf preimages of the presented shares and the inputs of this
  verification (`proofInputs`).  `shareLoopInputs` collects the latter two for the whole loop of `ShareProof::verify`.
  (The earlier hypothesis `HashOK h` was contradictory — audit item X1 — the lemmas stated with it are gone.)
-/
import Lumina.Proofs.NmtMultiSound
import Lumina.Proofs.C13Share
import Lumina.Proofs.NsData

namespace Lumina.Proofs.NmtMulti
open Lumina.Util Lumina.Model.Nmt Lumina.Model.Eds
open Lumina.Proofs.Nmt Lumina.Proofs.NmtRange Lumina.Proofs.Eds Lumina.Proofs.Sample
open Lumina.Proofs.NsData (SquareShape)
open Lumina.Spec.C13 (axisShares leafNsAt nsAllAt slicesBound bindsAll)
open Lumina.Proofs.C13 (nobsOf)
open Lumina.Proofs.Merkle
open Lumina.Model.Merkle (HashFns Proof)

/-- `NmtBinds` relative to a set `S` of hash inputs, with the Rust type invariants of the proof (90-byte siblings) and of
    the namespace (29 bytes) as premises: the conclusion is claimed for verifications whose own hashed inputs (leaf
    preimages of the presented shares, `proofInputs`) lie in `S` -/
def NmtBindsOn (h : HashFn) (S : Bytes → Prop) (w : Nat) (sq all : List Bytes) : Prop :=
  ∀ (idx : Nat) (r : Bytes) (root : NsHash) (p : NsProof) (raws : List Bytes) (ns : Bytes),
    all[idx]? = some r → NsHash.ofBytes? r = some root → (∀ x ∈ p.siblings, x.WF) → ns.length = 29 →
    (∀ d ∈ raws, S (leafInput ns d)) →
    (∀ y ∈ proofInputs h p.ignoreMaxNs (raws.map (hashLeaf h ns)) p.siblings p.start, S y) →
    verifyRange h p root raws ns = .ok () → p.end_ ≤ w →
    raws = ((axisShares w sq idx).drop p.start).take (p.end_ - p.start) ∧
      nsAllAt w idx ns p.start raws = true

/-- the inputs hashed by the range-proof loop of `ShareProof::verify`: per proof the leaf preimages of its share group
    (under the claimed namespace) and the `hash_nodes` inputs of `check_range_proof` -/
def shareLoopInputs (h : HashFn) (ns : Bytes) : List Bytes → List NsProof → List Bytes
  | _, [] => []
  | data, p :: ps =>
    (data.take (p.end_ - p.start)).map (leafInput ns) ++
      proofInputs h p.ignoreMaxNs ((data.take (p.end_ - p.start)).map (hashLeaf h ns)) p.siblings p.start ++
      shareLoopInputs h ns (data.drop (p.end_ - p.start)) ps

/-- the axis the `idx`-th DAH root commits to -/
def axisOf (w idx : Nat) : Axis × Nat := if idx < w then (.row, idx) else (.col, idx - w)

/-- the spec's view of an axis = the model's axis -/
theorem axisShares_eq {e : Eds} {idx : Nat} {shares : List Share}
    (hax : e.axis? (axisOf e.width idx).1 (axisOf e.width idx).2 = some shares) :
    axisShares e.width (rawSquare e) idx = shares.map Share.data := by
  obtain ⟨hlen, hg⟩ := axis?_some hax
  unfold axisShares
  apply List.ext_getElem?
  intro i
  by_cases hw : idx < e.width
  · simp only [axisOf, hw, ↓reduceIte] at hg
    rw [if_pos hw]
    by_cases hi : i < e.width
    · obtain ⟨sh, hsh, hshi⟩ := hg i hi
      simp only [axisCoord, Eds.share?] at hsh
      rw [List.getElem?_take, if_pos hi, List.getElem?_drop, List.getElem?_map, hshi]
      simp only [rawSquare, List.getElem?_map, hsh, Option.map_some]
    · rw [List.getElem?_take, if_neg hi]
      symm; rw [List.getElem?_eq_none_iff]; simp; omega
  · simp only [axisOf, hw, ↓reduceIte] at hg
    rw [if_neg hw]
    by_cases hi : i < e.width
    · obtain ⟨sh, hsh, hshi⟩ := hg i hi
      simp only [axisCoord, Eds.share?] at hsh
      rw [List.getElem?_map, List.getElem?_range hi, List.getElem?_map, hshi]
      simp only [Option.map_some, Option.some.injEq, rawSquare, List.getD_eq_getElem?_getD, List.getElem?_map, hsh,
        Option.getD_some]
    · rw [List.getElem?_eq_none_iff.mpr (by simp; omega)]
      symm; rw [List.getElem?_eq_none_iff]; simp; omega

/-- the namespace the spec attaches to a position of an axis = the namespace the share is committed with -/
theorem leafNsAt_eq {e : Eds} (hsq : SquareShape e) {idx i : Nat} (hidx : idx < 2 * e.width) (hi : i < e.width)
    {shares : List Share} {sh : Share}
    (hax : e.axis? (axisOf e.width idx).1 (axisOf e.width idx).2 = some shares) (hsh : shares[i]? = some sh) :
    leafNsAt e.width idx i sh.data = sh.ns := by
  obtain ⟨_, hg⟩ := axis?_some hax
  obtain ⟨sh', hsh', hshi⟩ := hg i hi
  rw [hsh] at hshi
  injection hshi with hshi
  subst hshi
  unfold leafNsAt Share.ns
  by_cases hw : idx < e.width
  · simp only [axisOf, hw, ↓reduceIte, axisCoord] at hsh'
    have hf := hsq.flags idx i sh hw hi hsh'
    simp only [hw, ↓reduceIte]
    by_cases hq : idx < e.width / 2 ∧ i < e.width / 2
    · have : sh.isParity = false := by rw [hf]; simp [isOdsSquare, hq.1, hq.2]
      simp [hq, this, NS_SIZE]
    · have : sh.isParity = true := by
        rw [hf]; simp only [isOdsSquare, Bool.not_eq_true', Bool.and_eq_false_iff, decide_eq_false_iff_not]
        by_cases h1 : idx < e.width / 2
        · right; intro h2; exact hq ⟨h1, h2⟩
        · left; exact h1
      simp [hq, this, parityNs, maxNsId, NS_SIZE]
  · simp only [axisOf, hw, ↓reduceIte, axisCoord] at hsh'
    have hc : idx - e.width < e.width := by omega
    have hf := hsq.flags i (idx - e.width) sh hi hc hsh'
    simp only [hw, ↓reduceIte]
    by_cases hq : i < e.width / 2 ∧ idx - e.width < e.width / 2
    · have : sh.isParity = false := by rw [hf]; simp [isOdsSquare, hq.1, hq.2]
      simp [hq, this, NS_SIZE]
    · have : sh.isParity = true := by
        rw [hf]; simp only [isOdsSquare, Bool.not_eq_true', Bool.and_eq_false_iff, decide_eq_false_iff_not]
        by_cases h1 : i < e.width / 2
        · right; intro h2; exact hq ⟨h1, h2⟩
        · left; exact h1
      simp [hq, this, parityNs, maxNsId, NS_SIZE]

theorem nsAllAt_of {w idx : Nat} {ns : Bytes} : ∀ (raws : List Bytes) (pos : Nat),
    (∀ i d, raws[i]? = some d → leafNsAt w idx (pos + i) d = ns) → nsAllAt w idx ns pos raws = true := by
  intro raws
  induction raws with
  | nil => intro _ _; rfl
  | cons d t ih =>
    intro pos h
    simp only [nsAllAt, Bool.and_eq_true, beq_iff_eq]
    refine ⟨by simpa using h 0 d rfl, ih (pos + 1) ?_⟩
    intro i d' hd'
    have := h (i + 1) d' (by simpa using hd')
    have e1 : pos + 1 + i = pos + (i + 1) := by omega
    rw [e1]; exact this

/-- the root of the `idx`-th DAH entry is the root of its axis; the axis' hashed inputs are among `edsInputs` -/
theorem dah_entry {H : HashFn} (hl : HashLen H) {e : Eds} {dah : Dah} (hd : Dah.ofEds H e = .ok dah)
    (hsz : ∀ sh ∈ e.shares, NS_SIZE ≤ sh.data.length) {idx : Nat} {r : Bytes} {root : NsHash}
    (hr : dah.allRootsBytes[idx]? = some r) (hp : NsHash.ofBytes? r = some root) :
    idx < 2 * e.width ∧ ∃ shares, e.axis? (axisOf e.width idx).1 (axisOf e.width idx).2 = some shares ∧
      computeRoot H true (shares.map (Share.leafHash H)) = .ok root ∧ shares.length = e.width ∧
      AllLeafOn H (fun y => y ∈ edsInputs H e) (shares.map (Share.leafHash H)) ∧
      (∀ y ∈ rootInputs H true ((shares.map (Share.leafHash H)).length + 1) (shares.map (Share.leafHash H)),
        y ∈ edsInputs H e) ∧
      (∀ sh ∈ shares, leafInput sh.ns sh.data ∈ edsInputs H e) := by
  obtain ⟨hrl, hcl, hrows, hcols⟩ := dah_ofEds_roots hd
  unfold Dah.allRootsBytes at hr
  rw [List.getElem?_map] at hr
  cases hg : (dah.rowRoots ++ dah.colRoots)[idx]? with
  | none => simp [hg] at hr
  | some rt =>
    simp only [hg, Option.map_some, Option.some.injEq] at hr
    have hidx : idx < 2 * e.width := by
      have := (List.getElem?_eq_some_iff.mp hg).1
      simp only [List.length_append, hrl, hcl] at this; omega
    refine ⟨hidx, ?_⟩
    have hax2 : (axisOf e.width idx).2 < e.width := by
      unfold axisOf; split <;> simp <;> omega
    -- the axis root
    have haxr : e.axisRoot H (axisOf e.width idx).1 (axisOf e.width idx).2 = .ok rt := by
      by_cases hw : idx < e.width
      · simp only [axisOf, hw, ↓reduceIte]
        obtain ⟨x, hx1, hx2⟩ := hrows idx hw
        rw [List.getElem?_append_left (by omega)] at hg
        rw [hg] at hx2; injection hx2 with hx2; rw [hx2]; exact hx1
      · simp only [axisOf, hw, ↓reduceIte]
        obtain ⟨x, hx1, hx2⟩ := hcols (idx - e.width) (by omega)
        rw [List.getElem?_append_right (by omega), hrl] at hg
        rw [hg] at hx2; injection hx2 with hx2; rw [hx2]; exact hx1
    obtain ⟨shares, hax, hcr, _⟩ := axisRoot_ok haxr
    obtain ⟨hlen, hget⟩ := axis?_some hax
    have hmem : ∀ x ∈ shares, x ∈ e.shares := by
      intro x hx
      obtain ⟨n, hn, rfl⟩ := List.getElem_of_mem hx
      obtain ⟨y, hy1, hy2⟩ := hget n (by omega)
      rw [List.getElem?_eq_getElem hn] at hy2
      injection hy2 with hy2
      rw [hy2]
      exact List.mem_of_getElem? hy1
    have al : AllLeafOn H (fun y => y ∈ edsInputs H e) (shares.map (Share.leafHash H)) :=
      (axis_allLeafOn hax (fun sh hsh => hsz sh (hmem sh hsh))).mono (fun y hy => axisInputs_mem_eds hax2 hy)
    have wrt : rt.WF := computeRoot_WF hl (AllLeaf.allWF hl al.allLeaf) hcr
    have : root = rt := by
      rw [← hr, ofBytes_toBytes wrt] at hp
      injection hp with hp; exact hp.symm
    subst this
    refine ⟨shares, hax, hcr, hlen, al, fun y hy => axisInputs_mem_eds hax2 (axis_rootInputs_mem hax hy), ?_⟩
    intro sh hsh
    apply axisInputs_mem_eds hax2 (ax := (axisOf e.width idx).1)
    unfold axisInputs; rw [hax]
    exact List.mem_append_left _ (List.mem_map.mpr ⟨sh, hsh, rfl⟩)

/-- **`NmtBinds` derived** from the multi-leaf range-proof soundness, for the DAH of a power-of-two square, relative to
    any `S` that contains the inputs hashed when the DAH was computed -/
theorem nmtBinds_of_eds_on {h : HashFn} {S : Bytes → Prop} (hk : HashOKOn h S) {e : Eds} {k : Nat} (hsq : SquareShape e)
    (hw : e.width = 2 ^ k) {dah : Dah} (hd : Dah.ofEds h e = .ok dah) (hS : ∀ y ∈ edsInputs h e, S y) :
    NmtBindsOn h S e.width (rawSquare e) dah.allRootsBytes := by
  intro idx r root p raws ns hr hp wp hns hlS hV hv hend
  obtain ⟨hidx, shares, hax, hcr, hlen, al, hT, hLI⟩ := dah_entry hk.hlen hd hsq.size hr hp
  have alS : AllLeafOn h S (shares.map (Share.leafHash h)) := al.mono hS
  rw [axisShares_eq hax]
  unfold verifyRange at hv
  split at hv
  · cases hv
  · split at hv
    · cases hv
    · rename_i hnab hrl
      simp only [ne_eq, Decidable.not_not] at hrl
      unfold NsProof.rangeLen at hrl
      by_cases hemp : raws = []
      · subst hemp
        simp only [List.length_nil] at hrl
        rw [← hrl]
        exact ⟨by simp, rfl⟩
      · have hX1 : 1 ≤ (raws.map (hashLeaf h ns)).length := by
          cases raws with
          | nil => exact absurd rfl hemp
          | cons a t => simp
        have hXl : (raws.map (hashLeaf h ns)).length = raws.length := by simp
        have hsnd := checkRangeProof_multi_sound_on hk (j := k) alS (by rw [List.length_map, hlen, hw]) hcr
          (by intro x hx; obtain ⟨d, hd', rfl⟩ := List.mem_map.mp hx; exact ⟨ns, d, hns, rfl, hlS d hd'⟩) wp hX1
          (by rw [hXl, ← hw]; omega) hV (fun y hy => hS y (hT y hy)) hv
        rw [hXl] at hsnd
        -- pointwise: the i-th raw leaf is the data of the share at start + i, whose namespace is ns
        have hpt : ∀ i d, raws[i]? = some d → ∃ sh, shares[p.start + i]? = some sh ∧ sh.data = d ∧ sh.ns = ns := by
          intro i d hd'
          have hi : i < raws.length := (List.getElem?_eq_some_iff.mp hd').1
          have hdm : d ∈ raws := List.mem_of_getElem? hd'
          have h1 : (raws.map (hashLeaf h ns))[i]? = some (hashLeaf h ns d) := by
            rw [List.getElem?_map, hd']; rfl
          rw [hsnd, List.getElem?_take, if_pos hi, List.getElem?_drop, List.getElem?_map] at h1
          cases hs : shares[p.start + i]? with
          | none => simp [hs] at h1
          | some sh =>
            simp only [hs, Option.map_some, Option.some.injEq] at h1
            have hshm : sh ∈ shares := List.mem_of_getElem? hs
            unfold Share.leafHash at h1
            have hnse : sh.ns = ns := congrArg NsHash.minNs h1
            have hSsh : S (leafInput sh.ns sh.data) := hS _ (hLI sh hshm)
            have h2 : (hashLeaf h sh.ns sh.data).hash = (hashLeaf h ns d).hash := congrArg NsHash.hash h1
            rw [hnse] at h2 hSsh
            exact ⟨sh, rfl, (hashLeaf_inj_on hk.inj rfl hSsh (hlS d hdm) h2).2, hnse⟩
        refine ⟨?_, ?_⟩
        · apply List.ext_getElem?
          intro i
          by_cases hi : i < raws.length
          · obtain ⟨sh, hs1, hs2, _⟩ := hpt i raws[i] (List.getElem?_eq_getElem hi)
            rw [List.getElem?_eq_getElem hi, List.getElem?_take, if_pos (by omega), List.getElem?_drop, List.getElem?_map,
              hs1, Option.map_some, hs2]
          · rw [List.getElem?_eq_none_iff.mpr (by omega), List.getElem?_take, if_neg (by omega)]
        · apply nsAllAt_of
          intro i d hd'
          obtain ⟨sh, hs1, hs2, hs3⟩ := hpt i d hd'
          have hi : i < raws.length := (List.getElem?_eq_some_iff.mp hd').1
          rw [← hs2, ← hs3]
          exact leafNsAt_eq hsq hidx (by omega) hax hs1

/-- `slicesBound_of_ok` of `Proofs/C13Share.lean` with the binding hypothesis in the derived, `S`-relative form; the
    inputs hashed by the loop (`shareLoopInputs`) must lie in `S` -/
theorem slicesBound_of_ok_on {D : Type} [DecidableEq D] (H : HashFns D) (h : HashFn) (S : Bytes → Prop) (w : Nat)
    (sq all : List Bytes) (hn : NmtBindsOn h S w sq all) (ns : Bytes) (hns : ns.length = 29) :
    ∀ (nps : List NsProof) (rs : List Bytes) (mps : List (Proof D)) (data : List Bytes),
      (∀ np ∈ nps, ∀ x ∈ np.siblings, x.WF) → (∀ y ∈ shareLoopInputs h ns data nps, S y) →
      Lumina.Model.ShareProof.rangeLoop h ns data nps rs = .ok →
      bindsAll H all rs (mps.map Lumina.Proofs.C13.obsOf) = true → (∀ p ∈ mps, p.total = all.length) →
      nps.length = rs.length → rs.length = mps.length →
      slicesBound w sq ns data (nps.map nobsOf) (mps.map Lumina.Proofs.C13.obsOf) = true := by
  intro nps
  induction nps with
  | nil => intro rs mps data _ _ _ _ _ _ _; simp [slicesBound]
  | cons np nps ih =>
    intro rs mps data hwf hVL hl hb ht h1 h2
    cases rs with
    | nil => simp at h1
    | cons r rs =>
      cases mps with
      | nil => simp at h2
      | cons mp mps =>
        simp only [Lumina.Model.ShareProof.rangeLoop] at hl
        simp only [shareLoopInputs, List.mem_append] at hVL
        by_cases hlen : data.length < np.end_ - np.start
        · simp [hlen] at hl
        · simp only [hlen, ↓reduceIte] at hl
          cases hr : NsHash.ofBytes? r with
          | none => simp [hr] at hl
          | some root =>
            simp only [hr] at hl
            cases hv : Lumina.Model.Decoders.safeVerifyRange h np root (data.take (np.end_ - np.start)) ns with
            | error e =>
              rw [hv] at hl
              cases e <;> simp at hl
            | ok u =>
              rw [hv] at hl
              simp only at hl
              simp only [List.map_cons, bindsAll, Bool.and_eq_true] at hb
              obtain ⟨hb1, hb2⟩ := hb
              have htot : mp.total = all.length := ht mp (by simp)
              have hidx : all[mp.index]? = some r := by
                simp only [Lumina.Proofs.C13.obsOf, htot, beq_self_eq_true, Bool.not_true, Bool.false_or, Bool.and_eq_true,
                  beq_iff_eq] at hb1
                exact hb1.1.2
              simp only [List.map_cons, slicesBound, Bool.and_eq_true, Bool.or_eq_true, Bool.not_eq_true',
                decide_eq_false_iff_not, beq_iff_eq, nobsOf, Lumina.Proofs.C13.obsOf]
              refine ⟨?_, ?_⟩
              · by_cases hw : np.end_ ≤ w
                · right
                  have hv' : verifyRange h np root (data.take (np.end_ - np.start)) ns = .ok () := by
                    unfold Lumina.Model.Decoders.safeVerifyRange at hv
                    split at hv
                    · cases hv
                    · cases u; exact hv
                  exact hn mp.index r root np _ ns hidx hr (hwf np (by simp)) hns
                    (fun d hd => hVL _ (Or.inl (Or.inl (List.mem_map.mpr ⟨d, hd, rfl⟩))))
                    (fun y hy => hVL y (Or.inl (Or.inr hy))) hv' hw
                · left; exact hw
              · exact ih rs mps _ (fun q hq => hwf q (by simp [hq])) (fun y hy => hVL y (Or.inr hy)) hl hb2
                  (fun p hp => ht p (by simp [hp])) (by simpa using h1) (by simpa using h2)

/-- **all inputs the NMT hash is applied to** when the DAH of `e` is computed and when `ShareProof::verify` checks the
    range proofs `nps` of the share groups `data` under `ns`: the explicit finite set relative to which the share-proof
    theorems of `Props/C13.lean` assume (or, in reduction form, conclude the failure of) collision-freeness -/
def shareVerifyInputs (h : HashFn) (e : Eds) (ns : Bytes) (data : List Bytes) (nps : List NsProof) : List Bytes :=
  edsInputs h e ++ shareLoopInputs h ns data nps

end Lumina.Proofs.NmtMulti

/-
  Multi-leaf range proofs, part 6: the NMT binding that `ShareProof::verify` (C13) needs, DERIVED.

  `nmtBinds_of_eds`: for a square `e` of width `2^k` with the quadrant parity flags and shares of at least 29 bytes whose
  DAH exists, `all = dah.allRootsBytes` are the NMT roots of the axes of `rawSquare e`, and an nmt-rs range proof
  (well-formed 90-byte siblings, 29-byte namespace — both guaranteed by the Rust types) accepted against such a root
  for a range with `end ≤ width` proves exactly that range of the axis, under the namespace each share is committed
  with (idealised NMT hash).  This is `NmtBinds` of `Proofs/C13Share.lean` with the two type invariants made explicit.
-/
import Lumina.Proofs.NmtMultiSound
import Lumina.Proofs.C13Share
import Lumina.Proofs.NsData

namespace Lumina.Proofs.NmtMulti
open Lumina.Util Lumina.Model.Nmt Lumina.Model.Eds
open Lumina.Proofs.Nmt Lumina.Proofs.NmtRange Lumina.Proofs.Eds Lumina.Proofs.Sample
open Lumina.Proofs.NsData (SquareShape)
open Lumina.Spec.C13 (axisShares leafNsAt nsAllAt slicesBound bindsAll)
open Lumina.Proofs.C13 (nobsOf)
open Lumina.Proofs.Merkle
open Lumina.Model.Merkle (HashFns Proof)

/-- `NmtBinds` with the Rust type invariants of the proof (90-byte siblings) and of the namespace (29 bytes) as premises -/
def NmtBindsWF (h : HashFn) (w : Nat) (sq all : List Bytes) : Prop :=
  ∀ (idx : Nat) (r : Bytes) (root : NsHash) (p : NsProof) (raws : List Bytes) (ns : Bytes),
    all[idx]? = some r → NsHash.ofBytes? r = some root → (∀ x ∈ p.siblings, x.WF) → ns.length = 29 →
    verifyRange h p root raws ns = .ok () → p.end_ ≤ w →
    raws = ((axisShares w sq idx).drop p.start).take (p.end_ - p.start) ∧
      nsAllAt w idx ns p.start raws = true

/-- the axis the `idx`-th DAH root commits to -/
def axisOf (w idx : Nat) : Axis × Nat := if idx < w then (.row, idx) else (.col, idx - w)

/-- the spec's view of an axis = the model's axis -/
theorem axisShares_eq {e : Eds} {idx : Nat} {shares : List Share}
    (hax : e.axis? (axisOf e.width idx).1 (axisOf e.width idx).2 = some shares) :
    axisShares e.width (rawSquare e) idx = shares.map Share.data := by
  obtain ⟨hlen, hg⟩ := axis?_some hax
  unfold axisShares
  apply List.ext_getElem?
  intro i
  by_cases hw : idx < e.width
  · simp only [axisOf, hw, ↓reduceIte] at hg
    rw [if_pos hw]
    by_cases hi : i < e.width
    · obtain ⟨sh, hsh, hshi⟩ := hg i hi
      simp only [axisCoord, Eds.share?] at hsh
      rw [List.getElem?_take, if_pos hi, List.getElem?_drop, List.getElem?_map, hshi]
      simp only [rawSquare, List.getElem?_map, hsh, Option.map_some]
    · rw [List.getElem?_take, if_neg hi]
      symm; rw [List.getElem?_eq_none_iff]; simp; omega
  · simp only [axisOf, hw, ↓reduceIte] at hg
    rw [if_neg hw]
    by_cases hi : i < e.width
    · obtain ⟨sh, hsh, hshi⟩ := hg i hi
      simp only [axisCoord, Eds.share?] at hsh
      rw [List.getElem?_map, List.getElem?_range hi, List.getElem?_map, hshi]
      simp only [Option.map_some, Option.some.injEq, rawSquare, List.getD_eq_getElem?_getD, List.getElem?_map, hsh,
        Option.getD_some]
    · rw [List.getElem?_eq_none_iff.mpr (by simp; omega)]
      symm; rw [List.getElem?_eq_none_iff]; simp; omega

/-- the namespace the spec attaches to a position of an axis = the namespace the share is committed with -/
theorem leafNsAt_eq {e : Eds} (hsq : SquareShape e) {idx i : Nat} (hidx : idx < 2 * e.width) (hi : i < e.width)
    {shares : List Share} {sh : Share}
    (hax : e.axis? (axisOf e.width idx).1 (axisOf e.width idx).2 = some shares) (hsh : shares[i]? = some sh) :
    leafNsAt e.width idx i sh.data = sh.ns := by
  obtain ⟨_, hg⟩ := axis?_some hax
  obtain ⟨sh', hsh', hshi⟩ := hg i hi
  rw [hsh] at hshi
  injection hshi with hshi
  subst hshi
  unfold leafNsAt Share.ns
  by_cases hw : idx < e.width
  · simp only [axisOf, hw, ↓reduceIte, axisCoord] at hsh'
    have hf := hsq.flags idx i sh hw hi hsh'
    simp only [hw, ↓reduceIte]
    by_cases hq : idx < e.width / 2 ∧ i < e.width / 2
    · have : sh.isParity = false := by rw [hf]; simp [isOdsSquare, hq.1, hq.2]
      simp [hq, this, NS_SIZE]
    · have : sh.isParity = true := by
        rw [hf]; simp only [isOdsSquare, Bool.not_eq_true', Bool.and_eq_false_iff, decide_eq_false_iff_not]
        by_cases h1 : idx < e.width / 2
        · right; intro h2; exact hq ⟨h1, h2⟩
        · left; exact h1
      simp [hq, this, parityNs, maxNsId, NS_SIZE]
  · simp only [axisOf, hw, ↓reduceIte, axisCoord] at hsh'
    have hc : idx - e.width < e.width := by omega
    have hf := hsq.flags i (idx - e.width) sh hi hc hsh'
    simp only [hw, ↓reduceIte]
    by_cases hq : i < e.width / 2 ∧ idx - e.width < e.width / 2
    · have : sh.isParity = false := by rw [hf]; simp [isOdsSquare, hq.1, hq.2]
      simp [hq, this, NS_SIZE]
    · have : sh.isParity = true := by
        rw [hf]; simp only [isOdsSquare, Bool.not_eq_true', Bool.and_eq_false_iff, decide_eq_false_iff_not]
        by_cases h1 : i < e.width / 2
        · right; intro h2; exact hq ⟨h1, h2⟩
        · left; exact h1
      simp [hq, this, parityNs, maxNsId, NS_SIZE]

theorem nsAllAt_of {w idx : Nat} {ns : Bytes} : ∀ (raws : List Bytes) (pos : Nat),
    (∀ i d, raws[i]? = some d → leafNsAt w idx (pos + i) d = ns) → nsAllAt w idx ns pos raws = true := by
  intro raws
  induction raws with
  | nil => intro _ _; rfl
  | cons d t ih =>
    intro pos h
    simp only [nsAllAt, Bool.and_eq_true, beq_iff_eq]
    refine ⟨by simpa using h 0 d rfl, ih (pos + 1) ?_⟩
    intro i d' hd'
    have := h (i + 1) d' (by simpa using hd')
    have e1 : pos + 1 + i = pos + (i + 1) := by omega
    rw [e1]; exact this

/-- the root of the `idx`-th DAH entry is the root of its axis -/
theorem dah_entry {H : HashFn} (hl : HashLen H) {e : Eds} {dah : Dah} (hd : Dah.ofEds H e = .ok dah)
    (hsz : ∀ sh ∈ e.shares, NS_SIZE ≤ sh.data.length) {idx : Nat} {r : Bytes} {root : NsHash}
    (hr : dah.allRootsBytes[idx]? = some r) (hp : NsHash.ofBytes? r = some root) :
    idx < 2 * e.width ∧ ∃ shares, e.axis? (axisOf e.width idx).1 (axisOf e.width idx).2 = some shares ∧
      computeRoot H true (shares.map (Share.leafHash H)) = .ok root ∧ shares.length = e.width ∧
      AllLeaf H (shares.map (Share.leafHash H)) := by
  obtain ⟨hrl, hcl, hrows, hcols⟩ := dah_ofEds_roots hd
  unfold Dah.allRootsBytes at hr
  rw [List.getElem?_map] at hr
  cases hg : (dah.rowRoots ++ dah.colRoots)[idx]? with
  | none => simp [hg] at hr
  | some rt =>
    simp only [hg, Option.map_some, Option.some.injEq] at hr
    have hidx : idx < 2 * e.width := by
      have := (List.getElem?_eq_some_iff.mp hg).1
      simp only [List.length_append, hrl, hcl] at this; omega
    refine ⟨hidx, ?_⟩
    -- the axis root
    have haxr : e.axisRoot H (axisOf e.width idx).1 (axisOf e.width idx).2 = .ok rt := by
      by_cases hw : idx < e.width
      · simp only [axisOf, hw, ↓reduceIte]
        obtain ⟨x, hx1, hx2⟩ := hrows idx hw
        rw [List.getElem?_append_left (by omega)] at hg
        rw [hg] at hx2; injection hx2 with hx2; rw [hx2]; exact hx1
      · simp only [axisOf, hw, ↓reduceIte]
        obtain ⟨x, hx1, hx2⟩ := hcols (idx - e.width) (by omega)
        rw [List.getElem?_append_right (by omega), hrl] at hg
        rw [hg] at hx2; injection hx2 with hx2; rw [hx2]; exact hx1
    obtain ⟨shares, hax, hcr, _⟩ := axisRoot_ok haxr
    obtain ⟨hlen, hget⟩ := axis?_some hax
    have hmem : ∀ x ∈ shares, x ∈ e.shares := by
      intro x hx
      obtain ⟨n, hn, rfl⟩ := List.getElem_of_mem hx
      obtain ⟨y, hy1, hy2⟩ := hget n (by omega)
      rw [List.getElem?_eq_getElem hn] at hy2
      injection hy2 with hy2
      rw [hy2]
      exact List.mem_of_getElem? hy1
    have al : AllLeaf H (shares.map (Share.leafHash H)) := by
      intro x hx
      obtain ⟨y, hy, rfl⟩ := List.mem_map.mp hx
      exact ⟨y.ns, y.data, share_ns_length (hsz y (hmem y hy)), rfl⟩
    have wrt : rt.WF := computeRoot_WF hl (AllLeaf.allWF hl al) hcr
    have : root = rt := by
      rw [← hr, ofBytes_toBytes wrt] at hp
      injection hp with hp; exact hp.symm
    subst this
    exact ⟨shares, hax, hcr, hlen, al⟩

/-- **`NmtBinds` derived** from the multi-leaf range-proof soundness, for the DAH of a power-of-two square -/
theorem nmtBinds_of_eds {h : HashFn} (hk : HashOK h) {e : Eds} {k : Nat} (hsq : SquareShape e) (hw : e.width = 2 ^ k)
    {dah : Dah} (hd : Dah.ofEds h e = .ok dah) : NmtBindsWF h e.width (rawSquare e) dah.allRootsBytes := by
  intro idx r root p raws ns hr hp wp hns hv hend
  obtain ⟨hidx, shares, hax, hcr, hlen, al⟩ := dah_entry hk.hlen hd hsq.size hr hp
  rw [axisShares_eq hax]
  unfold verifyRange at hv
  split at hv
  · cases hv
  · split at hv
    · cases hv
    · rename_i hnab hrl
      simp only [ne_eq, Decidable.not_not] at hrl
      unfold NsProof.rangeLen at hrl
      by_cases hemp : raws = []
      · subst hemp
        simp only [List.length_nil] at hrl
        rw [← hrl]
        exact ⟨by simp, rfl⟩
      · have hX1 : 1 ≤ (raws.map (hashLeaf h ns)).length := by
          cases raws with
          | nil => exact absurd rfl hemp
          | cons a t => simp
        have hXl : (raws.map (hashLeaf h ns)).length = raws.length := by simp
        have hsnd := checkRangeProof_multi_sound hk (j := k) al (by rw [List.length_map, hlen, hw]) hcr
          (by intro x hx; obtain ⟨d, _, rfl⟩ := List.mem_map.mp hx; exact ⟨ns, d, hns, rfl⟩) wp hX1
          (by rw [hXl, ← hw]; omega) hv
        rw [hXl] at hsnd
        -- pointwise: the i-th raw leaf is the data of the share at start + i, whose namespace is ns
        have hpt : ∀ i d, raws[i]? = some d → ∃ sh, shares[p.start + i]? = some sh ∧ sh.data = d ∧ sh.ns = ns := by
          intro i d hd'
          have hi : i < raws.length := (List.getElem?_eq_some_iff.mp hd').1
          have h1 : (raws.map (hashLeaf h ns))[i]? = some (hashLeaf h ns d) := by
            rw [List.getElem?_map, hd']; rfl
          rw [hsnd, List.getElem?_take, if_pos hi, List.getElem?_drop, List.getElem?_map] at h1
          cases hs : shares[p.start + i]? with
          | none => simp [hs] at h1
          | some sh =>
            simp only [hs, Option.map_some, Option.some.injEq] at h1
            unfold Share.leafHash at h1
            have hnse : sh.ns = ns := congrArg NsHash.minNs h1
            rw [hnse] at h1
            exact ⟨sh, rfl, (hashLeaf_inj hk rfl (congrArg NsHash.hash h1)).2, hnse⟩
        refine ⟨?_, ?_⟩
        · apply List.ext_getElem?
          intro i
          by_cases hi : i < raws.length
          · obtain ⟨sh, hs1, hs2, _⟩ := hpt i raws[i] (List.getElem?_eq_getElem hi)
            rw [List.getElem?_eq_getElem hi, List.getElem?_take, if_pos (by omega), List.getElem?_drop, List.getElem?_map,
              hs1, Option.map_some, hs2]
          · rw [List.getElem?_eq_none_iff.mpr (by omega), List.getElem?_take, if_neg (by omega)]
        · apply nsAllAt_of
          intro i d hd'
          obtain ⟨sh, hs1, hs2, hs3⟩ := hpt i d hd'
          have hi : i < raws.length := (List.getElem?_eq_some_iff.mp hd').1
          rw [← hs2, ← hs3]
          exact leafNsAt_eq hsq hidx (by omega) hax hs1

/-- `slicesBound_of_ok` of `Proofs/C13Share.lean` with the binding hypothesis in the derived form -/
theorem slicesBound_of_ok' {D : Type} [DecidableEq D] (H : HashFns D) (h : HashFn) (w : Nat)
    (sq all : List Bytes) (hn : NmtBindsWF h w sq all) (ns : Bytes) (hns : ns.length = 29) :
    ∀ (nps : List NsProof) (rs : List Bytes) (mps : List (Proof D)) (data : List Bytes),
      (∀ np ∈ nps, ∀ x ∈ np.siblings, x.WF) →
      Lumina.Model.ShareProof.rangeLoop h ns data nps rs = .ok →
      bindsAll H all rs (mps.map Lumina.Proofs.C13.obsOf) = true → (∀ p ∈ mps, p.total = all.length) →
      nps.length = rs.length → rs.length = mps.length →
      slicesBound w sq ns data (nps.map nobsOf) (mps.map Lumina.Proofs.C13.obsOf) = true := by
  intro nps
  induction nps with
  | nil => intro rs mps data _ _ _ _ _ _; simp [slicesBound]
  | cons np nps ih =>
    intro rs mps data hwf hl hb ht h1 h2
    cases rs with
    | nil => simp at h1
    | cons r rs =>
      cases mps with
      | nil => simp at h2
      | cons mp mps =>
        simp only [Lumina.Model.ShareProof.rangeLoop] at hl
        by_cases hlen : data.length < np.end_ - np.start
        · simp [hlen] at hl
        · simp only [hlen, ↓reduceIte] at hl
          cases hr : NsHash.ofBytes? r with
          | none => simp [hr] at hl
          | some root =>
            simp only [hr] at hl
            cases hv : Lumina.Model.Decoders.safeVerifyRange h np root (data.take (np.end_ - np.start)) ns with
            | error e =>
              rw [hv] at hl
              cases e <;> simp at hl
            | ok u =>
              rw [hv] at hl
              simp only at hl
              simp only [List.map_cons, bindsAll, Bool.and_eq_true] at hb
              obtain ⟨hb1, hb2⟩ := hb
              have htot : mp.total = all.length := ht mp (by simp)
              have hidx : all[mp.index]? = some r := by
                simp only [Lumina.Proofs.C13.obsOf, htot, beq_self_eq_true, Bool.not_true, Bool.false_or, Bool.and_eq_true,
                  beq_iff_eq] at hb1
                exact hb1.1.2
              simp only [List.map_cons, slicesBound, Bool.and_eq_true, Bool.or_eq_true, Bool.not_eq_true',
                decide_eq_false_iff_not, beq_iff_eq, nobsOf, Lumina.Proofs.C13.obsOf]
              refine ⟨?_, ?_⟩
              · by_cases hw : np.end_ ≤ w
                · right
                  have hv' : verifyRange h np root (data.take (np.end_ - np.start)) ns = .ok () := by
                    unfold Lumina.Model.Decoders.safeVerifyRange at hv
                    split at hv
                    · cases hv
                    · cases u; exact hv
                  exact hn mp.index r root np _ ns hidx hr (hwf np (by simp)) hns hv' hw
                · left; exact hw
              · exact ih rs mps _ (fun q hq => hwf q (by simp [hq])) hl hb2 (fun p hp => ht p (by simp [hp]))
                  (by simpa using h1) (by simpa using h2)

end Lumina.Proofs.NmtMulti

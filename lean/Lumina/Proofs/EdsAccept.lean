/-
  C08: VALID squares are accepted by `ExtendedDataSquare::new` (the converse of `new_rejects`).
  Owner: group D2.
-/
import Lumina.Proofs.EdsMalformed
import Lumina.Props.C14

namespace Lumina.Proofs.EdsAccept
open Lumina.Util Lumina.Model.Nmt Lumina.Model.Eds Lumina.Model.EdsCode
open Lumina.Proofs.EdsCode Lumina.Proofs.EdsMalformed
open Lumina.Spec.C08

theorem sqrtAux_sq (w : Nat) : ∀ m, w ≤ m → sqrtAux (w * w) m = w
  | 0, h => by have : w = 0 := by omega
               subst this; rfl
  | m + 1, h => by
    simp only [sqrtAux]
    by_cases hle : (m + 1) * (m + 1) ≤ w * w
    · simp only [hle, ↓reduceIte]
      have : ¬ w < m + 1 := by
        intro hlt
        have := Nat.mul_lt_mul'' hlt hlt
        omega
      omega
    · simp only [hle, ↓reduceIte]
      have : w ≤ m := by
        have : ¬ m + 1 ≤ w := fun h' => hle (Nat.mul_le_mul h' h')
        omega
      exact sqrtAux_sq w m this

theorem isqrt_sq (w : Nat) : isqrt (w * w) = w := sqrtAux_sq w (w * w) (le_mul_self w)

theorem isPow2Aux_two_pow : ∀ (j fuel : Nat), j < fuel → isPow2Aux fuel (2 ^ j) = true
  | 0, fuel + 1, _ => by simp [isPow2Aux]
  | j + 1, fuel + 1, h => by
    have hp := Nat.two_pow_pos j
    have h1 : ¬ 2 ^ (j + 1) = 1 := by rw [Nat.pow_succ]; omega
    have h2 : ¬ (2 ^ (j + 1) = 0 ∨ 2 ^ (j + 1) % 2 = 1) := by rw [Nat.pow_succ]; omega
    have h3 : 2 ^ (j + 1) / 2 = 2 ^ j := by rw [Nat.pow_succ]; omega
    simp only [isPow2Aux, h1, h2, ↓reduceIte, h3]
    exact isPow2Aux_two_pow j fuel (by omega)

theorem isPow2_two_pow (j : Nat) : isPow2 (2 ^ j) = true :=
  isPow2Aux_two_pow j (2 ^ j) Nat.lt_two_pow_self

/-- what `check_share` needs of the raw share at `(r, c)` -/
def CellGood (ver w : Nat) (shares : List Bytes) (r c : Nat) : Prop :=
  (shares.getD (r * w + c) []).length = SHARE_SIZE ∧
  (isOdsSquare r c w = true →
    Lumina.Spec.C14.validRaw ((shares.getD (r * w + c) []).take 29) = true ∧
    ¬ (((shares.getD (r * w + c) []).getD 29 0).toNat / 2 = 1 ∧ ver < 3))

theorem fromRaw_of_valid {bs : Bytes} (h : Lumina.Spec.C14.validRaw bs = true) :
    ∃ n, Lumina.Model.Namespace.fromRaw bs = .ok n := by
  have := Lumina.Props.C14.fromRaw_spec bs
  cases hf : Lumina.Model.Namespace.fromRaw bs with
  | ok n => exact ⟨n, rfl⟩
  | error e =>
    rw [hf] at this
    simp [Lumina.Props.C14.obsOf, Lumina.Spec.C14.specFromRaw, h] at this

theorem checkShare_of_good {ver w : Nat} {shares : List Bytes} {r c : Nat} (hg : CellGood ver w shares r c)
    (prev : Option Bytes) (hord : ∀ p, prev = some p → ltB (cell w shares r c).ns p = false) :
    checkShare ver w shares r c prev = .ok (cell w shares r c) := by
  unfold CellGood at hg
  unfold checkShare cell at *
  generalize shares.getD (r * w + c) [] = d at *
  obtain ⟨hlen, hq⟩ := hg
  simp only
  by_cases ho : isOdsSquare r c w = true
  · obtain ⟨hv, hver⟩ := hq ho
    obtain ⟨n, hn⟩ := fromRaw_of_valid hv
    have hsf : shareFromRaw d = .ok ⟨d, false⟩ := by
      unfold shareFromRaw
      simp only [hlen, ne_eq, not_true_eq_false, ↓reduceIte]
      have : NS_SIZE = 29 := rfl
      rw [this, hn]
    have hval : shareValidate ver ⟨d, false⟩ = .ok () := by
      unfold shareValidate
      have h29 : NS_SIZE = 29 := rfl
      simp only [Bool.not_false, Bool.true_and, h29, SHARE_VERSION_ONE]
      by_cases h1 : (d.getD 29 0).toNat / 2 = 1
      · have h3 : ¬ ver < 3 := fun h3 => hver ⟨h1, h3⟩
        simp only [h1, decide_true, Bool.true_and, h3, decide_false, Bool.false_eq_true, ↓reduceIte]
      · simp only [h1, decide_false, Bool.false_and, Bool.false_eq_true, ↓reduceIte]
    simp only [ho, ↓reduceIte, hsf, hval, Bool.not_true]
    cases prev with
    | none => rfl
    | some p =>
      have := hord p rfl
      simp only [ho, Bool.not_true] at this
      simp only [this, Bool.false_eq_true, ↓reduceIte]
  · have ho' : isOdsSquare r c w = false := by simpa using ho
    have hsp : shareParity d = .ok ⟨d, true⟩ := by
      unfold shareParity; simp only [hlen, ne_eq, not_true_eq_false, ↓reduceIte]
    have hval : shareValidate ver ⟨d, true⟩ = .ok () := by
      unfold shareValidate; simp
    simp only [ho', Bool.false_eq_true, ↓reduceIte, hsp, hval, Bool.not_false]
    cases prev with
    | none => rfl
    | some p =>
      have := hord p rfl
      simp only [ho', Bool.not_false] at this
      simp only [this, Bool.false_eq_true, ↓reduceIte]

/-- the order check threaded through one line -/
def okFrom : Option Bytes → List Bytes → Bool
  | _, [] => true
  | none, x :: t => okFrom (some x) t
  | some p, x :: t => !ltB x p && okFrom (some x) t

theorem checkLine_of_good {ver w : Nat} {shares : List Bytes} : ∀ (coords : List (Nat × Nat)) (prev : Option Bytes),
    (∀ p ∈ coords, CellGood ver w shares p.1 p.2) →
    okFrom prev (coords.map (fun p => (cell w shares p.1 p.2).ns)) = true →
    checkLine ver w shares coords prev = .ok (coords.map (fun p => cell w shares p.1 p.2))
  | [], _, _, _ => rfl
  | (r, c) :: rest, prev, hg, hok => by
    have hord : ∀ p, prev = some p → ltB (cell w shares r c).ns p = false := by
      intro p hp
      subst hp
      simp only [List.map_cons, okFrom, Bool.and_eq_true, Bool.not_eq_true'] at hok
      exact hok.1
    have hrest : okFrom (some (cell w shares r c).ns) (rest.map (fun p => (cell w shares p.1 p.2).ns)) = true := by
      cases prev with
      | none => simpa [okFrom] using hok
      | some p =>
        simp only [List.map_cons, okFrom, Bool.and_eq_true] at hok
        exact hok.2
    simp only [checkLine, checkShare_of_good (hg (r, c) (by simp)) prev hord,
      checkLine_of_good rest _ (fun p hp => hg p (List.mem_cons_of_mem _ hp)) hrest, List.map_cons]

theorem okFrom_range' (f : Nat → Bytes) : ∀ (len a : Nat) (prev : Option Bytes),
    (∀ p, prev = some p → a ≥ 1 ∧ p = f (a - 1)) →
    (∀ j, a ≤ j + 1 → j + 1 < a + len → (a ≤ j ∨ prev.isSome) → ltB (f (j + 1)) (f j) = false) →
    okFrom prev ((List.range' a len).map f) = true
  | 0, _, _, _, _ => by simp [okFrom]
  | len + 1, a, prev, hp, hadj => by
    simp only [List.range'_succ, List.map_cons]
    have ih := okFrom_range' f len (a + 1) (some (f a)) (fun p h => by
      injection h with h; exact ⟨by omega, by simp [← h]⟩)
      (fun j h1 h2 _ => hadj j (by omega) (by omega) (Or.inl (by omega)))
    cases prev with
    | none => simpa [okFrom] using ih
    | some p =>
      obtain ⟨ha, hpe⟩ := hp p rfl
      simp only [okFrom, Bool.and_eq_true, Bool.not_eq_true']
      refine ⟨?_, ih⟩
      rw [hpe]
      have := hadj (a - 1) (by omega) (by omega) (Or.inr rfl)
      have e1 : a - 1 + 1 = a := by omega
      rw [e1] at this
      exact this

theorem okFrom_range (f : Nat → Bytes) (w : Nat) (hadj : ∀ j, j + 1 < w → ltB (f (j + 1)) (f j) = false) :
    okFrom none ((List.range w).map f) = true := by
  rw [List.range_eq_range']
  exact okFrom_range' f w 0 none (fun p h => by cases h) (fun j _ h2 _ => hadj j (by omega))

theorem checkLines_of_good {ver w : Nat} {shares : List Bytes} {ax : Axis} : ∀ (idxs : List Nat),
    (∀ i ∈ idxs, (∀ j, j < w → CellGood ver w shares (axisCoord ax i j).1 (axisCoord ax i j).2) ∧
      ∀ j, j + 1 < w → ltB (cell w shares (axisCoord ax i (j + 1)).1 (axisCoord ax i (j + 1)).2).ns
        (cell w shares (axisCoord ax i j).1 (axisCoord ax i j).2).ns = false) →
    ∃ sq, checkLines ver w shares ax idxs = .ok sq
  | [], _ => ⟨[], rfl⟩
  | i :: rest, h => by
    obtain ⟨hg, hs⟩ := h i (by simp)
    obtain ⟨sq, hsq⟩ := checkLines_of_good rest (fun i' hi' => h i' (List.mem_cons_of_mem _ hi'))
    have hl := checkLine_of_good (ver := ver) (w := w) (shares := shares) ((List.range w).map (fun j => axisCoord ax i j)) none
      (by
        intro p hp
        obtain ⟨j, hj, rfl⟩ := List.mem_map.mp hp
        exact hg j (List.mem_range.mp hj))
      (by
        rw [List.map_map]
        exact okFrom_range (fun j => (cell w shares (axisCoord ax i j).1 (axisCoord ax i j).2).ns) w hs)
    exact ⟨((List.range w).map (fun j => axisCoord ax i j)).map (fun p => cell w shares p.1 p.2) ++ sq,
      by simp only [checkLines, hl, hsq]⟩

/-- **`new` accepts every valid square** -/
theorem new_accepts {ver : Nat} {shares : List Bytes} (hv : validEds ver shares = true) :
    ∃ e, edsNew ver shares = .ok e := by
  unfold validEds malformedEds at hv
  simp only [Bool.and_eq_true, Bool.not_eq_true', Bool.or_eq_false_iff, decide_eq_false_iff_not, Nat.not_lt,
    List.all_eq_true, List.mem_range, Bool.or_eq_true, bne_iff_ne, ne_eq] at hv
  obtain ⟨⟨⟨⟨⟨⟨hsq, hp2⟩, hmin⟩, hmax⟩, hsize⟩, hsorted⟩, hsupp⟩ := hv
  -- the width
  obtain ⟨w, hw⟩ : ∃ w, w * w = shares.length := by
    unfold notSquare at hsq
    rw [Bool.eq_false_iff] at hsq
    simp only [ne_eq, List.all_eq_true, List.mem_range, bne_iff_ne, not_forall, Decidable.not_not] at hsq
    obtain ⟨w, _, h⟩ := hsq
    exact ⟨w, h⟩
  have hwn : w < shares.length + 1 := by have := le_mul_self w; omega
  obtain ⟨j, hj⟩ : ∃ j, w = 2 ^ j := by
    unfold widthNotPow2 at hp2
    rw [List.any_eq_false] at hp2
    have := hp2 w (List.mem_range.mpr hwn)
    simp only [hw, beq_self_eq_true, Bool.true_and, Bool.not_eq_true'] at this
    have h' : (List.range (w + 1)).any (fun j => 2 ^ j == w) = true := by simpa using this
    rw [List.any_eq_true] at h'
    obtain ⟨j, _, h⟩ := h'
    exact ⟨j, by have : 2 ^ j = w := by simpa using h
                 exact this.symm⟩
  have hisq : isqrt shares.length = w := by rw [← hw]; exact isqrt_sq w
  have hsz : ∀ s ∈ shares, s.length = SHARE_SIZE := by
    unfold wrongShareSize at hsize
    rw [List.any_eq_false] at hsize
    intro s hs
    have := hsize s hs
    simpa [SHARE_SIZE] using this
  have huns : unsortedEds w shares = false := by
    rw [List.any_eq_false] at hsorted
    have := hsorted w (List.mem_range.mpr hwn)
    simpa [hw] using this
  have hsup : sharesSupported ver w shares = true := by
    rcases hsupp w hwn with h | h
    · exact (h hw).elim
    · exact h
  have hgood : ∀ r c, r < w → c < w → CellGood ver w shares r c := by
    intro r c hr hc
    have hidx : r * w + c < shares.length := by
      rw [← hw]
      calc r * w + c < r * w + w := by omega
        _ = (r + 1) * w := by rw [Nat.succ_mul]
        _ ≤ w * w := Nat.mul_le_mul_right w hr
    refine ⟨?_, ?_⟩
    · apply hsz
      rw [List.getD_eq_getElem?_getD, List.getElem?_eq_getElem hidx]
      exact List.getElem_mem hidx
    · intro ho
      simp only [isOdsSquare, Bool.and_eq_true, decide_eq_true_eq] at ho
      unfold sharesSupported at hsup
      simp only [List.all_eq_true, List.mem_range, Bool.and_eq_true, Bool.not_eq_true', Bool.and_eq_false_iff,
        beq_eq_false_iff_ne, ne_eq, decide_eq_false_iff_not, Nat.not_lt] at hsup
      obtain ⟨h1, h2⟩ := hsup r ho.1 c ho.2
      refine ⟨h1, ?_⟩
      intro ⟨ha, hb⟩
      rcases h2 with h2 | h2
      · exact h2 ha
      · omega
  have hadj : ∀ (ax : Axis) i, i < w → ∀ jj, jj + 1 < w →
      ltB (cell w shares (axisCoord ax i (jj + 1)).1 (axisCoord ax i (jj + 1)).2).ns
        (cell w shares (axisCoord ax i jj).1 (axisCoord ax i jj).2).ns = false := by
    intro ax i hi jj hjj
    unfold unsortedEds at huns
    rw [List.any_eq_false] at huns
    have h1 := huns i (List.mem_range.mpr hi)
    rw [Bool.not_eq_true, List.any_eq_false] at h1
    have h2 := h1 jj (List.mem_range.mpr (by omega))
    simp only [Bool.not_eq_true, Bool.or_eq_false_iff, nsAt_cell] at h2
    cases ax with
    | row => exact h2.1
    | col => exact h2.2
  have hlines : ∀ ax : Axis, ∃ sq, checkLines ver w shares ax (List.range w) = .ok sq := by
    intro ax
    apply checkLines_of_good
    intro i hi
    have hi' := List.mem_range.mp hi
    refine ⟨fun jj hjj => ?_, hadj ax i hi'⟩
    cases ax with
    | row => exact hgood i jj hi' hjj
    | col => exact hgood jj i hjj hi'
  obtain ⟨cs, hcs⟩ := hlines .col
  obtain ⟨rs, hrs⟩ := hlines .row
  refine ⟨⟨w, rs⟩, ?_⟩
  unfold edsNew
  have c1 : ¬ shares.length < MIN_EXTENDED_SQUARE_WIDTH * MIN_EXTENDED_SQUARE_WIDTH := by
    simp only [MIN_EXTENDED_SQUARE_WIDTH]; omega
  have c2 : ¬ shares.length > maxExtendedSquareWidth ver * maxExtendedSquareWidth ver := by
    simp only [maxExtendedSquareWidth, squareSizeUpperBound]
    simp only [maxOdsWidth] at hmax
    have : 2 * (if ver ≤ 5 then 128 else 512) = (if ver ≤ 5 then 128 else 512) * 2 := by omega
    rw [this] at hmax; omega
  have c3 : ¬ w * w ≠ shares.length := by simp [hw]
  have c4 : ¬ w > 65535 := by
    intro h
    have : 65536 * 65536 ≤ w * w := Nat.mul_le_mul (by omega) (by omega)
    simp only [maxOdsWidth] at hmax
    split at hmax <;> omega
  have c5 : ¬ (!isPow2 w) = true := by rw [hj, isPow2_two_pow]; simp
  simp only [c1, c2, ↓reduceIte, hisq, c3, c4, c5, hcs, hrs]
  rfl

end Lumina.Proofs.EdsAccept

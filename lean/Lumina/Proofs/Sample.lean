/-
  Helper definitions and lemmas for C04 (samples): observed verdicts, the square as the spec sees it,
  what `ExtendedDataSquare::new` guarantees (`ValidSquare`), an accepted single-leaf proof against an axis
  root pins the share (`axis_leaf_bound`), honest samples decode to themselves and verify
  (`fromRaw_toRaw_honest`, `sample_complete_core`).
-/
import Lumina.Proofs.Eds
import Lumina.Proofs.NmtRange
import Lumina.Model.Sample
import Lumina.Spec.C04

namespace Lumina.Proofs.Sample
open Lumina.Util Lumina.Model.Nmt Lumina.Model.Eds Lumina.Model.Sample
open Lumina.Proofs.Nmt Lumina.Proofs.NmtRange Lumina.Proofs.Eds Lumina.Spec.C04

/-- observed verdict of a verification -/
def accepted {ε} (r : Except ε Unit) : Bool :=
  match r with
  | .ok _ => true
  | .error _ => false

/-- the square as the spec sees it: the plain row-major list of share byte strings -/
def rawSquare (e : Eds) : List Bytes := e.shares.map Share.data

theorem share_ns_length {sh : Share} (h : NS_SIZE ≤ sh.data.length) : sh.ns.length = NS_SIZE := by
  unfold Share.ns
  split
  · simp [parityNs, maxNsId]
  · simp [List.length_take]; omega

/-- lumina's wrapper only adds rejections -/
theorem luminaVerifyRange_ok {H : HashFn} {p : NsProof} {root : NsHash} {l : List Bytes} {ns : Bytes}
    (h : luminaVerifyRange H p root l ns = .ok ()) : verifyRange H p root l ns = .ok () := by
  unfold luminaVerifyRange at h
  split at h
  · cases h
  · exact h

/-- what `ExtendedDataSquare::new` guarantees about a square, as far as sampling is concerned: power-of-two
    width `2^k` (1 ≤ k ≤ 16: the width is a `u16` ≥ 2), every share 512 bytes, parity flag set from the quadrant,
    original-data shares carry a valid namespace -/
structure ValidSquare (e : Eds) (k : Nat) : Prop where
  width : e.width = 2 ^ k
  kpos : 1 ≤ k
  kle : k ≤ 16
  flags : ∀ r c sh, r < e.width → c < e.width → e.share? r c = some sh → sh.isParity = !isOdsSquare r c e.width
  size : ∀ sh ∈ e.shares, sh.data.length = SHARE_SIZE
  ns : ∀ sh ∈ e.shares, sh.isParity = false → ∃ n, Lumina.Model.Namespace.fromRaw (sh.data.take NS_SIZE) = .ok n

/-- decoding what `From<Sample> for RawSample` produced for an honest single-leaf sample gives the sample back -/
theorem fromRaw_toRaw_honest {e : Eds} {k : Nat} (hv : ValidSquare e k) {row col leafIdx : Nat}
    (hr : row < e.width) (hc : col < e.width) (hli : leafIdx < e.width) {sh : Share} (hsh : e.share? row col = some sh)
    {sibs : List NsHash} (hw : ∀ p ∈ sibs, p.WF) (hs : sibs.length = k) (ax : Axis) :
    fromRaw row col (toRaw ⟨ax, sh, ⟨leafIdx, leafIdx + 1, sibs, true, false, none⟩⟩) =
      .ok ⟨ax, sh, ⟨leafIdx, leafIdx + 1, sibs, true, false, none⟩⟩ := by
  have hmem : sh ∈ e.shares := List.mem_of_getElem? hsh
  have hk16 : (2:Nat) ^ k ≤ 2 ^ 16 := Nat.pow_le_pow_right (by omega) hv.kle
  have hw' := hv.width
  have hm1 : leafIdx % 4294967296 = leafIdx := Nat.mod_eq_of_lt (by omega)
  have hm2 : (leafIdx + 1) % 4294967296 = leafIdx + 1 := Nat.mod_eq_of_lt (by omega)
  have hflag := hv.flags row col sh hr hc hsh
  have htl : NsProof.totalLeaves ⟨leafIdx, leafIdx + 1, sibs, true, false, none⟩ = .ok (some (2 ^ k)) := by
    unfold NsProof.totalLeaves
    have : leafIdx + 1 - leafIdx = 1 := by omega
    have h64 : ¬ (k ≥ 64) := by have := hv.kle; omega
    simp only [this, ↓reduceIte, hs, h64]
  cases ax <;> (
    simp only [fromRaw, toRaw, Bool.false_eq_true, ↓reduceIte, NsProof.ofRaw, parseNodes_toBytes hw, List.isEmpty_nil,
      hm1, hm2, Int.reduceEq, htl]
    rw [← hw']
    by_cases hq : row < e.width / 2 ∧ col < e.width / 2
    · have hpar : sh.isParity = false := by rw [hflag]; simp [isOdsSquare, hq.1, hq.2]
      obtain ⟨n, hn⟩ := hv.ns sh hmem hpar
      simp only [hq, and_self, ↓reduceIte, shareFromRaw, hv.size sh hmem, ne_eq, not_true_eq_false, hn]
      cases sh with
      | mk d p => simp at hpar; subst hpar; rfl
    · have hpar : sh.isParity = true := by
        rw [hflag]; simp only [isOdsSquare, Bool.not_eq_true', Bool.and_eq_false_iff, decide_eq_false_iff_not]
        by_cases h1 : row < e.width / 2
        · right; intro h2; exact hq ⟨h1, h2⟩
        · left; exact h1
      simp only [hq, ↓reduceIte, shareParity, hv.size sh hmem, ne_eq, not_true_eq_false]
      cases sh with
      | mk d p => simp at hpar; subst hpar; rfl)

/-- the model's `Sample::new` on an axis whose tree exists, for a leaf inside it -/
theorem sample_complete_core {H : HashFn} (hlen : HashLen H) {e : Eds} {k : Nat} (hv : ValidSquare e k)
    {dah : Dah} (hd : Dah.ofEds H e = .ok dah) (row col : Nat) (hr : row < e.width) (hc : col < e.width) (ax : Axis) :
    ∃ s, Lumina.Model.Sample.new H e row col ax = .ok s ∧ fromRaw row col (toRaw s) = .ok s ∧
      verify H s row col dah = .ok () ∧ e.share? row col = some s.share := by
  obtain ⟨hrl, hcl, hrows, hcols⟩ := dah_ofEds_roots hd
  obtain ⟨rr, hrr1, hrr2⟩ := hrows row hr
  obtain ⟨cr, hcr1, hcr2⟩ := hcols col hc
  have hw := hv.width
  have hk31 : k ≤ 31 := by have := hv.kle; omega
  -- generic part, for the axis tree `treeIdx` and the leaf `leafIdx` on it
  have core : ∀ (treeIdx leafIdx : Nat) (root : NsHash), leafIdx < e.width →
      e.axisRoot H ax treeIdx = .ok root → axisCoord ax treeIdx leafIdx = (row, col) →
      ∃ sh sibs lh, e.share? row col = some sh ∧ e.axisLeafHashes H ax treeIdx = .ok lh ∧
        buildRangeProof H true lh leafIdx (leafIdx + 1) = .ok sibs ∧
        sibs.length = k ∧ (∀ p ∈ sibs, p.WF) ∧
        checkRangeProof H true root [hashLeaf H sh.ns sh.data] sibs leafIdx = .ok () ∧
        validateShape ⟨leafIdx, leafIdx + 1, sibs, true, false, none⟩ sh.ns sh.ns = .ok () := by
    intro treeIdx leafIdx root hli hroot hcoord
    obtain ⟨shares, hax, hcrt, halh⟩ := axisRoot_ok hroot
    obtain ⟨hlen', hget⟩ := axis?_some hax
    obtain ⟨sh, hsh, hshi⟩ := hget leafIdx hli
    rw [hcoord] at hsh
    have hmem : ∀ x ∈ shares, x ∈ e.shares := by
      intro x hx
      obtain ⟨n, hn, rfl⟩ := List.getElem_of_mem hx
      obtain ⟨y, hy1, hy2⟩ := hget n (by omega)
      rw [List.getElem?_eq_getElem hn] at hy2
      injection hy2 with hy2
      rw [hy2]
      exact List.mem_of_getElem? hy1
    have wl : ∀ x ∈ shares.map (Share.leafHash H), x.WF := by
      intro x hx
      obtain ⟨y, hy, rfl⟩ := List.mem_map.mp hx
      have := hv.size y (hmem y hy)
      exact hashLeaf_WF hlen (share_ns_length (by rw [this]; decide))
    have hL : (shares.map (Share.leafHash H)).length = 2 ^ k := by simp [hlen', hw]
    have hx : (shares.map (Share.leafHash H))[leafIdx]? = some (hashLeaf H sh.ns sh.data) := by
      rw [List.getElem?_map, hshi]; rfl
    obtain ⟨sibs, hb, hs, hchk⟩ := range_single_complete hv.kpos hk31 hL hcrt (by omega) hx
    -- the honest proof passes lumina's shape validation: its siblings are roots of sorted segments
    have hpush : pushLeaves H (shares.map Share.leaf) = some (shares.map (Share.leafHash H)) := by
      have := halh
      unfold Eds.axisLeafHashes at this
      simp only [hax] at this
      cases hp : pushLeaves H (shares.map Share.leaf) with
      | none => simp [hp] at this
      | some v => simp only [hp, Except.ok.injEq] at this; rw [this]
    obtain ⟨hsorted, hleafns⟩ := pushLeaves_sorted hpush (by
      intro p hp
      obtain ⟨y, hy, rfl⟩ := List.mem_map.mp hp
      have := hv.size y (hmem y hy)
      exact share_ns_length (by rw [this]; decide))
    obtain ⟨k', rfl⟩ : ∃ k', k = k' + 1 := ⟨k - 1, by have := hv.kpos; omega⟩
    have hpr := hcrt
    rw [computeRoot_perfect hL] at hpr
    obtain ⟨pl, pr, hbs, hsl, hsr, hpll⟩ := build_single_segs k' ((shares.map (Share.leafHash H)).length + 1)
      (shares.map (Share.leafHash H)) 0 leafIdx root hL (Nat.zero_le _) (by omega) hpr (by omega)
    have hsibs : sibs = pl ++ pr := by
      unfold buildRangeProof at hb
      have hnl : ¬ (leafIdx + 1 > (shares.map (Share.leafHash H)).length) := by omega
      simp only [hcrt, hnl, ↓reduceIte, hbs, Except.ok.injEq] at hb
      exact hb.symm
    have hshape := validateShape_honest (H := H) hleafns hsorted hx (by simpa using hsl) (by simpa using hsr)
      (by simpa using hpll) true
    rw [← hsibs] at hshape
    exact ⟨sh, sibs, _, hsh, halh, hb, hs, buildRangeProof_WF hlen wl hb, hchk, hshape⟩
  cases ax with
  | row =>
    obtain ⟨sh, sibs, lh, hsh, halh, hb, hs, hwf, hchk, hshape⟩ := core row col rr hc hrr1 rfl
    refine ⟨⟨.row, sh, ⟨col, col + 1, sibs, true, false, none⟩⟩, ?_, fromRaw_toRaw_honest hv hr hc hc hsh hwf hs .row, ?_, hsh⟩
    · simp only [Lumina.Model.Sample.new, hsh, halh, hb]
    · have hr1 : dah.rowRoot? row = some rr := hrr2
      have hc1 : dah.colRoot? col = some cr := hcr2
      simp only [verify, hr1, hc1, ne_eq, not_true_eq_false, ↓reduceIte, luminaVerifyRange, hshape, verifyRange, Bool.false_eq_true,
        List.length_singleton, NsProof.rangeLen, Nat.add_sub_cancel_left, List.map_cons, List.map_nil, hchk]
  | col =>
    obtain ⟨sh, sibs, lh, hsh, halh, hb, hs, hwf, hchk, hshape⟩ := core col row cr hr hcr1 rfl
    refine ⟨⟨.col, sh, ⟨row, row + 1, sibs, true, false, none⟩⟩, ?_, fromRaw_toRaw_honest hv hr hc hr hsh hwf hs .col, ?_, hsh⟩
    · simp only [Lumina.Model.Sample.new, hsh, halh, hb]
    · have hr1 : dah.rowRoot? row = some rr := hrr2
      have hc1 : dah.colRoot? col = some cr := hcr2
      simp only [verify, hr1, hc1, ne_eq, not_true_eq_false, ↓reduceIte, luminaVerifyRange, hshape, verifyRange, Bool.false_eq_true,
        List.length_singleton, NsProof.rangeLen, Nat.add_sub_cancel_left, List.map_cons, List.map_nil, hchk]

/-! ### relative collision-freeness (`HashOKOn`) -/

/-- inputs hashed while `Sample::verify` checks this sample: the leaf preimage and the `hash_nodes` calls of
    `check_range_proof` -/
def sampleInputs (H : HashFn) (s : Sample) : List Bytes :=
  leafInput s.share.ns s.share.data ::
    proofInputs H s.proof.ignoreMaxNs [hashLeaf H s.share.ns s.share.data] s.proof.siblings s.proof.start

/-- what an accepted single-leaf range proof against an axis root says about the axis' shares, assuming no collision
    among the inputs hashed for that axis tree and by the verifier -/
theorem axis_leaf_bound_on {H : HashFn} {S : Bytes → Prop} (hk : HashOKOn H S) {e : Eds} {k : Nat} (hw : e.width = 2 ^ k)
    (hsz : ∀ sh ∈ e.shares, NS_SIZE ≤ sh.data.length) {ax : Axis} {index i : Nat} {root : NsHash}
    (hroot : e.axisRoot H ax index = .ok root) (hi : i < e.width)
    {s : Sample} (hss : NS_SIZE ≤ s.share.data.length) (hsib : ∀ p ∈ s.proof.siblings, p.WF)
    (hA : ∀ y ∈ axisInputs H e ax index, S y) (hV : ∀ y ∈ sampleInputs H s, S y)
    (hv : verifyRange H s.proof root [s.share.data] s.share.ns = .ok ()) (hst : s.proof.start = i) :
    ∃ sh, e.share? (axisCoord ax index i).1 (axisCoord ax index i).2 = some sh ∧ sh.data = s.share.data := by
  obtain ⟨shares, hax, hcr, _⟩ := axisRoot_ok hroot
  obtain ⟨hlen, hget⟩ := axis?_some hax
  obtain ⟨sh, hsh, hshi⟩ := hget i hi
  refine ⟨sh, hsh, ?_⟩
  have hmem : ∀ x ∈ shares, x ∈ e.shares := by
    intro x hx
    obtain ⟨n, hn, rfl⟩ := List.getElem_of_mem hx
    obtain ⟨y, hy1, hy2⟩ := hget n (by omega)
    rw [List.getElem?_eq_getElem hn] at hy2
    injection hy2 with hy2
    rw [hy2]
    exact List.mem_of_getElem? hy1
  have al : AllLeafOn H S (shares.map (Share.leafHash H)) :=
    (axis_allLeafOn hax (fun sh hs => hsz sh (hmem sh hs))).mono hA
  have hSs : S (leafInput s.share.ns s.share.data) := hV _ (by simp [sampleInputs])
  have lx : IsLeafOn H S (hashLeaf H s.share.ns s.share.data) := ⟨_, _, share_ns_length hss, rfl, hSs⟩
  have hT : ∀ y ∈ rootInputs H true ((shares.map (Share.leafHash H)).length + 1) (shares.map (Share.leafHash H)), S y :=
    fun y hy => hA y (axis_rootInputs_mem hax hy)
  unfold verifyRange at hv
  split at hv
  · cases hv
  · split at hv
    · cases hv
    · simp only [List.map_cons, List.map_nil] at hv
      have hV' : ∀ y ∈ proofInputs H s.proof.ignoreMaxNs [hashLeaf H s.share.ns s.share.data] s.proof.siblings i, S y := by
        intro y hy; apply hV; rw [← hst] at hy; simp [sampleInputs, hy]
      rw [hst] at hv
      have hL : (shares.map (Share.leafHash H)).length = 2 ^ k := by simp [hlen, hw]
      have hik : i < 2 ^ k := by omega
      have := checkRangeProof_single_sound_on hk al hL hcr lx hsib hik hV' hT hv
      rw [List.getElem?_map, hshi] at this
      simp only [Option.map_some, Option.some.injEq, Share.leafHash] at this
      have hns : sh.ns = s.share.ns := congrArg NsHash.minNs this
      have hh : (hashLeaf H sh.ns sh.data).hash = (hashLeaf H s.share.ns s.share.data).hash := congrArg NsHash.hash this
      have hSsh : S (leafInput sh.ns sh.data) := by
        apply hA; unfold axisInputs; rw [hax]
        exact List.mem_append_left _ (List.mem_map.mpr ⟨sh, List.mem_of_getElem? hshi, rfl⟩)
      exact (hashLeaf_inj_on hk.inj (by rw [hns]) hSsh hSs hh).2

/-! ### a toy hash for non-vacuity examples -/

/-- a toy 32-byte hash: byte `j` of the digest is the sum (mod 256) of `byte + 1` over the input positions ≡ j (mod 32).
    Of course it has collisions; it has none among the few inputs of the concrete examples (checked by `decide`). -/
def toySum : HashFn := fun x =>
  (x.foldl (fun (st : List UInt8 × Nat) b => (st.1.set (st.2 % 32) (st.1.getD (st.2 % 32) 0 + b + 1), st.2 + 1))
    (List.replicate 32 0, 0)).1

theorem toySum_len : HashLen toySum := by
  intro x
  unfold toySum
  have : ∀ (l : List UInt8) (st : List UInt8 × Nat), st.1.length = 32 →
      (l.foldl (fun (st : List UInt8 × Nat) b => (st.1.set (st.2 % 32) (st.1.getD (st.2 % 32) 0 + b + 1), st.2 + 1)) st).1.length = 32 := by
    intro l
    induction l with
    | nil => intro st h; exact h
    | cons a t ih => intro st h; exact ih _ (by simp [h])
  exact this x _ (by simp)

/-- collision-freeness on an explicit list is decidable -/
theorem noCollOn_of_list {H : HashFn} {l : List Bytes}
    (h : l.all (fun a => l.all (fun b => !(H a == H b) || a == b)) = true) : NoCollOn H (fun y => y ∈ l) := by
  intro a b ha hb hab
  have h1 := List.all_eq_true.mp h a ha
  have h2 := List.all_eq_true.mp h1 b hb
  simp only [Bool.or_eq_true, Bool.not_eq_true', beq_eq_false_iff_ne, ne_eq, beq_iff_eq] at h2
  rcases h2 with h2 | h2
  · exact absurd hab h2
  · exact h2

end Lumina.Proofs.Sample

/-
  Helper lemmas for C14 (namespace validation / ordering / base64).
-/
import Lumina.Model.Namespace
import Lumina.Spec.C14

namespace Lumina.Proofs.Namespace
open Lumina.Util Lumina.Model.Namespace Lumina.Gen.C14

theorem all_beq_eq_replicate (c : UInt8) (l : List UInt8) :
    l.all (fun x => x == c) = true → l = List.replicate l.length c := by
  induction l with
  | nil => simp
  | cons a t ih =>
    intro h
    simp only [List.all_cons, Bool.and_eq_true, beq_iff_eq] at h
    rw [List.length_cons, List.replicate_succ, h.1]
    congr 1
    exact ih h.2

theorem all_beq_replicate (c : UInt8) (n : Nat) : (List.replicate n c).all (fun x => x == c) = true := by
  induction n with
  | zero => simp
  | succ n ih => simp [List.replicate_succ]

theorem any_bne_eq_not_all (c : UInt8) (l : List UInt8) :
    l.any (fun x => x != c) = !(l.all (fun x => x == c)) := by
  induction l with
  | nil => simp
  | cons a t ih =>
    simp only [List.any_cons, List.all_cons, ih, Bool.not_and]
    rfl

/-- `cmp` decides the core lexicographic order on byte lists -/
theorem cmp_lt_iff (a b : Bytes) : cmp a b = .lt ↔ a < b := by
  induction a generalizing b with
  | nil => cases b <;> simp [cmp]
  | cons x xs ih =>
    cases b with
    | nil => simp [cmp]
    | cons y ys =>
      simp only [cmp, List.cons_lt_cons_iff]
      by_cases h1 : x < y
      · simp [h1]
      · by_cases h2 : y < x
        · have : x ≠ y := by intro e; subst e; exact h1 h2
          simp [h1, h2, this]
        · have hxy : x = y := by
            have := UInt8.le_antisymm (UInt8.not_lt.mp h2) (UInt8.not_lt.mp h1)
            exact this
          subst hxy
          simp [h1, ih]

theorem cmp_eq_iff (a b : Bytes) : cmp a b = .eq ↔ a = b := by
  induction a generalizing b with
  | nil => cases b <;> simp [cmp]
  | cons x xs ih =>
    cases b with
    | nil => simp [cmp]
    | cons y ys =>
      simp only [cmp, List.cons.injEq]
      by_cases h1 : x < y
      · have : x ≠ y := by intro e; subst e; exact (UInt8.lt_irrefl _ h1)
        simp [h1, this]
      · by_cases h2 : y < x
        · have : x ≠ y := by intro e; subst e; exact h1 h2
          simp [h1, h2, this]
        · have hxy : x = y := UInt8.le_antisymm (UInt8.not_lt.mp h2) (UInt8.not_lt.mp h1)
          subst hxy
          simp [h1, ih]

theorem cmp_gt_iff (a b : Bytes) : cmp a b = .gt ↔ b < a := by
  induction a generalizing b with
  | nil => cases b <;> simp [cmp]
  | cons x xs ih =>
    cases b with
    | nil => simp [cmp]
    | cons y ys =>
      simp only [cmp, List.cons_lt_cons_iff]
      by_cases h1 : x < y
      · have : ¬ y < x := fun h => UInt8.lt_irrefl _ (UInt8.lt_trans h1 h)
        have hne : y ≠ x := by intro e; subst e; exact (UInt8.lt_irrefl _ h1)
        simp [h1, this, hne]
      · by_cases h2 : y < x
        · simp [h1, h2]
        · have hxy : x = y := UInt8.le_antisymm (UInt8.not_lt.mp h2) (UInt8.not_lt.mp h1)
          subst hxy
          simp [h1, ih]

/-! ### base64 (serde form) -/

set_option maxRecDepth 100000 in
theorem b64Val_b64Char : ∀ k : Fin 64, b64Val (b64Char k.val) = some k.val ∧ b64Char k.val ≠ '=' := by decide

theorem b64Val_char (k : Nat) (h : k < 64) : b64Val (b64Char k) = some k := (b64Val_b64Char ⟨k, h⟩).1
theorem b64Char_ne (k : Nat) (h : k < 64) : b64Char k ≠ '=' := (b64Val_b64Char ⟨k, h⟩).2

theorem ofNat_toNat (a : UInt8) (n : Nat) (h : n = a.toNat) : UInt8.ofNat n = a := by
  subst h; simp

theorem b64_roundtrip : ∀ bs : Bytes, b64Decode (b64Encode bs) = some bs
  | [] => by simp [b64Encode, b64Decode]
  | [a] => by
    have ha := a.toNat_lt
    have h0 := b64Val_char (a.toNat / 4) (by omega)
    have h1 := b64Val_char (a.toNat % 4 * 16) (by omega)
    simp only [b64Encode, b64Decode, h0, h1, and_self, ↓reduceIte]
    have : a.toNat % 4 * 16 % 16 = 0 := by omega
    simp only [this, ↓reduceIte]
    congr 2
    apply ofNat_toNat; omega
  | [a, b] => by
    have ha := a.toNat_lt
    have hb := b.toNat_lt
    have h0 := b64Val_char ((a.toNat * 256 + b.toNat) / 1024) (by omega)
    have h1 := b64Val_char ((a.toNat * 256 + b.toNat) / 16 % 64) (by omega)
    have h2 := b64Val_char ((a.toNat * 256 + b.toNat) % 16 * 4) (by omega)
    have hne := b64Char_ne ((a.toNat * 256 + b.toNat) % 16 * 4) (by omega)
    simp only [b64Encode, b64Decode, h0, h1, h2, hne, and_self, ↓reduceIte]
    have : (a.toNat * 256 + b.toNat) % 16 * 4 % 4 = 0 := by omega
    simp only [this, ↓reduceIte]
    congr 2
    · apply ofNat_toNat; omega
    · congr 1; apply ofNat_toNat; omega
  | a :: b :: c :: rest => by
    have ih := b64_roundtrip rest
    have ha := a.toNat_lt
    have hb := b.toNat_lt
    have hc := c.toNat_lt
    have h0 := b64Val_char ((a.toNat * 65536 + b.toNat * 256 + c.toNat) / 262144) (by omega)
    have h1 := b64Val_char ((a.toNat * 65536 + b.toNat * 256 + c.toNat) / 4096 % 64) (by omega)
    have h2 := b64Val_char ((a.toNat * 65536 + b.toNat * 256 + c.toNat) / 64 % 64) (by omega)
    have h3 := b64Val_char ((a.toNat * 65536 + b.toNat * 256 + c.toNat) % 64) (by omega)
    have hne := b64Char_ne ((a.toNat * 65536 + b.toNat * 256 + c.toNat) % 64) (by omega)
    simp only [b64Encode, b64Decode, h0, h1, h2, h3, hne, and_false, ↓reduceIte, ih]
    congr 2
    · apply ofNat_toNat; omega
    · congr 1
      · apply ofNat_toNat; omega
      · congr 1; apply ofNat_toNat; omega

end Lumina.Proofs.Namespace

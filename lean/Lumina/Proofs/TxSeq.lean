/-
  Helper lemmas for C43 (transaction submission protocol).
-/
import Lumina.Model.TxSeq

namespace Lumina.Proofs.TxSeq
open Lumina.Model.TxSeq

/-! ## sub-table access -/

theorem lookup_setSubL_same (l : List (Nat × Sub)) (i : Nat) (s : Sub) :
    (setSubL l i s).lookup i = some s := by
  induction l with
  | nil => simp [setSubL, List.lookup]
  | cons p l ih =>
    obtain ⟨j, t⟩ := p
    by_cases h : j = i
    · subst h; simp [setSubL, List.lookup]
    · have h' : (i == j) = false := by simp; exact fun e => h e.symm
      simp [setSubL, h, List.lookup, h', ih]

theorem lookup_setSubL_ne (l : List (Nat × Sub)) (i j : Nat) (s : Sub) (h : j ≠ i) :
    (setSubL l i s).lookup j = l.lookup j := by
  induction l with
  | nil =>
    have : (j == i) = false := by simp [h]
    simp [setSubL, List.lookup, this]
  | cons p l ih =>
    obtain ⟨k, t⟩ := p
    by_cases hk : k = i
    · subst hk
      have : (j == k) = false := by simp [h]
      simp [setSubL, List.lookup, this]
    · simp only [setSubL, hk, ↓reduceIte, List.lookup]
      split <;> simp_all

@[simp] theorem getSub_setSub_same (st : St) (i : Nat) (s : Sub) : getSub (setSub st i s) i = s := by
  simp [getSub, setSub, lookup_setSubL_same]

theorem getSub_setSub_ne (st : St) (i j : Nat) (s : Sub) (h : j ≠ i) :
    getSub (setSub st i s) j = getSub st j := by
  simp [getSub, setSub, lookup_setSubL_ne _ _ _ _ h]

theorem getSub_setSub (st : St) (i j : Nat) (s : Sub) :
    getSub (setSub st i s) j = if j = i then s else getSub st j := by
  by_cases h : j = i
  · subst h; simp
  · simp [h, getSub_setSub_ne _ _ _ _ h]

/-! ## the sequence discipline: replaying the events of one step -/

/-- replay of the events of one step against the believed sequence `b`: a signature must carry
    `b`; a rejection that is not about the sequence rolls `b` back to the rejected transaction's
    sequence `g sub` -/
def replay (g : Nat → Nat) : Nat → List Event → Option Nat
  | b, [] => some b
  | b, .sign _ _ tx :: r => if tx.seq = b then replay g b r else none
  | b, .finished i res :: r =>
    replay g (match res with
      | .rejected c => if isWrongSequence c then b else g i
      | _ => b) r

theorem replay_append (g : Nat → Nat) (b : Nat) (es fs : List Event) :
    replay g b (es ++ fs) = (replay g b es).bind (fun b' => replay g b' fs) := by
  induction es generalizing b with
  | nil => simp [replay]
  | cons e es ih =>
    cases e with
    | sign i k tx =>
      simp only [List.cons_append, replay]
      split <;> simp [ih]
    | finished i r => simp only [List.cons_append, replay, ih]

/-- the events so far replay to the current believed sequence, `g` is the table of the
    sequences of the accepted transactions, and a rollback is only ever queued for a rejection that
    is not about the sequence -/
def Inv (g : Nat → Nat) (b0 : Nat) (st : St) : Prop :=
  (∀ j, (getSub st j).accSeq = g j) ∧ replay g b0 st.events = some st.seq ∧
  (∀ j c, (getSub st j).phase = .waitRollback c → isWrongSequence c = false)

theorem Inv.congr {g b0} {st st' : St} (h : Inv g b0 st) (hs : st'.subs = st.subs)
    (he : st'.events = st.events) (hq : st'.seq = st.seq) : Inv g b0 st' := by
  obtain ⟨h1, h2, h3⟩ := h
  refine ⟨?_, ?_, ?_⟩
  · intro j; have := h1 j; simpa [getSub, hs] using this
  · rw [he, hq]; exact h2
  · intro j c hp; apply h3 j c; simpa [getSub, hs] using hp

theorem inv_setSub {g b0} {st : St} (h : Inv g b0 st) (i : Nat) (s : Sub)
    (hs : s.accSeq = (getSub st i).accSeq)
    (hp : ∀ c, s.phase = .waitRollback c → isWrongSequence c = false) : Inv g b0 (setSub st i s) := by
  obtain ⟨h1, h2, h3⟩ := h
  refine ⟨?_, h2, ?_⟩
  · intro j
    rw [getSub_setSub]
    split
    · rename_i hj; subst hj; rw [hs]; exact h1 j
    · exact h1 j
  · intro j c
    rw [getSub_setSub]
    split
    · exact hp c
    · exact h3 j c

theorem inv_setPhase {g b0} {st : St} (h : Inv g b0 st) (i : Nat) (p : Phase)
    (hp : ∀ c, p = .waitRollback c → isWrongSequence c = false) :
    Inv g b0 (setPhase st i p) :=
  inv_setSub h i _ rfl hp

theorem inv_emit {g b0} {st : St} (e : Event) (h1 : ∀ j, (getSub st j).accSeq = g j)
    (h3 : ∀ j c, (getSub st j).phase = .waitRollback c → isWrongSequence c = false)
    (h2 : replay g b0 (st.events ++ [e]) = some st.seq) : Inv g b0 (emit st e) :=
  ⟨fun j => by simpa [emit, getSub] using h1 j, by simpa [emit] using h2,
   fun j c hp => h3 j c (by simpa [emit, getSub] using hp)⟩

theorem inv_signTx {g b0} {st : St} (h : Inv g b0 st) (i gas fee : Nat) :
    Inv g b0 (signTx st i gas fee).1 := by
  obtain ⟨h1, h2, h3⟩ := h
  unfold signTx txId
  simp only []
  split
  · exact inv_emit _ h1 h3 (by simp [replay_append, h2, replay])
  · exact inv_emit (st := { st with txs := _ }) _ (fun j => by simpa [getSub] using h1 j)
      (fun j c hp => h3 j c (by simpa [getSub] using hp)) (by simp [replay_append, h2, replay])

theorem inv_signAndBroadcast {g b0} {st : St} (h : Inv g b0 st) (i gas q : Nat) :
    Inv g b0 (signAndBroadcast st i gas q) := by
  unfold signAndBroadcast
  exact inv_setPhase (inv_signTx h i gas _) i _ (by simp)

theorem inv_csLoop {g b0} {st : St} (h : Inv g b0 st) (i : Nat) : Inv g b0 (csLoop st i) := by
  unfold csLoop
  simp only []
  split
  · exact inv_signAndBroadcast h i _ _
  · exact inv_setPhase h i _ (by simp)
  · exact inv_setPhase (inv_signTx h i 0 1) i _ (by simp)

theorem inv_finish {g b0} {st : St} (h : Inv g b0 st) (i : Nat) (r : Res)
    (hr : ∀ c, r = .rejected c → isWrongSequence c = true) : Inv g b0 (finish st i r) := by
  obtain ⟨h1, h2, h3⟩ := inv_setPhase h i (.done r) (by simp)
  apply inv_emit _ h1 h3
  simp only [replay_append, h2, Option.bind_some, replay]
  cases r <;> simp_all [setPhase, setSub]

theorem inv_finish_rollback {g b0} {st : St} (h : Inv g b0 st) (i c : Nat)
    (hw : isWrongSequence c = false) :
    Inv g b0 (finish { st with seq := (getSub st i).accSeq } i (.rejected c)) := by
  obtain ⟨h1, h2, h3⟩ := h
  have hg : (getSub st i).accSeq = g i := h1 i
  have hb : Inv g b0 (setPhase st i (.done (.rejected c))) := inv_setPhase ⟨h1, h2, h3⟩ i _ (by simp)
  obtain ⟨k1, k2, k3⟩ := hb
  unfold finish
  apply inv_emit
  · intro j; simpa [setPhase, setSub, getSub] using k1 j
  · intro j c' hp; exact k3 j c' (by simpa [setPhase, setSub, getSub] using hp)
  · have : (setPhase { st with seq := (getSub st i).accSeq } i (.done (.rejected c))).events = st.events := rfl
    rw [this, replay_append, h2]
    simp [replay, hw, hg, setPhase, setSub]

theorem inv_releaseLock {g b0} (fuel : Nat) {st : St} (h : Inv g b0 st) :
    Inv g b0 (releaseLock fuel st) := by
  induction fuel generalizing st with
  | zero => exact h.congr rfl rfl rfl
  | succ fuel ih =>
    unfold releaseLock
    split
    · exact h.congr rfl rfl rfl
    · rename_i j q hq
      simp only []
      have h0 : Inv g b0 { st with lockHeld := some j, lockQ := q } := h.congr rfl rfl rfl
      split
      · rename_i c hc
        exact ih (inv_finish_rollback h0 j c (h0.2.2 j c hc))
      · exact inv_csLoop h0 j

theorem inv_release {g b0} {st : St} (h : Inv g b0 st) : Inv g b0 (release st) :=
  inv_releaseLock _ h

theorem inv_failCS {g b0} {st : St} (h : Inv g b0 st) (i : Nat) (r : Res)
    (hr : ∀ c, r = .rejected c → isWrongSequence c = true) : Inv g b0 (failCS st i r) :=
  inv_release (inv_finish h i r hr)

theorem inv_enterLock {g b0} {st : St} (h : Inv g b0 st) (i : Nat) : Inv g b0 (enterLock st i) := by
  unfold enterLock
  split
  · exact inv_csLoop (st := { st with lockHeld := some i }) (h.congr rfl rfl rfl) i
  · exact inv_setPhase (st := { st with lockQ := st.lockQ ++ [i] }) (h.congr rfl rfl rfl) i _ (by simp)

theorem inv_enterAcct {g b0} {st : St} (h : Inv g b0 st) (i : Nat) : Inv g b0 (enterAcct st i) := by
  unfold enterAcct
  split
  · exact inv_enterLock h i
  · split
    · exact inv_setPhase (h.congr rfl rfl rfl) i _ (by simp)
    · exact inv_setPhase (h.congr rfl rfl rfl) i _ (by simp)

theorem inv_enterChain {g b0} {st : St} (h : Inv g b0 st) (i : Nat) : Inv g b0 (enterChain st i) := by
  unfold enterChain
  split
  · exact inv_enterAcct h i
  · split
    · exact inv_setPhase (h.congr rfl rfl rfl) i _ (by simp)
    · exact inv_setPhase (h.congr rfl rfl rfl) i _ (by simp)

theorem inv_foldl {g b0} (f : St → Nat → St) (hf : ∀ st i, Inv g b0 st → Inv g b0 (f st i))
    (ws : List Nat) {st : St} (h : Inv g b0 st) : Inv g b0 (ws.foldl f st) := by
  induction ws generalizing st with
  | nil => exact h
  | cons w ws ih => exact ih (hf _ _ h)

/-- the rules by which a node answer changes the believed sequence: the account query sets it,
    an accepted broadcast (success or mempool-cache hit) inside the critical section advances it by
    one, a sequence mismatch (on simulation or broadcast) resynchronises it to the node's value -/
def believedAfter (st : St) (op : Op) : Nat :=
  match op with
  | .ans i a =>
    match (getSub st i).phase, a with
    | .reqG, .okSeq n => n
    | .reqB _, .ok => st.seq + 1
    | .reqB _, .cache => st.seq + 1
    | .reqE _, .mis n => n
    | .reqB _, .mis n => n
    | _, _ => st.seq
  | _ => st.seq

def NoWrong (st : St) : Prop :=
  ∀ j c, (getSub st j).phase = .waitRollback c → isWrongSequence c = false

theorem inv_init {st : St} (hw : NoWrong st) (he : st.events = []) :
    Inv (fun j => (getSub st j).accSeq) st.seq st :=
  ⟨fun _ => rfl, by simp [he, replay], hw⟩

theorem inv_ansL {g b0} {st : St} (h : Inv g b0 st) (i : Nat) (a : Ans) : Inv g b0 (ansL st i a) := by
  unfold ansL
  split
  · exact inv_foldl _ (fun _ _ h => inv_enterAcct h _) _
      (inv_enterAcct (st := { st with chain := { ready := true, busy := false, waiters := [] } }) (h.congr rfl rfl rfl) i)
  · simp only []
    have hf := inv_finish h i .tonic (by simp)
    split
    · exact hf.congr rfl rfl rfl
    · exact inv_setPhase (st := { finish st i .tonic with chain := _ }) (hf.congr rfl rfl rfl) _ _ (by simp)

theorem inv_ansG_fail {g b0} {st : St} (h : Inv g b0 st) (i : Nat) :
    Inv g b0 (let st := finish st i .tonic
      match st.acct.waiters with
      | [] => { st with acct := { st.acct with busy := false } }
      | w :: ws => setPhase { st with acct := { st.acct with waiters := ws } } w .reqG) := by
  simp only []
  have hf := inv_finish h i .tonic (by simp)
  split
  · exact hf.congr rfl rfl rfl
  · exact inv_setPhase (st := { finish st i .tonic with acct := _ }) (hf.congr rfl rfl rfl) _ _ (by simp)

theorem inv_accept {st : St} (hw : NoWrong st) (he : st.events = []) (i k : Nat) :
    ∃ g, Inv g (st.seq + 1) (accept st i k) := by
  unfold accept
  simp only []
  refine ⟨_, inv_release (inv_init (st := setSub { st with seq := st.seq + 1 } i _) ?_ (by simpa [setSub] using he))⟩
  intro j c
  rw [getSub_setSub]
  split
  · simp
  · intro hp; exact hw j c (by simpa [getSub] using hp)

theorem inv_answer (st : St) (i : Nat) (a : Ans) (hw : NoWrong st) (he : st.events = []) :
    ∃ g, Inv g (believedAfter st (.ans i a)) (answer st i a) := by
  have h0 := inv_init hw he
  unfold answer
  cases hp : (getSub st i).phase with
  | reqL => simp only [believedAfter, hp]; exact ⟨_, inv_ansL h0 i a⟩
  | reqG =>
    simp only [believedAfter, hp]
    unfold ansG
    cases a with
    | okSeq n =>
      simp only []
      exact ⟨_, inv_foldl _ (fun _ _ h => inv_enterLock h _) _
        (inv_enterLock (inv_init (st := { st with seq := n, acct := { ready := true, busy := false, waiters := [] } })
          (fun j c hp => hw j c (by simpa [getSub] using hp)) he) i)⟩
    | _ => exact ⟨_, inv_ansG_fail h0 i⟩
  | reqP =>
    simp only [believedAfter, hp]
    unfold ansP
    cases a <;> first
      | exact ⟨_, inv_signAndBroadcast h0 i _ _⟩
      | exact ⟨_, inv_failCS h0 i _ (by simp)⟩
  | reqE k =>
    simp only [believedAfter, hp]
    unfold ansE
    cases a with
    | okEst q u => exact ⟨_, inv_signAndBroadcast h0 i _ _⟩
    | mis n =>
      exact ⟨_, inv_csLoop (inv_init (st := { st with seq := n })
        (fun j c hp => hw j c (by simpa [getSub] using hp)) he) i⟩
    | _ => exact ⟨_, inv_failCS h0 i _ (by simp)⟩
  | reqB k =>
    simp only [believedAfter, hp]
    unfold ansB
    cases a with
    | ok => exact inv_accept hw he i k
    | cache => exact inv_accept hw he i k
    | mis n =>
      exact ⟨_, inv_csLoop (inv_init (st := { st with seq := n })
        (fun j c hp => hw j c (by simpa [getSub] using hp)) he) i⟩
    | _ => exact ⟨_, inv_failCS h0 i _ (by simp)⟩
  | reqT =>
    simp only [believedAfter, hp]
    unfold ansT
    cases a with
    | pending => exact ⟨_, h0⟩
    | committed c h => exact ⟨_, inv_finish h0 i _ (by split <;> simp)⟩
    | rejected c =>
      simp only []
      split
      · rename_i hws; exact ⟨_, inv_finish h0 i _ (by intro c' hc; cases hc; exact hws)⟩
      · rename_i hws
        split
        · exact ⟨_, inv_finish_rollback h0 i c (by simpa using hws)⟩
        · exact ⟨_, inv_setPhase (st := { st with lockQ := st.lockQ ++ [i] }) (h0.congr rfl rfl rfl) i _
            (by intro c' hc; cases hc; simpa using hws)⟩
    | evicted => exact ⟨_, inv_setPhase h0 i _ (by simp)⟩
    | unknown => exact ⟨_, inv_setPhase h0 i _ (by simp)⟩
    | _ => exact ⟨_, inv_finish h0 i _ (by simp)⟩
  | reqRB nf =>
    simp only [believedAfter, hp]
    unfold ansRB
    cases a <;> first
      | exact ⟨_, inv_setPhase h0 i _ (by simp)⟩
      | exact ⟨_, inv_finish h0 i _ (by split <;> simp)⟩
  | _ => simp only [believedAfter, hp]; exact ⟨_, h0⟩

theorem inv_start (st : St) (i : Nat) (gl gp : Option Nat) (hw : NoWrong st) (he : st.events = []) :
    ∃ g, Inv g st.seq (if (getSub st i).phase = .idle then enterChain (setSub st i { gl := gl, gp := gp }) i else st) := by
  split
  · exact ⟨_, inv_enterChain (inv_init (st := setSub st i _)
      (by
        intro j c
        rw [getSub_setSub]
        split
        · simp
        · exact hw j c) (by simpa [setSub] using he)) i⟩
  · exact ⟨_, inv_init hw he⟩

/-- **one step replays**: starting from the believed sequence given by the answer rules, every
    signature of the step carries the believed sequence of its moment and the step ends with the
    model's believed sequence -/
theorem inv_step (st : St) (op : Op) (hw : NoWrong st) :
    ∃ g, Inv g (believedAfter st op) (step st op) := by
  have hw' : NoWrong { st with events := [] } := fun j c hp => hw j c (by simpa [getSub] using hp)
  cases op with
  | start i gl gp => exact inv_start { st with events := [] } i gl gp hw' rfl
  | ans i a => exact inv_answer { st with events := [] } i a hw' rfl

/-! ## `extract_sequence` -/

theorem isPrefixOf_append_of_le (pat l r : List Char) (h : pat.length ≤ l.length) :
    pat.isPrefixOf (l ++ r) = pat.isPrefixOf l := by
  induction pat generalizing l with
  | nil => simp
  | cons c pat ih =>
    cases l with
    | nil => simp at h
    | cons d l =>
      simp only [List.cons_append, List.isPrefixOf]
      rw [ih l (by simpa using h)]

theorem isPrefixOf_self_append (pat r : List Char) : pat.isPrefixOf (pat ++ r) = true := by
  induction pat with
  | nil => simp
  | cons c pat ih => simp [List.isPrefixOf, ih]

theorem splitOnce_first (pat pre rest : List Char) (hne : pat ≠ [])
    (h : ∀ k < pre.length, pat.isPrefixOf (pre.drop k ++ pat) = false) :
    splitOnce pat (pre ++ pat ++ rest) = some (pre, rest) := by
  induction pre with
  | nil =>
    cases pat with
    | nil => exact absurd rfl hne
    | cons c t =>
      simp only [List.nil_append, List.cons_append, splitOnce]
      have := isPrefixOf_self_append (c :: t) rest
      simp only [List.cons_append] at this
      rw [this]
      simp
  | cons d pre ih =>
    have h0 := h 0 (by simp)
    simp only [List.drop_zero] at h0
    simp only [List.cons_append, splitOnce]
    have hlen : pat.length ≤ (d :: pre ++ pat).length := by simp; omega
    have := isPrefixOf_append_of_le pat (d :: pre ++ pat) rest hlen
    simp only [List.cons_append, List.append_assoc] at this h0 ⊢
    rw [this, h0]
    have ih' := ih (fun k hk => by
      have := h (k + 1) (by simpa using hk)
      simpa using this)
    simp only [List.append_assoc] at ih'
    simp [ih']

def isDigit (c : Char) : Bool := '0' ≤ c && c ≤ '9'

theorem digitsVal_eq (ds : List Char) (acc : Nat) (h : ∀ c ∈ ds, isDigit c = true) :
    digitsVal ds acc = some (ds.foldl (fun a c => a * 10 + (c.toNat - 48)) acc) := by
  induction ds generalizing acc with
  | nil => rfl
  | cons c ds ih =>
    simp only [List.mem_cons, forall_eq_or_imp] at h
    have hc : '0' ≤ c ∧ c ≤ '9' := by simpa [isDigit] using h.1
    simp only [digitsVal, hc, and_self, ↓reduceIte, List.foldl_cons]
    exact ih _ h.2

theorem splitOnce_comma (ds post : List Char) (h : ∀ c ∈ ds, isDigit c = true) :
    splitOnce [','] (ds ++ ',' :: post) = some (ds, post) := by
  induction ds with
  | nil => simp [splitOnce, List.isPrefixOf]
  | cons c ds ih =>
    simp only [List.mem_cons, forall_eq_or_imp] at h
    have hc : c ≠ ',' := by
      intro e; subst e; have := h.1; simp [isDigit] at this
    simp only [List.cons_append, splitOnce, List.isPrefixOf]
    have : (',' == c) = false := by simp; exact fun e => hc e.symm
    simp [this, ih h.2]

theorem stripPlus_id (ds : List Char) (h : ∀ c ∈ ds, isDigit c = true) : stripPlus ds = ds := by
  cases ds with
  | nil => rfl
  | cons c t =>
    have hc : c ≠ '+' := by
      intro e; subst e; have := h '+' (by simp); simp [isDigit] at this
    simp [stripPlus, hc]


end Lumina.Proofs.TxSeq

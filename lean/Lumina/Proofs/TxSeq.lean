/-
  Helper lemmas for C43 (transaction submission protocol).
-/
import Lumina.Model.TxSeq
import Lumina.Spec.C43

namespace Lumina.Proofs.TxSeq
open Lumina.Model.TxSeq
open Lumina.Spec.C43 (OTx OEv Ledger)

/-! ## sub-table access -/

theorem lookup_setSubL_same (l : List (Nat × Sub)) (i : Nat) (s : Sub) :
    (setSubL l i s).lookup i = some s := by
  induction l with
  | nil => simp [setSubL, List.lookup]
  | cons p l ih =>
    obtain ⟨j, t⟩ := p
    by_cases h : j = i
    · subst h; simp [setSubL, List.lookup]
    · have h' : (i == j) = false := by simp; exact fun e => h e.symm
      simp [setSubL, h, List.lookup, h', ih]

theorem lookup_setSubL_ne (l : List (Nat × Sub)) (i j : Nat) (s : Sub) (h : j ≠ i) :
    (setSubL l i s).lookup j = l.lookup j := by
  induction l with
  | nil =>
    have : (j == i) = false := by simp [h]
    simp [setSubL, List.lookup, this]
  | cons p l ih =>
    obtain ⟨k, t⟩ := p
    by_cases hk : k = i
    · subst hk
      have : (j == k) = false := by simp [h]
      simp [setSubL, List.lookup, this]
    · simp only [setSubL, hk, ↓reduceIte, List.lookup]
      split <;> simp_all

@[simp] theorem getSub_setSub_same (st : St) (i : Nat) (s : Sub) : getSub (setSub st i s) i = s := by
  simp [getSub, setSub, lookup_setSubL_same]

theorem getSub_setSub_ne (st : St) (i j : Nat) (s : Sub) (h : j ≠ i) :
    getSub (setSub st i s) j = getSub st j := by
  simp [getSub, setSub, lookup_setSubL_ne _ _ _ _ h]

theorem getSub_setSub (st : St) (i j : Nat) (s : Sub) :
    getSub (setSub st i s) j = if j = i then s else getSub st j := by
  by_cases h : j = i
  · subst h; simp
  · simp [h, getSub_setSub_ne _ _ _ _ h]

/-! ## the sequence discipline: replaying the events of one step -/

/-- replay of the events of one step against the believed sequence `b`: a signature must carry
    `b`; a rejection that is not about the sequence rolls `b` back to the rejected transaction's
    sequence `g sub` -/
def replay (g : Nat → Nat) : Nat → List Event → Option Nat
  | b, [] => some b
  | b, .sign _ _ tx :: r => if tx.seq = b then replay g b r else none
  | b, .finished i res :: r =>
    replay g (match res with
      | .rejected c => if isWrongSequence c then b else g i
      | _ => b) r

theorem replay_append (g : Nat → Nat) (b : Nat) (es fs : List Event) :
    replay g b (es ++ fs) = (replay g b es).bind (fun b' => replay g b' fs) := by
  induction es generalizing b with
  | nil => simp [replay]
  | cons e es ih =>
    cases e with
    | sign i k tx =>
      simp only [List.cons_append, replay]
      split <;> simp [ih]
    | finished i r => simp only [List.cons_append, replay, ih]

/-- the events so far replay to the current believed sequence, `g` is the table of the
    sequences of the accepted transactions, and a rollback is only ever queued for a rejection that
    is not about the sequence -/
def Inv (g : Nat → Nat) (b0 : Nat) (st : St) : Prop :=
  (∀ j, (getSub st j).accSeq = g j) ∧ replay g b0 st.events = some st.seq ∧
  (∀ j c, (getSub st j).phase = .waitRollback c → isWrongSequence c = false)

theorem Inv.congr {g b0} {st st' : St} (h : Inv g b0 st) (hs : st'.subs = st.subs)
    (he : st'.events = st.events) (hq : st'.seq = st.seq) : Inv g b0 st' := by
  obtain ⟨h1, h2, h3⟩ := h
  refine ⟨?_, ?_, ?_⟩
  · intro j; have := h1 j; simpa [getSub, hs] using this
  · rw [he, hq]; exact h2
  · intro j c hp; apply h3 j c; simpa [getSub, hs] using hp

theorem inv_setSub {g b0} {st : St} (h : Inv g b0 st) (i : Nat) (s : Sub)
    (hs : s.accSeq = (getSub st i).accSeq)
    (hp : ∀ c, s.phase = .waitRollback c → isWrongSequence c = false) : Inv g b0 (setSub st i s) := by
  obtain ⟨h1, h2, h3⟩ := h
  refine ⟨?_, h2, ?_⟩
  · intro j
    rw [getSub_setSub]
    split
    · rename_i hj; subst hj; rw [hs]; exact h1 j
    · exact h1 j
  · intro j c
    rw [getSub_setSub]
    split
    · exact hp c
    · exact h3 j c

theorem inv_setPhase {g b0} {st : St} (h : Inv g b0 st) (i : Nat) (p : Phase)
    (hp : ∀ c, p = .waitRollback c → isWrongSequence c = false) :
    Inv g b0 (setPhase st i p) :=
  inv_setSub h i _ rfl hp

theorem inv_emit {g b0} {st : St} (e : Event) (h1 : ∀ j, (getSub st j).accSeq = g j)
    (h3 : ∀ j c, (getSub st j).phase = .waitRollback c → isWrongSequence c = false)
    (h2 : replay g b0 (st.events ++ [e]) = some st.seq) : Inv g b0 (emit st e) :=
  ⟨fun j => by simpa [emit, getSub] using h1 j, by simpa [emit] using h2,
   fun j c hp => h3 j c (by simpa [emit, getSub] using hp)⟩

theorem inv_signTx {g b0} {st : St} (h : Inv g b0 st) (i gas fee : Nat) :
    Inv g b0 (signTx st i gas fee).1 := by
  obtain ⟨h1, h2, h3⟩ := h
  unfold signTx txId
  simp only []
  split
  · exact inv_emit _ h1 h3 (by simp [replay_append, h2, replay])
  · exact inv_emit (st := { st with txs := _ }) _ (fun j => by simpa [getSub] using h1 j)
      (fun j c hp => h3 j c (by simpa [getSub] using hp)) (by simp [replay_append, h2, replay])

theorem inv_signAndBroadcast {g b0} {st : St} (h : Inv g b0 st) (i gas q : Nat) :
    Inv g b0 (signAndBroadcast st i gas q) := by
  unfold signAndBroadcast
  exact inv_setPhase (inv_signTx h i gas _) i _ (by simp)

theorem inv_csLoop {g b0} {st : St} (h : Inv g b0 st) (i : Nat) : Inv g b0 (csLoop st i) := by
  unfold csLoop
  simp only []
  split
  · exact inv_signAndBroadcast h i _ _
  · exact inv_setPhase h i _ (by simp)
  · exact inv_setPhase (inv_signTx h i 0 1) i _ (by simp)

theorem inv_finish {g b0} {st : St} (h : Inv g b0 st) (i : Nat) (r : Res)
    (hr : ∀ c, r = .rejected c → isWrongSequence c = true) : Inv g b0 (finish st i r) := by
  obtain ⟨h1, h2, h3⟩ := inv_setPhase h i (.done r) (by simp)
  apply inv_emit _ h1 h3
  simp only [replay_append, h2, Option.bind_some, replay]
  cases r <;> simp_all [setPhase, setSub]

theorem inv_finish_rollback {g b0} {st : St} (h : Inv g b0 st) (i c : Nat)
    (hw : isWrongSequence c = false) :
    Inv g b0 (finish { st with seq := (getSub st i).accSeq } i (.rejected c)) := by
  obtain ⟨h1, h2, h3⟩ := h
  have hg : (getSub st i).accSeq = g i := h1 i
  have hb : Inv g b0 (setPhase st i (.done (.rejected c))) := inv_setPhase ⟨h1, h2, h3⟩ i _ (by simp)
  obtain ⟨k1, k2, k3⟩ := hb
  unfold finish
  apply inv_emit
  · intro j; simpa [setPhase, setSub, getSub] using k1 j
  · intro j c' hp; exact k3 j c' (by simpa [setPhase, setSub, getSub] using hp)
  · have : (setPhase { st with seq := (getSub st i).accSeq } i (.done (.rejected c))).events = st.events := rfl
    rw [this, replay_append, h2]
    simp [replay, hw, hg, setPhase, setSub]

theorem inv_releaseLock {g b0} (fuel : Nat) {st : St} (h : Inv g b0 st) :
    Inv g b0 (releaseLock fuel st) := by
  induction fuel generalizing st with
  | zero => exact h.congr rfl rfl rfl
  | succ fuel ih =>
    unfold releaseLock
    split
    · exact h.congr rfl rfl rfl
    · rename_i j q hq
      simp only []
      have h0 : Inv g b0 { st with lockHeld := some j, lockQ := q } := h.congr rfl rfl rfl
      split
      · rename_i c hc
        exact ih (inv_finish_rollback h0 j c (h0.2.2 j c hc))
      · exact inv_csLoop h0 j

theorem inv_release {g b0} {st : St} (h : Inv g b0 st) : Inv g b0 (release st) :=
  inv_releaseLock _ h

theorem inv_failCS {g b0} {st : St} (h : Inv g b0 st) (i : Nat) (r : Res)
    (hr : ∀ c, r = .rejected c → isWrongSequence c = true) : Inv g b0 (failCS st i r) :=
  inv_release (inv_finish h i r hr)

theorem inv_enterLock {g b0} {st : St} (h : Inv g b0 st) (i : Nat) : Inv g b0 (enterLock st i) := by
  unfold enterLock
  split
  · exact inv_csLoop (st := { st with lockHeld := some i }) (h.congr rfl rfl rfl) i
  · exact inv_setPhase (st := { st with lockQ := st.lockQ ++ [i] }) (h.congr rfl rfl rfl) i _ (by simp)

theorem inv_enterAcct {g b0} {st : St} (h : Inv g b0 st) (i : Nat) : Inv g b0 (enterAcct st i) := by
  unfold enterAcct
  split
  · exact inv_enterLock h i
  · split
    · exact inv_setPhase (h.congr rfl rfl rfl) i _ (by simp)
    · exact inv_setPhase (h.congr rfl rfl rfl) i _ (by simp)

theorem inv_enterChain {g b0} {st : St} (h : Inv g b0 st) (i : Nat) : Inv g b0 (enterChain st i) := by
  unfold enterChain
  split
  · exact inv_enterAcct h i
  · split
    · exact inv_setPhase (h.congr rfl rfl rfl) i _ (by simp)
    · exact inv_setPhase (h.congr rfl rfl rfl) i _ (by simp)

theorem inv_foldl {g b0} (f : St → Nat → St) (hf : ∀ st i, Inv g b0 st → Inv g b0 (f st i))
    (ws : List Nat) {st : St} (h : Inv g b0 st) : Inv g b0 (ws.foldl f st) := by
  induction ws generalizing st with
  | nil => exact h
  | cons w ws ih => exact ih (hf _ _ h)

/-- the rules by which a node answer changes the believed sequence: the account query sets it,
    an accepted broadcast (success or mempool-cache hit) inside the critical section advances it by
    one, a sequence mismatch (on simulation or broadcast) resynchronises it to the node's value -/
def believedAfter (st : St) (op : Op) : Nat :=
  match op with
  | .ans i a =>
    match (getSub st i).phase, a with
    | .reqG, .okSeq n => n
    | .reqB _, .ok => st.seq + 1
    | .reqB _, .cache => st.seq + 1
    | .reqE _, .mis n => n
    | .reqB _, .mis n => n
    | _, _ => st.seq
  | _ => st.seq

def NoWrong (st : St) : Prop :=
  ∀ j c, (getSub st j).phase = .waitRollback c → isWrongSequence c = false

theorem inv_init {st : St} (hw : NoWrong st) (he : st.events = []) :
    Inv (fun j => (getSub st j).accSeq) st.seq st :=
  ⟨fun _ => rfl, by simp [he, replay], hw⟩

theorem inv_ansL {g b0} {st : St} (h : Inv g b0 st) (i : Nat) (a : Ans) : Inv g b0 (ansL st i a) := by
  unfold ansL
  split
  · exact inv_foldl _ (fun _ _ h => inv_enterAcct h _) _
      (inv_enterAcct (st := { st with chain := { ready := true, busy := false, waiters := [] } }) (h.congr rfl rfl rfl) i)
  · simp only []
    have hf := inv_finish h i .tonic (by simp)
    split
    · exact hf.congr rfl rfl rfl
    · exact inv_setPhase (st := { finish st i .tonic with chain := _ }) (hf.congr rfl rfl rfl) _ _ (by simp)

theorem inv_ansG_fail {g b0} {st : St} (h : Inv g b0 st) (i : Nat) :
    Inv g b0 (let st := finish st i .tonic
      match st.acct.waiters with
      | [] => { st with acct := { st.acct with busy := false } }
      | w :: ws => setPhase { st with acct := { st.acct with waiters := ws } } w .reqG) := by
  simp only []
  have hf := inv_finish h i .tonic (by simp)
  split
  · exact hf.congr rfl rfl rfl
  · exact inv_setPhase (st := { finish st i .tonic with acct := _ }) (hf.congr rfl rfl rfl) _ _ (by simp)

theorem inv_accept {st : St} (hw : NoWrong st) (he : st.events = []) (i k : Nat) :
    ∃ g, Inv g (st.seq + 1) (accept st i k) := by
  unfold accept
  simp only []
  refine ⟨_, inv_release (inv_init (st := setSub { st with seq := st.seq + 1 } i _) ?_ (by simpa [setSub] using he))⟩
  intro j c
  rw [getSub_setSub]
  split
  · simp
  · intro hp; exact hw j c (by simpa [getSub] using hp)

theorem inv_answer (st : St) (i : Nat) (a : Ans) (hw : NoWrong st) (he : st.events = []) :
    ∃ g, Inv g (believedAfter st (.ans i a)) (answer st i a) := by
  have h0 := inv_init hw he
  unfold answer
  cases hp : (getSub st i).phase with
  | reqL => simp only [believedAfter, hp]; exact ⟨_, inv_ansL h0 i a⟩
  | reqG =>
    simp only [believedAfter, hp]
    unfold ansG
    cases a with
    | okSeq n =>
      simp only []
      exact ⟨_, inv_foldl _ (fun _ _ h => inv_enterLock h _) _
        (inv_enterLock (inv_init (st := { st with seq := n, acct := { ready := true, busy := false, waiters := [] } })
          (fun j c hp => hw j c (by simpa [getSub] using hp)) he) i)⟩
    | _ => exact ⟨_, inv_ansG_fail h0 i⟩
  | reqP =>
    simp only [believedAfter, hp]
    unfold ansP
    cases a <;> first
      | exact ⟨_, inv_signAndBroadcast h0 i _ _⟩
      | exact ⟨_, inv_failCS h0 i _ (by simp)⟩
  | reqE k =>
    simp only [believedAfter, hp]
    unfold ansE
    cases a with
    | okEst q u => exact ⟨_, inv_signAndBroadcast h0 i _ _⟩
    | mis n =>
      exact ⟨_, inv_csLoop (inv_init (st := { st with seq := n })
        (fun j c hp => hw j c (by simpa [getSub] using hp)) he) i⟩
    | _ => exact ⟨_, inv_failCS h0 i _ (by simp)⟩
  | reqB k =>
    simp only [believedAfter, hp]
    unfold ansB
    cases a with
    | ok => exact inv_accept hw he i k
    | cache => exact inv_accept hw he i k
    | mis n =>
      exact ⟨_, inv_csLoop (inv_init (st := { st with seq := n })
        (fun j c hp => hw j c (by simpa [getSub] using hp)) he) i⟩
    | _ => exact ⟨_, inv_failCS h0 i _ (by simp)⟩
  | reqT =>
    simp only [believedAfter, hp]
    unfold ansT
    cases a with
    | pending => exact ⟨_, h0⟩
    | committed c h => exact ⟨_, inv_finish h0 i _ (by split <;> simp)⟩
    | rejected c =>
      simp only []
      split
      · rename_i hws; exact ⟨_, inv_finish h0 i _ (by intro c' hc; cases hc; exact hws)⟩
      · rename_i hws
        split
        · exact ⟨_, inv_finish_rollback h0 i c (by simpa using hws)⟩
        · exact ⟨_, inv_setPhase (st := { st with lockQ := st.lockQ ++ [i] }) (h0.congr rfl rfl rfl) i _
            (by intro c' hc; cases hc; simpa using hws)⟩
    | evicted => exact ⟨_, inv_setPhase h0 i _ (by simp)⟩
    | unknown => exact ⟨_, inv_setPhase h0 i _ (by simp)⟩
    | _ => exact ⟨_, inv_finish h0 i _ (by simp)⟩
  | reqRB nf =>
    simp only [believedAfter, hp]
    unfold ansRB
    cases a <;> first
      | exact ⟨_, inv_setPhase h0 i _ (by simp)⟩
      | exact ⟨_, inv_finish h0 i _ (by split <;> simp)⟩
  | _ => simp only [believedAfter, hp]; exact ⟨_, h0⟩

theorem inv_start (st : St) (i : Nat) (gl gp : Option Nat) (hw : NoWrong st) (he : st.events = []) :
    ∃ g, Inv g st.seq (if (getSub st i).phase = .idle then enterChain (setSub st i { gl := gl, gp := gp }) i else st) := by
  split
  · exact ⟨_, inv_enterChain (inv_init (st := setSub st i _)
      (by
        intro j c
        rw [getSub_setSub]
        split
        · simp
        · exact hw j c) (by simpa [setSub] using he)) i⟩
  · exact ⟨_, inv_init hw he⟩

/-- **one step replays**: starting from the believed sequence given by the answer rules, every
    signature of the step carries the believed sequence of its moment and the step ends with the
    model's believed sequence -/
theorem inv_step (st : St) (op : Op) (hw : NoWrong st) :
    ∃ g, Inv g (believedAfter st op) (step st op) := by
  have hw' : NoWrong { st with events := [] } := fun j c hp => hw j c (by simpa [getSub] using hp)
  cases op with
  | start i gl gp => exact inv_start { st with events := [] } i gl gp hw' rfl
  | ans i a => exact inv_answer { st with events := [] } i a hw' rfl

/-! ## structural invariant; who signs -/

def waitingLock : Phase → Bool
  | .waitLock => true
  | .waitRollback _ => true
  | _ => false

def preAccept : Phase → Bool
  | .idle | .waitChain | .reqL | .waitAcct | .reqG | .waitLock | .reqP | .reqE _ | .reqB _ => true
  | _ => false

structure W (P : Nat → Prop) (st : St) (cw aw : List Nat) : Prop where
  lq : ∀ j, st.lockQ.count j = if waitingLock (getSub st j).phase then 1 else 0
  cq : ∀ j, (st.chain.waiters ++ cw).count j = if (getSub st j).phase = .waitChain then 1 else 0
  aq : ∀ j, (st.acct.waiters ++ aw).count j = if (getSub st j).phase = .waitAcct then 1 else 0
  an : ∀ j, preAccept (getSub st j).phase = true → (getSub st j).acc = none
  sg : ∀ j k tx, Event.sign j k tx ∈ st.events → P j
  lk : ∀ j, (getSub st j).acc = none → P j

/-- one submission `i` changes its record (and possibly queue membership); everything else about
    the submissions is untouched -/
theorem W.retarget {P st cw aw} (h : W P st cw aw) (i : Nat) (s' : Sub) (st' : St) (cw' aw' : List Nat)
    (hsubs : st'.subs = setSubL st.subs i s')
    (hL : ∀ j, j ≠ i → st'.lockQ.count j = st.lockQ.count j)
    (hLi : st'.lockQ.count i = if waitingLock s'.phase then 1 else 0)
    (hC : ∀ j, j ≠ i → (st'.chain.waiters ++ cw').count j = (st.chain.waiters ++ cw).count j)
    (hCi : (st'.chain.waiters ++ cw').count i = if s'.phase = .waitChain then 1 else 0)
    (hA : ∀ j, j ≠ i → (st'.acct.waiters ++ aw').count j = (st.acct.waiters ++ aw).count j)
    (hAi : (st'.acct.waiters ++ aw').count i = if s'.phase = .waitAcct then 1 else 0)
    (hacc : preAccept s'.phase = true → s'.acc = none)
    (hlk : s'.acc = none → P i)
    (hE : ∀ j k tx, Event.sign j k tx ∈ st'.events → Event.sign j k tx ∈ st.events ∨ (j = i ∧ P i)) :
    W P st' cw' aw' := by
  have hget : ∀ j, getSub st' j = if j = i then s' else getSub st j := by
    intro j
    have : getSub st' j = getSub (setSub st i s') j := by
      simp [getSub, setSub, hsubs]
    rw [this, getSub_setSub]
  constructor
  · intro j
    rw [hget]
    by_cases hj : j = i
    · subst hj; simpa using hLi
    · simpa [hj, hL j hj] using h.lq j
  · intro j
    rw [hget]
    by_cases hj : j = i
    · subst hj; simpa using hCi
    · simpa [hj, hC j hj] using h.cq j
  · intro j
    rw [hget]
    by_cases hj : j = i
    · subst hj; simpa using hAi
    · simpa [hj, hA j hj] using h.aq j
  · intro j
    rw [hget]
    by_cases hj : j = i
    · subst hj; simpa using hacc
    · simpa [hj] using h.an j
  · intro j k tx hm
    rcases hE j k tx hm with h1 | ⟨hji, h2⟩
    · exact h.sg j k tx h1
    · exact hji ▸ h2
  · intro j
    rw [hget]
    by_cases hj : j = i
    · subst hj; simpa using hlk
    · simpa [hj] using h.lk j

theorem W.congr {P st cw aw} (h : W P st cw aw) (st' : St) (hs : st'.subs = st.subs)
    (he : st'.events = st.events) (hl : st'.lockQ = st.lockQ) (hc : st'.chain.waiters = st.chain.waiters)
    (ha : st'.acct.waiters = st.acct.waiters) : W P st' cw aw := by
  have hg : ∀ j, getSub st' j = getSub st j := fun j => by simp [getSub, hs]
  exact ⟨fun j => by rw [hl, hg]; exact h.lq j, fun j => by rw [hc, hg]; exact h.cq j,
    fun j => by rw [ha, hg]; exact h.aq j, fun j => by rw [hg]; exact h.an j,
    fun j k tx hm => h.sg j k tx (by rwa [he] at hm), fun j => by rw [hg]; exact h.lk j⟩

/-- a state that differs from `st` only outside the submission table and the event list -/
structure Frame (st stm : St) (i : Nat) (cw aw cw' aw' : List Nat) : Prop where
  subs : stm.subs = st.subs
  events : stm.events = st.events
  hL : ∀ j, j ≠ i → stm.lockQ.count j = st.lockQ.count j
  hLi : stm.lockQ.count i = 0
  hC : ∀ j, j ≠ i → (stm.chain.waiters ++ cw').count j = (st.chain.waiters ++ cw).count j
  hCi : (stm.chain.waiters ++ cw').count i = 0
  hA : ∀ j, j ≠ i → (stm.acct.waiters ++ aw').count j = (st.acct.waiters ++ aw).count j
  hAi : (stm.acct.waiters ++ aw').count i = 0

theorem Frame.sub_eq {st stm i cw aw cw' aw'} (f : Frame st stm i cw aw cw' aw') (j : Nat) :
    getSub stm j = getSub st j := by simp [getSub, f.subs]

theorem signTx_shape (st : St) (i gas fee : Nat) :
    ∃ T K, signTx st i gas fee =
      ({ st with txs := T, events := st.events ++ [.sign i K ⟨i, st.seq, gas, fee⟩] }, K) := by
  unfold signTx txId
  simp only []
  split
  · exact ⟨st.txs, _, rfl⟩
  · exact ⟨_, _, rfl⟩

/-- what `csLoop` does to the state: the phase of `i` becomes a request phase inside the critical
    section, signatures (if any) are by `i` -/
theorem csLoop_shape (st : St) (i : Nat) :
    ∃ p T E, csLoop st i = { st with subs := setSubL st.subs i { getSub st i with phase := p }, txs := T, events := E } ∧
      (p = .reqP ∨ (∃ k, p = .reqB k) ∨ (∃ k, p = .reqE k)) ∧
      (∀ j k tx, Event.sign j k tx ∈ E → Event.sign j k tx ∈ st.events ∨ j = i) := by
  unfold csLoop
  simp only []
  split
  · rename_i g q _ _
    unfold signAndBroadcast
    obtain ⟨T, K, hs⟩ := signTx_shape st i g (feeOf g q)
    rw [hs]
    refine ⟨.reqB K, T, _, rfl, Or.inr (Or.inl ⟨K, rfl⟩), ?_⟩
    intro j k tx hm
    rcases List.mem_append.mp hm with h | h
    · exact Or.inl h
    · simp at h; exact Or.inr h.1
  · exact ⟨.reqP, st.txs, st.events, rfl, Or.inl rfl, fun j k tx hm => Or.inl hm⟩
  · obtain ⟨T, K, hs⟩ := signTx_shape st i 0 1
    rw [hs]
    refine ⟨.reqE K, T, _, rfl, Or.inr (Or.inr ⟨K, rfl⟩), ?_⟩
    intro j k tx hm
    rcases List.mem_append.mp hm with h | h
    · exact Or.inl h
    · simp at h; exact Or.inr h.1

theorem W.cs {P st cw aw} (h : W P st cw aw) (stm : St) (i : Nat) (cw' aw' : List Nat)
    (f : Frame st stm i cw aw cw' aw') (hacc : (getSub st i).acc = none) :
    W P (csLoop stm i) cw' aw' := by
  obtain ⟨p, T, E, heq, hp, hE⟩ := csLoop_shape stm i
  rw [heq]
  have hp1 : waitingLock p = false := by rcases hp with rfl | ⟨k, rfl⟩ | ⟨k, rfl⟩ <;> rfl
  have hp2 : p ≠ .waitChain := by rcases hp with rfl | ⟨k, rfl⟩ | ⟨k, rfl⟩ <;> simp
  have hp3 : p ≠ .waitAcct := by rcases hp with rfl | ⟨k, rfl⟩ | ⟨k, rfl⟩ <;> simp
  apply h.retarget i { getSub stm i with phase := p } _ cw' aw'
  · simp [f.subs]
  · exact f.hL
  · simpa [hp1] using f.hLi
  · exact f.hC
  · simpa [hp2] using f.hCi
  · exact f.hA
  · simpa [hp3] using f.hAi
  · intro _; simpa [f.sub_eq] using hacc
  · intro _; exact h.lk i hacc
  · intro j k tx hm
    rcases hE j k tx hm with h1 | h1
    · exact Or.inl (by simpa [f.events] using h1)
    · exact Or.inr ⟨h1, h.lk i hacc⟩

theorem W.fin {P st cw aw} (h : W P st cw aw) (stm : St) (i : Nat) (r : Res) (cw' aw' : List Nat)
    (f : Frame st stm i cw aw cw' aw') : W P (finish stm i r) cw' aw' := by
  apply h.retarget i { getSub stm i with phase := .done r } _ cw' aw'
  · simp [finish, emit, setPhase, setSub, f.subs]
  · exact f.hL
  · simpa [finish, emit, setPhase, setSub, waitingLock] using f.hLi
  · exact f.hC
  · simpa [finish, emit, setPhase, setSub] using f.hCi
  · exact f.hA
  · simpa [finish, emit, setPhase, setSub] using f.hAi
  · intro hp; simp [preAccept] at hp
  · intro ha; exact h.lk i (by simpa [f.sub_eq] using ha)
  · intro j k tx hm
    simp only [finish, emit, setPhase, setSub, List.mem_append, List.mem_singleton] at hm
    rcases hm with h1 | h1
    · exact Or.inl (by simpa [f.events] using h1)
    · cases h1

theorem Frame.refl_free {P st cw aw} (h : W P st cw aw) (i : Nat)
    (h1 : waitingLock (getSub st i).phase = false) (h2 : (getSub st i).phase ≠ .waitChain)
    (h3 : (getSub st i).phase ≠ .waitAcct) : Frame st st i cw aw cw aw :=
  ⟨rfl, rfl, fun _ _ => rfl, by simpa [h1] using h.lq i, fun _ _ => rfl, by simpa [h2] using h.cq i,
   fun _ _ => rfl, by simpa [h3] using h.aq i⟩

theorem W.lock {P st cw aw} (h : W P st cw aw) (stm : St) (i : Nat) (cw' aw' : List Nat)
    (f : Frame st stm i cw aw cw' aw') (hacc : (getSub st i).acc = none) :
    W P (enterLock stm i) cw' aw' := by
  unfold enterLock
  split
  · exact h.cs { stm with lockHeld := some i } i cw' aw'
      ⟨f.subs, f.events, f.hL, f.hLi, f.hC, f.hCi, f.hA, f.hAi⟩ hacc
  · apply h.retarget i { getSub stm i with phase := .waitLock } _ cw' aw'
    · simp [setPhase, setSub, f.subs, getSub]
    · intro j hj
      have : List.count j [i] = 0 := by simp [List.count_singleton]; exact fun e => hj e.symm
      simp [setPhase, setSub, List.count_append, this, f.hL j hj]
    · simp [setPhase, setSub, List.count_append, f.hLi, waitingLock]
    · exact f.hC
    · simpa [setPhase, setSub] using f.hCi
    · exact f.hA
    · simpa [setPhase, setSub] using f.hAi
    · intro _; simpa [f.sub_eq] using hacc
    · intro _; exact h.lk i hacc
    · intro j k tx hm; exact Or.inl (by simpa [setPhase, setSub, f.events] using hm)

theorem W.acct {P st cw aw} (h : W P st cw aw) (stm : St) (i : Nat) (cw' aw' : List Nat)
    (f : Frame st stm i cw aw cw' aw') (hacc : (getSub st i).acc = none) :
    W P (enterAcct stm i) cw' aw' := by
  unfold enterAcct
  split
  · exact h.lock stm i cw' aw' f hacc
  · split
    · apply h.retarget i { getSub stm i with phase := .waitAcct } _ cw' aw'
      · simp [setPhase, setSub, f.subs, getSub]
      · exact f.hL
      · simpa [setPhase, setSub, waitingLock] using f.hLi
      · exact f.hC
      · simpa [setPhase, setSub] using f.hCi
      · intro j hj
        have : List.count j [i] = 0 := by simp [List.count_singleton]; exact fun e => hj e.symm
        have := f.hA j hj
        simp only [setPhase, setSub, List.count_append] at this ⊢
        omega
      · have := f.hAi
        simp only [setPhase, setSub, List.count_append, List.count_singleton] at this ⊢
        simp; omega
      · intro _; simpa [f.sub_eq] using hacc
      · intro _; exact h.lk i hacc
      · intro j k tx hm; exact Or.inl (by simpa [setPhase, setSub, f.events] using hm)
    · apply h.retarget i { getSub stm i with phase := .reqG } _ cw' aw'
      · simp [setPhase, setSub, f.subs, getSub]
      · exact f.hL
      · simpa [setPhase, setSub, waitingLock] using f.hLi
      · exact f.hC
      · simpa [setPhase, setSub] using f.hCi
      · exact f.hA
      · simpa [setPhase, setSub] using f.hAi
      · intro _; simpa [f.sub_eq] using hacc
      · intro _; exact h.lk i hacc
      · intro j k tx hm; exact Or.inl (by simpa [setPhase, setSub, f.events] using hm)

theorem W.chainEnter {P st cw aw} (h : W P st cw aw) (stm : St) (i : Nat) (cw' aw' : List Nat)
    (f : Frame st stm i cw aw cw' aw') (hacc : (getSub st i).acc = none) :
    W P (enterChain stm i) cw' aw' := by
  unfold enterChain
  split
  · exact h.acct stm i cw' aw' f hacc
  · split
    · apply h.retarget i { getSub stm i with phase := .waitChain } _ cw' aw'
      · simp [setPhase, setSub, f.subs, getSub]
      · exact f.hL
      · simpa [setPhase, setSub, waitingLock] using f.hLi
      · intro j hj
        have : List.count j [i] = 0 := by simp [List.count_singleton]; exact fun e => hj e.symm
        have := f.hC j hj
        simp only [setPhase, setSub, List.count_append] at this ⊢
        omega
      · have := f.hCi
        simp only [setPhase, setSub, List.count_append, List.count_singleton] at this ⊢
        simp; omega
      · exact f.hA
      · simpa [setPhase, setSub] using f.hAi
      · intro _; simpa [f.sub_eq] using hacc
      · intro _; exact h.lk i hacc
      · intro j k tx hm; exact Or.inl (by simpa [setPhase, setSub, f.events] using hm)
    · apply h.retarget i { getSub stm i with phase := .reqL } _ cw' aw'
      · simp [setPhase, setSub, f.subs, getSub]
      · exact f.hL
      · simpa [setPhase, setSub, waitingLock] using f.hLi
      · exact f.hC
      · simpa [setPhase, setSub] using f.hCi
      · exact f.hA
      · simpa [setPhase, setSub] using f.hAi
      · intro _; simpa [f.sub_eq] using hacc
      · intro _; exact h.lk i hacc
      · intro j k tx hm; exact Or.inl (by simpa [setPhase, setSub, f.events] using hm)

theorem W.relLock {P cw aw} (fuel : Nat) {st : St} (h : W P st cw aw) : W P (releaseLock fuel st) cw aw := by
  induction fuel generalizing st with
  | zero => exact ⟨h.lq, h.cq, h.aq, h.an, h.sg, h.lk⟩
  | succ fuel ih =>
    unfold releaseLock
    split
    · exact ⟨h.lq, h.cq, h.aq, h.an, h.sg, h.lk⟩
    · rename_i j q hq
      simp only []
      have hj := h.lq j
      rw [hq, List.count_cons_self] at hj
      have hwait : waitingLock (getSub st j).phase = true := by
        cases hw : waitingLock (getSub st j).phase
        · rw [hw] at hj; simp at hj
        · rfl
      have hq0 : q.count j = 0 := by rw [hwait] at hj; simpa using hj
      have hc : (getSub st j).phase ≠ .waitChain := by intro e; rw [e] at hwait; cases hwait
      have ha : (getSub st j).phase ≠ .waitAcct := by intro e; rw [e] at hwait; cases hwait
      have fr : ∀ sq, Frame st { st with lockHeld := some j, lockQ := q, seq := sq } j cw aw cw aw := by
        intro sq
        refine ⟨rfl, rfl, ?_, hq0, fun _ _ => rfl, by simpa [hc] using h.cq j, fun _ _ => rfl,
          by simpa [ha] using h.aq j⟩
        intro k hk
        show q.count k = st.lockQ.count k
        rw [hq, List.count_cons_of_ne (fun e => hk e.symm)]
      split
      · rename_i c hc'
        exact ih (h.fin _ j (.rejected c) cw aw (fr _))
      · rename_i hnr
        have hph : (getSub st j).phase = .waitLock := by
          have hnr' : ∀ c, (getSub st j).phase ≠ .waitRollback c := by
            intro c e; exact hnr c (by simpa [getSub] using e)
          cases hp : (getSub st j).phase <;> simp_all [waitingLock]
        exact h.cs _ j cw aw (fr st.seq) (h.an j (by rw [hph]; rfl))

theorem W.rel {P cw aw} {st : St} (h : W P st cw aw) : W P (release st) cw aw := h.relLock _

theorem W.foldAcct {P aw} (ws : List Nat) {st : St} (h : W P st ws aw) : W P (ws.foldl enterAcct st) [] aw := by
  induction ws generalizing st with
  | nil => exact h
  | cons w ws ih =>
    have hc := h.cq w
    simp only [List.count_append, List.count_cons_self] at hc
    have hph : (getSub st w).phase = .waitChain := by
      by_cases e : (getSub st w).phase = .waitChain
      · exact e
      · simp [e] at hc
    simp only [hph, ↓reduceIte] at hc
    apply ih
    apply h.acct st w ws aw _ (h.an w (by rw [hph]; rfl))
    refine ⟨rfl, rfl, fun _ _ => rfl, by simpa [hph, waitingLock] using h.lq w, ?_, ?_, fun _ _ => rfl,
      by simpa [hph] using h.aq w⟩
    · intro j hj
      simp [List.count_append, List.count_cons_of_ne (fun e => hj e.symm)]
    · simp only [List.count_append]; omega

theorem W.foldLock {P} (ws : List Nat) {st : St} (h : W P st [] ws) : W P (ws.foldl enterLock st) [] [] := by
  induction ws generalizing st with
  | nil => exact h
  | cons w ws ih =>
    have hc := h.aq w
    simp only [List.count_append, List.count_cons_self] at hc
    have hph : (getSub st w).phase = .waitAcct := by
      by_cases e : (getSub st w).phase = .waitAcct
      · exact e
      · simp [e] at hc
    simp only [hph, ↓reduceIte] at hc
    apply ih
    apply h.lock st w [] ws _ (h.an w (by rw [hph]; rfl))
    refine ⟨rfl, rfl, fun _ _ => rfl, by simpa [hph, waitingLock] using h.lq w, fun _ _ => rfl,
      by simpa [hph] using h.cq w, ?_, ?_⟩
    · intro j hj
      simp [List.count_append, List.count_cons_of_ne (fun e => hj e.symm)]
    · simp only [List.count_append]; omega

/-- a submission with a pending node request is in no queue -/
theorem W.freeOf {P st cw aw} (h : W P st cw aw) (i : Nat)
    (h1 : waitingLock (getSub st i).phase = false) (h2 : (getSub st i).phase ≠ .waitChain)
    (h3 : (getSub st i).phase ≠ .waitAcct) :
    st.lockQ.count i = 0 ∧ (st.chain.waiters ++ cw).count i = 0 ∧ (st.acct.waiters ++ aw).count i = 0 :=
  ⟨by simpa [h1] using h.lq i, by simpa [h2] using h.cq i, by simpa [h3] using h.aq i⟩

theorem W.onL {P} {st : St} (h : W P st [] []) (i : Nat) (a : Ans) (hp : (getSub st i).phase = .reqL) :
    W P (ansL st i a) [] [] := by
  obtain ⟨f1, f2, f3⟩ := h.freeOf i (by rw [hp]; rfl) (by rw [hp]; simp) (by rw [hp]; simp)
  have hacc := h.an i (by rw [hp]; rfl)
  unfold ansL
  split
  · apply W.foldAcct
    apply h.acct { st with chain := { ready := true, busy := false, waiters := [] } } i st.chain.waiters [] _ hacc
    exact ⟨rfl, rfl, fun _ _ => rfl, f1, fun j _ => by simp, by simpa using f2, fun _ _ => rfl, f3⟩
  · simp only []
    have hf : W P (finish st i .tonic) [] [] :=
      h.fin st i .tonic [] [] ⟨rfl, rfl, fun _ _ => rfl, f1, fun _ _ => rfl, f2, fun _ _ => rfl, f3⟩
    split
    · exact hf.congr _ rfl rfl rfl rfl rfl
    · rename_i w ws hw
      have hc := hf.cq w
      have hw' : (finish st i .tonic).chain.waiters = w :: ws := hw
      simp only [hw', List.append_nil, List.count_cons_self] at hc
      have hph : (getSub (finish st i .tonic) w).phase = .waitChain := by
        by_cases e : (getSub (finish st i .tonic) w).phase = .waitChain
        · exact e
        · simp [e] at hc
      simp only [hph, ↓reduceIte] at hc
      apply hf.retarget w { getSub (finish st i .tonic) w with phase := .reqL } _ [] []
      · simp [setPhase, setSub, getSub]
      · intro _ _; rfl
      · simpa [setPhase, setSub, waitingLock, hph] using hf.lq w
      · intro j hj
        simp [setPhase, setSub, hw', List.count_cons_of_ne (fun e => hj e.symm)]
      · simp only [setPhase, setSub, List.append_nil]; simp; omega
      · intro _ _; rfl
      · simpa [setPhase, setSub, hph] using hf.aq w
      · intro _; exact hf.an w (by rw [hph]; rfl)
      · intro _; exact hf.lk w (hf.an w (by rw [hph]; rfl))
      · intro j k tx hm; exact Or.inl (by simpa [setPhase, setSub] using hm)

theorem W.frameFree {P st} (h : W P st [] []) (i : Nat)
    (h1 : waitingLock (getSub st i).phase = false) (h2 : (getSub st i).phase ≠ .waitChain)
    (h3 : (getSub st i).phase ≠ .waitAcct) (stm : St) (hs : stm.subs = st.subs) (he : stm.events = st.events)
    (hl : stm.lockQ = st.lockQ) (hc : stm.chain.waiters = st.chain.waiters)
    (ha : stm.acct.waiters = st.acct.waiters) : Frame st stm i [] [] [] [] := by
  obtain ⟨f1, f2, f3⟩ := h.freeOf i h1 h2 h3
  exact ⟨hs, he, fun _ _ => by rw [hl], by rw [hl]; exact f1, fun _ _ => by rw [hc], by rw [hc]; exact f2,
    fun _ _ => by rw [ha], by rw [ha]; exact f3⟩

theorem W.onG {P} {st : St} (h : W P st [] []) (i : Nat) (a : Ans) (hp : (getSub st i).phase = .reqG) :
    W P (ansG st i a) [] [] := by
  obtain ⟨f1, f2, f3⟩ := h.freeOf i (by rw [hp]; rfl) (by rw [hp]; simp) (by rw [hp]; simp)
  have hacc := h.an i (by rw [hp]; rfl)
  unfold ansG
  split
  · rename_i n
    apply W.foldLock
    apply h.lock { st with seq := n, acct := { ready := true, busy := false, waiters := [] } } i [] st.acct.waiters _ hacc
    exact ⟨rfl, rfl, fun _ _ => rfl, f1, fun _ _ => rfl, f2, fun j _ => by simp, by simpa using f3⟩
  · simp only []
    have hf : W P (finish st i .tonic) [] [] :=
      h.fin st i .tonic [] [] ⟨rfl, rfl, fun _ _ => rfl, f1, fun _ _ => rfl, f2, fun _ _ => rfl, f3⟩
    split
    · exact hf.congr _ rfl rfl rfl rfl rfl
    · rename_i w ws hw
      have hc := hf.aq w
      have hw' : (finish st i .tonic).acct.waiters = w :: ws := hw
      simp only [hw', List.append_nil, List.count_cons_self] at hc
      have hph : (getSub (finish st i .tonic) w).phase = .waitAcct := by
        by_cases e : (getSub (finish st i .tonic) w).phase = .waitAcct
        · exact e
        · simp [e] at hc
      simp only [hph, ↓reduceIte] at hc
      apply hf.retarget w { getSub (finish st i .tonic) w with phase := .reqG } _ [] []
      · simp [setPhase, setSub, getSub]
      · intro _ _; rfl
      · simpa [setPhase, setSub, waitingLock, hph] using hf.lq w
      · intro _ _; rfl
      · simpa [setPhase, setSub, hph] using hf.cq w
      · intro j hj
        simp [setPhase, setSub, hw', List.count_cons_of_ne (fun e => hj e.symm)]
      · simp only [setPhase, setSub, List.append_nil]; simp; omega
      · intro _; exact hf.an w (by rw [hph]; rfl)
      · intro _; exact hf.lk w (hf.an w (by rw [hph]; rfl))
      · intro j k tx hm; exact Or.inl (by simpa [setPhase, setSub] using hm)

theorem W.sab {P} {st : St} (h : W P st [] []) (i gas q : Nat)
    (h1 : waitingLock (getSub st i).phase = false) (h2 : (getSub st i).phase ≠ .waitChain)
    (h3 : (getSub st i).phase ≠ .waitAcct) (hacc : (getSub st i).acc = none) :
    W P (signAndBroadcast st i gas q) [] [] := by
  obtain ⟨f1, f2, f3⟩ := h.freeOf i h1 h2 h3
  unfold signAndBroadcast
  obtain ⟨T, K, hs⟩ := signTx_shape st i gas (feeOf gas q)
  rw [hs]
  apply h.retarget i { getSub st i with phase := .reqB K } _ [] []
  · simp [setPhase, setSub, getSub]
  · intro _ _; rfl
  · simpa [setPhase, setSub, waitingLock] using f1
  · intro _ _; rfl
  · simpa [setPhase, setSub] using f2
  · intro _ _; rfl
  · simpa [setPhase, setSub] using f3
  · intro _; exact hacc
  · intro _; exact h.lk i hacc
  · intro j k tx hm
    simp only [setPhase, setSub, List.mem_append, List.mem_singleton] at hm
    rcases hm with h1 | h1
    · exact Or.inl h1
    · cases h1; exact Or.inr ⟨rfl, h.lk i hacc⟩

theorem W.failCS' {P} {st : St} (h : W P st [] []) (i : Nat) (r : Res)
    (h1 : waitingLock (getSub st i).phase = false) (h2 : (getSub st i).phase ≠ .waitChain)
    (h3 : (getSub st i).phase ≠ .waitAcct) : W P (failCS st i r) [] [] :=
  (h.fin st i r [] [] (h.frameFree i h1 h2 h3 st rfl rfl rfl rfl rfl)).rel

theorem W.csFree {P} {st : St} (h : W P st [] []) (i : Nat) (stm : St)
    (h1 : waitingLock (getSub st i).phase = false) (h2 : (getSub st i).phase ≠ .waitChain)
    (h3 : (getSub st i).phase ≠ .waitAcct) (hacc : (getSub st i).acc = none)
    (hs : stm.subs = st.subs) (he : stm.events = st.events)
    (hl : stm.lockQ = st.lockQ) (hc : stm.chain.waiters = st.chain.waiters)
    (ha : stm.acct.waiters = st.acct.waiters) : W P (csLoop stm i) [] [] :=
  h.cs stm i [] [] (h.frameFree i h1 h2 h3 stm hs he hl hc ha) hacc

theorem W.onP {P} {st : St} (h : W P st [] []) (i : Nat) (a : Ans) (hp : (getSub st i).phase = .reqP) :
    W P (ansP st i a) [] [] := by
  have hacc := h.an i (by rw [hp]; rfl)
  unfold ansP
  split
  · exact h.sab i _ _ (by rw [hp]; rfl) (by rw [hp]; simp) (by rw [hp]; simp) hacc
  · exact h.failCS' i _ (by rw [hp]; rfl) (by rw [hp]; simp) (by rw [hp]; simp)

theorem W.onE {P} {st : St} (h : W P st [] []) (i k : Nat) (a : Ans) (hp : (getSub st i).phase = .reqE k) :
    W P (ansE st i a) [] [] := by
  have hacc := h.an i (by rw [hp]; rfl)
  have g1 : waitingLock (getSub st i).phase = false := by rw [hp]; rfl
  have g2 : (getSub st i).phase ≠ .waitChain := by rw [hp]; simp
  have g3 : (getSub st i).phase ≠ .waitAcct := by rw [hp]; simp
  unfold ansE
  split
  · exact h.sab i _ _ g1 g2 g3 hacc
  · exact h.csFree i _ g1 g2 g3 hacc rfl rfl rfl rfl rfl
  · exact h.failCS' i _ g1 g2 g3
  · exact h.failCS' i _ g1 g2 g3

theorem W.onAccept {P} {st : St} (h : W P st [] []) (i k : Nat) (hp : (getSub st i).phase = .reqB k) :
    W P (accept st i k) [] [] := by
  obtain ⟨f1, f2, f3⟩ := h.freeOf i (by rw [hp]; rfl) (by rw [hp]; simp) (by rw [hp]; simp)
  unfold accept
  simp only []
  apply W.rel
  apply h.retarget i _ _ [] [] rfl
  · intro _ _; rfl
  · simpa [setSub, waitingLock] using f1
  · intro _ _; rfl
  · simpa [setSub] using f2
  · intro _ _; rfl
  · simpa [setSub] using f3
  · intro hpre; simp [preAccept] at hpre
  · intro hn; simp at hn
  · intro j k' tx hm; exact Or.inl hm

theorem W.onB {P} {st : St} (h : W P st [] []) (i k : Nat) (a : Ans) (hp : (getSub st i).phase = .reqB k) :
    W P (ansB st i k a) [] [] := by
  have hacc := h.an i (by rw [hp]; rfl)
  have g1 : waitingLock (getSub st i).phase = false := by rw [hp]; rfl
  have g2 : (getSub st i).phase ≠ .waitChain := by rw [hp]; simp
  have g3 : (getSub st i).phase ≠ .waitAcct := by rw [hp]; simp
  unfold ansB
  split
  · exact h.onAccept i k hp
  · exact h.onAccept i k hp
  · exact h.csFree i _ g1 g2 g3 hacc rfl rfl rfl rfl rfl
  · exact h.failCS' i _ g1 g2 g3
  · exact h.failCS' i _ g1 g2 g3
  · exact h.failCS' i _ g1 g2 g3

theorem W.setFree {P} {st : St} (h : W P st [] []) (i : Nat) (p : Phase)
    (h1 : waitingLock (getSub st i).phase = false) (h2 : (getSub st i).phase ≠ .waitChain)
    (h3 : (getSub st i).phase ≠ .waitAcct)
    (p1 : waitingLock p = false) (p2 : p ≠ .waitChain) (p3 : p ≠ .waitAcct) (p4 : preAccept p = false) :
    W P (setPhase st i p) [] [] := by
  obtain ⟨f1, f2, f3⟩ := h.freeOf i h1 h2 h3
  apply h.retarget i { getSub st i with phase := p } _ [] [] rfl
  · intro _ _; rfl
  · simpa [setPhase, setSub, p1] using f1
  · intro _ _; rfl
  · simpa [setPhase, setSub, p2] using f2
  · intro _ _; rfl
  · simpa [setPhase, setSub, p3] using f3
  · intro hpre; simp [p4] at hpre
  · intro hn; exact h.lk i hn
  · intro j k tx hm; exact Or.inl hm

theorem W.onT {P} {st : St} (h : W P st [] []) (i : Nat) (a : Ans) (hp : (getSub st i).phase = .reqT) :
    W P (ansT st i a) [] [] := by
  have g1 : waitingLock (getSub st i).phase = false := by rw [hp]; rfl
  have g2 : (getSub st i).phase ≠ .waitChain := by rw [hp]; simp
  have g3 : (getSub st i).phase ≠ .waitAcct := by rw [hp]; simp
  have fr := h.frameFree i g1 g2 g3
  obtain ⟨f1, f2, f3⟩ := h.freeOf i g1 g2 g3
  unfold ansT
  split
  · exact h
  · exact h.fin st i _ [] [] (fr st rfl rfl rfl rfl rfl)
  · split
    · exact h.fin st i _ [] [] (fr st rfl rfl rfl rfl rfl)
    · split
      · exact h.fin _ i _ [] [] (fr _ rfl rfl rfl rfl rfl)
      · rename_i c _ _ _ _
        apply h.retarget i { getSub st i with phase := .waitRollback c } _ [] []
        · simp [setPhase, setSub, getSub]
        · intro j hj
          have : List.count j [i] = 0 := by simp [List.count_singleton]; exact fun e => hj e.symm
          simp [setPhase, setSub, List.count_append, this]
        · simp [setPhase, setSub, List.count_append, f1, waitingLock]
        · intro _ _; rfl
        · simpa [setPhase, setSub] using f2
        · intro _ _; rfl
        · simpa [setPhase, setSub] using f3
        · intro hpre; simp [preAccept] at hpre
        · intro hn; exact h.lk i hn
        · intro j k tx hm; exact Or.inl (by simpa [setPhase, setSub] using hm)
  · exact h.setFree i _ g1 g2 g3 rfl (by simp) (by simp) rfl
  · exact h.setFree i _ g1 g2 g3 rfl (by simp) (by simp) rfl
  · exact h.fin st i _ [] [] (fr st rfl rfl rfl rfl rfl)

theorem W.onRB {P} {st : St} (h : W P st [] []) (i : Nat) (nf : Bool) (a : Ans)
    (hp : (getSub st i).phase = .reqRB nf) : W P (ansRB st i nf a) [] [] := by
  have g1 : waitingLock (getSub st i).phase = false := by rw [hp]; rfl
  have g2 : (getSub st i).phase ≠ .waitChain := by rw [hp]; simp
  have g3 : (getSub st i).phase ≠ .waitAcct := by rw [hp]; simp
  unfold ansRB
  split
  · exact h.setFree i _ g1 g2 g3 rfl (by simp) (by simp) rfl
  · exact h.fin st i _ [] [] (h.frameFree i g1 g2 g3 st rfl rfl rfl rfl rfl)

theorem W.onAnswer {P} {st : St} (h : W P st [] []) (i : Nat) (a : Ans) : W P (answer st i a) [] [] := by
  unfold answer
  split
  · rename_i hp; exact h.onL i a hp
  · rename_i hp; exact h.onG i a hp
  · rename_i hp; exact h.onP i a hp
  · rename_i k hp; exact h.onE i k a hp
  · rename_i k hp; exact h.onB i k a hp
  · rename_i hp; exact h.onT i a hp
  · rename_i nf hp; exact h.onRB i nf a hp
  · exact h

theorem W.onStart {P} {st : St} (h : W P st [] []) (i : Nat) (gl gp : Option Nat) :
    W P (if (getSub st i).phase = .idle then enterChain (setSub st i { gl := gl, gp := gp }) i else st) [] [] := by
  split
  · rename_i hp
    have g1 : waitingLock (getSub st i).phase = false := by rw [hp]; rfl
    have g2 : (getSub st i).phase ≠ .waitChain := by rw [hp]; simp
    have g3 : (getSub st i).phase ≠ .waitAcct := by rw [hp]; simp
    obtain ⟨f1, f2, f3⟩ := h.freeOf i g1 g2 g3
    have hacc := h.an i (by rw [hp]; rfl)
    have h' : W P (setSub st i { gl := gl, gp := gp }) [] [] := by
      apply h.retarget i { gl := gl, gp := gp } _ [] [] rfl
      · intro _ _; rfl
      · simpa [setSub, waitingLock] using f1
      · intro _ _; rfl
      · simpa [setSub] using f2
      · intro _ _; rfl
      · simpa [setSub] using f3
      · intro _; rfl
      · intro _; exact h.lk i hacc
      · intro j k tx hm; exact Or.inl hm
    have hph : (getSub (setSub st i { gl := gl, gp := gp }) i).phase = .idle := by simp
    apply h'.chainEnter _ i [] [] (h'.frameFree i (by rw [hph]; rfl) (by rw [hph]; simp) (by rw [hph]; simp) _ rfl rfl rfl rfl rfl)
    simp
  · exact h

/-- the structural invariant of reachable states -/
def WF (st : St) : Prop := W (fun _ => True) st [] []

theorem W.weaken {P st cw aw} (h : W P st cw aw) : W (fun _ => True) st cw aw :=
  ⟨h.lq, h.cq, h.aq, h.an, fun _ _ _ _ => trivial, fun _ _ => trivial⟩

theorem wf_init : WF {} := by
  refine ⟨?_, ?_, ?_, ?_, ?_, ?_⟩ <;> intro j <;> simp [getSub, List.lookup, waitingLock]

/-- one step from a well-formed state: well-formed again, and every signature of the step was made
    for a submission that had no accepted broadcast before the step -/
theorem w_step {st : St} (h : WF st) (op : Op) :
    W (fun j => (getSub st j).acc = none) (step st op) [] [] := by
  have h0 : W (fun j => (getSub st j).acc = none) { st with events := [] } [] [] :=
    ⟨h.lq, h.cq, h.aq, h.an, fun _ _ _ hm => by simp at hm, fun _ hn => hn⟩
  cases op with
  | start i gl gp => exact h0.onStart i gl gp
  | ans i a => exact h0.onAnswer i a

theorem wf_run (ops : List Op) : WF (run {} ops) := by
  suffices h : ∀ st, WF st → WF (run st ops) from h {} wf_init
  induction ops with
  | nil => intro st h; exact h
  | cons op ops ih => intro st h; exact ih _ (w_step h op).weaken

/-! ## what is pending is what was signed -/

/-- id of the last transaction signed for submission `j` among the events -/
def lastSign (j : Nat) : List Event → Option Nat
  | [] => none
  | .sign i k _ :: r => match lastSign j r with
    | some k' => some k'
    | none => if i = j then some k else none
  | .finished _ _ :: r => lastSign j r

theorem lastSign_append_sign (j i k : Nat) (tx : Tx) (es : List Event) :
    lastSign j (es ++ [.sign i k tx]) = if i = j then some k else lastSign j es := by
  induction es with
  | nil => simp [lastSign]
  | cons e es ih =>
    cases e with
    | sign i' k' tx' =>
      simp only [List.cons_append, lastSign, ih]
      by_cases h : i = j <;> simp [h]
    | finished i' r => simpa [lastSign] using ih

theorem lastSign_append_finished (j i : Nat) (r : Res) (es : List Event) :
    lastSign j (es ++ [.finished i r]) = lastSign j es := by
  induction es with
  | nil => simp [lastSign]
  | cons e es ih =>
    cases e with
    | sign i' k' tx' => simp only [List.cons_append, lastSign, ih]
    | finished i' r' => simpa [lastSign] using ih

def isTxReq (p : Phase) (k : Nat) : Prop := p = .reqB k ∨ p = .reqE k

/-- a submission whose pending request carries transaction `k` (broadcast or simulation inside
    the critical section) either signed `k` last in this step, or has signed nothing in this step
    and had the same request pending before it -/
def PB (st0 st : St) : Prop :=
  ∀ j k, isTxReq (getSub st j).phase k →
    lastSign j st.events = some k ∨
    (lastSign j st.events = none ∧ (getSub st0 j).phase = (getSub st j).phase)

theorem pb_init (st : St) (he : st.events = []) : PB st st := by
  intro j k _; right; simp [he, lastSign]

theorem PB.congr {st0 st st' : St} (h : PB st0 st) (hs : st'.subs = st.subs) (he : st'.events = st.events) :
    PB st0 st' := by
  intro j k hp
  have hg : getSub st' j = getSub st j := by simp [getSub, hs]
  rw [hg] at hp ⊢; rw [he]; exact h j k hp

theorem PB.setP {st0 st : St} (h : PB st0 st) (i : Nat) (p : Phase)
    (hp : ∀ k, ¬ isTxReq p k) : PB st0 (setPhase st i p) := by
  intro j k hj
  simp only [setPhase, getSub_setSub] at hj ⊢
  by_cases e : j = i
  · subst e; simp at hj; exact absurd hj (hp k)
  · simp only [e, ↓reduceIte] at hj ⊢
    exact h j k hj

theorem PB.fin {st0 st : St} (h : PB st0 st) (i : Nat) (r : Res) : PB st0 (finish st i r) := by
  have h1 := h.setP i (.done r) (by intro k hk; rcases hk with hk | hk <;> cases hk)
  intro j k hj
  have := h1 j k (by simpa [finish, emit, getSub] using hj)
  simpa [finish, emit, getSub, lastSign_append_finished] using this

theorem PB.signSet {st0 st : St} (h : PB st0 st) (i gas fee : Nat) (mk : Nat → Phase)
    (hmk : ∀ K k, isTxReq (mk K) k → k = K) :
    PB st0 (setPhase (signTx st i gas fee).1 i (mk (signTx st i gas fee).2)) := by
  obtain ⟨T, K, hs⟩ := signTx_shape st i gas fee
  rw [hs]
  intro j k hj
  simp only [setPhase, getSub_setSub] at hj ⊢
  by_cases e : j = i
  · subst e
    simp only [↓reduceIte] at hj
    left
    have := hmk K k hj
    subst this
    simp [setSub, lastSign_append_sign]
  · simp only [e, ↓reduceIte] at hj ⊢
    have hg : getSub { st with txs := T, events := st.events ++ [.sign i K ⟨i, st.seq, gas, fee⟩] } j = getSub st j := rfl
    rw [hg] at hj ⊢
    have := h j k hj
    have hne : ¬ i = j := fun x => e x.symm
    simpa [setSub, lastSign_append_sign, hne] using this

theorem PB.sab {st0 st : St} (h : PB st0 st) (i gas q : Nat) : PB st0 (signAndBroadcast st i gas q) := by
  unfold signAndBroadcast
  exact h.signSet i gas _ Phase.reqB (by intro K k hk; rcases hk with hk | hk <;> cases hk <;> rfl)

theorem PB.cs {st0 st : St} (h : PB st0 st) (i : Nat) : PB st0 (csLoop st i) := by
  unfold csLoop
  simp only []
  split
  · exact h.sab i _ _
  · exact h.setP i _ (by intro k hk; rcases hk with hk | hk <;> cases hk)
  · exact h.signSet i 0 1 Phase.reqE (by intro K k hk; rcases hk with hk | hk <;> cases hk <;> rfl)

theorem PB.relLock {st0} (fuel : Nat) {st : St} (h : PB st0 st) : PB st0 (releaseLock fuel st) := by
  induction fuel generalizing st with
  | zero => exact h.congr rfl rfl
  | succ fuel ih =>
    unfold releaseLock
    split
    · exact h.congr rfl rfl
    · simp only []
      split
      · rename_i j q _ _ _ _
        exact ih (PB.fin (st := { st with lockHeld := some j, lockQ := q, seq := _ }) (h.congr rfl rfl) _ _)
      · rename_i j q _ _ _
        exact PB.cs (st := { st with lockHeld := some j, lockQ := q }) (h.congr rfl rfl) _

theorem PB.rel {st0 st : St} (h : PB st0 st) : PB st0 (release st) := h.relLock _

theorem PB.fail {st0 st : St} (h : PB st0 st) (i : Nat) (r : Res) : PB st0 (failCS st i r) :=
  (h.fin i r).rel

theorem PB.lck {st0 st : St} (h : PB st0 st) (i : Nat) : PB st0 (enterLock st i) := by
  unfold enterLock
  split
  · exact PB.cs (st := { st with lockHeld := some i }) (h.congr rfl rfl) i
  · exact PB.setP (st := { st with lockQ := st.lockQ ++ [i] }) (h.congr rfl rfl) i _
      (by intro k hk; rcases hk with hk | hk <;> cases hk)

theorem PB.act {st0 st : St} (h : PB st0 st) (i : Nat) : PB st0 (enterAcct st i) := by
  unfold enterAcct
  split
  · exact h.lck i
  · split
    · exact PB.setP (h.congr rfl rfl) i _
        (by intro k hk; rcases hk with hk | hk <;> cases hk)
    · exact PB.setP (h.congr rfl rfl) i _
        (by intro k hk; rcases hk with hk | hk <;> cases hk)

theorem PB.chn {st0 st : St} (h : PB st0 st) (i : Nat) : PB st0 (enterChain st i) := by
  unfold enterChain
  split
  · exact h.act i
  · split
    · exact PB.setP (h.congr rfl rfl) i _
        (by intro k hk; rcases hk with hk | hk <;> cases hk)
    · exact PB.setP (h.congr rfl rfl) i _
        (by intro k hk; rcases hk with hk | hk <;> cases hk)

theorem PB.fold {st0} (f : St → Nat → St) (hf : ∀ st i, PB st0 st → PB st0 (f st i))
    (ws : List Nat) {st : St} (h : PB st0 st) : PB st0 (ws.foldl f st) := by
  induction ws generalizing st with
  | nil => exact h
  | cons w ws ih => exact ih (hf _ _ h)

theorem noTx {p : Phase} (h : ∀ k, p ≠ .reqB k ∧ p ≠ .reqE k) : ∀ k, ¬ isTxReq p k := by
  intro k hk; rcases hk with hk | hk
  · exact (h k).1 hk
  · exact (h k).2 hk

theorem PB.ans {st0 st : St} (h : PB st0 st) (i : Nat) (a : Ans) : PB st0 (answer st i a) := by
  unfold answer
  split
  · unfold ansL
    split
    · exact PB.fold _ (fun _ _ h => h.act _) _ (PB.act (st := { st with chain := { ready := true, busy := false, waiters := [] } }) (h.congr rfl rfl) i)
    · simp only []
      have hf := h.fin i .tonic
      split
      · exact hf.congr rfl rfl
      · exact PB.setP (hf.congr rfl rfl) _ .reqL (noTx (by simp))
  · unfold ansG
    split
    · rename_i n
      exact PB.fold _ (fun _ _ h => h.lck _) _ (PB.lck (st := { st with seq := n, acct := { ready := true, busy := false, waiters := [] } }) (h.congr rfl rfl) i)
    · simp only []
      have hf := h.fin i .tonic
      split
      · exact hf.congr rfl rfl
      · exact PB.setP (hf.congr rfl rfl) _ .reqG (noTx (by simp))
  · unfold ansP
    split
    · exact h.sab i _ _
    · exact h.fail i _
  · unfold ansE
    split
    · exact h.sab i _ _
    · rename_i n
      exact PB.cs (st := { st with seq := n }) (h.congr rfl rfl) i
    · exact h.fail i _
    · exact h.fail i _
  · rename_i kk _
    unfold ansB
    have hacc : PB st0 (accept st i kk) := by
      unfold accept
      simp only []
      apply PB.rel
      intro j k hj
      simp only [getSub_setSub] at hj ⊢
      by_cases e : j = i
      · subst e; simp at hj; rcases hj with hj | hj <;> cases hj
      · simp only [e, ↓reduceIte] at hj ⊢
        exact h j k hj
    split
    · exact hacc
    · exact hacc
    · rename_i n
      exact PB.cs (st := { st with seq := n }) (h.congr rfl rfl) i
    · exact h.fail i _
    · exact h.fail i _
    · exact h.fail i _
  · unfold ansT
    split
    · exact h
    · exact h.fin i _
    · split
      · exact h.fin i _
      · split
        · exact PB.fin (h.congr rfl rfl) i _
        · exact PB.setP (h.congr rfl rfl) i _ (noTx (by simp))
    · exact h.setP i _ (noTx (by simp))
    · exact h.setP i _ (noTx (by simp))
    · exact h.fin i _
  · unfold ansRB
    split
    · exact h.setP i _ (noTx (by simp))
    · exact h.fin i _
  · exact h

/-- **what is pending at the node inside the critical section is what was just signed**: after
    any step, a submission whose pending broadcast / simulation carries transaction `k` either
    signed `k` as its last signature of this step, or signed nothing in this step and had that very
    request pending before the step -/
theorem pb_step (st : St) (op : Op) : PB st (step st op) := by
  have h0 : PB st { st with events := [] } := by
    intro j k _; right; exact ⟨rfl, rfl⟩
  unfold step
  cases op with
  | start i gl gp =>
    simp only []
    split
    · apply PB.chn
      intro j k hj
      simp only [getSub_setSub] at hj ⊢
      by_cases e : j = i
      · subst e; simp at hj; rcases hj with hj | hj <;> cases hj
      · simp only [e, ↓reduceIte] at hj ⊢
        exact h0 j k hj
    · exact h0
  | ans i a => exact h0.ans i a

/-! ## the ledger's event rule is `replay` -/

/-- an event as the observer sees it -/
def oev : Event → OEv
  | .sign i k tx => .sign ⟨i, tx.seq, tx.gas, tx.fee, k⟩
  | .finished i r => .fin i (match r with | .rejected c => some c | _ => none)

theorem lookup_put {α} (l : List (Nat × α)) (i j : Nat) (a : α) :
    (Lumina.Spec.C43.put l i a).lookup j = if j = i then some a else l.lookup j := by
  unfold Lumina.Spec.C43.put
  by_cases h : j = i
  · subst h; simp [List.lookup]
  · have : (j == i) = false := by simp [h]
    simp only [List.lookup, this, h, ↓reduceIte]
    induction l with
    | nil => rfl
    | cons p l ih =>
      obtain ⟨k, b⟩ := p
      by_cases hk : k = i
      · subst hk
        have : (j == k) = false := by simp [h]
        simp [List.filter, List.lookup, this, ih]
      · have hk' : (k != i) = true := by simp [hk]
        simp only [List.filter, hk', List.lookup]
        split <;> simp_all

/-- **the ledger's event rule is `replay`**: if the ledger believes `b`, its table of accepted
    transactions agrees with `g` on the signed sequences, and no signature in `es` is for a
    submission with an accepted transaction, then the ledger accepts the events exactly when
    `replay` does, and ends up believing what `replay` computes -/
theorem spec_events_replay (g : Nat → Nat) (es : List Event) (l : Ledger) (b : Nat)
    (hb : l.believed = some b)
    (hacc : ∀ j tx, l.accepted.lookup j = some tx → tx.seq = g j)
    (hfin : ∀ j c, Event.finished j (.rejected c) ∈ es → isWrongSequence c = false → (l.accepted.lookup j).isSome)
    (hsig : ∀ j k tx, Event.sign j k tx ∈ es → l.accepted.lookup j = none)
    (b' : Nat) (hr : replay g b es = some b') :
    ∃ l', Lumina.Spec.C43.events l (es.map oev) = .ok l' ∧ l'.believed = some b' ∧ l'.accepted = l.accepted := by
  induction es generalizing l b with
  | nil =>
    simp only [replay, Option.some.injEq] at hr
    exact ⟨l, rfl, by rw [hb, hr], rfl⟩
  | cons e es ih =>
    cases e with
    | sign i k tx =>
      simp only [replay] at hr
      split at hr
      · rename_i hseq
        have hn := hsig i k tx (by simp)
        simp only [List.map_cons, oev, Lumina.Spec.C43.events, Lumina.Spec.C43.event, hn, Option.isSome_none,
          Bool.false_eq_true, ↓reduceIte, hb, hseq]
        simp only [bne_self_eq_false, Bool.false_eq_true, ↓reduceIte]
        exact ih { believed := some b, lastSigned := Lumina.Spec.C43.put l.lastSigned i ⟨i, b, tx.gas, tx.fee, k⟩, accepted := l.accepted, prev := l.prev } b rfl hacc
          (fun j c hm hw => hfin j c (List.mem_cons_of_mem _ hm) hw)
          (fun j k tx hm => hsig j k tx (List.mem_cons_of_mem _ hm)) hr
      · cases hr
    | finished i r =>
      simp only [replay] at hr
      cases r with
      | rejected c =>
        simp only [List.map_cons, oev, Lumina.Spec.C43.events, Lumina.Spec.C43.event]
        by_cases hw : isWrongSequence c = true
        · have hw' : Lumina.Spec.C43.wrongSequence c = true := hw
          simp only [hw, ↓reduceIte] at hr
          cases hl : l.accepted.lookup i with
          | none =>
            simp only []
            exact ih l b hb hacc (fun j c hm hw => hfin j c (List.mem_cons_of_mem _ hm) hw)
              (fun j k tx hm => hsig j k tx (List.mem_cons_of_mem _ hm)) hr
          | some tx =>
            simp only [hw', ↓reduceIte]
            exact ih l b hb hacc (fun j c hm hw => hfin j c (List.mem_cons_of_mem _ hm) hw)
              (fun j k tx hm => hsig j k tx (List.mem_cons_of_mem _ hm)) hr
        · have hwf : isWrongSequence c = false := by simpa using hw
          have hw' : Lumina.Spec.C43.wrongSequence c = false := hwf
          simp only [hwf, Bool.false_eq_true, ↓reduceIte] at hr
          have hs := hfin i c (by simp) hwf
          cases hl : l.accepted.lookup i with
          | none => simp [hl] at hs
          | some tx =>
            simp only [hw', Bool.false_eq_true, ↓reduceIte]
            have hseq := hacc i tx hl
            exact ih { l with believed := some tx.seq } (g i) (by simp [hseq]) hacc
              (fun j c hm hw => hfin j c (List.mem_cons_of_mem _ hm) hw)
              (fun j k tx hm => hsig j k tx (List.mem_cons_of_mem _ hm)) hr
      | _ =>
        simp only [List.map_cons, oev, Lumina.Spec.C43.events, Lumina.Spec.C43.event]
        exact ih l b hb hacc (fun j c hm hw => hfin j c (List.mem_cons_of_mem _ hm) hw)
          (fun j k tx hm => hsig j k tx (List.mem_cons_of_mem _ hm)) hr

/-! ## `extract_sequence` -/

theorem isPrefixOf_append_of_le (pat l r : List Char) (h : pat.length ≤ l.length) :
    pat.isPrefixOf (l ++ r) = pat.isPrefixOf l := by
  induction pat generalizing l with
  | nil => simp
  | cons c pat ih =>
    cases l with
    | nil => simp at h
    | cons d l =>
      simp only [List.cons_append, List.isPrefixOf]
      rw [ih l (by simpa using h)]

theorem isPrefixOf_self_append (pat r : List Char) : pat.isPrefixOf (pat ++ r) = true := by
  induction pat with
  | nil => simp
  | cons c pat ih => simp [List.isPrefixOf, ih]

theorem splitOnce_first (pat pre rest : List Char) (hne : pat ≠ [])
    (h : ∀ k < pre.length, pat.isPrefixOf (pre.drop k ++ pat) = false) :
    splitOnce pat (pre ++ pat ++ rest) = some (pre, rest) := by
  induction pre with
  | nil =>
    cases pat with
    | nil => exact absurd rfl hne
    | cons c t =>
      simp only [List.nil_append, List.cons_append, splitOnce]
      have := isPrefixOf_self_append (c :: t) rest
      simp only [List.cons_append] at this
      rw [this]
      simp
  | cons d pre ih =>
    have h0 := h 0 (by simp)
    simp only [List.drop_zero] at h0
    simp only [List.cons_append, splitOnce]
    have hlen : pat.length ≤ (d :: pre ++ pat).length := by simp; omega
    have := isPrefixOf_append_of_le pat (d :: pre ++ pat) rest hlen
    simp only [List.cons_append, List.append_assoc] at this h0 ⊢
    rw [this, h0]
    have ih' := ih (fun k hk => by
      have := h (k + 1) (by simpa using hk)
      simpa using this)
    simp only [List.append_assoc] at ih'
    simp [ih']

def isDigit (c : Char) : Bool := '0' ≤ c && c ≤ '9'

theorem digitsVal_eq (ds : List Char) (acc : Nat) (h : ∀ c ∈ ds, isDigit c = true) :
    digitsVal ds acc = some (ds.foldl (fun a c => a * 10 + (c.toNat - 48)) acc) := by
  induction ds generalizing acc with
  | nil => rfl
  | cons c ds ih =>
    simp only [List.mem_cons, forall_eq_or_imp] at h
    have hc : '0' ≤ c ∧ c ≤ '9' := by simpa [isDigit] using h.1
    simp only [digitsVal, hc, and_self, ↓reduceIte, List.foldl_cons]
    exact ih _ h.2

theorem splitOnce_comma (ds post : List Char) (h : ∀ c ∈ ds, isDigit c = true) :
    splitOnce [','] (ds ++ ',' :: post) = some (ds, post) := by
  induction ds with
  | nil => simp [splitOnce, List.isPrefixOf]
  | cons c ds ih =>
    simp only [List.mem_cons, forall_eq_or_imp] at h
    have hc : c ≠ ',' := by
      intro e; subst e; have := h.1; simp [isDigit] at this
    simp only [List.cons_append, splitOnce, List.isPrefixOf]
    have : (',' == c) = false := by simp; exact fun e => hc e.symm
    simp [this, ih h.2]

theorem stripPlus_id (ds : List Char) (h : ∀ c ∈ ds, isDigit c = true) : stripPlus ds = ds := by
  cases ds with
  | nil => rfl
  | cons c t =>
    have hc : c ≠ '+' := by
      intro e; subst e; have := h '+' (by simp); simp [isDigit] at this
    simp [stripPlus, hc]


end Lumina.Proofs.TxSeq

/-
  C42 — helper lemmas: the inductive invariant of the task/join-handle transition system.
-/
import Lumina.Model.TasksObs

namespace Lumina.Proofs.Tasks
open Lumina.Model.Tasks

/-- the model's task record (core Lean also has a `Task`) -/
abbrev MTask := Lumina.Model.Tasks.Task

inductive Reachable : State → Prop
  | init : Reachable init
  | step {s s' : State} {l : Label} : Reachable s → step s l = some s' → Reachable s'

theorem getElem?_lt {α} {l : List α} {i : Nat} {a : α} (h : l[i]? = some a) : i < l.length :=
  (List.getElem?_eq_some_iff.mp h).1

theorem getElem?_setTask {s : State} {i j : Nat} {t : MTask} :
    (setTask s i t).tasks[j]? = if i = j then (if j < s.tasks.length then some t else none) else s.tasks[j]? := by
  simp only [setTask, List.getElem?_set]
  split <;> simp_all

theorem setTask_cancelled {s : State} {i : Nat} {t : MTask} : (setTask s i t).cancelled = s.cancelled := rfl

/-- per-task invariant -/
structure Good (s : State) (t : MTask) : Prop where
  /-- the handle's token is triggered only in an `ended` state -/
  trigEnded : t.triggered = true → isEnded t.pc = true
  /-- while the cancellation token is not cancelled no poll counts as late -/
  lateZero : isCancelled s t = false → t.latePolls = 0
  /-- after the cancellation at most one poll of the inner future begins … -/
  lateLe : t.latePolls ≤ 1
  /-- … namely the one whose cancellation check came before the cancellation -/
  lateChecked : isCancelled s t = true → t.pc = .checked → t.latePolls = 0

def Inv (s : State) : Prop := ∀ (j : Nat) (t : MTask), s.tasks[j]? = some t → Good s t

theorem inv_init : Inv init := by
  intro j t h
  simp [init] at h

/-- a task untouched by a step that leaves `cancelled` alone stays good -/
theorem good_same {s s' : State} {t : MTask} (hc : s'.cancelled = s.cancelled) (g : Good s t) : Good s' t := by
  have : isCancelled s' t = isCancelled s t := by simp [isCancelled, hc]
  exact ⟨g.trigEnded, by rw [this]; exact g.lateZero, g.lateLe, by rw [this]; exact g.lateChecked⟩

theorem inv_setTask {s : State} {i : Nat} {t t' : MTask} (hi : Inv s) (_ht : s.tasks[i]? = some t)
    (hg : Good s t') : Inv (setTask s i t') := by
  intro j tj hj
  rw [getElem?_setTask] at hj
  split at hj
  · split at hj
    · cases hj
      exact good_same setTask_cancelled hg
    · cases hj
  · exact good_same setTask_cancelled (hi j tj hj)

theorem inv_step {s s' : State} {l : Label} (hi : Inv s) (hs : step s l = some s') : Inv s' := by
  cases l with
  | spawn c tok =>
    simp only [step] at hs
    cases hs
    intro j t hj
    by_cases hlt : j < s.tasks.length
    · rw [List.getElem?_append_left hlt] at hj
      exact good_same (s := s) rfl (hi j t hj)
    · have hj' := hj
      rw [List.getElem?_append_right (by omega)] at hj'
      have : j - s.tasks.length = 0 := by
        have := getElem?_lt hj
        simp at this
        omega
      rw [this] at hj'
      simp at hj'
      subst hj'
      exact ⟨by simp, by simp, by simp, by simp⟩
  | cancel tok =>
    simp only [step] at hs
    cases hs
    intro j t hj
    have g := hi j t hj
    refine ⟨g.trigEnded, ?_, g.lateLe, ?_⟩
    · intro hn
      apply g.lateZero
      simp only [isCancelled, List.contains_cons, Bool.and_eq_false_imp] at hn ⊢
      intro hc
      have := hn hc
      simp only [Bool.or_eq_false_iff] at this
      exact this.2
    · intro hcn hpc
      by_cases hold : isCancelled s t = true
      · exact g.lateChecked hold hpc
      · exact g.lateZero (by simpa using hold)
  | begin i =>
    simp only [step] at hs
    split at hs
    · rename_i t ht
      have g := hi i t ht
      split at hs
      · rename_i hpc
        split at hs
        · rename_i hcan
          cases hs
          refine inv_setTask hi ht ⟨by simp [isEnded], ?_, g.lateLe, by simp⟩
          intro h
          have : isCancelled s t = false := h
          rw [hcan] at this
          cases this
        · rename_i hcan
          cases hs
          have hcf : isCancelled s t = false := by simpa using hcan
          refine inv_setTask hi ht ⟨?_, fun _ => g.lateZero hcf, g.lateLe, ?_⟩
          · intro h
            have := g.trigEnded h
            rw [hpc] at this
            simp [isEnded] at this
          · intro h
            have : isCancelled s t = true := h
            rw [hcf] at this
            cases this
      · cases hs
    · cases hs
  | inner i b =>
    simp only [step] at hs
    split at hs
    · rename_i t ht
      have g := hi i t ht
      split at hs
      · rename_i hpc
        have htrig : t.triggered = false := by
          cases h : t.triggered with
          | false => rfl
          | true =>
            have := g.trigEnded h
            rw [hpc] at this
            simp [isEnded] at this
        -- the ghost counters after this poll
        have hlate : (if isCancelled s t = true then t.latePolls + 1 else t.latePolls) ≤ 1 := by
          split
          · rename_i hc
            have := g.lateChecked hc hpc
            omega
          · exact g.lateLe
        have hzero : isCancelled s t = false →
            (if isCancelled s t = true then t.latePolls + 1 else t.latePolls) = 0 := by
          intro hc
          simp only [hc, Bool.false_eq_true, ↓reduceIte]
          exact g.lateZero hc
        cases b <;> simp only at hs <;> cases hs
        · exact inv_setTask hi ht ⟨by simp [htrig], hzero, hlate, by simp⟩
        · exact inv_setTask hi ht ⟨by simp [isEnded], hzero, hlate, by simp⟩
        · exact inv_setTask hi ht ⟨by simp [isEnded], hzero, hlate, by simp⟩
      · cases hs
    · cases hs
  | abort i =>
    simp only [step] at hs
    split at hs
    · rename_i t ht
      have g := hi i t ht
      split at hs
      · cases hs
        exact inv_setTask hi ht ⟨by simp [isEnded], g.lateZero, g.lateLe, by simp⟩
      · cases hs
    · cases hs
  | dropGuard i =>
    simp only [step] at hs
    split at hs
    · rename_i t ht
      have g := hi i t ht
      split at hs
      · rename_i how hpc
        split at hs
        · cases hs
        · cases hs
          exact inv_setTask hi ht ⟨by simp [hpc, isEnded], g.lateZero, g.lateLe,
            fun h hc => g.lateChecked h hc⟩
      · cases hs
    · cases hs

theorem inv_reachable {s : State} (h : Reachable s) : Inv s := by
  induction h with
  | init => exact inv_init
  | step _ hs ih => exact inv_step ih hs

theorem reachable_run {s s' : State} {ls : List Label} (h : Reachable s) (hr : run s ls = some s') :
    Reachable s' := by
  induction ls generalizing s with
  | nil => simp [run, runWith] at hr; subst hr; exact h
  | cons l ls ih =>
    simp only [run, runWith] at hr
    split at hr
    · rename_i s1 hs1
      exact ih (Reachable.step h hs1) hr
    · cases hr

/-- a triggered handle stays triggered across any step -/
theorem step_keeps_triggered {s s' : State} {l : Label} {i : Nat} {t : MTask}
    (hs : step s l = some s') (ht : s.tasks[i]? = some t) (htr : t.triggered = true) :
    ∃ t', s'.tasks[i]? = some t' ∧ t'.triggered = true := by
  have hlt := getElem?_lt ht
  cases l with
  | spawn c tok =>
    simp only [step] at hs
    cases hs
    exact ⟨t, by rw [List.getElem?_append_left hlt, ht], htr⟩
  | cancel tok =>
    simp only [step] at hs
    cases hs
    exact ⟨t, ht, htr⟩
  | begin k =>
    simp only [step] at hs
    split at hs
    · rename_i tk htk
      split at hs
      · by_cases hik : k = i
        · subst hik
          rw [ht] at htk
          cases htk
          split at hs <;> cases hs <;> simp [getElem?_setTask, hlt, htr]
        · split at hs <;> cases hs <;> exact ⟨t, by simp [getElem?_setTask, hik, ht], htr⟩
      · cases hs
    · cases hs
  | inner k b =>
    simp only [step] at hs
    split at hs
    · rename_i tk htk
      split at hs
      · by_cases hik : k = i
        · subst hik
          rw [ht] at htk
          cases htk
          cases b <;> simp only at hs <;> cases hs <;> simp [getElem?_setTask, hlt, htr]
        · cases b <;> simp only at hs <;> cases hs <;>
            exact ⟨t, by simp [getElem?_setTask, hik, ht], htr⟩
      · cases hs
    · cases hs
  | abort k =>
    simp only [step] at hs
    split at hs
    · rename_i tk htk
      split at hs
      · by_cases hik : k = i
        · subst hik
          rw [ht] at htk
          cases htk
          cases hs
          simp [getElem?_setTask, hlt, htr]
        · cases hs
          exact ⟨t, by simp [getElem?_setTask, hik, ht], htr⟩
      · cases hs
    · cases hs
  | dropGuard k =>
    simp only [step] at hs
    split at hs
    · rename_i tk htk
      split at hs
      · split at hs
        · cases hs
        · by_cases hik : k = i
          · subst hik
            cases hs
            simp [getElem?_setTask, hlt]
          · cases hs
            exact ⟨t, by simp [getElem?_setTask, hik, ht], htr⟩
      · cases hs
    · cases hs

end Lumina.Proofs.Tasks

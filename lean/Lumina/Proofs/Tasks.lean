/-
  C42 — helper lemmas: the inductive invariant of the task/join-handle transition system.
-/
import Lumina.Model.TasksObs

namespace Lumina.Proofs.Tasks
open Lumina.Model.Tasks

/-- the model's task record (core Lean also has a `Task`) -/
abbrev MTask := Lumina.Model.Tasks.Task

inductive Reachable : State → Prop
  | init : Reachable init
  | step {s s' : State} {l : Label} : Reachable s → step s l = some s' → Reachable s'

theorem getElem?_lt {α} {l : List α} {i : Nat} {a : α} (h : l[i]? = some a) : i < l.length :=
  (List.getElem?_eq_some_iff.mp h).1

theorem getElem?_setTask {s : State} {i j : Nat} {t : MTask} :
    (setTask s i t).tasks[j]? = if i = j then (if j < s.tasks.length then some t else none) else s.tasks[j]? := by
  simp only [setTask, List.getElem?_set]
  split <;> simp_all

theorem getElem?_setTask_self {s : State} {i : Nat} {t : MTask} (h : i < s.tasks.length) :
    (setTask s i t).tasks[i]? = some t := by
  simp [getElem?_setTask, h]

theorem setTask_cancelled {s : State} {i : Nat} {t : MTask} : (setTask s i t).cancelled = s.cancelled := rfl

/-- per-task invariant -/
structure Good (s : State) (t : MTask) : Prop where
  /-- the handle's token is triggered only in an `ended` state -/
  trigEnded : t.triggered = true → isEnded t.pc = true
  /-- while the cancellation token is not cancelled no poll counts as late -/
  lateZero : isCancelled s t = false → t.latePolls = 0
  /-- after the cancellation at most one poll of the inner future begins … -/
  lateLe : t.latePolls ≤ 1
  /-- … namely the one whose cancellation check came before the cancellation -/
  lateChecked : isCancelled s t = true → t.pc = .checked → t.latePolls = 0

def Inv (s : State) : Prop := ∀ (j : Nat) (t : MTask), s.tasks[j]? = some t → Good s t

theorem inv_init : Inv init := by
  intro j t h
  simp [init] at h

/-- a task untouched by a step that leaves `cancelled` alone stays good -/
theorem good_same {s s' : State} {t : MTask} (hc : s'.cancelled = s.cancelled) (g : Good s t) : Good s' t := by
  have : isCancelled s' t = isCancelled s t := by simp [isCancelled, hc]
  exact ⟨g.trigEnded, by rw [this]; exact g.lateZero, g.lateLe, by rw [this]; exact g.lateChecked⟩

theorem inv_setTask {s : State} {i : Nat} {t t' : MTask} (hi : Inv s) (_ht : s.tasks[i]? = some t)
    (hg : Good s t') : Inv (setTask s i t') := by
  intro j tj hj
  rw [getElem?_setTask] at hj
  split at hj
  · split at hj
    · cases hj
      exact good_same setTask_cancelled hg
    · cases hj
  · exact good_same setTask_cancelled (hi j tj hj)

theorem inv_step {s s' : State} {l : Label} (hi : Inv s) (hs : step s l = some s') : Inv s' := by
  cases l with
  | spawn c tok =>
    simp only [step] at hs
    cases hs
    intro j t hj
    by_cases hlt : j < s.tasks.length
    · rw [List.getElem?_append_left hlt] at hj
      exact good_same (s := s) rfl (hi j t hj)
    · have hj' := hj
      rw [List.getElem?_append_right (by omega)] at hj'
      have : j - s.tasks.length = 0 := by
        have := getElem?_lt hj
        simp at this
        omega
      rw [this] at hj'
      simp at hj'
      subst hj'
      exact ⟨by simp, by simp, by simp, by simp⟩
  | cancel tok =>
    simp only [step] at hs
    cases hs
    intro j t hj
    have g := hi j t hj
    refine ⟨g.trigEnded, ?_, g.lateLe, ?_⟩
    · intro hn
      apply g.lateZero
      simp only [isCancelled, List.contains_cons, Bool.and_eq_false_imp] at hn ⊢
      intro hc
      have := hn hc
      simp only [Bool.or_eq_false_iff] at this
      exact this.2
    · intro hcn hpc
      by_cases hold : isCancelled s t = true
      · exact g.lateChecked hold hpc
      · exact g.lateZero (by simpa using hold)
  | begin i =>
    simp only [step] at hs
    split at hs
    · rename_i t ht
      have g := hi i t ht
      split at hs
      · rename_i hpc
        split at hs
        · rename_i hcan
          cases hs
          refine inv_setTask hi ht ⟨by simp [isEnded], ?_, g.lateLe, by simp⟩
          intro h
          have : isCancelled s t = false := h
          rw [hcan] at this
          cases this
        · rename_i hcan
          cases hs
          have hcf : isCancelled s t = false := by simpa using hcan
          refine inv_setTask hi ht ⟨?_, fun _ => g.lateZero hcf, g.lateLe, ?_⟩
          · intro h
            have := g.trigEnded h
            rw [hpc] at this
            simp [isEnded] at this
          · intro h
            have : isCancelled s t = true := h
            rw [hcf] at this
            cases this
      · cases hs
    · cases hs
  | inner i b =>
    simp only [step] at hs
    split at hs
    · rename_i t ht
      have g := hi i t ht
      split at hs
      · rename_i hpc
        have htrig : t.triggered = false := by
          cases h : t.triggered with
          | false => rfl
          | true =>
            have := g.trigEnded h
            rw [hpc] at this
            simp [isEnded] at this
        -- the ghost counters after this poll
        have hlate : (if isCancelled s t = true then t.latePolls + 1 else t.latePolls) ≤ 1 := by
          split
          · rename_i hc
            have := g.lateChecked hc hpc
            omega
          · exact g.lateLe
        have hzero : isCancelled s t = false →
            (if isCancelled s t = true then t.latePolls + 1 else t.latePolls) = 0 := by
          intro hc
          simp only [hc, Bool.false_eq_true, ↓reduceIte]
          exact g.lateZero hc
        cases b <;> simp only at hs <;> cases hs
        · exact inv_setTask hi ht ⟨by simp [htrig], hzero, hlate, by simp⟩
        · exact inv_setTask hi ht ⟨by simp [isEnded], hzero, hlate, by simp⟩
        · exact inv_setTask hi ht ⟨by simp [isEnded], hzero, hlate, by simp⟩
      · cases hs
    · cases hs
  | abort i =>
    simp only [step] at hs
    split at hs
    · rename_i t ht
      have g := hi i t ht
      split at hs
      · cases hs
        exact inv_setTask hi ht ⟨by simp [isEnded], g.lateZero, g.lateLe, by simp⟩
      · cases hs
    · cases hs
  | dropGuard i =>
    simp only [step] at hs
    split at hs
    · rename_i t ht
      have g := hi i t ht
      split at hs
      · rename_i how hpc
        split at hs
        · cases hs
        · cases hs
          exact inv_setTask hi ht ⟨by simp [hpc, isEnded], g.lateZero, g.lateLe,
            fun h hc => g.lateChecked h hc⟩
      · cases hs
    · cases hs

theorem inv_reachable {s : State} (h : Reachable s) : Inv s := by
  induction h with
  | init => exact inv_init
  | step _ hs ih => exact inv_step ih hs

theorem reachable_run {s s' : State} {ls : List Label} (h : Reachable s) (hr : run s ls = some s') :
    Reachable s' := by
  induction ls generalizing s with
  | nil => simp [run, runWith] at hr; subst hr; exact h
  | cons l ls ih =>
    simp only [run, runWith] at hr
    split at hr
    · rename_i s1 hs1
      exact ih (Reachable.step h hs1) hr
    · cases hr

/-- a triggered handle stays triggered across any step -/
theorem step_keeps_triggered {s s' : State} {l : Label} {i : Nat} {t : MTask}
    (hs : step s l = some s') (ht : s.tasks[i]? = some t) (htr : t.triggered = true) :
    ∃ t', s'.tasks[i]? = some t' ∧ t'.triggered = true := by
  have hlt := getElem?_lt ht
  cases l with
  | spawn c tok =>
    simp only [step] at hs
    cases hs
    exact ⟨t, by rw [List.getElem?_append_left hlt, ht], htr⟩
  | cancel tok =>
    simp only [step] at hs
    cases hs
    exact ⟨t, ht, htr⟩
  | begin k =>
    simp only [step] at hs
    split at hs
    · rename_i tk htk
      split at hs
      · by_cases hik : k = i
        · subst hik
          rw [ht] at htk
          cases htk
          split at hs <;> cases hs <;> simp [getElem?_setTask, hlt, htr]
        · split at hs <;> cases hs <;> exact ⟨t, by simp [getElem?_setTask, hik, ht], htr⟩
      · cases hs
    · cases hs
  | inner k b =>
    simp only [step] at hs
    split at hs
    · rename_i tk htk
      split at hs
      · by_cases hik : k = i
        · subst hik
          rw [ht] at htk
          cases htk
          cases b <;> simp only at hs <;> cases hs <;> simp [getElem?_setTask, hlt, htr]
        · cases b <;> simp only at hs <;> cases hs <;>
            exact ⟨t, by simp [getElem?_setTask, hik, ht], htr⟩
      · cases hs
    · cases hs
  | abort k =>
    simp only [step] at hs
    split at hs
    · rename_i tk htk
      split at hs
      · by_cases hik : k = i
        · subst hik
          rw [ht] at htk
          cases htk
          cases hs
          simp [getElem?_setTask, hlt, htr]
        · cases hs
          exact ⟨t, by simp [getElem?_setTask, hik, ht], htr⟩
      · cases hs
    · cases hs
  | dropGuard k =>
    simp only [step] at hs
    split at hs
    · rename_i tk htk
      split at hs
      · split at hs
        · cases hs
        · by_cases hik : k = i
          · subst hik
            cases hs
            simp [getElem?_setTask, hlt]
          · cases hs
            exact ⟨t, by simp [getElem?_setTask, hik, ht], htr⟩
      · cases hs
    · cases hs

/-! ### model ⊨ `Spec.C42.specSafe` on the event trace of every run -/

open Lumina.Spec.C42 (Ev specSafe)

theorem specSafe_append (seen es tr : List Ev) :
    specSafe seen (es ++ tr) = (specSafe seen es && specSafe (es.reverse ++ seen) tr) := by
  induction es generalizing seen with
  | nil => simp [specSafe]
  | cons e es ih =>
    cases e <;> simp [specSafe, ih, Bool.and_assoc]

/-- every task that has ended has its `ended` event among the events seen so far -/
def SeenInv (s : State) (seen : List Ev) : Prop :=
  ∀ (i : Nat) (t : MTask), s.tasks[i]? = some t → isEnded t.pc = true → Ev.ended i ∈ seen

theorem seenInv_mono {s : State} {seen more : List Ev} (h : SeenInv s seen) : SeenInv s (more ++ seen) :=
  fun i t ht he => List.mem_append_right _ (h i t ht he)

/-- one step: its events pass `specSafe`, and the invariant holds afterwards -/
theorem step_safe {s s' : State} {l : Label} {seen : List Ev} (hi : SeenInv s seen)
    (hs : step s l = some s') :
    specSafe seen (evOf s l) = true ∧ SeenInv s' ((evOf s l).reverse ++ seen) := by
  cases l with
  | spawn c tok =>
    simp only [step] at hs
    cases hs
    refine ⟨by simp [evOf, specSafe], ?_⟩
    intro i t ht he
    by_cases hlt : i < s.tasks.length
    · rw [List.getElem?_append_left hlt] at ht
      exact List.mem_append_right _ (hi i t ht he)
    · rw [List.getElem?_append_right (by omega)] at ht
      have : i - s.tasks.length = 0 := by
        have := getElem?_lt ht
        simp at this
        omega
      rw [this] at ht
      simp at ht
      subst ht
      simp [isEnded] at he
  | cancel tok =>
    simp only [step] at hs
    cases hs
    exact ⟨by simp [evOf, specSafe], fun i t ht he => List.mem_append_right _ (hi i t ht he)⟩
  | begin k =>
    simp only [step] at hs
    split at hs
    · rename_i tk htk
      split at hs
      · rename_i hpc
        split at hs
        · rename_i hcan
          cases hs
          have hev : evOf s (.begin k) = [.ended k] := by simp [evOf, htk, hpc, hcan]
          rw [hev]
          refine ⟨by simp [specSafe], ?_⟩
          intro i t ht he
          rw [getElem?_setTask] at ht
          split at ht
          · rename_i hik; subst hik; simp
          · exact List.mem_append_right _ (hi i t ht he)
        · rename_i hcan
          cases hs
          have hev : evOf s (.begin k) = [] := by simp [evOf, htk, hpc, hcan]
          rw [hev]
          refine ⟨by simp [specSafe], ?_⟩
          intro i t ht he
          rw [getElem?_setTask] at ht
          split at ht
          · split at ht
            · cases ht; simp [isEnded] at he
            · cases ht
          · simpa using hi i t ht he
      · cases hs
    · cases hs
  | inner k b =>
    simp only [step] at hs
    split at hs
    · rename_i tk htk
      split at hs
      · rename_i hpc
        cases b <;> simp only at hs <;> cases hs
        · refine ⟨by simp [evOf, specSafe], ?_⟩
          intro i t ht he
          rw [getElem?_setTask] at ht
          split at ht
          · split at ht
            · cases ht; simp [isEnded] at he
            · cases ht
          · exact List.mem_append_right _ (hi i t ht he)
        · refine ⟨by simp [evOf, specSafe], ?_⟩
          intro i t ht he
          rw [getElem?_setTask] at ht
          split at ht
          · rename_i hik; subst hik; simp [evOf]
          · exact List.mem_append_right _ (hi i t ht he)
        · refine ⟨by simp [evOf, specSafe], ?_⟩
          intro i t ht he
          rw [getElem?_setTask] at ht
          split at ht
          · rename_i hik; subst hik; simp [evOf]
          · exact List.mem_append_right _ (hi i t ht he)
      · cases hs
    · cases hs
  | abort k =>
    simp only [step] at hs
    split at hs
    · rename_i tk htk
      split at hs
      · cases hs
        refine ⟨by simp [evOf, specSafe], ?_⟩
        intro i t ht he
        rw [getElem?_setTask] at ht
        split at ht
        · rename_i hik; subst hik; simp [evOf]
        · exact List.mem_append_right _ (hi i t ht he)
      · cases hs
    · cases hs
  | dropGuard k =>
    simp only [step] at hs
    split at hs
    · rename_i tk htk
      split at hs
      · rename_i how hpc
        split at hs
        · cases hs
        · cases hs
          have hended : Ev.ended k ∈ seen := hi k tk htk (by simp [hpc, isEnded])
          refine ⟨by simp [evOf, specSafe, hended], ?_⟩
          intro i t ht he
          rw [getElem?_setTask] at ht
          split at ht
          · rename_i hik
            subst hik
            exact List.mem_append_right _ hended
          · exact List.mem_append_right _ (hi i t ht he)
      · cases hs
    · cases hs

theorem trace_safe {ls : List Label} : ∀ {s s' : State} {seen tr : List Ev}, SeenInv s seen →
    traceOf s ls = some (s', tr) → specSafe seen tr = true := by
  induction ls with
  | nil => intro s s' seen tr _ h; simp [traceOf] at h; rw [h.2]; simp [specSafe]
  | cons l ls ih =>
    intro s s' seen tr hi h
    simp only [traceOf] at h
    split at h
    · cases h
    · rename_i s1 hs1
      split at h
      · cases h
      · rename_i s2 tr2 htr2
        cases h
        obtain ⟨h1, h2⟩ := step_safe hi hs1
        rw [specSafe_append, h1, Bool.true_and]
        exact ih h2 htr2

/-! ### model ⊨ `Spec.C42.specLive` on the event trace of every run that ends quiescent -/

open Lumina.Spec.C42 (specLive)

/-- the events so far and the state agree: an `ended` event only for ended tasks, and a `joined`
    event for every triggered handle -/
structure LiveInv (s : State) (evs : List Ev) : Prop where
  endedOnly : ∀ i, Ev.ended i ∈ evs → ∃ t : MTask, s.tasks[i]? = some t ∧ isEnded t.pc = true
  joinedAll : ∀ (i : Nat) (t : MTask), s.tasks[i]? = some t → t.triggered = true → Ev.joined i ∈ evs

/-- frame: a task other than the one a step touches is unchanged; the touched one is described
    by the caller.  `P` transfers facts about old tasks to new tasks. -/
theorem live_step {s s' : State} {l : Label} {evs : List Ev} (hi : LiveInv s evs)
    (hs : step s l = some s') : LiveInv s' (evs ++ evOf s l) := by
  obtain ⟨h1, h2⟩ := hi
  cases l with
  | spawn c tok =>
    simp only [step] at hs
    cases hs
    constructor
    · intro i hm
      simp only [evOf, List.mem_append, List.mem_singleton, reduceCtorEq, or_false] at hm
      obtain ⟨t, ht, he⟩ := h1 i hm
      exact ⟨t, by rw [List.getElem?_append_left (getElem?_lt ht)]; exact ht, he⟩
    · intro i t ht htr
      by_cases hlt : i < s.tasks.length
      · rw [List.getElem?_append_left hlt] at ht
        exact List.mem_append_left _ (h2 i t ht htr)
      · rw [List.getElem?_append_right (by omega)] at ht
        have : i - s.tasks.length = 0 := by
          have := getElem?_lt ht
          simp at this
          omega
        rw [this] at ht
        simp at ht
        subst ht
        simp at htr
  | cancel tok =>
    simp only [step] at hs
    cases hs
    constructor
    · intro i hm
      simp only [evOf, List.mem_append, List.mem_singleton, reduceCtorEq, or_false] at hm
      exact h1 i hm
    · intro i t ht htr
      exact List.mem_append_left _ (h2 i t ht htr)
  | begin k =>
    simp only [step] at hs
    split at hs
    · rename_i tk htk
      have hlt := getElem?_lt htk
      split at hs
      · rename_i hpc
        split at hs
        · rename_i hcan
          cases hs
          have hev : evOf s (.begin k) = [.ended k] := by simp [evOf, htk, hpc, hcan]
          rw [hev]
          constructor
          · intro i hm
            simp only [List.mem_append, List.mem_singleton, Ev.ended.injEq] at hm
            by_cases hik : k = i
            · subst hik
              exact ⟨_, getElem?_setTask_self hlt, by simp [isEnded]⟩
            · rcases hm with hm | hm
              · obtain ⟨t, ht, he⟩ := h1 i hm
                exact ⟨t, by simp [getElem?_setTask, hik, ht], he⟩
              · exact absurd hm.symm hik
          · intro i t ht htr
            rw [getElem?_setTask] at ht
            split at ht
            · rename_i hik
              subst hik
              simp only [hlt, ↓reduceIte, Option.some.injEq] at ht
              subst ht
              exact List.mem_append_left _ (h2 k tk htk htr)
            · exact List.mem_append_left _ (h2 i t ht htr)
        · rename_i hcan
          cases hs
          have hev : evOf s (.begin k) = [] := by simp [evOf, htk, hpc, hcan]
          rw [hev, List.append_nil]
          constructor
          · intro i hm
            obtain ⟨t, ht, he⟩ := h1 i hm
            by_cases hik : k = i
            · subst hik
              rw [htk] at ht
              cases ht
              rw [hpc] at he
              simp [isEnded] at he
            · exact ⟨t, by simp [getElem?_setTask, hik, ht], he⟩
          · intro i t ht htr
            rw [getElem?_setTask] at ht
            split at ht
            · rename_i hik
              subst hik
              simp only [hlt, ↓reduceIte, Option.some.injEq] at ht
              subst ht
              exact h2 k tk htk htr
            · exact h2 i t ht htr
      · cases hs
    · cases hs
  | inner k b =>
    simp only [step] at hs
    split at hs
    · rename_i tk htk
      have hlt := getElem?_lt htk
      split at hs
      · rename_i hpc
        have old_not_ended : ¬ Ev.ended k ∈ evs := by
          intro hm
          obtain ⟨t, ht, he⟩ := h1 k hm
          rw [htk] at ht
          cases ht
          rw [hpc] at he
          simp [isEnded] at he
        cases b <;> simp only at hs <;> cases hs
        · -- pending
          constructor
          · intro i hm
            simp only [evOf, ↓reduceIte, List.mem_append, List.mem_singleton, reduceCtorEq, or_false] at hm
            obtain ⟨t, ht, he⟩ := h1 i hm
            by_cases hik : k = i
            · subst hik; exact absurd hm old_not_ended
            · exact ⟨t, by simp [getElem?_setTask, hik, ht], he⟩
          · intro i t ht htr
            rw [getElem?_setTask] at ht
            split at ht
            · rename_i hik
              subst hik
              simp only [hlt, ↓reduceIte, Option.some.injEq] at ht
              subst ht
              exact List.mem_append_left _ (h2 k tk htk htr)
            · exact List.mem_append_left _ (h2 i t ht htr)
        all_goals
          constructor
          · intro i hm
            simp only [evOf, reduceCtorEq, ↓reduceIte, List.mem_append, List.mem_cons, List.mem_nil_iff,
              or_false, Ev.ended.injEq, false_or] at hm
            by_cases hik : k = i
            · subst hik
              exact ⟨_, getElem?_setTask_self hlt, by simp [isEnded]⟩
            · rcases hm with hm | hm
              · obtain ⟨t, ht, he⟩ := h1 i hm
                exact ⟨t, by simp [getElem?_setTask, hik, ht], he⟩
              · exact absurd hm.symm hik
          · intro i t ht htr
            rw [getElem?_setTask] at ht
            split at ht
            · rename_i hik
              subst hik
              simp only [hlt, ↓reduceIte, Option.some.injEq] at ht
              subst ht
              exact List.mem_append_left _ (h2 k tk htk htr)
            · exact List.mem_append_left _ (h2 i t ht htr)
      · cases hs
    · cases hs
  | abort k =>
    simp only [step] at hs
    split at hs
    · rename_i tk htk
      have hlt := getElem?_lt htk
      split at hs
      · cases hs
        constructor
        · intro i hm
          simp only [evOf, List.mem_append, List.mem_singleton, Ev.ended.injEq] at hm
          by_cases hik : k = i
          · subst hik
            exact ⟨_, getElem?_setTask_self hlt, by simp [isEnded]⟩
          · rcases hm with hm | hm
            · obtain ⟨t, ht, he⟩ := h1 i hm
              exact ⟨t, by simp [getElem?_setTask, hik, ht], he⟩
            · exact absurd hm.symm hik
        · intro i t ht htr
          rw [getElem?_setTask] at ht
          split at ht
          · rename_i hik
            subst hik
            simp only [hlt, ↓reduceIte, Option.some.injEq] at ht
            subst ht
            exact List.mem_append_left _ (h2 k tk htk htr)
          · exact List.mem_append_left _ (h2 i t ht htr)
      · cases hs
    · cases hs
  | dropGuard k =>
    simp only [step] at hs
    split at hs
    · rename_i tk htk
      have hlt := getElem?_lt htk
      split at hs
      · rename_i how hpc
        split at hs
        · cases hs
        · cases hs
          constructor
          · intro i hm
            simp only [evOf, List.mem_append, List.mem_singleton, reduceCtorEq, or_false] at hm
            obtain ⟨t, ht, he⟩ := h1 i hm
            by_cases hik : k = i
            · subst hik
              rw [htk] at ht
              cases ht
              exact ⟨_, getElem?_setTask_self hlt, by simpa using he⟩
            · exact ⟨t, by simp [getElem?_setTask, hik, ht], he⟩
          · intro i t ht htr
            rw [getElem?_setTask] at ht
            split at ht
            · rename_i hik
              subst hik
              simp [evOf]
            · exact List.mem_append_left _ (h2 i t ht htr)
      · cases hs
    · cases hs

theorem live_run {ls : List Label} : ∀ {s s' : State} {pre tr : List Ev}, LiveInv s pre →
    traceOf s ls = some (s', tr) → LiveInv s' (pre ++ tr) := by
  induction ls with
  | nil => intro s s' pre tr hi h; simp [traceOf] at h; rw [h.2, ← h.1]; simpa using hi
  | cons l ls ih =>
    intro s s' pre tr hi h
    simp only [traceOf] at h
    split at h
    · cases h
    · rename_i s1 hs1
      split at h
      · cases h
      · rename_i s2 tr2 htr2
        cases h
        have := ih (live_step hi hs1) htr2
        simpa [List.append_assoc] using this

end Lumina.Proofs.Tasks

/-
  Refinement of the redb store model (`RedbStore`, tables + atomic write transactions) to the
  abstract store: relation `Rr`, evaluation lemmas, per-operation simulation.  Needs the
  precondition `StoredValid` (only validated headers are stored: decoding validates).
-/
import Lumina.Proofs.StoreMem

open Lumina.Model.Store Lumina.Spec.C19
open Lumina.Model
open Lumina.Proofs.Ranges

namespace Lumina.Proofs.Store

local notation "RInv" => Lumina.Model.Ranges.Inv

/-- the raw vector stored under a key of the ranges table -/
def rawRanges (t : Tables) (k : RKey) : Ranges.Ranges := (AMap.get t.ranges k).getD []

/-- refinement relation between the redb store model and the abstract store -/
structure Rr (t : Tables) (a : AbsStore) : Prop where
  invH : RInv (rawRanges t .header)
  invS : RInv (rawRanges t .sampled)
  invP : RInv (rawRanges t .pruned)
  memH : ∀ h, Ranges.mem (rawRanges t .header) h ↔ a.stored h = true
  memS : ∀ h, Ranges.mem (rawRanges t .sampled) h ↔ h ∈ a.sampled
  memP : ∀ h, Ranges.mem (rawRanges t .pruned) h ↔ h ∈ a.pruned
  hdrT : ∀ h, AMap.get t.headers h = a.atHeight h
  hgt : ∀ q, AMap.get t.heights q = (a.byHash q).map (·.height)
  md : ∀ h, AMap.get t.samplingMetadata h = a.metaOf h

/-- precondition of the redb store: every stored header is valid (decoding validates) -/
def StoredValid (a : AbsStore) : Prop := ∀ x ∈ a.hdrs, x.valid = true

theorem redb_getRanges {t : Tables} (k : RKey) (hinv : RInv (rawRanges t k)) :
    RedbStore.getRanges t k = .ok (rawRanges t k) := by
  unfold RedbStore.getRanges
  show (match Ranges.fromVec (rawRanges t k) with | .ok r => _ | .error _ => _) = _
  rw [fromVec_of_inv hinv]

theorem redb_getHeader {t : Tables} {a : AbsStore} (r : Rr t a) (hi : AbsInv a) (hv : StoredValid a) (h : Nat) :
    RedbStore.getHeader t h = match a.atHeight h with
      | some x => .ok x
      | none => .error .notFound := by
  unfold RedbStore.getHeader
  rw [r.hdrT h]
  cases hx : a.atHeight h with
  | none => rfl
  | some x =>
    have := hv x ((atHeight_some hi h x).1 hx).1
    simp [RedbStore.decodeHeader, this]

theorem redb_verifyNeighbours {t : Tables} {a : AbsStore} (r : Rr t a) (hi : AbsInv a) (hv : StoredValid a)
    (v : Hdr → Hdr → Bool) (first last : Hdr) (hlo : 1 ≤ first.height) :
    RedbStore.verifyAgainstNeighbours v t (if a.stored (first.height - 1) then some first else none)
        (if a.stored (last.height + 1) then some last else none) =
      if !AbsStore.prevOK v a first || !AbsStore.nextOK v a last then .error .neighborsVerificationFailed
      else .ok () := by
  unfold RedbStore.verifyAgainstNeighbours AbsStore.prevOK AbsStore.nextOK
  rw [stored_eq_atHeight, stored_eq_atHeight]
  cases hp : a.atHeight (first.height - 1) with
  | none =>
    cases hn : a.atHeight (last.height + 1) with
    | none => simp [pure, Except.pure]
    | some n =>
      have hb := hi.bounds n ((atHeight_some hi _ n).1 hn).1
      have hh := ((atHeight_some hi _ n).1 hn).2
      have hs : succ64 last.height = .ok (last.height + 1) := by
        unfold succ64; rw [if_pos (by omega)]
      simp only [Option.isSome_none, Bool.false_eq_true, if_false, Option.isSome_some, if_true]
      simp only [Bind.bind, Except.bind, pure, Except.pure, hs, RedbStore.neighbour, redb_getHeader r hi hv, hn]
      by_cases hv : v last n = true
      · simp [hv]
      · have hv' : v last n = false := by simpa using hv
        simp [hv', throw, throwThe, MonadExceptOf.throw]
  | some p =>
    have hpred : pred64 first.height = .ok (first.height - 1) := by
      unfold pred64; rw [if_pos hlo]
    cases hn : a.atHeight (last.height + 1) with
    | none =>
      simp only [Option.isSome_none, Bool.false_eq_true, if_false, Option.isSome_some, if_true]
      simp only [Bind.bind, Except.bind, pure, Except.pure, hpred, RedbStore.neighbour, redb_getHeader r hi hv, hp]
      by_cases hv : v p first = true
      · simp [hv]
      · have hv' : v p first = false := by simpa using hv
        simp [hv', throw, throwThe, MonadExceptOf.throw]
    | some n =>
      have hb := hi.bounds n ((atHeight_some hi _ n).1 hn).1
      have hh := ((atHeight_some hi _ n).1 hn).2
      have hs : succ64 last.height = .ok (last.height + 1) := by
        unfold succ64; rw [if_pos (by omega)]
      simp only [Option.isSome_some, if_true]
      simp only [Bind.bind, Except.bind, pure, Except.pure, hpred, hs, RedbStore.neighbour, redb_getHeader r hi hv, hp, hn]
      by_cases hv1 : v p first = true
      · by_cases hv2 : v last n = true
        · simp [hv1, hv2]
        · have hv' : v last n = false := by simpa using hv2
          simp [hv1, hv', throw, throwThe, MonadExceptOf.throw]
      · have hv' : v p first = false := by simpa using hv1
        simp [hv', throw, throwThe, MonadExceptOf.throw]

/-- the insertion loop of the redb transaction: fails with `HashExists` at the first repeated
    hash exactly like the abstract check, otherwise adds the batch to both tables -/
theorem redb_insertLoop_spec (t : Tables) (known : List Hash) (l : List Hdr)
    (hk : ∀ q, AMap.contains t.heights q = known.contains q)
    (h1 : ∀ x ∈ l, AMap.get t.headers x.height = none)
    (h2 : (l.map (·.height)).Nodup) :
    match firstDupHash known l with
    | some q => RedbStore.insertLoop t l = .error (.hashExists q)
    | none => ∃ t', RedbStore.insertLoop t l = .ok t' ∧
        t'.ranges = t.ranges ∧ t'.samplingMetadata = t.samplingMetadata ∧
        (∀ h x, AMap.get t'.headers h = some x ↔ ((x ∈ l ∧ x.height = h) ∨ AMap.get t.headers h = some x)) ∧
        (∀ q k, AMap.get t'.heights q = some k ↔
          ((∃ x ∈ l, x.hash = q ∧ x.height = k) ∨ AMap.get t.heights q = some k)) := by
  induction l generalizing t known with
  | nil => simp [firstDupHash, RedbStore.insertLoop]
  | cons a rest ih =>
    simp only [List.map_cons, List.nodup_cons] at h2
    have ha1 := h1 a (by simp)
    have hka : (AMap.get t.heights a.hash).isSome = known.contains a.hash := by
      rw [← contains_eq]; exact hk a.hash
    simp only [firstDupHash, RedbStore.insertLoop, contains_eq, ha1, Option.isSome_none,
      Bool.false_eq_true, if_false, hka]
    by_cases hd : known.contains a.hash = true
    · simp only [hd, if_true]
    · have hd' : known.contains a.hash = false := by simpa using hd
      simp only [hd', Bool.false_eq_true, if_false]
      have hne1 : ∀ x ∈ rest, x.height ≠ a.height := by
        intro x hx e; apply h2.1; rw [← e]; exact List.mem_map_of_mem hx
      have hfresh : AMap.get t.heights a.hash = none := by
        have := hk a.hash; rw [hd', contains_eq] at this
        cases hg : AMap.get t.heights a.hash with
        | none => rfl
        | some _ => rw [hg] at this; cases this
      have ih' := ih
        { t with headers := AMap.insert t.headers a.height a,
                 heights := AMap.insert t.heights a.hash a.height }
        (a.hash :: known)
        (by intro q
            simp only [contains_eq, get_insert, List.contains_cons]
            have := hk q; rw [contains_eq] at this
            by_cases e : q = a.hash
            · simp [e]
            · simp [e, this])
        (by intro x hx; simp only [get_insert, hne1 x hx, if_false]; exact h1 x (List.mem_cons_of_mem _ hx))
        h2.2
      cases hf : firstDupHash (a.hash :: known) rest with
      | some q => rw [hf] at ih'; exact ih'
      | none =>
        rw [hf] at ih'
        obtain ⟨t', e, r1, r2, r3, r4⟩ := ih'
        refine ⟨t', e, r1, r2, ?_, ?_⟩
        · intro h x
          rw [r3 h x, get_insert]
          constructor
          · rintro (⟨hx, e1⟩ | hh)
            · exact Or.inl ⟨List.mem_cons_of_mem _ hx, e1⟩
            · by_cases hq : h = a.height
              · simp only [hq, if_true] at hh
                left; rw [← Option.some.inj hh]; exact ⟨by simp, hq.symm⟩
              · simp only [hq, if_false] at hh; exact Or.inr hh
          · rintro (⟨hx, e1⟩ | hh)
            · rcases List.mem_cons.1 hx with e3 | e3
              · rw [e3] at e1 ⊢; right; rw [if_pos e1.symm]
              · exact Or.inl ⟨e3, e1⟩
            · right
              by_cases hq : h = a.height
              · subst hq; rw [ha1] at hh; cases hh
              · simp only [hq, if_false]; exact hh
        · intro q k
          rw [r4 q k, get_insert]
          constructor
          · rintro (⟨x, hx, e1, e2⟩ | hh)
            · exact Or.inl ⟨x, List.mem_cons_of_mem _ hx, e1, e2⟩
            · by_cases hq : q = a.hash
              · simp only [hq, if_true] at hh
                left; exact ⟨a, by simp, hq.symm, Option.some.inj hh⟩
              · simp only [hq, if_false] at hh; exact Or.inr hh
          · rintro (⟨x, hx, e1, e2⟩ | hh)
            · rcases List.mem_cons.1 hx with e3 | e3
              · rw [e3] at e1 e2; right; rw [if_pos e1.symm, e2]
              · exact Or.inl ⟨x, e3, e1, e2⟩
            · right
              by_cases hq : q = a.hash
              · subst hq; rw [hfresh] at hh; cases hh
              · simp only [hq, if_false]; exact hh
theorem rawRanges_set (t : Tables) (k k' : RKey) (r : Ranges.Ranges) :
    rawRanges (RedbStore.setRanges t k r) k' = if k' = k then r else rawRanges t k' := by
  unfold rawRanges RedbStore.setRanges
  simp only [get_insert]
  by_cases e : k' = k <;> simp [e]

theorem byHash_map_height_some (a : AbsStore) (q : Hash) (k : Nat) :
    (a.byHash q).map (·.height) = some k ↔ ∃ x, a.byHash q = some x ∧ x.height = k := by
  cases a.byHash q <;> simp

/-- the commit part of the insert transaction on an accepted batch -/
theorem redb_insertCommit {t : Tables} {a : AbsStore} (r : Rr t a) (hi : AbsInv a)
    (v : Hdr → Hdr → Bool) (batch : List Hdr) (first last : Hdr)
    (ok : InsertOK v a batch first last) (hwf : ∀ x ∈ batch, x.height ≤ U64_MAX) :
    ∃ t1 hr sr pr, RedbStore.insertLoop t batch = .ok t1 ∧
      expectR (Ranges.insertRelaxed (rawRanges t .header) (first.height, last.height)) = .ok hr ∧
      expectR (Ranges.removeRelaxed (rawRanges t .sampled) (first.height, last.height)) = .ok sr ∧
      expectR (Ranges.removeRelaxed (rawRanges t .pruned) (first.height, last.height)) = .ok pr ∧
      Rr (RedbStore.setRanges (RedbStore.setRanges (RedbStore.setRanges t1 .header hr) .sampled sr) .pruned pr)
        (added a batch first.height last.height) := by
  obtain ⟨b1, b2, b3⟩ := batch_heights v batch first last ok.chain ok.hd ok.lst
  have hi' : AbsInv (added a batch first.height last.height) := added_inv v a batch first last ok hi hwf
  have hfreshH : ∀ x ∈ batch, AMap.get t.headers x.height = none := by
    intro x hx
    rw [r.hdrT]
    unfold AbsStore.atHeight
    rw [List.find?_eq_none]
    intro y hy
    have := ok.disjoint y hy
    have := b2 x hx
    simp; omega
  have hk : ∀ q, AMap.contains t.heights q = (a.hdrs.map (·.hash)).contains q := by
    intro q
    rw [contains_eq, r.hgt q, ← byHash_isSome]
    cases a.byHash q <;> rfl
  have loop := redb_insertLoop_spec t (a.hdrs.map (·.hash)) batch hk hfreshH b1
  rw [ok.nodup] at loop
  obtain ⟨t1, e1, r1, r2, r3, r4⟩ := loop
  have hlast : last.height ≤ U64_MAX := hwf last (last_of_mem ok.lst)
  have hv : ValidR (first.height, last.height) := ⟨ok.lo_pos, ok.lo_le, hlast⟩
  obtain ⟨hr, eh, ihr, mhr⟩ := insertRelaxed_spec (rs := rawRanges t .header) (r := (first.height, last.height)) r.invH hv
  obtain ⟨sr, es, isr, msr⟩ := removeRelaxed_spec (rs := rawRanges t .sampled) (r := (first.height, last.height)) r.invS hv
  obtain ⟨pr, ep, ipr, mpr⟩ := removeRelaxed_spec (rs := rawRanges t .pruned) (r := (first.height, last.height)) r.invP hv
  refine ⟨t1, hr, sr, pr, e1, by rw [eh]; rfl, by rw [es]; rfl, by rw [ep]; rfl, ?_⟩
  constructor
  · simp only [rawRanges_set]; simp; exact ihr
  · simp only [rawRanges_set]; simp; exact isr
  · simp only [rawRanges_set]; simp; exact ipr
  · intro h
    simp only [rawRanges_set]; simp
    rw [mhr h, r.memH h, added_stored v a batch first last ok h]
  · intro h
    simp only [rawRanges_set]; simp
    rw [msr h, r.memS h]
    simp only [added, List.mem_filter, between]
    constructor
    · rintro ⟨h1, h2⟩; refine ⟨h1, ?_⟩; simp at h2 ⊢; omega
    · rintro ⟨h1, h2⟩; refine ⟨h1, ?_⟩; simp at h2 ⊢; omega
  · intro h
    simp only [rawRanges_set]; simp
    rw [mpr h, r.memP h]
    simp only [added, List.mem_filter, between]
    constructor
    · rintro ⟨h1, h2⟩; refine ⟨h1, ?_⟩; simp at h2 ⊢; omega
    · rintro ⟨h1, h2⟩; refine ⟨h1, ?_⟩; simp at h2 ⊢; omega
  · intro h
    apply Option.ext
    intro x
    show AMap.get t1.headers h = some x ↔ _
    rw [r3 h x, r.hdrT h, atHeight_some hi, atHeight_some hi']
    simp only [added, List.mem_append]
    constructor
    · rintro (⟨h1, h2⟩ | ⟨h1, h2⟩)
      · exact ⟨Or.inr h1, h2⟩
      · exact ⟨Or.inl h1, h2⟩
    · rintro ⟨h1 | h1, h2⟩
      · exact Or.inr ⟨h1, h2⟩
      · exact Or.inl ⟨h1, h2⟩
  · intro q
    apply Option.ext
    intro k
    show AMap.get t1.heights q = some k ↔ _
    rw [r4 q k, r.hgt q, byHash_map_height_some, byHash_map_height_some]
    constructor
    · rintro (⟨x, hx, e1, e2⟩ | ⟨x, hx, e⟩)
      · exact ⟨x, (byHash_some hi' q x).2 ⟨by simp [added, hx], e1⟩, e2⟩
      · have := (byHash_some hi q x).1 hx
        exact ⟨x, (byHash_some hi' q x).2 ⟨by simp [added, this.1], this.2⟩, e⟩
    · rintro ⟨x, hx, e⟩
      have := (byHash_some hi' q x).1 hx
      simp only [added, List.mem_append] at this
      rcases this.1 with hm | hm
      · exact Or.inr ⟨x, (byHash_some hi q x).2 ⟨hm, this.2⟩, e⟩
      · exact Or.inl ⟨x, hm, this.2, e⟩
  · intro h
    show AMap.get t1.samplingMetadata h = _
    rw [r2, r.md h]; rfl
theorem redb_insert_sim {t : Tables} {a : AbsStore} (r : Rr t a) (hi : AbsInv a) (hv : StoredValid a)
    (v : Hdr → Hdr → Bool) (batch : List Hdr) (hwf : ∀ x ∈ batch, x.height ≤ U64_MAX) :
    match AbsStore.insertCheck v a batch with
    | .error e => RedbStore.insert v t batch = (t, .error e)
    | .ok none => RedbStore.insert v t batch = (t, .ok ())
    | .ok (some (lo, hi')) => ∃ t', RedbStore.insert v t batch = (t', .ok ()) ∧ Rr t' (added a batch lo hi') := by
  cases batch with
  | nil => simp [AbsStore.insertCheck, RedbStore.insert, tryIntoVerified, RedbStore.insertTx, RedbStore.writeTx]
  | cons b rest =>
    have hlast : ((b :: rest).getLast?).isSome := by simp
    obtain ⟨last, hl⟩ := Option.isSome_iff_exists.1 hlast
    have hf : (b :: rest).head? = some b := rfl
    unfold RedbStore.insert
    rw [tryIntoVerified_eq]
    unfold AbsStore.insertCheck
    simp only [hf, hl]
    by_cases hc : chainOK v (b :: rest) = true
    · simp only [hc, Bool.not_true, Bool.false_eq_true, if_false, if_true]
      unfold RedbStore.writeTx RedbStore.insertTx
      simp only [hf, hl]
      have hlw : last.height ≤ U64_MAX := hwf last (last_of_mem hl)
      simp only [redb_getRanges .header r.invH, redb_getRanges .sampled r.invS, redb_getRanges .pruned r.invP,
        Bind.bind, Except.bind]
      rw [constraints_eq a (rawRanges t .header) r.invH r.memH b.height last.height hlw]
      cases hp : AbsStore.placement a b.height last.height with
      | error e => simp
      | ok u =>
        simp only
        obtain ⟨p1, p2, p3⟩ := placement_ok a _ _ hp
        rw [redb_verifyNeighbours r hi hv v b last p1]
        by_cases hn : (!AbsStore.prevOK v a b || !AbsStore.nextOK v a last) = true
        · simp only [hn, if_true]
        · simp only [hn, if_false]
          have hk : ∀ q, AMap.contains t.heights q = (a.hdrs.map (·.hash)).contains q := by
            intro q
            rw [contains_eq, r.hgt q, ← byHash_isSome]
            cases a.byHash q <;> rfl
          cases hd : firstDupHash (a.hdrs.map (·.hash)) (b :: rest) with
          | some q =>
            have hfreshH : ∀ x ∈ (b :: rest), AMap.get t.headers x.height = none := by
              obtain ⟨b1, b2, b3⟩ := batch_heights v (b :: rest) b last hc hf hl
              intro x hx
              rw [r.hdrT]
              unfold AbsStore.atHeight
              rw [List.find?_eq_none]
              intro y hy
              have := p3 y hy
              have := b2 x hx
              simp; omega
            have loop := redb_insertLoop_spec t (a.hdrs.map (·.hash)) (b :: rest) hk hfreshH
              (batch_heights v (b :: rest) b last hc hf hl).1
            rw [hd] at loop
            simp only at loop
            simp [loop]
          | none =>
            simp only
            have ok : InsertOK v a (b :: rest) b last := by
              refine ⟨hf, hl, hc, p1, p2, p3, ?_, ?_, hd⟩
              · intro p hp'
                simp only [AbsStore.prevOK, AbsStore.nextOK, hp'] at hn
                simp at hn; exact hn.1
              · intro n hn'
                simp only [AbsStore.prevOK, AbsStore.nextOK, hn'] at hn
                simp at hn; exact hn.2
            obtain ⟨t1, hr, sr, pr, e1, eh, es, ep, rr⟩ := redb_insertCommit r hi v (b :: rest) b last ok hwf
            simp only [e1, eh, es, ep, pure, Except.pure]
            exact ⟨_, rfl, rr⟩
    · simp [hc]
theorem removed_byHash {a : AbsStore} (hi : AbsInv a) (h : Nat) (x : Hdr) (hx : x ∈ a.hdrs) (ex : x.height = h)
    (hi' : AbsInv (removed a h)) (q : Hash) :
    (removed a h).byHash q = if q = x.hash then none else a.byHash q := by
  apply Option.ext
  intro y
  rw [byHash_some hi']
  simp only [removed, List.mem_filter, bne_iff_ne, ne_eq]
  by_cases e : q = x.hash
  · simp only [e, if_true]
    constructor
    · rintro ⟨⟨hy, hne⟩, e2⟩
      exfalso; apply hne
      have : y = x := nodup_map_inj (fun z : Hdr => z.hash) a.hdrs hi.nodupQ y hy x hx e2
      rw [this, ex]
    · intro hn; cases hn
  · simp only [e, if_false]
    rw [byHash_some hi]
    constructor
    · rintro ⟨⟨hy, _⟩, e2⟩; exact ⟨hy, e2⟩
    · rintro ⟨hy, e2⟩
      refine ⟨⟨hy, ?_⟩, e2⟩
      intro e3
      have : y = x := nodup_map_inj (fun z : Hdr => z.height) a.hdrs hi.nodupH y hy x hx (by rw [e3, ex])
      apply e; rw [← e2, this]

theorem redb_contains_eq_stored {t : Tables} {a : AbsStore} (r : Rr t a) (h : Nat) :
    Ranges.contains (rawRanges t .header) h = a.stored h := by
  rw [Bool.eq_iff_iff, contains_iff_mem, r.memH]

theorem redb_remove_sim {t : Tables} {a : AbsStore} (r : Rr t a) (hi : AbsInv a) (hv : StoredValid a) (h : Nat) :
    (a.stored h = false ∧ RedbStore.writeTx (RedbStore.removeHeightTx h) t = (t, .error .notFound)) ∨
    (a.stored h = true ∧ ∃ t', RedbStore.writeTx (RedbStore.removeHeightTx h) t = (t', .ok ()) ∧ Rr t' (removed a h)) := by
  cases hs : a.stored h with
  | false =>
    left; refine ⟨rfl, ?_⟩
    unfold RedbStore.writeTx RedbStore.removeHeightTx
    simp only [redb_getRanges .header r.invH, redb_getRanges .sampled r.invS, redb_getRanges .pruned r.invP,
      Bind.bind, Except.bind, redb_contains_eq_stored r, hs]
    simp [throw, throwThe, MonadExceptOf.throw]
  | true =>
    right; refine ⟨rfl, ?_⟩
    obtain ⟨x, hx, ex⟩ := (stored_iff a h).1 hs
    have hat : a.atHeight h = some x := (atHeight_some hi h x).2 ⟨hx, ex⟩
    have hbh : a.byHash x.hash = some x := (byHash_some hi x.hash x).2 ⟨hx, rfl⟩
    have hb := hi.bounds x hx
    have hvr : ValidR (h, h) := ⟨by omega, Nat.le_refl _, by rw [← ex]; exact hb.2⟩
    obtain ⟨hr, eh, ihr, mhr⟩ := removeRelaxed_spec (rs := rawRanges t .header) (r := (h, h)) r.invH hvr
    obtain ⟨sr, es, isr, msr⟩ := removeRelaxed_spec (rs := rawRanges t .sampled) (r := (h, h)) r.invS hvr
    obtain ⟨pr, ep, ipr, mpr⟩ := insertRelaxed_spec (rs := rawRanges t .pruned) (r := (h, h)) r.invP hvr
    have hi' : AbsInv (removed a h) := by
      have := remove_inv a h hi; rw [remove_ok a h hs] at this; exact this
    have hval : x.valid = true := hv x hx
    have hg : AMap.get t.heights x.hash = some h := by rw [r.hgt, hbh]; simp [ex]
    refine ⟨RedbStore.setRanges (RedbStore.setRanges (RedbStore.setRanges
        { t with headers := AMap.erase t.headers h, heights := AMap.erase t.heights x.hash,
                 samplingMetadata := AMap.erase t.samplingMetadata h } .header hr) .sampled sr) .pruned pr, ?_, ?_⟩
    · unfold RedbStore.writeTx RedbStore.removeHeightTx
      simp only [redb_getRanges .header r.invH, redb_getRanges .sampled r.invS, redb_getRanges .pruned r.invP,
        Bind.bind, Except.bind, redb_contains_eq_stored r, hs, r.hdrT h, hat, RedbStore.decodeHeader, hval,
        contains_eq, hg, eh, es, ep, expectR]
      simp [pure, Except.pure, hg]
    · constructor
      · simp only [rawRanges_set]; simp; exact ihr
      · simp only [rawRanges_set]; simp; exact isr
      · simp only [rawRanges_set]; simp; exact ipr
      · intro k
        simp only [rawRanges_set]; simp
        rw [mhr k, r.memH k, removed_stored]
        constructor
        · rintro ⟨h1, h2⟩; exact ⟨h1, by omega⟩
        · rintro ⟨h1, h2⟩; exact ⟨h1, by omega⟩
      · intro k
        simp only [rawRanges_set]; simp
        rw [msr k, r.memS k]
        simp only [removed, List.mem_filter, bne_iff_ne, ne_eq]
        constructor
        · rintro ⟨h1, h2⟩; exact ⟨h1, by omega⟩
        · rintro ⟨h1, h2⟩; exact ⟨h1, by omega⟩
      · intro k
        simp only [rawRanges_set]; simp
        rw [mpr k, r.memP k]
        simp only [removed, List.mem_cons]
        constructor
        · rintro (h1 | h1); exact Or.inr h1; exact Or.inl (by omega)
        · rintro (h1 | h1); exact Or.inr (by omega); exact Or.inl h1
      · intro k
        show AMap.get (AMap.erase t.headers h) k = _
        rw [get_erase, removed_atHeight, r.hdrT k]
      · intro q
        show AMap.get (AMap.erase t.heights x.hash) q = _
        rw [get_erase, removed_byHash hi h x hx ex hi', r.hgt q]
        by_cases e : q = x.hash <;> simp [e]
      · intro k
        show AMap.get (AMap.erase t.samplingMetadata h) k = _
        rw [get_erase, removed_metaOf, r.md k]

theorem redb_mark_sim {t : Tables} {a : AbsStore} (r : Rr t a) (hi : AbsInv a) (h : Nat) :
    (a.stored h = false ∧ RedbStore.writeTx (RedbStore.markAsSampledTx h) t = (t, .error .notFound)) ∨
    (a.stored h = true ∧ ∃ t', RedbStore.writeTx (RedbStore.markAsSampledTx h) t = (t', .ok ()) ∧
        Rr t' { a with sampled := h :: a.sampled }) := by
  cases hs : a.stored h with
  | false =>
    left; refine ⟨rfl, ?_⟩
    unfold RedbStore.writeTx RedbStore.markAsSampledTx
    simp only [redb_getRanges .header r.invH, redb_getRanges .sampled r.invS,
      Bind.bind, Except.bind, redb_contains_eq_stored r, hs]
    simp [throw, throwThe, MonadExceptOf.throw]
  | true =>
    right; refine ⟨rfl, ?_⟩
    obtain ⟨x, hx, ex⟩ := (stored_iff a h).1 hs
    have hb := hi.bounds x hx
    have hvr : ValidR (h, h) := ⟨by omega, Nat.le_refl _, by rw [← ex]; exact hb.2⟩
    obtain ⟨sr, es, isr, msr⟩ := insertRelaxed_spec (rs := rawRanges t .sampled) (r := (h, h)) r.invS hvr
    refine ⟨RedbStore.setRanges t .sampled sr, ?_, ?_⟩
    · unfold RedbStore.writeTx RedbStore.markAsSampledTx
      simp only [redb_getRanges .header r.invH, redb_getRanges .sampled r.invS,
        Bind.bind, Except.bind, redb_contains_eq_stored r, hs, es, expectR]
      simp [pure, Except.pure]
    · constructor
      · simp only [rawRanges_set]; simp; exact r.invH
      · simp only [rawRanges_set]; simp; exact isr
      · simp only [rawRanges_set]; simp; exact r.invP
      · intro k; simp only [rawRanges_set]; simp; exact r.memH k
      · intro k
        simp only [rawRanges_set]; simp
        rw [msr k, r.memS k]
        constructor
        · rintro (h1 | h1); exact Or.inr h1; exact Or.inl (by omega)
        · rintro (h1 | h1); exact Or.inr (by omega); exact Or.inl h1
      · intro k; simp only [rawRanges_set]; simp; exact r.memP k
      · exact r.hdrT
      · exact r.hgt
      · exact r.md

theorem redb_updMeta_sim {t : Tables} {a : AbsStore} (r : Rr t a) (h : Nat) (cids : List Cid) :
    (a.stored h = false ∧ RedbStore.writeTx (RedbStore.updateSamplingMetadataTx h cids) t = (t, .error .notFound) ∧
        a.updateMeta h cids = (a, .err .notFound)) ∨
    (a.stored h = true ∧ ∃ t' a', RedbStore.writeTx (RedbStore.updateSamplingMetadataTx h cids) t = (t', .ok ()) ∧
        a.updateMeta h cids = (a', .ok .unit) ∧ Rr t' a' ∧ a'.hdrs = a.hdrs) := by
  cases hs : a.stored h with
  | false =>
    left; refine ⟨rfl, ?_, ?_⟩
    · unfold RedbStore.writeTx RedbStore.updateSamplingMetadataTx
      simp only [redb_getRanges .header r.invH, Bind.bind, Except.bind, redb_contains_eq_stored r, hs]
      simp [throw, throwThe, MonadExceptOf.throw]
    · simp [AbsStore.updateMeta, hs]
  | true =>
    right; refine ⟨rfl, ?_⟩
    have key : ∀ entry : List Cid,
        (RedbStore.writeTx (RedbStore.updateSamplingMetadataTx h cids) t =
          ({ t with samplingMetadata := AMap.insert t.samplingMetadata h entry }, .ok ())) →
        (a.updateMeta h cids = ({ a with metas := (h, entry) :: a.metas.filter (fun p => p.1 != h) }, .ok .unit)) →
        ∃ t' a', RedbStore.writeTx (RedbStore.updateSamplingMetadataTx h cids) t = (t', .ok ()) ∧
          a.updateMeta h cids = (a', .ok .unit) ∧ Rr t' a' ∧ a'.hdrs = a.hdrs := by
      intro entry e1 e2
      refine ⟨_, _, e1, e2, ?_, rfl⟩
      refine ⟨r.invH, r.invS, r.invP, r.memH, r.memS, r.memP, r.hdrT, r.hgt, ?_⟩
      intro k
      show AMap.get (AMap.insert t.samplingMetadata h entry) k = _
      rw [get_insert, updated_metaOf, r.md k]
    cases hm : a.metaOf h with
    | none =>
      apply key cids
      · unfold RedbStore.writeTx RedbStore.updateSamplingMetadataTx
        simp only [redb_getRanges .header r.invH, Bind.bind, Except.bind, redb_contains_eq_stored r, hs, r.md h, hm]
        simp [pure, Except.pure]
      · simp [AbsStore.updateMeta, hs, hm]
    | some prev =>
      apply key (appendDedup prev cids)
      · unfold RedbStore.writeTx RedbStore.updateSamplingMetadataTx
        simp only [redb_getRanges .header r.invH, Bind.bind, Except.bind, redb_contains_eq_stored r, hs, r.md h, hm]
        simp [pure, Except.pure]
      · simp [AbsStore.updateMeta, hs, hm]
theorem redb_headHeight {t : Tables} {a : AbsStore} (r : Rr t a) :
    RedbStore.headHeight t = match a.headHeight with | some h => .ok h | none => .error .notFound := by
  unfold RedbStore.headHeight
  simp only [redb_getRanges .header r.invH, Bind.bind, Except.bind]
  rw [head_eq_headHeight (rawRanges t .header) r.invH a r.memH]
  cases a.headHeight <;> rfl

theorem redb_storedRanges {t : Tables} {a : AbsStore} (r : Rr t a) (hi : AbsInv a) :
    rawRanges t .header = a.storedRanges := by
  unfold AbsStore.storedRanges
  apply ranges_eq_rangesOf _ r.invH a.stored _ r.memH
  · intro h hs
    obtain ⟨x, hx, e⟩ := (stored_iff a h).1 hs
    rw [← e]; exact List.mem_map_of_mem hx
  · intro h hh
    obtain ⟨x, hx, e⟩ := List.mem_map.1 hh
    rw [← e]; exact (hi.bounds x hx).2

theorem redb_sampledRanges {t : Tables} {a : AbsStore} (r : Rr t a) (hi : AbsInv a) :
    rawRanges t .sampled = a.sampledRanges := by
  unfold AbsStore.sampledRanges
  apply ranges_eq_rangesOf _ r.invS a.isSampled a.sampled
  · intro h; rw [r.memS]; simp [AbsStore.isSampled]
  · intro h hs; simpa [AbsStore.isSampled] using hs
  · intro h hh
    obtain ⟨x, hx, e⟩ := (stored_iff a h).1 (hi.sampled h hh)
    rw [← e]; exact (hi.bounds x hx).2

theorem redb_prunedRanges {t : Tables} {a : AbsStore} (r : Rr t a) (hi : AbsInv a) :
    rawRanges t .pruned = a.prunedRanges := by
  unfold AbsStore.prunedRanges
  apply ranges_eq_rangesOf _ r.invP a.isPruned a.pruned
  · intro h; rw [r.memP]; simp [AbsStore.isPruned]
  · intro h hs; simpa [AbsStore.isPruned] using hs
  · intro h hh; exact (hi.prunedB h hh).2

theorem redb_containsHeight {t : Tables} {a : AbsStore} (r : Rr t a) (h : Nat) :
    RedbStore.containsHeight t h = a.stored h := by
  unfold RedbStore.containsHeight
  rw [contains_eq, r.hdrT h]; rfl

/-- per-operation simulation of the redb store by the abstract store, under the precondition
    that only valid headers are stored -/
theorem redb_step_sim {t : Tables} {a : AbsStore} (r : Rr t a) (hi : AbsInv a) (hv : StoredValid a)
    (v : Hdr → Hdr → Bool) (op : Op) (hwf : op.wf = true) :
    (RedbStore.step v t op).2 = (AbsStore.step v a op).2 ∧
    Rr (RedbStore.step v t op).1 (AbsStore.step v a op).1 := by
  cases op with
  | insert batch =>
    have hw : ∀ x ∈ batch, x.height ≤ U64_MAX := by
      simpa [Op.wf] using hwf
    have sim := redb_insert_sim r hi hv v batch hw
    simp only [RedbStore.step, AbsStore.step, AbsStore.insert]
    cases hc : AbsStore.insertCheck v a batch with
    | error e =>
      rw [hc] at sim; simp only at sim
      simp [sim, toRes, r]
    | ok o =>
      cases o with
      | none =>
        rw [hc] at sim; simp only at sim
        simp [sim, toRes, r]
      | some p =>
        obtain ⟨lo, hi'⟩ := p
        rw [hc] at sim; simp only at sim
        obtain ⟨t', e, r'⟩ := sim
        simp only [e, toRes]
        exact ⟨trivial, r'⟩
  | remove h =>
    simp only [RedbStore.step, AbsStore.step]
    rcases redb_remove_sim r hi hv h with ⟨hs, e⟩ | ⟨hs, t', e, r'⟩
    · simp [e, remove_err a h hs, toRes, r]
    · simp [e, remove_ok a h hs, toRes]; exact r'
  | mark h =>
    simp only [RedbStore.step, AbsStore.step]
    rcases redb_mark_sim r hi h with ⟨hs, e⟩ | ⟨hs, t', e, r'⟩
    · simp [e, AbsStore.mark, hs, toRes, r]
    · simp [e, AbsStore.mark, hs, toRes]; exact r'
  | updMeta h cids =>
    simp only [RedbStore.step, AbsStore.step]
    rcases redb_updMeta_sim r h cids with ⟨hs, e, e2⟩ | ⟨hs, t', a', e, e2, r', _⟩
    · simp [e, e2, toRes, r]
    · simp [e, e2, toRes]; exact r'
  | getByHeight h =>
    simp only [RedbStore.step, AbsStore.step, RedbStore.readTx, RedbStore.getByHeight]
    refine ⟨?_, r⟩
    rw [redb_getHeader r hi hv]
    cases a.atHeight h <;> rfl
  | hasAt h =>
    simp only [RedbStore.step, AbsStore.step]
    refine ⟨?_, r⟩
    rw [redb_containsHeight r]
  | getByHash q =>
    simp only [RedbStore.step, AbsStore.step, RedbStore.readTx, RedbStore.getByHash, RedbStore.getHeight]
    refine ⟨?_, r⟩
    rw [r.hgt q]
    cases hb : a.byHash q with
    | none => rfl
    | some x =>
      have hx := (byHash_some hi q x).1 hb
      have hat : a.atHeight x.height = some x := (atHeight_some hi _ x).2 ⟨hx.1, rfl⟩
      simp only [Option.map_some, Bind.bind, Except.bind]
      rw [redb_getHeader r hi hv, hat]
      rfl
  | has q =>
    simp only [RedbStore.step, AbsStore.step, RedbStore.containsHash, RedbStore.getHeight]
    refine ⟨?_, r⟩
    rw [r.hgt q]
    cases hb : a.byHash q with
    | none => rfl
    | some x =>
      have hx := (byHash_some hi q x).1 hb
      have hat : a.atHeight x.height = some x := (atHeight_some hi _ x).2 ⟨hx.1, rfl⟩
      simp only [Option.map_some, contains_eq, r.hdrT, hat]
  | getMeta h =>
    simp only [RedbStore.step, AbsStore.step, RedbStore.readTx, RedbStore.getSamplingMetadata]
    refine ⟨?_, r⟩
    have := redb_containsHeight r h
    unfold RedbStore.containsHeight at this
    simp only [this, r.md h]
    cases a.stored h <;> rfl
  | head =>
    simp only [RedbStore.step, AbsStore.step, RedbStore.readTx, RedbStore.getHead]
    refine ⟨?_, r⟩
    simp only [redb_getRanges .header r.invH, Bind.bind, Except.bind]
    rw [head_eq_headHeight (rawRanges t .header) r.invH a r.memH]
    cases a.headHeight with
    | none => rfl
    | some h =>
      simp only
      rw [redb_getHeader r hi hv]
      cases a.atHeight h <;> rfl
  | headHeight =>
    simp only [RedbStore.step, AbsStore.step, RedbStore.readTx]
    refine ⟨?_, r⟩
    rw [redb_headHeight r]
    cases a.headHeight <;> rfl
  | getRange lo hi' =>
    simp only [RedbStore.step, AbsStore.step]
    refine ⟨?_, r⟩
    exact getRange_eq a _ _ (redb_headHeight r) (redb_getHeader r hi hv) lo hi'
  | storedRanges =>
    simp only [RedbStore.step, AbsStore.step, RedbStore.readTx]
    refine ⟨?_, r⟩
    rw [redb_getRanges .header r.invH, redb_storedRanges r hi]; rfl
  | sampledRanges =>
    simp only [RedbStore.step, AbsStore.step, RedbStore.readTx]
    refine ⟨?_, r⟩
    rw [redb_getRanges .sampled r.invS, redb_sampledRanges r hi]; rfl
  | prunedRanges =>
    simp only [RedbStore.step, AbsStore.step, RedbStore.readTx]
    refine ⟨?_, r⟩
    rw [redb_getRanges .pruned r.invP, redb_prunedRanges r hi]; rfl

/-- C20 for the redb store: whatever the state, a failed call leaves the tables unchanged
    (the write transaction is aborted: hypothesis encoded in `writeTx`) -/
theorem redb_err_unchanged (v : Hdr → Hdr → Bool) (t : Tables) (op : Op)
    (h : (RedbStore.step v t op).2.isErr = true) : (RedbStore.step v t op).1 = t := by
  have wtx : ∀ {α : Type} (f : Tables → Except Err (Tables × α)) (g : α → Out),
      (toRes (RedbStore.writeTx f t).2 g).isErr = true → (RedbStore.writeTx f t).1 = t := by
    intro α f g
    unfold RedbStore.writeTx
    cases f t with
    | error e => intro _; rfl
    | ok p => intro hh; simp [toRes, Res.isErr] at hh
  cases op with
  | insert batch =>
    simp only [RedbStore.step] at h ⊢
    unfold RedbStore.insert at h ⊢
    cases hx : tryIntoVerified v batch with
    | error e => rfl
    | ok hs => rw [hx] at h; exact wtx _ _ h
  | remove k => exact wtx _ _ h
  | mark k => exact wtx _ _ h
  | updMeta k c => exact wtx _ _ h
  | _ => rfl

/-! ### `write_tx` as written realises the all-or-nothing summary -/

theorem writeTxL_eq_writeTx {α : Type} (dirty : Tables → Tables) (f : Tables → Except Err (Tables × α)) (t : Tables) :
    RedbStore.writeTxL dirty f t = RedbStore.writeTx f t := by
  unfold RedbStore.writeTxL RedbStore.writeTx RedbStore.WriteTxn.run RedbStore.beginWrite
  cases hf : f t with
  | error e => simp [RedbStore.WriteTxn.abort]
  | ok p => obtain ⟨w, a⟩ := p; simp [RedbStore.WriteTxn.commit]

theorem stepL_eq_step (dirty : Tables → Tables) (v : Hdr → Hdr → Bool) (t : Tables) (op : Op) :
    RedbStore.stepL dirty v t op = RedbStore.step v t op := by
  cases op <;> simp only [RedbStore.stepL, RedbStore.step, RedbStore.insertL, RedbStore.insert, writeTxL_eq_writeTx]

/-- C20 for `write_tx` as written: a failed call leaves the committed tables unchanged, whatever
    the failing closure had already written to the transaction (`dirty`).  Follows from the
    branch `if res.is_ok() { commit } else { abort }` and the redb contract (`WriteTxn.abort`). -/
theorem redb_errL_unchanged (dirty : Tables → Tables) (v : Hdr → Hdr → Bool) (t : Tables) (op : Op)
    (h : (RedbStore.stepL dirty v t op).2.isErr = true) : (RedbStore.stepL dirty v t op).1 = t := by
  have wtx : ∀ {α : Type} (f : Tables → Except Err (Tables × α)) (g : α → Out),
      (toRes (RedbStore.writeTxL dirty f t).2 g).isErr = true → (RedbStore.writeTxL dirty f t).1 = t := by
    intro α f g
    unfold RedbStore.writeTxL RedbStore.WriteTxn.run RedbStore.beginWrite
    cases f t with
    | error e => intro _; rfl
    | ok p => intro hh; simp [toRes, Res.isErr] at hh
  cases op with
  | insert batch =>
    simp only [RedbStore.stepL] at h ⊢
    unfold RedbStore.insertL at h ⊢
    cases hx : tryIntoVerified v batch with
    | error e => rfl
    | ok hs => rw [hx] at h; exact wtx _ _ h
  | remove k => exact wtx _ _ h
  | mark k => exact wtx _ _ h
  | updMeta k c => exact wtx _ _ h
  | _ => rfl

end Lumina.Proofs.Store

/-
  From single operations to histories: the simulations of `StoreMem.lean` / `StoreRedb.lean`
  lifted over arbitrary operation lists by induction, and the invariants of the abstract store
  along every run.
-/
import Lumina.Proofs.StoreRedb

open Lumina.Model.Store Lumina.Spec.C19
open Lumina.Model
open Lumina.Proofs.Ranges

namespace Lumina.Proofs.Store

local notation "RInv" => Lumina.Model.Ranges.Inv

/-- every operation of the history is well typed (heights are `u64`) -/
def AllWf (ops : List Op) : Prop := ∀ op ∈ ops, op.wf = true

theorem rm_init : Rm MemStore.new Lumina.Spec.C19.init := by
  constructor <;> simp [MemStore.new, Lumina.Spec.C19.init, inv_nil, Ranges.mem, AbsStore.stored,
    AbsStore.atHeight, AbsStore.byHash, AbsStore.metaOf, AMap.get]

theorem rr_init : Rr RedbStore.new Lumina.Spec.C19.init := by
  constructor <;> simp [RedbStore.new, rawRanges, Lumina.Spec.C19.init, inv_nil, Ranges.mem, AbsStore.stored,
    AbsStore.atHeight, AbsStore.byHash, AbsStore.metaOf, AMap.get]

theorem storedValid_init : StoredValid Lumina.Spec.C19.init := by
  intro x hx; simp [Lumina.Spec.C19.init] at hx

theorem absVer_init (v : Hdr → Hdr → Bool) : AbsVer v Lumina.Spec.C19.init := by
  intro x hx; simp [Lumina.Spec.C19.init] at hx

theorem abs_step_inv (v : Hdr → Hdr → Bool) (a : AbsStore) (op : Op) (hi : AbsInv a) (hwf : op.wf = true) :
    AbsInv (AbsStore.step v a op).1 := by
  cases op with
  | insert batch =>
    exact insert_inv v a batch hi (by simpa [Op.wf] using hwf)
  | remove h => exact remove_inv a h hi
  | mark h => exact mark_inv a h hi
  | updMeta h c => exact updateMeta_inv a h c hi
  | _ => exact hi

theorem abs_step_ver (v : Hdr → Hdr → Bool) (a : AbsStore) (op : Op) (hi : AbsInv a) (hv : AbsVer v a) :
    AbsVer v (AbsStore.step v a op).1 := by
  cases op with
  | insert batch => exact insert_ver v a batch hi hv
  | remove h => exact remove_ver v a h hv
  | mark h =>
    intro x hx y hy e
    simp only [AbsStore.step, mark_hdrs] at hx hy
    exact hv x hx y hy e
  | updMeta h c =>
    intro x hx y hy e
    simp only [AbsStore.step, updateMeta_hdrs] at hx hy
    exact hv x hx y hy e
  | _ => exact hv

theorem runOps_cons {σ : Type} (step : σ → Op → σ × Res) (s : σ) (op : Op) (rest : List Op) :
    runOps step s (op :: rest) =
      ((runOps step (step s op).1 rest).1, (step s op).2 :: (runOps step (step s op).1 rest).2) := rfl

/-- the abstract invariants hold along every run -/
theorem abs_run_inv (v : Hdr → Hdr → Bool) (ops : List Op) (hw : AllWf ops) (a : AbsStore)
    (hi : AbsInv a) (hv : AbsVer v a) :
    AbsInv (runOps (AbsStore.step v) a ops).1 ∧ AbsVer v (runOps (AbsStore.step v) a ops).1 := by
  induction ops generalizing a with
  | nil => exact ⟨hi, hv⟩
  | cons op rest ih =>
    rw [runOps_cons]
    exact ih (fun o ho => hw o (List.mem_cons_of_mem _ ho)) _
      (abs_step_inv v a op hi (hw op (by simp))) (abs_step_ver v a op hi hv)

/-- forward simulation of the in-memory store over a whole history -/
theorem mem_run_sim (v : Hdr → Hdr → Bool) (ops : List Op) (hw : AllWf ops) (m : MemStore) (a : AbsStore)
    (r : Rm m a) (hi : AbsInv a) :
    (runOps (MemStore.step v) m ops).2 = (runOps (AbsStore.step v) a ops).2 ∧
    Rm (runOps (MemStore.step v) m ops).1 (runOps (AbsStore.step v) a ops).1 ∧
    AbsInv (runOps (AbsStore.step v) a ops).1 := by
  induction ops generalizing m a with
  | nil => exact ⟨rfl, r, hi⟩
  | cons op rest ih =>
    rw [runOps_cons, runOps_cons]
    have hop := hw op (by simp)
    obtain ⟨e, r', _⟩ := mem_step_sim r hi v op hop
    obtain ⟨e2, r2, i2⟩ := ih (fun o ho => hw o (List.mem_cons_of_mem _ ho)) _ _ r' (abs_step_inv v a op hi hop)
    exact ⟨by simp only [e, e2], r2, i2⟩

/-- precondition of the redb store along a run: no unvalidated header is ever stored -/
def ValidRun (v : Hdr → Hdr → Bool) : AbsStore → List Op → Prop
  | a, [] => StoredValid a
  | a, op :: rest => StoredValid a ∧ ValidRun v (AbsStore.step v a op).1 rest

theorem ValidRun.head {v : Hdr → Hdr → Bool} {a : AbsStore} {ops : List Op} (h : ValidRun v a ops) :
    StoredValid a := by
  cases ops with
  | nil => exact h
  | cons _ _ => exact h.1

/-- forward simulation of the redb store over a whole history -/
theorem redb_run_sim (v : Hdr → Hdr → Bool) (ops : List Op) (hw : AllWf ops) (t : Tables) (a : AbsStore)
    (r : Rr t a) (hi : AbsInv a) (hvr : ValidRun v a ops) :
    (runOps (RedbStore.step v) t ops).2 = (runOps (AbsStore.step v) a ops).2 ∧
    Rr (runOps (RedbStore.step v) t ops).1 (runOps (AbsStore.step v) a ops).1 := by
  induction ops generalizing t a with
  | nil => exact ⟨rfl, r⟩
  | cons op rest ih =>
    rw [runOps_cons, runOps_cons]
    have hop := hw op (by simp)
    obtain ⟨e, r'⟩ := redb_step_sim r hi hvr.1 v op hop
    obtain ⟨e2, r2⟩ := ih (fun o ho => hw o (List.mem_cons_of_mem _ ho)) _ _ r' (abs_step_inv v a op hi hop) hvr.2
    exact ⟨by simp only [e, e2], r2⟩

/-- all headers handed to `insert` are validated -/
def AllValidated (ops : List Op) : Prop := ∀ op ∈ ops, ∀ batch, op = .insert batch → ∀ x ∈ batch, x.valid = true

theorem abs_step_storedValid (v : Hdr → Hdr → Bool) (a : AbsStore) (op : Op) (hs : StoredValid a)
    (hb : ∀ batch, op = .insert batch → ∀ x ∈ batch, x.valid = true) :
    StoredValid (AbsStore.step v a op).1 := by
  cases op with
  | insert batch =>
    simp only [AbsStore.step, AbsStore.insert]
    cases AbsStore.insertCheck v a batch with
    | error e => exact hs
    | ok o =>
      cases o with
      | none => exact hs
      | some p =>
        obtain ⟨lo, hi⟩ := p
        intro x hx
        simp only [List.mem_append] at hx
        rcases hx with hx | hx
        · exact hs x hx
        · exact hb batch rfl x hx
  | remove h =>
    simp only [AbsStore.step, AbsStore.remove]
    split
    · exact hs
    · intro x hx; simp only [List.mem_filter] at hx; exact hs x hx.1
  | mark h => intro x hx; simp only [AbsStore.step, mark_hdrs] at hx; exact hs x hx
  | updMeta h c => intro x hx; simp only [AbsStore.step, updateMeta_hdrs] at hx; exact hs x hx
  | _ => exact hs

theorem validRun_of_validated (v : Hdr → Hdr → Bool) (ops : List Op) (hv : AllValidated ops) (a : AbsStore)
    (hs : StoredValid a) : ValidRun v a ops := by
  induction ops generalizing a with
  | nil => exact hs
  | cons op rest ih =>
    refine ⟨hs, ih (fun o ho => hv o (List.mem_cons_of_mem _ ho)) _ ?_⟩
    exact abs_step_storedValid v a op hs (hv op (by simp))

/-- `AbsInv` implies the decidable `invOK` of the specification -/
theorem nodupB_of_nodup {α : Type} [DecidableEq α] (l : List α) (h : l.Nodup) : nodupB l = true := by
  induction l with
  | nil => rfl
  | cons a rest ih =>
    simp only [List.nodup_cons] at h
    simp [nodupB, h.1, ih h.2]

theorem invOK_of_absInv (a : AbsStore) (hi : AbsInv a) : invOK a = true := by
  unfold invOK
  simp only [Bool.and_eq_true, List.all_eq_true, decide_eq_true_eq, Bool.not_eq_true']
  refine ⟨⟨⟨⟨⟨nodupB_of_nodup _ hi.nodupH, nodupB_of_nodup _ hi.nodupQ⟩, fun x hx => (hi.bounds x hx).1⟩,
    hi.sampled⟩, hi.pruned⟩, hi.metas⟩

end Lumina.Proofs.Store

/-
  From single operations to histories: the simulations of `StoreMem.lean` / `StoreRedb.lean`
  lifted over arbitrary operation lists by induction, and the invariants of the abstract store
  along every run.
-/
import Lumina.Proofs.StoreRedb

open Lumina.Model.Store Lumina.Spec.C19
open Lumina.Model
open Lumina.Proofs.Ranges

namespace Lumina.Proofs.Store

local notation "RInv" => Lumina.Model.Ranges.Inv

/-- every operation of the history is well typed (heights are `u64`) -/
def AllWf (ops : List Op) : Prop := ∀ op ∈ ops, op.wf = true

theorem rm_init : Rm MemStore.new Lumina.Spec.C19.init := by
  constructor <;> simp [MemStore.new, Lumina.Spec.C19.init, inv_nil, Ranges.mem, AbsStore.stored,
    AbsStore.atHeight, AbsStore.byHash, AbsStore.metaOf, AMap.get]

theorem rr_init : Rr RedbStore.new Lumina.Spec.C19.init := by
  constructor <;> simp [RedbStore.new, rawRanges, Lumina.Spec.C19.init, inv_nil, Ranges.mem, AbsStore.stored,
    AbsStore.atHeight, AbsStore.byHash, AbsStore.metaOf, AMap.get]

theorem storedValid_init : StoredValid Lumina.Spec.C19.init := by
  intro x hx; simp [Lumina.Spec.C19.init] at hx

theorem absVer_init (v : Hdr → Hdr → Bool) : AbsVer v Lumina.Spec.C19.init := by
  intro x hx; simp [Lumina.Spec.C19.init] at hx

theorem abs_step_inv (v : Hdr → Hdr → Bool) (a : AbsStore) (op : Op) (hi : AbsInv a) (hwf : op.wf = true) :
    AbsInv (AbsStore.step v a op).1 := by
  cases op with
  | insert batch =>
    exact insert_inv v a batch hi (by simpa [Op.wf] using hwf)
  | remove h => exact remove_inv a h hi
  | mark h => exact mark_inv a h hi
  | updMeta h c => exact updateMeta_inv a h c hi
  | _ => exact hi

theorem abs_step_ver (v : Hdr → Hdr → Bool) (a : AbsStore) (op : Op) (hi : AbsInv a) (hv : AbsVer v a) :
    AbsVer v (AbsStore.step v a op).1 := by
  cases op with
  | insert batch => exact insert_ver v a batch hi hv
  | remove h => exact remove_ver v a h hv
  | mark h =>
    intro x hx y hy e
    simp only [AbsStore.step, mark_hdrs] at hx hy
    exact hv x hx y hy e
  | updMeta h c =>
    intro x hx y hy e
    simp only [AbsStore.step, updateMeta_hdrs] at hx hy
    exact hv x hx y hy e
  | _ => exact hv

theorem runOps_cons {σ : Type} (step : σ → Op → σ × Res) (s : σ) (op : Op) (rest : List Op) :
    runOps step s (op :: rest) =
      ((runOps step (step s op).1 rest).1, (step s op).2 :: (runOps step (step s op).1 rest).2) := rfl

/-- the abstract invariants hold along every run -/
theorem abs_run_inv (v : Hdr → Hdr → Bool) (ops : List Op) (hw : AllWf ops) (a : AbsStore)
    (hi : AbsInv a) (hv : AbsVer v a) :
    AbsInv (runOps (AbsStore.step v) a ops).1 ∧ AbsVer v (runOps (AbsStore.step v) a ops).1 := by
  induction ops generalizing a with
  | nil => exact ⟨hi, hv⟩
  | cons op rest ih =>
    rw [runOps_cons]
    exact ih (fun o ho => hw o (List.mem_cons_of_mem _ ho)) _
      (abs_step_inv v a op hi (hw op (by simp))) (abs_step_ver v a op hi hv)

/-- forward simulation of the in-memory store over a whole history -/
theorem mem_run_sim (v : Hdr → Hdr → Bool) (ops : List Op) (hw : AllWf ops) (m : MemStore) (a : AbsStore)
    (r : Rm m a) (hi : AbsInv a) :
    (runOps (MemStore.step v) m ops).2 = (runOps (AbsStore.step v) a ops).2 ∧
    Rm (runOps (MemStore.step v) m ops).1 (runOps (AbsStore.step v) a ops).1 ∧
    AbsInv (runOps (AbsStore.step v) a ops).1 := by
  induction ops generalizing m a with
  | nil => exact ⟨rfl, r, hi⟩
  | cons op rest ih =>
    rw [runOps_cons, runOps_cons]
    have hop := hw op (by simp)
    obtain ⟨e, r', _⟩ := mem_step_sim r hi v op hop
    obtain ⟨e2, r2, i2⟩ := ih (fun o ho => hw o (List.mem_cons_of_mem _ ho)) _ _ r' (abs_step_inv v a op hi hop)
    exact ⟨by simp only [e, e2], r2, i2⟩

/-- precondition of the redb store along a run: no unvalidated header is ever stored -/
def ValidRun (v : Hdr → Hdr → Bool) : AbsStore → List Op → Prop
  | a, [] => StoredValid a
  | a, op :: rest => StoredValid a ∧ ValidRun v (AbsStore.step v a op).1 rest

theorem ValidRun.head {v : Hdr → Hdr → Bool} {a : AbsStore} {ops : List Op} (h : ValidRun v a ops) :
    StoredValid a := by
  cases ops with
  | nil => exact h
  | cons _ _ => exact h.1

/-- forward simulation of the redb store over a whole history -/
theorem redb_run_sim (v : Hdr → Hdr → Bool) (ops : List Op) (hw : AllWf ops) (t : Tables) (a : AbsStore)
    (r : Rr t a) (hi : AbsInv a) (hvr : ValidRun v a ops) :
    (runOps (RedbStore.step v) t ops).2 = (runOps (AbsStore.step v) a ops).2 ∧
    Rr (runOps (RedbStore.step v) t ops).1 (runOps (AbsStore.step v) a ops).1 := by
  induction ops generalizing t a with
  | nil => exact ⟨rfl, r⟩
  | cons op rest ih =>
    rw [runOps_cons, runOps_cons]
    have hop := hw op (by simp)
    obtain ⟨e, r'⟩ := redb_step_sim r hi hvr.1 v op hop
    obtain ⟨e2, r2⟩ := ih (fun o ho => hw o (List.mem_cons_of_mem _ ho)) _ _ r' (abs_step_inv v a op hi hop) hvr.2
    exact ⟨by simp only [e, e2], r2⟩

/-- all headers handed to `insert` are validated -/
def AllValidated (ops : List Op) : Prop := ∀ op ∈ ops, op.validated = true

theorem abs_step_storedValid (v : Hdr → Hdr → Bool) (a : AbsStore) (op : Op) (hs : StoredValid a)
    (hb : op.validated = true) :
    StoredValid (AbsStore.step v a op).1 := by
  cases op with
  | insert batch =>
    simp only [AbsStore.step, AbsStore.insert]
    cases AbsStore.insertCheck v a batch with
    | error e => exact hs
    | ok o =>
      cases o with
      | none => exact hs
      | some p =>
        obtain ⟨lo, hi⟩ := p
        intro x hx
        simp only [List.mem_append] at hx
        rcases hx with hx | hx
        · exact hs x hx
        · simp only [Op.validated, List.all_eq_true] at hb; exact hb x hx
  | remove h =>
    simp only [AbsStore.step, AbsStore.remove]
    split
    · exact hs
    · intro x hx; simp only [List.mem_filter] at hx; exact hs x hx.1
  | mark h => intro x hx; simp only [AbsStore.step, mark_hdrs] at hx; exact hs x hx
  | updMeta h c => intro x hx; simp only [AbsStore.step, updateMeta_hdrs] at hx; exact hs x hx
  | _ => exact hs

theorem validRun_of_validated (v : Hdr → Hdr → Bool) (ops : List Op) (hv : AllValidated ops) (a : AbsStore)
    (hs : StoredValid a) : ValidRun v a ops := by
  induction ops generalizing a with
  | nil => exact hs
  | cons op rest ih =>
    refine ⟨hs, ih (fun o ho => hv o (List.mem_cons_of_mem _ ho)) _ ?_⟩
    exact abs_step_storedValid v a op hs (hv op (by simp))

/-- `AbsInv` implies the decidable `invOK` of the specification -/
theorem nodupB_of_nodup {α : Type} [DecidableEq α] (l : List α) (h : l.Nodup) : nodupB l = true := by
  induction l with
  | nil => rfl
  | cons a rest ih =>
    simp only [List.nodup_cons] at h
    simp [nodupB, h.1, ih h.2]

theorem invOK_of_absInv (a : AbsStore) (hi : AbsInv a) : invOK a = true := by
  unfold invOK
  simp only [Bool.and_eq_true, List.all_eq_true, decide_eq_true_eq, Bool.not_eq_true']
  refine ⟨⟨⟨⟨⟨nodupB_of_nodup _ hi.nodupH, nodupB_of_nodup _ hi.nodupQ⟩, fun x hx => (hi.bounds x hx).1⟩,
    hi.sampled⟩, hi.pruned⟩, hi.metas⟩

theorem placement_not_panic (a : AbsStore) (lo hi : Nat) (e : Err)
    (h : AbsStore.placement a lo hi = .error e) : e ≠ .panic := by
  unfold AbsStore.placement at h
  by_cases h2 : (lo == 0 || decide (lo > hi)) = true
  · rw [if_pos h2] at h; injection h with h; subst h; simp
  rw [if_neg h2] at h
  dsimp only at h
  by_cases h3 : (!(a.hdrs.all fun x => decide (x.height < lo)) && a.hdrs.any fun x => between lo hi x.height) = true
  · rw [if_pos h3] at h; injection h with h; subst h; simp
  rw [if_neg h3] at h
  by_cases h4 : (!(a.hdrs.all fun x => decide (x.height < lo)) && !a.stored (lo - 1) && !a.stored (hi + 1)) = true
  · rw [if_pos h4] at h; injection h with h; subst h; simp
  rw [if_neg h4] at h; cases h

theorem insertCheck_not_panic (v : Hdr → Hdr → Bool) (a : AbsStore) (batch : List Hdr) (e : Err)
    (h : AbsStore.insertCheck v a batch = .error e) : e ≠ .panic := by
  unfold AbsStore.insertCheck at h
  split at h
  next first last hf hl =>
    by_cases h1 : (!chainOK v batch) = true
    · rw [if_pos h1] at h; injection h with h; subst h; simp
    rw [if_neg h1] at h
    cases hp : AbsStore.placement a first.height last.height with
    | error e' =>
      rw [hp] at h; simp only at h
      injection h with h; subst h
      exact placement_not_panic a _ _ _ hp
    | ok u =>
      rw [hp] at h
      simp only at h
      by_cases h5 : (!AbsStore.prevOK v a first || !AbsStore.nextOK v a last) = true
      · rw [if_pos h5] at h; injection h with h; subst h; simp
      rw [if_neg h5] at h
      cases h6 : firstDupHash (a.hdrs.map (·.hash)) batch with
      | some q => rw [h6] at h; simp only at h; injection h with h; subst h; simp
      | none => rw [h6] at h; simp at h
  · simp at h

/-- the abstract store never answers `panic` -/
theorem abs_never_panics (v : Hdr → Hdr → Bool) (a : AbsStore) (op : Op) :
    (AbsStore.step v a op).2 ≠ .err .panic := by
  cases op with
  | insert batch =>
    simp only [AbsStore.step, AbsStore.insert]
    cases hc : AbsStore.insertCheck v a batch with
    | ok o => cases o <;> simp
    | error e =>
      simp only
      intro he
      injection he with he
      exact insertCheck_not_panic v a batch e hc he
  | remove h => simp only [AbsStore.step, AbsStore.remove]; split <;> simp
  | mark h => simp only [AbsStore.step, AbsStore.mark]; split <;> simp
  | updMeta h c => simp only [AbsStore.step, AbsStore.updateMeta]; split <;> simp
  | getByHeight h => simp only [AbsStore.step]; cases a.atHeight h <;> simp [AbsStore.optHdr]
  | hasAt h => simp [AbsStore.step]
  | getByHash q => simp only [AbsStore.step]; cases a.byHash q <;> simp [AbsStore.optHdr]
  | has q => simp [AbsStore.step]
  | getMeta h => simp only [AbsStore.step]; split <;> simp
  | head =>
    simp only [AbsStore.step]
    cases a.headHeight with
    | none => simp
    | some h => simp only; cases a.atHeight h <;> simp [AbsStore.optHdr]
  | headHeight => simp only [AbsStore.step]; cases a.headHeight <;> simp
  | getRange lo hi =>
    simp only [AbsStore.step, AbsStore.getRange]
    repeat' split
    all_goals simp
  | storedRanges => simp [AbsStore.step]
  | sampledRanges => simp [AbsStore.step]
  | prunedRanges => simp [AbsStore.step]


/-- what `get_by_height` of the redb store answering `Ok` means abstractly -/
theorem redb_getByHeight_ok {t : Tables} {a : AbsStore} (r : Rr t a) (h : Nat) (x : Hdr)
    (hx : RedbStore.getByHeight t h = .ok x) : a.atHeight h = some x ∧ x.valid = true := by
  unfold RedbStore.getByHeight RedbStore.getHeader at hx
  rw [r.hdrT h] at hx
  cases ha : a.atHeight h with
  | none => rw [ha] at hx; cases hx
  | some x' =>
    rw [ha] at hx
    simp only [RedbStore.decodeHeader] at hx
    split at hx
    · rename_i hval; injection hx with hx; rw [← hx]; exact ⟨rfl, hval⟩
    · cases hx

/-- C21 on a pair (redb tables, abstract state) in the relation -/
theorem redb_chain {t : Tables} {a : AbsStore} (r : Rr t a) (hi : AbsInv a) (v : Hdr → Hdr → Bool)
    (hv : AbsVer v a) (h : Nat) (x y : Hdr)
    (hx : RedbStore.getByHeight t h = .ok x) (hy : RedbStore.getByHeight t (h + 1) = .ok y) :
    verifyAdjacent v x y = true := by
  have mx := (atHeight_some hi h x).1 (redb_getByHeight_ok r h x hx).1
  have my := (atHeight_some hi (h + 1) y).1 (redb_getByHeight_ok r (h + 1) y hy).1
  have := hv _ mx.1 _ my.1 (by omega)
  simp [verifyAdjacent, this, mx.2, my.2]

theorem redb_hashIndex {t : Tables} {a : AbsStore} (r : Rr t a) (hi : AbsInv a) (h : Nat) (x : Hdr)
    (hx : RedbStore.getByHeight t h = .ok x) :
    x.height = h ∧ RedbStore.getByHash t x.hash = .ok x ∧ RedbStore.containsHash t x.hash = true := by
  have hax := redb_getByHeight_ok r h x hx
  have mx := (atHeight_some hi h x).1 hax.1
  have hb := (byHash_some hi x.hash x).2 ⟨mx.1, rfl⟩
  have hg : AMap.get t.heights x.hash = some h := by rw [r.hgt, hb]; simp [mx.2]
  have hh : AMap.get t.headers h = some x := by rw [r.hdrT, hax.1]
  refine ⟨mx.2, ?_, ?_⟩
  · simp [RedbStore.getByHash, RedbStore.getHeight, hg, Bind.bind, Except.bind, RedbStore.getHeader, hh,
      RedbStore.decodeHeader, hax.2]
  · simp [RedbStore.containsHash, RedbStore.getHeight, hg, contains_eq, hh]

/-- C21 on a pair (in-memory state, abstract state) in the relation -/
theorem mem_chain {m : MemStore} {a : AbsStore} (r : Rm m a) (hi : AbsInv a) (v : Hdr → Hdr → Bool)
    (hv : AbsVer v a) (h : Nat) (x y : Hdr)
    (hx : m.getByHeight h = .ok x) (hy : m.getByHeight (h + 1) = .ok y) :
    verifyAdjacent v x y = true := by
  rw [mem_getByHeight r hi] at hx hy
  cases hax : a.atHeight h with
  | none => rw [hax] at hx; cases hx
  | some x' =>
    cases hay : a.atHeight (h + 1) with
    | none => rw [hay] at hy; cases hy
    | some y' =>
      rw [hax] at hx; rw [hay] at hy
      injection hx with hx; injection hy with hy
      subst hx hy
      have mx := (atHeight_some hi h _).1 hax
      have my := (atHeight_some hi (h + 1) _).1 hay
      have := hv _ mx.1 _ my.1 (by omega)
      simp [verifyAdjacent, this, mx.2, my.2]

theorem mem_hashIndex {m : MemStore} {a : AbsStore} (r : Rm m a) (hi : AbsInv a) (h : Nat) (x : Hdr)
    (hx : m.getByHeight h = .ok x) :
    x.height = h ∧ m.getByHash x.hash = .ok x ∧ m.containsHash x.hash = true := by
  rw [mem_getByHeight r hi] at hx
  cases hax : a.atHeight h with
  | none => rw [hax] at hx; cases hx
  | some x' =>
    rw [hax] at hx; injection hx with hx; subst hx
    have mx := (atHeight_some hi h _).1 hax
    have hb := (byHash_some hi x'.hash x').2 ⟨mx.1, rfl⟩
    refine ⟨mx.2, ?_, ?_⟩
    · simp only [MemStore.getByHash]; rw [r.hdr, hb]
    · simp only [MemStore.containsHash, contains_eq]; rw [r.hdr, hb]; rfl

theorem mem_appendDedup (acc l : List Cid) (c : Cid) : c ∈ appendDedup acc l ↔ c ∈ acc ∨ c ∈ l := by
  induction l generalizing acc with
  | nil => simp [appendDedup]
  | cons a rest ih =>
    simp only [appendDedup]
    split
    · rename_i h
      rw [ih]
      simp only [List.contains_eq_mem, decide_eq_true_eq] at h
      constructor
      · rintro (h1 | h1); exact Or.inl h1; exact Or.inr (List.mem_cons_of_mem _ h1)
      · rintro (h1 | h1)
        · exact Or.inl h1
        · rcases List.mem_cons.1 h1 with e | e
          · subst e; exact Or.inl h
          · exact Or.inr e
    · rw [ih]
      simp only [List.mem_append, List.mem_cons, List.not_mem_nil, or_false]
      exact or_assoc

end Lumina.Proofs.Store

/-
  Lemmas about the syncer's fetch decision (`Lumina/Model/SyncerGate.lean`) for C25 / C38:
  shape of `calculate_range_to_fetch` on an `Inv` value, decomposition of an accepted request,
  preservation of the range invariants by the store operations of the transition system.

  Core Lean only.
-/
import Lumina.Model.SyncerGate
import Lumina.Proofs.Ranges
import Lumina.Proofs.RangesConstraints
import Lumina.Spec.C25
import Lumina.Proofs.RangesOps

namespace Lumina.Proofs.SyncerGate
open Lumina.Model.Ranges hiding Inv
open Lumina.Model.SyncerGate Lumina.Model.FetchRange Lumina.Proofs.Ranges

local notation "RInv" => Lumina.Model.Ranges.Inv

/-- a non-empty `tailn` keeps the start and does not exceed the end -/
theorem range_tailn_facts (r : Range) (l : Nat) (hne : Range.isEmpty (Range.tailn r l) = false) :
    (Range.tailn r l).1 = r.1 ∧ (Range.tailn r l).2 ≤ r.2 := by
  unfold Range.tailn at hne ⊢
  by_cases hc : Range.isEmpty r = true
  · rw [if_pos hc] at hne; simp [Range.isEmpty] at hne
  · rw [if_neg hc] at hne ⊢
    cases hm : checkedSub l 1 with
    | none => rw [hm] at hne; simp [Range.isEmpty] at hne
    | some v => exact ⟨rfl, Nat.min_le_left _ _⟩

/-- a non-empty `headn` keeps the end and does not start below the start -/
theorem range_headn_facts (r : Range) (l : Nat) (hne : Range.isEmpty (Range.headn r l) = false) :
    (Range.headn r l).2 = r.2 ∧ r.1 ≤ (Range.headn r l).1 := by
  unfold Range.headn at hne ⊢
  by_cases hc : Range.isEmpty r = true
  · rw [if_pos hc] at hne; simp [Range.isEmpty] at hne
  · rw [if_neg hc] at hne ⊢
    cases hm : checkedAdd (satSub r.2 l) 1 with
    | none => rw [hm] at hne; simp [Range.isEmpty] at hne
    | some v => exact ⟨rfl, Nat.le_max_left _ _⟩

/-- a non-empty result of `calculate_range_to_fetch` on a well-formed `synced` value either lies
    above every synced height (and not above the head), or ends just below a synced height -/
theorem calc_cases {head limit : Nat} {synced : Ranges} {r : Range} (hi : RInv synced)
    (h : calculateRangeToFetch head synced limit = .ok r) (hne : Range.isEmpty r = false) :
    1 ≤ r.1 ∧ r.1 ≤ r.2 ∧
      (((∀ x, mem synced x → x < r.1) ∧ r.2 ≤ head ∧ (synced = [] ∨ mem synced (r.1 - 1))) ∨
        (mem synced (r.2 + 1) ∧ (∀ x, r.2 < x → x ≤ head → mem synced x) ∧
          ∀ x, r.1 ≤ x → x ≤ r.2 → ¬ mem synced x)) := by
  have hle : r.1 ≤ r.2 := by simpa [Range.isEmpty] using hne
  rcases List.eq_nil_or_concat synced with rfl | ⟨ys, hd, rfl⟩
  · -- nothing synced
    simp only [calculateRangeToFetch, List.reverse_nil, pure, Except.pure] at h
    injection h with h
    subst h
    obtain ⟨h1, h2⟩ := range_tailn_facts _ _ hne
    simp only [] at h1 h2
    exact ⟨by omega, hle, Or.inl ⟨fun x hx => absurd hx (mem_nil x), h2, Or.inl rfl⟩⟩
  · simp only [List.concat_eq_append] at hi h ⊢
    have hvhd := inv_validR hi (r := hd) (by simp)
    have hmax : ∀ x, mem (ys ++ [hd]) x → x ≤ hd.2 := by
      rintro x ⟨y, hy, h1, h2⟩
      have := inv_le_last hi y hy; omega
    simp only [calculateRangeToFetch, List.reverse_append, List.reverse_cons, List.reverse_nil,
      List.nil_append, List.cons_append] at h
    by_cases hlt : hd.2 < head
    · -- not caught up with the head: the range starts right above everything synced
      simp only [hlt, ↓reduceIte, addU64, bind, Except.bind] at h
      by_cases hov : hd.2 + 1 ≤ U64_MAX
      · simp only [hov, ↓reduceIte, pure, Except.pure] at h
        injection h with h
        subst h
        obtain ⟨h1, h2⟩ := range_tailn_facts _ _ hne
        simp only [] at h1 h2
        refine ⟨by omega, hle, Or.inl ⟨fun x hx => ?_, h2, Or.inr ?_⟩⟩
        · have := hmax x hx; omega
        · rw [h1]
          exact ⟨hd, by simp, by have := hvhd.2.1; omega, by omega⟩
      · simp [hov] at h
    · -- caught up: the range ends right below the highest synced range
      simp only [hlt, ↓reduceIte, addU64, bind, Except.bind] at h
      split at h
      · cases h
      · simp only [pure, Except.pure] at h
        rename_i s hs
        injection h with h
        subst h
        have hss : satSub hd.1 1 = hd.1 - 1 := rfl
        rw [hss] at hne hle ⊢
        obtain ⟨h1, h2⟩ := range_headn_facts _ _ hne
        simp only [] at h1 h2
        have hs1 : 1 ≤ s := by
          split at hs <;> split at hs <;> first | (injection hs with hs; omega) | cases hs
        refine ⟨by omega, hle, Or.inr ?_⟩
        have h3 : (Range.headn (s, hd.1 - 1) limit).2 + 1 = hd.1 := by
          have := hvhd.1; omega
        rw [h3]
        refine ⟨⟨hd, by simp, Nat.le_refl _, hvhd.2.1⟩, fun x hx1 hx2 => ⟨hd, by simp, by omega, by omega⟩, ?_⟩
        -- the batch lies in the gap between the penultimate range and the highest range
        rintro x hx1 hx2 ⟨y, hy, hy1, hy2⟩
        rcases List.mem_append.1 hy with hy | hy
        · -- `y` is one of the lower ranges: it ends at or below `s - 1`
          have hys : RInv ys := (inv_append.1 hi).1
          have hyle : y.2 + 1 ≤ s := by
            cases hrev : ys.reverse with
            | nil =>
              have : ys = [] := by simpa using hrev
              rw [this] at hy; cases hy
            | cons p t =>
              have hys' : ys = t.reverse ++ [p] := by
                have := congrArg List.reverse hrev
                simpa using this
              rw [hrev] at hs
              simp only [] at hs
              have hsp : s = p.2 + 1 := by
                split at hs
                · injection hs with hs; omega
                · cases hs
              rw [hys'] at hys hy
              have := (inv_le_last hys y hy).2
              omega
          omega
        · simp at hy; subst hy; omega

/-- what a scheduled request implies (both versions of the code) -/
theorem request_cases {pc : Bool} {slowMin : Nat} {i : GateIn} {r : Range}
    (h : fetchDecisionWith pc slowMin i = .ok (.request r)) :
    ∃ head synced, i.ongoing = false ∧ i.head = some head ∧ add i.pruned i.stored = .ok synced ∧
      calculateRangeToFetch head synced i.batchSize = .ok r ∧ Range.isEmpty r = false ∧
      r.2 + 1 ≤ U64_MAX ∧
      ((contains i.stored (r.2 + 1) = true ∧ i.inWindow (r.2 + 1) = true) ∨
       (contains i.stored (r.2 + 1) = false ∧ (pc && contains synced (r.2 + 1)) = false)) := by
  unfold fetchDecisionWith at h
  split at h
  · cases h
  rename_i hong
  split at h
  · cases h
  split at h
  · cases h
  rename_i head hhead
  split at h
  · cases h
  rename_i synced hadd
  split at h
  · cases h
  rename_i nb hcalc
  split at h
  · cases h
  rename_i hne
  split at h
  · cases h
  · cases h
  split at h
  · cases h
  rename_i bound hb
  have hb' : nb.2 + 1 ≤ U64_MAX ∧ bound = nb.2 + 1 := by
    unfold addU64 at hb
    split at hb
    · injection hb with hb; exact ⟨by assumption, hb.symm⟩
    · cases hb
  obtain ⟨hle, rfl⟩ := hb'
  injection h with h
  unfold windowGate at h
  split at h
  · rename_i hst
    split at h
    · rename_i hw
      injection h with h; subst h
      exact ⟨head, synced, by simpa using hong, hhead, hadd, hcalc, by simpa using hne, hle, Or.inl ⟨hst, hw⟩⟩
    · cases h
  · rename_i hst
    split at h
    · cases h
    · rename_i hp
      injection h with h; subst h
      exact ⟨head, synced, by simpa using hong, hhead, hadd, hcalc, by simpa using hne, hle,
        Or.inr ⟨by simpa using hst, by simpa using hp⟩⟩

/-! ### the C25 checker -/

open Lumina.Spec.C25 in
/-- sufficient (and necessary) condition for the decidable checker `noOldSyncedAbove` -/
theorem noOld_of {v : Lumina.Spec.C25.View} {b : Nat}
    (h : ∀ x, (mem v.stored x ∨ mem v.pruned x) → b < x → v.old x = false) :
    noOldSyncedAbove v b = true := by
  simp only [noOldSyncedAbove, List.all_eq_true, List.mem_append, Bool.not_eq_true']
  intro r hr x hx
  simp only [above, List.mem_range'_1] at hx
  apply h x
  · rcases hr with hr | hr
    · exact Or.inl ⟨r, hr, by omega, by omega⟩
    · exact Or.inr ⟨r, hr, by omega, by omega⟩
  · omega

open Lumina.Spec.C25 in
theorem noOld_iff {v : Lumina.Spec.C25.View} {b : Nat} :
    noOldSyncedAbove v b = true ↔
      ∀ x, (mem v.stored x ∨ mem v.pruned x) → b < x → v.old x = false := by
  refine ⟨fun h x hx hb => ?_, noOld_of⟩
  simp only [noOldSyncedAbove, List.all_eq_true, List.mem_append, Bool.not_eq_true'] at h
  rcases hx with ⟨r, hr, h1, h2⟩ | ⟨r, hr, h1, h2⟩
  · exact h r (Or.inl hr) x (by simp only [above, List.mem_range'_1]; omega)
  · exact h r (Or.inr hr) x (by simp only [above, List.mem_range'_1]; omega)

open Lumina.Spec.C25 in
/-- core of C25, for both versions of the code: a scheduled request never lies below a synced
    header that is older than the sampling window — for the code before the fix only when the
    height just above the batch is stored or was never synced -/
theorem fetch_request_spec_gen {pc : Bool} {slowMin : Nat} {i : GateIn} {old : Nat → Bool} {r : Range}
    (hst : RInv i.stored) (hpr : RInv i.pruned)
    (hwin : ∀ h, mem i.stored h → i.inWindow h = true → old h = false)
    (hmono : ∀ h1 h2, h1 ≤ h2 → (mem i.stored h1 ∨ mem i.pruned h1) →
      (mem i.stored h2 ∨ mem i.pruned h2) → old h2 = true → old h1 = true)
    (h : fetchDecisionWith pc slowMin i = .ok (.request r))
    (hpc : pc = true ∨ mem i.stored (r.2 + 1) ∨ ¬ (mem i.stored (r.2 + 1) ∨ mem i.pruned (r.2 + 1))) :
    specFetch ⟨i.stored, i.pruned, old⟩ (.request r.1 r.2) = true := by
  obtain ⟨head, synced, _, _, hadd, hcalc, hne, _, hgate⟩ := request_cases h
  obtain ⟨c, hc, hci, hcm⟩ := add_spec hpr hst
  rw [hadd] at hc
  injection hc with hc
  subst hc
  obtain ⟨h1, h2, hshape⟩ := calc_cases hci hcalc hne
  simp only [specFetch, Bool.and_eq_true, decide_eq_true_eq]
  refine ⟨⟨h1, h2⟩, noOld_of ?_⟩
  intro x hx hbx
  simp only [] at hx ⊢
  have hxs : mem synced x := (hcm x).2 (hx.symm)
  rcases hshape with ⟨habove, _, _⟩ | ⟨hbound, _⟩
  · -- the batch lies above everything synced
    have := habove x hxs
    omega
  · -- the batch ends right below the synced height `r.2 + 1`
    have hbs : mem i.stored (r.2 + 1) ∨ mem i.pruned (r.2 + 1) := ((hcm _).1 hbound).symm
    have hbold : old (r.2 + 1) = false := by
      rcases hgate with ⟨hcs, hw⟩ | ⟨hns, hnp⟩
      · exact hwin _ ((contains_iff_mem _ _).1 hcs) hw
      · have hcb : contains synced (r.2 + 1) = true := (contains_iff_mem _ _).2 hbound
        rcases hpc with rfl | hm | hn
        · simp [hcb] at hnp
        · have := (contains_iff_mem _ _).2 hm
          rw [hns] at this; cases this
        · exact absurd hbs hn
    cases hox : old x with
    | false => rfl
    | true =>
      have := hmono (r.2 + 1) x (by omega) hbs hx hox
      rw [hbold] at this
      cases this

open Lumina.Spec.C25 in
/-- the CURRENT code -/
theorem fetch_request_spec {slowMin : Nat} {i : GateIn} {old : Nat → Bool} {r : Range}
    (hst : RInv i.stored) (hpr : RInv i.pruned)
    (hwin : ∀ h, mem i.stored h → i.inWindow h = true → old h = false)
    (hmono : ∀ h1 h2, h1 ≤ h2 → (mem i.stored h1 ∨ mem i.pruned h1) →
      (mem i.stored h2 ∨ mem i.pruned h2) → old h2 = true → old h1 = true)
    (h : fetchDecision slowMin i = .ok (.request r)) :
    specFetch ⟨i.stored, i.pruned, old⟩ (.request r.1 r.2) = true :=
  fetch_request_spec_gen hst hpr hwin hmono h (Or.inl rfl)

/-! ### the transition system keeps the range invariants -/

structure Good (s : State) : Prop where
  stored : RInv s.stored
  pruned : RInv s.pruned
  sampled : RInv s.sampled
  ongoing : ∀ r, s.ongoing = some r → r.2 ≤ U64_MAX
  head : ∀ h, s.head = some h → h < U64_MAX

/-- the `u64` typing of the operation's argument -/
def OpWf : Op → Prop
  | .insert r => r.2 ≤ U64_MAX
  | .setHead h => h < U64_MAX
  | _ => True

theorem storeInsert_good {s s' : State} {r : Range} (hg : Good s) (hr : r.2 ≤ U64_MAX)
    (h : storeInsert s r = some s') : Good s' ∧ s'.ongoing = s.ongoing := by
  unfold storeInsert at h
  split at h
  · cases h
  rename_i x hck
  by_cases hv : Range.valid r = true
  · have hvr : ValidR r := ⟨((valid_iff r).1 hv).1, ((valid_iff r).1 hv).2, hr⟩
    obtain ⟨st, e1, i1, _⟩ := insertRelaxed_spec hg.stored hvr
    obtain ⟨sa, e2, i2, _⟩ := removeRelaxed_spec hg.sampled hvr
    obtain ⟨pr, e3, i3, _⟩ := removeRelaxed_spec hg.pruned hvr
    rw [e1, e2, e3] at h
    injection h with h
    subst h
    exact ⟨⟨i1, i3, i2, hg.ongoing, hg.head⟩, rfl⟩
  · have := checkInsertionConstraints_invalid (rs := s.stored) (r := r) (by simpa using hv)
    rw [this] at hck
    cases hck

theorem point_valid {rs : Ranges} {h : Nat} (hi : RInv rs) (hc : contains rs h = true) : ValidR (h, h) := by
  have := mem_bounds hi ((contains_iff_mem _ _).1 hc)
  exact ⟨this.1, Nat.le_refl _, this.2⟩

theorem storeRemove_good {s s' : State} {h : Nat} (hg : Good s)
    (he : storeRemove s h = some s') : Good s' ∧ s'.ongoing = s.ongoing := by
  unfold storeRemove at he
  split at he
  · cases he
  rename_i hc
  have hvr := point_valid hg.stored (by simpa using hc)
  obtain ⟨st, e1, i1, _⟩ := removeRelaxed_spec hg.stored hvr
  obtain ⟨sa, e2, i2, _⟩ := removeRelaxed_spec hg.sampled hvr
  obtain ⟨pr, e3, i3, _⟩ := insertRelaxed_spec hg.pruned hvr
  rw [e1, e2, e3] at he
  injection he with he
  subst he
  exact ⟨⟨i1, i3, i2, hg.ongoing, hg.head⟩, rfl⟩

theorem storeMark_good {s s' : State} {h : Nat} (hg : Good s)
    (he : storeMark s h = some s') : Good s' ∧ s'.ongoing = s.ongoing := by
  unfold storeMark at he
  split at he
  · cases he
  rename_i hc
  have hvr := point_valid hg.stored (by simpa using hc)
  obtain ⟨sa, e2, i2, _⟩ := insertRelaxed_spec hg.sampled hvr
  rw [e2] at he
  injection he with he
  subst he
  exact ⟨⟨hg.stored, hg.pruned, i2, hg.ongoing, hg.head⟩, rfl⟩

theorem step_good {slowMin : Nat} {c : Chain} {s : State} {op : Op} (hg : Good s) (hw : OpWf op) :
    Good (step slowMin c s op).1 := by
  cases op with
  | insert r =>
    simp only [step]
    split
    · rename_i s' h; exact (storeInsert_good hg hw h).1
    · exact hg
  | prune h =>
    simp only [step]
    split
    · rename_i s' he; exact (storeRemove_good hg he).1
    · exact hg
  | sample h =>
    simp only [step]
    split
    · rename_i s' he; exact (storeMark_good hg he).1
    · exact hg
  | setHead h =>
    have hnew : ∀ x, some h = some x → x < U64_MAX := fun x hx => by injection hx with hx; subst hx; exact hw
    simp only [step, setHead]
    split
    · split
      · exact hg
      · exact ⟨hg.stored, hg.pruned, hg.sampled, hg.ongoing, hnew⟩
    · exact ⟨hg.stored, hg.pruned, hg.sampled, hg.ongoing, hnew⟩
  | setSlow h => exact ⟨hg.stored, hg.pruned, hg.sampled, hg.ongoing, hg.head⟩
  | setPeers n => exact ⟨hg.stored, hg.pruned, hg.sampled, hg.ongoing, hg.head⟩
  | setBatch n => exact ⟨hg.stored, hg.pruned, hg.sampled, hg.ongoing, hg.head⟩
  | fetch keep =>
    simp only [step]
    split
    · exact hg
    · rename_i r hd
      split
      · refine ⟨hg.stored, hg.pruned, hg.sampled, ?_, hg.head⟩
        intro r' hr'
        injection hr' with hr'
        subst hr'
        obtain ⟨_, _, _, _, _, _, _, hle, _⟩ := request_cases hd
        omega
      · exact hg
    · exact hg
  | cancel => exact ⟨hg.stored, hg.pruned, hg.sampled, (fun _ h => by cases h), hg.head⟩
  | deliver ok =>
    simp only [step]
    split
    · exact hg
    · rename_i r hon
      have hr := hg.ongoing r hon
      split
      · exact ⟨hg.stored, hg.pruned, hg.sampled, (fun _ h => by cases h), hg.head⟩
      · have hg1 : Good { s with ongoing := none, slowSync := slowSyncScan c.oldP s.slowSync (heightsDesc r) } :=
          ⟨hg.stored, hg.pruned, hg.sampled, (fun _ h => by cases h), hg.head⟩
        split
        · rename_i s' h; exact (storeInsert_good hg1 hr h).1
        · exact hg1

/-! ### totality: the decision never hits a panic outcome -/

theorem calc_ok {head limit : Nat} {synced : Ranges} (hi : RInv synced) (hh : head ≤ U64_MAX) :
    ∃ r, calculateRangeToFetch head synced limit = .ok r := by
  rcases List.eq_nil_or_concat synced with rfl | ⟨ys, hd, rfl⟩
  · exact ⟨_, rfl⟩
  · simp only [List.concat_eq_append] at hi ⊢
    have hvhd := inv_validR hi (r := hd) (by simp)
    simp only [calculateRangeToFetch, List.reverse_append, List.reverse_cons, List.reverse_nil,
      List.nil_append, List.cons_append]
    by_cases hlt : hd.2 < head
    · have : hd.2 + 1 ≤ U64_MAX := by omega
      simp [hlt, addU64, this, bind, Except.bind, pure, Except.pure]
    · simp only [hlt, ↓reduceIte]
      cases hrev : ys.reverse with
      | nil =>
        have : (0 : Nat) + 1 ≤ U64_MAX := by decide
        simp only [addU64, bind, Except.bind, pure, Except.pure, this, ↓reduceIte]
        exact ⟨_, rfl⟩
      | cons r t =>
        have hr : r ∈ ys := by
          have : r ∈ ys.reverse := by rw [hrev]; simp
          simpa using this
        have h1 := (inv_append.1 hi).2.2 r hr hd (by simp)
        have h2 := hvhd.2.2
        have h3 := hvhd.2.1
        have : r.2 + 1 ≤ U64_MAX := by omega
        simp only [addU64, bind, Except.bind, pure, Except.pure, this, ↓reduceIte]
        exact ⟨_, rfl⟩

theorem fetch_total {pc : Bool} {slowMin : Nat} {i : GateIn}
    (hst : RInv i.stored) (hpr : RInv i.pruned) (hsa : RInv i.sampled)
    (hhead : ∀ h, i.head = some h → h < U64_MAX) :
    ∃ d, fetchDecisionWith pc slowMin i = .ok d := by
  unfold fetchDecisionWith
  split
  · exact ⟨_, rfl⟩
  split
  · exact ⟨_, rfl⟩
  split
  · exact ⟨_, rfl⟩
  rename_i head hhd
  have hh := hhead head hhd
  obtain ⟨synced, hadd, hci, hcm⟩ := add_spec hpr hst
  rw [hadd]
  obtain ⟨nb, hcalc⟩ := calc_ok (limit := i.batchSize) hci (Nat.le_of_lt hh)
  simp only []
  rw [hcalc]
  simp only []
  split
  · exact ⟨_, rfl⟩
  rename_i hne
  have hslow : ∃ b, slowSyncStop slowMin i nb = .ok b := by
    unfold slowSyncStop
    obtain ⟨u, hu, hui, _⟩ := sub_spec hst hsa
    simp only [hu, len_spec hui]
    split <;> (try split) <;> exact ⟨_, rfl⟩
  obtain ⟨b, hb⟩ := hslow
  rw [hb]
  cases b with
  | true => exact ⟨_, rfl⟩
  | false =>
    simp only []
    have hle : nb.2 + 1 ≤ U64_MAX := by
      obtain ⟨_, _, hshape⟩ := calc_cases hci hcalc (by simpa using hne)
      rcases hshape with ⟨_, h2, _⟩ | ⟨hm, _⟩
      · omega
      · exact (mem_bounds hci hm).2
    simp only [addU64, hle, ↓reduceIte]
    exact ⟨_, rfl⟩

/-! ### progress: while a height up to the head is missing, there is something to fetch -/

theorem range_tailn_nonempty (r : Range) (l : Nat) (hr : r.1 ≤ r.2) (hl : 1 ≤ l) (hu : r.2 ≤ U64_MAX) :
    Range.isEmpty (Range.tailn r l) = false := by
  unfold Range.tailn
  have hc : ¬ Range.isEmpty r = true := by simp [Range.isEmpty]; exact hr
  rw [if_neg hc]
  have : checkedSub l 1 = some (l - 1) := by simp [checkedSub]; omega
  rw [this]
  have hsa : r.1 ≤ satAdd r.1 (l - 1) := by unfold satAdd; split <;> omega
  have := Nat.le_min.2 ⟨hr, hsa⟩
  simpa [Range.isEmpty] using this

theorem range_headn_nonempty (r : Range) (l : Nat) (h1 : 1 ≤ r.1) (hr : r.1 ≤ r.2) (hl : 1 ≤ l)
    (hu : r.2 ≤ U64_MAX) : Range.isEmpty (Range.headn r l) = false := by
  unfold Range.headn
  have hc : ¬ Range.isEmpty r = true := by simp [Range.isEmpty]; exact hr
  rw [if_neg hc]
  have : checkedAdd (satSub r.2 l) 1 = some (r.2 - l + 1) := by
    unfold checkedAdd satSub
    split
    · rfl
    · next h => exact absurd (by omega) h
  rw [this]
  have : max r.1 (r.2 - l + 1) ≤ r.2 := Nat.max_le.2 ⟨hr, by omega⟩
  simpa [Range.isEmpty] using this

/-- if some height `1 ≤ m ≤ head` is not synced, `calculate_range_to_fetch` returns a non-empty range -/
theorem calc_nonempty {head limit : Nat} {synced : Ranges} (hi : RInv synced) (hl : 1 ≤ limit)
    (hh : head ≤ U64_MAX) {m : Nat} (hm1 : 1 ≤ m) (hm2 : m ≤ head) (hm3 : ¬ mem synced m) :
    ∃ r, calculateRangeToFetch head synced limit = .ok r ∧ Range.isEmpty r = false := by
  rcases List.eq_nil_or_concat synced with rfl | ⟨ys, hd, rfl⟩
  · exact ⟨_, rfl, range_tailn_nonempty _ _ (by simp only []; omega) hl hh⟩
  · simp only [List.concat_eq_append] at hi hm3 ⊢
    have hvhd := inv_validR hi (r := hd) (by simp)
    simp only [calculateRangeToFetch, List.reverse_append, List.reverse_cons, List.reverse_nil,
      List.nil_append, List.cons_append]
    by_cases hlt : hd.2 < head
    · have : hd.2 + 1 ≤ U64_MAX := by omega
      simp only [hlt, ↓reduceIte, addU64, this, bind, Except.bind, pure, Except.pure]
      exact ⟨_, rfl, range_tailn_nonempty _ _ (by simp only []; omega) hl hh⟩
    · simp only [hlt, ↓reduceIte]
      have hmlt : m < hd.1 := by
        by_cases hc : m < hd.1
        · exact hc
        · exact absurd ⟨hd, by simp, by omega, by omega⟩ hm3
      cases hrev : ys.reverse with
      | nil =>
        have : (0 : Nat) + 1 ≤ U64_MAX := by decide
        simp only [addU64, bind, Except.bind, pure, Except.pure, this, ↓reduceIte]
        exact ⟨_, rfl, range_headn_nonempty _ _ (by simp) (by simp only [satSub]; omega) hl
          (by simp only [satSub]; have := hvhd.2.2; have := hvhd.2.1; omega)⟩
      | cons r t =>
        have hr : r ∈ ys := by
          have : r ∈ ys.reverse := by rw [hrev]; simp
          simpa using this
        have h1 := (inv_append.1 hi).2.2 r hr hd (by simp)
        have h2 := hvhd.2.2
        have h3 := hvhd.2.1
        have : r.2 + 1 ≤ U64_MAX := by omega
        simp only [addU64, bind, Except.bind, pure, Except.pure, this, ↓reduceIte]
        exact ⟨_, rfl, range_headn_nonempty _ _ (by simp) (by simp only [satSub]; omega) hl
          (by simp only [satSub]; omega)⟩

/-- **Progress of the fetch decision.**  Nothing pruned, no batch ongoing, a peer connected, the
    slow-sync gate not armed, batch size ≥ 1: if some height `1 ≤ m ≤ head` inside the sampling
    window is not stored, `fetch_next_batch` schedules a request. -/
theorem gate_progress {pc : Bool} {slowMin : Nat} {i : GateIn} {old : Nat → Bool} {H m : Nat}
    (hst : RInv i.stored) (hpr : i.pruned = []) (hong : i.ongoing = false)
    (hpeers : i.connectedPeers ≠ 0) (hhead : i.head = some H) (hH : H < U64_MAX)
    (hbs : 1 ≤ i.batchSize) (hslow : i.slowSync = none)
    (hwin : ∀ h, i.inWindow h = !old h)
    (hmono : ∀ h1 h2, h1 ≤ h2 → old h2 = true → old h1 = true)
    (hm1 : 1 ≤ m) (hm2 : m ≤ H) (hm3 : ¬ mem i.stored m) (hm4 : old m = false) :
    ∃ r, fetchDecisionWith pc slowMin i = .ok (.request r) := by
  obtain ⟨synced, hadd, hci, hcm⟩ := add_spec (a := i.pruned) (by rw [hpr]; exact inv_nil) hst
  have hsm : ∀ x, mem synced x ↔ mem i.stored x := by
    intro x; rw [hcm x, hpr]; simp [mem_nil]
  obtain ⟨r, hcalc, hne⟩ := calc_nonempty (limit := i.batchSize) hci hbs (Nat.le_of_lt hH) hm1 hm2
    (fun hc => hm3 ((hsm m).1 hc))
  obtain ⟨_, _, hshape⟩ := calc_cases hci hcalc hne
  have hle : r.2 + 1 ≤ U64_MAX := by
    rcases hshape with ⟨_, h2, _⟩ | ⟨hmm, _⟩
    · omega
    · exact (mem_bounds hci hmm).2
  refine ⟨r, ?_⟩
  unfold fetchDecisionWith
  rw [if_neg (by simp [hong]), if_neg (by simpa using hpeers)]
  simp only [hhead, hadd, hcalc, hne, Bool.false_eq_true, ↓reduceIte]
  have hss : slowSyncStop slowMin i r = .ok false := by simp [slowSyncStop, hslow]
  simp only [hss, addU64, hle, ↓reduceIte]
  congr 1
  unfold windowGate
  rcases hshape with ⟨habove, _, _⟩ | ⟨hbound, hfill, _⟩
  · -- forward: the bound is above everything synced
    have hnc : contains i.stored (r.2 + 1) = false := by
      cases hc : contains i.stored (r.2 + 1) with
      | false => rfl
      | true =>
        have := habove _ ((hsm _).2 ((contains_iff_mem _ _).1 hc))
        omega
    have hns : contains synced (r.2 + 1) = false := by
      cases hc : contains synced (r.2 + 1) with
      | false => rfl
      | true =>
        have := habove _ ((contains_iff_mem _ _).1 hc)
        omega
    simp [hnc, hns]
  · -- backward: the bound is stored and inside the window because `m` below it is
    have hcs : contains i.stored (r.2 + 1) = true := (contains_iff_mem _ _).2 ((hsm _).1 hbound)
    have hmb : m ≤ r.2 := by
      by_cases hc : m ≤ r.2
      · exact hc
      · exact absurd ((hsm m).1 (hfill m (by omega) hm2)) hm3
    have hob : old (r.2 + 1) = false := by
      cases ho : old (r.2 + 1) with
      | false => rfl
      | true => have := hmono m (r.2 + 1) (by omega) ho; rw [hm4] at this; cases this
    simp [hcs, hwin, hob]

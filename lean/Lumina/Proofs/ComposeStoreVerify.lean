/-
  COMPOSITION C21 × C02 (strengthening round S7).

  Group B's store models (`Model/Store.lean`) take `ExtendedHeader::verify` as an arbitrary oracle
  `Hdr → Hdr → Bool` that is FIXED along a history.  Group E modelled the real check
  (`Model/HeaderVerify.lean`, characterised in `Props/C02.lean`).  This file plugs the second
  into the first:

    * `Content`: the projection from the store models' abstract header (`Store.Hdr`: an identity,
      its height, its hash, its validation bit) to the record `HeaderVerify.Hdr` of the fields
      `verify` reads (the abstract header's `id` "identifies the complete header content", so the
      content is a FUNCTION of the abstract header; the only tie that is needed is that both
      records carry the same height);
    * runs in which EVERY OPERATION HAS ITS OWN ORACLE (`runOpsV`): the real check reads the
      clock, so the oracle of one `insert` need not be the oracle of the next one.  A per-operation
      oracle `w` is admissible (`ClockSound`) when every `true` it gives is the verdict `Ok` of
      the C02 model `verify` at SOME clock reading (one reading per verified pair — the clock may
      even advance inside one store call);
    * a two-oracle version of the chain invariant of `Proofs/StoreAbs.lean`: an operation run
      with oracle `w` preserves "consecutive stored headers are `L`-related" as soon as `w`
      implies `L` on adjacent pairs (`abs_step_ver2`), lifted to clocked runs and transferred to
      both store models through the existing one-step simulations (`mem_step_sim`,
      `redb_step_sim`, which hold for any oracle).

  `L` is then instantiated with the TIME-INDEPENDENT part of C02's acceptance condition for
  adjacent headers (`Linked`), and with `Linked` + "time below the latest clock reading + 10 s".
-/
import Lumina.Proofs.StoreHist
import Lumina.Props.C02

open Lumina.Model.Store Lumina.Spec.C19
open Lumina.Model
open Lumina.Proofs.Store

namespace Lumina.Proofs.ComposeStoreVerify

/-! ## the abstraction between the two header records -/

/-- content of an abstract store header in the vocabulary of the verification model -/
structure Content where
  /-- the fields `verify` reads, for the header the abstract record stands for -/
  c : Hdr → HeaderVerify.Hdr
  /-- both records carry `header.height` -/
  height_eq : ∀ x, (c x).height = x.height

/-- the abstract `hash` (an opaque number) is the hash of the content: headers whose contents have
    the same `hash()` have the same abstract hash (needed only for the parent-lookup corollary) -/
def Content.HashFaithful (C : Content) : Prop :=
  ∀ x y, (C.c x).hash = (C.c y).hash → x.hash = y.hash

/-- the CONCRETE linkage conditions of C02 for adjacent headers, without the clock: height + 1,
    same chain id, strictly later time, `validators_hash = trusted.next_validators_hash`,
    `last_block_id.hash = trusted.hash` -/
def Linked (t u : HeaderVerify.Hdr) : Prop :=
  u.height = t.height + 1 ∧ u.chainId = t.chainId ∧ t.time < u.time ∧
    u.validatorsHash = t.nextValidatorsHash ∧ u.lastHeaderHash = t.hash

instance (t u : HeaderVerify.Hdr) : Decidable (Linked t u) := by unfold Linked; infer_instance

/-- the oracle the C02 model defines at clock reading `now` (`sig a b` = the signature oracle of
    trusting verification for that pair; not consulted for adjacent headers) -/
def verifyAt (C : Content) (sig : Hdr → Hdr → HeaderVerify.Oracle) (now : Int) : Hdr → Hdr → Bool :=
  fun a b => decide (Lumina.Props.C02.verifyM (sig a b) now (C.c a) (C.c b) = .ok)

/-- every `true` of the oracle `w` is an `Ok` of the real check at some clock reading `≤ N` -/
def ClockSoundBelow (C : Content) (sig : Hdr → Hdr → HeaderVerify.Oracle) (N : Int)
    (w : Hdr → Hdr → Bool) : Prop :=
  ∀ a b, w a b = true → ∃ now : Int, now ≤ N ∧ verifyAt C sig now a b = true

/-- every `true` of the oracle `w` is an `Ok` of the real check at some clock reading -/
def ClockSound (C : Content) (sig : Hdr → Hdr → HeaderVerify.Oracle) (w : Hdr → Hdr → Bool) : Prop :=
  ∀ a b, w a b = true → ∃ now : Int, verifyAt C sig now a b = true

theorem verifyAt_clockSound (C : Content) (sig : Hdr → Hdr → HeaderVerify.Oracle) (now : Int) :
    ClockSound C sig (verifyAt C sig now) := fun _ _ h => ⟨now, h⟩

theorem verifyAt_clockSoundBelow (C : Content) (sig : Hdr → Hdr → HeaderVerify.Oracle) (now N : Int)
    (h : now ≤ N) : ClockSoundBelow C sig N (verifyAt C sig now) := fun _ _ hw => ⟨now, h, hw⟩

/-- what an `Ok` of the C02 model means for ADJACENT abstract headers (from `verify_ok_iff`) -/
theorem verifyAt_adjacent {C : Content} {sig : Hdr → Hdr → HeaderVerify.Oracle} {now : Int} {a b : Hdr}
    (h : verifyAt C sig now a b = true) (hadj : a.height + 1 = b.height) :
    Linked (C.c a) (C.c b) ∧ (C.c b).time < now + 10000000000 := by
  have hv : Lumina.Props.C02.verifyM (sig a b) now (C.c a) (C.c b) = .ok := of_decide_eq_true h
  obtain ⟨_, h2, h3, h4, h5⟩ := (Lumina.Props.C02.verify_ok_iff _ _ _ _).1 hv
  have e : (C.c a).height + 1 = (C.c b).height := by rw [C.height_eq, C.height_eq]; exact hadj
  rw [if_pos e] at h5
  exact ⟨⟨e.symm, h2, h3, h5.1, h5.2⟩, h4⟩

/-- conversely (C02's `verify_adjacent_exact` direction): linked adjacent headers whose time is
    below `now + 10 s` are accepted -/
theorem verifyAt_of_linked {C : Content} {sig : Hdr → Hdr → HeaderVerify.Oracle} {now : Int} {a b : Hdr}
    (hl : Linked (C.c a) (C.c b)) (ht : (C.c b).time < now + 10000000000) :
    verifyAt C sig now a b = true := by
  obtain ⟨h1, h2, h3, h4, h5⟩ := hl
  apply decide_eq_true
  rw [Lumina.Props.C02.verify_ok_iff]
  refine ⟨by omega, h2, h3, ht, ?_⟩
  rw [if_pos h1.symm]
  exact ⟨h4, h5⟩

/-! ## the chain invariant with two oracles -/

/-- on adjacent headers the operation's oracle `w` implies the relation `L` -/
def SoundFor (L w : Hdr → Hdr → Bool) : Prop :=
  ∀ a b, a.height + 1 = b.height → w a b = true → L a b = true

theorem chainOK_mono {L w : Hdr → Hdr → Bool} (h : SoundFor L w) :
    ∀ l : List Hdr, chainOK w l = true → chainOK L l = true
  | [], _ => rfl
  | [_], _ => rfl
  | a :: b :: rest, hc => by
    simp only [chainOK, Bool.and_eq_true, beq_iff_eq] at hc ⊢
    exact ⟨⟨hc.1.1, h a b hc.1.1 hc.1.2⟩, chainOK_mono h (b :: rest) hc.2⟩

theorem atHeight_height {a : AbsStore} {h : Nat} {p : Hdr} (hp : a.atHeight h = some p) : p.height = h := by
  unfold AbsStore.atHeight at hp
  simpa using List.find?_some hp

theorem insertOK_mono {L w : Hdr → Hdr → Bool} (h : SoundFor L w) {a : AbsStore} {batch : List Hdr}
    {first last : Hdr} (ok : InsertOK w a batch first last) : InsertOK L a batch first last where
  hd := ok.hd
  lst := ok.lst
  chain := chainOK_mono h batch ok.chain
  lo_pos := ok.lo_pos
  lo_le := ok.lo_le
  disjoint := ok.disjoint
  prev := fun p hp => h p first (by have := atHeight_height hp; have := ok.lo_pos; omega) (ok.prev p hp)
  next := fun n hn => h last n (by have := atHeight_height hn; omega) (ok.next n hn)
  nodup := ok.nodup

/-- an insertion decided with oracle `w` keeps "consecutive stored headers are `L`-related" -/
theorem insert_ver2 {L w : Hdr → Hdr → Bool} (h : SoundFor L w) (a : AbsStore) (batch : List Hdr)
    (hi : AbsInv a) (hv : AbsVer L a) : AbsVer L (a.insert w batch).1 := by
  cases hc : AbsStore.insertCheck w a batch with
  | error e => simp only [AbsStore.insert, hc]; exact hv
  | ok o =>
    cases o with
    | none => simp only [AbsStore.insert, hc]; exact hv
    | some p =>
      obtain ⟨lo, hi'⟩ := p
      rw [insert_eq_added w a batch lo hi' hc]
      obtain ⟨first, last, ok, e1, e2⟩ := insertCheck_some w a batch lo hi' hc
      subst e1 e2
      exact added_ver L a batch first last (insertOK_mono h ok) hi hv

theorem abs_step_ver2 {L w : Hdr → Hdr → Bool} (h : SoundFor L w) (a : AbsStore) (op : Op)
    (hi : AbsInv a) (hv : AbsVer L a) : AbsVer L (AbsStore.step w a op).1 := by
  cases op with
  | insert batch => exact insert_ver2 h a batch hi hv
  | remove k => exact remove_ver L a k hv
  | mark k =>
    intro x hx y hy e
    simp only [AbsStore.step, mark_hdrs] at hx hy
    exact hv x hx y hy e
  | updMeta k c =>
    intro x hx y hy e
    simp only [AbsStore.step, updateMeta_hdrs] at hx hy
    exact hv x hx y hy e
  | _ => exact hv

/-! ## histories in which every operation has its own oracle -/

/-- an operation together with the verification oracle in force while it runs -/
abbrev VOp := (Hdr → Hdr → Bool) × Op

/-- run a history; operation `i` is executed with its own oracle -/
def runOpsV {σ : Type} (step : (Hdr → Hdr → Bool) → σ → Op → σ × Res) : σ → List VOp → σ × List Res
  | s, [] => (s, [])
  | s, (w, op) :: rest =>
    let (s1, r) := step w s op
    let (s2, rs) := runOpsV step s1 rest
    (s2, r :: rs)

theorem runOpsV_cons {σ : Type} (step : (Hdr → Hdr → Bool) → σ → Op → σ × Res) (s : σ)
    (w : Hdr → Hdr → Bool) (op : Op) (rest : List VOp) :
    runOpsV step s ((w, op) :: rest) =
      ((runOpsV step (step w s op).1 rest).1, (step w s op).2 :: (runOpsV step (step w s op).1 rest).2) := rfl

/-- with the same oracle for every operation this is the `runOps` of C19 / C21 -/
theorem runOpsV_const {σ : Type} (step : (Hdr → Hdr → Bool) → σ → Op → σ × Res) (v : Hdr → Hdr → Bool) :
    ∀ (ops : List Op) (s : σ), runOpsV step s (ops.map (fun op => (v, op))) = runOps (step v) s ops
  | [], _ => rfl
  | op :: rest, s => by
    rw [List.map_cons, runOpsV_cons, runOpsV_const step v rest, runOps_cons]

def AllWfV (ops : List VOp) : Prop := ∀ p ∈ ops, p.2.wf = true
def AllValidatedV (ops : List VOp) : Prop := ∀ p ∈ ops, p.2.validated = true
def AllSoundFor (L : Hdr → Hdr → Bool) (ops : List VOp) : Prop := ∀ p ∈ ops, SoundFor L p.1

theorem absV_run_inv {L : Hdr → Hdr → Bool} : ∀ (ops : List VOp) (a : AbsStore), AllWfV ops →
    AllSoundFor L ops → AbsInv a → AbsVer L a →
      AbsInv (runOpsV AbsStore.step a ops).1 ∧ AbsVer L (runOpsV AbsStore.step a ops).1
  | [], _, _, _, hi, hv => ⟨hi, hv⟩
  | (w, op) :: rest, a, hw, hs, hi, hv => by
    rw [runOpsV_cons]
    exact absV_run_inv rest _ (fun p hp => hw p (List.mem_cons_of_mem _ hp))
      (fun p hp => hs p (List.mem_cons_of_mem _ hp))
      (abs_step_inv w a op hi (hw (w, op) (by simp)))
      (abs_step_ver2 (hs (w, op) (by simp)) a op hi hv)

theorem absV_run_storedValid : ∀ (ops : List VOp) (a : AbsStore), AllValidatedV ops → StoredValid a →
    StoredValid (runOpsV AbsStore.step a ops).1
  | [], _, _, hs => hs
  | (w, op) :: rest, a, hv, hs => by
    rw [runOpsV_cons]
    exact absV_run_storedValid rest _ (fun p hp => hv p (List.mem_cons_of_mem _ hp))
      (abs_step_storedValid w a op hs (hv (w, op) (by simp)))

/-- forward simulation of the in-memory store along a clocked history -/
theorem memV_run_sim : ∀ (ops : List VOp) (m : MemStore) (a : AbsStore), AllWfV ops → Rm m a → AbsInv a →
    (runOpsV MemStore.step m ops).2 = (runOpsV AbsStore.step a ops).2 ∧
    Rm (runOpsV MemStore.step m ops).1 (runOpsV AbsStore.step a ops).1
  | [], _, _, _, r, _ => ⟨rfl, r⟩
  | (w, op) :: rest, m, a, hw, r, hi => by
    rw [runOpsV_cons, runOpsV_cons]
    have hop := hw (w, op) (by simp)
    obtain ⟨e, r', _⟩ := mem_step_sim r hi w op hop
    obtain ⟨e2, r2⟩ := memV_run_sim rest _ _ (fun p hp => hw p (List.mem_cons_of_mem _ hp)) r'
      (abs_step_inv w a op hi hop)
    exact ⟨by simp only [e, e2], r2⟩

/-- forward simulation of the redb store along a clocked history of validated insertions -/
theorem redbV_run_sim : ∀ (ops : List VOp) (t : Tables) (a : AbsStore), AllWfV ops → AllValidatedV ops →
    Rr t a → AbsInv a → StoredValid a →
    (runOpsV RedbStore.step t ops).2 = (runOpsV AbsStore.step a ops).2 ∧
    Rr (runOpsV RedbStore.step t ops).1 (runOpsV AbsStore.step a ops).1
  | [], _, _, _, _, r, _, _ => ⟨rfl, r⟩
  | (w, op) :: rest, t, a, hw, hval, r, hi, hs => by
    rw [runOpsV_cons, runOpsV_cons]
    have hop := hw (w, op) (by simp)
    obtain ⟨e, r'⟩ := redb_step_sim r hi hs w op hop
    obtain ⟨e2, r2⟩ := redbV_run_sim rest _ _ (fun p hp => hw p (List.mem_cons_of_mem _ hp))
      (fun p hp => hval p (List.mem_cons_of_mem _ hp)) r' (abs_step_inv w a op hi hop)
      (abs_step_storedValid w a op hs (hval (w, op) (by simp)))
    exact ⟨by simp only [e, e2], r2⟩

/-! ## the two instances of `L` -/

/-- `L` := the clock-free linkage -/
def linkB (C : Content) : Hdr → Hdr → Bool := fun a b => decide (Linked (C.c a) (C.c b))

/-- `L` := linkage + "the upper header's time is below `N + 10 s`" -/
def linkBelowB (C : Content) (N : Int) : Hdr → Hdr → Bool :=
  fun a b => decide (Linked (C.c a) (C.c b) ∧ (C.c b).time < N + 10000000000)

theorem soundFor_link {C : Content} {sig : Hdr → Hdr → HeaderVerify.Oracle} {w : Hdr → Hdr → Bool}
    (h : ClockSound C sig w) : SoundFor (linkB C) w := by
  intro a b hadj hw
  obtain ⟨now, hn⟩ := h a b hw
  exact decide_eq_true (verifyAt_adjacent hn hadj).1

theorem soundFor_linkBelow {C : Content} {sig : Hdr → Hdr → HeaderVerify.Oracle} {N : Int}
    {w : Hdr → Hdr → Bool} (h : ClockSoundBelow C sig N w) : SoundFor (linkBelowB C N) w := by
  intro a b hadj hw
  obtain ⟨now, hle, hn⟩ := h a b hw
  obtain ⟨h1, h2⟩ := verifyAt_adjacent hn hadj
  exact decide_eq_true ⟨h1, by omega⟩

/-- reading the invariant off a state of the in-memory store -/
theorem mem_pair {m : MemStore} {a : AbsStore} (r : Rm m a) (hi : AbsInv a) {L : Hdr → Hdr → Bool}
    (hv : AbsVer L a) (h : Nat) (x y : Hdr)
    (hx : m.getByHeight h = .ok x) (hy : m.getByHeight (h + 1) = .ok y) : L x y = true := by
  have := mem_chain r hi L hv h x y hx hy
  unfold verifyAdjacent at this
  split at this
  · cases this
  · exact this

/-- reading the invariant off a state of the redb store -/
theorem redb_pair {t : Tables} {a : AbsStore} (r : Rr t a) (hi : AbsInv a) {L : Hdr → Hdr → Bool}
    (hv : AbsVer L a) (h : Nat) (x y : Hdr)
    (hx : RedbStore.getByHeight t h = .ok x) (hy : RedbStore.getByHeight t (h + 1) = .ok y) :
    L x y = true := by
  have := redb_chain r hi L hv h x y hx hy
  unfold verifyAdjacent at this
  split at this
  · cases this
  · exact this

end Lumina.Proofs.ComposeStoreVerify

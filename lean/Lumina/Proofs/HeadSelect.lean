/-
  Helper lemmas for C31 (best-head selection).
-/
import Lumina.Model.HeadSelect
import Lumina.Spec.C31

namespace Lumina.Proofs.HeadSelect
open Lumina.Util Lumina.Model.HeadSelect

def toSpec (h : Hdr) : Lumina.Spec.C31.Hdr := { height := h.height, hash := h.hash }

/-- Prop form of the key order -/
theorem keyLt_iff (rs : List Hdr) (a b : Hdr) :
    keyLt rs a b = true ↔ a.height < b.height ∨ (a.height = b.height ∧ votes rs a < votes rs b) := by
  simp [keyLt]

theorem keyLt_false_iff (rs : List Hdr) (a b : Hdr) :
    keyLt rs a b = false ↔ b.height < a.height ∨ (a.height = b.height ∧ votes rs b ≤ votes rs a) := by
  rw [← Bool.not_eq_true, keyLt_iff]
  omega

theorem insertDesc_perm (rs : List Hdr) (x : Hdr) : ∀ l, (insertDesc rs x l).Perm (x :: l) := by
  intro l
  induction l with
  | nil => exact List.Perm.refl _
  | cons y ys ih =>
    unfold insertDesc
    split
    · exact List.Perm.refl _
    · exact (List.Perm.cons y ih).trans (List.Perm.swap x y ys)

theorem foldl_insert_perm (rs : List Hdr) : ∀ (l acc : List Hdr),
    (l.foldl (fun sorted x => insertDesc rs x sorted) acc).Perm (acc ++ l) := by
  intro l
  induction l with
  | nil => intro acc; simp
  | cons x xs ih =>
    intro acc
    simp only [List.foldl_cons]
    refine (ih (insertDesc rs x acc)).trans ?_
    have h1 : (insertDesc rs x acc ++ xs).Perm ((x :: acc) ++ xs) := List.Perm.append_right xs (insertDesc_perm rs x acc)
    refine h1.trans ?_
    simp only [List.cons_append]
    exact (List.perm_middle (l₁ := acc) (a := x) (l₂ := xs)).symm

theorem sortDesc_perm (rs : List Hdr) : (sortDesc rs).Perm rs := by
  have := foldl_insert_perm rs rs []
  simpa [sortDesc] using this

/-- sorted by descending key: nothing later has a strictly greater key -/
def Sorted (rs : List Hdr) (l : List Hdr) : Prop := l.Pairwise (fun a b => keyLt rs a b = false)

theorem insertDesc_sorted (rs : List Hdr) (x : Hdr) : ∀ l, Sorted rs l → Sorted rs (insertDesc rs x l) := by
  intro l
  induction l with
  | nil => intro _; simp [insertDesc, Sorted]
  | cons y ys ih =>
    intro hs
    unfold Sorted at hs
    rw [List.pairwise_cons] at hs
    unfold insertDesc
    by_cases hk : keyLt rs y x = true
    · simp only [hk, ↓reduceIte]
      unfold Sorted
      rw [List.pairwise_cons, List.pairwise_cons]
      refine ⟨?_, hs.1, hs.2⟩
      intro z hz
      rw [keyLt_iff] at hk
      rcases List.mem_cons.mp hz with rfl | hz
      · rw [keyLt_false_iff]; omega
      · have := hs.1 z hz
        rw [keyLt_false_iff] at this ⊢
        omega
    · simp only [hk, Bool.false_eq_true, ↓reduceIte]
      unfold Sorted
      rw [List.pairwise_cons]
      refine ⟨?_, ih hs.2⟩
      intro z hz
      rcases List.mem_cons.mp ((insertDesc_perm rs x ys).mem_iff.mp hz) with rfl | hz
      · simpa using hk
      · exact hs.1 z hz

theorem foldl_insert_sorted (rs : List Hdr) : ∀ (l acc : List Hdr), Sorted rs acc →
    Sorted rs (l.foldl (fun sorted x => insertDesc rs x sorted) acc) := by
  intro l
  induction l with
  | nil => intro acc h; exact h
  | cons x xs ih => intro acc h; exact ih _ (insertDesc_sorted rs x acc h)

theorem sortDesc_sorted (rs : List Hdr) : Sorted rs (sortDesc rs) :=
  foldl_insert_sorted rs rs [] List.Pairwise.nil

/-- the head of a sorted list dominates every element -/
theorem sorted_head (rs : List Hdr) (h : Hdr) (t : List Hdr) (hs : Sorted rs (h :: t)) :
    ∀ x ∈ h :: t, x.height ≤ h.height := by
  intro x hx
  rcases List.mem_cons.mp hx with rfl | hx
  · exact Nat.le_refl _
  · have := (List.pairwise_cons.mp hs).1 x hx
    rw [keyLt_false_iff] at this
    omega

end Lumina.Proofs.HeadSelect

namespace Lumina.Proofs.HeadSelect
open Lumina.Util Lumina.Model.HeadSelect
open Lumina.Spec.C31 (specBestHead)

/-- the rule, on the model's own types -/
def Rule (rs : List Hdr) (h : Hdr) : Prop :=
  h ∈ rs ∧
  ((∃ x ∈ rs, votes rs x ≥ 2) → votes rs h ≥ 2 ∧ ∀ x ∈ rs, votes rs x ≥ 2 → x.height ≤ h.height) ∧
  ((¬ ∃ x ∈ rs, votes rs x ≥ 2) → ∀ x ∈ rs, x.height ≤ h.height)

theorem bestHead_none (as : List Ans) : bestHead as = none ↔ valid as = [] := by
  unfold bestHead
  cases hv : valid as with
  | nil => simp
  | cons a t =>
    simp only [List.isEmpty_cons, Bool.false_eq_true, ↓reduceIte]
    have hp := sortDesc_perm (a :: t)
    cases hs : sortDesc (a :: t) with
    | nil => rw [hs] at hp; simp at hp
    | cons s ss =>
      simp only [List.head?_cons]
      constructor
      · intro h; split at h <;> simp at h
      · intro h; simp at h

theorem bestHead_rule (as : List Ans) (h : Hdr) (hb : bestHead as = some h) : Rule (valid as) h := by
  unfold bestHead at hb
  generalize hrs : valid as = rs at hb
  cases rs with
  | nil => simp at hb
  | cons a t =>
    simp only [List.isEmpty_cons, Bool.false_eq_true, ↓reduceIte] at hb
    have hp := sortDesc_perm (a :: t)
    have hsd := sortDesc_sorted (a :: t)
    generalize hso : sortDesc (a :: t) = sorted at hb hp hsd
    cases hf : sorted.find? (fun r => decide (votes (a :: t) r ≥ MIN_HEAD_RESPONSES)) with
    | some w =>
      rw [hf] at hb
      simp only [Option.some.injEq] at hb
      subst hb
      obtain ⟨hpw, pre, post, hsplit, hpre⟩ := List.find?_eq_some_iff_append.mp hf
      have hw2 : votes (a :: t) w ≥ 2 := by simpa [MIN_HEAD_RESPONSES] using hpw
      have hwmem : w ∈ a :: t := hp.mem_iff.mp (by rw [hsplit]; simp)
      refine ⟨hwmem, fun _ => ⟨hw2, ?_⟩, fun hno => absurd ⟨w, hwmem, hw2⟩ hno⟩
      intro x hx hx2
      have hxs : x ∈ sorted := hp.mem_iff.mpr hx
      rw [hsplit] at hxs hsd
      rcases List.mem_append.mp hxs with hxpre | hxpost
      · have := hpre x hxpre
        simp [MIN_HEAD_RESPONSES] at this
        omega
      · have hs2 : Sorted (a :: t) (w :: post) := (List.pairwise_append.mp hsd).2.1
        exact sorted_head (a :: t) w post hs2 x hxpost
    | none =>
      rw [hf] at hb
      simp only at hb
      cases sorted with
      | nil => simp at hb
      | cons s ss =>
        simp only [List.head?_cons, Option.some.injEq] at hb
        subst hb
        have hnone := List.find?_eq_none.mp hf
        have hsmem : s ∈ a :: t := hp.mem_iff.mp (by simp)
        refine ⟨hsmem, fun ⟨x, hx, hx2⟩ => ?_, fun _ x hx => ?_⟩
        · have := hnone x (hp.mem_iff.mpr hx)
          simp [MIN_HEAD_RESPONSES] at this
          omega
        · exact sorted_head (a :: t) s ss hsd x (hp.mem_iff.mpr hx)

theorem votes_map (rs : List Hdr) (h : Hdr) :
    Lumina.Spec.C31.votes (rs.map toSpec) (toSpec h) = votes rs h := by
  unfold Lumina.Spec.C31.votes votes
  rw [List.countP_map]
  rfl

theorem toSpec_injective : Function.Injective toSpec := by
  intro a b h
  cases a; cases b
  simp [toSpec] at h
  simp [h]

/-- the Prop-level rule implies the decidable spec -/
theorem spec_of_rule (rs : List Hdr) (h : Hdr) (hr : Rule rs h) :
    specBestHead (rs.map toSpec) (some (toSpec h)) = true := by
  obtain ⟨hmem, h2, hno⟩ := hr
  unfold specBestHead
  simp only [Bool.and_eq_true, List.contains_eq_mem, decide_eq_true_eq]
  refine ⟨List.mem_map_of_mem hmem, ?_⟩
  by_cases hex : ∃ x ∈ rs, votes rs x ≥ 2
  · have hany : (rs.map toSpec).any (fun x => decide (Lumina.Spec.C31.votes (rs.map toSpec) x ≥ 2)) = true := by
      obtain ⟨x, hx, hx2⟩ := hex
      rw [List.any_eq_true]
      exact ⟨toSpec x, List.mem_map_of_mem hx, by rw [votes_map]; exact decide_eq_true hx2⟩
    rw [if_pos hany]
    obtain ⟨hv, hall⟩ := h2 hex
    simp only [Bool.and_eq_true, decide_eq_true_eq, List.all_eq_true, List.mem_map]
    refine ⟨by rw [votes_map]; exact hv, ?_⟩
    rintro x' ⟨x, hx, rfl⟩
    rw [votes_map]
    intro hx2
    exact hall x hx hx2
  · have hany : ¬ (rs.map toSpec).any (fun x => decide (Lumina.Spec.C31.votes (rs.map toSpec) x ≥ 2)) = true := by
      rw [List.any_eq_true]
      rintro ⟨x', hx', hv⟩
      obtain ⟨x, hx, rfl⟩ := List.mem_map.mp hx'
      rw [votes_map] at hv
      exact hex ⟨x, hx, of_decide_eq_true hv⟩
    rw [if_neg hany]
    simp only [List.all_eq_true, List.mem_map, decide_eq_true_eq]
    rintro x' ⟨x, hx, rfl⟩
    exact hno hex x hx

theorem rule_perm (rs rs' : List Hdr) (hp : rs.Perm rs') (h : Hdr) (hr : Rule rs h) : Rule rs' h := by
  have hv : ∀ x, votes rs x = votes rs' x := fun x => hp.countP_eq _
  obtain ⟨hmem, h2, hno⟩ := hr
  refine ⟨hp.mem_iff.mp hmem, ?_, ?_⟩
  · rintro ⟨x, hx, hx2⟩
    obtain ⟨a, b⟩ := h2 ⟨x, hp.mem_iff.mpr hx, by rw [hv]; exact hx2⟩
    exact ⟨by rw [← hv]; exact a, fun y hy hy2 => b y (hp.mem_iff.mpr hy) (by rw [hv]; exact hy2)⟩
  · intro hne y hy
    exact hno (fun ⟨x, hx, hx2⟩ => hne ⟨x, hp.mem_iff.mp hx, by rw [← hv]; exact hx2⟩) y (hp.mem_iff.mpr hy)

/-- two heads allowed by the rule have the same height and agree on "reported by >= 2 peers" -/
theorem rule_unique (rs : List Hdr) (a b : Hdr) (ha : Rule rs a) (hb : Rule rs b) :
    a.height = b.height ∧ (votes rs a ≥ 2 ↔ votes rs b ≥ 2) := by
  obtain ⟨am, a2, an⟩ := ha
  obtain ⟨bm, b2, bn⟩ := hb
  by_cases hex : ∃ x ∈ rs, votes rs x ≥ 2
  · obtain ⟨av, aall⟩ := a2 hex
    obtain ⟨bv, ball⟩ := b2 hex
    have := aall b bm bv
    have := ball a am av
    exact ⟨by omega, by simp [av, bv]⟩
  · have h1 := an hex b bm
    have h2 := bn hex a am
    refine ⟨by omega, ?_⟩
    constructor
    · intro h; exact absurd ⟨a, am, h⟩ hex
    · intro h; exact absurd ⟨b, bm, h⟩ hex

theorem valid_perm (as as' : List Ans) (hp : as.Perm as') : (valid as).Perm (valid as') :=
  hp.filterMap _

end Lumina.Proofs.HeadSelect

/-
  COMPOSITION C38 × C35 (strengthening round S7), part 3: the `prune` events of
  `Proofs/ComposeSyncerPrune.lean` are exactly what the pruner model of C35 produces.

  `PruneSafe` (the admissibility condition of a removal in the composed syncer/pruner runs) is
  implied by the conclusion of `Lumina.Props.C35.batch_safe_partial` for every height of every batch
  `get_next_prunable_batch` returns, when the pruner's view of the store (`PStore`: the three
  `BlockRanges`, header times) and the syncer model's view (`AbsStore`, time classes `oldS` / `oldP`)
  describe the same store and the same cutoffs.  The regime hypotheses of the convergence theorem
  follow from `pc ≤ sc` (pruning window at least the sampling window) and `ChainMono`.
-/
import Lumina.Proofs.ComposeSyncerPrune
import Lumina.Props.C35

namespace Lumina.Proofs.ComposeSyncerPrune
open Lumina.Model.Ranges (mem Ranges)
open Lumina.Model.Pruner Lumina.Proofs.Pruner
open Lumina.Spec.C19 (AbsStore)
open Lumina.Model.SyncerLoop (Env)

/-- the pruner's store view and the syncer model's store describe the same store and cutoffs -/
structure SameStore (ps : PStore) (sc pc : Nat) (e : Env) (a : AbsStore) : Prop where
  stored : ∀ h, mem ps.stored h ↔ a.stored h = true
  pruned : ∀ h, mem ps.pruned h ↔ h ∈ a.pruned
  oldS : ∀ h, e.chain.oldS h = decide (ps.time h ≤ sc)
  oldP : ∀ h, e.chain.oldP h = decide (ps.time h ≤ pc)

/-- **Every height of every batch the pruner computes is an admissible removal** of the composed
    runs (C35's `batch_safe` ⇒ `PruneSafe`). -/
theorem pruner_batch_height_is_prune_safe (limit : Nat) (ps : PStore) (w : Worker) (sc pc : Nat)
    (refresh : Bool) (grant : Nat → Bool) (hs : StoreInv ps) (hm : ChainMono ps.time)
    (hc : CacheOK ps.time w.cache sc pc) (batch : Ranges) (w' : Worker) (msgs : List Msg)
    (hres : getNextPrunableBatch limit ps w sc pc refresh grant = .ok (batch, w', msgs))
    (e : Env) (a : AbsStore) (hsame : SameStore ps sc pc e a) (h : Nat) (hmem : mem batch h) :
    PruneSafe e a h := by
  obtain ⟨k1, k2, k3, _⟩ := Lumina.Props.C35.batch_safe_partial limit ps w sc pc refresh grant hs hm hc batch w' msgs
    hres h hmem
  have hsy : ∀ x, (mem ps.stored x ∨ mem ps.pruned x) → syncedB a x = true := by
    intro x hx
    rw [synced_iff]
    rcases hx with hx | hx
    · exact Or.inl ((hsame.stored x).1 hx)
    · exact Or.inr ((hsame.pruned x).1 hx)
  refine ⟨(hsame.stored h).1 k1, by rw [hsame.oldP]; exact decide_eq_true k2, ?_⟩
  rcases k3 with ⟨k4, _⟩ | ⟨_, k5⟩
  · left; rw [hsame.oldS]; exact decide_eq_true k4
  · right
    unfold BordersGap at k5
    refine ⟨hsy _ ?_, hsy _ ?_⟩
    · apply Classical.byContradiction; intro hn; exact k5 (Or.inl hn)
    · apply Classical.byContradiction; intro hn; exact k5 (Or.inr hn)

/-- the regime hypotheses of the convergence theorem, from the cutoffs: the pruning cutoff is not
    later than the sampling cutoff (pruning window ≥ sampling window), header times increase -/
theorem regime_of_cutoffs (ps : PStore) (sc pc : Nat) (e : Env) (a : AbsStore)
    (hsame : SameStore ps sc pc e a) (hm : ChainMono ps.time) (h0 : ps.time 0 ≤ ps.time 1)
    (hcut : pc ≤ sc) :
    (∀ h, e.chain.oldP h = true → e.chain.oldS h = true) ∧
    (∀ h1 h2, h1 ≤ h2 → e.chain.oldS h2 = true → e.chain.oldS h1 = true) := by
  constructor
  · intro h hp
    rw [hsame.oldP] at hp
    rw [hsame.oldS]
    have := of_decide_eq_true hp
    exact decide_eq_true (by omega)
  · intro h1 h2 hle ho
    rw [hsame.oldS] at ho ⊢
    have h2le := of_decide_eq_true ho
    apply decide_eq_true
    by_cases hz : h1 = 0
    · subst hz
      by_cases hz2 : h2 = 0
      · subst hz2; exact h2le
      · have := hm.le (a := 1) (b := h2) (Nat.le_refl _) (by omega)
        omega
    · have := hm.le (a := h1) (b := h2) (by omega) hle
      omega

end Lumina.Proofs.ComposeSyncerPrune

/-
  Lemmas for C07 (`BadEncodingFraudProof::validate`, fixed code): what the per-share proof loop establishes, the
  reconstruction of an erased codeword, the rebuilt tree of an honest axis.
  Owner: group D2.
-/
import Lumina.Proofs.EdsCodeword
import Lumina.Model.Befp
import Lumina.Props.C14

namespace Lumina.Proofs.Befp
open Lumina.Util Lumina.Model.Nmt Lumina.Model.Eds Lumina.Model.EdsCode Lumina.Model.Befp
open Lumina.Model.Decoders (Befp ShareWithProof)
open Lumina.Proofs.Nmt Lumina.Proofs.Eds Lumina.Proofs.EdsCode Lumina.Proofs.EdsExtend Lumina.Proofs.EdsLinear
open Lumina.Spec.C08 (erase)

/-- `Namespace::from_raw` returns the bytes it was given -/
theorem fromRaw_eq {bs n : Bytes} (h : Lumina.Model.Namespace.fromRaw bs = .ok n) : n = bs := by
  have := Lumina.Props.C14.fromRaw_spec bs
  rw [h] at this
  simp only [Lumina.Props.C14.obsOf, Lumina.Spec.C14.specFromRaw, Bool.and_eq_true, beq_iff_eq] at this
  exact this.2

theorem luminaVerifyRange_ok' {H : HashFn} {p : NsProof} {root : NsHash} {l : List Bytes} {ns : Bytes}
    (h : luminaVerifyRange H p root l ns = .ok ()) : verifyRange H p root l ns = .ok () := by
  unfold luminaVerifyRange at h
  cases hv : validateShape p ns ns with
  | error e => simp [hv] at h
  | ok u => simpa [hv] using h

/-- the byte strings hashed when one share-with-proof is checked: the leaf preimage and the inner nodes of the range-proof
    verification -/
def shareInputs (H : HashFn) (s : ShareWithProof) : List Bytes :=
  leafInput s.ns s.share :: proofInputs H s.proof.ignoreMaxNs [hashLeaf H s.ns s.share] s.proof.siblings s.proof.start

/-- the byte strings hashed by the per-share loop of `validate` for this proof -/
def befpInputs (H : HashFn) (shares : List (Option ShareWithProof)) : List Bytes :=
  shares.flatMap (fun o => match o with | some s => shareInputs H s | none => [])

theorem shareInputs_mem {H : HashFn} {shares : List (Option ShareWithProof)} {s : ShareWithProof} (hs : some s ∈ shares)
    {y : Bytes} (hy : y ∈ shareInputs H s) : y ∈ befpInputs H shares :=
  List.mem_flatMap.mpr ⟨some s, hs, hy⟩

/-- an accepted single-leaf range proof for the leaf `(ns, d)` at index `i` of an axis tree of a square: the square
    has exactly that leaf there — assuming no collision among the inputs hashed for that axis tree (`axisInputs`), the
    leaf preimage and the inputs hashed by the verification of the proof -/
theorem axis_leaf_bound_ns {H : HashFn} {S : Bytes → Prop} (hk : HashOKOn H S) {e : Eds} {j : Nat} (hw : e.width = 2 ^ j)
    (hsz : ∀ sh ∈ e.shares, NS_SIZE ≤ sh.data.length) {ax : Axis} {index i : Nat} {root : NsHash}
    (hroot : e.axisRoot H ax index = .ok root) (hi : i < e.width)
    {ns d : Bytes} {proof : NsProof} (hns : ns.length = NS_SIZE) (hsib : ∀ p ∈ proof.siblings, p.WF)
    (hA : ∀ y ∈ axisInputs H e ax index, S y) (hLf : S (leafInput ns d))
    (hV : ∀ y ∈ proofInputs H proof.ignoreMaxNs [hashLeaf H ns d] proof.siblings proof.start, S y)
    (hv : verifyRange H proof root [d] ns = .ok ()) (hst : proof.start = i) :
    ∃ sh, e.share? (axisCoord ax index i).1 (axisCoord ax index i).2 = some sh ∧ sh.data = d ∧ sh.ns = ns := by
  obtain ⟨shares, hax, hcr, _⟩ := axisRoot_ok hroot
  obtain ⟨hlen, hget⟩ := axis?_some hax
  obtain ⟨sh, hsh, hshi⟩ := hget i hi
  refine ⟨sh, hsh, ?_⟩
  have hmem : ∀ x ∈ shares, x ∈ e.shares := by
    intro x hx
    obtain ⟨n, hn, rfl⟩ := List.getElem_of_mem hx
    obtain ⟨y, hy1, hy2⟩ := hget n (by omega)
    rw [List.getElem?_eq_getElem hn] at hy2
    injection hy2 with hy2
    rw [hy2]
    exact List.mem_of_getElem? hy1
  have al : AllLeafOn H S (shares.map (Share.leafHash H)) :=
    (axis_allLeafOn hax (fun sh hs => hsz sh (hmem sh hs))).mono hA
  have lx : IsLeafOn H S (hashLeaf H ns d) := ⟨_, _, hns, rfl, hLf⟩
  have hT : ∀ y ∈ rootInputs H true ((shares.map (Share.leafHash H)).length + 1) (shares.map (Share.leafHash H)), S y :=
    fun y hy => hA y (axis_rootInputs_mem hax hy)
  have hshmem : sh ∈ shares := List.mem_of_getElem? hshi
  unfold verifyRange at hv
  split at hv
  · cases hv
  · split at hv
    · cases hv
    · simp only [List.map_cons, List.map_nil] at hv
      rw [hst] at hv hV
      have hL : (shares.map (Share.leafHash H)).length = 2 ^ j := by simp [hlen, hw]
      have hik : i < 2 ^ j := by omega
      have := checkRangeProof_single_sound_on hk al hL hcr lx hsib hik hV hT hv
      rw [List.getElem?_map, hshi] at this
      simp only [Option.map_some, Option.some.injEq, Share.leafHash] at this
      have hnse : sh.ns = ns := congrArg NsHash.minNs this
      have hh : (hashLeaf H sh.ns sh.data).hash = (hashLeaf H ns d).hash := congrArg NsHash.hash this
      have hSsh : S (leafInput sh.ns sh.data) := by
        apply hA
        unfold axisInputs; rw [hax]
        exact List.mem_append_left _ (List.mem_map.mpr ⟨sh, hshmem, rfl⟩)
      exact ⟨(hashLeaf_inj_on hk.inj (by rw [hnse]) hSsh hLf hh).2, hnse⟩

/-- what the Rust types guarantee about a decoded proof: namespaces are 29 bytes, proof nodes 29+29+32 -/
def BefpWF (p : Befp) : Prop :=
  ∀ s, some s ∈ p.shares → s.ns.length = NS_SIZE ∧ ∀ q ∈ s.proof.siblings, q.WF

/-- the tree / leaf chosen for position `i` is the tree through the cell `axisCoord axis index i`, at that cell -/
theorem rootAndLeafIdx_coord (dah : Dah) (axis : Axis) (index : Nat) (pa : Axis) (i : Nat) :
    ∃ tree, (rootAndLeafIdx dah axis index pa i).1 = dah.root? pa tree ∧
      axisCoord pa tree (rootAndLeafIdx dah axis index pa i).2 = axisCoord axis index i ∧
      (tree = index ∨ tree = i) ∧ ((rootAndLeafIdx dah axis index pa i).2 = index ∨ (rootAndLeafIdx dah axis index pa i).2 = i) := by
  cases axis <;> cases pa
  · exact ⟨index, rfl, rfl, Or.inl rfl, Or.inr rfl⟩
  · exact ⟨i, rfl, rfl, Or.inr rfl, Or.inl rfl⟩
  · exact ⟨i, rfl, rfl, Or.inr rfl, Or.inl rfl⟩
  · exact ⟨index, rfl, rfl, Or.inl rfl, Or.inr rfl⟩

/-- **the per-share loop binds every present share to its cell of the committed square** -/
theorem verifyShares_sound {H : HashFn} {S : Bytes → Prop} (hk : HashOKOn H S) {ver : Nat} {X : List Bytes} {e : Eds}
    (hn : NewOK ver X e) (hE : ∀ y ∈ edsInputs H e, S y)
    {dah : Dah} (hd : Dah.ofEds H e = .ok dah) {axis : Axis} {index : Nat} (hidx : index < e.width) :
    ∀ (shares : List (Option ShareWithProof)) (i0 : Nat), i0 + shares.length ≤ e.width →
      (∀ s, some s ∈ shares → s.ns.length = NS_SIZE ∧ ∀ q ∈ s.proof.siblings, q.WF) →
      (∀ y ∈ befpInputs H shares, S y) →
      verifyShares Flags.fixed H dah axis index shares i0 = .ok () →
      ∀ m s, shares[m]? = some (some s) →
        s.share = (cell e.width X (axisCoord axis index (i0 + m)).1 (axisCoord axis index (i0 + m)).2).data := by
  obtain ⟨j, _, _, hj⟩ := hn.pow
  obtain ⟨hrl, hcl, hrows, hcols⟩ := dah_ofEds_roots hd
  have hsz : ∀ sh ∈ e.shares, NS_SIZE ≤ sh.data.length := by
    intro sh hsh
    rw [hn.grid] at hsh
    obtain ⟨l, hl, hsh⟩ := List.mem_flatten.mp hsh
    obtain ⟨r, hr, rfl⟩ := List.mem_map.mp hl
    have := (hn.cells r (List.mem_range.mp hr) .row sh hsh).size
    rw [this]; decide
  intro shares
  induction shares with
  | nil => intro i0 _ _ _ _ m s hm; simp at hm
  | cons o rest ih =>
    intro i0 hlen hwf hP hv m s hm
    have hPrest : ∀ y ∈ befpInputs H rest, S y := by
      intro y hy
      apply hP
      unfold befpInputs at hy ⊢
      rw [List.flatMap_cons]
      exact List.mem_append_right _ hy
    cases o with
    | none =>
      simp only [verifyShares] at hv
      cases m with
      | zero => simp at hm
      | succ m' =>
        have := ih (i0 + 1) (by simp at hlen; omega) (fun s hs => hwf s (List.mem_cons_of_mem _ hs)) hPrest hv m' s
          (by simpa using hm)
        have e1 : i0 + (m' + 1) = i0 + 1 + m' := by omega
        rw [e1]; exact this
    | some s0 =>
      simp only [verifyShares] at hv
      obtain ⟨tree, ht1, ht2, ht3, ht4⟩ := rootAndLeafIdx_coord dah axis index s0.proofAxis i0
      have hi0 : i0 < e.width := by simp at hlen; omega
      cases hrl' : rootAndLeafIdx dah axis index s0.proofAxis i0 with
      | mk root? leafIdx =>
        rw [hrl'] at ht1 ht2 ht4
        simp only at ht1 ht2 ht4
        rw [hrl'] at hv
        cases root? with
        | none => simp at hv
        | some root =>
          simp only at hv
          split at hv
          · cases hv
          · rename_i hpos
            have hst : s0.proof.start = leafIdx := by
              simp only [Flags.fixed, Bool.true_and, decide_eq_true_eq, not_not] at hpos
              simpa using hpos
            cases hvr : luminaVerifyRange H s0.proof root [s0.share] s0.ns with
            | error er => simp [hvr] at hv
            | ok u =>
              simp only [hvr] at hv
              cases m with
              | succ m' =>
                have := ih (i0 + 1) (by simp at hlen; omega) (fun s hs => hwf s (List.mem_cons_of_mem _ hs)) hPrest hv m' s
                  (by simpa using hm)
                have e1 : i0 + (m' + 1) = i0 + 1 + m' := by omega
                rw [e1]; exact this
              | zero =>
                simp only [List.getElem?_cons_zero, Option.some.injEq] at hm
                subst hm
                have htw : tree < e.width := by rcases ht3 with h | h <;> omega
                have hlw : leafIdx < e.width := by rcases ht4 with h | h <;> omega
                -- the root is the root of that tree of the square
                have hroot : e.axisRoot H s0.proofAxis tree = .ok root := by
                  cases hpa : s0.proofAxis with
                  | row =>
                    obtain ⟨r, hr1, hr2⟩ := hrows tree htw
                    rw [hpa] at ht1
                    simp only [Dah.root?, Dah.rowRoot?] at ht1
                    rw [hr2] at ht1; injection ht1 with ht1; rw [ht1]; exact hr1
                  | col =>
                    obtain ⟨r, hr1, hr2⟩ := hcols tree htw
                    rw [hpa] at ht1
                    simp only [Dah.root?, Dah.colRoot?] at ht1
                    rw [hr2] at ht1; injection ht1 with ht1; rw [ht1]; exact hr1
                obtain ⟨hnsl, hsib⟩ := hwf s0 (by simp)
                have hS0 : ∀ y ∈ shareInputs H s0, S y := fun y hy => hP y (shareInputs_mem (by simp) hy)
                obtain ⟨sh, hsh, hdata, _⟩ := axis_leaf_bound_ns hk hj hsz hroot hlw hnsl hsib
                  (fun y hy => hE y (axisInputs_mem_eds htw hy))
                  (hS0 _ (by simp [shareInputs]))
                  (fun y hy => hS0 y (by simp [shareInputs, hy]))
                  (luminaVerifyRange_ok' hvr) hst
                rw [ht2] at hsh
                have hr := (axisCoord axis index i0)
                have hcell := hn.shareAt (r := (axisCoord axis index i0).1) (c := (axisCoord axis index i0).2)
                  (by cases axis <;> simp [axisCoord] <;> omega) (by cases axis <;> simp [axisCoord] <;> omega)
                rw [hcell] at hsh
                injection hsh with hsh
                simp only [Nat.add_zero]
                rw [← hdata, ← hsh]

/-! ## erased codewords through leopard's guards -/

theorem erase_length : ∀ (mask : List Bool) (cw : List Bytes), mask.length = cw.length → (erase mask cw).length = cw.length
  | [], [], _ => rfl
  | [], _ :: _, h => by simp at h
  | _ :: _, [], h => by simp at h
  | b :: m, c :: t, h => by
    simp only [erase, List.zipWith_cons_cons, List.length_cons]
    have := erase_length m t (by simpa using h)
    unfold erase at this
    rw [this]

theorem erase_present : ∀ (mask : List Bool) (cw : List Bytes), mask.length = cw.length → (∀ s ∈ cw, s ≠ []) →
    ((erase mask cw).filter (fun s => !s.isEmpty)).length = (mask.filter id).length
  | [], [], _, _ => rfl
  | [], _ :: _, h, _ => by simp at h
  | _ :: _, [], h, _ => by simp at h
  | b :: m, c :: t, h, hne => by
    have ih := erase_present m t (by simpa using h) (fun s hs => hne s (List.mem_cons_of_mem _ hs))
    unfold erase at ih ⊢
    have hc : c.isEmpty = false := by
      cases c with
      | nil => exact (hne [] (by simp) rfl).elim
      | cons a b => rfl
    cases b <;> simp [List.filter_cons, hc, ih]

theorem erase_all : ∀ (mask : List Bool) (cw : List Bytes), mask.length = cw.length →
    (mask.filter id).length = mask.length → erase mask cw = cw
  | [], [], _, _ => rfl
  | [], _ :: _, h, _ => by simp at h
  | _ :: _, [], h, _ => by simp at h
  | b :: m, c :: t, h, hall => by
    cases b with
    | false =>
      have := List.length_filter_le id m
      simp [List.filter_cons] at hall
      omega
    | true =>
      have := erase_all m t (by simpa using h) (by simpa [List.filter_cons] using hall)
      unfold erase at this ⊢
      simp [this]

theorem erase_mem {mask : List Bool} {cw : List Bytes} {s : Bytes} (h : s ∈ erase mask cw) : s = [] ∨ s ∈ cw := by
  unfold erase at h
  induction mask generalizing cw with
  | nil => simp at h
  | cons b m ih =>
    cases cw with
    | nil => simp at h
    | cons c t =>
      simp only [List.zipWith_cons_cons, List.mem_cons] at h
      rcases h with h | h
      · cases b
        · left; simpa using h
        · right; simp [h]
      · rcases ih h with h' | h'
        · left; exact h'
        · right; exact List.mem_cons_of_mem _ h'

theorem shardSize_of {l : List Bytes} {n : Nat} (hn : 0 < n) (hall : ∀ s ∈ l, s = [] ∨ s.length = n)
    (hex : ∃ s ∈ l, s ≠ []) : shardSize l = n := by
  unfold shardSize
  cases hf : l.find? (fun s => !s.isEmpty) with
  | none =>
    rw [List.find?_eq_none] at hf
    obtain ⟨s, hs, hne⟩ := hex
    have := hf s hs
    cases s with
    | nil => exact (hne rfl).elim
    | cons a b => simp at this
  | some s =>
    have hmem := List.mem_of_find?_eq_some hf
    have hp := List.find?_some hf
    rcases hall s hmem with h | h
    · subst h; simp at hp
    · exact h

/-- the codec's decoder recovers this codeword from any `k` of its `2k` symbols -/
def RecOK (C : Codec) (k : Nat) (cw : List Bytes) : Prop :=
  ∀ mask : List Bool, mask.length = cw.length → k ≤ (mask.filter id).length → C.recon (erase mask cw) = cw

/-- reconstruct + encode of an erased codeword of 512-byte symbols give the codeword back (within the codec's capacity) -/
theorem reencode_codeword {C : Codec} {k : Nat} {cw : List Bytes} (hk1 : 1 ≤ k) (hcap : 2 * k ≤ LEOPARD_ORDER)
    (hcw : IsCodeword C.enc k cw) (hsz : ∀ s ∈ cw, s.length = SHARE_SIZE) (hrec : RecOK C k cw)
    {mask : List Bool} (hml : mask.length = cw.length) (hpres : k ≤ (mask.filter id).length) :
    reconstructStep C k (erase mask cw) = some cw ∧
    leopardEncodeErr cw k = false ∧ cw.take k ++ C.enc (cw.take k) = cw := by
  obtain ⟨hlen, hdrop⟩ := hcw
  have hne : ∀ s ∈ cw, s ≠ [] := by
    intro s hs h0; have := hsz s hs; rw [h0] at this; simp [SHARE_SIZE] at this
  have hel := erase_length mask cw hml
  have hpc := erase_present mask cw hml hne
  have hallE : ∀ s ∈ erase mask cw, s = [] ∨ s.length = SHARE_SIZE := by
    intro s hs
    rcases erase_mem hs with h | h
    · exact Or.inl h
    · exact Or.inr (hsz s h)
  have hexE : ∃ s ∈ erase mask cw, s ≠ [] := by
    have hpos : 0 < ((erase mask cw).filter (fun s => !s.isEmpty)).length := by rw [hpc]; omega
    obtain ⟨s, hs⟩ := List.exists_mem_of_length_pos hpos
    rw [List.mem_filter] at hs
    refine ⟨s, hs.1, ?_⟩
    intro h0; rw [h0] at hs; simp at hs
  have hss : shardSize (erase mask cw) = SHARE_SIZE := shardSize_of (by decide) hallE hexE
  refine ⟨?_, ?_, ?_⟩
  · unfold reconstructStep leopardReconstructPre
    have c1 : ¬ (erase mask cw).length > LEOPARD_ORDER := by rw [hel, hlen]; omega
    have c2 : ¬ (erase mask cw).length - k > k := by rw [hel, hlen]; omega
    have c3 : ¬ (shardSize (erase mask cw) ≠ 0 ∧
        (erase mask cw).any (fun s => !s.isEmpty && decide (s.length ≠ shardSize (erase mask cw))) = true) := by
      rw [hss]
      intro ⟨_, hany⟩
      rw [List.any_eq_true] at hany
      obtain ⟨s, hs, hp⟩ := hany
      rcases hallE s hs with h | h
      · subst h; simp at hp
      · simp [h] at hp
    have c1' : ¬ cw.length > LEOPARD_ORDER := by omega
    have c2' : ¬ cw.length - k > k := by omega
    simp only [c1, c2, c3, ↓reduceIte, hpc, hel, c1', c2']
    by_cases hall : (mask.filter id).length = cw.length
    · simp only [hall, ↓reduceIte]
      rw [erase_all mask cw hml (by rw [hall, hml])]
    · simp only [hall, ↓reduceIte]
      have c4 : ¬ (mask.filter id).length < k := by omega
      have c5 : ¬ shardSize (erase mask cw) % 64 ≠ 0 := by rw [hss]; decide
      simp only [c4, c5, ↓reduceIte]
      rw [hrec mask hml hpres]
  · unfold leopardEncodeErr
    have hex : ∃ s ∈ cw, s ≠ [] := by
      cases cw with
      | nil => simp at hlen; omega
      | cons a t => exact ⟨a, by simp, hne a (by simp)⟩
    have hss' : shardSize cw = SHARE_SIZE := shardSize_of (by decide) (fun s hs => Or.inr (hsz s hs)) hex
    have c1 : ¬ cw.length > LEOPARD_ORDER := by omega
    have hpar : cw.length - k = k := by omega
    have c2 : ¬ cw.length - k > k := by omega
    obtain ⟨b, hb, hle, _⟩ := nextPowerOfTwo_spec k
    have c3 : ceilPow2 k ≥ k := by unfold ceilPow2; rw [hb]; exact hle
    have c4 : cw.any (fun s => decide (s.length ≠ SHARE_SIZE)) = false := by
      rw [List.any_eq_false]; intro s hs; simp [hsz s hs]
    have c5 : ¬ k > k := by omega
    simp only [c1, c2, ↓reduceIte, hpar, c3, true_or, Bool.false_eq_true, hss', c4, c5]
    simp [SHARE_SIZE]
  · rw [← hdrop, List.take_append_drop]

/-! ## the rebuilt tree of an axis of an accepted square -/

/-- the rebuild loop on the data of cells `cs` at positions `n, n+1, …` of an axis with index `index`: when every cell
    carries the namespace the loop assigns to its position and the namespaces are in order, the loop returns the
    cells' own leaf hashes -/
theorem rebuildLeaves_cells (H : HashFn) (k index : Nat) : ∀ (cs : List Share) (n : Nat) (hi : Bytes),
    (∀ m c, cs[m]? = some c → NS_SIZE ≤ c.data.length ∧
      (if n + m < k ∧ index < k then c.isParity = false ∧ ∃ ns, Lumina.Model.Namespace.fromRaw (c.data.take NS_SIZE) = .ok ns
       else c.isParity = true)) →
    (cs.map Share.ns).Pairwise (fun a b => leB a b = true) → (∀ c ∈ cs, leB hi c.ns = true) →
    rebuildLeaves Flags.fixed H k index (cs.map Share.data) n hi = .ok (some (cs.map (Share.leafHash H)))
  | [], _, _, _, _, _ => rfl
  | c :: t, n, hi, hcell, hpw, hhi => by
    obtain ⟨hlen, hrule⟩ := hcell 0 c rfl
    simp only [Nat.add_zero] at hrule
    have ih := rebuildLeaves_cells H k index t (n + 1) c.ns
      (fun m c' hm => by
        have := hcell (m + 1) c' (by simpa using hm)
        have e1 : n + (m + 1) = n + 1 + m := by omega
        rw [e1] at this; exact this)
      (by simp only [List.map_cons, List.pairwise_cons] at hpw; exact hpw.2)
      (by
        simp only [List.map_cons, List.pairwise_cons] at hpw
        intro c' hc'
        exact hpw.1 c'.ns (List.mem_map.mpr ⟨c', hc', rfl⟩))
    have hord : ltB c.ns hi = false := by
      have := hhi c (by simp); unfold leB at this; simpa using this
    simp only [List.map_cons, rebuildLeaves]
    have hleaf : leafNs Flags.fixed k index n c.data = .ok (some c.ns) := by
      unfold leafNs
      simp only [Flags.fixed, Bool.not_true, Bool.false_or]
      by_cases hq : n < k ∧ index < k
      · simp only [hq] at hrule
        obtain ⟨hp, ns, hns⟩ := hrule
        have hnseq : ns = c.ns := by
          rw [fromRaw_eq hns]; simp [Share.ns, hp]
        have hl : ¬ c.data.length < NS_SIZE := by omega
        simp only [hq.1, hq.2, decide_true, Bool.and_self, ↓reduceIte, hl, hns, hnseq]
      · simp only [hq, ↓reduceIte] at hrule
        have hnseq : parityNs = c.ns := by simp [Share.ns, hrule]
        have hcond : (decide (n < k) && decide (index < k)) = false := by
          simp only [Bool.and_eq_false_iff, decide_eq_false_iff_not]
          by_cases h1 : n < k
          · right; exact fun h2 => hq ⟨h1, h2⟩
          · left; exact h1
        simp only [hcond, Bool.false_eq_true, ↓reduceIte, hnseq]
    simp only [hleaf, hord, Bool.false_eq_true, ↓reduceIte, ih, Share.leafHash]

end Lumina.Proofs.Befp

/-
  Helper lemmas for C23: association-list table algebra, `from_vec` = the spec's `legal`,
  key-order of the v1 table built by B-tree inserts.
-/
import Lumina.Model.RedbSchema
import Lumina.Spec.C23

namespace Lumina.Proofs.RedbSchema
open Lumina.Model.RedbSchema Lumina.Gen.C23
open Lumina.Spec.C23 (legal reading underKey)

/-! ### `BlockRanges::from_vec` accepts exactly the legal vectors -/

theorem fromVecGo_some (p : Nat × Nat) (rs : Raw) :
    fromVecGo (some p) rs =
      ((match rs with
        | [] => true
        | r :: _ => decide (p.2 < r.1)) && legal rs) := by
  induction rs generalizing p with
  | nil => simp [fromVecGo, legal]
  | cons r rest ih =>
    cases rest with
    | nil =>
      simp only [fromVecGo, validRange, legal]
      grind
    | cons s rest' =>
      have := ih r
      simp only [fromVecGo, validRange, legal] at this ⊢
      grind

theorem fromVecGo_none (rs : Raw) : fromVecGo none rs = legal rs := by
  cases rs with
  | nil => simp [fromVecGo, legal]
  | cons r rest =>
    cases rest with
    | nil =>
      simp only [fromVecGo, validRange, legal]
      grind
    | cons s rest' =>
      have := fromVecGo_some r (s :: rest')
      simp only [fromVecGo, validRange, legal] at this ⊢
      grind

theorem fromVec_eq (rs : Raw) : fromVec rs = if legal rs then .ok rs else .error .storedData := by
  simp [fromVec, fromVecGo_none]

/-- an `Except Err Raw` report as the spec's observation (`none` = error) -/
def toOpt : Except Err Raw → Option Raw
  | .ok r => some r
  | .error _ => none

theorem toOpt_fromVec (rs : Raw) : toOpt (fromVec rs) = reading rs := by
  rw [fromVec_eq]; unfold reading; split <;> rfl

/-! ### table algebra -/

theorem get_insert_self (t : RangesTable) (k : String) (v : Raw) : (t.insert k v).get k = some v := by
  induction t with
  | nil => simp [RangesTable.insert, RangesTable.get]
  | cons e rest ih => grind [RangesTable.insert, RangesTable.get]

theorem get_insert_ne (t : RangesTable) (k k' : String) (v : Raw) (hne : k' ≠ k) :
    (t.insert k v).get k' = t.get k' := by
  induction t with
  | nil => simp [RangesTable.insert, RangesTable.get, Ne.symm hne]
  | cons e rest ih => grind [RangesTable.insert, RangesTable.get]

theorem get_remove_self (t : RangesTable) (k : String) : (t.remove k).get k = none := by
  induction t with
  | nil => simp [RangesTable.remove, RangesTable.get]
  | cons e rest ih => grind [RangesTable.remove, RangesTable.get]

theorem get_remove_ne (t : RangesTable) (k k' : String) (hne : k' ≠ k) :
    (t.remove k).get k' = t.get k' := by
  induction t with
  | nil => simp [RangesTable.remove, RangesTable.get]
  | cons e rest ih => grind [RangesTable.remove, RangesTable.get]

theorem insert_same (t : RangesTable) (k : String) (v : Raw) (h : t.get k = some v) :
    t.insert k v = t := by
  induction t with
  | nil => simp [RangesTable.get] at h
  | cons e rest ih => grind [RangesTable.insert, RangesTable.get]

theorem remove_absent (t : RangesTable) (k : String) (h : t.get k = none) : t.remove k = t := by
  induction t with
  | nil => rfl
  | cons e rest ih => grind [RangesTable.remove, RangesTable.get]

theorem underKey_eq (db : Db) (k : String) : underKey db k = ((db.ranges.getD []).get k).getD [] := by
  unfold underKey
  cases hr : db.ranges with
  | none => simp [RangesTable.get]
  | some t =>
    simp only [Option.getD_some]
    clear hr
    induction t with
    | nil => simp [RangesTable.get]
    | cons e rest ih => grind [RangesTable.get, List.find?]


/-! ### explicit form of the open transaction per schema version -/

set_option linter.unusedSimpArgs false

theorem hS_ne_H : SAMPLED_RANGES_KEY ≠ HEADER_RANGES_KEY := by decide
theorem hA_ne_H : V2_SAMPLED_RANGES_KEY ≠ HEADER_RANGES_KEY := by decide
theorem hA_ne_S : V2_SAMPLED_RANGES_KEY ≠ SAMPLED_RANGES_KEY := by decide
theorem hH_ne_S : HEADER_RANGES_KEY ≠ SAMPLED_RANGES_KEY := by decide
theorem hH_ne_A : HEADER_RANGES_KEY ≠ V2_SAMPLED_RANGES_KEY := by decide
theorem hS_ne_A : SAMPLED_RANGES_KEY ≠ V2_SAMPLED_RANGES_KEY := by decide
theorem hP_ne_H : PRUNED_RANGES_KEY ≠ HEADER_RANGES_KEY := by decide
theorem hP_ne_S : PRUNED_RANGES_KEY ≠ SAMPLED_RANGES_KEY := by decide
theorem hP_ne_A : PRUNED_RANGES_KEY ≠ V2_SAMPLED_RANGES_KEY := by decide

/-- the vector under the v2 sampled key -/
def oldSampled (db : Db) : Raw := ((db.ranges.getD []).get V2_SAMPLED_RANGES_KEY).getD []

/-- is the vector under the v2 sampled key readable? -/
def legalA (db : Db) : Bool := legal (oldSampled db)

/-- the database a successful migration from v1 commits -/
def afterV1 (newId : Nat) (db : Db) : Db :=
  let raw := (db.heightRanges.getD []).map (fun e => e.2)
  let rt := db.ranges.getD []
  createTables newId { db with
    heightRanges := none
    ranges := some ((((rt.insert HEADER_RANGES_KEY raw).insert SAMPLED_RANGES_KEY (oldSampled db))).remove V2_SAMPLED_RANGES_KEY)
    version := some 3 }

/-- the database a successful migration from v2 commits -/
def afterV2 (newId : Nat) (db : Db) : Db :=
  let rt := db.ranges.getD []
  createTables newId { db with
    ranges := some ((rt.insert SAMPLED_RANGES_KEY (oldSampled db)).remove V2_SAMPLED_RANGES_KEY)
    version := some 3 }

theorem openTx_v1 (newId : Nat) (db : Db) (hv : db.version = some 1) :
    openTx newId db = if legalA db then .ok (afterV1 newId db) else .error .storedData := by
  by_cases hl : legal (((db.ranges.getD []).get V2_SAMPLED_RANGES_KEY).getD []) = true
  · simp [openTx, hv, migrateV1toV2, migrateV2toV3, getRanges, fromVec_eq, SCHEMA_VERSION, V1V2_GATE,
      V1V2_FROM, V1V2_TARGET, V2V3_GATE, V2V3_FROM, V2V3_TARGET, afterV1, legalA, oldSampled, hl,
      get_insert_ne _ _ _ _ hA_ne_H]
  · simp [openTx, hv, migrateV1toV2, migrateV2toV3, getRanges, fromVec_eq, SCHEMA_VERSION, V1V2_GATE,
      V1V2_FROM, V1V2_TARGET, V2V3_GATE, V2V3_FROM, V2V3_TARGET, afterV1, legalA, oldSampled, hl,
      get_insert_ne _ _ _ _ hA_ne_H]

theorem openTx_v2 (newId : Nat) (db : Db) (hv : db.version = some 2) :
    openTx newId db = if legalA db then .ok (afterV2 newId db) else .error .storedData := by
  by_cases hl : legal (((db.ranges.getD []).get V2_SAMPLED_RANGES_KEY).getD []) = true
  · simp [openTx, hv, migrateV1toV2, migrateV2toV3, getRanges, fromVec_eq, SCHEMA_VERSION, V1V2_GATE,
      V1V2_FROM, V1V2_TARGET, V2V3_GATE, V2V3_FROM, V2V3_TARGET, afterV2, legalA, oldSampled, hl]
  · simp [openTx, hv, migrateV1toV2, migrateV2toV3, getRanges, fromVec_eq, SCHEMA_VERSION, V1V2_GATE,
      V1V2_FROM, V1V2_TARGET, V2V3_GATE, V2V3_FROM, V2V3_TARGET, afterV2, legalA, oldSampled, hl]

theorem openTx_v3 (newId : Nat) (db : Db) (hv : db.version = some 3) :
    openTx newId db = .ok (createTables newId db) := by
  simp [openTx, hv, migrateV1toV2, migrateV2toV3, SCHEMA_VERSION, V1V2_GATE, V2V3_GATE, createTables]

theorem openTx_v0 (newId : Nat) (db : Db) (hv : db.version = some 0) :
    openTx newId db = .error .debugAssert := by
  simp [openTx, hv, migrateV1toV2, SCHEMA_VERSION, V1V2_GATE, V1V2_FROM]

theorem openTx_newer (newId : Nat) (db : Db) (v : Nat) (hv : db.version = some v) (hgt : v > 3) :
    openTx newId db = .error (.incompatible v) := by
  simp [openTx, hv, SCHEMA_VERSION, hgt]

theorem openTx_fresh (newId : Nat) (db : Db) (hv : db.version = none) :
    openTx newId db = .ok (createTables newId { db with version := some 3 }) := by
  simp [openTx, hv, SCHEMA_VERSION, createTables]

theorem heldSampled_v12 (db : Db) (hv : db.version = some 1 ∨ db.version = some 2) :
    Lumina.Spec.C23.heldSampled db = if legalA db then some (oldSampled db) else none := by
  have hk : V2_SAMPLED_RANGES_KEY = "KEY.ACCEPTED_SAMPING_RANGES" := by decide
  rcases hv with hv | hv <;>
    simp only [Lumina.Spec.C23.heldSampled, hv, underKey_eq, reading, legalA, oldSampled, hk]

/-- every successfully opened database: version 3, all tables exist, an identity is stored -/
def Opened (db : Db) : Prop :=
  db.version = some 3 ∧ db.heights = true ∧ db.headers = true ∧ db.sampling = true ∧
    (∃ t, db.ranges = some t) ∧ ∃ k, db.identity = some (some k)

theorem createTables_opened (newId : Nat) (db : Db) (hv : db.version = some 3) :
    Opened (createTables newId db) := by
  refine ⟨by simpa [createTables] using hv, by simp [createTables], by simp [createTables],
    by simp [createTables], ⟨db.ranges.getD [], by simp [createTables]⟩, ?_⟩
  simp only [createTables]
  split <;> simp

theorem createTables_fixed (newId : Nat) (db : Db) (h : Opened db) : createTables newId db = db := by
  obtain ⟨hv, hh, hd, hs, ⟨t, ht⟩, ⟨k, hk⟩⟩ := h
  cases db
  simp_all [createTables]

/-! ### the v1 table stays in key order -/

/-- keys strictly increasing -/
def KeyOrdered : HeightRanges → Prop
  | [] => True
  | [_] => True
  | a :: b :: rest => a.1 < b.1 ∧ KeyOrdered (b :: rest)

theorem keyOrdered_tail {a : Nat × (Nat × Nat)} {t : HeightRanges} (h : KeyOrdered (a :: t)) : KeyOrdered t := by
  cases t with
  | nil => trivial
  | cons b rest => exact h.2

theorem hrInsert_head (t : HeightRanges) (k : Nat) (v : Nat × Nat) :
    ∃ e rest, hrInsert t k v = e :: rest ∧ (e.1 = k ∨ ∃ e' rest', t = e' :: rest' ∧ e = e' ∧ e'.1 < k) := by
  cases t with
  | nil => exact ⟨(k, v), [], rfl, Or.inl rfl⟩
  | cons a rest =>
    simp only [hrInsert]
    by_cases h1 : k < a.1
    · exact ⟨(k, v), a :: rest, by simp [h1], Or.inl rfl⟩
    · by_cases h2 : k = a.1
      · exact ⟨(k, v), rest, by simp [h2], Or.inl rfl⟩
      · exact ⟨a, hrInsert rest k v, by simp [h1, h2], Or.inr ⟨a, rest, rfl, rfl, by omega⟩⟩

theorem hrInsert_keyOrdered (t : HeightRanges) (k : Nat) (v : Nat × Nat) (h : KeyOrdered t) :
    KeyOrdered (hrInsert t k v) := by
  induction t with
  | nil => trivial
  | cons a rest ih =>
    simp only [hrInsert]
    by_cases h1 : k < a.1
    · simp only [h1, ↓reduceIte]; exact ⟨h1, h⟩
    · by_cases h2 : k = a.1
      · simp only [h2, Nat.lt_irrefl, ↓reduceIte]
        cases rest with
        | nil => trivial
        | cons b rest' => exact ⟨h.1, h.2⟩
      · simp only [h1, h2, ↓reduceIte]
        have ih' := ih (keyOrdered_tail h)
        obtain ⟨e, r, he, hcase⟩ := hrInsert_head rest k v
        rw [he] at ih' ⊢
        refine ⟨?_, ih'⟩
        rcases hcase with hk | ⟨e', rest', hrest, hee, _⟩
        · rw [hk]; omega
        · subst hrest; subst hee; exact h.1

end Lumina.Proofs.RedbSchema

/-
  Helper lemmas for C23: association-list table algebra, `from_vec` = the spec's `legal`,
  key-order of the v1 table built by B-tree inserts.
-/
import Lumina.Model.RedbSchema
import Lumina.Spec.C23

namespace Lumina.Proofs.RedbSchema
open Lumina.Model.RedbSchema Lumina.Gen.C23
open Lumina.Spec.C23 (legal reading underKey merge mergeFrom)

/-! ### `BlockRanges::from_vec` accepts exactly the legal vectors -/

set_option linter.unusedSimpArgs false

/-- `rs` may follow a (merged) range ending at `p.2` -/
def legalAfter (p : Nat × Nat) (rs : Raw) : Bool :=
  match rs with
  | [] => true
  | r :: _ => decide (p.2 < r.1) && legal rs

theorem legal_cons (r : Nat × Nat) (rest : Raw) :
    legal (r :: rest) = (decide (1 ≤ r.1) && decide (r.1 ≤ r.2) && legalAfter r rest) := by
  cases rest with
  | nil => simp [legal, legalAfter]
  | cons s rest' => simp [legal, legalAfter, Bool.and_assoc]

theorem fromVecLoop_cons (p : Nat × Nat) (older rs : Raw) :
    fromVecLoop (p :: older) rs =
      if legalAfter p rs then some (older.reverse ++ mergeFrom p rs) else none := by
  induction rs generalizing p older with
  | nil => simp [fromVecLoop, legalAfter, mergeFrom]
  | cons r rest ih =>
    simp only [fromVecLoop, validRange, legalAfter, legal_cons, mergeFrom]
    by_cases h1 : r.1 > 0 <;> by_cases h2 : r.1 ≤ r.2 <;> by_cases h3 : r.1 ≤ p.2 <;>
      by_cases h4 : p.2 + 1 = r.1 <;> simp [h1, h2, h3, h4, ih, legalAfter] <;> first | omega | grind

theorem fromVecLoop_nil (rs : Raw) :
    fromVecLoop [] rs = if legal rs then some (merge rs) else none := by
  cases rs with
  | nil => simp [fromVecLoop, legal, merge]
  | cons r rest =>
    simp only [fromVecLoop, validRange, legal_cons, merge, fromVecLoop_cons]
    by_cases h1 : r.1 > 0 <;> by_cases h2 : r.1 ≤ r.2 <;> simp [h1, h2] <;> first | omega | grind

theorem fromVec_eq (rs : Raw) : fromVec rs = if legal rs then .ok (merge rs) else .error .storedData := by
  simp only [fromVec, fromVecLoop_nil]
  split <;> simp_all

/-- legal and no two ranges touch -/
def strictAfter (p : Nat × Nat) : Raw → Bool
  | [] => true
  | r :: rest => decide (p.2 + 1 < r.1) && decide (1 ≤ r.1) && decide (r.1 ≤ r.2) && strictAfter r rest

def strict : Raw → Bool
  | [] => true
  | r :: rest => decide (1 ≤ r.1) && decide (r.1 ≤ r.2) && strictAfter r rest

theorem mergeFrom_head (p : Nat × Nat) (rs : Raw) : ∃ q tl, mergeFrom p rs = q :: tl ∧ q.1 = p.1 := by
  induction rs generalizing p with
  | nil => exact ⟨p, [], rfl, rfl⟩
  | cons r rest ih =>
    simp only [mergeFrom]
    split
    · obtain ⟨q, tl, h, hq⟩ := ih (p.1, r.2)
      exact ⟨q, tl, h, hq⟩
    · exact ⟨p, _, rfl, rfl⟩

/-- joining the touching ranges of a legal vector gives a strict one -/
theorem mergeFrom_strict (q p : Nat × Nat) (rs : Raw) (hq : q.2 + 1 < p.1) (h1 : 1 ≤ p.1) (h2 : p.1 ≤ p.2)
    (h : legalAfter p rs = true) : strictAfter q (mergeFrom p rs) = true := by
  induction rs generalizing q p with
  | nil => simp [mergeFrom, strictAfter, hq, h1, h2]
  | cons r rest ih =>
    simp only [legalAfter, legal_cons, Bool.and_eq_true, decide_eq_true_eq] at h
    obtain ⟨hpr, ⟨hr1, hr2⟩, hrest⟩ := h
    simp only [mergeFrom]
    split
    · exact ih q (p.1, r.2) hq h1 (by simp; omega) hrest
    · rename_i hne
      simp only [strictAfter, hq, h1, h2, decide_true, Bool.true_and]
      exact ih p r (by omega) hr1 hr2 hrest

theorem strictAfter_mergeFrom_id (p : Nat × Nat) (rs : Raw) (h : strictAfter p rs = true) :
    mergeFrom p rs = p :: rs ∧ legalAfter p rs = true := by
  induction rs generalizing p with
  | nil => simp [mergeFrom, legalAfter]
  | cons r rest ih =>
    simp only [strictAfter, Bool.and_eq_true, decide_eq_true_eq] at h
    obtain ⟨⟨⟨hg, h1⟩, h2⟩, hrest⟩ := h
    obtain ⟨ihm, ihl⟩ := ih r hrest
    constructor
    · simp only [mergeFrom]
      rw [if_neg (by omega), ihm]
    · simp only [legalAfter, legal_cons, Bool.and_eq_true, decide_eq_true_eq]
      exact ⟨by omega, ⟨h1, h2⟩, ihl⟩

theorem mergeFrom_strict' (p : Nat × Nat) (rs : Raw) (h1 : 1 ≤ p.1) (h2 : p.1 ≤ p.2)
    (h : legalAfter p rs = true) : strict (mergeFrom p rs) = true := by
  induction rs generalizing p with
  | nil => simp [mergeFrom, strict, strictAfter, h1, h2]
  | cons r rest ih =>
    simp only [legalAfter, legal_cons, Bool.and_eq_true, decide_eq_true_eq] at h
    obtain ⟨hpr, ⟨hr1, hr2⟩, hrest⟩ := h
    simp only [mergeFrom]
    split
    · exact ih (p.1, r.2) h1 (by simp; omega) hrest
    · simp only [strict, h1, h2, decide_true, Bool.true_and]
      exact mergeFrom_strict p r rest (by omega) hr1 hr2 hrest

theorem strict_id (l : Raw) (h : strict l = true) : legal l = true ∧ merge l = l := by
  cases l with
  | nil => simp [legal, merge]
  | cons q tl =>
    simp only [strict, Bool.and_eq_true, decide_eq_true_eq] at h
    obtain ⟨⟨h1, h2⟩, htl⟩ := h
    obtain ⟨hid, hleg⟩ := strictAfter_mergeFrom_id q tl htl
    exact ⟨by simp [legal_cons, h1, h2, hleg], by simp [merge, hid]⟩

/-- the canonical form of a legal vector is legal and already canonical -/
theorem merge_legal_idem (rs : Raw) (h : legal rs = true) : legal (merge rs) = true ∧ merge (merge rs) = merge rs := by
  cases rs with
  | nil => simp [merge, legal]
  | cons r rest =>
    simp only [legal_cons, Bool.and_eq_true, decide_eq_true_eq] at h
    obtain ⟨⟨h1, h2⟩, hrest⟩ := h
    exact strict_id _ (mergeFrom_strict' r rest h1 h2 hrest)

/-- an `Except Err Raw` report as the spec's observation (`none` = error) -/
def toOpt : Except Err Raw → Option Raw
  | .ok r => some r
  | .error _ => none

theorem toOpt_fromVec (rs : Raw) : toOpt (fromVec rs) = reading rs := by
  rw [fromVec_eq]; unfold reading; split <;> rfl

/-! ### table algebra -/

theorem get_insert_self (t : RangesTable) (k : String) (v : Raw) : (t.insert k v).get k = some v := by
  induction t with
  | nil => simp [RangesTable.insert, RangesTable.get]
  | cons e rest ih => grind [RangesTable.insert, RangesTable.get]

theorem get_insert_ne (t : RangesTable) (k k' : String) (v : Raw) (hne : k' ≠ k) :
    (t.insert k v).get k' = t.get k' := by
  induction t with
  | nil => simp [RangesTable.insert, RangesTable.get, Ne.symm hne]
  | cons e rest ih => grind [RangesTable.insert, RangesTable.get]

theorem get_remove_self (t : RangesTable) (k : String) : (t.remove k).get k = none := by
  induction t with
  | nil => simp [RangesTable.remove, RangesTable.get]
  | cons e rest ih => grind [RangesTable.remove, RangesTable.get]

theorem get_remove_ne (t : RangesTable) (k k' : String) (hne : k' ≠ k) :
    (t.remove k).get k' = t.get k' := by
  induction t with
  | nil => simp [RangesTable.remove, RangesTable.get]
  | cons e rest ih => grind [RangesTable.remove, RangesTable.get]

theorem insert_same (t : RangesTable) (k : String) (v : Raw) (h : t.get k = some v) :
    t.insert k v = t := by
  induction t with
  | nil => simp [RangesTable.get] at h
  | cons e rest ih => grind [RangesTable.insert, RangesTable.get]

theorem remove_absent (t : RangesTable) (k : String) (h : t.get k = none) : t.remove k = t := by
  induction t with
  | nil => rfl
  | cons e rest ih => grind [RangesTable.remove, RangesTable.get]

theorem underKey_eq (db : Db) (k : String) : underKey db k = ((db.ranges.getD []).get k).getD [] := by
  unfold underKey
  cases hr : db.ranges with
  | none => simp [RangesTable.get]
  | some t =>
    simp only [Option.getD_some]
    clear hr
    induction t with
    | nil => simp [RangesTable.get]
    | cons e rest ih => grind [RangesTable.get, List.find?]


/-! ### explicit form of the open transaction per schema version -/

set_option linter.unusedSimpArgs false

theorem hS_ne_H : SAMPLED_RANGES_KEY ≠ HEADER_RANGES_KEY := by decide
theorem hA_ne_H : V2_SAMPLED_RANGES_KEY ≠ HEADER_RANGES_KEY := by decide
theorem hA_ne_S : V2_SAMPLED_RANGES_KEY ≠ SAMPLED_RANGES_KEY := by decide
theorem hH_ne_S : HEADER_RANGES_KEY ≠ SAMPLED_RANGES_KEY := by decide
theorem hH_ne_A : HEADER_RANGES_KEY ≠ V2_SAMPLED_RANGES_KEY := by decide
theorem hS_ne_A : SAMPLED_RANGES_KEY ≠ V2_SAMPLED_RANGES_KEY := by decide
theorem hP_ne_H : PRUNED_RANGES_KEY ≠ HEADER_RANGES_KEY := by decide
theorem hP_ne_S : PRUNED_RANGES_KEY ≠ SAMPLED_RANGES_KEY := by decide
theorem hP_ne_A : PRUNED_RANGES_KEY ≠ V2_SAMPLED_RANGES_KEY := by decide

/-- the vector under the v2 sampled key -/
def oldSampled (db : Db) : Raw := ((db.ranges.getD []).get V2_SAMPLED_RANGES_KEY).getD []

/-- is the vector under the v2 sampled key readable? -/
def legalA (db : Db) : Bool := legal (oldSampled db)

/-- the database a successful migration from v1 commits -/
def afterV1 (newId : Nat) (db : Db) : Db :=
  let raw := (db.heightRanges.getD []).map (fun e => e.2)
  let rt := db.ranges.getD []
  createTables newId { db with
    heightRanges := none
    ranges := some ((((rt.insert HEADER_RANGES_KEY raw).insert SAMPLED_RANGES_KEY (merge (oldSampled db)))).remove V2_SAMPLED_RANGES_KEY)
    version := some 3 }

/-- the database a successful migration from v2 commits -/
def afterV2 (newId : Nat) (db : Db) : Db :=
  let rt := db.ranges.getD []
  createTables newId { db with
    ranges := some ((rt.insert SAMPLED_RANGES_KEY (merge (oldSampled db))).remove V2_SAMPLED_RANGES_KEY)
    version := some 3 }

theorem openTx_v1 (newId : Nat) (db : Db) (hv : db.version = some 1) :
    openTx newId db = if legalA db then .ok (afterV1 newId db) else .error .storedData := by
  by_cases hl : legal (((db.ranges.getD []).get V2_SAMPLED_RANGES_KEY).getD []) = true
  · simp [openTx, hv, migrateV1toV2, migrateV2toV3, getRanges, fromVec_eq, SCHEMA_VERSION, V1V2_GATE,
      V1V2_FROM, V1V2_TARGET, V2V3_GATE, V2V3_FROM, V2V3_TARGET, afterV1, legalA, oldSampled, hl,
      get_insert_ne _ _ _ _ hA_ne_H]
  · simp [openTx, hv, migrateV1toV2, migrateV2toV3, getRanges, fromVec_eq, SCHEMA_VERSION, V1V2_GATE,
      V1V2_FROM, V1V2_TARGET, V2V3_GATE, V2V3_FROM, V2V3_TARGET, afterV1, legalA, oldSampled, hl,
      get_insert_ne _ _ _ _ hA_ne_H]

theorem openTx_v2 (newId : Nat) (db : Db) (hv : db.version = some 2) :
    openTx newId db = if legalA db then .ok (afterV2 newId db) else .error .storedData := by
  by_cases hl : legal (((db.ranges.getD []).get V2_SAMPLED_RANGES_KEY).getD []) = true
  · simp [openTx, hv, migrateV1toV2, migrateV2toV3, getRanges, fromVec_eq, SCHEMA_VERSION, V1V2_GATE,
      V1V2_FROM, V1V2_TARGET, V2V3_GATE, V2V3_FROM, V2V3_TARGET, afterV2, legalA, oldSampled, hl]
  · simp [openTx, hv, migrateV1toV2, migrateV2toV3, getRanges, fromVec_eq, SCHEMA_VERSION, V1V2_GATE,
      V1V2_FROM, V1V2_TARGET, V2V3_GATE, V2V3_FROM, V2V3_TARGET, afterV2, legalA, oldSampled, hl]

theorem openTx_v3 (newId : Nat) (db : Db) (hv : db.version = some 3) :
    openTx newId db = .ok (createTables newId db) := by
  simp [openTx, hv, migrateV1toV2, migrateV2toV3, SCHEMA_VERSION, V1V2_GATE, V2V3_GATE, createTables]

theorem openTx_v0 (newId : Nat) (db : Db) (hv : db.version = some 0) :
    openTx newId db = .error .debugAssert := by
  simp [openTx, hv, migrateV1toV2, SCHEMA_VERSION, V1V2_GATE, V1V2_FROM]

theorem openTx_newer (newId : Nat) (db : Db) (v : Nat) (hv : db.version = some v) (hgt : v > 3) :
    openTx newId db = .error (.incompatible v) := by
  simp [openTx, hv, SCHEMA_VERSION, hgt]

theorem openTx_fresh (newId : Nat) (db : Db) (hv : db.version = none) :
    openTx newId db = .ok (createTables newId { db with version := some 3 }) := by
  simp [openTx, hv, SCHEMA_VERSION, createTables]

theorem heldSampled_v12 (db : Db) (hv : db.version = some 1 ∨ db.version = some 2) :
    Lumina.Spec.C23.heldSampled db = if legalA db then some (merge (oldSampled db)) else none := by
  have hk : V2_SAMPLED_RANGES_KEY = "KEY.ACCEPTED_SAMPING_RANGES" := by decide
  rcases hv with hv | hv <;>
    simp only [Lumina.Spec.C23.heldSampled, hv, underKey_eq, reading, legalA, oldSampled, hk]

/-- every successfully opened database: version 3, all tables exist, an identity is stored -/
def Opened (db : Db) : Prop :=
  db.version = some 3 ∧ db.heights = true ∧ db.headers = true ∧ db.sampling = true ∧
    (∃ t, db.ranges = some t) ∧ ∃ k, db.identity = some (some k)

theorem createTables_opened (newId : Nat) (db : Db) (hv : db.version = some 3) :
    Opened (createTables newId db) := by
  refine ⟨by simpa [createTables] using hv, by simp [createTables], by simp [createTables],
    by simp [createTables], ⟨db.ranges.getD [], by simp [createTables]⟩, ?_⟩
  simp only [createTables]
  split <;> simp

theorem createTables_fixed (newId : Nat) (db : Db) (h : Opened db) : createTables newId db = db := by
  obtain ⟨hv, hh, hd, hs, ⟨t, ht⟩, ⟨k, hk⟩⟩ := h
  cases db
  simp_all [createTables]

/-! ### the v1 table stays in key order -/

/-- keys strictly increasing -/
def KeyOrdered : HeightRanges → Prop
  | [] => True
  | [_] => True
  | a :: b :: rest => a.1 < b.1 ∧ KeyOrdered (b :: rest)

theorem keyOrdered_tail {a : Nat × (Nat × Nat)} {t : HeightRanges} (h : KeyOrdered (a :: t)) : KeyOrdered t := by
  cases t with
  | nil => trivial
  | cons b rest => exact h.2

theorem hrInsert_head (t : HeightRanges) (k : Nat) (v : Nat × Nat) :
    ∃ e rest, hrInsert t k v = e :: rest ∧ (e.1 = k ∨ ∃ e' rest', t = e' :: rest' ∧ e = e' ∧ e'.1 < k) := by
  cases t with
  | nil => exact ⟨(k, v), [], rfl, Or.inl rfl⟩
  | cons a rest =>
    simp only [hrInsert]
    by_cases h1 : k < a.1
    · exact ⟨(k, v), a :: rest, by simp [h1], Or.inl rfl⟩
    · by_cases h2 : k = a.1
      · exact ⟨(k, v), rest, by simp [h2], Or.inl rfl⟩
      · exact ⟨a, hrInsert rest k v, by simp [h1, h2], Or.inr ⟨a, rest, rfl, rfl, by omega⟩⟩

theorem hrInsert_keyOrdered (t : HeightRanges) (k : Nat) (v : Nat × Nat) (h : KeyOrdered t) :
    KeyOrdered (hrInsert t k v) := by
  induction t with
  | nil => trivial
  | cons a rest ih =>
    simp only [hrInsert]
    by_cases h1 : k < a.1
    · simp only [h1, ↓reduceIte]; exact ⟨h1, h⟩
    · by_cases h2 : k = a.1
      · simp only [h2, Nat.lt_irrefl, ↓reduceIte]
        cases rest with
        | nil => trivial
        | cons b rest' => exact ⟨h.1, h.2⟩
      · simp only [h1, h2, ↓reduceIte]
        have ih' := ih (keyOrdered_tail h)
        obtain ⟨e, r, he, hcase⟩ := hrInsert_head rest k v
        rw [he] at ih' ⊢
        refine ⟨?_, ih'⟩
        rcases hcase with hk | ⟨e', rest', hrest, hee, _⟩
        · rw [hk]; omega
        · subst hrest; subst hee; exact h.1

end Lumina.Proofs.RedbSchema

/-
  COMPOSITION C28 × C01 (strengthening round S7).

  The header-ex client model (`Model/HeaderExClient.lean`) takes the result of
  `ExtendedHeader::decode_and_validate(body)` as an oracle: `Resp.decoded = some hdr` iff it
  succeeds.  Group E modelled `ExtendedHeader::validate` (`Model/HeaderVerify.lean`, characterised
  by `Props.C01.validate_ok_iff`).  Here the oracle bit is COMPUTED from the C01 model:

    * `WireResp`: a response as it arrives — status code + what `ExtendedHeader::decode` made of
      the body (`none` = undecodable; the decoding layer itself is property C46);
    * `Abs`: the abstraction from the concrete header to the record the client looks at afterwards
      (height, hash, identity), tied to the concrete header by its height;
    * `respOf`: `decoded := some (abs eh)` iff the body decoded to `eh` and `validate eh = Ok`.
-/
import Lumina.Proofs.HeaderExClient
import Lumina.Props.C01

namespace Lumina.Proofs.ComposeHeaderExValidate
open Lumina.Model.HeaderExClient Lumina.Proofs.HeaderExClient
open Lumina.Model.HeaderVerify (ExtHeader Prims Consts validate)

/-- a header-ex response as it arrives -/
structure WireResp (S : Type) where
  /-- raw `status_code` -/
  status : Int
  /-- `ExtendedHeader::decode(body)`, before validation -/
  body : Option (ExtHeader S)

/-- what the client model keeps of a concrete header -/
structure Abs (S : Type) where
  f : ExtHeader S → Hdr
  height_eq : ∀ eh, (f eh).height = eh.header.height

/-- the oracle bit of the client model, computed with the C01 model of `validate` -/
def respOf {S : Type} (P : Prims S) (c : Consts) (A : Abs S) (w : WireResp S) : Resp :=
  { status := w.status,
    decoded := match w.body with
      | some eh => if validate P c eh = .ok then some (A.f eh) else none
      | none => none }

/-- every entry the client may pick from (`validated`) comes from a response with status OK whose
    body decoded to a header that PASSES `validate` -/
theorem validated_from_valid {S : Type} (P : Prims S) (c : Consts) (A : Abs S) (ws : List (WireResp S))
    (x : Hdr) (hx : x ∈ validated (ws.map (respOf P c A))) :
    ∃ w ∈ ws, ∃ eh, w.status = 1 ∧ w.body = some eh ∧ A.f eh = x ∧ validate P c eh = .ok := by
  simp only [validated, List.mem_filterMap, List.mem_map] at hx
  obtain ⟨r, ⟨w, hw, rfl⟩, hr⟩ := hx
  by_cases hst : w.status = 1
  · have hd : (respOf P c A w).decoded = some x := by
      have : (respOf P c A w).status = 1 := hst
      simpa [this] using hr
    cases hb : w.body with
    | none => simp [respOf, hb] at hd
    | some eh =>
      by_cases hv : validate P c eh = .ok
      · have : A.f eh = x := by simpa [respOf, hb, hv] using hd
        exact ⟨w, hw, eh, hst, hb, this, hv⟩
      · simp [respOf, hb, hv] at hd
  · have : ¬ (respOf P c A w).status = 1 := hst
    simp [this] at hr

end Lumina.Proofs.ComposeHeaderExValidate

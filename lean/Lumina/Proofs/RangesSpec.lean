/-
  Bridge between the independent decidable spec `Lumina/Spec/C17.lean` and the model-level
  vocabulary (`mem`, `Inv`, `card`).  Core Lean only.
-/
import Lumina.Proofs.RangesHist
import Lumina.Spec.C17

namespace Lumina.Proofs.Ranges
open Lumina.Model.Ranges hiding Inv
open Lumina.Spec.C17

local notation "RInv" => Lumina.Model.Ranges.Inv

/-- what the harness prints for a ranges-valued operation, as an observation -/
def obsOf : Res Ranges → Obs
  | .ok rs => .ok rs
  | .error (.invalid r) => .errInvalid r
  | .error .unsorted => .errUnsorted
  | .error _ => .panic

theorem member_eq_memB (rs : Ranges) (h : Nat) : member rs h = memB rs h := rfl

theorem member_iff (rs : Ranges) (h : Nat) : member rs h = true ↔ mem rs h := memB_iff_mem rs h

theorem member_false_iff (rs : Ranges) (h : Nat) : member rs h = false ↔ ¬ mem rs h := by
  rw [← member_iff]; simp

theorem validR_eq_valid (r : Range) : validR r = Range.valid r := by
  rw [Bool.eq_iff_iff, valid_iff]
  simp [validR]

theorem gaps_eq_sortedB : ∀ rs : Ranges, gaps rs = sortedB rs
  | [] => rfl
  | [_] => rfl
  | a :: b :: rest => by simp only [gaps, sortedB, gaps_eq_sortedB (b :: rest)]

theorem canonical_iff_inv (rs : Ranges) : Lumina.Spec.C17.canonical rs = true ↔ RInv rs := by
  rw [← invB_iff]
  simp only [Lumina.Spec.C17.canonical, invB, gaps_eq_sortedB, allValidB, validR, U64MAX, U64_MAX, Bool.and_eq_true,
    List.all_eq_true, decide_eq_true_eq]
  exact Iff.rfl

theorem canonical_of_inv {rs : Ranges} (h : RInv rs) : Lumina.Spec.C17.canonical rs = true := (canonical_iff_inv rs).2 h

theorem spec_card_eq (rs : Ranges) : Lumina.Spec.C17.card rs = card rs := rfl

/-- an `Inv` value with the right members passes `denotes` on every window -/
theorem denotes_of {out : Ranges} (hi : RInv out) (vals : List R) (pts : List Nat) (f : Nat → Bool)
    (hm : ∀ h, member out h = f h) : denotes out vals pts f = true := by
  simp only [denotes, canonical_of_inv hi, Bool.true_and, sameOn, List.all_eq_true, beq_iff_eq]
  intro h _
  exact hm h

theorem bool_eq_of_iff {a b : Bool} (h : a = true ↔ b = true) : a = b := by
  cases a <;> cases b <;> simp_all

end Lumina.Proofs.Ranges

/-
  Multi-leaf range proofs of the nmt-rs model, part 2: COMPLETENESS.

  `build_check`: for a real (sub)tree over the leaf hashes `L` at absolute offset `off` and a range `[s, e)` that
  overlaps it, `build_range_proof_inner` returns `pl ++ pr` where `pl` / `pr` are the roots of consecutive segments of
  the leaves left / right of the range (`Segs`), with `nLeft` / `nRight` many nodes; and `check_range_proof_inner`, run
  with ANY tree size compatible with the real one (`Compat`), on the range's leaves and that proof, recomputes the real
  root and consumes exactly those leaves and proof nodes.

  `range_complete`: `build_range_proof(s..e)` of a tree with `n ≤ 2^31` leaves, `s < e ≤ n`, is accepted by
  `check_range_proof` for the leaves `L[s..e)` at `start = s` (arbitrary `n`, not only powers of two).
-/
import Lumina.Proofs.NmtMultiArith

namespace Lumina.Proofs.NmtMulti
open Lumina.Util Lumina.Model.Nmt Lumina.Proofs.Nmt Lumina.Proofs.NmtRange

/-- how `check_range_proof_inner` treats a child that overlaps the range: a single leaf is taken from the leaf
    stack, a larger child recurses -/
def childCheck (H : HashFn) (ign : Bool) (fuel : Nat) (X P : List NsHash) (s csize coff : Nat) :
    Except Err (NsHash × List NsHash × List NsHash) :=
  if csize = 1 then
    match takeLast? X with
    | none => .error .missingLeaf
    | some (x, rest) => .ok (x, rest, P)
  else checkRangeProofInner H ign fuel X P s csize coff

def sibTake (X P : List NsHash) : Except Err (NsHash × List NsHash × List NsHash) :=
  match takeLast? P with
  | none => .error .missingProofNode
  | some (x, rest) => .ok (x, X, rest)

theorem inner_unfold {H : HashFn} {ign : Bool} {fuel : Nat} {X P : List NsHash} {s size off : Nat} :
    checkRangeProofInner H ign (fuel + 1) X P s size off =
      if X.length + s = 0 then .error .panic
      else
        match (if X.length + s - 1 ≥ nextSmallerPo2 size + off then
                 childCheck H ign fuel X P s (size - nextSmallerPo2 size) (off + nextSmallerPo2 size)
               else sibTake X P) with
        | .error e => .error e
        | .ok (right, X1, P1) =>
          match (if s < nextSmallerPo2 size + off then childCheck H ign fuel X1 P1 s (nextSmallerPo2 size) off
                 else sibTake X1 P1) with
          | .error e => .error e
          | .ok (left, X2, P2) =>
            match hashNodes H ign left right with
            | .error e => .error e
            | .ok h => .ok (h, X2, P2) := by
  rw [checkRangeProofInner]
  rfl

theorem node_fwd {H : HashFn} {ign : Bool} {fuel : Nat} {X P : List NsHash} {s size off : Nat}
    {r l h : NsHash} {X1 P1 X2 P2 : List NsHash} (h0 : X.length + s ≠ 0)
    (hR : (if X.length + s - 1 ≥ nextSmallerPo2 size + off then
             childCheck H ign fuel X P s (size - nextSmallerPo2 size) (off + nextSmallerPo2 size)
           else sibTake X P) = .ok (r, X1, P1))
    (hL : (if s < nextSmallerPo2 size + off then childCheck H ign fuel X1 P1 s (nextSmallerPo2 size) off
           else sibTake X1 P1) = .ok (l, X2, P2))
    (hn : hashNodes H ign l r = .ok h) :
    checkRangeProofInner H ign (fuel + 1) X P s size off = .ok (h, X2, P2) := by
  rw [inner_unfold, if_neg h0, hR]
  simp only
  rw [hL]
  simp only
  rw [hn]

theorem sibTake_snoc (X pre : List NsHash) (a : NsHash) : sibTake X (pre ++ [a]) = .ok (a, X, pre) := by
  unfold sibTake; rw [takeLast?_append_singleton]

theorem _root_.Lumina.Proofs.NmtRange.Segs.nil_left {H : HashFn} {ign : Bool} {roots : List NsHash} (h : Segs H ign [] roots) : roots = [] := by
  generalize hM : ([] : List NsHash) = M at h
  cases h with
  | nil => rfl
  | @cons seg rest r rs hne _ _ =>
    exfalso
    have := congrArg List.length hM
    cases seg with
    | nil => exact hne rfl
    | cons a t => simp at this

theorem take_drop_add {α} (L : List α) (i p q : Nat) :
    (L.drop i).take (p + q) = (L.drop i).take p ++ (L.drop (i + p)).take q := by
  rw [List.take_add, List.drop_drop]

theorem take_take_drop {α} (L : List α) (k i p : Nat) (h : i + p ≤ k) :
    ((L.take k).drop i).take p = (L.drop i).take p := by
  rw [List.drop_take, List.take_take]
  congr 1; omega

/-- **builder and verifier agree on every subtree** (see the file header) -/
theorem build_check {H : HashFn} {ign : Bool} : ∀ (fuelB : Nat) (L : List NsHash) (off s e a b : Nat) (rootL : NsHash),
    L.length < fuelB → 1 ≤ L.length → computeRoot H ign L = .ok rootL →
    a = max s off → b = min e (off + L.length) → a < b →
    ∃ pl pr, buildRangeProofAux H ign fuelB L off s e = .ok (pl ++ pr) ∧
      Segs H ign (L.take (a - off)) pl ∧ Segs H ign (L.drop (b - off)) pr ∧
      (∀ g, L.length ≤ g → pl.length = (if off ≤ s then nLeft g (s - off) L.length else 0)) ∧
      (∀ g, L.length ≤ g → pr.length = (if e ≤ off + L.length then nRight g (e - 1 - off) L.length else 0)) ∧
      ∀ (size fuelC : Nat) (Xpre pre : List NsHash), Compat L.length size (b - 1 - off) → size ≤ fuelC →
        Xpre.length = a - s →
        childCheck H ign fuelC (Xpre ++ (L.drop (a - off)).take (b - a)) (pre ++ (pl ++ pr)) s size off =
          .ok (rootL, Xpre, pre) := by
  intro fuelB
  induction fuelB with
  | zero => intro L off s e a b rootL h; omega
  | succ fb ih =>
    intro L off s e a b rootL hfb hL1 hroot ha hb hab
    match L, hfb, hL1, hroot, hb, hab with
    | [x], _, _, hroot, hb, hab =>
      -- a single leaf inside the range
      simp only [List.length_singleton] at hb hab
      have hx : rootL = x := by simpa [computeRoot, computeRootAux] using hroot.symm
      subst hx
      have hin : s ≤ off ∧ off < e := by omega
      have ha' : a = off := by omega
      have hb' : b = off + 1 := by omega
      subst ha'; subst hb'
      refine ⟨[], [], ?_, ?_, ?_, ?_, ?_, ?_⟩
      · simp [buildRangeProofAux, hin]
      · simpa using Segs.nil
      · simpa using Segs.nil
      · intro g _; simp [nLeft_one]
      · intro g _; simp [nRight_one]
      · intro size fuelC Xpre pre hc _ hxl
        have hs1 : size = 1 := by
          cases hc with
          | refl => rfl
          | left h2 => simp at h2
          | right h2 => simp at h2
        subst hs1
        simp [childCheck, takeLast?]
    | x0 :: x1 :: rest, hfb, _, hroot, hb, hab =>
      generalize hLdef : x0 :: x1 :: rest = L at *
      have hn2 : 2 ≤ L.length := by rw [← hLdef]; simp
      obtain ⟨m, hm, hmlt, hmle⟩ := nextSmallerPo2_spec L.length hn2
      have hk1 : 1 ≤ 2 ^ m := Nat.one_le_two_pow
      -- the children of the real tree
      have hroot' : computeRootAux H ign (L.length + 1) (x0 :: x1 :: rest) = .ok rootL := by rw [hLdef]; exact hroot
      obtain ⟨l, r, hl, hr, hn⟩ := computeRootAux_cons2 hroot'
      rw [hLdef, hm] at hl hr
      have hlenT : (L.take (2 ^ m)).length = 2 ^ m := by rw [List.length_take]; omega
      have hlenD : (L.drop (2 ^ m)).length = L.length - 2 ^ m := List.length_drop
      have hlroot : computeRoot H ign (L.take (2 ^ m)) = .ok l := by
        unfold computeRoot; rw [computeRootAux_fuel _ L.length _ (by omega) (by omega)]; exact hl
      have hrroot : computeRoot H ign (L.drop (2 ^ m)) = .ok r := by
        unfold computeRoot; rw [computeRootAux_fuel _ L.length _ (by omega) (by omega)]; exact hr
      have hbu := buildRangeProofAux_unfold (H := H) (ign := ign) (fuel := fb) hn2 off s e
      rw [hm] at hbu
      by_cases hR : off + 2 ^ m < b
      · -- the right child overlaps the range
        obtain ⟨plr, prr, hbr, hsegLr, hsegRr, hcLr, hcRr, hchkR⟩ :=
          ih (L.drop (2 ^ m)) (off + 2 ^ m) s e (max s (off + 2 ^ m)) b r (by omega) (by omega) hrroot rfl
            (by rw [hlenD]; omega) (by omega)
        have hrightB : (if e ≤ off + 2 ^ m then (computeRoot H ign (L.drop (2 ^ m))).map (fun x => [x])
            else if s > off + 2 ^ m ∨ e < off + L.length then
              buildRangeProofAux H ign fb (L.drop (2 ^ m)) (off + 2 ^ m) s e
            else .ok []) = .ok (plr ++ prr) := by
          have c1 : ¬ (e ≤ off + 2 ^ m) := by omega
          rw [if_neg c1]
          by_cases c2 : s > off + 2 ^ m ∨ e < off + L.length
          · rw [if_pos c2]; exact hbr
          · rw [if_neg c2]
            -- fully inside: the recursive call returns the empty list too
            have hz1 : max s (off + 2 ^ m) - (off + 2 ^ m) = 0 := by omega
            have hz2 : (L.drop (2 ^ m)).drop (b - (off + 2 ^ m)) = [] := by
              apply List.drop_eq_nil_of_le; rw [hlenD]; omega
            rw [hz1] at hsegLr; rw [hz2] at hsegRr
            simp only [List.take_zero] at hsegLr
            rw [hsegLr.nil_left, hsegRr.nil_left]; rfl
        by_cases hLo : s < off + 2 ^ m
        · -- … and so does the left child
          obtain ⟨pll, prl, hbl, hsegLl, hsegRl, hcLl, hcRl, hchkL⟩ :=
            ih (L.take (2 ^ m)) off s e a (off + 2 ^ m) l (by omega) (by omega) hlroot ha
              (by rw [hlenT]; omega) (by omega)
          have hprl : prl = [] := by
            have hz : (L.take (2 ^ m)).drop (off + 2 ^ m - off) = [] := by
              apply List.drop_eq_nil_of_le; rw [hlenT]; omega
            rw [hz] at hsegRl; exact hsegRl.nil_left
          have hplr : plr = [] := by
            have hz1 : max s (off + 2 ^ m) - (off + 2 ^ m) = 0 := by omega
            rw [hz1] at hsegLr
            simp only [List.take_zero] at hsegLr
            exact hsegLr.nil_left
          subst hprl; subst hplr
          have hleftB : (if s ≥ off + 2 ^ m then (computeRoot H ign (L.take (2 ^ m))).map (fun x => [x])
              else if s > off ∨ e < off + 2 ^ m then buildRangeProofAux H ign fb (L.take (2 ^ m)) off s e
              else .ok []) = .ok (pll ++ []) := by
            have c1 : ¬ (s ≥ off + 2 ^ m) := by omega
            rw [if_neg c1]
            by_cases c2 : s > off ∨ e < off + 2 ^ m
            · rw [if_pos c2]; exact hbl
            · rw [if_neg c2]
              have hz1 : a - off = 0 := by omega
              rw [hz1] at hsegLl
              simp only [List.take_zero] at hsegLl
              rw [hsegLl.nil_left]; rfl
          refine ⟨pll, prr, ?_, ?_, ?_, ?_, ?_, ?_⟩
          · rw [← hLdef] at hbu ⊢
            rw [hbu]
            rw [hLdef, hleftB, hrightB]
            simp
          · rw [List.take_take] at hsegLl
            have : min (a - off) (2 ^ m) = a - off := by omega
            rw [this] at hsegLl; exact hsegLl
          · have : (L.drop (2 ^ m)).drop (b - (off + 2 ^ m)) = L.drop (b - off) := by
              rw [List.drop_drop]; congr 1; omega
            rw [this] at hsegRr; exact hsegRr
          · intro g hg
            have := hcLl (g - 1) (by rw [hlenT]; omega)
            rw [this, hlenT]
            by_cases ho : off ≤ s
            · simp only [ho, ↓reduceIte]
              obtain ⟨g', rfl⟩ : ∃ g', g = g' + 1 := ⟨g - 1, by omega⟩
              conv => rhs; unfold nLeft
              have c1 : ¬ (L.length ≤ 1) := by omega
              have c2 : ¬ (s - off ≥ 2 ^ m) := by omega
              simp only [c1, ↓reduceIte, hm, c2]
              rfl
            · simp [ho]
          · intro g hg
            have := hcRr (g - 1) (by rw [hlenD]; omega)
            rw [this, hlenD]
            by_cases ho : e ≤ off + L.length
            · have ho' : e ≤ off + 2 ^ m + (L.length - 2 ^ m) := by omega
              simp only [ho, ho', ↓reduceIte]
              obtain ⟨g', rfl⟩ : ∃ g', g = g' + 1 := ⟨g - 1, by omega⟩
              conv => rhs; unfold nRight
              have c1 : ¬ (L.length ≤ 1) := by omega
              have c2 : e - 1 - off ≥ 2 ^ m := by omega
              simp only [c1, ↓reduceIte, hm, c2]
              have : e - 1 - (off + 2 ^ m) = e - 1 - off - 2 ^ m := by omega
              rw [this]; rfl
            · have ho' : ¬ (e ≤ off + 2 ^ m + (L.length - 2 ^ m)) := by omega
              simp [ho, ho']
          · intro size fuelC Xpre pre hc hfc hxl
            have hsz := hc.le
            have hsk : nextSmallerPo2 size = 2 ^ m := by
              cases hc with
              | refl => exact hm
              | left _ _ h3 _ => rw [h3, hm]
              | right _ h3 _ _ => rw [h3, hm]
            have hcR : Compat (L.drop (2 ^ m)).length (size - 2 ^ m) (b - 1 - (off + 2 ^ m)) := by
              rw [hlenD]
              have e1 : b - 1 - (off + 2 ^ m) = b - 1 - off - 2 ^ m := by omega
              rw [e1]
              cases hc with
              | refl => exact Compat.refl _ _
              | left _ _ _ h4 => rw [hm] at h4; omega
              | right _ _ _ h4 => rw [hm] at h4; exact h4
            obtain ⟨fc, rfl⟩ : ∃ fc, fuelC = fc + 1 := ⟨fuelC - 1, by omega⟩
            have hne1 : ¬ (size = 1) := by omega
            unfold childCheck
            rw [if_neg hne1]
            -- the leaves: left block then right block
            have hblk : (L.drop (a - off)).take (b - a) =
                ((L.take (2 ^ m)).drop (a - off)).take (off + 2 ^ m - a) ++
                  ((L.drop (2 ^ m)).drop (max s (off + 2 ^ m) - (off + 2 ^ m))).take (b - max s (off + 2 ^ m)) := by
              have hmx : max s (off + 2 ^ m) = off + 2 ^ m := by omega
              rw [hmx, take_take_drop _ _ _ _ (by omega), List.drop_drop]
              have e1 : b - a = (off + 2 ^ m - a) + (b - (off + 2 ^ m)) := by omega
              have e2 : 2 ^ m + (off + 2 ^ m - (off + 2 ^ m)) = a - off + (off + 2 ^ m - a) := by omega
              rw [e1, take_drop_add, e2]
            have hXlen : (Xpre ++ (L.drop (a - off)).take (b - a)).length + s - 1 = b - 1 := by
              rw [List.length_append, List.length_take, List.length_drop, hxl]; omega
            have hR' := hchkR (size - 2 ^ m) fc
              (Xpre ++ ((L.take (2 ^ m)).drop (a - off)).take (off + 2 ^ m - a)) (pre ++ (pll ++ [])) hcR (by omega)
              (by rw [List.length_append, List.length_take, List.length_drop, hlenT, hxl]; omega)
            have hL' := hchkL (2 ^ m) fc Xpre pre (by rw [hlenT]; exact Compat.refl _ _) (by omega) hxl
            apply node_fwd (r := r) (l := l)
              (X1 := Xpre ++ ((L.take (2 ^ m)).drop (a - off)).take (off + 2 ^ m - a)) (P1 := pre ++ (pll ++ []))
            · rw [List.length_append, List.length_take, List.length_drop, hxl]; omega
            · rw [hXlen, hsk, if_pos (by omega)]
              rw [hblk, ← List.append_assoc]
              have : pre ++ (pll ++ prr) = (pre ++ (pll ++ [])) ++ ([] ++ prr) := by simp
              rw [this]
              exact hR'
            · rw [hsk, if_pos (by omega)]
              exact hL'
            · exact hn
        · -- the left child is a sibling
          have hleftB : (if s ≥ off + 2 ^ m then (computeRoot H ign (L.take (2 ^ m))).map (fun x => [x])
              else if s > off ∨ e < off + 2 ^ m then buildRangeProofAux H ign fb (L.take (2 ^ m)) off s e
              else .ok []) = .ok [l] := by
            rw [if_pos (by omega), hlroot]; rfl
          have hmx : max s (off + 2 ^ m) = s := by omega
          have has : a = s := by omega
          rw [hmx] at hsegLr hchkR
          refine ⟨l :: plr, prr, ?_, ?_, ?_, ?_, ?_, ?_⟩
          · rw [← hLdef] at hbu ⊢
            rw [hbu]
            rw [hLdef, hleftB, hrightB]
            simp
          · have hsp : L.take (a - off) = L.take (2 ^ m) ++ (L.drop (2 ^ m)).take (s - (off + 2 ^ m)) := by
              have e1 : a - off = 2 ^ m + (s - (off + 2 ^ m)) := by omega
              rw [e1, List.take_add]
            rw [hsp]
            have hne : L.take (2 ^ m) ≠ [] := by
              intro h; rw [h] at hlenT; simp at hlenT; omega
            exact (Segs.single hne hlroot).append hsegLr
          · have : (L.drop (2 ^ m)).drop (b - (off + 2 ^ m)) = L.drop (b - off) := by
              rw [List.drop_drop]; congr 1; omega
            rw [this] at hsegRr; exact hsegRr
          · intro g hg
            have := hcLr (g - 1) (by rw [hlenD]; omega)
            rw [List.length_cons, this, hlenD]
            have ho : off ≤ s := by omega
            have ho' : off + 2 ^ m ≤ s := by omega
            simp only [ho, ho', ↓reduceIte]
            obtain ⟨g', rfl⟩ : ∃ g', g = g' + 1 := ⟨g - 1, by omega⟩
            conv => rhs; unfold nLeft
            have c1 : ¬ (L.length ≤ 1) := by omega
            have c2 : s - off ≥ 2 ^ m := by omega
            simp only [c1, ↓reduceIte, hm, c2]
            have : s - (off + 2 ^ m) = s - off - 2 ^ m := by omega
            rw [this]
            simp only [Nat.add_sub_cancel]; omega
          · intro g hg
            have := hcRr (g - 1) (by rw [hlenD]; omega)
            rw [this, hlenD]
            by_cases ho : e ≤ off + L.length
            · have ho' : e ≤ off + 2 ^ m + (L.length - 2 ^ m) := by omega
              simp only [ho, ho', ↓reduceIte]
              obtain ⟨g', rfl⟩ : ∃ g', g = g' + 1 := ⟨g - 1, by omega⟩
              conv => rhs; unfold nRight
              have c1 : ¬ (L.length ≤ 1) := by omega
              have c2 : e - 1 - off ≥ 2 ^ m := by omega
              simp only [c1, ↓reduceIte, hm, c2]
              have : e - 1 - (off + 2 ^ m) = e - 1 - off - 2 ^ m := by omega
              rw [this]; rfl
            · have ho' : ¬ (e ≤ off + 2 ^ m + (L.length - 2 ^ m)) := by omega
              simp [ho, ho']
          · intro size fuelC Xpre pre hc hfc hxl
            have hsz := hc.le
            have hsk : nextSmallerPo2 size = 2 ^ m := by
              cases hc with
              | refl => exact hm
              | left _ _ h3 _ => rw [h3, hm]
              | right _ h3 _ _ => rw [h3, hm]
            have hcR : Compat (L.drop (2 ^ m)).length (size - 2 ^ m) (b - 1 - (off + 2 ^ m)) := by
              rw [hlenD]
              have e1 : b - 1 - (off + 2 ^ m) = b - 1 - off - 2 ^ m := by omega
              rw [e1]
              cases hc with
              | refl => exact Compat.refl _ _
              | left _ _ _ h4 => rw [hm] at h4; omega
              | right _ _ _ h4 => rw [hm] at h4; exact h4
            obtain ⟨fc, rfl⟩ : ∃ fc, fuelC = fc + 1 := ⟨fuelC - 1, by omega⟩
            have hne1 : ¬ (size = 1) := by omega
            unfold childCheck
            rw [if_neg hne1]
            have hblk : (L.drop (a - off)).take (b - a) =
                ((L.drop (2 ^ m)).drop (s - (off + 2 ^ m))).take (b - s) := by
              rw [List.drop_drop, has]; congr 2; omega
            have hXlen : (Xpre ++ (L.drop (a - off)).take (b - a)).length + s - 1 = b - 1 := by
              rw [List.length_append, List.length_take, List.length_drop, hxl]; omega
            have hR' := hchkR (size - 2 ^ m) fc Xpre (pre ++ [l]) hcR (by omega) (by omega)
            apply node_fwd (r := r) (l := l) (X1 := Xpre) (P1 := pre ++ [l])
            · rw [List.length_append, List.length_take, List.length_drop, hxl]; omega
            · rw [hXlen, hsk, if_pos (by omega)]
              rw [hblk]
              have : pre ++ (l :: plr ++ prr) = (pre ++ [l]) ++ (plr ++ prr) := by simp
              rw [this]
              exact hR'
            · rw [hsk, if_neg (by omega)]
              exact sibTake_snoc _ _ _
            · exact hn
      · -- the right child is a sibling; the range lies in the left child
        have hbe : b = e := by omega
        have hle : e ≤ off + 2 ^ m := by omega
        obtain ⟨pll, prl, hbl, hsegLl, hsegRl, hcLl, hcRl, hchkL⟩ :=
          ih (L.take (2 ^ m)) off s e a b l (by omega) (by omega) hlroot ha
            (by rw [hlenT]; omega) hab
        have hrightB : (if e ≤ off + 2 ^ m then (computeRoot H ign (L.drop (2 ^ m))).map (fun x => [x])
            else if s > off + 2 ^ m ∨ e < off + L.length then
              buildRangeProofAux H ign fb (L.drop (2 ^ m)) (off + 2 ^ m) s e
            else .ok []) = .ok [r] := by
          rw [if_pos hle, hrroot]; rfl
        have hleftB : (if s ≥ off + 2 ^ m then (computeRoot H ign (L.take (2 ^ m))).map (fun x => [x])
            else if s > off ∨ e < off + 2 ^ m then buildRangeProofAux H ign fb (L.take (2 ^ m)) off s e
            else .ok []) = .ok (pll ++ prl) := by
          have c1 : ¬ (s ≥ off + 2 ^ m) := by omega
          rw [if_neg c1]
          by_cases c2 : s > off ∨ e < off + 2 ^ m
          · rw [if_pos c2]; exact hbl
          · rw [if_neg c2]
            have hz1 : a - off = 0 := by omega
            have hz2 : (L.take (2 ^ m)).drop (b - off) = [] := by
              apply List.drop_eq_nil_of_le; rw [hlenT]; omega
            rw [hz1] at hsegLl; rw [hz2] at hsegRl
            simp only [List.take_zero] at hsegLl
            rw [hsegLl.nil_left, hsegRl.nil_left]; rfl
        refine ⟨pll, prl ++ [r], ?_, ?_, ?_, ?_, ?_, ?_⟩
        · rw [← hLdef] at hbu ⊢
          rw [hbu]
          rw [hLdef, hleftB, hrightB]
          simp
        · rw [List.take_take] at hsegLl
          have : min (a - off) (2 ^ m) = a - off := by omega
          rw [this] at hsegLl; exact hsegLl
        · have hsp : L.drop (b - off) = (L.take (2 ^ m)).drop (b - off) ++ L.drop (2 ^ m) := by
            conv => lhs; rw [← List.take_append_drop (2 ^ m) L]
            rw [List.drop_append_of_le_length (by rw [hlenT]; omega)]
          rw [hsp]
          have hne : L.drop (2 ^ m) ≠ [] := by
            intro h; rw [h] at hlenD; simp at hlenD; omega
          exact hsegRl.append (Segs.single hne hrroot)
        · intro g hg
          have := hcLl (g - 1) (by rw [hlenT]; omega)
          rw [this, hlenT]
          by_cases ho : off ≤ s
          · simp only [ho, ↓reduceIte]
            obtain ⟨g', rfl⟩ : ∃ g', g = g' + 1 := ⟨g - 1, by omega⟩
            conv => rhs; unfold nLeft
            have c1 : ¬ (L.length ≤ 1) := by omega
            have c2 : ¬ (s - off ≥ 2 ^ m) := by omega
            simp only [c1, ↓reduceIte, hm, c2]
            rfl
          · simp [ho]
        · intro g hg
          have := hcRl (g - 1) (by rw [hlenT]; omega)
          rw [List.length_append, this, hlenT]
          have ho : e ≤ off + L.length := by omega
          simp only [ho, hle, ↓reduceIte, List.length_singleton]
          obtain ⟨g', rfl⟩ : ∃ g', g = g' + 1 := ⟨g - 1, by omega⟩
          conv => rhs; unfold nRight
          have c1 : ¬ (L.length ≤ 1) := by omega
          have c2 : ¬ (e - 1 - off ≥ 2 ^ m) := by omega
          simp only [c1, ↓reduceIte, hm, c2]
          simp only [Nat.add_sub_cancel]; omega
        · intro size fuelC Xpre pre hc hfc hxl
          have hsz := hc.le
          have hsk : nextSmallerPo2 size = 2 ^ m := by
            cases hc with
            | refl => exact hm
            | left _ _ h3 _ => rw [h3, hm]
            | right _ h3 _ _ => rw [h3, hm]
          obtain ⟨fc, rfl⟩ : ∃ fc, fuelC = fc + 1 := ⟨fuelC - 1, by omega⟩
          have hne1 : ¬ (size = 1) := by omega
          unfold childCheck
          rw [if_neg hne1]
          have hblk : (L.drop (a - off)).take (b - a) = ((L.take (2 ^ m)).drop (a - off)).take (b - a) := by
            rw [take_take_drop _ _ _ _ (by omega)]
          have hXlen : (Xpre ++ (L.drop (a - off)).take (b - a)).length + s - 1 = b - 1 := by
            rw [List.length_append, List.length_take, List.length_drop, hxl]; omega
          have hL' := hchkL (2 ^ m) fc Xpre (pre ++ []) (by rw [hlenT]; exact Compat.refl _ _) (by omega) hxl
          apply node_fwd (r := r) (l := l) (X1 := Xpre ++ (L.drop (a - off)).take (b - a)) (P1 := pre ++ (pll ++ prl))
          · rw [List.length_append, List.length_take, List.length_drop, hxl]; omega
          · rw [hXlen, hsk, if_neg (by omega)]
            have : pre ++ (pll ++ (prl ++ [r])) = (pre ++ (pll ++ prl)) ++ [r] := by simp
            rw [this]
            exact sibTake_snoc _ _ _
          · rw [hsk, if_pos (by omega), hblk]
            simpa using hL'
          · exact hn

theorem nRight_pos {g n : Nat} (hn : 2 ≤ n) (hg : n ≤ g) : 1 ≤ nRight g 0 n := by
  obtain ⟨g', rfl⟩ : ∃ g', g = g' + 1 := ⟨g - 1, by omega⟩
  obtain ⟨m, hm, _, _⟩ := nextSmallerPo2_spec n hn
  have : 1 ≤ 2 ^ m := Nat.one_le_two_pow
  unfold nRight
  have c1 : ¬ (n ≤ 1) := by omega
  have c2 : ¬ (0 ≥ nextSmallerPo2 n) := by omega
  simp only [c1, ↓reduceIte, c2]; omega

/-- **Completeness of multi-leaf range proofs** (any tree size up to 2^31 leaves, any non-empty in-range `[s, e)`):
    `build_range_proof(s..e)` succeeds whenever the root can be computed; its nodes are the roots of consecutive segments
    of the leaves left of `s` (exactly `popcount(s)` of them) followed by those right of `e`; and `check_range_proof`
    accepts it for the leaves `L[s..e)` at `start = s`.  No hypothesis on the hash. -/
theorem range_complete {H : HashFn} {ign : Bool} {L : List NsHash} {root : NsHash} {s e : Nat}
    (hroot : computeRoot H ign L = .ok root) (hse : s < e) (hen : e ≤ L.length) (hn : L.length ≤ 2 ^ 31) :
    ∃ pl pr, buildRangeProof H ign L s e = .ok (pl ++ pr) ∧ Segs H ign (L.take s) pl ∧ Segs H ign (L.drop e) pr ∧
      pl.length = computeNumLeftSiblings s ∧
      checkRangeProof H ign root ((L.drop s).take (e - s)) (pl ++ pr) s = .ok () := by
  obtain ⟨pl, pr, hb, hsl, hsr, hcl, hcr, hchk⟩ := build_check (L.length + 1) L 0 s e s e root (by omega) (by omega) hroot
    (by omega) (by omega) hse
  simp only [Nat.sub_zero, Nat.zero_add, Nat.zero_le, ↓reduceIte, hen] at hsl hsr hcl hcr hchk
  have hpl : pl.length = computeNumLeftSiblings s := by
    rw [hcl L.length (Nat.le_refl _)]
    exact nLeft_popcount _ _ _ (Nat.le_refl _) (by omega)
  have hpr := hcr L.length (Nat.le_refl _)
  refine ⟨pl, pr, ?_, hsl, hsr, hpl, ?_⟩
  · unfold buildRangeProof
    rw [hroot]
    simp only
    rw [if_neg (by omega)]
    exact hb
  · have hXlen : ((L.drop s).take (e - s)).length = e - s := by
      rw [List.length_take, List.length_drop]; omega
    obtain ⟨t, hz, hc, hbd⟩ := nRight_compat L.length (e - 1) (by omega)
    have hT31 : treeSizeOf (e - 1) t ≤ 2 ^ 31 := hbd 31 hn
    have ht : t ≤ 31 := by
      have := two_pow_le_treeSizeOf (e - 1) t
      have : 2 ^ t ≤ 2 ^ 31 := by omega
      exact (Nat.pow_le_pow_iff_right (by omega)).mp this
    have hts : computeTreeSize pr.length (s + (e - s) - 1) = .ok (treeSizeOf (e - 1) t) := by
      have : s + (e - s) - 1 = e - 1 := by omega
      rw [this, hpr]
      exact computeTreeSize_fwd hz (by simp [U32_MAX]; omega) (by omega)
    have hck := hchk (treeSizeOf (e - 1) t) (treeSizeOf (e - 1) t) [] [] hc (Nat.le_refl _) (by simp)
    simp only [List.nil_append] at hck
    unfold checkRangeProof
    rw [hXlen]
    have h0 : ¬ (e - s = 0) := by omega
    rw [if_neg h0]
    by_cases htriv : e - s = 1 ∧ (pl ++ pr).isEmpty = true
    · rw [if_pos htriv]
      have hemp : pl ++ pr = [] := by simpa using htriv.2
      have hpl0 : pl = [] := (List.append_eq_nil_iff.mp hemp).1
      have hpr0 : pr = [] := (List.append_eq_nil_iff.mp hemp).2
      have hs0 : s = 0 := computeNumLeftSiblings_zero (by rw [← hpl, hpl0]; rfl)
      subst hs0
      have he1 : e = 1 := by omega
      subst he1
      have hn1 : L.length = 1 := by
        apply Classical.byContradiction
        intro hne
        have := nRight_pos (g := L.length) (n := L.length) (by omega) (Nat.le_refl _)
        rw [hpr0] at hpr
        simp at hpr
        omega
      match L, hn1, hroot with
      | [x], _, hroot =>
        have hx : root = x := by simpa [computeRoot, computeRootAux] using hroot.symm
        subst hx
        simp
    · rw [if_neg htriv]
      have hnl : ¬ ((pl ++ pr).length < computeNumLeftSiblings s) := by
        rw [List.length_append, hpl]; omega
      rw [if_neg hnl]
      have hnr : (pl ++ pr).length - computeNumLeftSiblings s = pr.length := by
        rw [List.length_append, hpl]; omega
      simp only [hnr, hts]
      have hT2 : ¬ (treeSizeOf (e - 1) t = 1) := by
        intro h1
        have hle := hc.le
        have hlt := lt_treeSizeOf (e - 1) t
        have hn1 : L.length = 1 := by omega
        have he1 : e = 1 := by omega
        have hs0 : s = 0 := by omega
        apply htriv
        refine ⟨by omega, ?_⟩
        have hpl0 : pl.length = 0 := by rw [hpl, hs0]; rfl
        have hpr0 : pr.length = 0 := by rw [hpr, hn1]; simp [nRight_one]
        rw [List.isEmpty_iff_length_eq_zero, List.length_append]; omega
      unfold childCheck at hck
      rw [if_neg hT2] at hck
      rw [hck]
      simp

end Lumina.Proofs.NmtMulti

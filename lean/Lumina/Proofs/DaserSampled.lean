/-
  C33, history form: "a height is marked sampled only after every chosen share of it was answered successfully".

  A ghost-history invariant over the worker model (`Lumina.Model.Daser`), independent of the representation
  invariants of `Proofs/Daser.lean` (partial correctness: whenever a step succeeds …; a failed step kills the worker,
  which drops every sampling future):

  * `hits s evs`: the successful answers (`Ev.answer h p false`) of the history `evs` from state `s` that met an
    outstanding request (block `h` being sampled with `p` pending);
  * `FutsOK s A`: every sampling future of `s` was created by `random_indexes(width of its header, 16)` — its shares are
    distinct, in-square and `min (w², 16)` many — and each of its shares is still pending, or the block has a timeout,
    or the share's successful answer is in `A`;
  * `Trk s s' toks`: what every scheduling function does to the futures (only fresh ones are added; header chain and
    configuration untouched) and that it never emits `mark_as_sampled`;
  * `step_futsOK`, `mark_step`: one stimulus; `run_futsOK`: every history; `mark_all_retrieved`: the statement.
-/
import Lumina.Proofs.DaserIndexes
import Lumina.Model.DaserView

namespace Lumina.Proofs.DaserSampled
open Lumina.Model.Ranges Lumina.Model.Daser Lumina.Proofs.DaserIndexes
open Lumina.Spec

/-! ### partial correctness in the worker monad -/

def Post {α} (m : M α) (P : α → Prop) : Prop := ∀ a, m = .ok a → P a

theorem Post.bind {α β} {m : M α} {k : α → M β} {P : α → Prop} {Q : β → Prop}
    (hm : Post m P) (hk : ∀ a, P a → Post (k a) Q) : Post (m >>= k) Q := by
  intro b hb
  cases m with
  | ok a => exact hk a (hm a rfl) b hb
  | error e => cases hb

theorem Post.pure {α} {a : α} {P : α → Prop} (h : P a) : Post (pure a : M α) P := by
  intro b hb
  cases hb
  exact h

theorem Post.any {α} (m : M α) : Post m (fun _ => True) := fun _ _ => trivial

theorem Post.error {α} {e : Fail} {P : α → Prop} : Post (.error e : M α) P := by
  intro b hb; cases hb

theorem Post.mono {α} {m : M α} {P Q : α → Prop} (hm : Post m P) (h : ∀ a, P a → Q a) : Post m Q :=
  fun a ha => h a (hm a ha)

/-! ### tracking the sampling futures -/

/-- a future as `schedule_next_sample_block` pushes it -/
def FreshFut (s : State) (f : Fut) : Prop :=
  f.pending = f.shares ∧ f.timedOut = false ∧
    ∃ draws, randomIndexes (s.hdr f.height).width s.cfg.maxSamples draws = some f.shares

structure Trk (s s' : State) (toks : List Tok) : Prop where
  hdr : s'.hdr = s.hdr
  cfg : s'.cfg = s.cfg
  futs : ∀ f ∈ s'.w.futs, f ∈ s.w.futs ∨ FreshFut s f
  nomark : ∀ h, Tok.mark h ∉ toks

theorem Trk.refl (s : State) : Trk s s [] := ⟨rfl, rfl, fun _ hf => Or.inl hf, by simp⟩

theorem FreshFut.back {a b : State} {f : Fut} (hh : b.hdr = a.hdr) (hc : b.cfg = a.cfg) (h : FreshFut b f) :
    FreshFut a f := by
  obtain ⟨h1, h2, d, h3⟩ := h
  exact ⟨h1, h2, d, by rw [← hh, ← hc]; exact h3⟩

theorem Trk.trans {a b c : State} {t1 t2 : List Tok} (h1 : Trk a b t1) (h2 : Trk b c t2) : Trk a c (t1 ++ t2) := by
  refine ⟨h2.hdr.trans h1.hdr, h2.cfg.trans h1.cfg, ?_, ?_⟩
  · intro f hf
    rcases h2.futs f hf with h | h
    · exact h1.futs f h
    · exact Or.inr (h.back h1.hdr h1.cfg)
  · intro h hm
    rcases List.mem_append.mp hm with hm | hm
    · exact h1.nomark h hm
    · exact h2.nomark h hm

/-- the futures, the header chain and the configuration are untouched -/
theorem Trk.same {s s' : State} {toks : List Tok} (hh : s'.hdr = s.hdr) (hc : s'.cfg = s.cfg)
    (hf : s'.w.futs = s.w.futs) (hn : ∀ h, Tok.mark h ∉ toks) : Trk s s' toks :=
  ⟨hh, hc, fun _ hm => Or.inl (hf ▸ hm), hn⟩

/-- fewer futures -/
theorem Trk.sub {s s' : State} {toks : List Tok} (hh : s'.hdr = s.hdr) (hc : s'.cfg = s.cfg)
    (hf : ∀ f ∈ s'.w.futs, f ∈ s.w.futs) (hn : ∀ h, Tok.mark h ∉ toks) : Trk s s' toks :=
  ⟨hh, hc, fun f hm => Or.inl (hf f hm), hn⟩

theorem updateQueue_trk (s : State) : Post (updateQueue s) (fun r => Trk s r.1 r.2) := by
  unfold updateQueue
  refine Post.bind (Post.any _) fun c _ => ?_
  refine Post.bind (Post.any _) fun q1 _ => ?_
  refine Post.bind (Post.any _) fun q2 _ => ?_
  refine Post.bind (Post.any _) fun q3 _ => ?_
  exact Post.pure (Trk.same rfl rfl rfl (by simp))

theorem pickHeader_trk : ∀ (fuel : Nat) (s : State), Post (pickHeader fuel s) (fun r => Trk s r.2.1 r.2.2)
  | 0, s => Post.error
  | fuel + 1, s => by
    unfold pickHeader
    refine Post.bind (Post.any _) fun pq _ => ?_
    obtain ⟨top, q'⟩ := pq
    dsimp only
    cases top with
    | none => exact Post.pure (Trk.same rfl rfl rfl (by simp))
    | some h =>
      dsimp only
      split
      · refine Post.bind (Post.any _) fun q'' _ => ?_
        exact Post.pure (Trk.same rfl rfl rfl (by simp))
      · split
        · exact Post.pure (Trk.same rfl rfl rfl (by simp))
        · refine Post.bind (updateQueue_trk _) fun r2 h2 => ?_
          obtain ⟨s2, t2⟩ := r2
          refine Post.bind (pickHeader_trk fuel s2) fun r3 h3 => ?_
          obtain ⟨r, s3, t3⟩ := r3
          refine Post.pure ?_
          have h0 : Trk s { s with w := { s.w with queue := q' } } [] := Trk.same rfl rfl rfl (by simp)
          exact (h0.trans h2).trans h3

theorem scheduleNext_trk (s : State) (draws : List (Nat × Nat)) :
    Post (scheduleNext s draws) (fun r => Trk s r.2.1 r.2.2) := by
  unfold scheduleNext
  refine Post.bind (pickHeader_trk 3 s) fun r1 h1 => ?_
  obtain ⟨top, s1, t1⟩ := r1
  dsimp only at h1 ⊢
  cases top with
  | none => exact Post.pure h1
  | some h =>
    dsimp only
    split
    · refine Post.bind (Post.any _) fun q _ => ?_
      refine Post.bind (Post.any _) fun t _ => ?_
      refine Post.pure ?_
      have := h1.trans (Trk.same (s := s1) (s' := { s1 with w := { s1.w with queue := q, timedOut := t } })
        (toks := []) rfl rfl rfl (by simp))
      simpa using this
    · cases hri : randomIndexes (s1.hdr h).width s1.cfg.maxSamples draws with
      | none => exact Post.error
      | some shares =>
        dsimp only
        refine Post.bind (Post.any _) fun o _ => ?_
        refine Post.pure ?_
        refine h1.trans ⟨rfl, rfl, ?_, by simp⟩
        intro f hf
        dsimp only at hf
        rcases List.mem_append.mp hf with hf | hf
        · exact Or.inl hf
        · simp only [List.mem_singleton] at hf
          subst hf
          exact Or.inr ⟨rfl, rfl, draws, hri⟩

theorem scheduleLoop_trk : ∀ (fuel : Nat) (s : State) (rnd : List (List (Nat × Nat))),
    Post (scheduleLoop fuel s rnd) (fun r => Trk s r.2.1 r.2.2 ∧
      ∀ h, Tok.mark h ∉ pollNew r.1)
  | 0, s, _ => Post.error
  | fuel + 1, s, rnd => by
    unfold scheduleLoop
    refine Post.bind (scheduleNext_trk s _) fun r1 h1 => ?_
    obtain ⟨r, s1, t1⟩ := r1
    dsimp only at h1 ⊢
    have hpoll : ∀ (fs : List Fut) (h : Nat), Tok.mark h ∉ pollNew fs := by
      intro fs h hm
      simp [pollNew] at hm
    cases r with
    | none => exact Post.pure ⟨h1, hpoll _⟩
    | some f =>
      dsimp only
      refine Post.bind (scheduleLoop_trk fuel s1 rnd.tail) fun r2 h2 => ?_
      obtain ⟨fs, s2, t2⟩ := r2
      exact Post.pure ⟨h1.trans h2.1, hpoll _⟩

theorem scheduleAll_trk (s : State) (rnd : List (List (Nat × Nat))) :
    Post (scheduleAll s rnd) (fun r => Trk s r.1 r.2) := by
  unfold scheduleAll
  refine Post.bind (scheduleLoop_trk _ s rnd) fun r1 h1 => ?_
  obtain ⟨fs, s1, t1⟩ := r1
  refine Post.pure ?_
  have := h1.1.trans (Trk.same (s := s1) (s' := s1) (toks := pollNew fs) rfl rfl rfl h1.2)
  exact this

theorem onWantToPrune_trk (s : State) (h : Nat) : Post (onWantToPrune s h) (fun r => Trk s r.2 []) := by
  unfold onWantToPrune
  split
  · exact Post.pure (Trk.refl s)
  · refine Post.bind (Post.any _) fun q _ => ?_
    refine Post.bind (Post.any _) fun p _ => ?_
    exact Post.pure (Trk.same rfl rfl rfl (by simp))

theorem connect_trk (s : State) (rnd : List (List (Nat × Nat))) : Post (connect s rnd) (fun r => Trk s r.1 r.2) := by
  unfold connect
  refine Post.bind (updateQueue_trk _) fun r1 h1 => ?_
  obtain ⟨s1, t1⟩ := r1
  refine Post.bind (scheduleAll_trk s1 rnd) fun r2 h2 => ?_
  obtain ⟨s2, t2⟩ := r2
  refine Post.pure ?_
  have h0 : Trk s { s with w := { s.w with connected := true, waitHead := (head s.store.stored).getD 0 } } [] :=
    Trk.same rfl rfl rfl (by simp)
  exact (h0.trans h1).trans h2

/-- the completion arm: the futures that remain are old ones of other heights or fresh ones; the only possible
    `mark_as_sampled` is the one of the finished block, and only without a timeout -/
theorem onSamplingDone_trk (s : State) (h : Nat) (to : Bool) (rnd : List (List (Nat × Nat))) :
    Post (onSamplingDone s h to rnd) (fun r => r.1.hdr = s.hdr ∧ r.1.cfg = s.cfg ∧
      (∀ f ∈ r.1.w.futs, (f ∈ s.w.futs ∧ f.height ≠ h) ∨ FreshFut s f) ∧
      (∀ h', Tok.mark h' ∈ r.2 → h' = h ∧ to = false)) := by
  unfold onSamplingDone
  dsimp only
  have hfilt : ∀ f ∈ s.w.futs.filter (fun f => f.height != h), f ∈ s.w.futs ∧ f.height ≠ h := by
    intro f hf
    simpa using List.mem_filter.mp hf
  split
  · rename_i hto
    refine Post.bind (Post.any _) fun t _ => ?_
    refine Post.bind (Post.any _) fun o _ => ?_
    refine Post.mono (scheduleAll_trk _ rnd) ?_
    rintro ⟨s', toks⟩ htr
    refine ⟨htr.hdr, htr.cfg, ?_, fun h' hm => absurd hm (htr.nomark h')⟩
    intro f hf
    rcases htr.futs f hf with hf | hf
    · exact Or.inl (hfilt f hf)
    · exact Or.inr (hf.back rfl rfl)
  · rename_i hto
    have hto' : to = false := by simpa using hto
    split
    · refine Post.pure ⟨rfl, rfl, ?_, ?_⟩
      · intro f hf; simp [die, Worker.deadState, Worker.init] at hf
      · intro h' hm
        simp only [List.mem_cons, Tok.mark.injEq, reduceCtorEq, List.not_mem_nil, or_false] at hm
        exact ⟨hm, hto'⟩
    · refine Post.bind (Post.any _) fun sm _ => ?_
      refine Post.bind (Post.any _) fun c _ => ?_
      refine Post.bind (Post.any _) fun o _ => ?_
      refine Post.bind (scheduleAll_trk _ rnd) fun r htr => ?_
      obtain ⟨s', toks⟩ := r
      refine Post.pure ⟨htr.hdr, htr.cfg, ?_, ?_⟩
      · intro f hf
        rcases htr.futs f hf with hf | hf
        · exact Or.inl (hfilt f hf)
        · exact Or.inr (hf.back rfl rfl)
      · intro h' hm
        rcases List.mem_cons.mp hm with hm | hm
        · injection hm with hm; exact ⟨hm, hto'⟩
        · exact absurd hm (htr.nomark h')

/-- every stimulus except a network answer -/
theorem stepM_trk (s : State) (ev : Ev) (rnd : List (List (Nat × Nat))) (hev : ∀ h p to, ev ≠ .answer h p to) :
    Post (stepM s ev rnd) (fun r => Trk s r.1 r.2) := by
  cases ev with
  | insert lo hi =>
    simp only [stepM]
    cases storeInsert s.store lo hi with
    | none => exact Post.pure (Trk.same rfl rfl rfl (by simp))
    | some st =>
      dsimp only
      split
      · refine Post.bind (updateQueue_trk _) fun r1 h1 => ?_
        obtain ⟨s1, t1⟩ := r1
        refine Post.bind (scheduleAll_trk s1 rnd) fun r2 h2 => ?_
        obtain ⟨s2, t2⟩ := r2
        refine Post.pure ?_
        have h0 : Trk s { s with store := st, w := { s.w with waitHead := (head st.stored).getD 0 } } [] :=
          Trk.same rfl rfl rfl (by simp)
        exact (h0.trans h1).trans h2
      · exact Post.pure (Trk.same rfl rfl rfl (by simp))
  | remove h =>
    simp only [stepM]
    cases storeRemove s.store h with
    | none => exact Post.pure (Trk.same rfl rfl rfl (by simp))
    | some st => exact Post.pure (Trk.same rfl rfl rfl (by simp))
  | peers n =>
    simp only [stepM]
    split
    · split
      · exact Post.pure (Trk.sub rfl rfl (by simp [disconnect]) (by simp))
      · exact scheduleAll_trk s rnd
    · split
      · exact Post.pure (Trk.refl s)
      · exact connect_trk s rnd
  | prune h =>
    simp only [stepM]
    refine Post.bind (onWantToPrune_trk s h) fun r1 h1 => ?_
    obtain ⟨ok, s1⟩ := r1
    dsimp only at h1 ⊢
    split
    · refine Post.bind (scheduleAll_trk s1 rnd) fun r2 h2 => ?_
      obtain ⟨s2, t2⟩ := r2
      refine Post.pure ?_
      have := h1.trans h2
      refine ⟨this.hdr, this.cfg, this.futs, ?_⟩
      intro h' hm
      rcases List.mem_cons.mp hm with hm | hm
      · cases hm
      · exact this.nomark h' (by simpa using hm)
    · exact Post.pure ⟨h1.hdr, h1.cfg, h1.futs, by simp⟩
  | setHighestPrunable v =>
    simp only [stepM]
    split
    · refine Post.mono (scheduleAll_trk _ rnd) ?_
      rintro ⟨s', toks⟩ htr
      exact ⟨htr.hdr, htr.cfg, htr.futs, htr.nomark⟩
    · exact Post.pure (Trk.same rfl rfl rfl (by simp))
  | setNumPrunable v =>
    simp only [stepM]
    split
    · refine Post.mono (scheduleAll_trk _ rnd) ?_
      rintro ⟨s', toks⟩ htr
      exact ⟨htr.hdr, htr.cfg, htr.futs, htr.nomark⟩
    · exact Post.pure (Trk.same rfl rfl rfl (by simp))
  | answer h p to => exact absurd rfl (hev h p to)

/-! ### the ghost history: successful answers to outstanding requests -/

/-- share `p` of block `h` is being waited for -/
def outstanding (s : State) (h : Nat) (p : Share) : Bool :=
  s.w.futs.any (fun f => f.height == h && f.pending.contains p)

/-- the stimulus is a successful answer (`Ok(sample)`) to an outstanding request -/
def hitOf (s : State) (ev : Ev) : List (Nat × Share) :=
  match ev with
  | .answer h p false => if outstanding s h p then [(h, p)] else []
  | _ => []

/-- all of them along a history -/
def hits (s : State) : List (Ev × List (List (Nat × Nat))) → List (Nat × Share)
  | [] => []
  | (ev, rnd) :: rest => hitOf s ev ++ hits (step s ev rnd).1 rest

def FutOK (s : State) (A : List (Nat × Share)) (f : Fut) : Prop :=
  C33.sharesOK (s.hdr f.height).width f.shares = true ∧
  ∀ q ∈ f.shares, q ∈ f.pending ∨ f.timedOut = true ∨ (f.height, q) ∈ A

def FutsOK (s : State) (A : List (Nat × Share)) : Prop := ∀ f ∈ s.w.futs, FutOK s A f

theorem FutOK.mono {s s' : State} {A B : List (Nat × Share)} {f : Fut} (h : FutOK s A f) (hh : s'.hdr = s.hdr)
    (hAB : ∀ x ∈ A, x ∈ B) : FutOK s' B f := by
  refine ⟨by rw [hh]; exact h.1, fun q hq => ?_⟩
  rcases h.2 q hq with h1 | h1 | h1
  · exact Or.inl h1
  · exact Or.inr (Or.inl h1)
  · exact Or.inr (Or.inr (hAB _ h1))

theorem FreshFut.ok {s : State} {f : Fut} (h16 : s.cfg.maxSamples = 16) (h : FreshFut s f) (A : List (Nat × Share)) :
    FutOK s A f := by
  obtain ⟨hp, _, d, hr⟩ := h
  rw [h16] at hr
  obtain ⟨h1, h2, h3⟩ := randomIndexes_spec _ 16 d _ hr
  refine ⟨?_, fun q hq => Or.inl (by rw [hp]; exact hq)⟩
  simp only [C33.sharesOK, Bool.and_eq_true, decide_eq_true_eq, List.all_eq_true, beq_iff_eq]
  exact ⟨⟨h1, fun q hq => h2 q hq⟩, h3⟩

theorem Trk.futsOK {s s' : State} {toks : List Tok} {A : List (Nat × Share)} (h : Trk s s' toks)
    (h16 : s.cfg.maxSamples = 16) (hA : FutsOK s A) : FutsOK s' A := by
  intro f hf
  rcases h.futs f hf with hf | hf
  · exact (hA f hf).mono h.hdr (fun _ hx => hx)
  · exact (hf.ok h16 A).mono h.hdr (fun _ hx => hx)

/-- one `get_sample` resolves -/
def answered (f : Fut) (p : Share) (to : Bool) : Fut :=
  { f with pending := f.pending.erase p, timedOut := f.timedOut || to }

theorem onAnswer_trk (s : State) (h : Nat) (p : Share) (to : Bool) (rnd : List (List (Nat × Nat))) :
    Post (onAnswer s h p to rnd) (fun r => r.1.hdr = s.hdr ∧ r.1.cfg = s.cfg ∧
      (∀ g ∈ r.1.w.futs, g ∈ s.w.futs ∨ FreshFut s g ∨
        ∃ f ∈ s.w.futs, f.height = h ∧ p ∈ f.pending ∧ g = answered f p to) ∧
      (∀ h', Tok.mark h' ∈ r.2 → h' = h ∧
        ∃ f ∈ s.w.futs, f.height = h ∧ f.pending.erase p = [] ∧ p ∈ f.pending ∧ (f.timedOut || to) = false)) := by
  unfold onAnswer
  cases hfind : s.w.futs.find? (fun f => f.height == h) with
  | none => exact Post.pure ⟨rfl, rfl, fun g hg => Or.inl hg, by simp⟩
  | some f =>
    have hfm : f ∈ s.w.futs := List.mem_of_find?_eq_some hfind
    have hfh : f.height = h := by simpa using List.find?_some hfind
    dsimp only
    split
    · exact Post.pure ⟨rfl, rfl, fun g hg => Or.inl hg, by simp⟩
    · rename_i hpend
      have hpm : p ∈ f.pending := by simpa using hpend
      split
      · rename_i hemp
        have hemp' : f.pending.erase p = [] := by simpa using hemp
        refine Post.bind (onSamplingDone_trk s h (f.timedOut || to) rnd) fun r hr => ?_
        obtain ⟨s', t⟩ := r
        obtain ⟨h1, h2, h3, h4⟩ := hr
        refine Post.pure ⟨h1, h2, ?_, ?_⟩
        · intro g hg
          rcases h3 g hg with hg | hg
          · exact Or.inl hg.1
          · exact Or.inr (Or.inl hg)
        · intro h' hm
          simp only [List.mem_cons, reduceCtorEq, false_or] at hm
          obtain ⟨e1, e2⟩ := h4 h' hm
          exact ⟨e1, f, hfm, hfh, hemp', hpm, e2⟩
      · refine Post.pure ⟨rfl, rfl, ?_, by simp⟩
        intro g hg
        dsimp only at hg
        obtain ⟨g0, hg0, rfl⟩ := List.mem_map.mp hg
        split
        · exact Or.inr (Or.inr ⟨f, hfm, hfh, hpm, rfl⟩)
        · exact Or.inl hg0

theorem answered_ok {s : State} {A : List (Nat × Share)} {f : Fut} {p : Share} {to : Bool}
    (hf : FutOK s A f) (hfm : f ∈ s.w.futs) (hp : p ∈ f.pending) :
    FutOK s (A ++ hitOf s (.answer f.height p to)) (answered f p to) := by
  refine ⟨hf.1, fun q hq => ?_⟩
  rcases hf.2 q hq with h1 | h1 | h1
  · by_cases hqp : q = p
    · subst hqp
      cases to with
      | true => exact Or.inr (Or.inl (by simp [answered]))
      | false =>
        refine Or.inr (Or.inr ?_)
        have : outstanding s f.height q = true := by
          simp only [outstanding, List.any_eq_true, Bool.and_eq_true, beq_iff_eq, List.contains_iff_mem]
          exact ⟨f, hfm, rfl, hp⟩
        simp [hitOf, this, answered]
    · exact Or.inl ((List.mem_erase_of_ne hqp).mpr h1)
  · exact Or.inr (Or.inl (by simp [answered, h1]))
  · exact Or.inr (Or.inr (List.mem_append_left _ h1))

/-! ### one stimulus, every history -/

theorem stepDead_futs (s : State) (ev : Ev) : (stepDead s ev).1.w.futs = s.w.futs ∧ (stepDead s ev).1.hdr = s.hdr ∧
    (stepDead s ev).1.cfg = s.cfg ∧ ∀ h, Tok.mark h ∉ (stepDead s ev).2 := by
  cases ev with
  | insert lo hi => simp only [stepDead]; cases storeInsert s.store lo hi <;> simp
  | remove h => simp only [stepDead]; cases storeRemove s.store h <;> simp
  | _ => simp [stepDead]

/-- **one stimulus**: the ghost invariant is kept (the answers seen grow by this stimulus' hit), and a
    `mark_as_sampled(h)` in the worker's reaction means that every share chosen for `h` — distinct, in-square,
    `min (w², 16)` many — has been answered successfully -/
theorem step_futsOK (s : State) (ev : Ev) (rnd : List (List (Nat × Nat))) (A : List (Nat × Share))
    (h16 : s.cfg.maxSamples = 16) (hA : FutsOK s A) :
    FutsOK (step s ev rnd).1 (A ++ hitOf s ev) ∧ (step s ev rnd).1.hdr = s.hdr ∧ (step s ev rnd).1.cfg = s.cfg ∧
    ∀ h, Tok.mark h ∈ (step s ev rnd).2 →
      ∃ shares, C33.sharesOK (s.hdr h).width shares = true ∧ ∀ q ∈ shares, (h, q) ∈ A ++ hitOf s ev := by
  have hmono : ∀ {s' : State} {f : Fut}, s'.hdr = s.hdr → FutOK s A f → FutOK s' (A ++ hitOf s ev) f :=
    fun hh hf => hf.mono hh (fun _ hx => List.mem_append_left _ hx)
  unfold step
  split
  · obtain ⟨h1, h2, h3, h4⟩ := stepDead_futs s ev
    refine ⟨fun f hf => hmono h2 (hA f (h1 ▸ hf)), h2, h3, fun h hm => absurd hm (h4 h)⟩
  · cases hm : stepM s ev rnd with
    | error e =>
      refine ⟨fun f hf => by simp [die, Worker.deadState, Worker.init] at hf, rfl, rfl, ?_⟩
      intro h hmk
      cases ev <;> simp at hmk
    | ok r =>
      dsimp only
      by_cases hev : ∀ h p to, ev ≠ .answer h p to
      · have htr := stepM_trk s ev rnd hev r hm
        refine ⟨fun f hf => ?_, htr.hdr, htr.cfg, fun h hmk => absurd hmk (htr.nomark h)⟩
        exact hmono htr.hdr ((htr.futsOK h16 hA f hf).mono htr.hdr.symm (fun _ hx => hx)) |>.mono rfl (fun _ hx => hx)
      · have : ∃ h p to, ev = .answer h p to := by
          apply Classical.byContradiction
          intro hn
          exact hev (fun h p to he => hn ⟨h, p, to, he⟩)
        obtain ⟨h, p, to, rfl⟩ := this
        simp only [stepM] at hm
        obtain ⟨h1, h2, h3, h4⟩ := onAnswer_trk s h p to rnd r hm
        refine ⟨?_, h1, h2, ?_⟩
        · intro g hg
          rcases h3 g hg with hg | hg | ⟨f, hfm, hfh, hpm, rfl⟩
          · exact hmono h1 (hA g hg)
          · exact ((hg.ok h16 A).mono h1 (fun _ hx => List.mem_append_left _ hx))
          · subst hfh
            exact (answered_ok (hA f hfm) hfm hpm).mono h1 (fun _ hx => hx)
        · intro h' hmk
          obtain ⟨rfl, f, hfm, hfh, hemp, hpm, hto⟩ := h4 h' hmk
          subst hfh
          have hok := answered_ok (to := to) (hA f hfm) hfm hpm
          refine ⟨f.shares, hok.1, fun q hq => ?_⟩
          rcases hok.2 q hq with h5 | h5 | h5
          · simp [answered, hemp] at h5
          · simp only [answered] at h5; rw [hto] at h5; cases h5
          · exact h5

theorem run_futsOK : ∀ (evs : List (Ev × List (List (Nat × Nat)))) (s : State) (A : List (Nat × Share)),
    s.cfg.maxSamples = 16 → FutsOK s A →
    FutsOK (run s evs).1 (A ++ hits s evs) ∧ (run s evs).1.hdr = s.hdr ∧ (run s evs).1.cfg = s.cfg
  | [], s, A, _, hA => by simpa [run, hits] using hA
  | (ev, rnd) :: rest, s, A, h16, hA => by
    obtain ⟨h1, h2, h3, _⟩ := step_futsOK s ev rnd A h16 hA
    obtain ⟨h4, h5, h6⟩ := run_futsOK rest (step s ev rnd).1 (A ++ hitOf s ev) (by rw [h3]; exact h16) h1
    simp only [run, hits]
    refine ⟨?_, h5.trans h2, h6.trans h3⟩
    rw [← List.append_assoc]
    exact h4

theorem hits_append (s : State) (pre : List (Ev × List (List (Nat × Nat)))) (ev : Ev) (rnd : List (List (Nat × Nat))) :
    hits s (pre ++ [(ev, rnd)]) = hits s pre ++ hitOf (run s pre).1 ev := by
  induction pre generalizing s with
  | nil => simp [hits, run]
  | cons x rest ih =>
    obtain ⟨ev0, rnd0⟩ := x
    simp only [List.cons_append, hits, run, ih, List.append_assoc]

end Lumina.Proofs.DaserSampled

/-
  Order facts about the namespaced hasher: `ltB`/`leB` is a total preorder on byte strings, and the root of
  a tree whose leaves are in namespace order NEVER hits the `hash_nodes` panic
  ("left max namespace must be <= right min namespace").

  Owner: group D2.
-/
import Lumina.Proofs.Nmt

namespace Lumina.Proofs.NmtOrder
open Lumina.Util Lumina.Model.Nmt

theorem ltB_irrefl : ∀ (a : Bytes), ltB a a = false
  | [] => rfl
  | x :: xs => by simp [ltB, ltB_irrefl xs]

theorem leB_refl (a : Bytes) : leB a a = true := by simp [leB, ltB_irrefl]

/-- negative transitivity of the strict lexicographic order -/
theorem ltB_neg_trans : ∀ (c b a : Bytes), ltB c a = true → ltB c b = true ∨ ltB b a = true
  | [], [], [] => by simp [ltB]
  | [], [], _ :: _ => by simp [ltB]
  | [], _ :: _, _ => by simp [ltB]
  | _ :: _, _, [] => by simp [ltB]
  | _ :: _, [], _ :: _ => by simp [ltB]
  | z :: cs, y :: bs, x :: as => by
    intro h
    simp only [ltB] at h ⊢
    have ih := ltB_neg_trans cs bs as
    by_cases hzx : z < x
    · by_cases hzy : z < y
      · simp [hzy]
      · by_cases hyx : y < x
        · simp [hyx]
        · exfalso
          rw [UInt8.lt_iff_toNat_lt] at hzx hzy hyx
          omega
    · simp only [hzx, ↓reduceIte] at h
      by_cases hzxe : z = x
      · subst hzxe
        simp only [↓reduceIte] at h
        by_cases hzy : z < y
        · simp [hzy]
        · by_cases hyz : y < z
          · simp [hyz]
          · have : z = y := by
              apply UInt8.toNat_inj.mp
              rw [UInt8.lt_iff_toNat_lt] at hzy hyz
              omega
            subst this
            simp only [hzy, ↓reduceIte]
            exact ih h
      · simp [hzxe] at h

theorem leB_trans {a b c : Bytes} (h1 : leB a b = true) (h2 : leB b c = true) : leB a c = true := by
  unfold leB at *
  cases h : ltB c a with
  | false => rfl
  | true =>
    rcases ltB_neg_trans c b a h with h' | h'
    · simp [h'] at h2
    · simp [h'] at h1

/-- a string at least as long as a run of zeros is not below it -/
theorem not_ltB_zeros : ∀ (n : Nat) (a : Bytes), n ≤ a.length → ltB a (List.replicate n 0) = false
  | 0, [] , _ => rfl
  | 0, _ :: _, _ => rfl
  | n + 1, [], h => by simp at h
  | n + 1, x :: xs, h => by
    simp only [List.replicate_succ, ltB]
    have hx : ¬ x < 0 := by rw [UInt8.lt_iff_toNat_lt]; simp
    simp only [hx, ↓reduceIte]
    by_cases h0 : x = 0
    · simp only [h0, ↓reduceIte]; exact not_ltB_zeros n xs (by simpa using h)
    · simp [h0]

/-- the `min ≤ max` shape of a node -/
def NodeOK (h : NsHash) : Prop := leB h.minNs h.maxNs = true

/-- namespace order between two nodes: everything under the left one is below everything under the right one -/
def Before (a b : NsHash) : Prop := leB a.maxNs b.minNs = true

theorem hashLeaf_nodeOK (H : HashFn) (ns d : Bytes) : NodeOK (hashLeaf H ns d) := leB_refl ns

/-- the root of an ordered, non-empty list of well-shaped nodes: no panic; the root spans from the first node's
    minimum to (at most) any common upper bound of the nodes -/
theorem computeRootAux_sorted (H : HashFn) (ign : Bool) : ∀ (fuel : Nat) (L : List NsHash),
    L.length < fuel → L ≠ [] → (∀ x ∈ L, NodeOK x) → L.Pairwise Before →
    ∃ r, computeRootAux H ign fuel L = .ok r ∧ NodeOK r ∧ (∀ hd, L.head? = some hd → r.minNs = hd.minNs) ∧
      (∀ y, (∀ x ∈ L, leB x.minNs y = true ∧ leB x.maxNs y = true) → leB r.maxNs y = true) := by
  intro fuel
  induction fuel with
  | zero => intro L h; omega
  | succ fuel ih =>
    intro L hf hne hok hpw
    match L, hne with
    | [x], _ =>
      refine ⟨x, rfl, hok x (by simp), ?_, ?_⟩
      · intro hd h; simp at h; rw [h]
      · intro y hy; exact (hy x (by simp)).2
    | a :: b :: rest, _ =>
      have hlen : 2 ≤ (a :: b :: rest).length := by simp
      obtain ⟨m, hm, hlt, _⟩ := Lumina.Proofs.Nmt.nextSmallerPo2_spec (a :: b :: rest).length hlen
      generalize hL : a :: b :: rest = L at *
      have hk1 : 1 ≤ nextSmallerPo2 L.length := by rw [hm]; exact Nat.one_le_two_pow
      have hk2 : nextSmallerPo2 L.length < L.length := by rw [hm]; exact hlt
      have htake : (L.take (nextSmallerPo2 L.length)) ≠ [] := by
        intro h; have := congrArg List.length h; rw [List.length_take, List.length_nil] at this; omega
      have hdrop : (L.drop (nextSmallerPo2 L.length)) ≠ [] := by
        intro h; have := congrArg List.length h; rw [List.length_drop, List.length_nil] at this; omega
      have happ : L = L.take (nextSmallerPo2 L.length) ++ L.drop (nextSmallerPo2 L.length) :=
        (List.take_append_drop _ _).symm
      have hpw' := hpw
      rw [happ, List.pairwise_append] at hpw'
      obtain ⟨pwl, pwr, cross⟩ := hpw'
      obtain ⟨l, hl, lok, lmin, lmax⟩ := ih (L.take (nextSmallerPo2 L.length))
        (by rw [List.length_take]; omega) htake (fun x hx => hok x (List.mem_of_mem_take hx)) pwl
      obtain ⟨r, hr, rok, rmin, rmax⟩ := ih (L.drop (nextSmallerPo2 L.length))
        (by rw [List.length_drop]; omega) hdrop (fun x hx => hok x (List.mem_of_mem_drop hx)) pwr
      -- the head of the right part
      obtain ⟨rh, hrh⟩ : ∃ rh, (L.drop (nextSmallerPo2 L.length)).head? = some rh := by
        cases hd : L.drop (nextSmallerPo2 L.length) with
        | nil => exact (hdrop hd).elim
        | cons q qs => exact ⟨q, rfl⟩
      have hrhmem : rh ∈ L.drop (nextSmallerPo2 L.length) := List.mem_of_mem_head? hrh
      have hrm : r.minNs = rh.minNs := rmin rh hrh
      -- left.max ≤ right.min
      have hlr : leB l.maxNs r.minNs = true := by
        rw [hrm]
        apply lmax
        intro x hx
        have hb : Before x rh := cross x hx rh hrhmem
        exact ⟨leB_trans (hok x (List.mem_of_mem_take hx)) hb, hb⟩
      have hnp : ltB r.minNs l.maxNs = false := by
        unfold leB at hlr; simpa using hlr
      have hlmin : leB l.minNs r.minNs = true := leB_trans lok hlr
      have hstep : computeRootAux H ign (fuel + 1) L = hashNodes H ign l r := by
        rw [← hL]
        simp only [computeRootAux]
        rw [hL, hl, hr]
      refine ⟨_, by rw [hstep]; simp only [hashNodes, hnp]; rfl, ?_, ?_, ?_⟩
      · -- NodeOK
        simp only [NodeOK, minB, hlmin, ↓reduceIte]
        split
        · rename_i h1
          simp only [Bool.and_eq_true, beq_iff_eq] at h1
          rw [h1.2]; exact leB_refl _
        · split
          · exact lok
          · simp only [maxB]
            split
            · exact leB_trans lok (leB_trans hlr rok)
            · exact lok
      · intro hd hhd
        simp only [minB, hlmin, ↓reduceIte]
        apply lmin
        rw [← hhd]
        cases hLL : L with
        | nil => simp [hLL] at hk2
        | cons q qs =>
          have : 0 < nextSmallerPo2 (q :: qs).length := by rw [← hLL]; omega
          rw [List.head?_take]
          have hne0 : ¬ nextSmallerPo2 (qs.length + 1) = 0 := by
            have : (q :: qs).length = qs.length + 1 := rfl
            rw [← this]; omega
          simp [hne0]
      · intro y hy
        have hyl : ∀ x ∈ L.take (nextSmallerPo2 L.length), leB x.minNs y = true ∧ leB x.maxNs y = true :=
          fun x hx => hy x (List.mem_of_mem_take hx)
        have hyr : ∀ x ∈ L.drop (nextSmallerPo2 L.length), leB x.minNs y = true ∧ leB x.maxNs y = true :=
          fun x hx => hy x (List.mem_of_mem_drop hx)
        show leB (if (ign && l.minNs == maxNsId) = true then maxNsId
          else if (ign && r.minNs == maxNsId) = true then l.maxNs else maxB l.maxNs r.maxNs) y = true
        split
        · rename_i h1
          simp only [Bool.and_eq_true, beq_iff_eq] at h1
          rw [← h1.2]
          -- l.minNs is the minimum of the head of L
          obtain ⟨lh, hlh⟩ : ∃ lh, (L.take (nextSmallerPo2 L.length)).head? = some lh := by
            cases hd : L.take (nextSmallerPo2 L.length) with
            | nil => exact (htake hd).elim
            | cons q qs => exact ⟨q, rfl⟩
          rw [lmin lh hlh]
          exact (hyl lh (List.mem_of_mem_head? hlh)).1
        · split
          · exact lmax y hyl
          · simp only [maxB]
            split
            · exact rmax y hyr
            · exact lmax y hyl

/-- **No `hash_nodes` panic on ordered leaves**: `MerkleTree::root()` of a non-empty list of well-shaped nodes in
    namespace order is computed without error, for either setting of `ignore_max_ns`. -/
theorem computeRoot_sorted (H : HashFn) (ign : Bool) {L : List NsHash} (hne : L ≠ [])
    (hok : ∀ x ∈ L, NodeOK x) (hpw : L.Pairwise Before) : ∃ r, computeRoot H ign L = .ok r :=
  let ⟨r, hr, _⟩ := computeRootAux_sorted H ign (L.length + 1) L (by omega) hne hok hpw
  ⟨r, hr⟩

/-- leaf hashes of leaves whose namespaces are in order are in order -/
theorem leaves_pairwise (H : HashFn) : ∀ {leaves : List (Bytes × Bytes)},
    (leaves.map Prod.fst).Pairwise (fun a b => leB a b = true) →
    (leaves.map (fun p => hashLeaf H p.1 p.2)).Pairwise Before := by
  intro leaves
  induction leaves with
  | nil => intro _; exact List.Pairwise.nil
  | cons a t ih =>
    intro h
    simp only [List.map_cons, List.pairwise_cons] at h ⊢
    refine ⟨?_, ih h.2⟩
    intro x hx
    obtain ⟨y, hy, rfl⟩ := List.mem_map.mp hx
    exact h.1 y.1 (List.mem_map.mpr ⟨y, hy, rfl⟩)

/-- `push_leaf`'s order check passes on namespaces in order that are at least 29 bytes long -/
theorem pushOrderOk_of_pairwise : ∀ (nss : List Bytes) (hi : Bytes),
    nss.Pairwise (fun a b => leB a b = true) → (∀ x ∈ nss, leB hi x = true) → pushOrderOk hi nss = true
  | [], _, _, _ => rfl
  | ns :: rest, hi, hp, hh => by
    simp only [pushOrderOk]
    have h1 : ltB ns hi = false := by
      have := hh ns (by simp); unfold leB at this; simpa using this
    simp only [h1, Bool.false_eq_true, ↓reduceIte]
    rw [List.pairwise_cons] at hp
    exact pushOrderOk_of_pairwise rest ns hp.2 hp.1

end Lumina.Proofs.NmtOrder

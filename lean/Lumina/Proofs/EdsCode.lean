/-
  What `ExtendedDataSquare::new` guarantees about the square it returns (`NewOK`), and that
  `DataAvailabilityHeader::from_eds` cannot fail on such a square (no `expect` failure, no nmt-rs panic).

  Owner: group D2.
-/
import Lumina.Proofs.NmtOrder
import Lumina.Proofs.Eds
import Lumina.Model.EdsCode

namespace Lumina.Proofs.EdsCode
open Lumina.Util Lumina.Model.Nmt Lumina.Model.Eds Lumina.Model.EdsCode
open Lumina.Proofs.Nmt Lumina.Proofs.NmtOrder Lumina.Proofs.Eds

/-! ## integer helpers -/

theorem isPow2Aux_pow : ∀ (fuel n : Nat), isPow2Aux fuel n = true → ∃ k, n = 2 ^ k
  | 0, _, h => by simp [isPow2Aux] at h
  | fuel + 1, n, h => by
    simp only [isPow2Aux] at h
    split at h
    · rename_i h1; exact ⟨0, by simpa using h1⟩
    · split at h
      · cases h
      · rename_i h1 h2
        obtain ⟨k, hk⟩ := isPow2Aux_pow fuel (n / 2) h
        refine ⟨k + 1, ?_⟩
        rw [Nat.pow_succ, ← hk]
        omega

theorem isPow2_pow {n : Nat} (h : isPow2 n = true) : ∃ k, n = 2 ^ k := isPow2Aux_pow n n h

/-! ## grids -/

theorem sum_const_range (w : Nat) : ∀ n, ((List.range n).map (fun _ => w)).sum = n * w
  | 0 => by simp
  | n + 1 => by
    rw [List.range_succ, List.map_append, List.sum_append, sum_const_range w n]
    simp [Nat.succ_mul]

/-- indexing a grid laid out row-major -/
theorem grid_getElem? {α} (f : Nat → Nat → α) (w : Nat) : ∀ (n r c : Nat), r < n → c < w →
    (((List.range n).map (fun r => (List.range w).map (f r))).flatten)[r * w + c]? = some (f r c) := by
  intro n
  induction n with
  | zero => intro r c h; omega
  | succ n ih =>
    intro r c hr hc
    rw [List.range_succ, List.map_append, List.flatten_append]
    have hlen : (((List.range n).map (fun r => (List.range w).map (f r))).flatten).length = n * w := by
      rw [List.length_flatten]
      simp [List.map_map, Function.comp_def, sum_const_range]
    by_cases hrn : r < n
    · rw [List.getElem?_append_left]
      · exact ih r c hrn hc
      · rw [hlen]
        calc r * w + c < r * w + w := by omega
          _ = (r + 1) * w := by rw [Nat.succ_mul]
          _ ≤ n * w := Nat.mul_le_mul_right w hrn
    · have : r = n := by omega
      subst this
      rw [List.getElem?_append_right (by rw [hlen]; omega), hlen]
      simp [hc]

theorem grid_length {α} (f : Nat → Nat → α) (w n : Nat) :
    (((List.range n).map (fun r => (List.range w).map (f r))).flatten).length = n * w := by
  rw [List.length_flatten]
  simp [List.map_map, Function.comp_def, sum_const_range]

/-! ## the closure `check_share` -/

/-- the share `check_share(row, col, ..)` builds: the raw bytes at the flattened index, parity flag from the quadrant -/
def cell (w : Nat) (shares : List Bytes) (r c : Nat) : Share :=
  ⟨shares.getD (r * w + c) [], !isOdsSquare r c w⟩

/-- per-share facts established by `check_share` -/
structure CellOK (ver : Nat) (sh : Share) : Prop where
  size : sh.data.length = SHARE_SIZE
  ns : sh.isParity = false → ∃ n, Lumina.Model.Namespace.fromRaw (sh.data.take NS_SIZE) = .ok n
  version : shareValidate ver sh = .ok ()

theorem checkShare_ok {ver w : Nat} {shares : List Bytes} {r c : Nat} {prev : Option Bytes} {sh : Share}
    (h : checkShare ver w shares r c prev = .ok sh) :
    sh = cell w shares r c ∧ CellOK ver sh ∧ ∀ p, prev = some p → leB p sh.ns = true := by
  unfold checkShare at h
  simp only at h
  split at h
  · cases h
  · rename_i s hs
    split at h
    · cases h
    · rename_i hval
      have hsh : sh = s := by
        cases prev with
        | none => simp at h; exact h.symm
        | some p =>
          simp only at h
          split at h
          · cases h
          · simp at h; exact h.symm
      subst hsh
      have hord : ∀ p, prev = some p → leB p sh.ns = true := by
        intro p hp
        subst hp
        simp only at h
        split at h
        · cases h
        · rename_i hlt; unfold leB; simpa using hlt
      refine ⟨?_, ?_, hord⟩
      · -- shape
        by_cases ho : isOdsSquare r c w = true
        · simp only [ho, ↓reduceIte] at hs
          unfold shareFromRaw at hs
          split at hs
          · cases hs
          · split at hs
            · cases hs
            · injection hs with hs; rw [← hs]; simp [cell, ho]
        · simp only [ho, Bool.false_eq_true, ↓reduceIte] at hs
          unfold shareParity at hs
          split at hs
          · cases hs
          · injection hs with hs; rw [← hs]; simp [cell, ho]
      · by_cases ho : isOdsSquare r c w = true
        · simp only [ho, ↓reduceIte] at hs
          unfold shareFromRaw at hs
          split at hs
          · cases hs
          · rename_i hlen
            split at hs
            · cases hs
            · rename_i n hn
              injection hs with hs
              subst hs
              exact ⟨by simpa using hlen, fun _ => ⟨n, hn⟩, hval⟩
        · simp only [ho, Bool.false_eq_true, ↓reduceIte] at hs
          unfold shareParity at hs
          split at hs
          · cases hs
          · rename_i hlen
            injection hs with hs
            subst hs
            exact ⟨by simpa using hlen, fun hp => by simp at hp, hval⟩

theorem checkLine_ok {ver w : Nat} {shares : List Bytes} : ∀ {coords : List (Nat × Nat)} {prev : Option Bytes}
    {l : List Share}, checkLine ver w shares coords prev = .ok l →
    l = coords.map (fun p => cell w shares p.1 p.2) ∧ (∀ sh ∈ l, CellOK ver sh) ∧
    (l.map Share.ns).Pairwise (fun a b => leB a b = true) ∧ (∀ p, prev = some p → ∀ sh ∈ l, leB p sh.ns = true) := by
  intro coords
  induction coords with
  | nil =>
    intro prev l h
    simp only [checkLine, Except.ok.injEq] at h
    subst h
    simp
  | cons rc rest ih =>
    intro prev l h
    obtain ⟨r, c⟩ := rc
    simp only [checkLine] at h
    cases hcs : checkShare ver w shares r c prev with
    | error e => simp [hcs] at h
    | ok sh =>
      simp only [hcs] at h
      cases hrest : checkLine ver w shares rest (some sh.ns) with
      | error e => simp [hrest] at h
      | ok l' =>
        simp only [hrest, Except.ok.injEq] at h
        subst h
        obtain ⟨e1, ok1, ord1⟩ := checkShare_ok hcs
        obtain ⟨e2, ok2, pw2, ord2⟩ := ih hrest
        refine ⟨by simp [e1, ← e2], ?_, ?_, ?_⟩
        · intro x hx
          rcases List.mem_cons.mp hx with rfl | hx
          · exact ok1
          · exact ok2 x hx
        · simp only [List.map_cons, List.pairwise_cons]
          refine ⟨?_, pw2⟩
          intro a ha
          obtain ⟨y, hy, rfl⟩ := List.mem_map.mp ha
          exact ord2 sh.ns rfl y hy
        · intro p hp x hx
          rcases List.mem_cons.mp hx with rfl | hx
          · exact ord1 p hp
          · exact Lumina.Proofs.NmtOrder.leB_trans (ord1 p hp) (ord2 sh.ns rfl x hx)

/-- the shares of line `i` of direction `ax` -/
def lineCells (w : Nat) (shares : List Bytes) (ax : Axis) (i : Nat) : List Share :=
  (List.range w).map (fun j => cell w shares (axisCoord ax i j).1 (axisCoord ax i j).2)

theorem checkLines_ok {ver w : Nat} {shares : List Bytes} {ax : Axis} : ∀ {idxs : List Nat} {sq : List Share},
    checkLines ver w shares ax idxs = .ok sq →
    sq = (idxs.map (lineCells w shares ax)).flatten ∧
    ∀ i ∈ idxs, (∀ sh ∈ lineCells w shares ax i, CellOK ver sh) ∧
      ((lineCells w shares ax i).map Share.ns).Pairwise (fun a b => leB a b = true) := by
  intro idxs
  induction idxs with
  | nil => intro sq h; simp only [checkLines, Except.ok.injEq] at h; subst h; simp
  | cons i rest ih =>
    intro sq h
    simp only [checkLines] at h
    cases hl : checkLine ver w shares ((List.range w).map (fun j => axisCoord ax i j)) none with
    | error e => simp [hl] at h
    | ok l =>
      simp only [hl] at h
      cases hr : checkLines ver w shares ax rest with
      | error e => simp [hr] at h
      | ok ls =>
        simp only [hr, Except.ok.injEq] at h
        subst h
        obtain ⟨e1, ok1, pw1, _⟩ := checkLine_ok hl
        obtain ⟨e2, all2⟩ := ih hr
        have hl' : l = lineCells w shares ax i := by
          rw [e1]; simp [lineCells, List.map_map, Function.comp_def]
        subst hl'
        refine ⟨by simp [e2], ?_⟩
        intro j hj
        rcases List.mem_cons.mp hj with rfl | hj
        · exact ⟨ok1, pw1⟩
        · exact all2 j hj

/-! ## `ExtendedDataSquare::new` -/

/-- what `ExtendedDataSquare::new(shares, _, app_version) = Ok(e)` establishes -/
structure NewOK (ver : Nat) (shares : List Bytes) (e : Eds) : Prop where
  sq : e.width * e.width = shares.length
  pow : ∃ k, 1 ≤ k ∧ k ≤ 15 ∧ e.width = 2 ^ k
  maxw : e.width ≤ maxExtendedSquareWidth ver
  grid : e.shares = ((List.range e.width).map (lineCells e.width shares .row)).flatten
  cells : ∀ i, i < e.width → ∀ ax, ∀ sh ∈ lineCells e.width shares ax i, CellOK ver sh
  sorted : ∀ i, i < e.width → ∀ ax, ((lineCells e.width shares ax i).map Share.ns).Pairwise (fun a b => leB a b = true)

theorem edsNew_ok {ver : Nat} {shares : List Bytes} {e : Eds} (h : edsNew ver shares = .ok e) : NewOK ver shares e := by
  unfold edsNew at h
  simp only at h
  split at h
  · cases h
  · rename_i hmin
    split at h
    · cases h
    · rename_i hmax
      split at h
      · cases h
      · rename_i hsq
        split at h
        · cases h
        · rename_i hu16
          split at h
          · cases h
          · rename_i hp2
            cases hc : checkLines ver (isqrt shares.length) shares .col (List.range (isqrt shares.length)) with
            | error er => simp [hc] at h
            | ok cs =>
              simp only [hc] at h
              cases hr : checkLines ver (isqrt shares.length) shares .row (List.range (isqrt shares.length)) with
              | error er => simp [hr] at h
              | ok rs =>
                simp only [hr, Except.ok.injEq] at h
                subst h
                have hsq' : isqrt shares.length * isqrt shares.length = shares.length := by
                  simpa using hsq
                obtain ⟨k, hk⟩ := isPow2_pow (by simpa using hp2)
                obtain ⟨_, colsOK⟩ := checkLines_ok hc
                obtain ⟨er, rowsOK⟩ := checkLines_ok hr
                have hw2 : 2 ≤ isqrt shares.length := by
                  simp only [MIN_EXTENDED_SQUARE_WIDTH] at hmin
                  have : ¬ isqrt shares.length < 2 := by
                    intro hlt
                    have : isqrt shares.length * isqrt shares.length ≤ 1 * 1 :=
                      Nat.mul_le_mul (by omega) (by omega)
                    omega
                  omega
                refine ⟨hsq', ⟨k, ?_, ?_, hk⟩, ?_, er, ?_, ?_⟩
                · cases k with
                  | zero => simp at hk; omega
                  | succ k => omega
                · have : ¬ 16 ≤ k := by
                    intro h16
                    have : (2:Nat) ^ 16 ≤ 2 ^ k := Nat.pow_le_pow_right (by omega) h16
                    have : isqrt shares.length ≤ 65535 := by omega
                    omega
                  omega
                · have : ¬ maxExtendedSquareWidth ver < isqrt shares.length := by
                    intro hlt
                    have : maxExtendedSquareWidth ver * maxExtendedSquareWidth ver <
                        isqrt shares.length * isqrt shares.length := Nat.mul_lt_mul'' hlt hlt
                    omega
                  show isqrt shares.length ≤ _
                  omega
                · intro i hi ax sh hsh
                  cases ax with
                  | row => exact (rowsOK i (List.mem_range.mpr hi)).1 sh hsh
                  | col => exact (colsOK i (List.mem_range.mpr hi)).1 sh hsh
                · intro i hi ax
                  cases ax with
                  | row => exact (rowsOK i (List.mem_range.mpr hi)).2
                  | col => exact (colsOK i (List.mem_range.mpr hi)).2

/-- the share at `(r, c)` of an accepted square -/
theorem NewOK.shareAt {ver : Nat} {shares : List Bytes} {e : Eds} (h : NewOK ver shares e) {r c : Nat}
    (hr : r < e.width) (hc : c < e.width) : e.share? r c = some (cell e.width shares r c) := by
  unfold Eds.share?
  rw [h.grid]
  exact grid_getElem? (fun r c => cell e.width shares r c) e.width e.width r c hr hc

theorem NewOK.length {ver : Nat} {shares : List Bytes} {e : Eds} (h : NewOK ver shares e) :
    e.shares.length = e.width * e.width := by
  rw [h.grid]
  exact grid_length (fun r c => cell e.width shares r c) e.width e.width

/-- **`new` returns the input square itself**, each share flagged by its quadrant -/
theorem NewOK.eq_ofRaw {ver : Nat} {shares : List Bytes} {e : Eds} (h : NewOK ver shares e) :
    e = Eds.ofRaw e.width shares := by
  have hw : 0 < e.width := by
    obtain ⟨k, _, _, hk⟩ := h.pow
    rw [hk]; exact Nat.two_pow_pos k
  cases e with
  | mk w sh =>
    simp only [Eds.ofRaw, Eds.mk.injEq, true_and]
    simp only at hw
    apply List.ext_getElem?
    intro i
    by_cases hi : i < w * w
    · have hdm : i / w * w + i % w = i := by rw [Nat.mul_comm]; exact Nat.div_add_mod i w
      have h1 := h.shareAt (r := i / w) (c := i % w) (Nat.div_lt_of_lt_mul (by simpa using hi)) (Nat.mod_lt i hw)
      unfold Eds.share? at h1
      simp only [hdm] at h1
      rw [h1]
      have hil : i < shares.length := by have := h.sq; simp only at this; omega
      simp [List.getElem?_zipWith, List.getElem?_range hil, List.getElem?_eq_getElem hil, cell, hdm, hil]
    · have hl := h.length
      simp only at hl
      have hs := h.sq
      simp only at hs
      rw [List.getElem?_eq_none (by omega), List.getElem?_eq_none]
      simp [List.length_zipWith]; omega

theorem optAll_map_some {α β} (f : α → Option β) (g : α → β) : ∀ (l : List α), (∀ x ∈ l, f x = some (g x)) →
    optAll (l.map f) = some (l.map g)
  | [], _ => rfl
  | a :: t, h => by
    simp only [List.map_cons, h a (by simp), optAll, optAll_map_some f g t (fun x hx => h x (by simp [hx]))]

/-- the axes of an accepted square -/
theorem NewOK.axis {ver : Nat} {shares : List Bytes} {e : Eds} (h : NewOK ver shares e) (ax : Axis) {i : Nat}
    (hi : i < e.width) : e.axis? ax i = some (lineCells e.width shares ax i) := by
  unfold Eds.axis? lineCells
  apply optAll_map_some
  intro j hj
  have hj' := List.mem_range.mp hj
  cases ax with
  | row => exact h.shareAt hi hj'
  | col => exact h.shareAt hj' hi

theorem ns_length {sh : Share} (h : sh.data.length = SHARE_SIZE) : sh.ns.length = NS_SIZE := by
  unfold Share.ns
  split
  · simp [parityNs, maxNsId]
  · simp [List.length_take, h, SHARE_SIZE, NS_SIZE]

/-- the NMT of every row and column of an accepted square builds (`push_leaf` order check passes) -/
theorem NewOK.leafHashes {ver : Nat} {shares : List Bytes} {e : Eds} (h : NewOK ver shares e) (H : HashFn) (ax : Axis)
    {i : Nat} (hi : i < e.width) :
    e.axisLeafHashes H ax i = .ok ((lineCells e.width shares ax i).map (Share.leafHash H)) := by
  have hpw := h.sorted i hi ax
  have hcells := h.cells i hi ax
  have hfst : ((lineCells e.width shares ax i).map Share.leaf).map Prod.fst = (lineCells e.width shares ax i).map Share.ns := by
    simp [List.map_map, Function.comp_def, Share.leaf]
  have hpush : pushLeaves H ((lineCells e.width shares ax i).map Share.leaf) =
      some ((lineCells e.width shares ax i).map (Share.leafHash H)) := by
    unfold pushLeaves
    rw [hfst, pushOrderOk_of_pairwise _ _ hpw]
    · simp [List.map_map, Function.comp_def, Share.leaf, Share.leafHash]
    · intro x hx
      obtain ⟨sh, hsh, rfl⟩ := List.mem_map.mp hx
      unfold leB
      rw [not_ltB_zeros NS_SIZE sh.ns (by rw [ns_length (hcells sh hsh).size]; exact Nat.le_refl _)]
      rfl
  simp only [Eds.axisLeafHashes, h.axis ax hi, hpush]

/-- … and its root is computed without the `hash_nodes` panic -/
theorem NewOK.axisRoot {ver : Nat} {shares : List Bytes} {e : Eds} (h : NewOK ver shares e) (H : HashFn) (ax : Axis)
    {i : Nat} (hi : i < e.width) : ∃ r, e.axisRoot H ax i = .ok r ∧
      computeRoot H true ((lineCells e.width shares ax i).map (Share.leafHash H)) = .ok r := by
  have hpw := h.sorted i hi ax
  have hlen : (lineCells e.width shares ax i).length = e.width := by simp [lineCells]
  have hne : lineCells e.width shares ax i ≠ [] := by
    intro hnil
    obtain ⟨k, _, _, hk⟩ := h.pow
    have := Nat.two_pow_pos k
    rw [hnil] at hlen; simp at hlen; omega
  obtain ⟨r, hr⟩ := computeRoot_sorted H true
    (L := (lineCells e.width shares ax i).map (Share.leafHash H))
    (by simpa using hne)
    (by intro x hx
        obtain ⟨p, _, rfl⟩ := List.mem_map.mp hx
        exact hashLeaf_nodeOK H p.ns p.data)
    (by
      have := leaves_pairwise H (leaves := (lineCells e.width shares ax i).map Share.leaf)
        (by simpa [List.map_map, Function.comp_def, Share.leaf] using hpw)
      have e1 : (lineCells e.width shares ax i).map (Share.leafHash H) =
          ((lineCells e.width shares ax i).map Share.leaf).map (fun p => hashLeaf H p.1 p.2) := by
        simp [List.map_map, Function.comp_def, Share.leaf, Share.leafHash]
      rw [e1]; exact this)
  exact ⟨r, by simp only [Eds.axisRoot, h.leafHashes H ax hi, hr], hr⟩

theorem exceptAll_all_ok {ε α} : ∀ (l : List (Except ε α)), (∀ x ∈ l, ∃ v, x = .ok v) → ∃ r, exceptAll l = .ok r
  | [], _ => ⟨[], rfl⟩
  | a :: t, h => by
    obtain ⟨v, rfl⟩ := h a (by simp)
    obtain ⟨r, hr⟩ := exceptAll_all_ok t (fun x hx => h x (by simp [hx]))
    exact ⟨v :: r, by simp [exceptAll, hr]⟩

/-- **`DataAvailabilityHeader::from_eds` cannot panic on a square accepted by `new`.** -/
theorem NewOK.dah_total {ver : Nat} {shares : List Bytes} {e : Eds} (h : NewOK ver shares e) (H : HashFn) :
    ∃ dah, Dah.ofEds H e = .ok dah := by
  obtain ⟨rs, hrs⟩ := exceptAll_all_ok ((List.range e.width).map (fun i => e.rowRoot H i)) (by
    intro x hx
    obtain ⟨i, hi, rfl⟩ := List.mem_map.mp hx
    obtain ⟨r, hr, _⟩ := h.axisRoot H .row (List.mem_range.mp hi)
    exact ⟨r, hr⟩)
  obtain ⟨cs, hcs⟩ := exceptAll_all_ok ((List.range e.width).map (fun i => e.colRoot H i)) (by
    intro x hx
    obtain ⟨i, hi, rfl⟩ := List.mem_map.mp hx
    obtain ⟨r, hr, _⟩ := h.axisRoot H .col (List.mem_range.mp hi)
    exact ⟨r, hr⟩)
  exact ⟨⟨rs, cs⟩, by simp [Dah.ofEds, hrs, hcs]⟩

end Lumina.Proofs.EdsCode

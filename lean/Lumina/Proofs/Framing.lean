/-
  Helper lemmas for C30 (header-ex wire framing).
-/
import Lumina.Model.Framing
import Mathlib.Tactic.Ring
import Lumina.Spec.C30

namespace Lumina.Proofs.Framing
open Lumina.Util Lumina.Model.Framing Lumina.Spec.C30

/-! ## varint -/

theorem decodeAux_encodeLoop (fuel : Nat) : ∀ (count acc v : Nat) (rest : Bytes),
    count + fuel = 10 → 1 ≤ fuel → v * 2 ^ (7 * count) < 2 ^ 64 →
    decodeVarintAux count acc (encodeVarintLoop fuel v ++ rest) = some (acc + v * 2 ^ (7 * count), rest) := by
  induction fuel with
  | zero => intro _ _ _ _ _ h; omega
  | succ n ih =>
    intro count acc v rest hc _ hv
    unfold encodeVarintLoop
    by_cases h : v < 128
    · simp only [h, ↓reduceIte, List.cons_append, List.nil_append, decodeVarintAux]
      have hb : (UInt8.ofNat v).toNat = v := by
        rw [UInt8.toNat_ofNat']; omega
      rw [hb]
      simp only [h, ↓reduceIte]
      have : ¬ (count = 9 ∧ v ≥ 2) := by
        rintro ⟨h9, h2⟩
        subst h9
        have : v * 2 ^ 63 ≥ 2 * 2 ^ 63 := Nat.mul_le_mul_right _ h2
        omega
      simp [this]
    · simp only [h, ↓reduceIte, List.cons_append, decodeVarintAux]
      have hb : (UInt8.ofNat (v % 128 + 128)).toNat = v % 128 + 128 := by
        rw [UInt8.toNat_ofNat']; omega
      rw [hb]
      have h1 : ¬ (v % 128 + 128 < 128) := by omega
      have hc9 : ¬ count ≥ 9 := by
        intro h9
        have : count = 9 := by omega
        subst this
        have : v * 2 ^ 63 ≥ 128 * 2 ^ 63 := Nat.mul_le_mul_right _ (by omega)
        omega
      simp only [h1, ↓reduceIte, hc9]
      have hpow : 2 ^ (7 * (count + 1)) = 128 * 2 ^ (7 * count) := by
        rw [Nat.mul_add, Nat.pow_add]; ring
      have hv' : v / 128 * 2 ^ (7 * (count + 1)) < 2 ^ 64 := by
        rw [hpow]
        calc v / 128 * (128 * 2 ^ (7 * count)) = (v / 128 * 128) * 2 ^ (7 * count) := by ring
          _ ≤ v * 2 ^ (7 * count) := Nat.mul_le_mul_right _ (Nat.div_mul_le_self v 128)
          _ < 2 ^ 64 := hv
      rw [ih (count + 1) _ (v / 128) rest (by omega) (by omega) hv']
      congr 2
      rw [hpow]
      have : v % 128 + 128 - 128 = v % 128 := by omega
      rw [this]
      have hd := Nat.div_add_mod v 128
      calc acc + v % 128 * 2 ^ (7 * count) + v / 128 * (128 * 2 ^ (7 * count))
          = acc + (128 * (v / 128) + v % 128) * 2 ^ (7 * count) := by ring
        _ = acc + v * 2 ^ (7 * count) := by rw [hd]

theorem decode_encode_varint (v : Nat) (hv : v < 2 ^ 64) (rest : Bytes) :
    decodeVarint (encodeVarint v ++ rest) = some (v, rest) := by
  unfold decodeVarint encodeVarint
  rw [decodeAux_encodeLoop 10 0 0 v rest (by omega) (by omega) (by simpa using hv)]
  simp

theorem encodeLoop_length_pos (fuel v : Nat) : 0 < (encodeVarintLoop (fuel + 1) v).length := by
  unfold encodeVarintLoop
  split <;> simp

theorem encodeVarint_length_pos (v : Nat) : 0 < (encodeVarint v).length :=
  encodeLoop_length_pos 9 v

theorem encodeVarint_ne_nil (v : Nat) : encodeVarint v ≠ [] := by
  intro h
  have := encodeVarint_length_pos v
  rw [h] at this
  simp at this

/-- a strict prefix of an encoded varint does not decode -/
theorem decodeAux_encodeLoop_take (fuel : Nat) : ∀ (count acc v k : Nat),
    count + fuel = 10 → v * 2 ^ (7 * count) < 2 ^ 64 →
    k < (encodeVarintLoop fuel v).length →
    decodeVarintAux count acc ((encodeVarintLoop fuel v).take k) = none := by
  induction fuel with
  | zero => intro _ _ _ k _ _ hk; simp [encodeVarintLoop] at hk
  | succ n ih =>
    intro count acc v k hc hv hk
    unfold encodeVarintLoop at hk ⊢
    by_cases h : v < 128
    · simp only [h, ↓reduceIte, List.length_cons, List.length_nil] at hk ⊢
      have : k = 0 := by omega
      subst this
      simp [decodeVarintAux]
    · simp only [h, ↓reduceIte, List.length_cons] at hk ⊢
      cases k with
      | zero => simp [decodeVarintAux]
      | succ k =>
        simp only [List.take_succ_cons, decodeVarintAux]
        have hb : (UInt8.ofNat (v % 128 + 128)).toNat = v % 128 + 128 := by
          rw [UInt8.toNat_ofNat']; omega
        rw [hb]
        have h1 : ¬ (v % 128 + 128 < 128) := by omega
        have hc9 : ¬ count ≥ 9 := by
          intro h9
          have : count = 9 := by omega
          subst this
          have : v * 2 ^ 63 ≥ 128 * 2 ^ 63 := Nat.mul_le_mul_right _ (by omega)
          omega
        simp only [h1, ↓reduceIte, hc9]
        have hpow : 2 ^ (7 * (count + 1)) = 128 * 2 ^ (7 * count) := by
          rw [Nat.mul_add, Nat.pow_add]; ring
        have hv' : v / 128 * 2 ^ (7 * (count + 1)) < 2 ^ 64 := by
          rw [hpow]
          calc v / 128 * (128 * 2 ^ (7 * count)) = (v / 128 * 128) * 2 ^ (7 * count) := by ring
            _ ≤ v * 2 ^ (7 * count) := Nat.mul_le_mul_right _ (Nat.div_mul_le_self v 128)
            _ < 2 ^ 64 := hv
        exact ih (count + 1) _ (v / 128) k (by omega) hv' (by omega)

theorem decodeVarint_encode_take (v k : Nat) (hv : v < 2 ^ 64) (hk : k < (encodeVarint v).length) :
    decodeVarint ((encodeVarint v).take k) = none :=
  decodeAux_encodeLoop_take 10 0 0 v k (by omega) (by simpa using hv) hk

/-! ## frames, generic in the body codec -/

theorem lengthDelimited_ne_nil (body : Bytes) : lengthDelimited body ≠ [] := by
  unfold lengthDelimited
  intro h
  have := List.append_eq_nil_iff.mp h
  exact encodeVarint_ne_nil _ this.1

theorem lengthDelimited_length_pos (body : Bytes) : 0 < (lengthDelimited body).length := by
  have := lengthDelimited_ne_nil body
  exact List.length_pos_iff.mpr this

theorem parseDelimiter_lengthDelimited (body rest : Bytes) (hl : body.length < 2 ^ 64) :
    parseDelimiter (lengthDelimited body ++ rest) = some (body.length, body ++ rest) := by
  unfold parseDelimiter
  have hne : (lengthDelimited body ++ rest).isEmpty = false := by
    cases h : lengthDelimited body with
    | nil => exact absurd h (lengthDelimited_ne_nil body)
    | cons a t => simp
  rw [hne]
  simp only [Bool.false_eq_true, ↓reduceIte]
  unfold lengthDelimited
  rw [List.append_assoc]
  exact decode_encode_varint _ hl _

/-- one complete frame in front of anything parses to its message and leaves the rest -/
theorem parseFrame_frame {α} (dec : Bytes → Option α) (body rest : Bytes) (hl : body.length < 2 ^ 64) :
    parseFrame dec (lengthDelimited body ++ rest) = (dec body).map (fun m => (m, rest)) := by
  unfold parseFrame
  rw [parseDelimiter_lengthDelimited body rest hl]
  simp only [List.length_append]
  have : ¬ (body.length + rest.length < body.length) := by omega
  simp only [this, ↓reduceIte, List.take_left', List.drop_left']
  cases dec body <;> rfl

/-- a strict prefix of a frame does not parse -/
theorem parseFrame_frame_take {α} (dec : Bytes → Option α) (body : Bytes) (k : Nat)
    (hl : body.length < 2 ^ 64) (hk : k < (lengthDelimited body).length) :
    parseFrame dec ((lengthDelimited body).take k) = none := by
  unfold parseFrame parseDelimiter
  by_cases hk0 : k = 0
  · subst hk0; simp
  unfold lengthDelimited at hk ⊢
  rw [List.take_append]
  by_cases hkv : k < (encodeVarint body.length).length
  · -- cut inside the delimiter
    have h0 : k - (encodeVarint body.length).length = 0 := by omega
    rw [h0, List.take_zero, List.append_nil]
    rw [decodeVarint_encode_take _ _ hl hkv]
    simp
  · -- cut inside the body
    have hfull : (encodeVarint body.length).take k = encodeVarint body.length :=
      List.take_of_length_le (by omega)
    rw [hfull, decode_encode_varint _ hl]
    have hne : (encodeVarint body.length ++ List.take (k - (encodeVarint body.length).length) body).isEmpty = false := by
      cases h : encodeVarint body.length with
      | nil => exact absurd h (encodeVarint_ne_nil _)
      | cons a t => simp
    rw [hne]
    simp only [Bool.false_eq_true, ↓reduceIte, List.length_take]
    simp only [List.length_append] at hk
    have : min (k - (encodeVarint body.length).length) body.length < body.length := by omega
    simp [this]

/-- the bytes of a list of frames -/
def wireOf {α} (enc : α → Bytes) (rs : List α) : Bytes :=
  (rs.map (fun r => lengthDelimited (enc r))).flatten

theorem wireOf_cons {α} (enc : α → Bytes) (r : α) (rs : List α) :
    wireOf enc (r :: rs) = lengthDelimited (enc r) ++ wireOf enc rs := by
  simp [wireOf]

theorem wireOf_nil {α} (enc : α → Bytes) : wireOf enc ([] : List α) = [] := rfl

theorem writeResponses_eq (rs : List HeaderResponse) : writeResponses rs = wireOf encodeResponse rs := rfl

theorem wireOf_length_ge {α} (enc : α → Bytes) (rs : List α) : rs.length ≤ (wireOf enc rs).length := by
  induction rs with
  | nil => simp [wireOf]
  | cons r rs ih =>
    rw [wireOf_cons, List.length_append, List.length_cons]
    have := lengthDelimited_length_pos (enc r)
    omega

theorem parseFrames_of_none {α} (dec : Bytes → Option α) (fuel : Nat) (tail : Bytes)
    (h : parseFrame dec tail = none) : parseFrames dec fuel tail = [] := by
  cases fuel with
  | zero => rfl
  | succ n => simp [parseFrames, h]

/-- complete frames followed by something that does not parse: exactly the frames come back -/
theorem parseFrames_wire {α} (enc : α → Bytes) (dec : Bytes → Option α) :
    ∀ (rs : List α) (fuel : Nat) (tail : Bytes),
    (∀ r ∈ rs, dec (enc r) = some r ∧ (enc r).length < 2 ^ 64) →
    parseFrame dec tail = none → rs.length ≤ fuel →
    parseFrames dec fuel (wireOf enc rs ++ tail) = rs := by
  intro rs
  induction rs with
  | nil =>
    intro fuel tail _ ht _
    simp [wireOf_nil, parseFrames_of_none dec fuel tail ht]
  | cons r rs ih =>
    intro fuel tail hv ht hf
    cases fuel with
    | zero => simp at hf
    | succ n =>
      have hr := hv r (by simp)
      rw [wireOf_cons, List.append_assoc]
      simp only [parseFrames, parseFrame_frame dec (enc r) _ hr.2, hr.1, Option.map_some]
      rw [ih n tail (fun x hx => hv x (by simp [hx])) ht (by simpa using hf)]

theorem parseFrame_nil {α} (dec : Bytes → Option α) : parseFrame dec [] = none := by
  simp [parseFrame, parseDelimiter]

/-- lengths of the frames of a list of messages -/
def frameLens {α} (enc : α → Bytes) (rs : List α) : List Nat :=
  rs.map (fun r => (lengthDelimited (enc r)).length)

theorem wireOf_length {α} (enc : α → Bytes) (rs : List α) :
    (wireOf enc rs).length = (frameLens enc rs).sum := by
  induction rs with
  | nil => simp [wireOf, frameLens]
  | cons r rs ih => rw [wireOf_cons, List.length_append, ih]; simp [frameLens]

theorem completeCount_lt {α} (enc : α → Bytes) : ∀ (rs : List α) (k : Nat), k < (wireOf enc rs).length →
    completeCount (frameLens enc rs) k < rs.length := by
  intro rs
  induction rs with
  | nil => intro k hk; simp [wireOf] at hk
  | cons r rs ih =>
    intro k hk
    rw [wireOf_cons, List.length_append] at hk
    simp only [frameLens, List.map_cons, completeCount, List.length_cons]
    split
    · have := ih (k - (lengthDelimited (enc r)).length) (by omega)
      simp only [frameLens] at this
      omega
    · omega

/-- shape of a strict prefix of a frame sequence: the frames that are complete within the cut — as
    counted from the frame lengths — then a strict prefix of the next frame -/
theorem wireOf_take {α} (enc : α → Bytes) : ∀ (rs : List α) (k : Nat), k < (wireOf enc rs).length →
    ∃ k', completeCount (frameLens enc rs) k < rs.length ∧
      (∃ r, rs[completeCount (frameLens enc rs) k]? = some r ∧ k' < (lengthDelimited (enc r)).length ∧
        (wireOf enc rs).take k =
          wireOf enc (rs.take (completeCount (frameLens enc rs) k)) ++ (lengthDelimited (enc r)).take k') := by
  intro rs
  induction rs with
  | nil => intro k hk; simp [wireOf] at hk
  | cons r rs ih =>
    intro k hk
    have hlt := completeCount_lt enc (r :: rs) k hk
    rw [wireOf_cons] at hk ⊢
    by_cases hkf : k < (lengthDelimited (enc r)).length
    · have hc : completeCount (frameLens enc (r :: rs)) k = 0 := by
        simp only [frameLens, List.map_cons, completeCount]
        rw [if_neg (by omega)]
      rw [hc] at hlt ⊢
      refine ⟨k, hlt, r, by simp, hkf, ?_⟩
      rw [List.take_append]
      have : k - (lengthDelimited (enc r)).length = 0 := by omega
      simp [this, wireOf_nil]
    · rw [List.length_append] at hk
      obtain ⟨k', hj, r', hr', hk', heq⟩ := ih (k - (lengthDelimited (enc r)).length) (by omega)
      have hc : completeCount (frameLens enc (r :: rs)) k =
          completeCount (frameLens enc rs) (k - (lengthDelimited (enc r)).length) + 1 := by
        simp only [frameLens, List.map_cons, completeCount]
        rw [if_pos (by omega)]
        omega
      rw [hc] at hlt ⊢
      refine ⟨k', hlt, r', by simpa using hr', hk', ?_⟩
      rw [List.take_append, List.take_of_length_le (by omega), heq]
      simp [wireOf_cons, List.append_assoc]

/-- reading a strict prefix of a frame sequence yields exactly the frames that are complete -/
theorem parseFrames_wire_take {α} (enc : α → Bytes) (dec : Bytes → Option α)
    (rs : List α) (k fuel : Nat)
    (hv : ∀ r ∈ rs, dec (enc r) = some r ∧ (enc r).length < 2 ^ 64)
    (hk : k < (wireOf enc rs).length) (hf : ((wireOf enc rs).take k).length ≤ fuel) :
    parseFrames dec fuel ((wireOf enc rs).take k) = rs.take (completeCount (frameLens enc rs) k) := by
  obtain ⟨k', hj, r, hr, hk', heq⟩ := wireOf_take enc rs k hk
  rw [heq] at hf ⊢
  have hrm : r ∈ rs := List.mem_of_getElem? hr
  apply parseFrames_wire enc dec (rs.take _) fuel _
  · intro x hx; exact hv x (List.mem_of_mem_take hx)
  · exact parseFrame_frame_take dec (enc r) k' (hv r hrm).2 hk'
  · have := wireOf_length_ge enc (rs.take (completeCount (frameLens enc rs) k))
    rw [List.length_append] at hf
    omega

/-- `read_response` on a buffer that is a strict prefix of a written frame sequence: exactly the
    complete frames, an error when there is none -/
theorem result_of_take {α} (enc : α → Bytes) (dec : Bytes → Option α) (rs : List α) (m : Nat)
    (hv : ∀ r ∈ rs, dec (enc r) = some r ∧ (enc r).length < 2 ^ 64)
    (hm : m < (wireOf enc rs).length) :
    (if (parseFrames dec ((wireOf enc rs).take m).length ((wireOf enc rs).take m)).isEmpty then none
     else some (parseFrames dec ((wireOf enc rs).take m).length ((wireOf enc rs).take m))) =
    if completeCount (frameLens enc rs) m = 0 then none else some (rs.take (completeCount (frameLens enc rs) m)) := by
  have hj := completeCount_lt enc rs m hm
  rw [parseFrames_wire_take enc dec rs m _ hv hm (Nat.le_refl _)]
  by_cases hj0 : completeCount (frameLens enc rs) m = 0
  · simp [hj0]
  · have : (rs.take (completeCount (frameLens enc rs) m)).isEmpty = false := by
      cases rs with
      | nil => simp at hj
      | cons a t =>
        cases hc : completeCount (frameLens enc (a :: t)) m with
        | zero => exact absurd hc hj0
        | succ n => simp
    simp [this, hj0]

/-! ## `read_up_to` -/

/-- whatever the chunking, the buffer is a prefix of the stream, at most `limit` long -/
theorem readUpToAux_prefix (limit : Nat) : ∀ (cuts : List Nat) (acc data : Bytes),
    ∃ k, k ≤ limit - acc.length ∧ readUpToAux limit acc data cuts = acc ++ data.take k := by
  intro cuts
  induction cuts with
  | nil => intro acc data; exact ⟨limit - acc.length, Nat.le_refl _, rfl⟩
  | cons c cs ih =>
    intro acc data
    unfold readUpToAux
    by_cases hfull : acc.length = limit
    · exact ⟨0, by omega, by simp [hfull]⟩
    · simp only [hfull, ↓reduceIte]
      by_cases hn : min c (min (limit - acc.length) data.length) = 0
      · exact ⟨0, by omega, by simp [hn]⟩
      · simp only [hn, ↓reduceIte]
        obtain ⟨k, hk, he⟩ := ih (acc ++ data.take (min c (min (limit - acc.length) data.length)))
          (data.drop (min c (min (limit - acc.length) data.length)))
        refine ⟨min c (min (limit - acc.length) data.length) + k, ?_, ?_⟩
        · simp only [List.length_append, List.length_take] at hk
          omega
        · rw [he, List.append_assoc, List.take_add]

/-- with positive chunk sizes the buffer is exactly the first `limit` bytes of the stream -/
theorem readUpToAux_pos (limit : Nat) : ∀ (cuts : List Nat) (acc data : Bytes),
    (∀ c ∈ cuts, 0 < c) → acc.length ≤ limit →
    readUpToAux limit acc data cuts = acc ++ data.take (limit - acc.length) := by
  intro cuts
  induction cuts with
  | nil => intro acc data _ _; rfl
  | cons c cs ih =>
    intro acc data hpos hle
    unfold readUpToAux
    by_cases hfull : acc.length = limit
    · simp [hfull]
    · simp only [hfull, ↓reduceIte]
      have hc : 0 < c := hpos c (by simp)
      by_cases hn : min c (min (limit - acc.length) data.length) = 0
      · have hd : data.length = 0 := by omega
        have : data = [] := List.eq_nil_of_length_eq_zero hd
        simp [this]
      · simp only [hn, ↓reduceIte]
        rw [ih _ _ (fun x hx => hpos x (by simp [hx])) (by simp only [List.length_append, List.length_take]; omega)]
        rw [List.append_assoc]
        congr 1
        simp only [List.length_append, List.length_take]
        have hm : min c (min (limit - acc.length) data.length) ≤ limit - acc.length := by omega
        have hm2 : min c (min (limit - acc.length) data.length) ≤ data.length := by omega
        rw [Nat.min_eq_left hm2]
        have : limit - acc.length = min c (min (limit - acc.length) data.length) +
            (limit - (acc.length + min c (min (limit - acc.length) data.length))) := by omega
        conv => rhs; rw [this, List.take_add]

/-- (S9) a failing `read` call either makes `read_up_to` fail or is never made: the buffer is then
    the one the failure-free reader yields -/
theorem readUpToFailAux_none_or (limit fail : Nat) : ∀ (cuts : List Nat) (i : Nat) (acc data : Bytes),
    readUpToFailAux limit fail i acc data cuts = none ∨
    readUpToFailAux limit fail i acc data cuts = some (readUpToAux limit acc data cuts) := by
  intro cuts
  induction cuts with
  | nil =>
    intro i acc data
    unfold readUpToFailAux readUpToAux
    by_cases h1 : acc.length = limit
    · simp [h1]
    · simp only [h1, ↓reduceIte]
      by_cases h2 : i = fail
      · simp [h2]
      · simp only [h2, ↓reduceIte]
        by_cases h3 : min (limit - acc.length) data.length = 0
        · right
          simp only [h3, ↓reduceIte]
          have : data.take (limit - acc.length) = [] := by
            rw [List.take_eq_nil_iff]
            rcases Nat.min_eq_zero_iff.mp h3 with h | h
            · left; exact h
            · right; exact List.eq_nil_of_length_eq_zero h
          simp [this]
        · simp only [h3, ↓reduceIte]
          have ht : data.take (min (limit - acc.length) data.length) = data.take (limit - acc.length) := by
            rw [List.take_eq_take_iff]
            omega
          rw [ht]
          split
          · right; rfl
          · split
            · left; rfl
            · right; rfl
  | cons c cs ih =>
    intro i acc data
    unfold readUpToFailAux readUpToAux
    by_cases h1 : acc.length = limit
    · simp [h1]
    · simp only [h1, ↓reduceIte]
      by_cases h2 : i = fail
      · simp [h2]
      · simp only [h2, ↓reduceIte]
        by_cases h3 : min c (min (limit - acc.length) data.length) = 0
        · simp [h3]
        · simp only [h3, ↓reduceIte]
          exact ih _ _ _

/-! ## message bodies (prost derive) -/

def ValidReq (r : HeaderRequest) : Prop :=
  r.amount < 2 ^ 64 ∧
  match r.data with
  | .none => True
  | .origin o => o < 2 ^ 64
  | .hash h => h.length < 2 ^ 63

def ValidResp (r : HeaderResponse) : Prop :=
  r.body.length < 2 ^ 63 ∧ -2147483648 ≤ r.status ∧ r.status < 2147483648

theorem decodeKey_small (k : Nat) (hk : k < 128) (hwt : k % 8 ≤ 5) (htag : 1 ≤ k / 8) (rest : Bytes) :
    decodeKey (encodeVarint k ++ rest) = some (k / 8, k % 8, rest) := by
  unfold decodeKey
  rw [decode_encode_varint k (by omega)]
  have h1 : ¬ k > 4294967295 := by omega
  have h2 : ¬ k % 8 > 5 := by omega
  have h3 : k % 4294967296 = k := by omega
  have h4 : ¬ k / 8 < 1 := by omega
  simp only [h1, h2, h3, h4, ↓reduceIte]

theorem mergeVarint_encode (v : Nat) (hv : v < 2 ^ 64) (rest : Bytes) :
    mergeVarint 0 (encodeVarint v ++ rest) = some (v, rest) := by
  simp [mergeVarint, decode_encode_varint v hv]

theorem mergeBytes_encode (b rest : Bytes) (hb : b.length < 2 ^ 64) :
    mergeBytes 2 (encodeVarint b.length ++ (b ++ rest)) = some (b, rest) := by
  simp [mergeBytes, decode_encode_varint b.length hb]

theorem mergeLoop_nil {α} (f : α → Nat → Nat → Bytes → Option (α × Bytes)) (fuel : Nat) (m : α) :
    mergeLoop f fuel m [] = some m := by
  cases fuel <;> rfl

theorem mergeLoop_step {α} (f : α → Nat → Nat → Bytes → Option (α × Bytes)) (fuel : Nat) (m m' : α)
    (buf rest rest' : Bytes) (tag wt : Nat) (hne : buf ≠ [])
    (hk : decodeKey buf = some (tag, wt, rest)) (hm : f m tag wt rest = some (m', rest')) :
    mergeLoop f (fuel + 1) m buf = mergeLoop f fuel m' rest' := by
  cases buf with
  | nil => exact absurd rfl hne
  | cons b bs => simp only [mergeLoop, hk, hm]

theorem field_ne_nil (k : Nat) (t : Bytes) : encodeVarint k ++ t ≠ [] := by
  intro h
  exact encodeVarint_ne_nil k (List.append_eq_nil_iff.mp h).1

theorem i32_roundtrip (s : Int) (h1 : -2147483648 ≤ s) (h2 : s < 2147483648) :
    u64ToI32 (i32ToU64 s) = s ∧ i32ToU64 s < 2 ^ 64 := by
  unfold u64ToI32 i32ToU64
  by_cases hs : s < 0
  · simp only [hs, ↓reduceIte]
    constructor
    · split <;> omega
    · omega
  · simp only [hs, ↓reduceIte]
    constructor
    · split <;> omega
    · omega

/-- one varint field (tag 3 / 1 of the request) in front of `rest` -/
theorem req_step_amount (fuel : Nat) (m : HeaderRequest) (v : Nat) (hv : v < 2 ^ 64) (rest : Bytes) :
    mergeLoop mergeFieldRequest (fuel + 1) m (encodeVarintField 24 v ++ rest) =
      mergeLoop mergeFieldRequest fuel { m with amount := v } rest := by
  unfold encodeVarintField
  rw [List.append_assoc]
  apply mergeLoop_step _ _ _ _ _ _ _ 3 0 (field_ne_nil _ _)
  · exact decodeKey_small 24 (by omega) (by omega) (by omega) _
  · simp [mergeFieldRequest, mergeVarint_encode v hv]

theorem req_step_origin (fuel : Nat) (m : HeaderRequest) (v : Nat) (hv : v < 2 ^ 64) (rest : Bytes) :
    mergeLoop mergeFieldRequest (fuel + 1) m (encodeVarintField 8 v ++ rest) =
      mergeLoop mergeFieldRequest fuel { m with data := .origin v } rest := by
  unfold encodeVarintField
  rw [List.append_assoc]
  apply mergeLoop_step _ _ _ _ _ _ _ 1 0 (field_ne_nil _ _)
  · exact decodeKey_small 8 (by omega) (by omega) (by omega) _
  · simp [mergeFieldRequest, mergeVarint_encode v hv]

theorem req_step_hash (fuel : Nat) (m : HeaderRequest) (h : Bytes) (hh : h.length < 2 ^ 64) (rest : Bytes) :
    mergeLoop mergeFieldRequest (fuel + 1) m (encodeBytesField 18 h ++ rest) =
      mergeLoop mergeFieldRequest fuel { m with data := .hash h } rest := by
  unfold encodeBytesField
  simp only [List.append_assoc]
  apply mergeLoop_step _ _ _ _ _ _ _ 2 2 (field_ne_nil _ _)
  · exact decodeKey_small 18 (by omega) (by omega) (by omega) _
  · simp [mergeFieldRequest, mergeBytes_encode h rest hh]

theorem resp_step_body (fuel : Nat) (m : HeaderResponse) (b : Bytes) (hb : b.length < 2 ^ 64) (rest : Bytes) :
    mergeLoop mergeFieldResponse (fuel + 1) m (encodeBytesField 10 b ++ rest) =
      mergeLoop mergeFieldResponse fuel { m with body := b } rest := by
  unfold encodeBytesField
  simp only [List.append_assoc]
  apply mergeLoop_step _ _ _ _ _ _ _ 1 2 (field_ne_nil _ _)
  · exact decodeKey_small 10 (by omega) (by omega) (by omega) _
  · simp [mergeFieldResponse, mergeBytes_encode b rest hb]

theorem resp_step_status (fuel : Nat) (m : HeaderResponse) (v : Nat) (hv : v < 2 ^ 64) (rest : Bytes) :
    mergeLoop mergeFieldResponse (fuel + 1) m (encodeVarintField 16 v ++ rest) =
      mergeLoop mergeFieldResponse fuel { m with status := u64ToI32 v } rest := by
  unfold encodeVarintField
  rw [List.append_assoc]
  apply mergeLoop_step _ _ _ _ _ _ _ 2 0 (field_ne_nil _ _)
  · exact decodeKey_small 16 (by omega) (by omega) (by omega) _
  · simp [mergeFieldResponse, mergeVarint_encode v hv]

theorem varintField_length (k v : Nat) : 2 ≤ (encodeVarintField k v).length := by
  unfold encodeVarintField
  have := encodeVarint_length_pos k
  have := encodeVarint_length_pos v
  simp only [List.length_append]; omega

theorem bytesField_length (k : Nat) (b : Bytes) : 2 ≤ (encodeBytesField k b).length := by
  unfold encodeBytesField
  have := encodeVarint_length_pos k
  have := encodeVarint_length_pos b.length
  simp only [List.length_append]; omega

/-- `HeaderRequest::decode(encode(r)) = r` -/
theorem decode_encode_request (r : HeaderRequest) (hv : ValidReq r) :
    decodeRequest (encodeRequest r) = some r := by
  obtain ⟨amount, data⟩ := r
  obtain ⟨ha, hd⟩ := hv
  simp only at ha hd
  unfold decodeRequest encodeRequest
  cases data with
  | none =>
    by_cases h0 : amount = 0
    · subst h0; simp [mergeLoop]
    · simp only [ne_eq, h0, not_false_eq_true, ↓reduceIte, List.nil_append]
      have hl := varintField_length 24 amount
      obtain ⟨k, hk⟩ : ∃ k, (encodeVarintField 24 amount).length = k + 1 := ⟨_, (Nat.sub_add_cancel (by omega)).symm⟩
      rw [hk]
      have := req_step_amount k { amount := 0, data := .none } amount ha []
      rw [List.append_nil] at this
      rw [this, mergeLoop_nil]
  | origin o =>
    have hlo := varintField_length 8 o
    by_cases h0 : amount = 0
    · subst h0
      simp only [ne_eq, not_true_eq_false, ↓reduceIte, List.append_nil]
      obtain ⟨k, hk⟩ : ∃ k, (encodeVarintField 8 o).length = k + 1 := ⟨_, (Nat.sub_add_cancel (by omega)).symm⟩
      rw [hk]
      have := req_step_origin k { amount := 0, data := .none } o hd []
      rw [List.append_nil] at this
      rw [this, mergeLoop_nil]
    · simp only [ne_eq, h0, not_false_eq_true, ↓reduceIte]
      have hl := varintField_length 24 amount
      obtain ⟨k, hk⟩ : ∃ k, (encodeVarintField 8 o ++ encodeVarintField 24 amount).length = k + 2 := by
        refine ⟨(encodeVarintField 8 o ++ encodeVarintField 24 amount).length - 2, ?_⟩
        simp only [List.length_append]; omega
      rw [hk, req_step_origin (k + 1) _ o hd]
      have := req_step_amount k { amount := 0, data := .origin o } amount ha []
      rw [List.append_nil] at this
      rw [this, mergeLoop_nil]
  | hash h =>
    have hd : h.length < 2 ^ 64 := by omega
    have hlo := bytesField_length 18 h
    by_cases h0 : amount = 0
    · subst h0
      simp only [ne_eq, not_true_eq_false, ↓reduceIte, List.append_nil]
      obtain ⟨k, hk⟩ : ∃ k, (encodeBytesField 18 h).length = k + 1 := ⟨_, (Nat.sub_add_cancel (by omega)).symm⟩
      rw [hk]
      have := req_step_hash k { amount := 0, data := .none } h hd []
      rw [List.append_nil] at this
      rw [this, mergeLoop_nil]
    · simp only [ne_eq, h0, not_false_eq_true, ↓reduceIte]
      have hl := varintField_length 24 amount
      obtain ⟨k, hk⟩ : ∃ k, (encodeBytesField 18 h ++ encodeVarintField 24 amount).length = k + 2 := by
        refine ⟨(encodeBytesField 18 h ++ encodeVarintField 24 amount).length - 2, ?_⟩
        simp only [List.length_append]; omega
      rw [hk, req_step_hash (k + 1) _ h hd]
      have := req_step_amount k { amount := 0, data := .hash h } amount ha []
      rw [List.append_nil] at this
      rw [this, mergeLoop_nil]

/-- `HeaderResponse::decode(encode(r)) = r` -/
theorem decode_encode_response (r : HeaderResponse) (hv : ValidResp r) :
    decodeResponse (encodeResponse r) = some r := by
  obtain ⟨body, status⟩ := r
  obtain ⟨hb, hs1, hs2⟩ := hv
  simp only at hb hs1 hs2
  have hb : body.length < 2 ^ 64 := by omega
  obtain ⟨hrt, hlt⟩ := i32_roundtrip status hs1 hs2
  unfold decodeResponse encodeResponse
  by_cases hb0 : body = []
  · subst hb0
    by_cases h0 : status = 0
    · subst h0; simp [mergeLoop]
    · simp only [ne_eq, not_true_eq_false, ↓reduceIte, h0, not_false_eq_true, List.nil_append]
      have hl := varintField_length 16 (i32ToU64 status)
      obtain ⟨k, hk⟩ : ∃ k, (encodeVarintField 16 (i32ToU64 status)).length = k + 1 := ⟨_, (Nat.sub_add_cancel (by omega)).symm⟩
      rw [hk]
      have := resp_step_status k { body := [], status := 0 } (i32ToU64 status) hlt []
      rw [List.append_nil] at this
      rw [this, mergeLoop_nil, hrt]
  · have hlo := bytesField_length 10 body
    by_cases h0 : status = 0
    · subst h0
      simp only [ne_eq, hb0, not_false_eq_true, ↓reduceIte, not_true_eq_false, List.append_nil]
      obtain ⟨k, hk⟩ : ∃ k, (encodeBytesField 10 body).length = k + 1 := ⟨_, (Nat.sub_add_cancel (by omega)).symm⟩
      rw [hk]
      have := resp_step_body k { body := [], status := 0 } body hb []
      rw [List.append_nil] at this
      rw [this, mergeLoop_nil]
    · simp only [ne_eq, hb0, not_false_eq_true, ↓reduceIte, h0]
      have hl := varintField_length 16 (i32ToU64 status)
      obtain ⟨k, hk⟩ : ∃ k, (encodeBytesField 10 body ++ encodeVarintField 16 (i32ToU64 status)).length = k + 2 := by
        refine ⟨(encodeBytesField 10 body ++ encodeVarintField 16 (i32ToU64 status)).length - 2, ?_⟩
        simp only [List.length_append]; omega
      rw [hk, resp_step_body (k + 1) _ body hb]
      have := resp_step_status k { body := body, status := 0 } (i32ToU64 status) hlt []
      rw [List.append_nil] at this
      rw [this, mergeLoop_nil, hrt]

theorem encodeLoop_length_le (fuel v : Nat) : (encodeVarintLoop fuel v).length ≤ fuel := by
  induction fuel generalizing v with
  | zero => simp [encodeVarintLoop]
  | succ n ih =>
    unfold encodeVarintLoop
    split
    · simp
    · have := ih (v / 128)
      simp only [List.length_cons]; omega

theorem encodeVarint_length_le (v : Nat) : (encodeVarint v).length ≤ 10 := encodeLoop_length_le 10 v

theorem encodeRequest_length (r : HeaderRequest) (hv : ValidReq r) : (encodeRequest r).length < 2 ^ 64 := by
  obtain ⟨amount, data⟩ := r
  obtain ⟨_, hd⟩ := hv
  simp only at hd
  unfold encodeRequest
  have h24 := encodeVarint_length_le 24
  have ha := encodeVarint_length_le amount
  have hA : (if amount ≠ 0 then encodeVarintField 24 amount else []).length ≤ 20 := by
    split
    · simp only [encodeVarintField, List.length_append]; omega
    · simp
  cases data with
  | none => simp only [List.nil_append]; omega
  | origin o =>
    have := encodeVarint_length_le 8
    have := encodeVarint_length_le o
    simp only [encodeVarintField, List.length_append] at hA ⊢; omega
  | hash h =>
    have := encodeVarint_length_le 18
    have := encodeVarint_length_le h.length
    simp only [encodeBytesField, List.length_append] at hA ⊢; omega

theorem encodeResponse_length (r : HeaderResponse) (hv : ValidResp r) : (encodeResponse r).length < 2 ^ 64 := by
  obtain ⟨body, status⟩ := r
  obtain ⟨hb, _, _⟩ := hv
  simp only at hb
  unfold encodeResponse
  have := encodeVarint_length_le 16
  have := encodeVarint_length_le (i32ToU64 status)
  have := encodeVarint_length_le 10
  have := encodeVarint_length_le body.length
  have hS : (if status ≠ 0 then encodeVarintField 16 (i32ToU64 status) else []).length ≤ 20 := by
    split
    · simp only [encodeVarintField, List.length_append]; omega
    · simp
  have hB : (if body ≠ [] then encodeBytesField 10 body else []).length ≤ 20 + body.length := by
    split
    · simp only [encodeBytesField, List.length_append]; omega
    · simp
  simp only [List.length_append]; omega

/-! ## the delimiter against its textbook definition -/

def digitsVal (ds : List Nat) : Nat := ds.foldr (fun d acc => d + 128 * acc) 0

/-- the model's varint decoder is the textbook definition -/
theorem decodeAux_spec : ∀ (s : Bytes) (count acc : Nat), count ≤ 9 →
    decodeVarintAux count acc s =
      (if count + (s.takeWhile (fun b => b.toNat ≥ 128)).length ≥ 10 then none
       else match s[(s.takeWhile (fun b => b.toNat ≥ 128)).length]? with
         | none => none
         | some last =>
           if count + (s.takeWhile (fun b => b.toNat ≥ 128)).length = 9 ∧ last.toNat ≥ 2 then none
           else some (acc + 2 ^ (7 * count) *
                  digitsVal ((s.takeWhile (fun b => b.toNat ≥ 128)).map (fun b => b.toNat % 128) ++ [last.toNat]),
                s.drop ((s.takeWhile (fun b => b.toNat ≥ 128)).length + 1))) := by
  intro s
  induction s with
  | nil => intro count acc hc; simp [decodeVarintAux]
  | cons b rest ih =>
    intro count acc hc
    unfold decodeVarintAux
    by_cases hb : b.toNat < 128
    · have htw : List.takeWhile (fun b => decide (b.toNat ≥ 128)) (b :: rest) = [] := by
        simp [List.takeWhile_cons]; omega
      simp only [hb, ↓reduceIte, htw, List.length_nil, Nat.add_zero, List.getElem?_cons_zero,
        List.map_nil, List.nil_append, Nat.zero_add, List.drop_succ_cons, List.drop_zero]
      have : ¬ count ≥ 10 := by omega
      simp only [this, ↓reduceIte, digitsVal, List.foldr_cons, List.foldr_nil, Nat.mul_zero, Nat.add_zero]
      by_cases h9 : count = 9 ∧ b.toNat ≥ 2
      · simp [h9]
      · simp only [h9, ↓reduceIte]
        congr 2
        ring
    · have htw : List.takeWhile (fun b => decide (b.toNat ≥ 128)) (b :: rest) =
          b :: List.takeWhile (fun b => decide (b.toNat ≥ 128)) rest := by
        simp [List.takeWhile_cons]; omega
      simp only [hb, ↓reduceIte, htw, List.length_cons, List.getElem?_cons_succ, List.map_cons,
        List.cons_append, List.drop_succ_cons]
      by_cases hc9 : count ≥ 9
      · have : count + ((List.takeWhile (fun b => decide (b.toNat ≥ 128)) rest).length + 1) ≥ 10 := by omega
        simp [hc9, this]
      · simp only [hc9, ↓reduceIte]
        rw [ih (count + 1) _ (by omega)]
        generalize List.takeWhile (fun b => decide (b.toNat ≥ 128)) rest = P
        have e1 : count + 1 + P.length = count + (P.length + 1) := by omega
        rw [e1]
        by_cases h10 : count + (P.length + 1) ≥ 10
        · simp [h10]
        · simp only [h10, ↓reduceIte]
          cases hopt : rest[P.length]? with
          | none => rfl
          | some last =>
            simp only []
            by_cases h9 : count + (P.length + 1) = 9 ∧ last.toNat ≥ 2
            · simp [h9]
            · simp only [h9, ↓reduceIte]
              congr 2
              have hpow : 2 ^ (7 * (count + 1)) = 128 * 2 ^ (7 * count) := by
                rw [Nat.mul_add, Nat.pow_add]; ring
              have hlt := UInt8.toNat_lt b
              have hm : b.toNat % 128 = b.toNat - 128 := by omega
              rw [hpow, hm]
              simp only [digitsVal, List.foldr_cons]
              ring

theorem parseDelimiter_eq_spec (s : Bytes) :
    parseDelimiter s = (specDelimiter s).map (fun p => (p.1, s.drop p.2)) := by
  unfold parseDelimiter specDelimiter
  cases s with
  | nil => simp
  | cons b rest =>
    simp only [List.isEmpty_cons, Bool.false_eq_true, ↓reduceIte]
    unfold decodeVarint
    rw [decodeAux_spec _ 0 0 (by omega)]
    simp only [Nat.zero_add, Nat.mul_zero, Nat.pow_zero, Nat.one_mul]
    generalize (b :: rest) = S
    generalize List.takeWhile (fun b => decide (b.toNat ≥ 128)) S = P
    by_cases h10 : P.length ≥ 10
    · simp [h10]
    · simp only [h10, ↓reduceIte]
      cases hopt : S[P.length]? with
      | none => simp
      | some last =>
        simp only []
        by_cases h9 : P.length = 9 ∧ last.toNat ≥ 2
        · simp [h9]
        · simp [h9, digitsVal]


theorem decodeAux_append : ∀ (p : Bytes) (c a v : Nat) (r t : Bytes),
    decodeVarintAux c a p = some (v, r) → decodeVarintAux c a (p ++ t) = some (v, r ++ t) := by
  intro p
  induction p with
  | nil => intro c a v r t h; simp [decodeVarintAux] at h
  | cons b rest ih =>
    intro c a v r t h
    simp only [List.cons_append]
    unfold decodeVarintAux at h ⊢
    by_cases hb : b.toNat < 128
    · simp only [hb, ↓reduceIte] at h ⊢
      by_cases h9 : c = 9 ∧ b.toNat ≥ 2
      · simp [h9] at h
      · simp only [h9, ↓reduceIte, Option.some.injEq, Prod.mk.injEq] at h ⊢
        exact ⟨h.1, by rw [h.2]⟩
    · simp only [hb, ↓reduceIte] at h ⊢
      by_cases hc : c ≥ 9
      · simp [hc] at h
      · simp only [hc, ↓reduceIte] at h ⊢
        exact ih _ _ _ _ _ h

theorem specDelimiter_used_le (s : Bytes) (v u : Nat) (h : specDelimiter s = some (v, u)) : u ≤ s.length := by
  unfold specDelimiter at h
  simp only at h
  split at h
  · simp at h
  · split at h
    · simp at h
    · rename_i last hl
      split at h
      · simp at h
      · simp only [Option.some.injEq, Prod.mk.injEq] at h
        have := (List.getElem?_eq_some_iff.mp hl).1
        omega

theorem wellDelimited_of_parse (s rest : Bytes) (len : Nat)
    (h : parseDelimiter s = some (len, rest)) (hl : len ≤ rest.length) : wellDelimited s = true := by
  rw [parseDelimiter_eq_spec] at h
  unfold wellDelimited
  cases hs : specDelimiter s with
  | none => simp [hs] at h
  | some p =>
    obtain ⟨v, u⟩ := p
    simp only [hs, Option.map_some, Option.some.injEq, Prod.mk.injEq] at h
    have hu := specDelimiter_used_le s v u hs
    simp only [decide_eq_true_eq]
    obtain ⟨h1, h2⟩ := h
    subst h1
    rw [← h2, List.length_drop] at hl
    omega

/-- a buffer whose first frame parses is well delimited, and so is every extension of it -/
theorem parseFrame_some_wellDelimited {α} (dec : Bytes → Option α) (buf t : Bytes)
    (h : (parseFrame dec buf).isSome = true) : wellDelimited (buf ++ t) = true := by
  unfold parseFrame at h
  cases hp : parseDelimiter buf with
  | none => simp [hp] at h
  | some p =>
    obtain ⟨len, rest⟩ := p
    simp only [hp] at h
    by_cases hl : rest.length < len
    · simp [hl] at h
    · unfold parseDelimiter at hp
      cases buf with
      | nil => simp at hp
      | cons b bs =>
        simp only [List.isEmpty_cons, Bool.false_eq_true, ↓reduceIte] at hp
        apply wellDelimited_of_parse (b :: bs ++ t) (rest ++ t) len
        · simp only [parseDelimiter, List.cons_append, List.isEmpty_cons, Bool.false_eq_true, ↓reduceIte]
          exact decodeAux_append _ _ _ _ _ _ hp
        · simp only [List.length_append]; omega

end Lumina.Proofs.Framing

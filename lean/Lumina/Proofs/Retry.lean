/-
  Helper lemmas for C32 (bounded retries, single answer).
-/
import Lumina.Model.Retry
import Lumina.Spec.C32

namespace Lumina.Proofs.Retry
open Lumina.Model.Retry

/-- per-request invariant -/
structure RInv (r : Rec) : Prop where
  live : r.phase ≠ .done → r.sends + r.triesLeft = 3 ∧ r.answers = 0
  pend : r.phase = .pending → 1 ≤ r.triesLeft
  last : r.phase = .pending → r.triesLeft = 1 → r.kind = .archival
  kinds : r.kind = .any ∨ r.kind = .archival
  sendsLe : r.sends ≤ 3
  answersLe : r.answers ≤ 1
  arch : r.kind = .archival → r.triesLeft ≤ 1
  fin : r.phase = .done → r.closed = true ∨ r.answers = 1

theorem finish_inv (r : Rec) (a : Answer) (h : RInv r) (hl : r.phase ≠ .done) : RInv (finish r a).1 := by
  obtain ⟨h1, h2, h3, h4, h5, h6, h7, h8⟩ := h
  have := h1 hl
  unfold finish
  split
  · rename_i hc
    exact ⟨by simp, by simp, by simp, h4, h5, h6, h7, by intro _; left; exact hc⟩
  · exact ⟨by simp, by simp, by simp, h4, h5, by simp; omega, h7, by intro _; right; simp; omega⟩

theorem stepRec_inv (ev : Ev) (r : Rec) (h : RInv r) : RInv (stepRec ev r).1 := by
  have h' := h
  obtain ⟨h1, h2, h3, h4, h5, h6, h7, h8⟩ := h
  cases ev with
  | request v => exact h'
  | close id =>
    simp only [stepRec]
    split
    · exact ⟨h1, h2, h3, h4, h5, h6, h7, by intro _; left; rfl⟩
    · exact h'
  | stop =>
    simp only [stepRec]
    split
    · exact h'
    · rename_i hd; exact finish_inv r _ h' hd
  | schedule peers choice =>
    simp only [stepRec]
    split
    · rename_i hp
      split
      · exact h'
      · split
        · rename_i hc
          exact ⟨by simp, by simp, by simp, h4, h5, h6, h7, by intro _; left; exact hc⟩
        · have hl := h1 (by rw [hp]; simp)
          have ht := h2 hp
          exact ⟨by intro _; simp; omega, by simp, by simp, h4, by simp; omega, h6,
            by intro hk; have := h7 hk; simp; omega, by simp⟩
    · exact h'
  | outcome id attempt res =>
    simp only [stepRec]
    split
    · rename_i hc
      have hl := h1 (by rw [hc.2.1]; simp)
      split
      · rename_i hr
        have ht : r.triesLeft ≠ 0 := by
          intro h0
          simp [canRetry, h0] at hr
        refine ⟨by intro _; simpa using hl, by intro _; simp; omega, ?_, ?_, h5, h6, ?_, by simp⟩
        · intro _ ht1
          simp only at ht1
          simp only [nextKind, ht1, ↓reduceIte]
          rcases h4 with hk | hk <;> simp [hk]
        · simp only [nextKind]
          split
          · rcases h4 with hk | hk <;> simp [hk]
          · exact h4
        · simp only [nextKind]
          split
          · intro _; omega
          · exact h7
      · exact finish_inv r _ h' (by rw [hc.2.1]; simp)
    · exact h'

/-- state invariant: every record satisfies `RInv`, ids are positions -/
structure SInv (s : State) : Prop where
  recs : ∀ r ∈ s.recs, RInv r
  ids : s.recs.map (·.id) = List.range s.recs.length

theorem stepRec_id (ev : Ev) (r : Rec) : (stepRec ev r).1.id = r.id := by
  cases ev <;> simp only [stepRec, finish] <;> (repeat' split) <;> rfl

theorem newRec_inv (s : State) (v : Bool) : RInv (newRec s v).1 ∧ (newRec s v).1.id = s.recs.length := by
  have hbase : RInv { id := s.recs.length, kind := .any, triesLeft := MAX_TRIES, phase := .pending,
                      closed := false, sends := 0, answers := 0 } :=
    ⟨by simp [MAX_TRIES], by simp [MAX_TRIES], by simp [MAX_TRIES], by simp, by simp, by simp, by simp, by simp⟩
  unfold newRec
  simp only
  split
  · exact ⟨finish_inv _ _ hbase (by simp), by simp [finish]⟩
  · split
    · exact ⟨finish_inv _ _ hbase (by simp), by simp [finish]⟩
    · exact ⟨hbase, rfl⟩

theorem map_stepRec_ids (ev : Ev) (recs : List Rec) :
    ((recs.map (stepRec ev)).map (·.1)).map (·.id) = recs.map (·.id) := by
  simp [List.map_map, Function.comp_def, stepRec_id]

theorem step_inv (s : State) (ev : Ev) (h : SInv s) : SInv (step s ev).1 := by
  obtain ⟨hr, hi⟩ := h
  have hrecs : ∀ r ∈ (s.recs.map (stepRec ev)).map (·.1), RInv r := by
    intro r hm
    simp only [List.mem_map] at hm
    obtain ⟨p, ⟨r0, hr0, rfl⟩, rfl⟩ := hm
    exact stepRec_inv ev r0 (hr r0 hr0)
  have hids := map_stepRec_ids ev s.recs
  have hlen : ((s.recs.map (stepRec ev)).map (·.1)).length = s.recs.length := by simp
  cases ev with
  | request v =>
    simp only [step]
    obtain ⟨hn, hnid⟩ := newRec_inv s v
    constructor
    · intro r hm
      rcases List.mem_append.mp hm with hm | hm
      · exact hrecs r hm
      · simp only [List.mem_singleton] at hm; subst hm; exact hn
    · simp only [List.map_append, hids, hi, List.map_cons, List.map_nil, hnid, List.length_append, hlen,
        List.length_cons, List.length_nil]
      rw [List.range_succ]
  | stop => exact ⟨hrecs, by simp only [step]; rw [hids, hi, hlen]⟩
  | schedule p c => exact ⟨hrecs, by simp only [step]; rw [hids, hi, hlen]⟩
  | outcome a b c => exact ⟨hrecs, by simp only [step]; rw [hids, hi, hlen]⟩
  | close a => exact ⟨hrecs, by simp only [step]; rw [hids, hi, hlen]⟩

theorem init_inv : SInv init := ⟨by simp [init], by simp [init]⟩

/-- one step of the trace accumulator used by `run` -/
def acc1 (acc : State × List Out) (ev : Ev) : State × List Out :=
  ((step acc.1 ev).1, acc.2 ++ (step acc.1 ev).2)

theorem run_eq (evs : List Ev) : run evs = evs.foldl acc1 (init, []) := rfl

theorem foldl_inv (evs : List Ev) : ∀ acc : State × List Out, SInv acc.1 → SInv (evs.foldl acc1 acc).1 := by
  induction evs with
  | nil => intro acc h; exact h
  | cons ev evs ih => intro acc h; exact ih _ (step_inv _ ev h)

theorem run_inv (evs : List Ev) : SInv (run evs).1 := foldl_inv evs _ init_inv

/-! ## the counters in the records are what the emitted trace shows -/

def isSent (i : Nat) : Out → Bool
  | .sent j _ _ _ _ => j == i
  | .answer _ _ => false

def isAnswer (i : Nat) : Out → Bool
  | .sent _ _ _ _ _ => false
  | .answer j _ => j == i

def sendsOf (i : Nat) (outs : List Out) : Nat := outs.countP (isSent i)
def answersOf (i : Nat) (outs : List Out) : Nat := outs.countP (isAnswer i)

theorem finish_counts (r : Rec) (a : Answer) (i : Nat) :
    sendsOf i (finish r a).2 = 0 ∧ (finish r a).1.sends = r.sends ∧
    (if i = r.id then answersOf i (finish r a).2 + r.answers = (finish r a).1.answers
     else answersOf i (finish r a).2 = 0) := by
  unfold finish
  split
  · simp [sendsOf, answersOf]
  · by_cases h : i = r.id
    · subst h; simp [sendsOf, answersOf, isSent, isAnswer]; omega
    · have : (r.id == i) = false := by simp; omega
      simp [sendsOf, answersOf, isSent, isAnswer, h, this]

theorem stepRec_counts_own (ev : Ev) (r : Rec) :
    sendsOf r.id (stepRec ev r).2 + r.sends = (stepRec ev r).1.sends ∧
    answersOf r.id (stepRec ev r).2 + r.answers = (stepRec ev r).1.answers := by
  cases ev <;> simp only [stepRec, finish] <;> (repeat' split) <;>
    simp [sendsOf, answersOf, isSent, isAnswer] <;> omega

theorem stepRec_counts_other (ev : Ev) (r : Rec) (i : Nat) (hne : r.id ≠ i) :
    sendsOf i (stepRec ev r).2 = 0 ∧ answersOf i (stepRec ev r).2 = 0 := by
  cases ev <;> simp only [stepRec, finish] <;> (repeat' split) <;>
    simp [sendsOf, answersOf, isSent, isAnswer, hne]

/-- a record only emits outputs about itself, and as many as its counters advance -/
theorem stepRec_counts (ev : Ev) (r : Rec) (i : Nat) :
    (if i = r.id then sendsOf i (stepRec ev r).2 + r.sends = (stepRec ev r).1.sends ∧
                      answersOf i (stepRec ev r).2 + r.answers = (stepRec ev r).1.answers
     else sendsOf i (stepRec ev r).2 = 0 ∧ answersOf i (stepRec ev r).2 = 0) := by
  by_cases h : i = r.id
  · subst h; simp only [↓reduceIte]; exact stepRec_counts_own ev r
  · simp only [h, ↓reduceIte]; exact stepRec_counts_other ev r i (fun e => h e.symm)

theorem sendsOf_append (i : Nat) (a b : List Out) : sendsOf i (a ++ b) = sendsOf i a + sendsOf i b := by
  simp [sendsOf, List.countP_append]
theorem answersOf_append (i : Nat) (a b : List Out) : answersOf i (a ++ b) = answersOf i a + answersOf i b := by
  simp [answersOf, List.countP_append]

/-- outputs of a whole step about request `i` are those of the one record with that id -/
theorem flatten_counts (ev : Ev) : ∀ (recs : List Rec), (recs.map (·.id)).Nodup → ∀ (i : Nat),
    (∀ r ∈ recs, r.id = i →
      sendsOf i ((recs.map (fun x => (stepRec ev x).2)).flatten) = sendsOf i (stepRec ev r).2 ∧
      answersOf i ((recs.map (fun x => (stepRec ev x).2)).flatten) = answersOf i (stepRec ev r).2) ∧
    ((∀ r ∈ recs, r.id ≠ i) →
      sendsOf i ((recs.map (fun x => (stepRec ev x).2)).flatten) = 0 ∧
      answersOf i ((recs.map (fun x => (stepRec ev x).2)).flatten) = 0) := by
  intro recs
  induction recs with
  | nil => intro _ i; simp [sendsOf, answersOf]
  | cons x xs ih =>
    intro hnd i
    simp only [List.map_cons, List.nodup_cons] at hnd
    obtain ⟨hx, hxs⟩ := hnd
    obtain ⟨ih1, ih2⟩ := ih hxs i
    simp only [List.map_cons, List.flatten_cons, sendsOf_append, answersOf_append]
    have hc := stepRec_counts ev x i
    constructor
    · intro r hr hri
      rcases List.mem_cons.mp hr with rfl | hr
      · -- the head is the record; the tail has no record with this id
        have hno : ∀ y ∈ xs, y.id ≠ i := by
          intro y hy hyi
          apply hx
          rw [List.mem_map]
          exact ⟨y, hy, by rw [hyi, hri]⟩
        obtain ⟨a, b⟩ := ih2 hno
        omega
      · have hxi : x.id ≠ i := by
          intro hxi
          apply hx
          rw [List.mem_map]
          exact ⟨r, hr, by rw [hri, hxi]⟩
        have hxi' : ¬ i = x.id := fun h => hxi h.symm
        simp only [hxi', ↓reduceIte] at hc
        obtain ⟨a, b⟩ := ih1 r hr hri
        omega
    · intro hno
      have hxi' : ¬ i = x.id := fun h => hno x (by simp) h.symm
      simp only [hxi', ↓reduceIte] at hc
      obtain ⟨a, b⟩ := ih2 (fun y hy => hno y (by simp [hy]))
      omega

/-- trace invariant -/
structure TInv (acc : State × List Out) : Prop where
  known : ∀ r ∈ acc.1.recs, sendsOf r.id acc.2 = r.sends ∧ answersOf r.id acc.2 = r.answers
  fresh : ∀ i, acc.1.recs.length ≤ i → sendsOf i acc.2 = 0 ∧ answersOf i acc.2 = 0

theorem ids_nodup (s : State) (h : SInv s) : (s.recs.map (·.id)).Nodup := by
  rw [h.ids]; exact List.nodup_range

theorem id_lt (s : State) (h : SInv s) (r : Rec) (hr : r ∈ s.recs) : r.id < s.recs.length := by
  have : r.id ∈ s.recs.map (·.id) := List.mem_map_of_mem hr
  rw [h.ids] at this
  exact List.mem_range.mp this

theorem step_outs (s : State) (ev : Ev) :
    ∃ extra, (step s ev).2 = ((s.recs.map (fun x => (stepRec ev x).2)).flatten) ++ extra ∧
      (step s ev).1.recs = s.recs.map (fun x => (stepRec ev x).1) ++
        (match ev with | .request v => [(newRec s v).1] | _ => []) ∧
      extra = (match ev with | .request v => (newRec s v).2 | _ => []) := by
  cases ev <;> simp [step, List.map_map, Function.comp_def]

theorem newRec_counts (s : State) (v : Bool) (i : Nat) :
    (if i = s.recs.length then sendsOf i (newRec s v).2 = (newRec s v).1.sends ∧
                                answersOf i (newRec s v).2 = (newRec s v).1.answers
     else sendsOf i (newRec s v).2 = 0 ∧ answersOf i (newRec s v).2 = 0) := by
  by_cases h : i = s.recs.length
  · subst h
    simp only [↓reduceIte]
    unfold newRec finish
    simp only
    (repeat' split) <;> simp [sendsOf, answersOf, isSent, isAnswer]
  · have hne : ¬ s.recs.length = i := fun e => h e.symm
    simp only [h, ↓reduceIte]
    unfold newRec finish
    simp only
    (repeat' split) <;> simp [sendsOf, answersOf, isSent, isAnswer, hne]

theorem acc1_tinv (acc : State × List Out) (ev : Ev) (hs : SInv acc.1) (ht : TInv acc) : TInv (acc1 acc ev) := by
  obtain ⟨extra, ho, hrecs, hextra⟩ := step_outs acc.1 ev
  have hnd := ids_nodup acc.1 hs
  constructor
  · intro r' hr'
    simp only [acc1] at hr' ⊢
    rw [hrecs] at hr'
    rw [ho, sendsOf_append, sendsOf_append, answersOf_append, answersOf_append]
    rcases List.mem_append.mp hr' with hm | hm
    · obtain ⟨r, hr, rfl⟩ := List.mem_map.mp hm
      have hid := stepRec_id ev r
      rw [hid]
      obtain ⟨hk1, hk2⟩ := ht.known r hr
      obtain ⟨hf1, hf2⟩ := (flatten_counts ev acc.1.recs hnd r.id).1 r hr rfl
      have hc := stepRec_counts ev r r.id
      simp only [↓reduceIte] at hc
      have hlt := id_lt acc.1 hs r hr
      have hex : sendsOf r.id extra = 0 ∧ answersOf r.id extra = 0 := by
        rw [hextra]
        cases ev with
        | request v =>
          have := newRec_counts acc.1 v r.id
          have hne : ¬ r.id = acc.1.recs.length := by omega
          simpa [hne] using this
        | _ => simp [sendsOf, answersOf]
      omega
    · -- the new record
      cases ev with
      | request v =>
        simp only [List.mem_singleton] at hm
        subst hm
        have hid := (newRec_inv acc.1 v).2
        rw [hid]
        obtain ⟨hz1, hz2⟩ := ht.fresh acc.1.recs.length (Nat.le_refl _)
        have hno : ∀ r ∈ acc.1.recs, r.id ≠ acc.1.recs.length := by
          intro r hr; have := id_lt acc.1 hs r hr; omega
        obtain ⟨hf1, hf2⟩ := (flatten_counts (.request v) acc.1.recs hnd acc.1.recs.length).2 hno
        have := newRec_counts acc.1 v acc.1.recs.length
        simp only [↓reduceIte] at this
        rw [hextra]
        simp only
        omega
      | _ => simp at hm
  · intro i hi
    simp only [acc1] at hi ⊢
    rw [hrecs] at hi
    rw [ho, sendsOf_append, sendsOf_append, answersOf_append, answersOf_append]
    have hlen : acc.1.recs.length ≤ i := by
      simp only [List.length_append, List.length_map] at hi; omega
    obtain ⟨hz1, hz2⟩ := ht.fresh i hlen
    have hno : ∀ r ∈ acc.1.recs, r.id ≠ i := by
      intro r hr; have := id_lt acc.1 hs r hr; omega
    obtain ⟨hf1, hf2⟩ := (flatten_counts ev acc.1.recs hnd i).2 hno
    have hex : sendsOf i extra = 0 ∧ answersOf i extra = 0 := by
      rw [hextra]
      cases ev with
      | request v =>
        have := newRec_counts acc.1 v i
        have hne : ¬ i = acc.1.recs.length := by
          simp only [List.length_append, List.length_map, List.length_cons, List.length_nil] at hi; omega
        simpa [hne] using this
      | _ => simp [sendsOf, answersOf]
    omega

theorem foldl_tinv (evs : List Ev) : ∀ acc : State × List Out, SInv acc.1 → TInv acc →
    TInv (evs.foldl acc1 acc) := by
  induction evs with
  | nil => intro acc _ h; exact h
  | cons ev evs ih => intro acc hs ht; exact ih _ (step_inv _ ev hs) (acc1_tinv acc ev hs ht)

theorem run_tinv (evs : List Ev) : TInv (run evs) :=
  foldl_tinv evs _ init_inv ⟨by simp [init], by simp [sendsOf, answersOf]⟩

/-! ## what one step shows, against the spec -/

open Lumina.Spec.C32 (Known Sent specSends specAnswers specScheduleProgress specStopProgress)

def knownOf (r : Rec) : Known :=
  { id := r.id, sends := r.sends, answered := decide (1 ≤ r.answers), closed := r.closed,
    waiting := r.phase == .pending, inflight := r.phase == .inflight }

def sentOf : Out → Option Sent
  | .sent id _ _ _ p => some { id := id, toConnected := p.connected, toArchival := p.archival }
  | .answer _ _ => none

def answeredOf : Out → Option Nat
  | .sent _ _ _ _ _ => none
  | .answer id _ => some id

/-- what is known before the step (a request made in this very step is known with zero counts) -/
def knownFor (s : State) (ev : Ev) : List Known :=
  s.recs.map knownOf ++
    (match ev with
     | .request _ => [{ id := s.recs.length, sends := 0, answered := false, closed := false, waiting := false, inflight := false }]
     | _ => [])

theorem kindOk_connected (k : Kind) (p : Peer) (h : kindOk k p = true) : p.connected = true := by
  cases k <;> simp [kindOk] at h <;> simp [h]

/-- the outbound requests one record emits -/
theorem stepRec_sent (ev : Ev) (r : Rec) (h : RInv r) (x : Sent) (hx : x ∈ (stepRec ev r).2.filterMap sentOf) :
    x.id = r.id ∧ r.sends + 1 ≤ 3 ∧ x.toConnected = true ∧ (r.sends + 1 = 3 → x.toArchival = true) ∧
    r.answers = 0 ∧ (stepRec ev r).2.filterMap sentOf = [x] := by
  cases ev with
  | schedule peers choice =>
    simp only [stepRec] at hx ⊢
    split at hx
    · rename_i hp
      have hl := h.live (by rw [hp]; simp)
      have ht := h.pend hp
      cases hg : (peers.filter (kindOk r.kind))[choice r.id % (peers.filter (kindOk r.kind)).length]? with
      | none => simp [hg] at hx
      | some p =>
        simp only [hg] at hx ⊢
        have hmem := List.mem_of_getElem? hg
        rw [List.mem_filter] at hmem
        by_cases hc : r.closed = true
        · simp [hc] at hx
        · simp only [hc, Bool.false_eq_true, ↓reduceIte, List.filterMap_cons, sentOf, List.filterMap_nil,
            List.mem_singleton] at hx ⊢
          subst hx
          refine ⟨rfl, by omega, kindOk_connected _ _ hmem.2, ?_, hl.2, by rw [if_pos hp]; rfl⟩
          intro h3
          have hk := h.last hp (by omega)
          rw [hk] at hmem
          simp [kindOk] at hmem
          exact hmem.2.2
    · simp at hx
  | request v => simp [stepRec] at hx
  | close id => simp only [stepRec] at hx; split at hx <;> simp at hx
  | stop =>
    simp only [stepRec, finish] at hx
    (repeat' split at hx) <;> simp [sentOf] at hx
  | outcome id a res =>
    simp only [stepRec, finish] at hx
    (repeat' split at hx) <;> simp [sentOf] at hx

theorem find_known (recs : List Rec) (hnd : (recs.map (·.id)).Nodup) (r : Rec) (hr : r ∈ recs) (tail : List Known) :
    (recs.map knownOf ++ tail).find? (fun k => k.id == r.id) = some (knownOf r) := by
  induction recs with
  | nil => simp at hr
  | cons x xs ih =>
    simp only [List.map_cons, List.nodup_cons] at hnd
    simp only [List.map_cons, List.cons_append, List.find?_cons]
    rcases List.mem_cons.mp hr with rfl | hr
    · simp [knownOf]
    · have hne : x.id ≠ r.id := by
        intro e; apply hnd.1; rw [List.mem_map]; exact ⟨r, hr, e.symm⟩
      have : ((knownOf x).id == r.id) = false := by simp [knownOf, hne]
      simp only [this]
      exact ih hnd.2 hr

theorem sent_flatten_sublist (ev : Ev) : ∀ (recs : List Rec), (∀ r ∈ recs, RInv r) →
    ((((recs.map (fun x => (stepRec ev x).2)).flatten).filterMap sentOf).map (·.id)).Sublist (recs.map (·.id)) := by
  intro recs
  induction recs with
  | nil => intro _; simp
  | cons x xs ih =>
    intro hinv
    simp only [List.map_cons, List.flatten_cons, List.filterMap_append, List.map_append]
    have ih' := ih (fun r hr => hinv r (by simp [hr]))
    cases hl : (stepRec ev x).2.filterMap sentOf with
    | nil => simpa using ih'.cons x.id
    | cons y ys =>
      have hy : y ∈ (stepRec ev x).2.filterMap sentOf := by rw [hl]; simp
      obtain ⟨hid, _, _, _, _, hone⟩ := stepRec_sent ev x (hinv x (by simp)) y hy
      rw [hl] at hone
      simp only [List.cons.injEq, true_and] at hone
      subst hone
      simpa [hid] using ih'.cons_cons x.id

theorem newRec_no_sent (s : State) (v : Bool) : (newRec s v).2.filterMap sentOf = [] := by
  unfold newRec finish
  simp only
  (repeat' split) <;> simp [sentOf]

theorem step_sends_spec (s : State) (ev : Ev) (h : SInv s) :
    specSends (knownFor s ev) ((step s ev).2.filterMap sentOf) = true := by
  obtain ⟨extra, ho, _, hextra⟩ := step_outs s ev
  have hex : extra.filterMap sentOf = [] := by
    rw [hextra]; cases ev <;> simp [newRec_no_sent]
  rw [ho, List.filterMap_append, hex, List.append_nil]
  unfold specSends
  rw [Bool.and_eq_true]
  constructor
  · rw [List.all_eq_true]
    intro x hx
    rw [List.mem_filterMap] at hx
    obtain ⟨o, ho', hox⟩ := hx
    rw [List.mem_flatten] at ho'
    obtain ⟨l, hl, hol⟩ := ho'
    rw [List.mem_map] at hl
    obtain ⟨r, hr, rfl⟩ := hl
    have hx' : x ∈ (stepRec ev r).2.filterMap sentOf := List.mem_filterMap.mpr ⟨o, hol, hox⟩
    obtain ⟨hid, h3, hc, ha, hans, _⟩ := stepRec_sent ev r (h.recs r hr) x hx'
    unfold knownFor
    rw [hid, find_known s.recs (ids_nodup s h) r hr]
    simp only [knownOf, hans, Bool.and_eq_true, decide_eq_true_eq, hc, Bool.or_eq_true, bne_iff_ne, ne_eq,
      Bool.not_eq_true', decide_eq_false_iff_not]
    refine ⟨⟨⟨h3, trivial⟩, ?_⟩, by omega⟩
    by_cases h33 : r.sends + 1 = 3
    · right; exact ha h33
    · left; exact h33
  · rw [decide_eq_true_eq]
    exact (ids_nodup s h).sublist (sent_flatten_sublist ev s.recs h.recs)

/-- the answers one record emits -/
theorem stepRec_answer (ev : Ev) (r : Rec) (h : RInv r) (i : Nat) (hx : i ∈ (stepRec ev r).2.filterMap answeredOf) :
    i = r.id ∧ r.answers = 0 ∧ (stepRec ev r).2.filterMap answeredOf = [i] := by
  cases ev with
  | schedule peers choice =>
    simp only [stepRec] at hx
    (repeat' split at hx) <;> simp [answeredOf] at hx
  | request v => simp [stepRec] at hx
  | close id => simp only [stepRec] at hx; split at hx <;> simp at hx
  | stop =>
    simp only [stepRec, finish] at hx ⊢
    split at hx
    · simp at hx
    · rename_i hd
      have hl := h.live hd
      split at hx
      · simp at hx
      · rename_i hc
        simp only [List.filterMap_cons, answeredOf, List.filterMap_nil, List.mem_singleton] at hx
        simp [hd, hc, answeredOf, hx, hl.2]
  | outcome id a res =>
    simp only [stepRec, finish] at hx ⊢
    split at hx
    · rename_i hc
      have hl := h.live (by rw [hc.2.1]; simp)
      split at hx
      · simp at hx
      · rename_i hr
        split at hx
        · simp at hx
        · rename_i hcl
          simp only [List.filterMap_cons, answeredOf, List.filterMap_nil, List.mem_singleton] at hx
          simp [hc, hr, hcl, answeredOf, hx, hl.2]
    · simp at hx

theorem answer_flatten_sublist (ev : Ev) : ∀ (recs : List Rec), (∀ r ∈ recs, RInv r) →
    (((recs.map (fun x => (stepRec ev x).2)).flatten).filterMap answeredOf).Sublist (recs.map (·.id)) := by
  intro recs
  induction recs with
  | nil => intro _; simp
  | cons x xs ih =>
    intro hinv
    simp only [List.map_cons, List.flatten_cons, List.filterMap_append]
    have ih' := ih (fun r hr => hinv r (by simp [hr]))
    cases hl : (stepRec ev x).2.filterMap answeredOf with
    | nil => simpa using ih'.cons x.id
    | cons y ys =>
      have hy : y ∈ (stepRec ev x).2.filterMap answeredOf := by rw [hl]; simp
      obtain ⟨hid, _, hone⟩ := stepRec_answer ev x (hinv x (by simp)) y hy
      rw [hl] at hone
      simp only [List.cons.injEq, true_and] at hone
      subst hone
      simpa [hid] using ih'.cons_cons x.id

theorem newRec_answers (s : State) (v : Bool) :
    (newRec s v).2.filterMap answeredOf = [] ∨ (newRec s v).2.filterMap answeredOf = [s.recs.length] := by
  unfold newRec finish
  simp only
  (repeat' split) <;> simp [answeredOf]

theorem find_known_tail (recs : List Rec) (n : Nat) (hlt : ∀ r ∈ recs, r.id ≠ n) (k : Known) (hk : k.id = n) :
    (recs.map knownOf ++ [k]).find? (fun x => x.id == n) = some k := by
  induction recs with
  | nil => simp [hk]
  | cons x xs ih =>
    have hne := hlt x (by simp)
    have : ((knownOf x).id == n) = false := by simp [knownOf, hne]
    simp only [List.map_cons, List.cons_append, List.find?_cons, this]
    exact ih (fun r hr => hlt r (by simp [hr]))

theorem step_answers_spec (s : State) (ev : Ev) (h : SInv s) :
    specAnswers (knownFor s ev) ((step s ev).2.filterMap answeredOf) = true := by
  obtain ⟨extra, ho, _, hextra⟩ := step_outs s ev
  rw [ho, List.filterMap_append]
  have hsub := answer_flatten_sublist ev s.recs h.recs
  have hnd := ids_nodup s h
  -- answers of existing records
  have hold : ∀ i ∈ ((s.recs.map (fun x => (stepRec ev x).2)).flatten).filterMap answeredOf, ∀ tail,
      (match (s.recs.map knownOf ++ tail).find? (fun k => k.id == i) with
       | none => false
       | some k => !k.answered) = true := by
    intro i hi tail
    rw [List.mem_filterMap] at hi
    obtain ⟨o, ho', hox⟩ := hi
    rw [List.mem_flatten] at ho'
    obtain ⟨l, hl, hol⟩ := ho'
    rw [List.mem_map] at hl
    obtain ⟨r, hr, rfl⟩ := hl
    have hx' : i ∈ (stepRec ev r).2.filterMap answeredOf := List.mem_filterMap.mpr ⟨o, hol, hox⟩
    obtain ⟨hid, hans, _⟩ := stepRec_answer ev r (h.recs r hr) i hx'
    rw [hid, find_known s.recs hnd r hr]
    simp [knownOf, hans]
  unfold specAnswers
  rw [Bool.and_eq_true]
  cases ev with
  | request v =>
    have hlt : ∀ r ∈ s.recs, r.id ≠ s.recs.length := by
      intro r hr; have := id_lt s h r hr; omega
    simp only at hextra
    rw [hextra]
    rcases newRec_answers s v with hn | hn
    · rw [hn, List.append_nil]
      exact ⟨List.all_eq_true.mpr (fun i hi => hold i hi _), decide_eq_true (hnd.sublist hsub)⟩
    · rw [hn]
      constructor
      · rw [List.all_eq_true]
        intro i hi
        rcases List.mem_append.mp hi with hi | hi
        · exact hold i hi _
        · simp only [List.mem_singleton] at hi
          subst hi
          unfold knownFor
          simp only
          rw [find_known_tail s.recs _ hlt _ rfl]
          rfl
      · rw [decide_eq_true_eq]
        have hnotin : s.recs.length ∉ ((s.recs.map (fun x => (stepRec (.request v) x).2)).flatten).filterMap answeredOf := by
          intro hm
          have := hsub.subset hm
          rw [h.ids] at this
          simp at this
        exact List.nodup_append.mpr ⟨hnd.sublist hsub, by simp, by
          intro a ha b hb
          simp only [List.mem_singleton] at hb
          subst hb
          intro e; subst e; exact hnotin ha⟩
  | stop =>
    simp only at hextra; rw [hextra, List.filterMap_nil, List.append_nil]
    exact ⟨List.all_eq_true.mpr (fun i hi => hold i hi _), decide_eq_true (hnd.sublist hsub)⟩
  | schedule p c =>
    simp only at hextra; rw [hextra, List.filterMap_nil, List.append_nil]
    exact ⟨List.all_eq_true.mpr (fun i hi => hold i hi _), decide_eq_true (hnd.sublist hsub)⟩
  | outcome a b c =>
    simp only at hextra; rw [hextra, List.filterMap_nil, List.append_nil]
    exact ⟨List.all_eq_true.mpr (fun i hi => hold i hi _), decide_eq_true (hnd.sublist hsub)⟩
  | close a =>
    simp only at hextra; rw [hextra, List.filterMap_nil, List.append_nil]
    exact ⟨List.all_eq_true.mpr (fun i hi => hold i hi _), decide_eq_true (hnd.sublist hsub)⟩

/-! ## progress -/

theorem mem_step_outs (s : State) (ev : Ev) (r : Rec) (hr : r ∈ s.recs) (o : Out) (ho : o ∈ (stepRec ev r).2) :
    o ∈ (step s ev).2 := by
  obtain ⟨extra, he, _, _⟩ := step_outs s ev
  rw [he]
  apply List.mem_append_left
  rw [List.mem_flatten]
  exact ⟨(stepRec ev r).2, List.mem_map.mpr ⟨r, hr, rfl⟩, ho⟩

/-- a pending request whose caller is still there is sent as soon as a peer of its kind is connected -/
theorem schedule_sends_pending (r : Rec) (peers : List Peer) (choice : Nat → Nat)
    (hp : r.phase = .pending) (hc : r.closed = false) (p : Peer) (hpm : p ∈ peers) (hk : kindOk r.kind p = true) :
    ∃ q, (stepRec (.schedule peers choice) r).2 = [.sent r.id (r.sends + 1) r.kind (r.triesLeft - 1) q] ∧
      (stepRec (.schedule peers choice) r).1.phase = .inflight := by
  have hne : 0 < (peers.filter (kindOk r.kind)).length :=
    List.length_pos_of_mem (List.mem_filter.mpr ⟨hpm, hk⟩)
  have hlt : choice r.id % (peers.filter (kindOk r.kind)).length < (peers.filter (kindOk r.kind)).length :=
    Nat.mod_lt _ hne
  simp only [stepRec, hp, ↓reduceIte, List.getElem?_eq_getElem hlt, hc, Bool.false_eq_true]
  exact ⟨_, rfl, by simp⟩

theorem schedule_progress_spec (s : State) (peers : List Peer) (choice : Nat → Nat) (h : SInv s) :
    specScheduleProgress (knownFor s (.schedule peers choice))
      (peers.any (·.connected)) (peers.any (fun p => p.connected && p.archival))
      ((step s (.schedule peers choice)).2.filterMap sentOf) = true := by
  unfold specScheduleProgress knownFor
  simp only [List.append_nil]
  rw [List.all_eq_true]
  intro k hk
  rw [List.mem_map] at hk
  obtain ⟨r, hr, rfl⟩ := hk
  have hi := h.recs r hr
  by_cases hcond : ((knownOf r).waiting && !(knownOf r).closed && !(knownOf r).answered &&
      (if (knownOf r).sends + 1 == 3 then peers.any (fun p => p.connected && p.archival) else peers.any (·.connected))) = true
  · simp only [hcond, Bool.not_true, Bool.false_or]
    simp only [knownOf, Bool.and_eq_true, beq_iff_eq, Bool.not_eq_true', decide_eq_false_iff_not] at hcond
    obtain ⟨⟨⟨hp, hc⟩, _⟩, hpeer⟩ := hcond
    have hl := hi.live (by rw [hp]; simp)
    -- a peer of the required kind
    have hex : ∃ p ∈ peers, kindOk r.kind p = true := by
      by_cases h3 : r.sends + 1 = 3
      · simp only [h3, ↓reduceIte, List.any_eq_true, Bool.and_eq_true] at hpeer
        obtain ⟨p, hpm, hpc, hpa⟩ := hpeer
        refine ⟨p, hpm, ?_⟩
        rcases hi.kinds with hk | hk <;> simp [hk, kindOk, hpc, hpa]
      · simp only [h3, ↓reduceIte, List.any_eq_true] at hpeer
        obtain ⟨p, hpm, hpc⟩ := hpeer
        refine ⟨p, hpm, ?_⟩
        have hka : r.kind = .any := by
          rcases hi.kinds with hk | hk
          · exact hk
          · exfalso
            have h1 := hi.arch hk
            have h2 := hi.pend hp
            have h3' := hl.1
            omega
        simp [hka, kindOk, hpc]
    obtain ⟨p, hpm, hkp⟩ := hex
    obtain ⟨q, hq, _⟩ := schedule_sends_pending r peers choice hp hc p hpm hkp
    rw [List.any_eq_true]
    refine ⟨{ id := r.id, toConnected := q.connected, toArchival := q.archival }, ?_, by simp [knownOf]⟩
    rw [List.mem_filterMap]
    refine ⟨.sent r.id (r.sends + 1) r.kind (r.triesLeft - 1) q, ?_, rfl⟩
    exact mem_step_outs s _ r hr _ (by rw [hq]; simp)
  · have hcond' := (Bool.not_eq_true _).mp hcond
    simp only [hcond', Bool.not_false, Bool.true_or]

/-- at stop every caller that is still there and unanswered is answered -/
theorem stop_progress_spec (s : State) (h : SInv s) :
    specStopProgress (knownFor s .stop) ((step s .stop).2.filterMap answeredOf) = true := by
  unfold specStopProgress knownFor
  simp only [List.append_nil]
  rw [List.all_eq_true]
  intro k hk
  rw [List.mem_map] at hk
  obtain ⟨r, hr, rfl⟩ := hk
  have hi := h.recs r hr
  simp only [knownOf, Bool.or_eq_true, decide_eq_true_eq, List.contains_eq_mem]
  by_cases hd : r.phase = .done
  · rcases hi.fin hd with hc | ha
    · left; right; exact hc
    · left; left; omega
  · by_cases hc : r.closed = true
    · left; right; exact hc
    · right
      rw [List.mem_filterMap]
      refine ⟨.answer r.id .requestCancelled, ?_, rfl⟩
      apply mem_step_outs s .stop r hr
      simp [stepRec, hd, finish, hc]

/-- bounded-progress measure of a request that is still open -/
def pot (r : Rec) : Nat := 2 * r.triesLeft + (if r.phase = .inflight then 1 else 0)

theorem pot_le (r : Rec) (h : RInv r) (hl : r.phase ≠ .done) : pot r ≤ 7 := by
  have := h.live hl
  unfold pot; split <;> omega

/-- a scheduling step with a suitable peer strictly decreases the measure of a pending request -/
theorem schedule_decreases (r : Rec) (peers : List Peer) (choice : Nat → Nat) (hi : RInv r)
    (hp : r.phase = .pending) (hc : r.closed = false) (p : Peer) (hpm : p ∈ peers) (hk : kindOk r.kind p = true) :
    pot (stepRec (.schedule peers choice) r).1 < pot r := by
  have hne : 0 < (peers.filter (kindOk r.kind)).length :=
    List.length_pos_of_mem (List.mem_filter.mpr ⟨hpm, hk⟩)
  have hlt : choice r.id % (peers.filter (kindOk r.kind)).length < (peers.filter (kindOk r.kind)).length :=
    Nat.mod_lt _ hne
  have ht := hi.pend hp
  simp only [stepRec, hp, ↓reduceIte, List.getElem?_eq_getElem hlt, hc, Bool.false_eq_true, pot]
  simp
  omega

/-- the outcome of the outstanding attempt either answers the request (exactly one answer, when the caller
    is still there) or strictly decreases the measure -/
theorem outcome_settles (r : Rec) (res : Res) (hi : RInv r) (hp : r.phase = .inflight) :
    let r' := (stepRec (.outcome r.id r.sends res) r).1
    (r'.phase = .done ∧ (r.closed = false → r'.answers = 1 ∧
        (stepRec (.outcome r.id r.sends res) r).2 = [.answer r.id (answerOf res)])) ∨
    (r'.phase = .pending ∧ pot r' < pot r) := by
  have hl := hi.live (by rw [hp]; simp)
  simp only [stepRec, hp, and_self, ↓reduceIte]
  by_cases hr : canRetry r res = true
  · right
    simp [hr, pot, hp]
  · left
    simp only [hr, Bool.false_eq_true, ↓reduceIte, finish]
    split
    · rename_i hc; simp [hc]
    · simp; omega

/-! ## what the callers are told -/

open Lumina.Spec.C32 (AnsKind specOutcomeAnswers specRequestAnswers specStopAnswers specQuietStep)

def kindOfAnswer : Answer → AnsKind
  | .ok => .ok | .headerNotFound => .headerNotFound | .invalidResponse => .invalidResponse
  | .invalidRequest => .invalidRequest | .outboundFailure => .outboundFailure | .requestCancelled => .requestCancelled

def answerPairOf : Out → Option (Nat × AnsKind)
  | .sent _ _ _ _ _ => none
  | .answer id a => some (id, kindOfAnswer a)

def resKind (res : Res) : AnsKind := kindOfAnswer (answerOf res)

theorem filterMap_flatten' {α β} (g : α → Option β) (ls : List (List α)) :
    ls.flatten.filterMap g = (ls.map (List.filterMap g)).flatten := by
  induction ls with
  | nil => rfl
  | cons l ls ih => simp [List.filterMap_append, ih]

theorem flatten_all_nil {α β} (f : α → List β) (l : List α) (h : ∀ x ∈ l, f x = []) : (l.map f).flatten = [] := by
  induction l with
  | nil => rfl
  | cons x xs ih => simp [h x (by simp), ih (fun y hy => h y (by simp [hy]))]

/-- when only the record with id `i` can emit anything, the step's outputs are that record's -/
theorem flatten_single {β} (f : Rec → List β) (i : Nat) : ∀ (recs : List Rec), (recs.map (·.id)).Nodup →
    (∀ r ∈ recs, r.id ≠ i → f r = []) →
    (recs.map f).flatten = (match recs.find? (fun r => r.id == i) with | some r => f r | none => []) := by
  intro recs
  induction recs with
  | nil => intro _ _; rfl
  | cons x xs ih =>
    intro hnd hz
    simp only [List.map_cons, List.nodup_cons] at hnd
    simp only [List.map_cons, List.flatten_cons, List.find?_cons]
    by_cases hx : x.id = i
    · have hrest : (xs.map f).flatten = [] := by
        apply flatten_all_nil
        intro y hy
        apply hz y (by simp [hy])
        intro hyi
        apply hnd.1
        rw [List.mem_map]
        exact ⟨y, hy, by rw [hyi, hx]⟩
      simp [hx, hrest]
    · have hb : (x.id == i) = false := by simp [hx]
      rw [hz x (by simp) hx, hb]
      simpa using ih hnd.2 (fun r hr => hz r (by simp [hr]))

theorem find_known_map (recs : List Rec) (i : Nat) :
    (recs.map knownOf ++ []).find? (fun k => k.id == i) = (recs.find? (fun r => r.id == i)).map knownOf := by
  induction recs with
  | nil => rfl
  | cons x xs ih =>
    simp only [List.map_cons, List.cons_append, List.find?_cons]
    by_cases hx : x.id = i
    · simp [knownOf, hx]
    · have hb : (x.id == i) = false := by simp [hx]
      have hb' : ((knownOf x).id == i) = false := by simp [knownOf, hx]
      rw [hb, hb']
      exact ih

/-- **the first valid response or the final error** -/
theorem outcome_answers_spec (s : State) (id att : Nat) (res : Res) (h : SInv s) :
    specOutcomeAnswers (knownFor s (.outcome id att res)) id
      (match s.recs.find? (fun r => r.id == id) with | some r => att == r.sends | none => false)
      (resKind res) ((step s (.outcome id att res)).2.filterMap answerPairOf) = true := by
  obtain ⟨extra, ho, _, hextra⟩ := step_outs s (.outcome id att res)
  simp only at hextra
  rw [ho, hextra, List.append_nil, filterMap_flatten', List.map_map]
  have hfs := flatten_single (fun r => (stepRec (.outcome id att res) r).2.filterMap answerPairOf) id s.recs (ids_nodup s h)
    (by intro r _ hne; simp [stepRec, hne])
  have hcomp : (List.filterMap answerPairOf ∘ fun x => (stepRec (Ev.outcome id att res) x).snd) =
      (fun r => (stepRec (.outcome id att res) r).2.filterMap answerPairOf) := rfl
  rw [hcomp, hfs]
  unfold specOutcomeAnswers knownFor
  rw [find_known_map]
  cases hf : s.recs.find? (fun r => r.id == id) with
  | none => simp
  | some r =>
    have hr : r ∈ s.recs := List.mem_of_find?_eq_some hf
    have hid : r.id = id := by simpa using List.find?_some hf
    have hi := h.recs r hr
    simp only [Option.map_some, knownOf, beq_iff_eq, Function.comp]
    by_cases hp : r.phase = .inflight
    · have hl := (hi.live (by rw [hp]; simp)).1
      by_cases ha : r.sends = att
      · have ha' : (att == r.sends) = true := by simp [ha]
        by_cases hc : r.closed = true
        · simp [stepRec, hid, hp, ha, ha', hc, canRetry, finish, answerPairOf]
        · have hc' : r.closed = false := by simpa using hc
          by_cases h3 : r.sends = 3
          · have ht : r.triesLeft = 0 := by omega
            have hatt : att = 3 := by omega
            cases res <;>
              simp [stepRec, hid, hp, ha, hc', canRetry, finish, answerPairOf, resKind, answerOf, kindOfAnswer, ht, hatt]
          · have ht : ¬ r.triesLeft = 0 := by omega
            have hatt : ¬ att = 3 := by omega
            cases res <;>
              simp [stepRec, hid, hp, ha, hc', canRetry, finish, answerPairOf, resKind, answerOf, kindOfAnswer, ht, hatt]
      · have ha' : (att == r.sends) = false := by simp; omega
        simp [stepRec, hid, hp, ha, ha']
    · have hp' : (r.phase == Phase.inflight) = false := by simpa using hp
      simp [stepRec, hid, hp, hp']

/-- a new request is answered at once only after stop (cancelled) or when invalid -/
theorem request_answers_spec (s : State) (v : Bool) :
    specRequestAnswers s.recs.length s.stopped v ((step s (.request v)).2.filterMap answerPairOf) = true := by
  obtain ⟨extra, ho, _, hextra⟩ := step_outs s (.request v)
  simp only at hextra
  have hnil : ((s.recs.map (fun x => (stepRec (.request v) x).2)).flatten) = [] :=
    flatten_all_nil _ _ (by intro r _; simp [stepRec])
  rw [ho, hnil, List.nil_append, hextra]
  unfold specRequestAnswers newRec finish
  cases hs : s.stopped <;> cases v <;> simp [answerPairOf, kindOfAnswer]

/-- at stop every answer is `RequestCancelled`; at a scheduling step or when a caller goes away nobody is answered -/
theorem stop_answers_spec (s : State) :
    specStopAnswers ((step s .stop).2.filterMap answerPairOf) = true := by
  obtain ⟨extra, ho, _, hextra⟩ := step_outs s .stop
  simp only at hextra
  rw [ho, hextra, List.append_nil]
  unfold specStopAnswers
  rw [List.all_eq_true]
  intro a ha
  rw [List.mem_filterMap] at ha
  obtain ⟨o, hom, hoa⟩ := ha
  rw [List.mem_flatten] at hom
  obtain ⟨l, hl, hol⟩ := hom
  rw [List.mem_map] at hl
  obtain ⟨r, _, rfl⟩ := hl
  simp only [stepRec, finish] at hol
  (repeat' split at hol) <;> simp at hol
  subst hol
  simp [answerPairOf, kindOfAnswer] at hoa
  rw [← hoa]
  rfl

theorem quiet_steps_spec (s : State) (ev : Ev) (hev : (∃ p c, ev = .schedule p c) ∨ (∃ i, ev = .close i)) :
    specQuietStep ((step s ev).2.filterMap answerPairOf) = true := by
  obtain ⟨extra, ho, _, hextra⟩ := step_outs s ev
  have hnil : ((s.recs.map (fun x => (stepRec ev x).2)).flatten).filterMap answerPairOf = [] := by
    rw [filterMap_flatten', List.map_map]
    apply flatten_all_nil
    intro r _
    rcases hev with ⟨p, c, rfl⟩ | ⟨i, rfl⟩
    · simp only [Function.comp, stepRec]
      (repeat' split) <;> simp [answerPairOf]
    · simp only [Function.comp, stepRec]
      (repeat' split) <;> simp [answerPairOf]
  have hex : extra = [] := by
    rw [hextra]
    rcases hev with ⟨p, c, rfl⟩ | ⟨i, rfl⟩ <;> rfl
  rw [ho, hex, List.append_nil, hnil]
  rfl

end Lumina.Proofs.Retry

/-
  Helper lemmas for C29 (header-ex server).
-/
import Lumina.Model.HeaderExServer
import Lumina.Spec.C29

namespace Lumina.Proofs.HeaderExServer
open Lumina.Util Lumina.Model.HeaderExServer
open Lumina.Spec.C29 (Entry Obs Req specServe storedAt storedWithHash isHead isRunFrom)

def toEntry (e : Stored) : Entry := { height := e.height, hash := e.hash, body := e.body }

def toResp : Lumina.Model.HeaderExServer.Resp → Lumina.Spec.C29.Resp
  | .ok b => .ok b
  | .notFound => .notFound
  | .invalid => .invalid

theorem storedAt_eq (s : Store) (h : Nat) :
    storedAt (s.map toEntry) h = (getByHeight s h).map (·.body) := by
  unfold storedAt getByHeight
  induction s with
  | nil => rfl
  | cons e t ih =>
    simp only [List.map_cons, List.find?_cons]
    by_cases he : e.height = h
    · simp [toEntry, he]
    · have hb : (e.height == h) = false := by simp [he]
      simp only [toEntry, hb]
      simpa [toEntry] using ih

theorem storedWithHash_eq (s : Store) (h : Bytes) :
    storedWithHash (s.map toEntry) h = (getByHash s h).map (·.body) := by
  unfold storedWithHash getByHash
  induction s with
  | nil => rfl
  | cons e t ih =>
    simp only [List.map_cons, List.find?_cons]
    by_cases he : e.hash = h
    · simp [toEntry, he]
    · have : (e.hash == h) = false := by simp [he]
      simp only [toEntry, this]
      simpa [toEntry] using ih

/-- the fold of `get_head` returns an element of maximal height -/
theorem foldl_head (s : Store) : ∀ (a : Stored),
    ∃ m, s.foldl (fun acc e => match acc with
        | none => some e
        | some a => if e.height > a.height then some e else some a) (some a) = some m ∧
      (m = a ∨ m ∈ s) ∧ a.height ≤ m.height ∧ ∀ e ∈ s, e.height ≤ m.height := by
  induction s with
  | nil => intro a; exact ⟨a, rfl, Or.inl rfl, Nat.le_refl _, by simp⟩
  | cons x t ih =>
    intro a
    simp only [List.foldl_cons]
    by_cases hx : x.height > a.height
    · simp only [hx, ↓reduceIte]
      obtain ⟨m, hm, hmem, hle, hall⟩ := ih x
      refine ⟨m, hm, ?_, by omega, ?_⟩
      · rcases hmem with h | h
        · right; simp [h]
        · right; simp [h]
      · intro e he
        rcases List.mem_cons.mp he with h | h
        · subst h; exact hle
        · exact hall e h
    · simp only [hx, ↓reduceIte]
      obtain ⟨m, hm, hmem, hle, hall⟩ := ih a
      refine ⟨m, hm, ?_, hle, ?_⟩
      · rcases hmem with h | h
        · left; exact h
        · right; simp [h]
      · intro e he
        rcases List.mem_cons.mp he with h | h
        · subst h; omega
        · exact hall e h

theorem getHead_spec (s : Store) (hne : s ≠ []) :
    ∃ m, getHead s = some m ∧ m ∈ s ∧ ∀ e ∈ s, e.height ≤ m.height := by
  cases s with
  | nil => exact absurd rfl hne
  | cons a t =>
    unfold getHead
    simp only [List.foldl_cons]
    obtain ⟨m, hm, hmem, hle, hall⟩ := foldl_head t a
    refine ⟨m, hm, ?_, ?_⟩
    · rcases hmem with h | h
      · simp [h]
      · simp [h]
    · intro e he
      rcases List.mem_cons.mp he with h | h
      · subst h; exact hle
      · exact hall e h

theorem isHead_of_max (s : Store) (m : Stored) (hm : m ∈ s) (hall : ∀ e ∈ s, e.height ≤ m.height) :
    isHead (s.map toEntry) m.body = true := by
  unfold isHead
  rw [List.any_eq_true]
  refine ⟨toEntry m, List.mem_map_of_mem hm, ?_⟩
  simp only [toEntry, beq_self_eq_true, Bool.true_and, List.all_eq_true, List.mem_map, decide_eq_true_eq]
  rintro e' ⟨e, he, rfl⟩
  exact decide_eq_true (hall e he)

/-- the by-height loop returns the longest run from `i` of at most `n` stored headers -/
theorem collect_spec (s : Store) : ∀ (n i : Nat),
    (collect s i n).length ≤ n ∧ isRunFrom (s.map toEntry) i ((collect s i n).map toResp) = true ∧
    ((collect s i n).length = n ∨ storedAt (s.map toEntry) (i + (collect s i n).length) = none) := by
  intro n
  induction n with
  | zero => intro i; simp [collect, isRunFrom]
  | succ n ih =>
    intro i
    unfold collect
    cases hg : getByHeight s i with
    | none =>
      simp only [List.length_nil, Nat.zero_le, List.map_nil, isRunFrom, Nat.add_zero, true_and]
      right
      rw [storedAt_eq, hg]; rfl
    | some e =>
      obtain ⟨h1, h2, h3⟩ := ih (i + 1)
      simp only [List.length_cons, List.map_cons, isRunFrom, toResp]
      refine ⟨by omega, ?_, ?_⟩
      · rw [storedAt_eq, hg]
        simp [h2]
      · rcases h3 with h | h
        · left; omega
        · right
          have : i + ((collect s (i + 1) n).length + 1) = i + 1 + (collect s (i + 1) n).length := by omega
          rw [this]; exact h

theorem collect_nonempty (s : Store) (i n : Nat) (e : Stored) (hg : getByHeight s i = some e) (hn : 0 < n) :
    1 ≤ (collect s i n).length := by
  cases n with
  | zero => omega
  | succ n => simp [collect, hg]

theorem getByHeight_height (s : Store) (i : Nat) (e : Stored) (hg : getByHeight s i = some e) :
    e ∈ s ∧ e.height = i := by
  unfold getByHeight at hg
  have h1 := List.mem_of_find?_eq_some hg
  have h2 := List.find?_some hg
  exact ⟨h1, by simpa using h2⟩

end Lumina.Proofs.HeaderExServer

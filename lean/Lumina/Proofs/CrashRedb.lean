/-
  C22 × C19/C20/C21: lemmas for the instantiation of the crash model with the redb store model
  (`Model/CrashRedb.lean`).

  * one transaction of the crash model (`txOf v op`) = one step of `RedbStore.step` (state and
    result); histories; calls that do not reach `write_tx` are no-ops;
  * the bridge from the refinement relation `Rr` + the abstract invariants `AbsInv` / `AbsVer`
    (C19, C21) to the decidable dump predicate `Spec.C22.consistent` (`consistent_dump`).

  Core Lean only.
-/
import Lumina.Proofs.Crash
import Lumina.Proofs.StoreHist
import Lumina.Proofs.RangesOps
import Lumina.Model.CrashRedb

namespace Lumina.Proofs.CrashRedb
open Lumina.Model Lumina.Model.Store Lumina.Model.Crash Lumina.Model.CrashRedb
open Lumina.Spec.C19 Lumina.Proofs.Store Lumina.Proofs.Crash
open Lumina.Model.CrashStore (setInsert heightsInsert hLt)

/-! ### transactions = steps of the store model -/

/-- one transaction of the crash model = one step of the redb store model (state component) -/
theorem closure_step (v : Hdr → Hdr → Bool) (op : Op) (t : Tables) :
    (match closure v op t with | .ok t' => t' | .error _ => t) = (RedbStore.step v t op).1 := by
  cases op with
  | insert batch =>
    simp only [closure, RedbStore.step, RedbStore.insert]
    cases tryIntoVerified v batch with
    | error e => rfl
    | ok hs =>
      simp only [RedbStore.writeTx]
      cases RedbStore.insertTx v hs t with
      | error e => rfl
      | ok p => rfl
  | remove h =>
    simp only [closure, RedbStore.step, RedbStore.writeTx]
    cases RedbStore.removeHeightTx h t with
    | error e => rfl
    | ok p => rfl
  | mark h =>
    simp only [closure, RedbStore.step, RedbStore.writeTx]
    cases RedbStore.markAsSampledTx h t with
    | error e => rfl
    | ok p => rfl
  | updMeta h c =>
    simp only [closure, RedbStore.step, RedbStore.writeTx]
    cases RedbStore.updateSamplingMetadataTx h c t with
    | error e => rfl
    | ok p => rfl
  | _ => rfl

theorem applyOp_txOf (v : Hdr → Hdr → Bool) (op : Op) (db : Db) :
    applyOp db (txOf v op) = { db with tables := (RedbStore.step v db.tables op).1 } := by
  rw [← closure_step]
  unfold applyOp txOf
  cases closure v op db.tables with
  | error e => rfl
  | ok t' => rfl

/-- … and the result the caller sees is the result of the store model -/
theorem resultOf_txOf (v : Hdr → Hdr → Bool) (op : Op) (hm : op.mutating = true) (db : Db) :
    toRes (resultOf db (txOf v op)) (fun _ => Out.unit) = (RedbStore.step v db.tables op).2 := by
  unfold resultOf txOf
  cases op with
  | insert batch =>
    simp only [closure, RedbStore.step, RedbStore.insert]
    cases tryIntoVerified v batch with
    | error e => rfl
    | ok hs =>
      simp only [RedbStore.writeTx]
      cases RedbStore.insertTx v hs db.tables with
      | error e => rfl
      | ok p => rfl
  | remove h =>
    simp only [closure, RedbStore.step, RedbStore.writeTx]
    cases RedbStore.removeHeightTx h db.tables with
    | error e => rfl
    | ok p => rfl
  | mark h =>
    simp only [closure, RedbStore.step, RedbStore.writeTx]
    cases RedbStore.markAsSampledTx h db.tables with
    | error e => rfl
    | ok p => rfl
  | updMeta h c =>
    simp only [closure, RedbStore.step, RedbStore.writeTx]
    cases RedbStore.updateSamplingMetadataTx h c db.tables with
    | error e => rfl
    | ok p => rfl
  | _ => simp [Op.mutating] at hm

theorem runAbs_txs (v : Hdr → Hdr → Bool) (ops : List Op) (db : Db) :
    runAbs db (ops.map (txOf v)) = { db with tables := (runOps (RedbStore.step v) db.tables ops).1 } := by
  induction ops generalizing db with
  | nil => rfl
  | cons op rest ih =>
    rw [List.map_cons, runAbs_cons, applyOp_txOf, ih, runOps_cons]

/-- a call that does not reach `write_tx` leaves the tables as they are -/
theorem noTx_unchanged (v : Hdr → Hdr → Bool) (op : Op) (t : Tables) (h : issuesTx v op = false) :
    (RedbStore.step v t op).1 = t := by
  cases op with
  | insert batch =>
    simp only [issuesTx] at h
    simp only [RedbStore.step, RedbStore.insert]
    cases hx : tryIntoVerified v batch with
    | error e => rfl
    | ok hs => rw [hx] at h; cases h
  | remove _ => cases h
  | mark _ => cases h
  | updMeta _ _ => cases h
  | _ => rfl

/-- hence the state after a history is the state after its transactions -/
theorem run_filter (v : Hdr → Hdr → Bool) (ops : List Op) (t : Tables) :
    (runOps (RedbStore.step v) t (ops.filter (issuesTx v))).1 = (runOps (RedbStore.step v) t ops).1 := by
  induction ops generalizing t with
  | nil => rfl
  | cons op rest ih =>
    by_cases h : issuesTx v op = true
    · rw [List.filter_cons_of_pos h, runOps_cons, runOps_cons]; exact ih _
    · have h' : issuesTx v op = false := by simpa using h
      rw [List.filter_cons_of_neg h, runOps_cons, noTx_unchanged v op t h']; exact ih _

/-- every prefix of the transactions of a history is the transactions of a prefix of it -/
theorem take_filter_exists {α : Type} (p : α → Bool) (l : List α) (k : Nat) (hk : k ≤ (l.filter p).length) :
    ∃ j, j ≤ l.length ∧ (l.take j).filter p = (l.filter p).take k := by
  induction l generalizing k with
  | nil => exact ⟨0, Nat.le_refl _, by simp⟩
  | cons a rest ih =>
    cases k with
    | zero => exact ⟨0, Nat.zero_le _, by simp⟩
    | succ k =>
      by_cases h : p a = true
      · rw [List.filter_cons_of_pos h] at hk ⊢
        obtain ⟨j, hj, e⟩ := ih k (by simpa using hk)
        exact ⟨j + 1, by simpa using hj, by simp [List.take_succ_cons, List.filter_cons_of_pos h, e]⟩
      · rw [List.filter_cons_of_neg h] at hk ⊢
        obtain ⟨j, hj, e⟩ := ih (k + 1) hk
        exact ⟨j + 1, by simpa using hj, by simp [List.take_succ_cons, List.filter_cons_of_neg h, e]⟩

theorem allWf_take {ops : List Op} (hw : AllWf ops) (k : Nat) : AllWf (ops.take k) :=
  fun o ho => hw o (List.mem_of_mem_take ho)

theorem validRun_take (v : Hdr → Hdr → Bool) (ops : List Op) (a : AbsStore) (h : ValidRun v a ops) (k : Nat) :
    ValidRun v a (ops.take k) := by
  induction ops generalizing a k with
  | nil => simpa using h
  | cons op rest ih =>
    cases k with
    | zero => exact h.1
    | succ k => exact ⟨h.1, ih _ h.2 k⟩

/-! ### sorted key lists -/

theorem mem_setInsert (x y : Nat) (l : List Nat) : y ∈ setInsert x l ↔ y = x ∨ y ∈ l := by
  induction l with
  | nil => simp [setInsert]
  | cons z r ih =>
    simp only [setInsert]
    split
    · simp
    · split
      · rename_i h; subst h; simp
      · simp only [List.mem_cons, ih]
        constructor
        · rintro (h | h | h)
          · exact Or.inr (Or.inl h)
          · exact Or.inl h
          · exact Or.inr (Or.inr h)
        · rintro (h | h | h)
          · exact Or.inr (Or.inl h)
          · exact Or.inl h
          · exact Or.inr (Or.inr h)

theorem setInsert_sorted (x : Nat) (l : List Nat) (h : l.Pairwise (· < ·)) :
    (setInsert x l).Pairwise (· < ·) := by
  induction l with
  | nil => simp [setInsert]
  | cons z r ih =>
    have hz := List.pairwise_cons.1 h
    simp only [setInsert]
    split
    · rename_i hlt
      refine List.pairwise_cons.2 ⟨?_, h⟩
      intro y hy
      rcases List.mem_cons.1 hy with e | e
      · omega
      · have := hz.1 y e; omega
    · split
      · exact h
      · rename_i h1 h2
        refine List.pairwise_cons.2 ⟨?_, ih hz.2⟩
        intro y hy
        rcases (mem_setInsert x y r).1 hy with e | e
        · omega
        · exact hz.1 y e

theorem sortedKeys_sorted {ν : Type} (m : AMap Nat ν) : (sortedKeys m).Pairwise (· < ·) := by
  unfold sortedKeys
  induction m with
  | nil => simp
  | cons e r ih => simp only [List.map_cons, List.foldr_cons]; exact setInsert_sorted _ _ ih

theorem mem_sortedKeys {ν : Type} (m : AMap Nat ν) (k : Nat) : k ∈ sortedKeys m ↔ k ∈ m.map (fun e => e.1) := by
  unfold sortedKeys
  induction m with
  | nil => simp
  | cons e r ih => simp only [List.map_cons, List.foldr_cons, mem_setInsert, ih, List.mem_cons]

theorem get_isSome_iff {κ ν : Type} [DecidableEq κ] (m : AMap κ ν) (k : κ) :
    (AMap.get m k).isSome = true ↔ k ∈ m.map (fun e => e.1) := by
  induction m with
  | nil => simp [AMap.get]
  | cons e r ih =>
    obtain ⟨k', x⟩ := e
    simp only [AMap.get, List.map_cons, List.mem_cons]
    by_cases h : k' = k
    · simp [h]
    · simp only [h, ↓reduceIte, ih]
      constructor
      · exact Or.inr
      · rintro (e | e)
        · exact absurd e.symm h
        · exact e

theorem mem_sortedKeys_iff {ν : Type} (m : AMap Nat ν) (k : Nat) :
    k ∈ sortedKeys m ↔ (AMap.get m k).isSome = true := by
  rw [mem_sortedKeys, get_isSome_iff]

/-- strictly ascending lists with the same elements are equal -/
theorem sorted_ext : ∀ (l1 l2 : List Nat), l1.Pairwise (· < ·) → l2.Pairwise (· < ·) →
    (∀ x, x ∈ l1 ↔ x ∈ l2) → l1 = l2
  | [], [], _, _, _ => rfl
  | [], b :: r2, _, _, h => by have := (h b).2 (by simp); cases this
  | a :: r1, [], _, _, h => by have := (h a).1 (by simp); cases this
  | a :: r1, b :: r2, h1, h2, h => by
    have p1 := List.pairwise_cons.1 h1
    have p2 := List.pairwise_cons.1 h2
    have eab : a = b := by
      have ha := (h a).1 (by simp)
      have hb := (h b).2 (by simp)
      rcases List.mem_cons.1 ha with e | e
      · exact e
      · rcases List.mem_cons.1 hb with e' | e'
        · exact e'.symm
        · have := p1.1 b e'; have := p2.1 a e; omega
    subst eab
    congr 1
    apply sorted_ext r1 r2 p1.2 p2.2
    intro x
    constructor
    · intro hx
      have := p1.1 x hx
      rcases List.mem_cons.1 ((h x).1 (List.mem_cons_of_mem _ hx)) with e | e
      · omega
      · exact e
    · intro hx
      have := p2.1 x hx
      rcases List.mem_cons.1 ((h x).2 (List.mem_cons_of_mem _ hx)) with e | e
      · omega
      · exact e

/-! ### `dumpTable` -/

theorem mem_dumpTable {ν : Type} (m : AMap Nat ν) (k : Nat) (x : ν) :
    (k, x) ∈ dumpTable m ↔ AMap.get m k = some x := by
  unfold dumpTable
  simp only [List.mem_filterMap, Option.map_eq_some_iff, Prod.mk.injEq]
  constructor
  · rintro ⟨k', _, y, hy, e1, e2⟩
    subst e1 e2; exact hy
  · intro h
    exact ⟨k, (mem_sortedKeys_iff m k).2 (by simp [h]), x, h, rfl, rfl⟩

theorem dumpTable_keys {ν : Type} (m : AMap Nat ν) : (dumpTable m).map (fun e => e.1) = sortedKeys m := by
  unfold dumpTable
  have : ∀ l : List Nat, (∀ k ∈ l, (AMap.get m k).isSome = true) →
      (l.filterMap (fun k => (AMap.get m k).map (fun x => (k, x)))).map (fun e => e.1) = l := by
    intro l
    induction l with
    | nil => intro _; rfl
    | cons k r ih =>
      intro hk
      have h1 := hk k (by simp)
      obtain ⟨x, hx⟩ := Option.isSome_iff_exists.1 h1
      rw [List.filterMap_cons, hx]
      simp only [Option.map_some, List.map_cons]
      rw [ih (fun k' hk' => hk k' (List.mem_cons_of_mem _ hk'))]
  exact this _ (fun k hk => (mem_sortedKeys_iff m k).1 hk)

theorem dumpTable_length {ν : Type} (m : AMap Nat ν) : (dumpTable m).length = (sortedKeys m).length := by
  rw [← dumpTable_keys, List.length_map]

/-! ### `heightsInsert`, `lookupH` -/

theorem heightsInsert_perm (e : String × Nat) (l : List (String × Nat)) : (heightsInsert e l).Perm (e :: l) := by
  induction l with
  | nil => simp [heightsInsert]
  | cons f r ih =>
    simp only [heightsInsert]
    split
    · exact List.Perm.refl _
    · exact (List.Perm.cons f ih).trans (List.Perm.swap e f r)

theorem foldr_heightsInsert_perm (l : List (String × Nat)) : (l.foldr heightsInsert []).Perm l := by
  induction l with
  | nil => exact List.Perm.refl _
  | cons e r ih => exact (heightsInsert_perm e _).trans (List.Perm.cons e ih)

theorem lookupH_mem (k : Nat) (l : List (Nat × CrashStore.Hdr)) (x : CrashStore.Hdr)
    (h : Lumina.Spec.C22.lookupH k l = some x) : (k, x) ∈ l := by
  induction l with
  | nil => simp [Lumina.Spec.C22.lookupH] at h
  | cons e r ih =>
    simp only [Lumina.Spec.C22.lookupH] at h
    split at h
    · rename_i he
      injection h with h
      subst h; subst he
      simp
    · exact List.mem_cons_of_mem _ (ih h)


theorem rawRanges_eq (t : Tables) (k : RKey) :
    Lumina.Model.CrashRedb.rawRanges t k = Lumina.Proofs.Store.rawRanges t k := rfl

/-- **the bridge**: a redb store state related to an abstract state satisfying the C19 / C21
    invariants dumps to a table image that `Spec.C22.consistent` accepts -/
theorem consistent_dump {t : Tables} {a : AbsStore} (r : Rr t a) (hi : AbsInv a)
    (v : Hdr → Hdr → Bool) (hv : AbsVer v a) (name : Hash → String) (parent : Hdr → Hash)
    (hlink : ∀ x y, x.height + 1 = y.height → v x y = true → parent y = x.hash)
    (ident : Nat) (hid : ident ≠ 0) :
    Lumina.Spec.C22.consistent (dumpOf name parent ⟨ident, t⟩) = true := by
  -- the headers table
  have hget : ∀ k x, AMap.get t.headers k = some x → x ∈ a.hdrs ∧ x.height = k := by
    intro k x h
    rw [r.hdrT k] at h
    exact (atHeight_some hi k x).1 h
  have hmemH : ∀ k, k ∈ Ranges.heights (Lumina.Proofs.Store.rawRanges t .header) ↔ a.stored k = true := by
    intro k; rw [Lumina.Proofs.Ranges.mem_heights, r.memH]
  have hkeys : sortedKeys t.headers = Ranges.heights (Lumina.Proofs.Store.rawRanges t .header) := by
    apply sorted_ext _ _ (sortedKeys_sorted _) (Lumina.Proofs.Ranges.heights_sorted r.invH)
    intro k
    rw [mem_sortedKeys_iff, hmemH, r.hdrT k]; rfl
  -- the hash index
  have hhgt : ∀ x ∈ a.hdrs, AMap.get t.heights x.hash = some x.height := by
    intro x hx
    rw [r.hgt, (byHash_some hi x.hash x).2 ⟨hx, rfl⟩]; rfl
  have hlenH : (sortedKeys t.headers).length = a.hdrs.length := by
    have p : (sortedKeys t.headers).Perm (a.hdrs.map (·.height)) := by
      rw [List.perm_ext_iff_of_nodup ((sortedKeys_sorted _).imp (fun h => Nat.ne_of_lt h)) hi.nodupH]
      intro k
      rw [mem_sortedKeys_iff, r.hdrT k, List.mem_map]
      constructor
      · intro h
        obtain ⟨x, hx⟩ := Option.isSome_iff_exists.1 h
        exact ⟨x, (atHeight_some hi k x).1 hx⟩
      · rintro ⟨x, hx, e⟩
        rw [(atHeight_some hi k x).2 ⟨hx, e⟩]; rfl
    rw [p.length_eq, List.length_map]
  have hlenQ : (sortedKeys t.heights).length = a.hdrs.length := by
    have p : (sortedKeys t.heights).Perm (a.hdrs.map (·.hash)) := by
      rw [List.perm_ext_iff_of_nodup ((sortedKeys_sorted _).imp (fun h => Nat.ne_of_lt h)) hi.nodupQ]
      intro q
      rw [mem_sortedKeys_iff, r.hgt q, List.mem_map, Option.isSome_map]
      constructor
      · intro h
        obtain ⟨x, hx⟩ := Option.isSome_iff_exists.1 h
        exact ⟨x, (byHash_some hi q x).1 hx⟩
      · rintro ⟨x, hx, e⟩
        rw [(byHash_some hi q x).2 ⟨hx, e⟩]; rfl
    rw [p.length_eq, List.length_map]
  unfold Lumina.Spec.C22.consistent
  simp only [Bool.and_eq_true]
  refine ⟨⟨⟨⟨⟨⟨⟨⟨?c1, ?c2⟩, ?c3⟩, ?c4⟩, ?c5⟩, ?c6⟩, ?c7⟩, ?c8⟩, ?c9⟩
  case c1 =>
    simp only [dumpOf, List.map_map, rawRanges_eq]
    have : ((fun e : Nat × CrashStore.Hdr => e.1) ∘ fun e : Nat × Hdr => (e.1, convHdr name parent e.2))
        = fun e => e.1 := rfl
    rw [this, dumpTable_keys, hkeys]
    simp
  case c2 =>
    simp only [dumpOf, List.all_eq_true, List.mem_map, beq_iff_eq]
    rintro e ⟨⟨k, x⟩, hm, rfl⟩
    exact ((hget k x) ((mem_dumpTable _ k x).1 hm)).2
  case c3 =>
    simp only [dumpOf, beq_iff_eq, List.length_map, (foldr_heightsInsert_perm _).length_eq,
      dumpTable_length, hlenH, hlenQ]
  case c4 =>
    simp only [dumpOf, List.all_eq_true, List.mem_map, List.contains_eq_mem, decide_eq_true_eq]
    rintro e ⟨⟨k, x⟩, hm, rfl⟩
    obtain ⟨hx, ek⟩ := hget k x ((mem_dumpTable _ k x).1 hm)
    rw [(foldr_heightsInsert_perm _).mem_iff, List.mem_map]
    refine ⟨(x.hash, x.height), (mem_dumpTable _ _ _).2 (hhgt x hx), ?_⟩
    simp [convHdr, ek]
  case c5 =>
    simp only [dumpOf, List.all_eq_true, List.mem_map]
    rintro e ⟨⟨k, x⟩, hm, rfl⟩
    obtain ⟨hx, ek⟩ := hget k x ((mem_dumpTable _ k x).1 hm)
    split
    · rename_i n hn
      have := lookupH_mem _ _ _ hn
      simp only [List.mem_map] at this
      obtain ⟨⟨k', y⟩, hm', e'⟩ := this
      simp only [Prod.mk.injEq] at e'
      obtain ⟨e1, e2⟩ := e'
      obtain ⟨hy, eky⟩ := hget k' y ((mem_dumpTable _ k' y).1 hm')
      have hv' := hv x hx y hy (by omega)
      have := hlink x y (by omega) hv'
      rw [← e2]
      simp [convHdr, this]
    · rfl
  case c6 =>
    simp only [dumpOf, List.all_eq_true, List.contains_eq_mem, decide_eq_true_eq, rawRanges_eq]
    intro h hh
    rw [hmemH]
    exact hi.sampled h ((r.memS h).1 ((Lumina.Proofs.Ranges.mem_heights _ h).1 hh))
  case c7 =>
    simp only [dumpOf, List.all_eq_true, List.contains_eq_mem, rawRanges_eq,
      Bool.not_eq_true', decide_eq_false_iff_not]
    intro h hh hs
    have := hi.pruned h ((r.memP h).1 ((Lumina.Proofs.Ranges.mem_heights _ h).1 hh))
    rw [(hmemH h).1 hs] at this; cases this
  case c8 =>
    simp only [dumpOf, List.all_eq_true, List.contains_eq_mem, decide_eq_true_eq, rawRanges_eq]
    rintro ⟨k, c⟩ hm
    have hg := (mem_dumpTable _ k c).1 hm
    rw [r.md k] at hg
    rw [hmemH]
    unfold AbsStore.metaOf at hg
    simp only [Option.map_eq_some_iff] at hg
    obtain ⟨p, hp, _⟩ := hg
    have hp' := List.find?_some hp
    have := hi.metas p (List.mem_of_find?_eq_some hp)
    simp only [beq_iff_eq] at hp'
    rw [← hp']; exact this
  case c9 =>
    simp [dumpOf, hid]

/-! ### identity row, results, reopen -/

/-- a store transaction does not touch the identity row -/
theorem txOf_identity (v : Hdr → Hdr → Bool) (op : Op) (s s' : Db) (h : txOf v op s = .ok s') :
    s'.identity = s.identity := by
  unfold txOf at h
  cases hc : closure v op s.tables with
  | error e => rw [hc] at h; cases h
  | ok t' => rw [hc] at h; injection h with h; rw [← h]

/-- `RedbStore::new` on a store that has an identity changes nothing -/
theorem openTx_id (newId : Nat) (s : Db) (h : s.identity ≠ 0) : openTx newId s = .ok s := by
  unfold openTx
  rw [if_neg h]

/-- the results the abstract history returns are the results of the store model -/
theorem resultsAbs_txs (v : Hdr → Hdr → Bool) (ops : List Op) (hm : ∀ op ∈ ops, op.mutating = true) (db : Db) :
    (resultsAbs db (ops.map (txOf v))).map (fun r => toRes r (fun _ => Out.unit)) =
      (runOps (RedbStore.step v) db.tables ops).2 := by
  induction ops generalizing db with
  | nil => rfl
  | cons op rest ih =>
    rw [List.map_cons, resultsAbs, List.map_cons, runOps_cons,
      resultOf_txOf v op (hm op (by simp)), applyOp_txOf,
      ih (fun o ho => hm o (List.mem_cons_of_mem _ ho))]

end Lumina.Proofs.CrashRedb

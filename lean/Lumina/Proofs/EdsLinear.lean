/-
  C08: every row and every column of the extension is a codeword.

  Rows, and the columns through the original data, are codewords by construction.  The columns through the
  parity half (quadrants 1 and 3) are codewords because the encoder is LINEAR: with `A` the original square,
  `M` the encoder's matrix, Q1 = A·Mᵀ, Q2 = M·A, and the third pass computes Q3 = (M·A)·Mᵀ (rows of Q2) whereas a
  column codeword needs Q3 = M·(A·Mᵀ) (columns of Q1): `Matrix.mul_assoc`.  This is the "order of the three
  passes" argument.

  Linearity (over SOME commutative semiring structure on bytes, acting bytewise — GF(2^8) for leopard) is a
  hypothesis (`EncLinear`), validated against the real codec by the correspondence, not proved about leopard.

  Owner: group D2.
-/
import Mathlib.Data.Matrix.Mul
import Lumina.Proofs.EdsExtend

namespace Lumina.Proofs.EdsLinear
open Lumina.Util Lumina.Model.Nmt Lumina.Model.Eds Lumina.Model.EdsCode Lumina.Proofs.EdsCode Lumina.Proofs.EdsExtend
open Matrix

/-- a codeword of the systematic rate-1/2 code: `k` data symbols followed by their `k` parity symbols -/
def IsCodeword (enc : List Bytes → List Bytes) (k : Nat) (axis : List Bytes) : Prop :=
  axis.length = 2 * k ∧ axis.drop k = enc (axis.take k)

/-- row `r` / column `c` of the extension -/
def extRow (enc : List Bytes → List Bytes) (k : Nat) (ods : List Bytes) (r : Nat) : List Bytes :=
  (List.range (2 * k)).map (extCell enc k ods r)
def extCol (enc : List Bytes → List Bytes) (k : Nat) (ods : List Bytes) (c : Nat) : List Bytes :=
  (List.range (2 * k)).map (fun r => extCell enc k ods r c)

/-- column `c` of quadrant 1 -/
def q1Col (enc : List Bytes → List Bytes) (k : Nat) (ods : List Bytes) (c : Nat) : List Bytes :=
  (List.range k).map (fun i => (enc (odsRow k ods i)).getD c [])

theorem codeword_of_append {enc : List Bytes → List Bytes} {k : Nat} {data : List Bytes} (hd : data.length = k)
    (hp : (enc data).length = k) : IsCodeword enc k (data ++ enc data) := by
  refine ⟨by simp [hd, hp]; omega, ?_⟩
  rw [List.drop_left' hd, List.take_left' hd]

theorem odsCol_length (k : Nat) (ods : List Bytes) (c : Nat) : (odsCol k ods c).length = k := by simp [odsCol]
theorem q2Row_length (enc : List Bytes → List Bytes) (k : Nat) (ods : List Bytes) (r : Nat) :
    (q2Row enc k ods r).length = k := by simp [q2Row]
theorem q1Col_length (enc : List Bytes → List Bytes) (k : Nat) (ods : List Bytes) (c : Nat) :
    (q1Col enc k ods c).length = k := by simp [q1Col]

/-- **Rows are codewords by construction**: upper rows extend the original rows, lower rows extend the rows of Q2 -/
theorem extRow_eq {enc : List Bytes → List Bytes} {k : Nat} {ods : List Bytes} (hs : EncShape enc k)
    (hl : ods.length = k * k) {r : Nat} (hr : r < 2 * k) :
    extRow enc k ods r = (if r < k then odsRow k ods r else q2Row enc k ods (r - k)) ++
      enc (if r < k then odsRow k ods r else q2Row enc k ods (r - k)) := by
  unfold extRow
  by_cases hrk : r < k
  · simp only [hrk, ↓reduceIte]
    symm
    apply row_cells _ _ (odsRow_length hl hrk) (hs _ (odsRow_length hl hrk))
    · intro c hc
      simp only [extCell, hrk, hc, ↓reduceIte, List.getD_eq_getElem?_getD]
      rw [odsRow_getElem? (k := k) (ods := ods) (r := r) hc]
    · intro c hc _
      have : ¬ c < k := by omega
      simp only [extCell, hrk, this, ↓reduceIte]
  · simp only [hrk, ↓reduceIte]
    symm
    apply row_cells _ _ (q2Row_length enc k ods _) (hs _ (q2Row_length enc k ods _))
    · intro c hc
      simp only [extCell, hrk, hc, ↓reduceIte]
      simp [q2Row, List.getD_eq_getElem?_getD, List.getElem?_map, List.getElem?_range hc]
    · intro c hc _
      have : ¬ c < k := by omega
      simp only [extCell, hrk, this, ↓reduceIte]

theorem extRow_codeword {enc : List Bytes → List Bytes} {k : Nat} {ods : List Bytes} (hs : EncShape enc k)
    (hl : ods.length = k * k) {r : Nat} (hr : r < 2 * k) : IsCodeword enc k (extRow enc k ods r) := by
  rw [extRow_eq hs hl hr]
  by_cases hrk : r < k
  · simp only [hrk, ↓reduceIte]
    exact codeword_of_append (odsRow_length hl hrk) (hs _ (odsRow_length hl hrk))
  · simp only [hrk, ↓reduceIte]
    exact codeword_of_append (q2Row_length enc k ods _) (hs _ (q2Row_length enc k ods _))

/-- **Columns through the original data are codewords by construction** (second pass) -/
theorem extCol_left_eq {enc : List Bytes → List Bytes} {k : Nat} {ods : List Bytes} (hs : EncShape enc k)
    {c : Nat} (hc : c < k) : extCol enc k ods c = odsCol k ods c ++ enc (odsCol k ods c) := by
  unfold extCol
  symm
  apply row_cells _ _ (odsCol_length k ods c) (hs _ (odsCol_length k ods c))
  · intro r hr
    simp only [extCell, hr, hc, ↓reduceIte]
    simp [odsCol, List.getD_eq_getElem?_getD, List.getElem?_map, List.getElem?_range hr]
  · intro r hr _
    have : ¬ r < k := by omega
    simp only [extCell, this, hc, ↓reduceIte]

/-! ## linearity -/

/-- the encoder acts bytewise as multiplication by a `k × k` matrix over a commutative semiring structure on bytes -/
structure EncLinear (enc : List Bytes → List Bytes) (k len : Nat) where
  F : Type
  [inst : CommSemiring F]
  toF : UInt8 → F
  toF_inj : Function.Injective toF
  M : Matrix (Fin k) (Fin k) F
  /-- `k` shards of `len` bytes in, `k` shards of `len` bytes out -/
  shape : ∀ row : List Bytes, row.length = k → (∀ s ∈ row, s.length = len) →
    (enc row).length = k ∧ ∀ s ∈ enc row, s.length = len
  /-- byte `b` of parity shard `j` is `∑ i, M j i * (byte b of data shard i)` -/
  spec : ∀ row : List Bytes, row.length = k → (∀ s ∈ row, s.length = len) → ∀ (j : Fin k) (b : Nat), b < len →
    toF (((enc row).getD j []).getD b 0) = ∑ i : Fin k, M j i * toF ((row.getD i []).getD b 0)

attribute [instance] EncLinear.inst

theorem bytes_ext {a b : Bytes} {len : Nat} (ha : a.length = len) (hb : b.length = len)
    (h : ∀ i, i < len → a.getD i 0 = b.getD i 0) : a = b := by
  apply List.ext_getElem (by omega)
  intro i h1 h2
  have := h i (by omega)
  simpa [List.getD_eq_getElem?_getD, List.getElem?_eq_getElem h1, List.getElem?_eq_getElem h2] using this

theorem getD_mem {l : List Bytes} {i : Nat} (h : i < l.length) : l.getD i [] ∈ l := by
  rw [List.getD_eq_getElem?_getD, List.getElem?_eq_getElem h]
  exact List.getElem_mem h

/-- **The order of the passes does not matter** (matrix associativity): the third pass, which extends the rows of
    Q2, produces exactly the parity of the columns of Q1. -/
theorem q3_commutes {enc : List Bytes → List Bytes} {k len : Nat} (L : EncLinear enc k len) {ods : List Bytes}
    (hl : ods.length = k * k) (hlen : ∀ s ∈ ods, s.length = len) {r c : Nat} (hr : r < k) (hc : c < k) :
    (enc (q2Row enc k ods r)).getD c [] = (enc (q1Col enc k ods c)).getD r [] := by
  -- shapes
  have hcell : ∀ i x, i < k → x < k → (ods.getD (i * k + x) []).length = len := by
    intro i x hi hx
    apply hlen
    apply getD_mem
    rw [hl]
    calc i * k + x < i * k + k := by omega
      _ = (i + 1) * k := by rw [Nat.succ_mul]
      _ ≤ k * k := Nat.mul_le_mul_right k hi
  have hcolU : ∀ x, x < k → ∀ s ∈ odsCol k ods x, s.length = len := by
    intro x hx s hs
    obtain ⟨i, hi, rfl⟩ := List.mem_map.mp hs
    exact hcell i x (List.mem_range.mp hi) hx
  have hrowU : ∀ i, i < k → ∀ s ∈ odsRow k ods i, s.length = len := by
    intro i hi s hs
    exact hlen s (List.mem_of_mem_drop (List.mem_of_mem_take hs))
  have hq2U : ∀ s ∈ q2Row enc k ods r, s.length = len := by
    intro s hs
    obtain ⟨x, hx, rfl⟩ := List.mem_map.mp hs
    have hx' := List.mem_range.mp hx
    obtain ⟨h1, h2⟩ := L.shape (odsCol k ods x) (odsCol_length k ods x) (hcolU x hx')
    exact h2 _ (getD_mem (by omega))
  have hq1U : ∀ s ∈ q1Col enc k ods c, s.length = len := by
    intro s hs
    obtain ⟨i, hi, rfl⟩ := List.mem_map.mp hs
    have hi' := List.mem_range.mp hi
    obtain ⟨h1, h2⟩ := L.shape (odsRow k ods i) (odsRow_length hl hi') (hrowU i hi')
    exact h2 _ (getD_mem (by omega))
  obtain ⟨hA1, hA2⟩ := L.shape _ (q2Row_length enc k ods r) hq2U
  obtain ⟨hB1, hB2⟩ := L.shape _ (q1Col_length enc k ods c) hq1U
  apply bytes_ext (hA2 _ (getD_mem (by omega))) (hB2 _ (getD_mem (by omega)))
  intro b hb
  apply L.toF_inj
  -- the original square at byte position `b`, as a matrix
  let A : Matrix (Fin k) (Fin k) L.F := fun i x => L.toF ((ods.getD (i.val * k + x.val) []).getD b 0)
  have hL := L.spec _ (q2Row_length enc k ods r) hq2U ⟨c, hc⟩ b hb
  have hR := L.spec _ (q1Col_length enc k ods c) hq1U ⟨r, hr⟩ b hb
  simp only at hL hR
  rw [hL, hR]
  -- inner sums
  have inL : ∀ x : Fin k, L.toF (((q2Row enc k ods r).getD x []).getD b 0) = (L.M * A) ⟨r, hr⟩ x := by
    intro x
    have : (q2Row enc k ods r).getD x [] = (enc (odsCol k ods x)).getD r [] := by
      simp [q2Row, List.getD_eq_getElem?_getD, List.getElem?_map, List.getElem?_range x.isLt]
    rw [this, L.spec _ (odsCol_length k ods x) (hcolU x x.isLt) ⟨r, hr⟩ b hb, Matrix.mul_apply]
    apply Finset.sum_congr rfl
    intro i _
    simp only [A]
    congr 3
    simp [odsCol, List.getD_eq_getElem?_getD, List.getElem?_map, List.getElem?_range i.isLt]
  have inR : ∀ i : Fin k, L.toF (((q1Col enc k ods c).getD i []).getD b 0) = (A * (L.M)ᵀ) i ⟨c, hc⟩ := by
    intro i
    have : (q1Col enc k ods c).getD i [] = (enc (odsRow k ods i)).getD c [] := by
      simp [q1Col, List.getD_eq_getElem?_getD, List.getElem?_map, List.getElem?_range i.isLt]
    rw [this, L.spec _ (odsRow_length hl i.isLt) (hrowU i i.isLt) ⟨c, hc⟩ b hb, Matrix.mul_apply]
    apply Finset.sum_congr rfl
    intro x _
    simp only [A, Matrix.transpose_apply]
    rw [mul_comm]
    congr 3
    rw [List.getD_eq_getElem?_getD, odsRow_getElem? x.isLt, ← List.getD_eq_getElem?_getD]
  simp only [inL, inR]
  -- (M·A)·Mᵀ = M·(A·Mᵀ)
  have hassoc := congrFun (congrFun (Matrix.mul_assoc L.M A (L.M)ᵀ) ⟨r, hr⟩) ⟨c, hc⟩
  rw [Matrix.mul_apply, Matrix.mul_apply] at hassoc
  simp only [Matrix.transpose_apply] at hassoc
  calc ∑ x : Fin k, L.M ⟨c, hc⟩ x * (L.M * A) ⟨r, hr⟩ x
      = ∑ x : Fin k, (L.M * A) ⟨r, hr⟩ x * L.M ⟨c, hc⟩ x := by
        apply Finset.sum_congr rfl; intro x _; rw [mul_comm]
    _ = ∑ j : Fin k, L.M ⟨r, hr⟩ j * (A * (L.M)ᵀ) j ⟨c, hc⟩ := hassoc

/-- **Columns through the parity half are codewords** (needs linearity) -/
theorem extCol_right_eq {enc : List Bytes → List Bytes} {k len : Nat} (L : EncLinear enc k len) (hs : EncShape enc k)
    {ods : List Bytes} (hl : ods.length = k * k) (hlen : ∀ s ∈ ods, s.length = len) {c : Nat} (hc1 : k ≤ c)
    (hc2 : c < 2 * k) : extCol enc k ods c = q1Col enc k ods (c - k) ++ enc (q1Col enc k ods (c - k)) := by
  unfold extCol
  symm
  have hnc : ¬ c < k := by omega
  apply row_cells _ _ (q1Col_length enc k ods _) (hs _ (q1Col_length enc k ods _))
  · intro r hr
    simp only [extCell, hr, hnc, ↓reduceIte]
    simp [q1Col, List.getD_eq_getElem?_getD, List.getElem?_map, List.getElem?_range hr]
  · intro r hr hr2
    have hnr : ¬ r < k := by omega
    simp only [extCell, hnr, hnc, ↓reduceIte]
    exact q3_commutes L hl hlen (by omega) (by omega)

end Lumina.Proofs.EdsLinear

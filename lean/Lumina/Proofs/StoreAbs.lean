/-
  Lemmas about the abstract store of `Spec/C19.lean` (no store model involved):
  association lists, `find?` on a key, the canonical interval representation `rangesOf`,
  internally verified batches, the invariant `AbsInv` (the invariants C19 names) and the
  chain invariant `AbsVer` (C21), both preserved by every operation.
-/
import Lumina.Model.Store
import Lumina.Spec.C19

open Lumina.Model.Store Lumina.Spec.C19
open Lumina.Model

namespace Lumina.Proofs.Store

section amap
variable {κ ν : Type} [DecidableEq κ]


theorem get_erase (m : AMap κ ν) (k k' : κ) :
    AMap.get (AMap.erase m k) k' = if k' = k then none else AMap.get m k' := by
  induction m with
  | nil => simp [AMap.erase, AMap.get]
  | cons p rest ih =>
    obtain ⟨a, b⟩ := p
    simp only [AMap.erase, List.filter] at ih ⊢
    by_cases h : a = k
    · subst h
      simp [AMap.get, ih]
      by_cases h2 : k' = a
      · simp [h2]
      · have : ¬ a = k' := fun e => h2 e.symm
        simp [h2, this]
    · simp [h, AMap.get]
      by_cases h2 : a = k'
      · subst h2; simp [h]
      · simp [h2, ih]

theorem get_insert (m : AMap κ ν) (k k' : κ) (v : ν) :
    AMap.get (AMap.insert m k v) k' = if k' = k then some v else AMap.get m k' := by
  simp only [AMap.insert, AMap.get, get_erase]
  by_cases h : k = k'
  · simp [h]
  · have : ¬ k' = k := fun e => h e.symm
    simp [h, this]

end amap


theorem find?_key {α : Type} (f : α → Nat) (l : List α) (hn : (l.map f).Nodup) (k : Nat) (x : α) :
    l.find? (fun y => f y == k) = some x ↔ x ∈ l ∧ f x = k := by
  induction l with
  | nil => simp
  | cons a rest ih =>
    simp only [List.map_cons, List.nodup_cons] at hn
    simp only [List.find?_cons]
    by_cases h : f a = k
    · simp [h]
      constructor
      · intro e; subst e; exact ⟨Or.inl rfl, h⟩
      · rintro ⟨e | e, hk⟩
        · exact e.symm
        · exfalso; apply hn.1; rw [h, ← hk]; exact List.mem_map_of_mem e
    · have : (f a == k) = false := by simp [h]
      simp only [this]
      rw [ih hn.2]
      constructor
      · rintro ⟨e, hk⟩; exact ⟨List.mem_cons_of_mem _ e, hk⟩
      · rintro ⟨e, hk⟩
        rcases List.mem_cons.1 e with e | e
        · subst e; exact absurd hk h
        · exact ⟨e, hk⟩

theorem find?_key_none {α : Type} (f : α → Nat) (l : List α) (k : Nat) :
    l.find? (fun y => f y == k) = none ↔ ∀ x ∈ l, f x ≠ k := by
  simp [List.find?_eq_none]


theorem runsDesc_spec (p : Nat → Bool) (n : Nat) :
    (runsDesc p n).Pairwise (fun x y => y.2 + 1 < x.1) ∧
    (∀ r ∈ runsDesc p n, r.1 ≤ r.2 ∧ r.2 < n) ∧
    (∀ h, (∃ r ∈ runsDesc p n, r.1 ≤ h ∧ h ≤ r.2) ↔ (h < n ∧ p h = true)) := by
  induction n with
  | zero => simp [runsDesc]
  | succ n ih =>
    obtain ⟨ih1, ih2, ih3⟩ := ih
    unfold runsDesc
    by_cases hp : p n = true
    · simp only [hp, if_true]
      cases hl : runsDesc p n with
      | nil =>
        rw [hl] at ih3
        refine ⟨by simp, by simp, ?_⟩
        intro h
        constructor
        · rintro ⟨r, hr, h1, h2⟩
          simp at hr; subst hr
          have : h = n := by simp at h1 h2; omega
          subst this; exact ⟨by omega, hp⟩
        · rintro ⟨h1, h2⟩
          by_cases e : h = n
          · subst e; exact ⟨(h, h), by simp, by simp, by simp⟩
          · have := (ih3 h).2 ⟨by omega, h2⟩
            simp at this
      | cons ab rest =>
        obtain ⟨a, b⟩ := ab
        rw [hl] at ih1 ih2 ih3
        have hab := ih2 (a, b) (by simp)
        simp only [List.pairwise_cons] at ih1
        by_cases hb : b + 1 = n
        · simp only [hb, if_true]
          refine ⟨?_, ?_, ?_⟩
          · simp only [List.pairwise_cons]; exact ⟨ih1.1, ih1.2⟩
          · intro r hr
            rcases List.mem_cons.1 hr with e | e
            · subst e; simp at hab ⊢; omega
            · have := ih2 r (List.mem_cons_of_mem _ e); omega
          · intro h
            constructor
            · rintro ⟨r, hr, h1, h2⟩
              rcases List.mem_cons.1 hr with e | e
              · subst e
                simp at h1 h2
                by_cases e2 : h = n
                · subst e2; exact ⟨by omega, hp⟩
                · have := (ih3 h).1 ⟨(a, b), by simp, by simpa using h1, by simp; omega⟩
                  exact ⟨by omega, this.2⟩
              · have := (ih3 h).1 ⟨r, List.mem_cons_of_mem _ e, h1, h2⟩
                exact ⟨by omega, this.2⟩
            · rintro ⟨h1, h2⟩
              by_cases e2 : h = n
              · subst e2; exact ⟨(a, h), by simp, by simp at hab ⊢; omega, by simp⟩
              · obtain ⟨r, hr, h3, h4⟩ := (ih3 h).2 ⟨by omega, h2⟩
                rcases List.mem_cons.1 hr with e | e
                · subst e; exact ⟨(a, n), by simp, by simpa using h3, by simp at h4 ⊢; omega⟩
                · exact ⟨r, List.mem_cons_of_mem _ e, h3, h4⟩
        · simp only [hb, if_false]
          refine ⟨?_, ?_, ?_⟩
          · simp only [List.pairwise_cons]
            refine ⟨?_, ih1.1, ih1.2⟩
            intro y hy
            rcases List.mem_cons.1 hy with e | e
            · subst e; simp at hab ⊢; omega
            · have := ih1.1 y e; simp at hab this ⊢; omega
          · intro r hr
            rcases List.mem_cons.1 hr with e | e
            · subst e; simp
            · have := ih2 r e; omega
          · intro h
            constructor
            · rintro ⟨r, hr, h1, h2⟩
              rcases List.mem_cons.1 hr with e | e
              · subst e; simp at h1 h2
                have : h = n := by omega
                subst this; exact ⟨by omega, hp⟩
              · have := (ih3 h).1 ⟨r, e, h1, h2⟩
                exact ⟨by omega, this.2⟩
            · rintro ⟨h1, h2⟩
              by_cases e2 : h = n
              · subst e2; exact ⟨(h, h), by simp, by simp, by simp⟩
              · obtain ⟨r, hr, h3, h4⟩ := (ih3 h).2 ⟨by omega, h2⟩
                exact ⟨r, List.mem_cons_of_mem _ hr, h3, h4⟩
    · have hp' : p n = false := by simpa using hp
      simp only [hp', Bool.false_eq_true, if_false]
      refine ⟨ih1, fun r hr => ?_, fun h => ?_⟩
      · have := ih2 r hr; omega
      · rw [ih3 h]
        constructor
        · rintro ⟨h1, h2⟩; exact ⟨by omega, h2⟩
        · rintro ⟨h1, h2⟩
          have : h ≠ n := by rintro rfl; exact hp h2
          exact ⟨by omega, h2⟩

theorem rangesOf_inv (p : Nat → Bool) (b : Nat) (h0 : p 0 = false) (hb : b ≤ Ranges.U64_MAX) :
    Ranges.Inv (rangesOf p b) ∧ ∀ h, Ranges.mem (rangesOf p b) h ↔ (h ≤ b ∧ p h = true) := by
  obtain ⟨h1, h2, h3⟩ := runsDesc_spec p (b + 1)
  refine ⟨⟨?_, ?_⟩, ?_⟩
  · unfold rangesOf
    rw [List.pairwise_reverse]
    exact h1
  · intro r hr
    unfold rangesOf at hr
    rw [List.mem_reverse] at hr
    have := h2 r hr
    refine ⟨?_, this.1, by omega⟩
    by_cases e : r.1 = 0
    · have := (h3 0).1 ⟨r, hr, by omega, by omega⟩
      rw [h0] at this; exact absurd this.2 (by simp)
    · omega
  · intro h
    unfold Ranges.mem rangesOf
    simp only [List.mem_reverse]
    rw [h3 h]
    constructor
    · rintro ⟨a, c⟩; exact ⟨by omega, c⟩
    · rintro ⟨a, c⟩; exact ⟨by omega, c⟩


theorem chain_idx (v : Hdr → Hdr → Bool) (l : List Hdr) (hc : chainOK v l = true) :
    ∀ i (h : i + 1 < l.length), l[i].height + 1 = l[i+1].height ∧ v l[i] l[i+1] = true := by
  induction l with
  | nil => intro i h; simp at h
  | cons a rest ih =>
    cases rest with
    | nil => intro i h; simp at h
    | cons b rest2 =>
      simp only [chainOK, Bool.and_eq_true, beq_iff_eq] at hc
      intro i h
      cases i with
      | zero => simp; exact ⟨hc.1.1, hc.1.2⟩
      | succ j =>
        have := ih hc.2 j (by simpa using h)
        simpa using this

theorem heights_idx (v : Hdr → Hdr → Bool) (l : List Hdr) (hc : chainOK v l = true) :
    ∀ i (h : i < l.length), l[i].height = (l[0]'(by omega)).height + i := by
  intro i
  induction i with
  | zero => intro h; simp
  | succ j ih =>
    intro h
    have h1 := (chain_idx v l hc j h).1
    have h2 := ih (by omega)
    omega

theorem firstDup_none (known : List Hash) (l : List Hdr) :
    firstDupHash known l = none ↔ (∀ x ∈ l, x.hash ∉ known) ∧ (l.map (·.hash)).Nodup := by
  induction l generalizing known with
  | nil => simp [firstDupHash]
  | cons a rest ih =>
    simp only [firstDupHash]
    by_cases h : known.contains a.hash = true
    · simp only [h, if_true]
      constructor
      · intro e; cases e
      · rintro ⟨h1, _⟩
        have := h1 a (by simp)
        simp at h; exact absurd h this
    · have h' : known.contains a.hash = false := by simpa using h
      simp only [h', Bool.false_eq_true, if_false]
      rw [ih]
      simp only [List.contains_eq_mem, decide_eq_true_eq] at h
      constructor
      · rintro ⟨h1, h2⟩
        refine ⟨?_, ?_⟩
        · intro x hx
          rcases List.mem_cons.1 hx with e | e
          · subst e; exact h
          · have := h1 x e; simp at this; exact this.2
        · simp only [List.map_cons, List.nodup_cons]
          refine ⟨?_, h2⟩
          intro hm
          obtain ⟨x, hx, e⟩ := List.mem_map.1 hm
          have := h1 x hx
          simp at this
          exact this.1 e
      · rintro ⟨h1, h2⟩
        simp only [List.map_cons, List.nodup_cons] at h2
        refine ⟨?_, h2.2⟩
        intro x hx
        simp only [List.mem_cons, not_or]
        refine ⟨?_, h1 x (List.mem_cons_of_mem _ hx)⟩
        intro e
        apply h2.1
        rw [← e]
        exact List.mem_map_of_mem hx

theorem mem_sup (l : List Nat) : ∀ x ∈ l, x ≤ sup l := by
  induction l with
  | nil => simp
  | cons a rest ih =>
    intro x hx
    simp only [sup]
    rcases List.mem_cons.1 hx with e | e
    · subst e; omega
    · have := ih x e; omega

theorem sup_mem (l : List Nat) (h : l ≠ []) : sup l ∈ l := by
  induction l with
  | nil => exact absurd rfl h
  | cons a rest ih =>
    simp only [sup]
    by_cases hr : rest = []
    · subst hr; simp [sup]
    · have := ih hr
      by_cases hm : a ≤ sup rest
      · rw [Nat.max_eq_right hm]; exact List.mem_cons_of_mem _ this
      · rw [Nat.max_eq_left (by omega)]; simp

theorem chain_heights (v : Hdr → Hdr → Bool) (l : List Hdr) (first : Hdr) (hc : chainOK v l = true)
    (hf : l.head? = some first) : l.map (·.height) = List.range' first.height l.length := by
  apply List.ext_getElem
  · simp
  · intro i h1 h2
    simp only [List.getElem_map, List.getElem_range']
    have hlen : i < l.length := by simpa using h1
    rw [heights_idx v l hc i hlen]
    have : l[0]'(by omega) = first := by
      cases l with
      | nil => simp at hlen
      | cons a r => simp at hf; simp [hf]
    rw [this]; omega

theorem last_height (v : Hdr → Hdr → Bool) (l : List Hdr) (first last : Hdr) (hc : chainOK v l = true)
    (hf : l.head? = some first) (hl : l.getLast? = some last) :
    last.height + 1 = first.height + l.length := by
  cases l with
  | nil => simp at hf
  | cons a r =>
    have h1 : (a :: r).getLast? = some ((a :: r)[(a :: r).length - 1]'(by simp)) := by
      rw [List.getLast?_eq_getElem?]; simp
    rw [h1] at hl
    have e := Option.some.inj hl
    rw [← e, heights_idx v (a :: r) hc _ (by simp)]
    simp at hf
    simp [hf]; omega

theorem stored_iff (a : AbsStore) (h : Nat) : a.stored h = true ↔ ∃ x ∈ a.hdrs, x.height = h := by
  simp [AbsStore.stored, AbsStore.atHeight, List.find?_isSome]

theorem stored_false_iff (a : AbsStore) (h : Nat) : a.stored h = false ↔ ∀ x ∈ a.hdrs, x.height ≠ h := by
  rw [← Bool.not_eq_true, stored_iff]; simp

theorem batch_heights (v : Hdr → Hdr → Bool) (l : List Hdr) (first last : Hdr) (hc : chainOK v l = true)
    (hf : l.head? = some first) (hl : l.getLast? = some last) :
    (l.map (·.height)).Nodup ∧ (∀ x ∈ l, first.height ≤ x.height ∧ x.height ≤ last.height) ∧
    (∀ h, first.height ≤ h → h ≤ last.height → ∃ x ∈ l, x.height = h) := by
  have e := chain_heights v l first hc hf
  have e2 := last_height v l first last hc hf hl
  refine ⟨?_, ?_, ?_⟩
  · rw [e]; exact List.nodup_range'
  · intro x hx
    have : x.height ∈ l.map (·.height) := List.mem_map_of_mem hx
    rw [e, List.mem_range'_1] at this
    omega
  · intro h h1 h2
    have : h ∈ l.map (·.height) := by rw [e, List.mem_range'_1]; omega
    obtain ⟨x, hx, e3⟩ := List.mem_map.1 this
    exact ⟨x, hx, e3⟩



/-- what a successful insertion of a non-empty batch established -/
structure InsertOK (v : Hdr → Hdr → Bool) (a : AbsStore) (batch : List Hdr) (first last : Hdr) : Prop where
  hd : batch.head? = some first
  lst : batch.getLast? = some last
  chain : chainOK v batch = true
  lo_pos : 1 ≤ first.height
  lo_le : first.height ≤ last.height
  disjoint : ∀ x ∈ a.hdrs, ¬ (first.height ≤ x.height ∧ x.height ≤ last.height)
  prev : ∀ p, a.atHeight (first.height - 1) = some p → v p first = true
  next : ∀ n, a.atHeight (last.height + 1) = some n → v last n = true
  nodup : firstDupHash (a.hdrs.map (·.hash)) batch = none

theorem insertCheck_none (v : Hdr → Hdr → Bool) (a : AbsStore) (batch : List Hdr)
    (h : AbsStore.insertCheck v a batch = .ok none) : batch = [] := by
  cases batch with
  | nil => rfl
  | cons b rest =>
    exfalso
    have : ((b :: rest).getLast?).isSome := by simp
    obtain ⟨l, hl⟩ := Option.isSome_iff_exists.1 this
    revert h
    unfold AbsStore.insertCheck
    simp only [List.head?_cons, hl]
    repeat' split
    all_goals simp

theorem placement_ok (a : AbsStore) (lo hi : Nat) (h : AbsStore.placement a lo hi = .ok ()) :
    1 ≤ lo ∧ lo ≤ hi ∧ ∀ x ∈ a.hdrs, ¬ (lo ≤ x.height ∧ x.height ≤ hi) := by
  unfold AbsStore.placement at h
  by_cases h2 : (lo == 0 || decide (lo > hi)) = true
  · rw [if_pos h2] at h; simp at h
  rw [if_neg h2] at h
  dsimp only at h
  by_cases h3 : (!(a.hdrs.all fun x => decide (x.height < lo)) && a.hdrs.any fun x => between lo hi x.height) = true
  · rw [if_pos h3] at h; simp at h
  refine ⟨by simp at h2; omega, by simp at h2; omega, ?_⟩
  intro x hx hb
  by_cases hall : (a.hdrs.all fun x => decide (x.height < lo)) = true
  · have := List.all_eq_true.1 hall x hx
    simp at this; omega
  · have hany : (a.hdrs.any fun x => between lo hi x.height) = false := by
      cases hany : (a.hdrs.any fun x => between lo hi x.height) with
      | false => rfl
      | true =>
        exfalso; apply h3
        simp only [Bool.not_eq_true] at hall
        simp [hall, hany]
    have h7 := List.any_eq_false.1 hany x hx
    simp [between] at h7
    omega

theorem insertCheck_some (v : Hdr → Hdr → Bool) (a : AbsStore) (batch : List Hdr) (lo hi : Nat)
    (h : AbsStore.insertCheck v a batch = .ok (some (lo, hi))) :
    ∃ first last, InsertOK v a batch first last ∧ lo = first.height ∧ hi = last.height := by
  unfold AbsStore.insertCheck at h
  split at h
  next first last hf hl =>
    refine ⟨first, last, ?_⟩
    by_cases h1 : (!chainOK v batch) = true
    · rw [if_pos h1] at h; simp at h
    rw [if_neg h1] at h
    cases hp : AbsStore.placement a first.height last.height with
    | error e => rw [hp] at h; simp at h
    | ok u =>
      rw [hp] at h
      simp only at h
      by_cases h5 : (!AbsStore.prevOK v a first || !AbsStore.nextOK v a last) = true
      · rw [if_pos h5] at h; simp at h
      rw [if_neg h5] at h
      cases h6 : firstDupHash (a.hdrs.map (·.hash)) batch with
      | some q => rw [h6] at h; simp at h
      | none =>
        rw [h6] at h
        simp at h
        obtain ⟨p1, p2, p3⟩ := placement_ok a _ _ hp
        refine ⟨⟨hf, hl, by simpa using h1, p1, p2, p3, ?_, ?_, h6⟩, h.1.symm, h.2.symm⟩
        · intro p hp'
          simp only [AbsStore.prevOK, AbsStore.nextOK, hp'] at h5
          simp at h5; exact h5.1
        · intro n hn
          simp only [AbsStore.prevOK, AbsStore.nextOK, hn] at h5
          simp at h5; exact h5.2
  · simp at h

/-- the invariants C19 names, on an abstract state (Prop form of `invOK`, plus `u64` typing) -/
structure AbsInv (a : AbsStore) : Prop where
  nodupH : (a.hdrs.map (·.height)).Nodup
  nodupQ : (a.hdrs.map (·.hash)).Nodup
  bounds : ∀ x ∈ a.hdrs, 1 ≤ x.height ∧ x.height ≤ U64_MAX
  sampled : ∀ h ∈ a.sampled, a.stored h = true
  pruned : ∀ h ∈ a.pruned, a.stored h = false
  prunedB : ∀ h ∈ a.pruned, 1 ≤ h ∧ h ≤ U64_MAX
  metas : ∀ p ∈ a.metas, a.stored p.1 = true

/-- C21: any two stored headers at consecutive heights verify -/
def AbsVer (v : Hdr → Hdr → Bool) (a : AbsStore) : Prop :=
  ∀ x ∈ a.hdrs, ∀ y ∈ a.hdrs, x.height + 1 = y.height → v x y = true

theorem absInv_init : AbsInv Lumina.Spec.C19.init := by
  constructor <;> simp [Lumina.Spec.C19.init]

theorem atHeight_some {a : AbsStore} (hi : AbsInv a) (h : Nat) (x : Hdr) :
    a.atHeight h = some x ↔ x ∈ a.hdrs ∧ x.height = h := by
  unfold AbsStore.atHeight
  exact find?_key (fun y : Hdr => y.height) a.hdrs hi.nodupH h x

theorem byHash_some {a : AbsStore} (hi : AbsInv a) (q : Hash) (x : Hdr) :
    a.byHash q = some x ↔ x ∈ a.hdrs ∧ x.hash = q := by
  unfold AbsStore.byHash
  exact find?_key (fun y : Hdr => y.hash) a.hdrs hi.nodupQ q x

theorem nodup_map_inj {α : Type} (f : α → Nat) (l : List α) (hn : (l.map f).Nodup) :
    ∀ x ∈ l, ∀ y ∈ l, f x = f y → x = y := by
  induction l with
  | nil => simp
  | cons a rest ih =>
    simp only [List.map_cons, List.nodup_cons] at hn
    intro x hx y hy e
    rcases List.mem_cons.1 hx with ex | ex <;> rcases List.mem_cons.1 hy with ey | ey
    · rw [ex, ey]
    · subst ex; exfalso; apply hn.1; rw [e]; exact List.mem_map_of_mem ey
    · subst ey; exfalso; apply hn.1; rw [← e]; exact List.mem_map_of_mem ex
    · exact ih hn.2 x ex y ey e

/-- the state after an accepted insertion of the span `[lo, hi]` -/
def added (a : AbsStore) (batch : List Hdr) (lo hi : Nat) : AbsStore :=
  { a with hdrs := a.hdrs ++ batch,
           sampled := a.sampled.filter (fun h => !between lo hi h),
           pruned := a.pruned.filter (fun h => !between lo hi h) }

theorem insert_eq_added (v : Hdr → Hdr → Bool) (a : AbsStore) (batch : List Hdr) (lo hi : Nat)
    (hc : AbsStore.insertCheck v a batch = .ok (some (lo, hi))) :
    a.insert v batch = (added a batch lo hi, .ok .unit) := by
  simp [AbsStore.insert, hc, added]

theorem head_of_mem {l : List Hdr} {first : Hdr} (h : l.head? = some first) : first ∈ l := by
  cases l with
  | nil => simp at h
  | cons a r => simp at h; simp [h]

theorem last_of_mem {l : List Hdr} {last : Hdr} (h : l.getLast? = some last) : last ∈ l :=
  List.mem_of_getLast? h

theorem added_inv (v : Hdr → Hdr → Bool) (a : AbsStore) (batch : List Hdr) (first last : Hdr)
    (ok : InsertOK v a batch first last)
    (hi : AbsInv a) (hwf : ∀ x ∈ batch, x.height ≤ U64_MAX) :
    AbsInv (added a batch first.height last.height) := by
  obtain ⟨b1, b2, b3⟩ := batch_heights v batch first last ok.chain ok.hd ok.lst
  have hst : ∀ h, (added a batch first.height last.height).stored h = true ↔
        (a.stored h = true ∨ (first.height ≤ h ∧ h ≤ last.height)) := by
    intro h
    rw [stored_iff, stored_iff]
    simp only [added, List.mem_append]
    constructor
    · rintro ⟨x, hx | hx, e⟩
      · exact Or.inl ⟨x, hx, e⟩
      · have := b2 x hx; right; omega
    · rintro (⟨x, hx, e⟩ | ⟨h1, h2⟩)
      · exact ⟨x, Or.inl hx, e⟩
      · obtain ⟨x, hx, e⟩ := b3 h h1 h2
        exact ⟨x, Or.inr hx, e⟩
  have nd := (firstDup_none _ _).1 ok.nodup
  constructor
  · simp only [added, List.map_append]
    rw [List.nodup_append]
    refine ⟨hi.nodupH, b1, ?_⟩
    intro h1 hh1 h2 hh2 e
    obtain ⟨x, hx, ex⟩ := List.mem_map.1 hh1
    obtain ⟨y, hy, ey⟩ := List.mem_map.1 hh2
    have := b2 y hy
    apply ok.disjoint x hx
    omega
  · simp only [added, List.map_append]
    rw [List.nodup_append]
    refine ⟨hi.nodupQ, nd.2, ?_⟩
    intro h1 hh1 h2 hh2 e
    obtain ⟨y, hy, ey⟩ := List.mem_map.1 hh2
    apply nd.1 y hy
    rw [ey, ← e]; exact hh1
  · intro x hx
    simp only [added, List.mem_append] at hx
    rcases hx with hx | hx
    · exact hi.bounds x hx
    · have := b2 x hx
      exact ⟨by have := ok.lo_pos; omega, hwf x hx⟩
  · intro h hh
    simp only [added, List.mem_filter] at hh
    exact (hst h).2 (Or.inl (hi.sampled h hh.1))
  · intro h hh
    simp only [added, List.mem_filter] at hh
    rw [← Bool.not_eq_true, hst h]
    rintro (hs | hb)
    · rw [hi.pruned h hh.1] at hs; cases hs
    · have := hh.2; simp [between] at this; omega
  · intro h hh
    simp only [added, List.mem_filter] at hh
    exact hi.prunedB h hh.1
  · intro p hp
    exact (hst p.1).2 (Or.inl (hi.metas p hp))


theorem insert_inv (v : Hdr → Hdr → Bool) (a : AbsStore) (batch : List Hdr)
    (hi : AbsInv a) (hwf : ∀ x ∈ batch, x.height ≤ U64_MAX) : AbsInv (a.insert v batch).1 := by
  cases hc : AbsStore.insertCheck v a batch with
  | error e => simp only [AbsStore.insert, hc]; exact hi
  | ok o =>
    cases o with
    | none => simp only [AbsStore.insert, hc]; exact hi
    | some p =>
      obtain ⟨lo, hi'⟩ := p
      rw [insert_eq_added v a batch lo hi' hc]
      obtain ⟨first, last, ok, e1, e2⟩ := insertCheck_some v a batch lo hi' hc
      subst e1 e2
      exact added_inv v a batch first last ok hi hwf

theorem added_ver (v : Hdr → Hdr → Bool) (a : AbsStore) (batch : List Hdr) (first last : Hdr)
    (ok : InsertOK v a batch first last)
    (hi : AbsInv a) (hv : AbsVer v a) : AbsVer v (added a batch first.height last.height) := by
  obtain ⟨b1, b2, b3⟩ := batch_heights v batch first last ok.chain ok.hd ok.lst
  intro x hx y hy e
  simp only [added, List.mem_append] at hx hy
  have hfirst := head_of_mem ok.hd
  have hlast := last_of_mem ok.lst
  -- a header of the batch is determined by its height
  have uniq : ∀ z ∈ batch, ∀ w ∈ batch, z.height = w.height → z = w := by
    intro z hz w hw ezw
    exact nodup_map_inj (fun y => y.height) batch b1 z hz w hw ezw
  rcases hx with hx | hx <;> rcases hy with hy | hy
  · exact hv x hx y hy e
  · -- x stored before, y in the batch: y is the first header and x its lower neighbour
    have hy2 := b2 y hy
    have hxn := ok.disjoint x hx
    have : y.height = first.height := by omega
    have ey : y = first := uniq y hy first hfirst this
    subst ey
    apply ok.prev x
    rw [atHeight_some hi]; exact ⟨hx, by omega⟩
  · have hx2 := b2 x hx
    have hyn := ok.disjoint y hy
    have : x.height = last.height := by omega
    have ex : x = last := uniq x hx last hlast this
    subst ex
    apply ok.next y
    rw [atHeight_some hi]; exact ⟨hy, by omega⟩
  · -- both in the batch: consecutive positions
    obtain ⟨i, hi1, ei⟩ := List.mem_iff_getElem.1 hx
    obtain ⟨j, hj1, ej⟩ := List.mem_iff_getElem.1 hy
    have h1 := heights_idx v batch ok.chain i hi1
    have h2 := heights_idx v batch ok.chain j hj1
    have : j = i + 1 := by rw [ei] at h1; rw [ej] at h2; omega
    subst this
    have := (chain_idx v batch ok.chain i hj1).2
    rw [ei, ej] at this; exact this

theorem insert_ver (v : Hdr → Hdr → Bool) (a : AbsStore) (batch : List Hdr)
    (hi : AbsInv a) (hv : AbsVer v a) : AbsVer v (a.insert v batch).1 := by
  cases hc : AbsStore.insertCheck v a batch with
  | error e => simp only [AbsStore.insert, hc]; exact hv
  | ok o =>
    cases o with
    | none => simp only [AbsStore.insert, hc]; exact hv
    | some p =>
      obtain ⟨lo, hi'⟩ := p
      rw [insert_eq_added v a batch lo hi' hc]
      obtain ⟨first, last, ok, e1, e2⟩ := insertCheck_some v a batch lo hi' hc
      subst e1 e2
      exact added_ver v a batch first last ok hi hv

theorem remove_err (a : AbsStore) (h : Nat) (hs : a.stored h = false) : a.remove h = (a, .err .notFound) := by
  simp [AbsStore.remove, hs]

/-- the state after removing a stored height -/
def removed (a : AbsStore) (h : Nat) : AbsStore :=
  { hdrs := a.hdrs.filter (fun x => x.height != h),
    sampled := a.sampled.filter (fun x => x != h),
    pruned := h :: a.pruned,
    metas := a.metas.filter (fun p => p.1 != h) }

theorem remove_ok (a : AbsStore) (h : Nat) (hs : a.stored h = true) : a.remove h = (removed a h, .ok .unit) := by
  simp [AbsStore.remove, hs, removed]

theorem removed_stored (a : AbsStore) (h k : Nat) :
    (removed a h).stored k = true ↔ (a.stored k = true ∧ k ≠ h) := by
  rw [stored_iff, stored_iff]
  simp only [removed, List.mem_filter]
  constructor
  · rintro ⟨x, ⟨hx, hne⟩, e⟩
    refine ⟨⟨x, hx, e⟩, ?_⟩
    simp at hne; omega
  · rintro ⟨⟨x, hx, e⟩, hne⟩
    exact ⟨x, ⟨hx, by simp; omega⟩, e⟩

theorem remove_inv (a : AbsStore) (h : Nat) (hi : AbsInv a) : AbsInv (a.remove h).1 := by
  cases hs : a.stored h with
  | false => rw [remove_err a h hs]; exact hi
  | true =>
    rw [remove_ok a h hs]
    have hst := removed_stored a h
    constructor
    · exact List.Nodup.sublist (List.Sublist.map _ List.filter_sublist) hi.nodupH
    · exact List.Nodup.sublist (List.Sublist.map _ List.filter_sublist) hi.nodupQ
    · intro x hx; simp only [removed, List.mem_filter] at hx; exact hi.bounds x hx.1
    · intro k hk
      simp only [removed, List.mem_filter] at hk
      refine (hst k).2 ⟨hi.sampled k hk.1, ?_⟩
      have := hk.2; simp at this; exact this
    · intro k hk
      rw [← Bool.not_eq_true, hst k]
      simp only [removed, List.mem_cons] at hk
      rcases hk with e | hk
      · subst e; simp
      · rw [hi.pruned k hk]; simp
    · intro k hk
      simp only [removed, List.mem_cons] at hk
      rcases hk with e | hk
      · subst e
        obtain ⟨x, hx, e⟩ := (stored_iff a k).1 hs
        rw [← e]; exact hi.bounds x hx
      · exact hi.prunedB k hk
    · intro p hp
      simp only [removed, List.mem_filter] at hp
      refine (hst p.1).2 ⟨hi.metas p hp.1, ?_⟩
      have := hp.2; simp at this; exact this

theorem remove_ver (v : Hdr → Hdr → Bool) (a : AbsStore) (h : Nat) (hv : AbsVer v a) : AbsVer v (a.remove h).1 := by
  cases hs : a.stored h with
  | false => rw [remove_err a h hs]; exact hv
  | true =>
    rw [remove_ok a h hs]
    intro x hx y hy e
    simp only [removed, List.mem_filter] at hx hy
    exact hv x hx.1 y hy.1 e

theorem mark_inv (a : AbsStore) (h : Nat) (hi : AbsInv a) : AbsInv (a.mark h).1 := by
  unfold AbsStore.mark
  cases hs : a.stored h with
  | false => simpa using hi
  | true =>
    simp only [Bool.not_true, Bool.false_eq_true, if_false]
    refine ⟨hi.nodupH, hi.nodupQ, hi.bounds, ?_, hi.pruned, hi.prunedB, hi.metas⟩
    intro k hk
    simp only [List.mem_cons] at hk
    rcases hk with e | hk
    · subst e; exact hs
    · exact hi.sampled k hk

theorem mark_hdrs (a : AbsStore) (h : Nat) : (a.mark h).1.hdrs = a.hdrs := by
  unfold AbsStore.mark; split <;> rfl

theorem updateMeta_hdrs (a : AbsStore) (h : Nat) (c : List Cid) : (a.updateMeta h c).1.hdrs = a.hdrs := by
  unfold AbsStore.updateMeta; split <;> rfl

theorem updateMeta_inv (a : AbsStore) (h : Nat) (c : List Cid) (hi : AbsInv a) : AbsInv (a.updateMeta h c).1 := by
  unfold AbsStore.updateMeta
  cases hs : a.stored h with
  | false => simpa using hi
  | true =>
    simp only [Bool.not_true, Bool.false_eq_true, if_false]
    refine ⟨hi.nodupH, hi.nodupQ, hi.bounds, hi.sampled, hi.pruned, hi.prunedB, ?_⟩
    intro p hp
    simp only [List.mem_cons, List.mem_filter] at hp
    rcases hp with e | hp
    · subst e; exact hs
    · exact hi.metas p hp.1
end Lumina.Proofs.Store

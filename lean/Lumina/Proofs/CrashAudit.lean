/-
  C22, audit follow-up (owner of C22).  Two things the audit asked for on top of S5's
  commit-protocol section:

  1. RAW-MEDIUM RECOVERABILITY composed with the backend: the images of `redbBackend` live in the
     subtype `RD = {x // Good x}`; `raw_*_good` show that EVERY raw medium a crash can leave
     (any `CrashImg` of the commit's write epochs, any set of early-evicted free-page writes) is
     `Good`, i.e. recovery succeeds on it — so the subtype excludes no crash image and
     "reopening succeeds" is a theorem about the raw medium, not an artefact of the typing.

  2. a GENERIC-PAYLOAD version of S5's one-page example (`Gen`), so that the hypothesis set of
     `Props.C22.redb_store_on_protocol_partial` (`dec : List α → Db`, `plan`, `hplan`, `hd₀`) can
     be exhibited with `α := Db`.
-/
import Lumina.Proofs.RedbCommit

namespace Lumina.Proofs.CrashAudit
open Lumina.Model.Crash Lumina.Model.RedbCommit Lumina.Proofs.RedbCommit

variable {α C : Type} [DecidableEq C]

/-- every raw medium a crash inside `commit()` can leave is recoverable -/
theorem raw_commit_crash_good {σ : Type} (H : Sums α C) (hinj : Function.Injective H.page)
    (fuel : Nat) (dec : List α → σ) (d : Disk α C) (w : σ) (pl : Plan α C)
    (hc : Clean H fuel d) (hp : PlanOK H fuel dec d w pl) (y : Disk α C)
    (himg : CrashImg d (commitEpochs H d pl false) y) : Good H fuel (y, true) := by
  obtain ⟨c0, hc0⟩ := hc.verified
  simp only [Good, ↓reduceIte]
  rcases commit1_crash_atomic H hinj fuel dec d w pl hc hp y himg with h | ⟨c, h, _⟩
  · exact ⟨c0, h.trans hc0⟩
  · exact ⟨c, h⟩

/-- every raw medium a crash inside a running (or aborting) transaction can leave is recoverable -/
theorem raw_tx_crash_good (H : Sums α C) (hinj : Function.Injective H.page) (fuel : Nat)
    (d : Disk α C) (hc : Clean H fuel d) (ws : List (Write α C))
    (hws : ∀ w ∈ ws, FreePageWrite fuel d w) : Good H fuel (applyAll d ws, true) := by
  obtain ⟨c0, hc0⟩ := hc.verified
  simp only [Good, ↓reduceIte]
  exact ⟨c0, (recover_free_writes H hinj fuel d hc ws hws).trans hc0⟩

/-! ### S5's one-page copy-on-write example for an arbitrary payload type -/

namespace Gen

/-- a perfect (collision-free) Merkle checksum over payloads of type `β` -/
inductive T (β : Type) where
  | node (payload : β) (kids : List (Nat × T β))
  | slot (txid : Nat) (roots : List (Nat × T β))

def sums (β : Type) : Sums β (T β) where
  page pg := .node pg.payload (pg.kids.map fun k => (k.page, k.sum))
  slot t rs := .slot t (rs.map fun k => (k.page, k.sum))

theorem sums_injective (β : Type) : Function.Injective (sums β).page := by
  intro a b h
  obtain ⟨pa, ka⟩ := a
  obtain ⟨pb, kb⟩ := b
  simp only [sums, T.node.injEq] at h
  obtain ⟨h1, h2⟩ := h
  have : ka = kb := by
    clear h1
    induction ka generalizing kb with
    | nil => cases kb <;> simp_all
    | cons x xs ih =>
      cases kb with
      | nil => simp at h2
      | cons y ys =>
        simp only [List.map_cons, List.cons.injEq, Prod.mk.injEq] at h2
        obtain ⟨⟨hp, hs⟩, hr⟩ := h2
        obtain ⟨xp, xs'⟩ := x
        obtain ⟨yp, ys'⟩ := y
        simp only at hp hs
        rw [ih ys hr, hp, hs]
  rw [h1, this]

noncomputable instance (β : Type) : DecidableEq (T β) := fun _ _ => Classical.propDecidable _

/-- the simplest copy-on-write transaction: the whole new state goes into ONE fresh page,
    which becomes the only root -/
def plan {β : Type} (fuel : Nat) (d : Disk β (T β)) (w : β) : Plan β (T β) :=
  let n := Example.fresh (liveRoots d.pages fuel (d.slots d.primary).roots)
  { pages := [(n, ⟨w, []⟩)], roots := [⟨n, (sums β).page ⟨w, []⟩⟩], txid := (d.slots d.primary).txid + 1 }

/-- `dec` reads the logical state out of the (single) root page; an empty tree is `s₀` -/
def dec {β : Type} (s₀ : β) (c : List β) : β := c.headD s₀

theorem plan_ok {β : Type} (s₀ : β) (f : Nat) (d : Disk β (T β)) (w : β) :
    PlanOK (sums β) (f + 1) (dec s₀) d w (plan (f + 1) d w) := by
  refine ⟨Nat.lt_succ_self _, ?_, [w], ?_, by simp [dec]⟩
  · intro wr hwr
    simp only [plan, List.mem_cons, List.not_mem_nil, or_false] at hwr
    subst hwr
    exact Example.fresh_not_mem _
  · simp [plan, Plan.pageWrites, applyAll, Write.apply, readRoots, readKids, readTree]

/-- a freshly created database: two equal empty slots, two-phase flag set -/
def emptyDisk {β : Type} (s₀ : β) : Disk β (T β) where
  primary := false
  twoPhase := true
  slots := fun _ => mkSlot (sums β) 0 []
  pages := fun _ => ⟨s₀, []⟩

theorem emptyDisk_clean {β : Type} (s₀ : β) (fuel : Nat) : Clean (sums β) fuel (emptyDisk s₀) :=
  ⟨mkSlot_valid .., ⟨[], rfl⟩, Or.inr (Or.inr rfl)⟩

/-- the freshly created database as an element of `RD` (open, idle, not crashed) -/
def emptyRD {β : Type} (s₀ : β) (fuel : Nat) : RD (sums β) fuel :=
  ⟨(emptyDisk s₀, false), by simpa [Good] using emptyDisk_clean s₀ fuel⟩

/-- … and it shows `s₀` -/
theorem emptyRD_view {β : Type} (s₀ : β) (f : Nat) :
    (redbBackend (sums β) (f + 1) (dec s₀) (plan (f + 1)) (fun d _ w => plan_ok s₀ f d w)).view (emptyRD s₀ (f + 1)) = s₀ := by
  simp [redbBackend, viewRaw, emptyRD, emptyDisk, verify, mkSlot, readRoots, readKids, dec]

end Gen

end Lumina.Proofs.CrashAudit

/-
  The redb store WITHOUT the precondition "only validated headers are stored".

  `AbsStore.stepS` is the abstract store as the redb store realises it: identical to the
  specification `AbsStore.step` except that a stored header is read back through
  `ExtendedHeader::decode`, which validates — so an unvalidated stored header answers
  `StoredDataError` when read (`get_by_height`, `get_by_hash`, `get_head`, `get_range`), when it
  is the neighbour of an insertion, and when it is to be removed (the state then stays).
  `redb_stepS_sim` / `redb_runS_sim`: the RedbStore model conforms to `stepS` in EVERY history
  (no hypothesis on the headers).  The state reached by `stepS` is always the state `step`
  reaches or the unchanged state, so the invariants of the abstract store (`AbsInv`, `AbsVer`)
  hold along every strict run as well: this gives C21 for the redb store unconditionally and
  pins the open finding `C19/redb/unvalidated-header-stored` down to exactly these reads.
-/
import Lumina.Proofs.StoreHist

open Lumina.Model.Store Lumina.Spec.C19
open Lumina.Model
open Lumina.Proofs.Ranges

namespace Lumina.Proofs.Store

local notation "RInv" => Lumina.Model.Ranges.Inv

/-- a stored header read back through `decode` (which validates) -/
def readBack (o : Option Hdr) : Except Err Hdr :=
  match o with
  | none => .error .notFound
  | some x => if x.valid then .ok x else .error .storedDataError

/-- lower neighbour of an insertion, read back and verified -/
def prevS (v : Hdr → Hdr → Bool) (a : AbsStore) (first : Hdr) : Except Err Unit :=
  match a.atHeight (first.height - 1) with
  | none => .ok ()
  | some p => if !p.valid then .error .storedDataError
              else if !v p first then .error .neighborsVerificationFailed else .ok ()

/-- upper neighbour of an insertion, read back and verified -/
def nextS (v : Hdr → Hdr → Bool) (a : AbsStore) (last : Hdr) : Except Err Unit :=
  match a.atHeight (last.height + 1) with
  | none => .ok ()
  | some n => if !n.valid then .error .storedDataError
              else if !v last n then .error .neighborsVerificationFailed else .ok ()

def neighS (v : Hdr → Hdr → Bool) (a : AbsStore) (first last : Hdr) : Except Err Unit :=
  match prevS v a first with
  | .error e => .error e
  | .ok () => nextS v a last

/-- `insertCheck` with the neighbours read back through `decode` -/
def insertCheckS (v : Hdr → Hdr → Bool) (a : AbsStore) (batch : List Hdr) :
    Except Err (Option (Nat × Nat)) :=
  match batch.head?, batch.getLast? with
  | some first, some last =>
    if !chainOK v batch then .error .headersVerificationFailed
    else
      match AbsStore.placement a first.height last.height with
      | .error e => .error e
      | .ok () =>
        match neighS v a first last with
        | .error e => .error e
        | .ok () =>
          match firstDupHash (a.hdrs.map (·.hash)) batch with
          | some q => .error (.hashExists q)
          | none => .ok (some (first.height, last.height))
  | _, _ => .ok none

def headHeightE (a : AbsStore) : Except Err Nat :=
  match a.headHeight with
  | some h => .ok h
  | none => .error .notFound

/-- the abstract store as the redb store realises it (see the header of this file) -/
def stepS (v : Hdr → Hdr → Bool) (a : AbsStore) : Op → AbsStore × Res
  | .insert batch =>
    match insertCheckS v a batch with
    | .error e => (a, .err e)
    | .ok none => (a, .ok .unit)
    | .ok (some (lo, hi)) => (added a batch lo hi, .ok .unit)
  | .remove h =>
    match a.atHeight h with
    | none => (a, .err .notFound)
    | some x => if x.valid then (removed a h, .ok .unit) else (a, .err .storedDataError)
  | .getByHeight h => (a, toRes (readBack (a.atHeight h)) .hdr)
  | .getByHash q => (a, toRes (readBack (a.byHash q)) .hdr)
  | .head => (a, match a.headHeight with
      | some h => toRes (readBack (a.atHeight h)) .hdr
      | none => .err .notFound)
  | .getRange lo hi => (a, toRes (getRange (headHeightE a) (fun h => readBack (a.atHeight h)) lo hi) .hdrs)
  | op => AbsStore.step v a op

theorem prevS_ok (v : Hdr → Hdr → Bool) (a : AbsStore) (first : Hdr) (h : prevS v a first = .ok ()) :
    AbsStore.prevOK v a first = true := by
  unfold prevS at h; unfold AbsStore.prevOK
  cases hp : a.atHeight (first.height - 1) with
  | none => rfl
  | some p =>
    rw [hp] at h; simp only at h ⊢
    by_cases h1 : p.valid = true
    · by_cases h2 : v p first = true
      · exact h2
      · simp [h1, h2] at h
    · simp [h1] at h

theorem nextS_ok (v : Hdr → Hdr → Bool) (a : AbsStore) (last : Hdr) (h : nextS v a last = .ok ()) :
    AbsStore.nextOK v a last = true := by
  unfold nextS at h; unfold AbsStore.nextOK
  cases hp : a.atHeight (last.height + 1) with
  | none => rfl
  | some p =>
    rw [hp] at h; simp only at h ⊢
    by_cases h1 : p.valid = true
    · by_cases h2 : v last p = true
      · exact h2
      · simp [h1, h2] at h
    · simp [h1] at h

theorem neighS_ok (v : Hdr → Hdr → Bool) (a : AbsStore) (first last : Hdr) (h : neighS v a first last = .ok ()) :
    (!AbsStore.prevOK v a first || !AbsStore.nextOK v a last) = false := by
  unfold neighS at h
  cases hp : prevS v a first with
  | error e => rw [hp] at h; cases h
  | ok u =>
    rw [hp] at h
    simp [prevS_ok v a first hp, nextS_ok v a last h]

/-- an insertion the strict check accepts is accepted by the specification's check, for the same span -/
theorem insertCheckS_some (v : Hdr → Hdr → Bool) (a : AbsStore) (batch : List Hdr) (p : Nat × Nat)
    (h : insertCheckS v a batch = .ok (some p)) : AbsStore.insertCheck v a batch = .ok (some p) := by
  unfold insertCheckS at h
  unfold AbsStore.insertCheck
  split at h
  next first last hf hl =>
    simp only [hf, hl]
    by_cases h1 : (!chainOK v batch) = true
    · rw [if_pos h1] at h; cases h
    rw [if_neg h1] at h; rw [if_neg h1]
    cases hp : AbsStore.placement a first.height last.height with
    | error e => rw [hp] at h; cases h
    | ok u =>
      rw [hp] at h; simp only at h ⊢
      cases hn : neighS v a first last with
      | error e => rw [hn] at h; cases h
      | ok u2 =>
        rw [hn] at h; simp only at h
        rw [neighS_ok v a first last hn]
        simp only [Bool.false_eq_true, if_false]
        exact h
  · cases h

theorem insertCheckS_none (v : Hdr → Hdr → Bool) (a : AbsStore) (batch : List Hdr) :
    insertCheckS v a batch = .ok none ↔ batch = [] := by
  constructor
  · intro h
    cases batch with
    | nil => rfl
    | cons b rest =>
      exfalso
      have : ((b :: rest).getLast?).isSome := by simp
      obtain ⟨l, hl⟩ := Option.isSome_iff_exists.1 this
      revert h
      unfold insertCheckS
      simp only [List.head?_cons, hl]
      repeat' split
      all_goals simp
  · intro h; subst h; rfl

/-- the strict step reaches the state the specification reaches, or stays -/
theorem stepS_state (v : Hdr → Hdr → Bool) (a : AbsStore) (op : Op) :
    (stepS v a op).1 = (AbsStore.step v a op).1 ∨ (stepS v a op).1 = a := by
  cases op with
  | insert batch =>
    simp only [stepS]
    cases hc : insertCheckS v a batch with
    | error e => right; rfl
    | ok o =>
      cases o with
      | none => right; rfl
      | some p =>
        obtain ⟨lo, hi⟩ := p
        left
        have := insertCheckS_some v a batch (lo, hi) hc
        simp only [AbsStore.step]
        rw [insert_eq_added v a batch lo hi this]
  | remove h =>
    simp only [stepS]
    cases hx : a.atHeight h with
    | none => right; rfl
    | some x =>
      simp only
      by_cases hv : x.valid = true
      · left
        have hs : a.stored h = true := by unfold AbsStore.stored; rw [hx]; rfl
        simp only [hv, if_true, AbsStore.step]
        rw [remove_ok a h hs]
      · right; simp [hv]
  | getByHeight h => left; rfl
  | getByHash q => left; rfl
  | head => left; rfl
  | getRange lo hi => left; rfl
  | mark h => left; rfl
  | updMeta h c => left; rfl
  | hasAt h => left; rfl
  | has q => left; rfl
  | getMeta h => left; rfl
  | headHeight => left; rfl
  | storedRanges => left; rfl
  | sampledRanges => left; rfl
  | prunedRanges => left; rfl

theorem stepS_inv (v : Hdr → Hdr → Bool) (a : AbsStore) (op : Op) (hi : AbsInv a) (hwf : op.wf = true) :
    AbsInv (stepS v a op).1 := by
  rcases stepS_state v a op with e | e <;> rw [e]
  · exact abs_step_inv v a op hi hwf
  · exact hi

theorem stepS_ver (v : Hdr → Hdr → Bool) (a : AbsStore) (op : Op) (hi : AbsInv a) (hv : AbsVer v a) :
    AbsVer v (stepS v a op).1 := by
  rcases stepS_state v a op with e | e <;> rw [e]
  · exact abs_step_ver v a op hi hv
  · exact hv

theorem redb_getHeaderS {t : Tables} {a : AbsStore} (r : Rr t a) (h : Nat) :
    RedbStore.getHeader t h = readBack (a.atHeight h) := by
  unfold RedbStore.getHeader readBack
  rw [r.hdrT h]
  cases a.atHeight h with
  | none => rfl
  | some x => rfl

theorem redb_verifyNeighboursS {t : Tables} {a : AbsStore} (r : Rr t a) (hi : AbsInv a)
    (v : Hdr → Hdr → Bool) (first last : Hdr) (hlo : 1 ≤ first.height) :
    RedbStore.verifyAgainstNeighbours v t (if a.stored (first.height - 1) then some first else none)
        (if a.stored (last.height + 1) then some last else none) = neighS v a first last := by
  have hpred : pred64 first.height = .ok (first.height - 1) := by
    unfold pred64; rw [if_pos hlo]
  have hsucc : ∀ n, a.atHeight (last.height + 1) = some n → succ64 last.height = .ok (last.height + 1) := by
    intro n hn
    have hb := hi.bounds n ((atHeight_some hi _ n).1 hn).1
    have hh := ((atHeight_some hi _ n).1 hn).2
    unfold succ64; rw [if_pos (by omega)]
  unfold RedbStore.verifyAgainstNeighbours neighS prevS nextS
  rw [stored_eq_atHeight, stored_eq_atHeight]
  cases hp : a.atHeight (first.height - 1) with
  | none =>
    cases hn : a.atHeight (last.height + 1) with
    | none => simp [pure, Except.pure]
    | some n =>
      have hs := hsucc n hn
      simp only [Option.isSome_none, Option.isSome_some, Bool.false_eq_true, if_false, if_true,
        Bind.bind, Except.bind, pure, Except.pure, hs, RedbStore.neighbour, redb_getHeaderS r, hn, readBack]
      cases hval : n.valid <;> cases hv : v last n <;>
        simp [hval, hv, throw, throwThe, MonadExceptOf.throw]
  | some p =>
    cases hn : a.atHeight (last.height + 1) with
    | none =>
      simp only [Option.isSome_none, Option.isSome_some, Bool.false_eq_true, if_false, if_true,
        Bind.bind, Except.bind, pure, Except.pure, hpred, RedbStore.neighbour, redb_getHeaderS r, hp, readBack]
      cases hval : p.valid <;> cases hv : v p first <;>
        simp [hval, hv, throw, throwThe, MonadExceptOf.throw]
    | some n =>
      have hs := hsucc n hn
      simp only [Option.isSome_some, if_true,
        Bind.bind, Except.bind, pure, Except.pure, hpred, hs, RedbStore.neighbour, redb_getHeaderS r, hp, hn, readBack]
      cases hval : p.valid <;> cases hv : v p first <;> cases hval2 : n.valid <;> cases hv2 : v last n <;>
        simp [hval, hv, hval2, hv2, throw, throwThe, MonadExceptOf.throw]
theorem redb_insert_simS {t : Tables} {a : AbsStore} (r : Rr t a) (hi : AbsInv a)
    (v : Hdr → Hdr → Bool) (batch : List Hdr) (hwf : ∀ x ∈ batch, x.height ≤ U64_MAX) :
    match insertCheckS v a batch with
    | .error e => RedbStore.insert v t batch = (t, .error e)
    | .ok none => RedbStore.insert v t batch = (t, .ok ())
    | .ok (some (lo, hi')) => ∃ t', RedbStore.insert v t batch = (t', .ok ()) ∧ Rr t' (added a batch lo hi') := by
  cases batch with
  | nil => simp [insertCheckS, RedbStore.insert, tryIntoVerified, RedbStore.insertTx, RedbStore.writeTx]
  | cons b rest =>
    have hlast : ((b :: rest).getLast?).isSome := by simp
    obtain ⟨last, hl⟩ := Option.isSome_iff_exists.1 hlast
    have hf : (b :: rest).head? = some b := rfl
    unfold RedbStore.insert
    rw [tryIntoVerified_eq]
    unfold insertCheckS
    simp only [hf, hl]
    by_cases hc : chainOK v (b :: rest) = true
    · simp only [hc, Bool.not_true, Bool.false_eq_true, if_false, if_true]
      unfold RedbStore.writeTx RedbStore.insertTx
      simp only [hf, hl]
      have hlw : last.height ≤ U64_MAX := hwf last (last_of_mem hl)
      simp only [redb_getRanges .header r.invH, redb_getRanges .sampled r.invS, redb_getRanges .pruned r.invP,
        Bind.bind, Except.bind]
      rw [constraints_eq a (rawRanges t .header) r.invH r.memH b.height last.height hlw]
      cases hp : AbsStore.placement a b.height last.height with
      | error e => simp
      | ok u =>
        simp only
        obtain ⟨p1, p2, p3⟩ := placement_ok a _ _ hp
        rw [redb_verifyNeighboursS r hi v b last p1]
        cases hn : neighS v a b last with
        | error e => simp
        | ok u2 =>
          simp only
          have hk : ∀ q, AMap.contains t.heights q = (a.hdrs.map (·.hash)).contains q := by
            intro q
            rw [contains_eq, r.hgt q, ← byHash_isSome]
            cases a.byHash q <;> rfl
          cases hd : firstDupHash (a.hdrs.map (·.hash)) (b :: rest) with
          | some q =>
            have hfreshH : ∀ x ∈ (b :: rest), AMap.get t.headers x.height = none := by
              obtain ⟨b1, b2, b3⟩ := batch_heights v (b :: rest) b last hc hf hl
              intro x hx
              rw [r.hdrT]
              unfold AbsStore.atHeight
              rw [List.find?_eq_none]
              intro y hy
              have := p3 y hy
              have := b2 x hx
              simp; omega
            have loop := redb_insertLoop_spec t (a.hdrs.map (·.hash)) (b :: rest) hk hfreshH
              (batch_heights v (b :: rest) b last hc hf hl).1
            rw [hd] at loop
            simp only at loop
            simp [loop]
          | none =>
            simp only
            have hno := neighS_ok v a b last hn
            have ok : InsertOK v a (b :: rest) b last := by
              refine ⟨hf, hl, hc, p1, p2, p3, ?_, ?_, hd⟩
              · intro p hp'
                simp only [AbsStore.prevOK, AbsStore.nextOK, hp'] at hno
                simp at hno; exact hno.1
              · intro n hn'
                simp only [AbsStore.prevOK, AbsStore.nextOK, hn'] at hno
                simp at hno; exact hno.2
            obtain ⟨t1, hr, sr, pr, e1, eh, es, ep, rr⟩ := redb_insertCommit r hi v (b :: rest) b last ok hwf
            simp only [e1, eh, es, ep, pure, Except.pure]
            exact ⟨_, rfl, rr⟩
    · simp [hc]

/-- removal on the redb store: a stored header that does not validate cannot be removed -/
theorem redb_remove_simS {t : Tables} {a : AbsStore} (r : Rr t a) (hi : AbsInv a) (v : Hdr → Hdr → Bool) (h : Nat) :
    (RedbStore.step v t (.remove h)).2 = (stepS v a (.remove h)).2 ∧
    Rr (RedbStore.step v t (.remove h)).1 (stepS v a (.remove h)).1 := by
  simp only [RedbStore.step, stepS]
  cases hat : a.atHeight h with
  | none =>
    have hs : a.stored h = false := by unfold AbsStore.stored; rw [hat]; rfl
    have : RedbStore.writeTx (RedbStore.removeHeightTx h) t = (t, .error .notFound) := by
      unfold RedbStore.writeTx RedbStore.removeHeightTx
      simp only [redb_getRanges .header r.invH, redb_getRanges .sampled r.invS, redb_getRanges .pruned r.invP,
        Bind.bind, Except.bind, redb_contains_eq_stored r, hs]
      simp [throw, throwThe, MonadExceptOf.throw]
    simp [this, toRes, r]
  | some x =>
    have hs : a.stored h = true := by unfold AbsStore.stored; rw [hat]; rfl
    by_cases hv : x.valid = true
    · -- as in the validated case
      have hx := (atHeight_some hi h x).1 hat
      have hbh : a.byHash x.hash = some x := (byHash_some hi x.hash x).2 ⟨hx.1, rfl⟩
      have hb := hi.bounds x hx.1
      have hvr : ValidR (h, h) := ⟨by rw [← hx.2]; exact hb.1, Nat.le_refl _, by rw [← hx.2]; exact hb.2⟩
      obtain ⟨hr, eh, ihr, mhr⟩ := removeRelaxed_spec (rs := rawRanges t .header) (r := (h, h)) r.invH hvr
      obtain ⟨sr, es, isr, msr⟩ := removeRelaxed_spec (rs := rawRanges t .sampled) (r := (h, h)) r.invS hvr
      obtain ⟨pr, ep, ipr, mpr⟩ := insertRelaxed_spec (rs := rawRanges t .pruned) (r := (h, h)) r.invP hvr
      have hi' : AbsInv (removed a h) := by
        have := remove_inv a h hi; rw [remove_ok a h hs] at this; exact this
      have hg : AMap.get t.heights x.hash = some h := by rw [r.hgt, hbh]; simp [hx.2]
      have e : RedbStore.writeTx (RedbStore.removeHeightTx h) t =
          (RedbStore.setRanges (RedbStore.setRanges (RedbStore.setRanges
            { t with headers := AMap.erase t.headers h, heights := AMap.erase t.heights x.hash,
                     samplingMetadata := AMap.erase t.samplingMetadata h } .header hr) .sampled sr) .pruned pr, .ok ()) := by
        unfold RedbStore.writeTx RedbStore.removeHeightTx
        simp only [redb_getRanges .header r.invH, redb_getRanges .sampled r.invS, redb_getRanges .pruned r.invP,
          Bind.bind, Except.bind, redb_contains_eq_stored r, hs, r.hdrT h, hat, RedbStore.decodeHeader, hv,
          contains_eq, eh, es, ep, expectR]
        simp [pure, Except.pure, hg]
      simp only [e, hv, if_true, toRes]
      refine ⟨trivial, ?_⟩
      constructor
      · simp only [rawRanges_set]; simp; exact ihr
      · simp only [rawRanges_set]; simp; exact isr
      · simp only [rawRanges_set]; simp; exact ipr
      · intro k
        simp only [rawRanges_set]; simp
        rw [mhr k, r.memH k, removed_stored]
        constructor
        · rintro ⟨h1, h2⟩; exact ⟨h1, by omega⟩
        · rintro ⟨h1, h2⟩; exact ⟨h1, by omega⟩
      · intro k
        simp only [rawRanges_set]; simp
        rw [msr k, r.memS k]
        simp only [removed, List.mem_filter, bne_iff_ne, ne_eq]
        constructor
        · rintro ⟨h1, h2⟩; exact ⟨h1, by omega⟩
        · rintro ⟨h1, h2⟩; exact ⟨h1, by omega⟩
      · intro k
        simp only [rawRanges_set]; simp
        rw [mpr k, r.memP k]
        simp only [removed, List.mem_cons]
        constructor
        · rintro (h1 | h1); exact Or.inr h1; exact Or.inl (by omega)
        · rintro (h1 | h1); exact Or.inr (by omega); exact Or.inl h1
      · intro k
        show AMap.get (AMap.erase t.headers h) k = _
        rw [get_erase, removed_atHeight, r.hdrT k]
      · intro q
        show AMap.get (AMap.erase t.heights x.hash) q = _
        rw [get_erase, removed_byHash hi h x hx.1 hx.2 hi', r.hgt q]
        by_cases e : q = x.hash <;> simp [e]
      · intro k
        show AMap.get (AMap.erase t.samplingMetadata h) k = _
        rw [get_erase, removed_metaOf, r.md k]
    · have hv' : x.valid = false := by simpa using hv
      have : RedbStore.writeTx (RedbStore.removeHeightTx h) t = (t, .error .storedDataError) := by
        unfold RedbStore.writeTx RedbStore.removeHeightTx
        simp only [redb_getRanges .header r.invH, redb_getRanges .sampled r.invS, redb_getRanges .pruned r.invP,
          Bind.bind, Except.bind, redb_contains_eq_stored r, hs, r.hdrT h, hat, RedbStore.decodeHeader, hv']
        simp
      simp [this, toRes, r, hv']
theorem redb_headHeightE {t : Tables} {a : AbsStore} (r : Rr t a) :
    RedbStore.headHeight t = headHeightE a := by
  rw [redb_headHeight r]; rfl

/-- per-operation simulation of the redb store by the strict abstract store: NO hypothesis on the
    validity of the headers -/
theorem redb_stepS_sim {t : Tables} {a : AbsStore} (r : Rr t a) (hi : AbsInv a)
    (v : Hdr → Hdr → Bool) (op : Op) (hwf : op.wf = true) :
    (RedbStore.step v t op).2 = (stepS v a op).2 ∧
    Rr (RedbStore.step v t op).1 (stepS v a op).1 := by
  cases op with
  | insert batch =>
    have hw : ∀ x ∈ batch, x.height ≤ U64_MAX := by
      simpa [Op.wf] using hwf
    have sim := redb_insert_simS r hi v batch hw
    simp only [RedbStore.step, stepS]
    cases hc : insertCheckS v a batch with
    | error e =>
      rw [hc] at sim; simp only at sim
      simp [sim, toRes, r]
    | ok o =>
      cases o with
      | none =>
        rw [hc] at sim; simp only at sim
        simp [sim, toRes, r]
      | some p =>
        obtain ⟨lo, hi'⟩ := p
        rw [hc] at sim; simp only at sim
        obtain ⟨t', e, r'⟩ := sim
        simp only [e, toRes]
        exact ⟨trivial, r'⟩
  | remove h => exact redb_remove_simS r hi v h
  | mark h =>
    simp only [RedbStore.step, stepS, AbsStore.step]
    rcases redb_mark_sim r hi h with ⟨hs, e⟩ | ⟨hs, t', e, r'⟩
    · simp [e, AbsStore.mark, hs, toRes, r]
    · simp [e, AbsStore.mark, hs, toRes]; exact r'
  | updMeta h cids =>
    simp only [RedbStore.step, stepS, AbsStore.step]
    rcases redb_updMeta_sim r h cids with ⟨hs, e, e2⟩ | ⟨hs, t', a', e, e2, r', _⟩
    · simp [e, e2, toRes, r]
    · simp [e, e2, toRes]; exact r'
  | getByHeight h =>
    simp only [RedbStore.step, stepS, RedbStore.readTx, RedbStore.getByHeight]
    exact ⟨by rw [redb_getHeaderS r], r⟩
  | hasAt h =>
    simp only [RedbStore.step, stepS, AbsStore.step]
    exact ⟨by rw [redb_containsHeight r], r⟩
  | getByHash q =>
    simp only [RedbStore.step, stepS, RedbStore.readTx, RedbStore.getByHash, RedbStore.getHeight]
    refine ⟨?_, r⟩
    rw [r.hgt q]
    cases hb : a.byHash q with
    | none => rfl
    | some x =>
      have hx := (byHash_some hi q x).1 hb
      have hat : a.atHeight x.height = some x := (atHeight_some hi _ x).2 ⟨hx.1, rfl⟩
      simp only [Option.map_some, Bind.bind, Except.bind]
      rw [redb_getHeaderS r, hat]
  | has q =>
    simp only [RedbStore.step, stepS, AbsStore.step, RedbStore.containsHash, RedbStore.getHeight]
    refine ⟨?_, r⟩
    rw [r.hgt q]
    cases hb : a.byHash q with
    | none => rfl
    | some x =>
      have hx := (byHash_some hi q x).1 hb
      have hat : a.atHeight x.height = some x := (atHeight_some hi _ x).2 ⟨hx.1, rfl⟩
      simp only [Option.map_some, contains_eq, r.hdrT, hat]
  | getMeta h =>
    simp only [RedbStore.step, stepS, AbsStore.step, RedbStore.readTx, RedbStore.getSamplingMetadata]
    refine ⟨?_, r⟩
    have := redb_containsHeight r h
    unfold RedbStore.containsHeight at this
    simp only [this, r.md h]
    cases a.stored h <;> rfl
  | head =>
    simp only [RedbStore.step, stepS, RedbStore.readTx, RedbStore.getHead]
    refine ⟨?_, r⟩
    simp only [redb_getRanges .header r.invH, Bind.bind, Except.bind]
    rw [head_eq_headHeight (rawRanges t .header) r.invH a r.memH]
    cases a.headHeight with
    | none => rfl
    | some h => simp only; rw [redb_getHeaderS r]
  | headHeight =>
    simp only [RedbStore.step, stepS, AbsStore.step, RedbStore.readTx]
    refine ⟨?_, r⟩
    rw [redb_headHeight r]
    cases a.headHeight <;> rfl
  | getRange lo hi' =>
    simp only [RedbStore.step, stepS]
    refine ⟨?_, r⟩
    have e1 : RedbStore.getByHeight t = fun h => readBack (a.atHeight h) := by
      funext h; exact redb_getHeaderS r h
    rw [redb_headHeightE r, e1]
  | storedRanges =>
    simp only [RedbStore.step, stepS, AbsStore.step, RedbStore.readTx]
    refine ⟨?_, r⟩
    rw [redb_getRanges .header r.invH, redb_storedRanges r hi]; rfl
  | sampledRanges =>
    simp only [RedbStore.step, stepS, AbsStore.step, RedbStore.readTx]
    refine ⟨?_, r⟩
    rw [redb_getRanges .sampled r.invS, redb_sampledRanges r hi]; rfl
  | prunedRanges =>
    simp only [RedbStore.step, stepS, AbsStore.step, RedbStore.readTx]
    refine ⟨?_, r⟩
    rw [redb_getRanges .pruned r.invP, redb_prunedRanges r hi]; rfl

/-- forward simulation of the redb store by the strict abstract store over a whole history,
    together with the invariants of the abstract state reached -/
theorem redb_runS_sim (v : Hdr → Hdr → Bool) (ops : List Op) (hw : AllWf ops) (t : Tables) (a : AbsStore)
    (r : Rr t a) (hi : AbsInv a) (hv : AbsVer v a) :
    (runOps (RedbStore.step v) t ops).2 = (runOps (stepS v) a ops).2 ∧
    Rr (runOps (RedbStore.step v) t ops).1 (runOps (stepS v) a ops).1 ∧
    AbsInv (runOps (stepS v) a ops).1 ∧ AbsVer v (runOps (stepS v) a ops).1 := by
  induction ops generalizing t a with
  | nil => exact ⟨rfl, r, hi, hv⟩
  | cons op rest ih =>
    rw [runOps_cons, runOps_cons]
    have hop := hw op (by simp)
    obtain ⟨e, r'⟩ := redb_stepS_sim r hi v op hop
    obtain ⟨e2, r2, i2, v2⟩ := ih (fun o ho => hw o (List.mem_cons_of_mem _ ho)) _ _ r'
      (stepS_inv v a op hi hop) (stepS_ver v a op hi hv)
    exact ⟨by simp only [e, e2], r2, i2, v2⟩
end Lumina.Proofs.Store

/-
  Lemmas for C11: `build_sparse_share` / `split_blob_to_shares` produce exactly the shares of the
  share format (`Spec.C11.expectedShares`), their number, and the reconstruction round trip.
-/
import Lumina.Model.Blob
import Lumina.Spec.C11
import Lumina.Props.C14
open Lumina.Util Lumina.Model.Blob Lumina.Gen.C11 Lumina.Spec.C11

namespace Lumina.Proofs.C11

theorem validRaw_length (ns : Bytes) (h : Lumina.Spec.C14.validRaw ns = true) : ns.length = 29 := by
  simp only [Lumina.Spec.C14.validRaw, Lumina.Spec.C14.validV0, Lumina.Spec.C14.validV255, Bool.or_eq_true,
    Bool.and_eq_true, beq_iff_eq] at h
  rcases h with h | h <;> exact h.1.1

theorem fromRaw_ok (ns : Bytes) (h : Lumina.Spec.C14.validRaw ns = true) :
    Lumina.Model.Namespace.fromRaw ns = .ok ns := by
  have hs := Lumina.Props.C14.fromRaw_spec ns
  cases hr : Lumina.Model.Namespace.fromRaw ns with
  | ok x =>
    rw [hr] at hs
    simp only [Lumina.Props.C14.obsOf, Lumina.Spec.C14.specFromRaw, Bool.and_eq_true, beq_iff_eq] at hs
    rw [hs.2]
  | error e =>
    rw [hr] at hs
    simp [Lumina.Props.C14.obsOf, Lumina.Spec.C14.specFromRaw, h] at hs

/-- a 512-byte string starting with a valid namespace is a share -/
theorem shareFromRaw_ok (ns rest : Bytes) (hns : Lumina.Spec.C14.validRaw ns = true)
    (hl : (ns ++ rest).length = 512) : shareFromRaw (ns ++ rest) = .ok ⟨ns ++ rest, false⟩ := by
  have h29 := validRaw_length ns hns
  unfold shareFromRaw
  have ht : (ns ++ rest).take NS_SIZE = ns := by
    simp only [NS_SIZE]; rw [← h29]; exact List.take_left
  simp only [hl, SHARE_SIZE, ne_eq, not_true_eq_false, ↓reduceIte, ht, fromRaw_ok ns hns]
  have : infoByteFromRaw ((ns ++ rest).getD NS_SIZE 0) = .ok ((ns ++ rest).getD NS_SIZE 0) := by
    unfold infoByteFromRaw
    have := UInt8.toNat_lt ((ns ++ rest).getD NS_SIZE 0)
    rw [if_neg (by simp only [MAX_SHARE_VERSION]; omega)]
  rw [this]

theorem take_min (l : Bytes) (n : Nat) : l.take (min n l.length) = l.take n := by
  by_cases h : n ≤ l.length
  · rw [Nat.min_eq_left h]
  · rw [Nat.min_eq_right (by omega), List.take_of_length_le (Nat.le_refl _), List.take_of_length_le (by omega)]

theorem drop_min (l : Bytes) (n : Nat) : l.drop (min n l.length) = l.drop n := by
  by_cases h : n ≤ l.length
  · rw [Nat.min_eq_left h]
  · rw [Nat.min_eq_right (by omega), List.drop_of_length_le (Nat.le_refl _), List.drop_of_length_le (by omega)]

/-- the common tail of `build_sparse_share` once the header is known -/
theorem build_tail (ns hdrRest rest : Bytes) (hns : Lumina.Spec.C14.validRaw ns = true)
    (hh : (ns ++ hdrRest).length ≤ 512) :
    finishShare (ns ++ hdrRest) rest =
    .ok (⟨padTo512 (ns ++ hdrRest ++ rest.take (512 - (ns ++ hdrRest).length)), false⟩,
         rest.drop (512 - (ns ++ hdrRest).length)) := by
  unfold finishShare
  simp only [SHARE_SIZE, take_min, drop_min]
  have hl : (ns ++ (hdrRest ++ rest.take (512 - (ns ++ hdrRest).length) ++
      List.replicate (512 - (ns ++ hdrRest).length - min (512 - (ns ++ hdrRest).length) rest.length) 0)).length = 512 := by
    simp only [List.length_append, List.length_take, List.length_replicate] at hh ⊢
    omega
  have e : ns ++ hdrRest ++ rest.take (512 - (ns ++ hdrRest).length) ++
      List.replicate (512 - (ns ++ hdrRest).length - min (512 - (ns ++ hdrRest).length) rest.length) 0 =
      ns ++ (hdrRest ++ rest.take (512 - (ns ++ hdrRest).length) ++
      List.replicate (512 - (ns ++ hdrRest).length - min (512 - (ns ++ hdrRest).length) rest.length) 0) := by
    simp only [List.append_assoc]
  rw [e, shareFromRaw_ok ns _ hns hl]
  simp only [padTo512, List.append_assoc, List.length_append, List.length_take]
  simp only [Nat.sub_sub, Nat.add_assoc]

theorem be_length (w n : Nat) : (be w n).length = w := by
  induction w with
  | zero => rfl
  | succ w ih => simp [be, ih]

theorem build_cont (ns : Bytes) (ver : Nat) (sg : Option Bytes) (len : Nat) (rest : Bytes)
    (hns : Lumina.Spec.C14.validRaw ns = true) (hv : ver ≤ 127) :
    buildSparseShare ns ver sg len false rest =
      .ok (⟨padTo512 (ns ++ [UInt8.ofNat (2 * ver)] ++ rest.take 482), false⟩, rest.drop 482) := by
  have h29 := validRaw_length ns hns
  unfold buildSparseShare infoByteNew
  rw [if_neg (by simp only [MAX_SHARE_VERSION]; omega)]
  simp only [Bool.false_eq_true, ↓reduceIte, Nat.add_zero]
  have hh : (ns ++ [UInt8.ofNat (ver * 2)]).length ≤ 512 := by simp [h29]
  rw [build_tail ns [UInt8.ofNat (ver * 2)] rest hns hh]
  have e : (ns ++ [UInt8.ofNat (ver * 2)]).length = 30 := by simp [h29]
  rw [e, Nat.mul_comm]

theorem build_first (ns : Bytes) (ver : Nat) (sg : Option Bytes) (len : Nat) (rest : Bytes)
    (hns : Lumina.Spec.C14.validRaw ns = true)
    (hlen : len < 2 ^ 32)
    (hcfg : (ver = 0 ∧ sg = none) ∨ (ver = 1 ∧ ∃ s, sg = some s ∧ s.length = 20)) :
    buildSparseShare ns ver sg len true rest =
      .ok (⟨padTo512 (ns ++ [UInt8.ofNat (2 * ver + 1)] ++ be 4 len ++ sg.getD [] ++
              rest.take (firstCap sg.isSome)), false⟩, rest.drop (firstCap sg.isSome)) := by
  have h29 := validRaw_length ns hns
  unfold buildSparseShare infoByteNew
  rcases hcfg with ⟨hv, hs⟩ | ⟨hv, s, hs, hsl⟩
  · subst hv hs
    rw [if_neg (by simp only [MAX_SHARE_VERSION]; omega)]
    simp only [↓reduceIte, U32_MAX, SHARE_VERSION_ONE, SEQUENCE_LEN_BYTES]
    rw [if_neg (by omega)]
    simp only [Nat.zero_ne_one, ↓reduceIte]
    have hh : (ns ++ ([UInt8.ofNat (0 * 2 + 1)] ++ be 4 len)).length ≤ 512 := by simp [h29, be_length]
    have := build_tail ns ([UInt8.ofNat (0 * 2 + 1)] ++ be 4 len) rest hns hh
    simp only [← List.append_assoc] at this
    rw [this]
    have e : (ns ++ [UInt8.ofNat (0 * 2 + 1)] ++ be 4 len).length = 34 := by simp [h29, be_length]
    rw [e]
    simp [firstCap]
  · subst hv hs
    rw [if_neg (by simp only [MAX_SHARE_VERSION]; omega)]
    simp only [↓reduceIte, U32_MAX, SHARE_VERSION_ONE, SEQUENCE_LEN_BYTES]
    rw [if_neg (by omega)]
    simp only [↓reduceIte]
    have hh : (ns ++ ([UInt8.ofNat (1 * 2 + 1)] ++ be 4 len ++ s)).length ≤ 512 := by simp [h29, be_length, hsl]
    have := build_tail ns ([UInt8.ofNat (1 * 2 + 1)] ++ be 4 len ++ s) rest hns hh
    simp only [← List.append_assoc] at this
    rw [this]
    have e : (ns ++ [UInt8.ofNat (1 * 2 + 1)] ++ be 4 len ++ s).length = 54 := by simp [h29, be_length, hsl]
    rw [e]
    simp [firstCap]

theorem chunks_fuel : ∀ (f : Nat) (d : Bytes) (g : Nat), d.length ≤ f → d.length ≤ g → chunks482 f d = chunks482 g d := by
  intro f
  induction f with
  | zero =>
    intro d g h _
    have : d = [] := List.eq_nil_of_length_eq_zero (by omega)
    subst this
    cases g <;> simp [chunks482]
  | succ f ih =>
    intro d g h1 h2
    cases g with
    | zero =>
      have : d = [] := List.eq_nil_of_length_eq_zero (by omega)
      subst this
      simp [chunks482]
    | succ g =>
      simp only [chunks482]
      by_cases he : d.isEmpty = true
      · simp [he]
      · simp only [he, Bool.false_eq_true, ↓reduceIte]
        have hne : d ≠ [] := by intro e; subst e; simp at he
        have hpos : 0 < d.length := List.length_pos_iff.2 hne
        rw [ih (d.drop 482) g (by simp only [List.length_drop]; omega) (by simp only [List.length_drop]; omega)]

def mkCont (ns : Bytes) (ver : Nat) (c : Bytes) : Share := ⟨padTo512 (ns ++ [UInt8.ofNat (2 * ver)] ++ c), false⟩

theorem split_cont (ns : Bytes) (ver : Nat) (sg : Option Bytes) (len : Nat)
    (hns : Lumina.Spec.C14.validRaw ns = true) (hv : ver ≤ 127) :
    ∀ (f : Nat) (rest : Bytes), rest.length ≤ f →
      splitLoop ns ver sg len f false rest = .ok ((chunks482 f rest).map (mkCont ns ver)) := by
  intro f
  induction f with
  | zero =>
    intro rest h
    have : rest = [] := List.eq_nil_of_length_eq_zero (by omega)
    subst this
    simp [splitLoop, chunks482]
  | succ f ih =>
    intro rest h
    simp only [splitLoop, chunks482]
    by_cases he : rest.isEmpty = true
    · simp [he]
    · simp only [he, Bool.false_eq_true, ↓reduceIte]
      have hne : rest ≠ [] := by intro e; subst e; simp at he
      have hpos : 0 < rest.length := List.length_pos_iff.2 hne
      rw [build_cont ns ver sg len rest hns hv]
      simp only
      rw [ih (rest.drop 482) (by simp only [List.length_drop]; omega)]
      simp [mkCont]

theorem split_eq (ns data : Bytes) (sg : Option Bytes)
    (hns : Lumina.Spec.C14.validRaw ns = true) (hne : data ≠ []) (hlen : data.length < 2 ^ 32)
    (hsg : ∀ s, sg = some s → s.length = 20) :
    splitBlobToShares ns (if sg.isSome then 1 else 0) data sg =
      .ok ((expectedShares ns data sg).map (fun d => (⟨d, false⟩ : Share))) := by
  unfold splitBlobToShares
  have hpos : 0 < data.length := List.length_pos_iff.2 hne
  obtain ⟨n, hn⟩ : ∃ n, data.length = n + 1 := ⟨data.length - 1, by omega⟩
  rw [hn]
  simp only [splitLoop]
  have he : data.isEmpty = false := by cases data <;> simp_all
  simp only [he, Bool.false_eq_true, ↓reduceIte]
  have hcfg : ((if sg.isSome then 1 else 0) = 0 ∧ sg = none) ∨
      ((if sg.isSome then 1 else 0) = 1 ∧ ∃ s, sg = some s ∧ s.length = 20) := by
    cases sg with
    | none => left; simp
    | some s => right; exact ⟨by simp, s, rfl, hsg s rfl⟩
  rw [← hn, build_first ns _ sg data.length data hns hlen hcfg]
  simp only
  have hv : (if sg.isSome then 1 else 0) ≤ 127 := by split <;> omega
  have hcap : 0 < firstCap sg.isSome := by simp only [firstCap]; split <;> omega
  rw [split_cont ns _ sg data.length hns hv n (data.drop (firstCap sg.isSome))
    (by simp only [List.length_drop]; omega)]
  rw [chunks_fuel n (data.drop (firstCap sg.isSome)) data.length (by simp only [List.length_drop]; omega)
    (by simp only [List.length_drop]; omega)]
  simp only [expectedShares, List.map_cons, List.map_map]
  congr 2
  congr 1
  simp only [be32, be, List.append_assoc]
  simp

theorem chunks_length : ∀ (f : Nat) (d : Bytes), d.length ≤ f → (chunks482 f d).length = (d.length + 481) / 482 := by
  intro f
  induction f with
  | zero =>
    intro d h
    have : d = [] := List.eq_nil_of_length_eq_zero (by omega)
    subst this
    simp [chunks482]
  | succ f ih =>
    intro d h
    simp only [chunks482]
    by_cases he : d.isEmpty = true
    · have : d = [] := by cases d <;> simp_all
      subst this; simp
    · simp only [he, Bool.false_eq_true, ↓reduceIte, List.length_cons]
      have hne : d ≠ [] := by intro e; subst e; simp at he
      have hpos : 0 < d.length := List.length_pos_iff.2 hne
      rw [ih (d.drop 482) (by simp only [List.length_drop]; omega)]
      simp only [List.length_drop]
      omega

theorem expected_length (ns data : Bytes) (sg : Option Bytes) :
    (expectedShares ns data sg).length = sharesNeeded data.length sg.isSome := by
  simp only [expectedShares, List.length_cons, List.length_map]
  rw [chunks_length data.length _ (by simp only [List.length_drop]; omega)]
  simp only [List.length_drop, sharesNeeded]
  by_cases h : data.length ≤ firstCap sg.isSome
  · rw [if_pos h]; omega
  · rw [if_neg h]; omega

theorem sharesNeededForBlob_eq (len : Nat) (hs : Bool) : sharesNeededForBlob len hs = sharesNeeded len hs := by
  unfold sharesNeededForBlob sharesNeeded firstCap
  cases hs <;> simp only [FIRST_SPARSE_SHARE_CONTENT_SIZE, SIGNER_SIZE, CONTINUATION_SPARSE_SHARE_CONTENT_SIZE,
    Bool.false_eq_true, ↓reduceIte] <;> split <;> split <;> omega

/-! ### accessors of a share `ns ‖ info byte ‖ body` -/

theorem share_ns (ns body : Bytes) (ib : UInt8) (h29 : ns.length = 29) :
    (⟨ns ++ ib :: body, false⟩ : Share).ns = ns := by
  simp only [Share.ns, Bool.false_eq_true, ↓reduceIte, NS_SIZE]
  rw [← h29]; exact List.take_left

theorem share_ib (ns body : Bytes) (ib : UInt8) (h29 : ns.length = 29) :
    (⟨ns ++ ib :: body, false⟩ : Share).infoByte = some ib := by
  simp only [Share.infoByte, Bool.false_eq_true, ↓reduceIte, NS_SIZE, List.getD_eq_getElem?_getD]
  rw [← h29, List.getElem?_append_right (Nat.le_refl _)]
  simp

theorem share_drop (ns body : Bytes) (ib : UInt8) (h29 : ns.length = 29) (k : Nat) :
    (ns ++ ib :: body).drop (30 + k) = body.drop k := by
  have : 30 + k = ns.length + (1 + k) := by omega
  rw [this, List.drop_append]
  simp [Nat.add_comm 1 k]

theorem toNat_ofNat (n : Nat) : (UInt8.ofNat n).toNat = n % 256 := rfl

theorem ib_cont (v : Nat) (hv : v ≤ 127) :
    ibVersion (UInt8.ofNat (2 * v)) = v ∧ ibSeqStart (UInt8.ofNat (2 * v)) = false := by
  simp only [ibVersion, ibSeqStart, toNat_ofNat]
  refine ⟨by omega, ?_⟩
  simp only [beq_eq_false_iff_ne, ne_eq]; omega

theorem ib_first (v : Nat) (hv : v ≤ 127) :
    ibVersion (UInt8.ofNat (2 * v + 1)) = v ∧ ibSeqStart (UInt8.ofNat (2 * v + 1)) = true := by
  simp only [ibVersion, ibSeqStart, toNat_ofNat]
  refine ⟨by omega, ?_⟩
  simp only [beq_iff_eq]; omega

theorem mkCont_form (ns : Bytes) (ver : Nat) (c : Bytes) (h29 : ns.length = 29) (hc : c.length ≤ 482) :
    mkCont ns ver c = ⟨ns ++ UInt8.ofNat (2 * ver) :: (c ++ List.replicate (482 - c.length) 0), false⟩ := by
  simp only [mkCont, padTo512, List.append_assoc, List.length_append, List.length_cons, List.length_nil,
    List.singleton_append, h29, Share.mk.injEq, and_true]
  have e : 512 - (29 + (c.length + 1)) = 482 - c.length := by omega
  rw [e]
  simp

/-- one step of the reconstruction loop on a continuation share -/
theorem reconLoop_step (ns : Bytes) (ver : Nat) (c : Bytes) (n : Nat) (tail : List Share) (acc : Bytes)
    (h29 : ns.length = 29) (hv : ver ≤ 127) (hc : c.length ≤ 482) :
    reconLoop ns ver (n + 1) (mkCont ns ver c :: tail) acc =
      reconLoop ns ver n tail (acc ++ (c ++ List.replicate (482 - c.length) 0)) := by
  rw [mkCont_form ns ver c h29 hc]
  obtain ⟨hv1, hv2⟩ := ib_cont ver hv
  simp only [reconLoop, share_ns _ _ _ h29, ne_eq, not_true_eq_false, ↓reduceIte, share_ib _ _ _ h29,
    Share.payload, Share.sequenceLength, hv1, hv2, Bool.false_eq_true, Option.isSome_none]
  have := share_drop ns (c ++ List.replicate (482 - c.length) 0) (UInt8.ofNat (2 * ver)) h29 0
  simp only [Nat.add_zero, List.drop_zero] at this
  simp only [SEQ_LEN_OFFSET, NS_SIZE, SHARE_INFO_BYTES, this]

theorem take482_length (d : Bytes) : (d.take 482).length ≤ 482 := by
  simp only [List.length_take]; omega

/-- the loop over all continuation shares of `d` appends `d` and some zero padding -/
theorem reconLoop_chunks (ns : Bytes) (ver : Nat) (h29 : ns.length = 29) (hv : ver ≤ 127) :
    ∀ (f : Nat) (d : Bytes) (tail : List Share) (acc : Bytes), d.length ≤ f →
      ∃ m, reconLoop ns ver (chunks482 f d).length ((chunks482 f d).map (mkCont ns ver) ++ tail) acc =
        .ok (acc ++ d ++ List.replicate m 0, tail) := by
  intro f
  induction f with
  | zero =>
    intro d tail acc h
    have : d = [] := List.eq_nil_of_length_eq_zero (by omega)
    subst this
    exact ⟨0, by simp [chunks482, reconLoop]⟩
  | succ f ih =>
    intro d tail acc h
    simp only [chunks482]
    by_cases he : d.isEmpty = true
    · have : d = [] := by cases d <;> simp_all
      subst this
      exact ⟨0, by simp [reconLoop]⟩
    · simp only [he, Bool.false_eq_true, ↓reduceIte, List.length_cons, List.map_cons, List.cons_append]
      have hne : d ≠ [] := by intro e; subst e; simp at he
      have hpos : 0 < d.length := List.length_pos_iff.2 hne
      rw [reconLoop_step ns ver (d.take 482) _ _ acc h29 hv (take482_length d)]
      by_cases hbig : 482 ≤ d.length
      · have hl : (d.take 482).length = 482 := by simp only [List.length_take]; omega
        obtain ⟨m, hm⟩ := ih (d.drop 482) tail (acc ++ (d.take 482 ++ List.replicate (482 - (d.take 482).length) 0))
          (by simp only [List.length_drop]; omega)
        refine ⟨m, ?_⟩
        rw [hm, hl]
        simp only [Nat.sub_self, List.replicate_zero, List.append_nil, List.append_assoc, List.take_append_drop]
      · have hd : d.drop 482 = [] := List.drop_of_length_le (by omega)
        have ht : d.take 482 = d := List.take_of_length_le (by omega)
        rw [hd, ht]
        have hc0 : chunks482 f [] = [] := by cases f <;> simp [chunks482]
        rw [hc0]
        exact ⟨482 - d.length, by simp [reconLoop]⟩

theorem ofBe_be32 (n : Nat) (h : n < 2 ^ 32) : ofBe (be32 n) = n := by
  simp only [ofBe, be32, List.foldl_cons, List.foldl_nil, toNat_ofNat]
  omega

theorem be32_length (n : Nat) : (be32 n).length = 4 := rfl

theorem nsIsReserved_eq (ns : Bytes) : nsIsReserved ns = isReserved ns := by
  have h := Lumina.Props.C14.isReserved_spec ns
  simp only [Lumina.Spec.C14.specIsReserved, beq_iff_eq] at h
  simp only [nsIsReserved, isReserved, h]

def mkShare (d : Bytes) : Share := ⟨d, false⟩

/-- the first share of a blob, in `ns ‖ info ‖ body` form -/
theorem first_form (ns data : Bytes) (sg : Option Bytes) (h29 : ns.length = 29)
    (hsg : ∀ s, sg = some s → s.length = 20) :
    padTo512 (ns ++ [UInt8.ofNat (2 * (if sg.isSome then 1 else 0) + 1)] ++ be32 data.length ++ sg.getD [] ++
        data.take (firstCap sg.isSome)) =
      ns ++ UInt8.ofNat (2 * (if sg.isSome then 1 else 0) + 1) ::
        (be32 data.length ++ (sg.getD [] ++ (data.take (firstCap sg.isSome) ++
          List.replicate (firstCap sg.isSome - (data.take (firstCap sg.isSome)).length) 0))) := by
  have hl : (sg.getD []).length + firstCap sg.isSome = 478 := by
    cases sg with
    | none => simp [firstCap]
    | some s => simp [firstCap, hsg s rfl]
  have ht : (data.take (firstCap sg.isSome)).length ≤ firstCap sg.isSome := by
    simp only [List.length_take]; omega
  simp only [padTo512, List.append_assoc, List.length_append, List.length_cons, List.length_nil,
    List.singleton_append, h29, be32_length]
  have e : 512 - (29 + (4 + 1 + ((sg.getD []).length + (data.take (firstCap sg.isSome)).length))) =
      firstCap sg.isSome - (data.take (firstCap sg.isSome)).length := by omega
  rw [e]
  simp

theorem blob_new_ok (ns data : Bytes) (sg : Option Bytes) (app : Nat)
    (hns : Lumina.Spec.C14.validRaw ns = true) (hne : data ≠ []) (hlen : data.length < 2 ^ 32)
    (hsg : ∀ s, sg = some s → s.length = 20 ∧ 3 ≤ app) :
    Blob.new ns data sg app = .ok ⟨ns, data, if sg.isSome then 1 else 0, sg⟩ := by
  unfold Blob.new
  cases sg with
  | none =>
    have := split_eq ns data none hns hne hlen (by intro s h; cases h)
    simp only [Option.isSome_none, Bool.false_eq_true, ↓reduceIte] at this
    simp [validateBlob, SHARE_VERSION_ZERO, SHARE_VERSION_ONE, this]
  | some s =>
    obtain ⟨h20, happ⟩ := hsg s rfl
    have := split_eq ns data (some s) hns hne hlen (by intro s' h; cases h; exact h20)
    simp only [Option.isSome_some, ↓reduceIte] at this
    have happ' : ¬ app < 3 := by omega
    simp [validateBlob, SHARE_VERSION_ZERO, SHARE_VERSION_ONE, this, happ']

theorem chunks_count (data : Bytes) (hs : Bool) :
    (chunks482 data.length (data.drop (firstCap hs))).length = sharesNeeded data.length hs - 1 := by
  rw [chunks_length data.length _ (by simp only [List.length_drop]; omega)]
  simp only [List.length_drop, sharesNeeded]
  by_cases h : data.length ≤ firstCap hs
  · rw [if_pos h]; omega
  · rw [if_neg h]; omega

theorem take_data (data : Bytes) (cap m : Nat) :
    (data.take cap ++ List.replicate (cap - (data.take cap).length) 0 ++ data.drop cap ++ List.replicate m 0).take
      data.length = data := by
  by_cases h : cap ≤ data.length
  · have hl : (data.take cap).length = cap := by simp only [List.length_take]; omega
    rw [hl, Nat.sub_self]
    simp only [List.replicate_zero, List.append_nil, List.take_append_drop]
    rw [List.take_append_of_le_length (Nat.le_refl _), List.take_length]
  · have ht : data.take cap = data := List.take_of_length_le (by omega)
    have hd : data.drop cap = [] := List.drop_of_length_le (by omega)
    rw [ht, hd]
    simp only [List.append_nil, List.append_assoc]
    rw [List.take_append_of_le_length (Nat.le_refl _), List.take_length]

theorem share_drop30 (ns body : Bytes) (ib : UInt8) (h29 : ns.length = 29) : (ns ++ ib :: body).drop 30 = body := by
  have := share_drop ns body ib h29 0; simpa using this
theorem share_drop34 (ns body : Bytes) (ib : UInt8) (h29 : ns.length = 29) : (ns ++ ib :: body).drop 34 = body.drop 4 :=
  share_drop ns body ib h29 4
theorem share_drop54 (ns body : Bytes) (ib : UInt8) (h29 : ns.length = 29) : (ns ++ ib :: body).drop 54 = body.drop 24 :=
  share_drop ns body ib h29 24

theorem reconstruct_split_none (ns data : Bytes) (app : Nat) (tail : List Share)
    (hns : Lumina.Spec.C14.validRaw ns = true) (hres : isReserved ns = false)
    (hne : data ≠ []) (hlen : data.length < 2 ^ 32) :
    reconstruct ((expectedShares ns data none).map mkShare ++ tail) app = .ok (⟨ns, data, 0, none⟩, tail) := by
  have h29 := validRaw_length ns hns
  obtain ⟨hib1, hib2⟩ := ib_first 0 (by omega)
  have hff := first_form ns data none h29 (by intro s h; cases h)
  simp only [Option.isSome_none, Bool.false_eq_true, ↓reduceIte, Option.getD_none, List.nil_append, List.append_nil] at hff
  simp only [expectedShares, List.map_cons, List.cons_append, List.map_map, Option.isSome_none,
    Bool.false_eq_true, ↓reduceIte, Option.getD_none, List.append_nil]
  have hcomp : (mkShare ∘ fun c => padTo512 (ns ++ [UInt8.ofNat (2 * 0)] ++ c)) = mkCont ns 0 := by funext c; rfl
  rw [hcomp, hff]
  simp only [mkShare, reconstruct, Share.sequenceLength, share_ib _ _ _ h29, hib2, ↓reduceIte, share_ns _ _ _ h29,
    nsIsReserved_eq, hres, Bool.false_eq_true, Share.payload, Share.signer, hib1,
    SEQ_LEN_OFFSET, SIGNER_OFFSET, NS_SIZE, SHARE_INFO_BYTES, SEQUENCE_LEN_BYTES, SIGNER_SIZE,
    SHARE_VERSION_ONE, SHARE_VERSION_ZERO, Nat.reduceAdd, share_drop30 _ _ _ h29, share_drop34 _ _ _ h29,
    Nat.zero_ne_one, beq_iff_eq, Bool.and_false, Option.isSome_none, sharesNeededForBlob_eq,
    List.take_left' (be32_length data.length), List.drop_left' (be32_length data.length), ofBe_be32 _ hlen]
  simp only [show ((0 : Nat) == 1) = false from rfl, Bool.and_false, Bool.false_eq_true, ↓reduceIte,
    Option.isSome_none]
  obtain ⟨m, hm⟩ := reconLoop_chunks ns 0 h29 (by omega) data.length (data.drop (firstCap false)) tail
    (data.take (firstCap false) ++ List.replicate (firstCap false - (data.take (firstCap false)).length) 0)
    (by simp only [List.length_drop]; omega)
  rw [chunks_count] at hm
  rw [hm]
  simp only
  rw [take_data]
  have := blob_new_ok ns data none app hns hne hlen (by intro s h; cases h)
  simp only [Option.isSome_none, Bool.false_eq_true, ↓reduceIte] at this
  rw [this]

theorem reconstruct_split_some (ns data s : Bytes) (app : Nat) (tail : List Share)
    (hns : Lumina.Spec.C14.validRaw ns = true) (hres : isReserved ns = false)
    (hne : data ≠ []) (hlen : data.length < 2 ^ 32) (h20 : s.length = 20) (happ : 3 ≤ app) :
    reconstruct ((expectedShares ns data (some s)).map mkShare ++ tail) app =
      .ok (⟨ns, data, 1, some s⟩, tail) := by
  have h29 := validRaw_length ns hns
  obtain ⟨hib1, hib2⟩ := ib_first 1 (by omega)
  have hff := first_form ns data (some s) h29 (by intro s' h; cases h; exact h20)
  simp only [Option.isSome_some, ↓reduceIte, Option.getD_some] at hff
  simp only [expectedShares, List.map_cons, List.cons_append, List.map_map, Option.isSome_some,
    ↓reduceIte, Option.getD_some]
  have hcomp : (mkShare ∘ fun c => padTo512 (ns ++ [UInt8.ofNat (2 * 1)] ++ c)) = mkCont ns 1 := by funext c; rfl
  rw [hcomp, hff]
  have hd24 : (be32 data.length ++ (s ++ (data.take (firstCap true) ++
      List.replicate (firstCap true - (data.take (firstCap true)).length) 0))).drop 24 =
      data.take (firstCap true) ++ List.replicate (firstCap true - (data.take (firstCap true)).length) 0 := by
    rw [← List.append_assoc]
    exact List.drop_left' (by simp [be32_length, h20])
  have ht20 : (s ++ (data.take (firstCap true) ++
      List.replicate (firstCap true - (data.take (firstCap true)).length) 0)).take 20 = s :=
    List.take_left' h20
  simp only [mkShare, reconstruct, Share.sequenceLength, share_ib _ _ _ h29, hib2, ↓reduceIte, share_ns _ _ _ h29,
    nsIsReserved_eq, hres, Bool.false_eq_true, Share.payload, Share.signer, hib1,
    SEQ_LEN_OFFSET, SIGNER_OFFSET, NS_SIZE, SHARE_INFO_BYTES, SEQUENCE_LEN_BYTES, SIGNER_SIZE,
    SHARE_VERSION_ONE, SHARE_VERSION_ZERO, Nat.reduceAdd, share_drop30 _ _ _ h29, share_drop34 _ _ _ h29,
    share_drop54 _ _ _ h29, beq_self_eq_true, Bool.and_true, Option.isSome_some, sharesNeededForBlob_eq,
    List.take_left' (be32_length data.length), List.drop_left' (be32_length data.length), ofBe_be32 _ hlen,
    hd24, ht20, Nat.succ_ne_zero]
  obtain ⟨m, hm⟩ := reconLoop_chunks ns 1 h29 (by omega) data.length (data.drop (firstCap true)) tail
    (data.take (firstCap true) ++ List.replicate (firstCap true - (data.take (firstCap true)).length) 0)
    (by simp only [List.length_drop]; omega)
  rw [chunks_count] at hm
  rw [hm]
  simp only
  rw [take_data]
  have := blob_new_ok ns data (some s) app hns hne hlen (by intro s' h; cases h; exact ⟨h20, happ⟩)
  simp only [Option.isSome_some, ↓reduceIte] at this
  simp [this]

/-- unpacking of the spec's scope predicate -/
theorem inScope_unpack (ns data : Bytes) (sg : Option Bytes) (app : Nat) (h : inScope ns data sg app = true) :
    Lumina.Spec.C14.validRaw ns = true ∧ isReserved ns = false ∧ data ≠ [] ∧ data.length < 2 ^ 32 ∧
    (∀ s, sg = some s → s.length = 20 ∧ 3 ≤ app) := by
  simp only [inScope, Bool.and_eq_true, Bool.not_eq_true', decide_eq_true_eq] at h
  obtain ⟨⟨⟨⟨h1, h2⟩, h3⟩, h4⟩, h5⟩ := h
  refine ⟨h3, h4, ?_, h2, ?_⟩
  · intro e; subst e; simp at h1
  · intro s hs
    subst hs
    simp only [Bool.and_eq_true, beq_iff_eq, decide_eq_true_eq] at h5
    exact h5

def blobOf (b : BlobObs) : Blob := ⟨b.1, b.2.1, if b.2.2.isSome then 1 else 0, b.2.2⟩

theorem reconstruct_scope (b : BlobObs) (app : Nat) (tail : List Share) (h : inScope b.1 b.2.1 b.2.2 app = true) :
    reconstruct ((expectedShares b.1 b.2.1 b.2.2).map mkShare ++ tail) app = .ok (blobOf b, tail) := by
  obtain ⟨ns, data, sg⟩ := b
  obtain ⟨h1, h2, h3, h4, h5⟩ := inScope_unpack ns data sg app h
  cases sg with
  | none => exact reconstruct_split_none ns data app tail h1 h2 h3 h4
  | some s => exact reconstruct_split_some ns data s app tail h1 h2 h3 h4 (h5 s rfl).1 (h5 s rfl).2

theorem reconstruct_ok_start (s : Share) (r : List Share) (app : Nat) (x : Blob × List Share)
    (h : reconstruct (s :: r) app = .ok x) : s.sequenceLength.isNone = false := by
  cases hs : s.sequenceLength with
  | none => simp [reconstruct, hs] at h
  | some n => rfl

theorem expected_cons (ns data : Bytes) (sg : Option Bytes) :
    ∃ f r, (expectedShares ns data sg).map mkShare = f :: r := by
  simp only [expectedShares, List.map_cons]
  exact ⟨_, _, rfl⟩

theorem reconAll_concat (app : Nat) : ∀ (bs : List BlobObs) (fuel : Nat), bs.length ≤ fuel →
    (∀ b ∈ bs, inScope b.1 b.2.1 b.2.2 app = true) →
    reconAllLoop app fuel ((bs.map (fun b => (expectedShares b.1 b.2.1 b.2.2).map mkShare)).flatten) =
      .ok (bs.map blobOf) := by
  intro bs
  induction bs with
  | nil =>
    intro fuel _ _
    cases fuel <;> simp [reconAllLoop]
  | cons b bs ih =>
    intro fuel hf hs
    obtain ⟨fuel', rfl⟩ : ∃ f', fuel = f' + 1 := ⟨fuel - 1, by simp at hf; omega⟩
    simp only [List.map_cons, List.flatten_cons, reconAllLoop]
    have hrec := reconstruct_scope b app ((bs.map (fun b => (expectedShares b.1 b.2.1 b.2.2).map mkShare)).flatten)
      (hs b (by simp))
    obtain ⟨f, r, hfr⟩ := expected_cons b.1 b.2.1 b.2.2
    rw [hfr] at hrec ⊢
    simp only [List.cons_append] at hrec ⊢
    have hstart := reconstruct_ok_start _ _ _ _ hrec
    rw [List.dropWhile_cons_of_neg (by simp [hstart])]
    simp only [hrec]
    rw [ih fuel' (by simp at hf; omega) (fun b' hb' => hs b' (by simp [hb']))]

/-- **reconstructing all blobs from their concatenated shares interleaved with reserved-namespace
    shares returns them in order** -/
theorem reconstructAll_of_filter (app : Nat) (bs : List BlobObs) (L : List Share)
    (hs : ∀ b ∈ bs, inScope b.1 b.2.1 b.2.2 app = true)
    (hL : L.filter (fun s => !nsIsReserved s.ns) =
      (bs.map (fun b => (expectedShares b.1 b.2.1 b.2.2).map mkShare)).flatten) :
    reconstructAll L app = .ok (bs.map blobOf) := by
  unfold reconstructAll
  simp only
  rw [hL]
  apply reconAll_concat app bs _ _ hs
  -- every blob contributes at least one share
  have : ∀ (l : List BlobObs), l.length ≤ ((l.map (fun b => (expectedShares b.1 b.2.1 b.2.2).map mkShare)).flatten).length := by
    intro l
    induction l with
    | nil => simp
    | cons b l ih =>
      obtain ⟨f, r, hfr⟩ := expected_cons b.1 b.2.1 b.2.2
      simp only [List.map_cons, List.flatten_cons, List.length_append, List.length_cons, hfr]
      omega
  have := this bs
  omega

end Lumina.Proofs.C11

/-
  Multi-leaf range proofs, part 4: completeness of `ExtendedDataSquare::get_namespace_data` (C06).

  `getNamespaceData_complete`: on a square with a DAH (`Dah.ofEds` succeeded, i.e. every axis is namespace-ordered),
  shares of at least 29 bytes and width ≤ 65535 (`square_width: u16`), `get_namespace_data` never fails and
  `NamespaceData::verify` accepts what it returns.  No hypothesis on the hash.
-/
import Lumina.Proofs.NmtMultiNs
import Lumina.Proofs.NsData

namespace Lumina.Proofs.NmtMulti
open Lumina.Util Lumina.Model.Nmt Lumina.Model.Eds Lumina.Model.NsData
open Lumina.Proofs.Nmt Lumina.Proofs.NmtRange Lumina.Proofs.Eds Lumina.Proofs.Sample Lumina.Proofs.NsData

/-- one covered row: the proof is produced and `RowNamespaceData::verify` accepts the row's scan -/
theorem row_complete {H : HashFn} {e : Eds} {dah : Dah} (hd : Dah.ofEds H e = .ok dah)
    (hsz : ∀ sh ∈ e.shares, NS_SIZE ≤ sh.data.length) (hw : e.width ≤ 65535) {ns : Bytes} (hns : ns.length = NS_SIZE)
    {row : Nat} (hrow : row < e.width) (hc : dah.rowContains? H row ns = some true) :
    ∃ shares hs proof, e.axis? .row row = some shares ∧ pushLeaves H (shares.map Share.leaf) = some hs ∧
      getNamespaceProof H true (shares.map Share.leaf) ns = .ok proof ∧
      rowVerify H ⟨proof, scanRow ns shares⟩ ns row dah = .ok () := by
  obtain ⟨shares, root, hax, hroot?, hne, hcr, al, hs, hmem⟩ := row_facts hd hsz hrow
  obtain ⟨_, _, hrows, _⟩ := dah_ofEds_roots hd
  obtain ⟨root', hroot', hget⟩ := hrows row hrow
  obtain ⟨shares', hax', _, halh⟩ := axisRoot_ok hroot'
  rw [hax] at hax'
  injection hax' with hax'
  subst hax'
  have hpush : pushLeaves H (shares.map Share.leaf) = some (shares.map (Share.leafHash H)) := by
    unfold Eds.axisLeafHashes at halh
    simp only [hax] at halh
    cases hp : pushLeaves H (shares.map Share.leaf) with
    | none => simp [hp] at halh
    | some v => simp only [hp, Except.ok.injEq] at halh; rw [halh]
  have hsort : SortedBy Share.ns shares := by
    unfold SortedBy; rw [List.pairwise_map]
    unfold SortedNs at hs; rw [List.pairwise_map] at hs
    exact hs
  have hnsl : ∀ sh ∈ shares, sh.ns.length = NS_SIZE := fun sh hsh => share_ns_length (hsz sh (hmem sh hsh))
  have hlen : shares.length ≤ 2 ^ 31 := by
    have := (axis?_some hax).1
    omega
  have hcont : root.contains H ns = true := by
    unfold Dah.rowContains? at hc
    rw [hroot?] at hc
    simpa using hc
  obtain ⟨proof, hgp, habs, hv⟩ := getNamespaceProof_verifies hlen hsort hnsl hcr hcont hns
  refine ⟨shares, _, proof, hax, hpush, hgp, ?_⟩
  have hscan : scanRow ns shares = shares.filter (fun sh => sh.ns == ns) := scanRow_eq_filter ns shares hsort
  unfold rowVerify
  simp only [hscan, hroot?, hv]
  have : ((shares.filter (fun sh => sh.ns == ns)).isEmpty && !proof.isAbsence ||
      !(shares.filter (fun sh => sh.ns == ns)).isEmpty && proof.isAbsence) = false := by
    rw [habs]; cases proof.isAbsence <;> rfl
  simp [this]

theorem getNamespaceDataAux_complete {H : HashFn} {e : Eds} {dah : Dah} (hd : Dah.ofEds H e = .ok dah)
    (hsz : ∀ sh ∈ e.shares, NS_SIZE ≤ sh.data.length) (hw : e.width ≤ 65535) {ns : Bytes} (hns : ns.length = NS_SIZE) :
    ∀ (l : List Nat), (∀ r ∈ l, r < e.width) →
      ∃ rows, getNamespaceDataAux H e ns dah l = .ok rows ∧
        (rows.map Prod.snd).length = (l.filter (fun r => (dah.rowContains? H r ns).getD false)).length ∧
        verifyRows H ns dah (rows.map Prod.snd) (l.filter (fun r => (dah.rowContains? H r ns).getD false)) = .ok () := by
  intro l
  induction l with
  | nil => intro _; exact ⟨[], rfl, rfl, rfl⟩
  | cons r t ih =>
    intro hl
    obtain ⟨more, hmore, hlen, hver⟩ := ih (fun x hx => hl x (by simp [hx]))
    have hr : r < e.width := hl r (by simp)
    obtain ⟨_, root, _, hroot?, _⟩ := row_facts hd hsz hr
    have hrc : dah.rowContains? H r ns = some (root.contains H ns) := by
      unfold Dah.rowContains?; rw [hroot?]; rfl
    unfold getNamespaceDataAux
    by_cases hc : root.contains H ns = true
    · rw [hc] at hrc
      obtain ⟨shares, hs, proof, hax, hpush, hgp, hrv⟩ := row_complete hd hsz hw hns hr hrc
      simp only [hrc, hax, hpush, hgp, hmore]
      refine ⟨_, rfl, ?_, ?_⟩
      · simp only [List.map_cons, List.length_cons, List.filter_cons, hrc, Option.getD_some, ↓reduceIte, hlen]
      · simp only [List.map_cons, List.filter_cons, hrc, Option.getD_some, ↓reduceIte]
        unfold verifyRows
        rw [hrv]
        exact hver
    · have hc' : root.contains H ns = false := by simpa using hc
      rw [hc'] at hrc
      simp only [hrc]
      refine ⟨more, hmore, ?_, ?_⟩
      · simp only [List.filter_cons, hrc, Option.getD_some, Bool.false_eq_true, ↓reduceIte, hlen]
      · simp only [List.filter_cons, hrc, Option.getD_some, Bool.false_eq_true, ↓reduceIte]
        exact hver

/-- **`get_namespace_data` never fails and its output verifies** -/
theorem getNamespaceData_complete {H : HashFn} {e : Eds} {dah : Dah} (hd : Dah.ofEds H e = .ok dah)
    (hsz : ∀ sh ∈ e.shares, NS_SIZE ≤ sh.data.length) (hw : e.width ≤ 65535) {ns : Bytes} (hns : ns.length = NS_SIZE) :
    ∃ rows, getNamespaceData H e ns dah = .ok rows ∧ verify H (rows.map Prod.snd) ns dah = .ok () := by
  obtain ⟨rows, hget, hlen, hver⟩ := getNamespaceDataAux_complete hd hsz hw hns (List.range e.width)
    (fun r hr => List.mem_range.mp hr)
  refine ⟨rows, hget, ?_⟩
  obtain ⟨hrl, _, _, _⟩ := dah_ofEds_roots hd
  have hfl : (List.filter (fun r => (dah.rowContains? H r ns).getD false) (List.range e.width)).length ≤ e.width := by
    have := List.length_filter_le (fun r => (dah.rowContains? H r ns).getD false) (List.range e.width)
    simpa using this
  unfold Lumina.Model.NsData.verify
  have c1 : ¬ ((rows.map Prod.snd).length > U16_MAX) := by rw [hlen]; simp [U16_MAX]; omega
  have c2 : ¬ (dah.rowRoots.length > U16_MAX) := by rw [hrl]; simp [U16_MAX]; omega
  rw [if_neg c1, if_neg c2]
  simp only [hrl]
  rw [if_neg (by rw [hlen]; simp)]
  exact hver

end Lumina.Proofs.NmtMulti

/-
  Lemmas for C12: power-of-two rounding loops = `log2` closed forms, merkle-mountain-range sizes
  (model = spec; sum, powers of two, chain rule), subtree width (incl. ⌈√n⌉ via `Nat.sqrt`), the NMT
  root of a single-namespace leaf set (group D's `computeRoot` = the spec's tree), and the commitment.
-/
import Lumina.Proofs.C13
import Mathlib.Data.Nat.Sqrt
import Lumina.Proofs.Nmt
import Lumina.Proofs.C11
import Lumina.Model.Commitment
import Lumina.Spec.C12
open Lumina.Util Lumina.Model.Commitment Lumina.Spec.C12

namespace Lumina.Proofs.C12

theorem pow_pos' (j : Nat) : 0 < 2 ^ j := Nat.pow_pos (by decide)

/-- a power of two "just above" x is the spec's next power of two -/
theorem nextPow2_of_bounds (x j : Nat) (h1 : x ≤ 2 ^ j) (h2 : j = 0 ∨ 2 ^ (j - 1) < x) : nextPow2 x = 2 ^ j := by
  unfold nextPow2
  by_cases hx : x ≤ 1
  · rw [if_pos hx]
    rcases h2 with h | h
    · subst h; rfl
    · have := pow_pos' (j - 1); omega
  · rw [if_neg hx]
    rcases h2 with h | h
    · subst h; simp at h1; omega
    · have hj : 1 ≤ j := by
        rcases Nat.eq_zero_or_pos j with h0 | h0
        · subst h0; simp at h1; omega
        · exact h0
      have e : j - 1 + 1 = j := by omega
      have := Lumina.Proofs.C13.log2_unique x (j - 1) h (by rw [e]; exact h1)
      rw [this, e]

theorem roundUpGo_eq (x : Nat) : ∀ (f j : Nat), x ≤ 2 ^ (j + f) → (j = 0 ∨ 2 ^ (j - 1) < x) →
    roundUpGo x f (2 ^ j) = nextPow2 x := by
  intro f
  induction f with
  | zero =>
    intro j h1 h2
    simp only [roundUpGo]
    exact (nextPow2_of_bounds x j (by simpa using h1) h2).symm
  | succ f ih =>
    intro j h1 h2
    simp only [roundUpGo]
    by_cases h : 2 ^ j ≥ x
    · rw [if_pos h]
      exact (nextPow2_of_bounds x j h h2).symm
    · rw [if_neg h]
      have e : 2 ^ j * 2 = 2 ^ (j + 1) := by rw [Nat.pow_succ]
      rw [e]
      apply ih (j + 1)
      · have : j + 1 + f = j + (f + 1) := by omega
        rw [this]; exact h1
      · right; simp only [Nat.add_sub_cancel]; omega

/-- `round_up_to_power_of_2` is the next power of two, for every `x ≤ 2^64` -/
theorem roundUp_eq (x : Nat) (hx : x ≤ 2 ^ 64) : roundUpToPowerOf2 x = nextPow2 x := by
  unfold roundUpToPowerOf2
  have := roundUpGo_eq x 64 0 (by simpa using hx) (Or.inl rfl)
  simpa using this

theorem nextPow2_ge (x : Nat) : x ≤ nextPow2 x := by
  unfold nextPow2
  by_cases hx : x ≤ 1
  · rw [if_pos hx]; exact hx
  · rw [if_neg hx]
    have := @Nat.lt_log2_self (x - 1)
    omega

theorem nextPow2_isPow (x : Nat) : ∃ k, nextPow2 x = 2 ^ k := by
  unfold nextPow2
  by_cases hx : x ≤ 1
  · exact ⟨0, by rw [if_pos hx]⟩
  · exact ⟨_, by rw [if_neg hx]⟩

theorem prevPow2_le (x : Nat) (hx : 1 ≤ x) : prevPow2 x ≤ x := Nat.log2_self_le (by omega)

theorem lt_two_prevPow2 (x : Nat) : x < 2 * prevPow2 x := by
  have := @Nat.lt_log2_self x
  rw [Nat.pow_succ] at this
  unfold prevPow2; omega

/-- `round_down_to_power_of_2` is the largest power of two below or at `x` (1 ≤ x ≤ 2^64) -/
theorem roundDown_eq (x : Nat) (h1 : 1 ≤ x) (hx : x ≤ 2 ^ 64) : roundDownToPowerOf2 x = prevPow2 x := by
  unfold roundDownToPowerOf2
  simp only [roundUp_eq x hx]
  obtain ⟨k, hk⟩ := nextPow2_isPow x
  by_cases he : nextPow2 x = x
  · rw [if_pos he]
    unfold prevPow2
    have : x = 2 ^ k := by rw [← he, hk]
    rw [this, Nat.log2_two_pow]
  · rw [if_neg he]
    have hge := nextPow2_ge x
    have hlt : x < nextPow2 x := by omega
    -- x ≥ 2 here (nextPow2 1 = 1)
    have hx2 : ¬ x ≤ 1 := by
      intro h
      have : x = 1 := by omega
      subst this
      exact he rfl
    unfold nextPow2 at hlt ⊢
    rw [if_neg hx2] at hlt ⊢
    rw [Nat.pow_succ, Nat.mul_div_cancel _ (by decide : 0 < 2)]
    unfold prevPow2
    congr 1
    -- log2 (x - 1) = log2 x  since  2^L ≤ x - 1 < x < 2^(L+1)
    have hL := @Nat.log2_self_le (x - 1) (by omega)
    have a : (x - 1).log2 ≤ x.log2 := (Nat.le_log2 (by omega)).2 (by omega)
    have b : x.log2 < (x - 1).log2 + 1 := (Nat.log2_lt (by omega)).2 hlt
    omega

/-- model loop = spec loop (total below 2^64, i.e. any `u64`) -/
theorem mmrGo_eq (w : Nat) : ∀ (f n : Nat), n ≤ 2 ^ 64 → mmrGo w f n = mmrSizes w f n := by
  intro f
  induction f with
  | zero => intro n _; rfl
  | succ f ih =>
    intro n hn
    simp only [mmrGo, mmrSizes]
    by_cases h0 : n = 0
    · simp [h0]
    · simp only [h0, ↓reduceIte]
      by_cases hw : n ≥ w
      · have hw' : w ≤ n := hw
        simp only [hw, hw', ↓reduceIte]
        rw [ih (n - w) (by omega)]
      · have hw' : ¬ w ≤ n := hw
        simp only [hw, hw', ↓reduceIte]
        rw [roundDown_eq n (by omega) hn, ih (n - prevPow2 n) (by omega)]

theorem mmr_eq_spec (n w : Nat) (hn : n ≤ 2 ^ 64) : merkleMountainRangeSizes n w = mmrSizes w n n :=
  mmrGo_eq w n n hn

theorem prevPow2_pos (x : Nat) : 0 < prevPow2 x := pow_pos' _

theorem mmr_sum (w : Nat) (hw : 1 ≤ w) : ∀ (f n : Nat), n ≤ f → (mmrSizes w f n).sum = n := by
  intro f
  induction f with
  | zero => intro n h; have : n = 0 := by omega
            subst this; rfl
  | succ f ih =>
    intro n h
    simp only [mmrSizes]
    by_cases h0 : n = 0
    · simp [h0]
    · simp only [h0, ↓reduceIte, List.sum_cons]
      by_cases hwn : w ≤ n
      · simp only [hwn, ↓reduceIte]
        rw [ih (n - w) (by omega)]; omega
      · simp only [hwn, ↓reduceIte]
        have h1 := prevPow2_le n (by omega)
        have h2 := prevPow2_pos n
        rw [ih (n - prevPow2 n) (by omega)]; omega

theorem isPow2_pow (k : Nat) : isPow2 (2 ^ k) = true := by
  have hp := pow_pos' k
  simp only [isPow2, Bool.and_eq_true, bne_iff_ne, ne_eq, beq_iff_eq]
  refine ⟨by omega, ?_⟩
  apply nextPow2_of_bounds (2 ^ k) k (Nat.le_refl _)
  rcases Nat.eq_zero_or_pos k with h | h
  · exact Or.inl h
  · right
    have : 2 ^ (k - 1) < 2 ^ (k - 1 + 1) := by rw [Nat.pow_succ]; have := pow_pos' (k - 1); omega
    have e : k - 1 + 1 = k := by omega
    rw [e] at this; exact this

theorem mmr_all (w k : Nat) (hw : w = 2 ^ k) : ∀ (f n : Nat),
    (mmrSizes w f n).all (fun s => isPow2 s && decide (s ≤ w)) = true := by
  intro f
  induction f with
  | zero => intro n; rfl
  | succ f ih =>
    intro n
    simp only [mmrSizes]
    by_cases h0 : n = 0
    · simp [h0]
    · simp only [h0, ↓reduceIte, List.all_cons, Bool.and_eq_true, decide_eq_true_eq]
      by_cases hwn : w ≤ n
      · simp only [hwn, ↓reduceIte]
        refine ⟨⟨by rw [hw]; exact isPow2_pow k, Nat.le_refl _⟩, ih _⟩
      · simp only [hwn, ↓reduceIte]
        have h1 := prevPow2_le n (by omega)
        refine ⟨⟨isPow2_pow _, by omega⟩, ih _⟩

/-- head of the next round is bounded as the chain rule demands -/
theorem mmr_chain (w : Nat) (hw : 1 ≤ w) : ∀ (f n : Nat), chainOk w (mmrSizes w f n) = true := by
  intro f
  induction f with
  | zero => intro n; rfl
  | succ f ih =>
    intro n
    have hrec := ih
    simp only [mmrSizes]
    by_cases h0 : n = 0
    · simp [h0, chainOk]
    · simp only [h0, ↓reduceIte]
      -- the tail, one more step unfolded
      cases f with
      | zero => simp [mmrSizes, chainOk]
      | succ f =>
        by_cases hwn : w ≤ n
        · simp only [hwn, ↓reduceIte]
          have ht := hrec (n - w)
          simp only [mmrSizes] at ht ⊢
          by_cases h1 : n - w = 0
          · simp [h1, chainOk]
          · simp only [h1, ↓reduceIte] at ht ⊢
            simp only [chainOk, Bool.and_eq_true, decide_eq_true_eq, Bool.or_eq_true, ht, and_true]
            by_cases hw2 : w ≤ n - w
            · simp [hw2]
            · simp only [hw2, ↓reduceIte]
              have := prevPow2_le (n - w) (by omega)
              exact ⟨by omega, Or.inl trivial⟩
        · simp only [hwn, ↓reduceIte]
          have ht := hrec (n - prevPow2 n)
          simp only [mmrSizes] at ht ⊢
          by_cases h1 : n - prevPow2 n = 0
          · simp [h1, chainOk]
          · simp only [h1, ↓reduceIte] at ht ⊢
            have hp := prevPow2_le n (by omega)
            have hp2 := lt_two_prevPow2 n
            have hw2 : ¬ w ≤ n - prevPow2 n := by omega
            simp only [hw2, ↓reduceIte] at ht ⊢
            have := prevPow2_le (n - prevPow2 n) (by omega)
            simp only [chainOk, Bool.and_eq_true, decide_eq_true_eq, Bool.or_eq_true, ht, and_true]
            exact ⟨by omega, Or.inr (by omega)⟩

/-- the model's ⌈√n⌉ (via `Nat.sqrt`) has the defining property of the least root -/
theorem ceilSqrt_props (n : Nat) :
    n ≤ Lumina.Model.Commitment.ceilSqrt n * Lumina.Model.Commitment.ceilSqrt n ∧
    ∀ j, j < Lumina.Model.Commitment.ceilSqrt n → j * j < n := by
  have h1 : Nat.sqrt n * Nat.sqrt n ≤ n := Nat.sqrt_le n
  have h2 : n < (Nat.sqrt n + 1) * (Nat.sqrt n + 1) := Nat.lt_succ_sqrt n
  unfold Lumina.Model.Commitment.ceilSqrt
  simp only
  by_cases he : Nat.sqrt n * Nat.sqrt n = n
  · rw [if_pos he]
    refine ⟨by omega, fun j hj => ?_⟩
    have := Nat.mul_self_lt_mul_self hj
    omega
  · rw [if_neg he]
    refine ⟨by omega, fun j hj => ?_⟩
    have hj' : j ≤ Nat.sqrt n := by omega
    have := Nat.mul_self_le_mul_self hj'
    omega

theorem ceilSqrtGo_eq (n c : Nat) (h1 : n ≤ c * c) (h2 : ∀ j, j < c → j * j < n) :
    ∀ (f s : Nat), s ≤ c → c - s ≤ f → ceilSqrtGo n f s = c := by
  intro f
  induction f with
  | zero => intro s hs hf; simp only [ceilSqrtGo]; omega
  | succ f ih =>
    intro s hs hf
    simp only [ceilSqrtGo]
    by_cases h : n ≤ s * s
    · rw [if_pos h]
      rcases Nat.lt_or_ge s c with hlt | hge
      · have := h2 s hlt; omega
      · omega
    · rw [if_neg h]
      have hne : s ≠ c := by intro e; subst e; exact h h1
      exact ih (s + 1) (by omega) (by omega)

theorem ceilSqrt_eq (n : Nat) : Lumina.Model.Commitment.ceilSqrt n = Lumina.Spec.C12.ceilSqrt n := by
  obtain ⟨h1, h2⟩ := ceilSqrt_props n
  have hle : Lumina.Model.Commitment.ceilSqrt n ≤ n + 1 := by
    unfold Lumina.Model.Commitment.ceilSqrt
    simp only
    have := Nat.sqrt_le_self n
    split <;> omega
  exact (ceilSqrtGo_eq n _ h1 h2 (n + 1) 0 (Nat.zero_le _) (by omega)).symm

theorem ceilSqrt_le (n : Nat) : Lumina.Model.Commitment.ceilSqrt n ≤ n + 1 := by
  unfold Lumina.Model.Commitment.ceilSqrt
  simp only
  have := Nat.sqrt_le_self n
  split <;> omega

/-- **subtree width**: the model of `subtree_width` is ADR-013's
    `min (nextPow2 ⌈n / threshold⌉) (nextPow2 ⌈√n⌉)` for every share count below 2^63 -/
theorem subtreeWidth_eq (n th : Nat) (hn : n < 2 ^ 63) :
    Lumina.Model.Commitment.subtreeWidth n th = Lumina.Spec.C12.subtreeWidth n th := by
  unfold Lumina.Model.Commitment.subtreeWidth Lumina.Spec.C12.subtreeWidth blobMinSquareSize ceilDiv
  simp only
  have hdiv : n / th ≤ n := Nat.div_le_self n th
  have hcs := ceilSqrt_le n
  rw [roundUp_eq (Lumina.Model.Commitment.ceilSqrt n) (by omega), ceilSqrt_eq]
  by_cases hm : n % th = 0
  · simp only [hm, ne_eq, not_true_eq_false, ↓reduceIte]
    rw [roundUp_eq _ (by omega)]
  · simp only [hm, ne_eq, not_false_eq_true, ↓reduceIte]
    rw [roundUp_eq _ (by omega)]

theorem subtreeWidth_pow2 (n th : Nat) : ∃ k, Lumina.Spec.C12.subtreeWidth n th = 2 ^ k := by
  unfold Lumina.Spec.C12.subtreeWidth
  obtain ⟨a, ha⟩ := nextPow2_isPow (ceilDiv n th)
  obtain ⟨b, hb⟩ := nextPow2_isPow (Lumina.Spec.C12.ceilSqrt n)
  rw [ha, hb]
  rcases Nat.le_total (2 ^ a) (2 ^ b) with h | h
  · exact ⟨a, Nat.min_eq_left h⟩
  · exact ⟨b, Nat.min_eq_right h⟩

open Lumina.Model.Nmt (NsHash hashLeaf hashNodes computeRootAux computeRoot nextSmallerPo2 ltB leB minB maxB maxNsId)

theorem nextSmallerPo2_eq (n : Nat) (h : 2 ≤ n) : nextSmallerPo2 n = Lumina.Spec.C13.largestPow2Below n := by
  obtain ⟨m, h1, h2, h3⟩ := Lumina.Proofs.Nmt.nextSmallerPo2_spec n h
  rw [h1, Lumina.Proofs.C13.largestPow2Below_eq n h, Lumina.Model.Merkle.splitPoint_eq n h,
    Lumina.Proofs.C13.log2_unique n m h2 h3]

/-- hashing two nodes that both cover exactly [ns, ns] gives a node covering [ns, ns] -/
theorem hashNodes_uniform (h : Lumina.Model.Nmt.HashFn) (ns a b : Bytes) :
    hashNodes h true ⟨ns, ns, a⟩ ⟨ns, ns, b⟩ = .ok ⟨ns, ns, h (1 :: (ns ++ ns ++ a ++ (ns ++ ns ++ b)))⟩ := by
  have hirr := Lumina.Proofs.Nmt.ltB_irrefl ns
  have hle : leB ns ns = true := by simp [leB, hirr]
  unfold hashNodes
  simp only [hirr, Bool.false_eq_true, ↓reduceIte, minB, maxB, hle, Bool.true_and, NsHash.toBytes,
    Lumina.Model.Nmt.NODE_PREFIX]
  by_cases hm : (ns == maxNsId) = true
  · have : ns = maxNsId := by simpa using hm
    simp [hm, ← this]
  · simp [hm]

theorem computeRootAux_two (h : Lumina.Model.Nmt.HashFn) (F : Nat) (ls : List NsHash) (h2 : 2 ≤ ls.length)
    (l r : NsHash) (hl : computeRootAux h true F (ls.take (nextSmallerPo2 ls.length)) = .ok l)
    (hr : computeRootAux h true F (ls.drop (nextSmallerPo2 ls.length)) = .ok r) :
    computeRootAux h true (F + 1) ls = hashNodes h true l r := by
  match ls, h2, hl, hr with
  | a :: b :: rest, _, hl, hr =>
    rw [computeRootAux]
    · simp only [hl, hr]
    · simp
    · simp

theorem nmtHash_two (h : Lumina.Model.Nmt.HashFn) (ns : Bytes) (g : Nat) (l : List Bytes) (h2 : 2 ≤ l.length) :
    nmtHash h ns (g + 1) l =
      h (1 :: (ns ++ ns ++ nmtHash h ns g (l.take (Lumina.Spec.C13.largestPow2Below l.length)) ++
        (ns ++ ns ++ nmtHash h ns g (l.drop (Lumina.Spec.C13.largestPow2Below l.length))))) := by
  match l, h2 with
  | a :: b :: rest, _ =>
    rw [nmtHash]
    · simp
    · simp

theorem nmtHash_one (h : Lumina.Model.Nmt.HashFn) (ns : Bytes) (g : Nat) (x : Bytes) :
    nmtHash h ns g [x] = h (0 :: (ns ++ x)) := by
  cases g <;> simp [nmtHash]

/-- the NMT root of leaves pushed under one namespace, as computed by nmt-rs (group D's model), is
    the single-namespace tree of the spec -/
theorem computeRootAux_uniform (h : Lumina.Model.Nmt.HashFn) (ns : Bytes) :
    ∀ (F : Nat) (leaves : List Bytes) (g : Nat), 1 ≤ leaves.length → leaves.length ≤ F → leaves.length ≤ g →
      computeRootAux h true F (leaves.map (hashLeaf h ns)) = .ok ⟨ns, ns, nmtHash h ns g leaves⟩ := by
  intro F
  induction F with
  | zero => intro leaves g h1 h2 _; omega
  | succ F ih =>
    intro leaves g h1 h2 h3
    by_cases hlen : 2 ≤ leaves.length
    · obtain ⟨g', rfl⟩ : ∃ g', g = g' + 1 := ⟨g - 1, by omega⟩
      have hk := nextSmallerPo2_eq _ hlen
      have hk1 := Lumina.Model.Merkle.splitPoint_lt _ hlen
      have hk0 := Lumina.Model.Merkle.splitPoint_pos _ hlen
      have hkk := Lumina.Proofs.C13.largestPow2Below_eq _ hlen
      have e1 := ih (leaves.take (Lumina.Spec.C13.largestPow2Below leaves.length)) g'
            (by simp only [List.length_take]; omega) (by simp only [List.length_take]; omega)
            (by simp only [List.length_take]; omega)
      have e2 := ih (leaves.drop (Lumina.Spec.C13.largestPow2Below leaves.length)) g'
            (by simp only [List.length_drop]; omega) (by simp only [List.length_drop]; omega)
            (by simp only [List.length_drop]; omega)
      have hl' : 2 ≤ (leaves.map (hashLeaf h ns)).length := by simpa using hlen
      have e1' : computeRootAux h true F ((leaves.map (hashLeaf h ns)).take
          (nextSmallerPo2 (leaves.map (hashLeaf h ns)).length)) =
          .ok ⟨ns, ns, nmtHash h ns g' (leaves.take (Lumina.Spec.C13.largestPow2Below leaves.length))⟩ := by
        rw [List.length_map, hk, ← List.map_take]; exact e1
      have e2' : computeRootAux h true F ((leaves.map (hashLeaf h ns)).drop
          (nextSmallerPo2 (leaves.map (hashLeaf h ns)).length)) =
          .ok ⟨ns, ns, nmtHash h ns g' (leaves.drop (Lumina.Spec.C13.largestPow2Below leaves.length))⟩ := by
        rw [List.length_map, hk, ← List.map_drop]; exact e2
      rw [computeRootAux_two h F _ hl' _ _ e1' e2', nmtHash_two h ns g' leaves hlen, hashNodes_uniform]
    · match leaves, h1, hlen with
      | [x], _, _ =>
        rw [nmtHash_one]
        simp [computeRootAux, hashLeaf, Lumina.Model.Nmt.LEAF_PREFIX]
      | _ :: _ :: _, _, hlen => simp at hlen

theorem subtreeRoot_eq (h : Lumina.Model.Nmt.HashFn) (ns : Bytes) (leaves : List Bytes) (h1 : 1 ≤ leaves.length) :
    Lumina.Model.Commitment.subtreeRoot h ns leaves = .ok (Lumina.Spec.C12.subtreeRoot h ns leaves) := by
  unfold Lumina.Model.Commitment.subtreeRoot computeRoot
  rw [List.length_map, computeRootAux_uniform h ns (leaves.length + 1) leaves leaves.length h1 (by omega) (Nat.le_refl _)]
  simp [Lumina.Spec.C12.subtreeRoot, NsHash.toBytes]

theorem splitBySizes_eq {α : Type} (sizes : List Nat) (l : List α) : splitBySizes sizes l = partition sizes l := by
  induction sizes generalizing l with
  | nil => rfl
  | cons s ss ih => simp [splitBySizes, partition, ih]

theorem subtreeRoots_eq (h : Lumina.Model.Nmt.HashFn) (ns : Bytes) :
    ∀ (sizes : List Nat) (l : List Bytes), (∀ s ∈ sizes, 1 ≤ s) → sizes.sum = l.length →
      subtreeRoots h ns (partition sizes l) = .ok ((partition sizes l).map (Lumina.Spec.C12.subtreeRoot h ns)) := by
  intro sizes
  induction sizes with
  | nil => intro l _ _; rfl
  | cons s ss ih =>
    intro l hs hsum
    simp only [List.sum_cons] at hsum
    have h1 : 1 ≤ s := hs s (by simp)
    have hlen : (l.take s).length = s := by simp only [List.length_take]; omega
    simp only [partition, subtreeRoots, List.map_cons]
    rw [subtreeRoot_eq h ns (l.take s) (by omega)]
    simp only
    rw [ih (l.drop s) (fun x hx => hs x (by simp [hx])) (by simp only [List.length_drop]; omega)]

theorem isPow2_pos (s : Nat) (h : isPow2 s = true) : 1 ≤ s := by
  simp only [isPow2, Bool.and_eq_true, bne_iff_ne, ne_eq] at h
  omega

/-- **the commitment of a share list**: the model of `Commitment::from_shares` (nmt-rs trees, tendermint
    merkle tree, the code's width / mountain-range arithmetic) equals ADR-013's value — every share
    list shorter than 2^63, every known app version, any hashes -/
theorem fromShares_eq {D : Type} (H : Lumina.Model.Merkle.HashFns D) (h : Lumina.Model.Nmt.HashFn) (ns : Bytes)
    (shares : List Bytes) (app : Nat) (happ : app ∈ [1, 2, 3, 4, 5, 6, 7]) (hlen : shares.length < 2 ^ 63) :
    fromShares H h ns shares app = .ok (commitment H h ns shares 64) := by
  have hth : subtreeRootThreshold app = some 64 := by
    have : ∀ a ∈ [1, 2, 3, 4, 5, 6, 7], subtreeRootThreshold a = some 64 := by decide
    exact this app happ
  unfold fromShares commitment
  simp only [hth]
  rw [subtreeWidth_eq _ _ hlen, mmr_eq_spec _ _ (by omega), splitBySizes_eq]
  obtain ⟨k, hk⟩ := subtreeWidth_pow2 shares.length 64
  have hw1 : 1 ≤ Lumina.Spec.C12.subtreeWidth shares.length 64 := by rw [hk]; exact pow_pos' k
  have hall := mmr_all _ k hk shares.length shares.length
  have hsum := mmr_sum _ hw1 shares.length shares.length (Nat.le_refl _)
  rw [subtreeRoots_eq h ns _ shares ?_ hsum]
  · simp only [Lumina.Proofs.C13.treeRoot_eq_root]
  · intro s hs
    simp only [List.all_eq_true, Bool.and_eq_true] at hall
    exact isPow2_pos s (hall s hs).1

end Lumina.Proofs.C12

/-
  `from_vec` (complete case analysis), set-level corollaries of `partitions`, and the lifting of
  the per-operation results to arbitrary operation sequences over a register machine.
  Core Lean only.
-/
import Lumina.Proofs.RangesTrunc

namespace Lumina.Proofs.Ranges
open Lumina.Model.Ranges hiding Inv

local notation "RInv" => Lumina.Model.Ranges.Inv

attribute [local simp] ok_bind err_bind map_ok map_err pure_eq throw_eq

/-! ### `partitions`: set-level corollaries -/

theorem partitions_mem {rs l r : Ranges} {m : Nat} (hh : heights l ++ m :: heights r = heights rs) (h : Nat) :
    mem rs h ↔ mem l h ∨ h = m ∨ mem r h := by
  rw [← mem_heights, ← hh, List.mem_append, List.mem_cons, mem_heights, mem_heights]

theorem partitions_order {rs l r : Ranges} {m : Nat} (hi : RInv rs)
    (hh : heights l ++ m :: heights r = heights rs) :
    (∀ a, mem l a → a < m) ∧ (∀ b, mem r b → m < b) := by
  have hs := heights_sorted hi
  rw [← hh, List.pairwise_append] at hs
  obtain ⟨_, h2, h3⟩ := hs
  constructor
  · intro a ha
    exact h3 a ((mem_heights l a).2 ha) m (by simp)
  · intro b hb
    exact (List.pairwise_cons.1 h2).1 b ((mem_heights r b).2 hb)

theorem partitions_card {rs l r : Ranges} {m : Nat} (hh : heights l ++ m :: heights r = heights rs) :
    card l + 1 + card r = card rs := by
  have := congrArg List.length hh
  simp only [List.length_append, List.length_cons, card_eq_length_heights] at this
  omega

/-! ### `from_vec` -/

/-- the ranges are valid and strictly increasing and disjoint, starting above height `e` -/
def chainFrom : Nat → List Range → Prop
  | _, [] => True
  | e, r :: rest => (1 ≤ r.1 ∧ r.1 ≤ r.2) ∧ e < r.1 ∧ chainFrom r.2 rest

/-- end of the last merged range (`0` when nothing has been merged yet) -/
def lastEnd : List Range → Nat
  | [] => 0
  | p :: _ => p.2

theorem find_invalid_cons_valid {r : Range} {rest : List Range} (hv : Range.valid r = true) :
    (r :: rest).find? (fun x => !Range.valid x) = rest.find? (fun x => !Range.valid x) := by
  simp [List.find?, hv]

/-- complete case analysis of the `from_vec` loop -/
theorem fromVecMerge_cases : ∀ {rest acc : List Range}, RInv acc.reverse → (∀ r ∈ rest, r.2 ≤ U64_MAX) →
    (chainFrom (lastEnd acc) rest ∧ ∃ out, fromVecMerge acc rest = .ok out ∧ RInv out ∧
        ∀ h, mem out h ↔ mem acc h ∨ mem rest h) ∨
    (¬ chainFrom (lastEnd acc) rest ∧ (fromVecMerge acc rest = .error .unsorted ∨
        ∃ r, fromVecMerge acc rest = .error (.invalid r) ∧
          rest.find? (fun x => !Range.valid x) = some r))
  | [], acc, hacc, _ => by
    left
    refine ⟨trivial, acc.reverse, by simp [fromVecMerge], hacc, ?_⟩
    intro h; rw [mem_reverse]; simp [mem_nil]
  | r :: rest, acc, hacc, hb => by
    have hbr := hb r (by simp)
    have hbrest : ∀ x ∈ rest, x.2 ≤ U64_MAX := fun x hx => hb x (List.mem_cons_of_mem _ hx)
    by_cases hval : Range.valid r = true
    · have hv : ValidR r := ⟨((valid_iff r).1 hval).1, ((valid_iff r).1 hval).2, hbr⟩
      have hvv := hv
      unfold ValidR at hvv
      -- what the recursive call yields for the new accumulator `acc'`
      have key : ∀ acc' : List Range, RInv acc'.reverse → lastEnd acc' = r.2 →
          (∀ h, mem acc' h ↔ mem acc h ∨ (r.1 ≤ h ∧ h ≤ r.2)) → lastEnd acc < r.1 →
          fromVecMerge acc (r :: rest) = fromVecMerge acc' rest →
          (chainFrom (lastEnd acc) (r :: rest) ∧ ∃ out, fromVecMerge acc (r :: rest) = .ok out ∧ RInv out ∧
              ∀ h, mem out h ↔ mem acc h ∨ mem (r :: rest) h) ∨
          (¬ chainFrom (lastEnd acc) (r :: rest) ∧ (fromVecMerge acc (r :: rest) = .error .unsorted ∨
              ∃ x, fromVecMerge acc (r :: rest) = .error (.invalid x) ∧
                (r :: rest).find? (fun x => !Range.valid x) = some x)) := by
        intro acc' hi' hle hm hlt heq
        rw [heq, find_invalid_cons_valid hval]
        rcases fromVecMerge_cases (rest := rest) (acc := acc') hi' hbrest with ⟨hc, out, e, io, mo⟩ | ⟨hc, herr⟩
        · left
          rw [hle] at hc
          refine ⟨⟨⟨hvv.1, hvv.2.1⟩, hlt, hc⟩, out, e, io, ?_⟩
          intro h
          rw [mo, hm, mem_cons]
          constructor
          · rintro ((h1 | h1) | h1)
            · exact Or.inl h1
            · exact Or.inr (Or.inl h1)
            · exact Or.inr (Or.inr h1)
          · rintro (h1 | h1 | h1)
            · exact Or.inl (Or.inl h1)
            · exact Or.inl (Or.inr h1)
            · exact Or.inr h1
        · right
          rw [hle] at hc
          exact ⟨fun hcc => hc hcc.2.2, herr⟩
      cases acc with
      | nil =>
        apply key [r]
        · simpa using inv_singleton.2 hv
        · rfl
        · intro h; rw [mem_singleton]; simp [mem_nil]
        · show 0 < r.1; omega
        · simp [fromVecMerge, validate_ok hval]
      | cons prev t =>
        rw [List.reverse_cons] at hacc
        obtain ⟨ht, hp, hc⟩ := inv_append.1 hacc
        have hvp : ValidR prev := inv_singleton.1 hp
        have hvpv := hvp
        unfold ValidR at hvpv
        by_cases hun : r.1 ≤ prev.2
        · right
          refine ⟨fun hcc => ?_, Or.inl ?_⟩
          · have : prev.2 < r.1 := hcc.2.1
            omega
          · simp [fromVecMerge, validate_ok hval, hun]
        · have hadd : addU64 prev.2 1 = .ok (prev.2 + 1) := by
            have : prev.2 + 1 ≤ U64_MAX := by omega
            simp [addU64, this]
          by_cases hadj : prev.2 + 1 = r.1
          · -- adjacent: merge
            apply key ((prev.1, r.2) :: t)
            · rw [List.reverse_cons]
              refine inv_append.2 ⟨ht, inv_singleton.2 ⟨hvpv.1, by show prev.1 ≤ r.2; omega, hvv.2.2⟩, ?_⟩
              intro a ha b hb'
              simp only [List.mem_singleton] at hb'; subst hb'
              exact hc a ha prev (by simp)
            · rfl
            · intro h
              rw [mem_cons, mem_cons]
              constructor
              · rintro (⟨h1, h2⟩ | h1)
                · simp only at h1 h2
                  by_cases c : h ≤ prev.2
                  · exact Or.inl (Or.inl ⟨h1, c⟩)
                  · exact Or.inr ⟨by omega, h2⟩
                · exact Or.inl (Or.inr h1)
              · rintro ((⟨h1, h2⟩ | h1) | ⟨h1, h2⟩)
                · exact Or.inl ⟨h1, by show h ≤ r.2; omega⟩
                · exact Or.inr h1
                · exact Or.inl ⟨by show prev.1 ≤ h; omega, h2⟩
            · show prev.2 < r.1; omega
            · simp [fromVecMerge, validate_ok hval, hun, hadd, hadj]
          · -- a gap: push
            apply key (r :: prev :: t)
            · rw [List.reverse_cons, List.reverse_cons]
              refine inv_append.2 ⟨hacc, inv_singleton.2 hv, ?_⟩
              intro a ha b hb'
              simp only [List.mem_singleton] at hb'; subst hb'
              have := inv_le_last hacc a ha
              omega
            · rfl
            · intro h
              rw [mem_cons]
              exact Or.comm
            · show prev.2 < r.1; omega
            · simp [fromVecMerge, validate_ok hval, hun, hadd, hadj]
    · have hval' : Range.valid r = false := by simpa using hval
      right
      refine ⟨fun hcc => ?_, Or.inr ⟨r, ?_, ?_⟩⟩
      · exact hval ((valid_iff r).2 hcc.1)
      · cases acc <;> simp [fromVecMerge, validate_err hval']
      · simp [List.find?, hval']

/-- `from_vec` (after the repair): accepted exactly for valid, strictly increasing, disjoint
    vectors; the result is canonical (`Inv`) and denotes the union; never panics -/
theorem fromVec_cases {v : List Range} (hb : ∀ r ∈ v, r.2 ≤ U64_MAX) :
    (chainFrom 0 v ∧ ∃ out, fromVec v = .ok out ∧ RInv out ∧ ∀ h, mem out h ↔ mem v h) ∨
    (¬ chainFrom 0 v ∧ (fromVec v = .error .unsorted ∨
        ∃ r, fromVec v = .error (.invalid r) ∧ v.find? (fun x => !Range.valid x) = some r)) := by
  rcases fromVecMerge_cases (rest := v) (acc := []) (by simpa using inv_nil) hb with ⟨hc, out, e, io, mo⟩ | h
  · exact Or.inl ⟨hc, out, e, io, fun h => by rw [mo]; simp [mem_nil]⟩
  · exact Or.inr h

/-! ### arbitrary operation sequences over registers -/

/-- registers holding `BlockRanges` values -/
abbrev St := Nat → Ranges

def upd (s : St) (d : Nat) (v : Ranges) : St := fun i => if i = d then v else s i

/-- every operation of `BlockRanges`; `x`, `y` source registers, `d` destination register -/
inductive Op where
  | new (d : Nat)
  | fromVec (v : List Range) (d : Nat)
  | insert (x : Nat) (r : Range)
  | remove (x : Nat) (r : Range)
  | popHead (x : Nat)
  | popTail (x : Nat)
  | headn (x n d : Nat)
  | tailn (x n d : Nat)
  | edges (x d : Nat)
  | add (x y d : Nat)
  | sub (x y d : Nat)
  | bitAnd (x y d : Nat)
  | bitOr (x y d : Nat)
  | bitNot (x d : Nat)
  | len (x : Nat)
  | partitions (x : Nat)
  | leftOf (x h : Nat)
  | rightOf (x h : Nat)

/-- the arguments are `u64` values (and heights passed to `left_of` / `right_of` are heights) -/
def Op.Bounded : Op → Prop
  | .fromVec v _ => ∀ r ∈ v, r.2 ≤ U64_MAX
  | .insert _ r => r.2 ≤ U64_MAX
  | .remove _ r => r.2 ≤ U64_MAX
  | .leftOf _ h => 1 ≤ h
  | .rightOf _ h => 1 ≤ h
  | _ => True

def step (s : St) : Op → Res St
  | .new d => pure (upd s d new)
  | .fromVec v d => do let r ← fromVec v; pure (upd s d r)
  | .insert x r => do let v ← insertRelaxed (s x) r; pure (upd s x v)
  | .remove x r => do let v ← removeRelaxed (s x) r; pure (upd s x v)
  | .popHead x => do let (_, v) ← popHead (s x); pure (upd s x v)
  | .popTail x => do let (_, v) ← popTail (s x); pure (upd s x v)
  | .headn x n d => do let v ← headn (s x) n; pure (upd s d v)
  | .tailn x n d => do let v ← tailn (s x) n; pure (upd s d v)
  | .edges x d => do let v ← edges (s x); pure (upd s d v)
  | .add x y d => do let v ← add (s x) (s y); pure (upd s d v)
  | .sub x y d => do let v ← sub (s x) (s y); pure (upd s d v)
  | .bitAnd x y d => do let v ← bitAnd (s x) (s y); pure (upd s d v)
  | .bitOr x y d => do let v ← bitOr (s x) (s y); pure (upd s d v)
  | .bitNot x d => do let v ← bitNot (s x); pure (upd s d v)
  | .len x => do let _ ← len (s x); pure s
  | .partitions x => do let _ ← partitions (s x); pure s
  | .leftOf x h => do let _ ← leftOf (s x) h; pure s
  | .rightOf x h => do let _ ← rightOf (s x) h; pure s

/-- a history: an operation that returns a `BlockRangesError` leaves the registers unchanged
    (`&mut self` untouched); a panic aborts the history -/
def run : List Op → St → Res St
  | [], s => .ok s
  | op :: ops, s =>
    match step s op with
    | .ok s' => run ops s'
    | .error .panic => .error .panic
    | .error _ => run ops s

def InvSt (s : St) : Prop := ∀ i, RInv (s i)

theorem invSt_upd {s : St} (hs : InvSt s) {d : Nat} {v : Ranges} (hv : RInv v) : InvSt (upd s d v) := by
  intro i
  unfold upd
  by_cases c : i = d
  · simp [c, hv]
  · simp [c, hs i]

/-- one step from an all-`Inv` state: either a new all-`Inv` state, or a (non-panic) error -/
theorem step_inv {s : St} (hs : InvSt s) {op : Op} (hb : op.Bounded) :
    (∃ s', step s op = .ok s' ∧ InvSt s') ∨ (∃ e, step s op = .error e ∧ e ≠ .panic) := by
  cases op with
  | new d => exact Or.inl ⟨upd s d new, rfl, invSt_upd hs inv_nil⟩
  | fromVec v d =>
    rcases fromVec_cases hb with ⟨_, out, e, io, _⟩ | ⟨_, e | ⟨r, e, _⟩⟩
    · exact Or.inl ⟨upd s d out, by simp [step, e], invSt_upd hs io⟩
    · exact Or.inr ⟨.unsorted, by simp [step, e], by simp⟩
    · exact Or.inr ⟨.invalid r, by simp [step, e], by simp⟩
  | insert x r =>
    by_cases hval : Range.valid r = true
    · obtain ⟨v, e, iv, _⟩ := insertRelaxed_spec (hs x) ⟨((valid_iff r).1 hval).1, ((valid_iff r).1 hval).2, hb⟩
      exact Or.inl ⟨upd s x v, by simp [step, e], invSt_upd hs iv⟩
    · have hval' : Range.valid r = false := by simpa using hval
      exact Or.inr ⟨.invalid r, by simp [step, insertRelaxed_invalid hval'], by simp⟩
  | remove x r =>
    by_cases hval : Range.valid r = true
    · obtain ⟨v, e, iv, _⟩ := removeRelaxed_spec (hs x) ⟨((valid_iff r).1 hval).1, ((valid_iff r).1 hval).2, hb⟩
      exact Or.inl ⟨upd s x v, by simp [step, e], invSt_upd hs iv⟩
    · have hval' : Range.valid r = false := by simpa using hval
      exact Or.inr ⟨.invalid r, by simp [step, removeRelaxed_invalid hval'], by simp⟩
  | popHead x =>
    rcases List.eq_nil_or_concat (s x) with h | ⟨ys, r, h⟩
    · exact Or.inl ⟨upd s x [], by simp [step, h, popHead_nil], invSt_upd hs inv_nil⟩
    · rw [List.concat_eq_append] at h
      have hi := hs x
      rw [h] at hi
      obtain ⟨v, e, iv, _⟩ := popHead_spec hi
      exact Or.inl ⟨upd s x v, by simp [step, h, e], invSt_upd hs iv⟩
  | popTail x =>
    cases h : s x with
    | nil => exact Or.inl ⟨upd s x [], by simp [step, h, popTail_nil], invSt_upd hs inv_nil⟩
    | cons r rs =>
      have hi := hs x
      rw [h] at hi
      obtain ⟨v, e, iv, _⟩ := popTail_spec hi
      exact Or.inl ⟨upd s x v, by simp [step, h, e], invSt_upd hs iv⟩
  | headn x n d =>
    obtain ⟨v, e, iv, _⟩ := headn_spec (hs x) n
    exact Or.inl ⟨upd s d v, by simp [step, e], invSt_upd hs iv⟩
  | tailn x n d =>
    obtain ⟨v, e, iv, _⟩ := tailn_spec (hs x) n
    exact Or.inl ⟨upd s d v, by simp [step, e], invSt_upd hs iv⟩
  | edges x d =>
    obtain ⟨v, e, iv, _⟩ := edges_spec (hs x)
    exact Or.inl ⟨upd s d v, by simp [step, e], invSt_upd hs iv⟩
  | add x y d =>
    obtain ⟨v, e, iv, _⟩ := add_spec (hs x) (hs y)
    exact Or.inl ⟨upd s d v, by simp [step, e], invSt_upd hs iv⟩
  | sub x y d =>
    obtain ⟨v, e, iv, _⟩ := sub_spec (hs x) (hs y)
    exact Or.inl ⟨upd s d v, by simp [step, e], invSt_upd hs iv⟩
  | bitAnd x y d =>
    obtain ⟨v, e, iv, _⟩ := bitAnd_spec (hs x) (hs y)
    exact Or.inl ⟨upd s d v, by simp [step, e], invSt_upd hs iv⟩
  | bitOr x y d =>
    obtain ⟨v, e, iv, _⟩ := bitOr_spec (hs x) (hs y)
    exact Or.inl ⟨upd s d v, by simp [step, e], invSt_upd hs iv⟩
  | bitNot x d =>
    obtain ⟨v, e, iv, _⟩ := bitNot_spec (hs x)
    exact Or.inl ⟨upd s d v, by simp [step, e], invSt_upd hs iv⟩
  | len x => exact Or.inl ⟨s, by simp [step, len_spec (hs x)], hs⟩
  | partitions x =>
    rcases partitions_spec (hs x) with ⟨_, e⟩ | ⟨_, l, m, r, e, _⟩
    · exact Or.inl ⟨s, by simp [step, e], hs⟩
    · exact Or.inl ⟨s, by simp [step, e], hs⟩
  | leftOf x h =>
    obtain ⟨o, e, _⟩ := leftOf_spec (hs x) hb
    exact Or.inl ⟨s, by simp [step, e], hs⟩
  | rightOf x h =>
    obtain ⟨o, e, _⟩ := rightOf_spec (hs x) hb
    exact Or.inl ⟨s, by simp [step, e], hs⟩

/-- **every history** from an all-`Inv` state runs to completion without a panic (no `u64`
    overflow, no failed assertion / `expect`) and ends in an all-`Inv` state -/
theorem run_inv : ∀ (ops : List Op) {s : St}, InvSt s → (∀ op ∈ ops, op.Bounded) →
    ∃ s', run ops s = .ok s' ∧ InvSt s'
  | [], s, hs, _ => ⟨s, rfl, hs⟩
  | op :: ops, s, hs, hb => by
    have hbo := hb op (by simp)
    have hbs : ∀ o ∈ ops, o.Bounded := fun o ho => hb o (List.mem_cons_of_mem _ ho)
    rcases step_inv hs hbo with ⟨s', e, hs'⟩ | ⟨e, he, hne⟩
    · obtain ⟨s'', e2, hs''⟩ := run_inv ops hs' hbs
      exact ⟨s'', by simp [run, e, e2], hs''⟩
    · obtain ⟨s'', e2, hs''⟩ := run_inv ops hs hbs
      refine ⟨s'', ?_, hs''⟩
      rw [run, he]
      cases e <;> first | exact absurd rfl hne | exact e2

end Lumina.Proofs.Ranges

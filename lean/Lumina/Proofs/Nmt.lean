/-
  Helper lemmas about the nmt-rs model (`Lumina/Model/Nmt.lean`): tree-shape arithmetic, hash
  injectivity / domain separation under collision-freeness RELATIVE TO the hashed inputs (`HashOKOn H S`; the
  former global hypothesis `HashOK` was contradictory and is removed), the single-leaf
  recursion of `check_range_proof_inner` against perfect trees (position binding).
-/
import Lumina.Model.Nmt

namespace Lumina.Proofs.Nmt
open Lumina.Util Lumina.Model.Nmt

theorem npo2_aux (n : Nat) : ∀ (fuel a : Nat), n ≤ 2 ^ (a + fuel) → (a = 0 ∨ 2 ^ (a - 1) < n) →
    ∃ b, nextPowerOfTwoAux n fuel (2 ^ a) = 2 ^ b ∧ n ≤ 2 ^ b ∧ (b = 0 ∨ 2 ^ (b - 1) < n) := by
  intro fuel
  induction fuel with
  | zero => intro a h1 h2; exact ⟨a, rfl, by simpa using h1, h2⟩
  | succ f ih =>
    intro a h1 h2
    unfold nextPowerOfTwoAux
    by_cases h : n ≤ 2 ^ a
    · simp only [h, ↓reduceIte]; exact ⟨a, rfl, h, h2⟩
    · simp only [h, ↓reduceIte]
      have : 2 * 2 ^ a = 2 ^ (a + 1) := by rw [Nat.pow_succ]; omega
      rw [this]
      apply ih (a + 1)
      · have : a + 1 + f = a + (f + 1) := by omega
        rw [this]; exact h1
      · right; simp; omega

theorem nextPowerOfTwo_spec (n : Nat) : ∃ b, nextPowerOfTwo n = 2 ^ b ∧ n ≤ 2 ^ b ∧ (b = 0 ∨ 2 ^ (b - 1) < n) := by
  have := npo2_aux n n 0 (by simpa using Nat.le_of_lt (Nat.lt_two_pow_self)) (Or.inl rfl)
  simpa [nextPowerOfTwo] using this

theorem nextSmallerPo2_spec (n : Nat) (h : 2 ≤ n) : ∃ m, nextSmallerPo2 n = 2 ^ m ∧ 2 ^ m < n ∧ n ≤ 2 ^ (m + 1) := by
  obtain ⟨b, hb, h1, h2⟩ := nextPowerOfTwo_spec n
  cases b with
  | zero => simp at h1; omega
  | succ m =>
    refine ⟨m, ?_, ?_, h1⟩
    · unfold nextSmallerPo2; rw [hb, Nat.pow_succ]; omega
    · simpa using h2


/-- the hash has 32-byte output (true of sha256; the only fact about the hash that completeness needs) -/
def HashLen (H : HashFn) : Prop := ∀ x, (H x).length = HASH_LEN

theorem toBytes_length {h : NsHash} (w : h.WF) : h.toBytes.length = NAMESPACED_HASH_SIZE := by
  obtain ⟨a, b, c⟩ := w
  simp [NsHash.toBytes, a, b, c, NAMESPACED_HASH_SIZE]; omega

theorem toBytes_inj {a b : NsHash} (wa : a.WF) (wb : b.WF) (h : a.toBytes = b.toBytes) : a = b := by
  obtain ⟨a1, a2, a3⟩ := wa
  obtain ⟨b1, b2, b3⟩ := wb
  cases a; cases b
  simp only [NsHash.toBytes, List.append_assoc] at h
  simp only at a1 a2 a3 b1 b2 b3
  have h1 := List.append_inj h (by rw [a1, b1])
  have h2 := List.append_inj h1.2 (by rw [a2, b2])
  simp [h1.1, h2.1, h2.2]

theorem minB_cases (a b : Bytes) : minB a b = a ∨ minB a b = b := by
  unfold minB; split <;> simp
theorem maxB_cases (a b : Bytes) : maxB a b = a ∨ maxB a b = b := by
  unfold maxB; split <;> simp

theorem hashNodes_WF {H : HashFn} (hk : HashLen H) {ign : Bool} {l r h : NsHash} (wl : l.WF) (wr : r.WF)
    (e : hashNodes H ign l r = .ok h) : h.WF := by
  unfold hashNodes at e
  split at e
  · cases e
  · injection e with e
    subst e
    refine ⟨?_, ?_, hk _⟩
    · rcases minB_cases l.minNs r.minNs with h | h
      · simp only [h]; exact wl.1
      · simp only [h]; exact wr.1
    · dsimp only
      split
      · simp [maxNsId]
      · split
        · exact wl.2.1
        · rcases maxB_cases l.maxNs r.maxNs with h | h
          · simp only [h]; exact wl.2.1
          · simp only [h]; exact wr.2.1

theorem hashLeaf_WF {H : HashFn} (hk : HashLen H) {ns d : Bytes} (h : ns.length = NS_SIZE) : (hashLeaf H ns d).WF :=
  ⟨h, h, hk _⟩


/-- one-step unfolding of `checkRangeProofInner` on a single remaining leaf -/
theorem inner_single_step {H : HashFn} {ign : Bool} {fuel : Nat} {x : NsHash} {proof : List NsHash}
    {start size offset : Nat} {h : NsHash} {lv' pf' : List NsHash}
    (e : checkRangeProofInner H ign (fuel + 1) [x] proof start size offset = .ok (h, lv', pf'))
    (split : Nat) (hsplit : split = nextSmallerPo2 size) :
    (split + offset ≤ start ∧ ∃ right lv1 pf1 sib,
        ((size - split = 1 ∧ right = x ∧ lv1 = [] ∧ pf1 = proof) ∨
         (size - split ≠ 1 ∧ checkRangeProofInner H ign fuel [x] proof start (size - split) (offset + split) = .ok (right, lv1, pf1))) ∧
        takeLast? pf1 = some (sib, pf') ∧ hashNodes H ign sib right = .ok h ∧ lv' = lv1)
    ∨
    (start < split + offset ∧ ∃ sib pf1 left,
        takeLast? proof = some (sib, pf1) ∧
        ((split = 1 ∧ left = x ∧ lv' = [] ∧ pf' = pf1) ∨
         (split ≠ 1 ∧ checkRangeProofInner H ign fuel [x] pf1 start split offset = .ok (left, lv', pf'))) ∧
        hashNodes H ign left sib = .ok h) := by
  subst hsplit
  unfold checkRangeProofInner at e
  simp only [List.length_singleton] at e
  have h0 : ¬ (1 + start = 0) := by omega
  simp only [h0, ↓reduceIte] at e
  have h1 : 1 + start - 1 = start := by omega
  rw [h1] at e
  by_cases hc : nextSmallerPo2 size + offset ≤ start
  · left
    refine ⟨hc, ?_⟩
    have hc' : start ≥ nextSmallerPo2 size + offset := hc
    have hnl : ¬ (start < nextSmallerPo2 size + offset) := by omega
    simp only [hc', ↓reduceIte] at e
    by_cases hr : size - nextSmallerPo2 size = 1
    · simp only [hr, ↓reduceIte, takeLast?, List.getLast?_singleton, List.dropLast_singleton, hnl] at e
      cases hp : takeLast? proof with
      | none => simp [takeLast?] at hp; simp [hp] at e
      | some v =>
        obtain ⟨sib, rest⟩ := v
        simp only [takeLast?] at hp
        cases hg : proof.getLast? with
        | none => simp [hg] at hp
        | some y =>
          simp only [hg, Option.some.injEq, Prod.mk.injEq] at hp
          simp only [hg] at e
          cases hn : hashNodes H ign y x with
          | error er => simp [hn] at e
          | ok hh =>
            simp only [hn, Except.ok.injEq, Prod.mk.injEq] at e
            refine ⟨x, [], proof, sib, Or.inl ⟨hr, rfl, rfl, rfl⟩, ?_, ?_, ?_⟩
            · simp [takeLast?, hg, hp.1]; rw [← e.2.2]
            · rw [← hp.1, hn, e.1]
            · exact e.2.1.symm ▸ rfl
    · simp only [hr, ↓reduceIte] at e
      cases hrec : checkRangeProofInner H ign fuel [x] proof start (size - nextSmallerPo2 size) (offset + nextSmallerPo2 size) with
      | error er => simp [hrec] at e
      | ok v =>
        obtain ⟨right, lv1, pf1⟩ := v
        simp only [hrec, hnl, ↓reduceIte] at e
        cases hg : takeLast? pf1 with
        | none => simp [hg] at e
        | some w =>
          obtain ⟨sib, rest⟩ := w
          simp only [hg] at e
          cases hn : hashNodes H ign sib right with
          | error er => simp [hn] at e
          | ok hh =>
            simp only [hn, Except.ok.injEq, Prod.mk.injEq] at e
            refine ⟨right, lv1, pf1, sib, Or.inr ⟨hr, rfl⟩, ?_, ?_, e.2.1.symm⟩
            · rw [hg, e.2.2]
            · rw [hn, e.1]
  · right
    have hlt : start < nextSmallerPo2 size + offset := by omega
    refine ⟨hlt, ?_⟩
    have hc' : ¬ (start ≥ nextSmallerPo2 size + offset) := hc
    have hlt' : start < nextSmallerPo2 size + offset := hlt
    simp only [hc', ↓reduceIte] at e
    cases hg : takeLast? proof with
    | none => simp [hg] at e
    | some w =>
      obtain ⟨sib, pf1⟩ := w
      simp only [hg, hlt', ↓reduceIte] at e
      by_cases hs : nextSmallerPo2 size = 1
      · simp only [hs, ↓reduceIte, takeLast?, List.getLast?_singleton, List.dropLast_singleton] at e
        cases hn : hashNodes H ign x sib with
        | error er => simp [hn] at e
        | ok hh =>
          simp only [hn, Except.ok.injEq, Prod.mk.injEq] at e
          exact ⟨sib, pf1, x, rfl, Or.inl ⟨hs, rfl, e.2.1.symm, e.2.2.symm⟩, by rw [hn, e.1]⟩
      · simp only [hs, ↓reduceIte] at e
        cases hrec : checkRangeProofInner H ign fuel [x] pf1 start (nextSmallerPo2 size) offset with
        | error er => simp [hrec] at e
        | ok v =>
          obtain ⟨left, lv2, pf2⟩ := v
          simp only [hrec] at e
          cases hn : hashNodes H ign left sib with
          | error er => simp [hn] at e
          | ok hh =>
            simp only [hn, Except.ok.injEq, Prod.mk.injEq] at e
            refine ⟨sib, pf1, left, rfl, Or.inr ⟨hs, ?_⟩, by rw [hn, e.1]⟩
            rw [← e.2.1, ← e.2.2]; exact hrec


theorem takeLast?_some {α} {l : List α} {x : α} {r : List α} (h : takeLast? l = some (x, r)) : l = r ++ [x] := by
  unfold takeLast? at h
  cases hg : l.getLast? with
  | none => simp [hg] at h
  | some y =>
    simp only [hg, Option.some.injEq, Prod.mk.injEq] at h
    obtain ⟨rfl, rfl⟩ := h
    have hne : l ≠ [] := by intro e; simp [e] at hg
    have := List.dropLast_concat_getLast hne
    rw [List.getLast?_eq_some_getLast hne] at hg
    injection hg with hg
    rw [← hg]; exact this.symm

/-- WF is preserved by the single-leaf recursion -/
theorem inner_single_WF {H : HashFn} (hk : HashLen H) {ign : Bool} : ∀ (fuel : Nat) {x : NsHash} {proof : List NsHash}
    {start size offset : Nat} {h : NsHash} {lv' pf' : List NsHash},
    checkRangeProofInner H ign fuel [x] proof start size offset = .ok (h, lv', pf') →
    x.WF → (∀ p ∈ proof, p.WF) → h.WF ∧ (∀ p ∈ pf', p.WF) := by
  intro fuel
  induction fuel with
  | zero => intro x proof start size offset h lv' pf' e; simp [checkRangeProofInner] at e
  | succ f ih =>
    intro x proof start size offset h lv' pf' e wx wp
    rcases inner_single_step e _ rfl with ⟨_, right, lv1, pf1, sib, hr, htl, hn, _⟩ | ⟨_, sib, pf1, left, htl, hl, hn⟩
    · have hpf1 := takeLast?_some htl
      rcases hr with ⟨_, rfl, _, rfl⟩ | ⟨_, hrec⟩
      · have wsib : sib.WF := wp sib (by rw [hpf1]; simp)
        exact ⟨hashNodes_WF hk wsib wx hn, fun p hp => wp p (by rw [hpf1]; simp [hp])⟩
      · obtain ⟨wr, wpf1⟩ := ih hrec wx wp
        have wsib : sib.WF := wpf1 sib (by rw [hpf1]; simp)
        exact ⟨hashNodes_WF hk wsib wr hn, fun p hp => wpf1 p (by rw [hpf1]; simp [hp])⟩
    · have hpf := takeLast?_some htl
      have wsib : sib.WF := wp sib (by rw [hpf]; simp)
      have wpf1 : ∀ p ∈ pf1, p.WF := fun p hp => wp p (by rw [hpf]; simp [hp])
      rcases hl with ⟨_, rfl, _, rfl⟩ | ⟨_, hrec⟩
      · exact ⟨hashNodes_WF hk wx wsib hn, wpf1⟩
      · obtain ⟨wl, wpf'⟩ := ih hrec wx wpf1
        exact ⟨hashNodes_WF hk wl wsib hn, wpf'⟩

/-- root of a perfect tree of depth `j` over exactly `2^j` leaf hashes (the shape `compute_root` produces) -/
def perfectRoot (H : HashFn) (ign : Bool) : Nat → List NsHash → Except Err NsHash
  | 0, L => match L with
    | [x] => .ok x
    | _ => .error .fuel
  | j + 1, L =>
    match perfectRoot H ign j (L.take (2 ^ j)) with
    | .error e => .error e
    | .ok l =>
      match perfectRoot H ign j (L.drop (2 ^ j)) with
      | .error e => .error e
      | .ok r => hashNodes H ign l r

/-- every element is the hash of a leaf with a 29-byte namespace -/
def AllLeaf (H : HashFn) (L : List NsHash) : Prop :=
  ∀ x ∈ L, ∃ ns d, ns.length = NS_SIZE ∧ x = hashLeaf H ns d

theorem AllLeaf.take {H : HashFn} {L : List NsHash} (h : AllLeaf H L) (n : Nat) : AllLeaf H (L.take n) :=
  fun x hx => h x (List.mem_of_mem_take hx)
theorem AllLeaf.drop {H : HashFn} {L : List NsHash} (h : AllLeaf H L) (n : Nat) : AllLeaf H (L.drop n) :=
  fun x hx => h x (List.mem_of_mem_drop hx)

theorem perfectRoot_succ {H : HashFn} {ign : Bool} {j : Nat} {L : List NsHash} {h : NsHash}
    (e : perfectRoot H ign (j + 1) L = .ok h) :
    ∃ l r, perfectRoot H ign j (L.take (2 ^ j)) = .ok l ∧ perfectRoot H ign j (L.drop (2 ^ j)) = .ok r ∧
      hashNodes H ign l r = .ok h := by
  rw [perfectRoot] at e
  cases hl : perfectRoot H ign j (L.take (2 ^ j)) with
  | error er => simp [hl] at e
  | ok l =>
    cases hr : perfectRoot H ign j (L.drop (2 ^ j)) with
    | error er => simp [hl, hr] at e
    | ok r => simp only [hl, hr] at e; exact ⟨l, r, rfl, rfl, e⟩

theorem perfectRoot_zero {H : HashFn} {ign : Bool} {L : List NsHash} {h : NsHash}
    (e : perfectRoot H ign 0 L = .ok h) : L = [h] := by
  match L, e with
  | [x], e => simp [perfectRoot] at e; rw [e]
  | [], e => simp [perfectRoot] at e
  | _ :: _ :: _, e => simp [perfectRoot] at e

theorem perfectRoot_length {H : HashFn} {ign : Bool} : ∀ (j : Nat) {L : List NsHash} {h : NsHash},
    perfectRoot H ign j L = .ok h → L.length = 2 ^ j := by
  intro j
  induction j with
  | zero => intro L h e; rw [perfectRoot_zero e]; simp
  | succ j ih =>
    intro L h e
    obtain ⟨l, r, hl, hr, _⟩ := perfectRoot_succ e
    have h1 := ih hl
    have h2 := ih hr
    simp only [List.length_take, List.length_drop] at h1 h2
    rw [Nat.pow_succ]; omega

theorem perfectRoot_WF {H : HashFn} (hk : HashLen H) {ign : Bool} : ∀ (j : Nat) {L : List NsHash} {h : NsHash},
    AllLeaf H L → perfectRoot H ign j L = .ok h → h.WF := by
  intro j
  induction j with
  | zero =>
    intro L h al e
    have := perfectRoot_zero e
    obtain ⟨ns, d, hl, rfl⟩ := al h (by rw [this]; simp)
    exact hashLeaf_WF hk hl
  | succ j ih =>
    intro L h al e
    obtain ⟨l, r, hl, hr, hn⟩ := perfectRoot_succ e
    exact hashNodes_WF hk (ih (al.take _) hl) (ih (al.drop _) hr) hn

def IsLeaf (H : HashFn) (x : NsHash) : Prop := ∃ ns d, ns.length = NS_SIZE ∧ x = hashLeaf H ns d

theorem IsLeaf.WF {H : HashFn} {x : NsHash} (h : IsLeaf H x) (hk : HashLen H) : x.WF := by
  obtain ⟨ns, d, hl, rfl⟩ := h; exact hashLeaf_WF hk hl

theorem nextSmallerPo2_pow (m : Nat) : nextSmallerPo2 (2 ^ (m + 1)) = 2 ^ m := by
  have h2 : 2 ≤ 2 ^ (m + 1) := by
    have : 2 ^ 1 ≤ 2 ^ (m + 1) := Nat.pow_le_pow_right (by omega) (by omega)
    simpa using this
  obtain ⟨m', h1, hlt, hle⟩ := nextSmallerPo2_spec _ h2
  rw [h1]
  have a : m' < m + 1 := (Nat.pow_lt_pow_iff_right (by omega)).mp hlt
  have b : m + 1 ≤ m' + 1 := (Nat.pow_le_pow_iff_right (by omega)).mp hle
  have : m' = m := by omega
  rw [this]

theorem two_le_two_pow_succ (m : Nat) : 2 ≤ 2 ^ (m + 1) := by
  have : 1 ≤ 2 ^ m := Nat.one_le_two_pow
  rw [Nat.pow_succ]; omega

theorem computeTreeSizeAux_ge : ∀ (fuel rem idx mask n : Nat),
    computeTreeSizeAux fuel rem idx mask = .ok n → idx + 1 ≤ n := by
  intro fuel
  induction fuel with
  | zero => intro rem idx mask n e; simp [computeTreeSizeAux] at e
  | succ f ih =>
    intro rem idx mask n e
    unfold computeTreeSizeAux at e
    by_cases hr : rem = 0
    · simp [hr] at e; omega
    · simp only [hr, ↓reduceIte] at e
      have key : ∀ (hit : Bool), (if (if hit then idx + mask else idx) = U32_MAX then Except.error Err.treeTooLarge
          else computeTreeSizeAux f (if hit then rem - 1 else rem) (if hit then idx + mask else idx) (mask * 2 % USIZE_MOD)) = .ok n →
          idx + 1 ≤ n := by
        intro hit e
        cases hit
        · simp only [Bool.false_eq_true, ↓reduceIte] at e
          by_cases hu : idx = U32_MAX
          · simp [hu] at e
          · simp only [hu, ↓reduceIte] at e
            have := ih _ _ _ _ e; omega
        · simp only [↓reduceIte] at e
          by_cases hu : idx + mask = U32_MAX
          · simp [hu] at e
          · simp only [hu, ↓reduceIte] at e
            have := ih _ _ _ _ e; omega
      exact key _ e

theorem computeTreeSize_ge {nr last n : Nat} (e : computeTreeSize nr last = .ok n) : last + 1 ≤ n :=
  computeTreeSizeAux_ge _ _ _ _ _ e

theorem computeTreeSize_ge_two {nr n : Nat} (hnr : 1 ≤ nr) (e : computeTreeSize nr 0 = .ok n) : 2 ≤ n := by
  unfold computeTreeSize at e
  unfold computeTreeSizeAux at e
  have : ¬ nr = 0 := by omega
  simp only [this, ↓reduceIte] at e
  simp at e
  by_cases hu : 1 = U32_MAX
  · simp [U32_MAX] at hu
  · simp only [hu, ↓reduceIte] at e
    have := computeTreeSizeAux_ge _ _ _ _ _ e
    omega

theorem popcountAux_pos : ∀ (fuel n : Nat), n ≤ fuel → 1 ≤ n → 1 ≤ popcountAux fuel n := by
  intro fuel
  induction fuel with
  | zero => intro n h1 h2; omega
  | succ f ih =>
    intro n h1 h2
    unfold popcountAux
    have : ¬ n = 0 := by omega
    simp only [this, ↓reduceIte]
    by_cases hm : n % 2 = 1
    · omega
    · have := ih (n / 2) (by omega) (by omega)
      omega

theorem computeNumLeftSiblings_zero {n : Nat} (h : computeNumLeftSiblings n = 0) : n = 0 := by
  by_cases hn : n = 0
  · exact hn
  · have := popcountAux_pos n n (Nat.le_refl _) (by omega)
    unfold computeNumLeftSiblings at h; omega

/-- `compute_root` of `2^j` leaves is the perfect-tree root -/
theorem computeRootAux_perfect {H : HashFn} {ign : Bool} : ∀ (j fuel : Nat) (L : List NsHash),
    L.length = 2 ^ j → 2 ^ j < fuel → computeRootAux H ign fuel L = perfectRoot H ign j L := by
  intro j
  induction j with
  | zero =>
    intro fuel L hl hf
    match L, hl with
    | [x], _ =>
      cases fuel with
      | zero => simp at hf
      | succ f => simp [computeRootAux, perfectRoot]
  | succ j ih =>
    intro fuel L hl hf
    cases fuel with
    | zero => simp at hf
    | succ f =>
      have h2 := two_le_two_pow_succ j
      match L, hl with
      | [], hl => simp at hl; omega
      | [_], hl => simp at hl; omega
      | a :: b :: rest, hl =>
        unfold computeRootAux
        simp only
        rw [hl, nextSmallerPo2_pow]
        have hp : 2 ^ (j + 1) = 2 ^ j + 2 ^ j := by rw [Nat.pow_succ]; omega
        have h1 : ((a :: b :: rest).take (2 ^ j)).length = 2 ^ j := by rw [List.length_take, hl]; omega
        have h3 : ((a :: b :: rest).drop (2 ^ j)).length = 2 ^ j := by rw [List.length_drop, hl]; omega
        rw [ih f _ h1 (by omega), ih f _ h3 (by omega)]
        rw [perfectRoot]
        cases perfectRoot H ign j (List.take (2 ^ j) (a :: b :: rest)) with
        | error er => rfl
        | ok l =>
          cases perfectRoot H ign j (List.drop (2 ^ j) (a :: b :: rest)) with
          | error er => rfl
          | ok r => rfl

theorem computeRoot_perfect {H : HashFn} {ign : Bool} {j : Nat} {L : List NsHash} (hl : L.length = 2 ^ j) :
    computeRoot H ign L = perfectRoot H ign j L :=
  computeRootAux_perfect j _ L hl (by rw [hl]; omega)

/-- number of zero bits among the low `n` bits of `q` -/
def zerosLow : Nat → Nat → Nat
  | _, 0 => 0
  | q, n + 1 => (if q % 2 = 0 then 1 else 0) + zerosLow (q / 2) n

theorem zerosLow_zero : ∀ (n q : Nat), q < 2 ^ n → zerosLow q n = 0 → q + 1 = 2 ^ n := by
  intro n
  induction n with
  | zero => intro q h _; simp at h; subst h; rfl
  | succ n ih =>
    intro q h hz
    unfold zerosLow at hz
    have hq : q % 2 = 1 := by
      by_cases h0 : q % 2 = 0
      · simp [h0] at hz
      · omega
    simp only [hq, Nat.one_ne_zero, ↓reduceIte, Nat.zero_add] at hz
    have : q / 2 < 2 ^ n := by rw [Nat.pow_succ] at h; omega
    have := ih (q / 2) this hz
    rw [Nat.pow_succ]; omega

theorem popcount_zeros : ∀ (j q fuel : Nat), q < 2 ^ j → q ≤ fuel → popcountAux fuel q + zerosLow q j = j := by
  intro j
  induction j with
  | zero =>
    intro q fuel h _
    simp at h; subst h
    cases fuel <;> simp [popcountAux, zerosLow]
  | succ j ih =>
    intro q fuel h hf
    have hq2 : q / 2 < 2 ^ j := by rw [Nat.pow_succ] at h; omega
    by_cases hq0 : q = 0
    · subst hq0
      have := ih 0 fuel (by simpa using hq2) (Nat.zero_le _)
      have hp : popcountAux fuel 0 = 0 := by cases fuel <;> simp [popcountAux]
      rw [hp] at this ⊢
      unfold zerosLow
      simp at this ⊢
      omega
    · cases fuel with
      | zero => omega
      | succ f =>
        unfold popcountAux zerosLow
        simp only [hq0, ↓reduceIte]
        have := ih (q / 2) f hq2 (by omega)
        by_cases h0 : q % 2 = 0
        · simp [h0]; omega
        · have : q % 2 = 1 := by omega
          simp [this]; omega

theorem fill_even (h P : Nat) (hP : 1 ≤ P) : 2 * h * P + (P - 1) + P = h * (2 * P) + (2 * P - 1) := by
  have e1 : 2 * h * P = 2 * (h * P) := Nat.mul_assoc 2 h P
  have e2 : h * (2 * P) = 2 * (h * P) := Nat.mul_left_comm h 2 P
  rw [e1, e2]; omega

theorem fill_odd (h P : Nat) (hP : 1 ≤ P) : (2 * h + 1) * P + (P - 1) = h * (2 * P) + (2 * P - 1) := by
  have e1 : (2 * h + 1) * P = 2 * (h * P) + P := by rw [Nat.add_mul, Nat.mul_assoc, Nat.one_mul]
  have e2 : h * (2 * P) = 2 * (h * P) := Nat.mul_left_comm h 2 P
  rw [e1, e2]; omega

theorem fill_div (q P : Nat) (hP : 1 ≤ P) : (q * P + (P - 1)) / P = q := by
  rw [Nat.mul_comm, Nat.mul_add_div (by omega)]
  have : (P - 1) / P = 0 := Nat.div_eq_of_lt (by omega)
  omega

theorem fill_lt (q N P : Nat) (hP : 1 ≤ P) (hq : q < N) : q * P + (P - 1) < N * P := by
  have : (q + 1) * P ≤ N * P := Nat.mul_le_mul_right _ (by omega)
  rw [Nat.add_mul, Nat.one_mul] at this; omega

theorem fill_lt2 (q N P : Nat) (hP : 1 ≤ P) (hq : q + 2 ≤ N) : q * P + (P - 1) + P < N * P := by
  have : (q + 2) * P ≤ N * P := Nat.mul_le_mul_right _ (by omega)
  rw [Nat.add_mul] at this; omega

theorem computeTreeSizeAux_fill : ∀ (n q t fuel : Nat), q < 2 ^ n → t + n ≤ 31 → zerosLow q n + n < fuel →
    computeTreeSizeAux fuel (zerosLow q n) (q * 2 ^ t + (2 ^ t - 1)) (2 ^ t) = .ok (2 ^ (t + n)) := by
  intro n
  induction n with
  | zero =>
    intro q t fuel hq _ hf
    simp at hq; subst hq
    cases fuel with
    | zero => omega
    | succ f =>
      have : 1 ≤ 2 ^ t := Nat.one_le_two_pow
      simp [computeTreeSizeAux, zerosLow]; omega
  | succ n ih =>
    intro q t fuel hq ht hf
    have hpt : 1 ≤ 2 ^ t := Nat.one_le_two_pow
    cases fuel with
    | zero => omega
    | succ f =>
      have hpow : 2 ^ (t + (n + 1)) = 2 ^ (n + 1) * 2 ^ t := by rw [Nat.pow_add, Nat.mul_comm]
      unfold computeTreeSizeAux
      by_cases hz : zerosLow q (n + 1) = 0
      · have := zerosLow_zero (n + 1) q hq hz
        simp only [hz, ↓reduceIte, Except.ok.injEq]
        rw [hpow, ← this, Nat.add_mul]; omega
      · simp only [hz, ↓reduceIte]
        have hm0 : ¬ (2 ^ t = 0) := by omega
        simp only [hm0, ↓reduceIte]
        rw [fill_div q _ hpt]
        have hq2 : q / 2 < 2 ^ n := by rw [Nat.pow_succ] at hq; omega
        have h31 : 2 ^ (t + (n + 1)) ≤ 2 ^ 31 := Nat.pow_le_pow_right (by omega) (by omega)
        have hmask : 2 ^ t * 2 % USIZE_MOD = 2 ^ (t + 1) := by
          rw [← Nat.pow_succ]
          apply Nat.mod_eq_of_lt
          have : 2 ^ (t + 1) ≤ 2 ^ 31 := Nat.pow_le_pow_right (by omega) (by omega)
          simp [USIZE_MOD]; omega
        rw [hmask]
        have hpow1 : 2 ^ (t + 1) = 2 * 2 ^ t := by rw [Nat.pow_succ]; omega
        have hidx_lt := fill_lt q (2 ^ (n + 1)) (2 ^ t) hpt hq
        rw [← hpow] at hidx_lt
        have hN : 2 ^ (n + 1) = 2 * 2 ^ n := by rw [Nat.pow_succ]; omega
        have hres := ih (q / 2) (t + 1) f hq2 (by omega)
        have hexp : t + 1 + n = t + (n + 1) := by omega
        rw [hexp, hpow1] at hres
        by_cases h0 : q % 2 = 0
        · have hzz : zerosLow q (n + 1) = 1 + zerosLow (q / 2) n := by
            conv => lhs; unfold zerosLow
            simp [h0]
          simp only [h0, beq_self_eq_true, ↓reduceIte]
          have hq' : q = 2 * (q / 2) := by omega
          have hidx : q * 2 ^ t + (2 ^ t - 1) + 2 ^ t = q / 2 * (2 * 2 ^ t) + (2 * 2 ^ t - 1) := by
            conv => lhs; rw [hq']
            exact fill_even _ _ hpt
          have hidx_lt2 := fill_lt2 q (2 ^ (n + 1)) (2 ^ t) hpt (by omega)
          rw [← hpow] at hidx_lt2
          have hne : ¬ (q * 2 ^ t + (2 ^ t - 1) + 2 ^ t = U32_MAX) := by simp [U32_MAX]; omega
          simp only [hne, ↓reduceIte]
          rw [hidx, hzz]
          have : 1 + zerosLow (q / 2) n - 1 = zerosLow (q / 2) n := by omega
          rw [this, hpow1]
          exact hres (by omega)
        · have h1 : q % 2 = 1 := by omega
          have hzz : zerosLow q (n + 1) = zerosLow (q / 2) n := by
            conv => lhs; unfold zerosLow
            simp [h1]
          have hb : ((1 : Nat) == 0) = false := rfl
          simp only [h1, hb, Bool.false_eq_true, ↓reduceIte]
          have hq' : q = 2 * (q / 2) + 1 := by omega
          have hidx : q * 2 ^ t + (2 ^ t - 1) = q / 2 * (2 * 2 ^ t) + (2 * 2 ^ t - 1) := by
            conv => lhs; rw [hq']
            exact fill_odd _ _ hpt
          have hne : ¬ (q * 2 ^ t + (2 ^ t - 1) = U32_MAX) := by simp [U32_MAX]; omega
          simp only [hne, ↓reduceIte]
          rw [hidx, hzz, hpow1]
          exact hres (by omega)

/-- `compute_tree_size` for a single-leaf proof with `j` siblings at an index inside a perfect `2^j`-leaf tree -/
theorem computeTreeSize_perfect {j idx : Nat} (hj : j ≤ 31) (hi : idx < 2 ^ j) :
    computeTreeSize (j - computeNumLeftSiblings idx) idx = .ok (2 ^ j) := by
  have hpz := popcount_zeros j idx idx hi (Nat.le_refl _)
  have hz : j - computeNumLeftSiblings idx = zerosLow idx j := by unfold computeNumLeftSiblings; omega
  rw [hz]
  have := computeTreeSizeAux_fill j idx 0 (zerosLow idx j + 70) hi (by omega) (by omega)
  simpa [computeTreeSize] using this


theorem takeLast?_append_singleton {α} (pre : List α) (a : α) : takeLast? (pre ++ [a]) = some (a, pre) := by
  simp [takeLast?]

theorem inner_fwd_right1 {H : HashFn} {ign : Bool} {fuel : Nat} {x : NsHash} {proof : List NsHash}
    {start size offset : Nat} {sib h : NsHash} {rest : List NsHash}
    (hge : nextSmallerPo2 size + offset ≤ start) (h1 : size - nextSmallerPo2 size = 1)
    (htl : takeLast? proof = some (sib, rest)) (hn : hashNodes H ign sib x = .ok h) :
    checkRangeProofInner H ign (fuel + 1) [x] proof start size offset = .ok (h, [], rest) := by
  unfold checkRangeProofInner
  have h0 : ¬ ([x].length + start = 0) := by simp
  have hnl : ¬ (start < nextSmallerPo2 size + offset) := by omega
  have hge' : [x].length + start - 1 ≥ nextSmallerPo2 size + offset := by simp; omega
  simp only [h0, ↓reduceIte, hge', h1, hnl]
  simp [takeLast?] at htl ⊢
  cases hg : proof.getLast? with
  | none => simp [hg] at htl
  | some y =>
    simp only [hg, Option.some.injEq, Prod.mk.injEq] at htl
    simp [hg, htl.1, htl.2, hn]

theorem inner_fwd_right {H : HashFn} {ign : Bool} {fuel : Nat} {x : NsHash} {proof : List NsHash}
    {start size offset : Nat} {right sib h : NsHash} {pf1 rest : List NsHash}
    (hge : nextSmallerPo2 size + offset ≤ start) (h1 : size - nextSmallerPo2 size ≠ 1)
    (hrec : checkRangeProofInner H ign fuel [x] proof start (size - nextSmallerPo2 size) (offset + nextSmallerPo2 size) = .ok (right, [], pf1))
    (htl : takeLast? pf1 = some (sib, rest)) (hn : hashNodes H ign sib right = .ok h) :
    checkRangeProofInner H ign (fuel + 1) [x] proof start size offset = .ok (h, [], rest) := by
  unfold checkRangeProofInner
  have h0 : ¬ ([x].length + start = 0) := by simp
  have hnl : ¬ (start < nextSmallerPo2 size + offset) := by omega
  have hge' : [x].length + start - 1 ≥ nextSmallerPo2 size + offset := by simp; omega
  simp only [h0, ↓reduceIte, hge', h1, hnl, hrec, htl, hn]

theorem inner_fwd_left1 {H : HashFn} {ign : Bool} {fuel : Nat} {x : NsHash} {proof : List NsHash}
    {start size offset : Nat} {sib h : NsHash} {rest : List NsHash}
    (hlt : start < nextSmallerPo2 size + offset) (h1 : nextSmallerPo2 size = 1)
    (htl : takeLast? proof = some (sib, rest)) (hn : hashNodes H ign x sib = .ok h) :
    checkRangeProofInner H ign (fuel + 1) [x] proof start size offset = .ok (h, [], rest) := by
  unfold checkRangeProofInner
  have h0 : ¬ ([x].length + start = 0) := by simp
  have hge' : ¬ ([x].length + start - 1 ≥ nextSmallerPo2 size + offset) := by simp; omega
  rw [h1] at hlt hge'
  have hge'' : ¬ (1 + offset ≤ start) := by omega
  simp only [h0, ↓reduceIte, h1, hge', htl, hlt]
  simp [takeLast?, hn, hge'', hlt]

theorem inner_fwd_left {H : HashFn} {ign : Bool} {fuel : Nat} {x : NsHash} {proof : List NsHash}
    {start size offset : Nat} {left sib h : NsHash} {pf1 rest : List NsHash}
    (hlt : start < nextSmallerPo2 size + offset) (h1 : nextSmallerPo2 size ≠ 1)
    (htl : takeLast? proof = some (sib, pf1))
    (hrec : checkRangeProofInner H ign fuel [x] pf1 start (nextSmallerPo2 size) offset = .ok (left, [], rest))
    (hn : hashNodes H ign left sib = .ok h) :
    checkRangeProofInner H ign (fuel + 1) [x] proof start size offset = .ok (h, [], rest) := by
  unfold checkRangeProofInner
  have h0 : ¬ ([x].length + start = 0) := by simp
  have hge' : ¬ ([x].length + start - 1 ≥ nextSmallerPo2 size + offset) := by simp; omega
  simp only [h0, ↓reduceIte, hge', htl, hlt, h1, hrec, hn]

theorem buildRangeProofAux_unfold {H : HashFn} {ign : Bool} {fuel : Nat} {L : List NsHash} (h2 : 2 ≤ L.length)
    (off s e : Nat) :
    buildRangeProofAux H ign (fuel + 1) L off s e =
      (match (if s ≥ off + nextSmallerPo2 L.length then (computeRoot H ign (L.take (nextSmallerPo2 L.length))).map (fun x => [x])
              else if s > off ∨ e < off + nextSmallerPo2 L.length then buildRangeProofAux H ign fuel (L.take (nextSmallerPo2 L.length)) off s e
              else .ok []) with
       | .error er => .error er
       | .ok l =>
         match (if e ≤ off + nextSmallerPo2 L.length then (computeRoot H ign (L.drop (nextSmallerPo2 L.length))).map (fun x => [x])
                else if s > off + nextSmallerPo2 L.length ∨ e < off + L.length then
                  buildRangeProofAux H ign fuel (L.drop (nextSmallerPo2 L.length)) (off + nextSmallerPo2 L.length) s e
                else .ok []) with
         | .error er => .error er
         | .ok r => .ok (l ++ r)) := by
  match L, h2 with
  | a :: b :: rest, _ => rfl

theorem nextSmallerPo2_two : nextSmallerPo2 2 = 1 := by decide

theorem computeRoot_single {H : HashFn} {ign : Bool} (a : NsHash) : computeRoot H ign [a] = .ok a := rfl

theorem build_single_perfect {H : HashFn} {ign : Bool} : ∀ (j fuelB fuelC : Nat) (L : List NsHash) (off idx : Nat)
    (pre : List NsHash) (root x : NsHash),
    L.length = 2 ^ (j + 1) → off ≤ idx → idx < off + 2 ^ (j + 1) → perfectRoot H ign (j + 1) L = .ok root →
    2 ^ (j + 1) < fuelB → j + 1 ≤ fuelC → L[idx - off]? = some x →
    ∃ sibs, buildRangeProofAux H ign fuelB L off idx (idx + 1) = .ok sibs ∧ sibs.length = j + 1 ∧
      checkRangeProofInner H ign fuelC [x] (pre ++ sibs) idx (2 ^ (j + 1)) off = .ok (root, [], pre) := by
  intro j
  induction j with
  | zero =>
    intro fuelB fuelC L off idx pre root x hl ho hi hr hfb hfc hx
    match L, hl with
    | [a, b], _ =>
      obtain ⟨fb, rfl⟩ : ∃ fb, fuelB = fb + 1 := ⟨fuelB - 1, by omega⟩
      obtain ⟨fc, rfl⟩ : ∃ fc, fuelC = fc + 1 := ⟨fuelC - 1, by omega⟩
      obtain ⟨l, r, hl', hr', hn⟩ := perfectRoot_succ hr
      have ea : l = a := by have := perfectRoot_zero hl'; simpa using this.symm
      have eb : r = b := by have := perfectRoot_zero hr'; simpa using this.symm
      subst ea; subst eb
      rw [buildRangeProofAux_unfold (by simp)]
      simp only [List.length_cons, List.length_nil, Nat.zero_add, Nat.reduceAdd, nextSmallerPo2_two]
      by_cases hc : idx = off
      · subst hc
        have hx' : x = l := by simpa using hx.symm
        subst hx'
        refine ⟨[r], ?_, rfl, ?_⟩
        · have c1 : ¬ (idx ≥ idx + 1) := by omega
          have c2 : ¬ (idx > idx ∨ idx + 1 < idx + 1) := by omega
          have c3 : idx + 1 ≤ idx + 1 := by omega
          simp [c1, c2, c3, computeRoot_single, Except.map]
        · exact inner_fwd_left1 (by rw [show (2:Nat)^(0+1) = 2 from rfl, nextSmallerPo2_two]; omega)
            (by rw [show (2:Nat)^(0+1) = 2 from rfl, nextSmallerPo2_two]) (takeLast?_append_singleton pre r) hn
      · have hidx : idx = off + 1 := by simp at hi; omega
        subst hidx
        have hx' : x = r := by simpa using hx.symm
        subst hx'
        refine ⟨[l], ?_, rfl, ?_⟩
        · have c1 : off + 1 ≥ off + 1 := by omega
          have c2 : ¬ (off + 1 + 1 ≤ off + 1) := by omega
          have c3 : ¬ (off + 1 > off + 1 ∨ off + 1 + 1 < off + 2) := by omega
          simp [c1, c2, c3, computeRoot_single, Except.map]
        · exact inner_fwd_right1 (by rw [show (2:Nat)^(0+1) = 2 from rfl, nextSmallerPo2_two]; omega)
            (by rw [show (2:Nat)^(0+1) = 2 from rfl, nextSmallerPo2_two]) (takeLast?_append_singleton pre l) hn
  | succ j ih =>
    intro fuelB fuelC L off idx pre root x hl ho hi hr hfb hfc hx
    obtain ⟨fb, rfl⟩ : ∃ fb, fuelB = fb + 1 := ⟨fuelB - 1, by omega⟩
    obtain ⟨fc, rfl⟩ : ∃ fc, fuelC = fc + 1 := ⟨fuelC - 1, by omega⟩
    obtain ⟨l, r, hl', hr', hn⟩ := perfectRoot_succ hr
    have hpow : 2 ^ (j + 1 + 1) = 2 ^ (j + 1) + 2 ^ (j + 1) := by rw [Nat.pow_succ]; omega
    have h2 : 2 ≤ 2 ^ (j + 1) := two_le_two_pow_succ j
    have hlt : (L.take (2 ^ (j + 1))).length = 2 ^ (j + 1) := by rw [List.length_take, hl]; omega
    have hld : (L.drop (2 ^ (j + 1))).length = 2 ^ (j + 1) := by rw [List.length_drop, hl]; omega
    have hne1 : 2 ^ (j + 1) ≠ 1 := by omega
    rw [buildRangeProofAux_unfold (by omega)]
    simp only [hl, nextSmallerPo2_pow]
    by_cases hc : idx < off + 2 ^ (j + 1)
    · -- the leaf is in the left half
      have hxl : (L.take (2 ^ (j + 1)))[idx - off]? = some x := by
        rw [List.getElem?_take]; simp [show idx - off < 2 ^ (j + 1) by omega, hx]
      obtain ⟨sl, hbl, hsl, hcl⟩ := ih fb fc (L.take (2 ^ (j + 1))) off idx pre l x hlt ho hc hl' (by omega) (by omega) hxl
      refine ⟨sl ++ [r], ?_, by simp [hsl], ?_⟩
      · have c1 : ¬ (idx ≥ off + 2 ^ (j + 1)) := by omega
        have c2 : idx > off ∨ idx + 1 < off + 2 ^ (j + 1) := by omega
        have c3 : idx + 1 ≤ off + 2 ^ (j + 1) := by omega
        simp only [c1, c2, c3, ↓reduceIte, hbl]
        rw [computeRoot_perfect hld, hr']
        rfl
      · rw [← List.append_assoc]
        exact inner_fwd_left (by rw [nextSmallerPo2_pow]; omega) (by rw [nextSmallerPo2_pow]; exact hne1)
          (takeLast?_append_singleton _ r) (by rw [nextSmallerPo2_pow]; exact hcl) hn
    · -- the leaf is in the right half
      have hxr : (L.drop (2 ^ (j + 1)))[idx - (off + 2 ^ (j + 1))]? = some x := by
        rw [List.getElem?_drop]
        have : 2 ^ (j + 1) + (idx - (off + 2 ^ (j + 1))) = idx - off := by omega
        rw [this]; exact hx
      obtain ⟨sr, hbr, hsr, hcr⟩ := ih fb fc (L.drop (2 ^ (j + 1))) (off + 2 ^ (j + 1)) idx (pre ++ [l]) r x hld
        (by omega) (by omega) hr' (by omega) (by omega) hxr
      refine ⟨[l] ++ sr, ?_, by simp [hsr], ?_⟩
      · have c1 : idx ≥ off + 2 ^ (j + 1) := by omega
        have c2 : ¬ (idx + 1 ≤ off + 2 ^ (j + 1)) := by omega
        have c3 : idx > off + 2 ^ (j + 1) ∨ idx + 1 < off + 2 ^ (j + 1 + 1) := by omega
        simp only [c1, c2, c3, ↓reduceIte, hbr]
        rw [computeRoot_perfect hlt, hl']
        rfl
      · have hsub : 2 ^ (j + 1 + 1) - 2 ^ (j + 1) = 2 ^ (j + 1) := by omega
        rw [← List.append_assoc]
        exact inner_fwd_right (by rw [nextSmallerPo2_pow]; omega) (by rw [nextSmallerPo2_pow, hsub]; exact hne1)
          (by rw [nextSmallerPo2_pow, hsub]; exact hcr) (takeLast?_append_singleton pre l) hn


/-- **Completeness of single-leaf range proofs on perfect trees**: the proof `build_range_proof(idx..idx+1)`
    builds for a tree of `2^j` leaves (1 ≤ j ≤ 31) has `j` siblings and is accepted by `check_range_proof`. -/
theorem range_single_complete {H : HashFn} {ign : Bool} {j : Nat} {L : List NsHash} {root x : NsHash} {idx : Nat}
    (hj1 : 1 ≤ j) (hj : j ≤ 31) (hl : L.length = 2 ^ j) (hroot : computeRoot H ign L = .ok root)
    (hi : idx < 2 ^ j) (hx : L[idx]? = some x) :
    ∃ sibs, buildRangeProof H ign L idx (idx + 1) = .ok sibs ∧ sibs.length = j ∧
      checkRangeProof H ign root [x] sibs idx = .ok () := by
  obtain ⟨j', rfl⟩ : ∃ j', j = j' + 1 := ⟨j - 1, by omega⟩
  have hpr := hroot
  rw [computeRoot_perfect hl] at hpr
  have hfc : j' + 1 ≤ 2 ^ (j' + 1) := Nat.le_of_lt Nat.lt_two_pow_self
  obtain ⟨sibs, hb, hs, hc⟩ := build_single_perfect j' (L.length + 1) (2 ^ (j' + 1)) L 0 idx [] root x hl
    (Nat.zero_le _) (by omega) hpr (by omega) hfc (by simpa using hx)
  refine ⟨sibs, ?_, hs, ?_⟩
  · unfold buildRangeProof
    have : ¬ (idx + 1 > L.length) := by omega
    simp only [hroot, this, ↓reduceIte, hb]
  · unfold checkRangeProof
    have hne : sibs.isEmpty = false := by
      cases sibs with
      | nil => simp at hs
      | cons a b => rfl
    have hpz := popcount_zeros (j' + 1) idx idx hi (Nat.le_refl _)
    have hnl : ¬ (sibs.length < computeNumLeftSiblings idx) := by unfold computeNumLeftSiblings; omega
    have h11 : idx + 1 - 1 = idx := by omega
    simp only [List.length_singleton, Nat.one_ne_zero, ↓reduceIte, hne, Bool.false_eq_true, and_false, hnl, h11, hs,
      computeTreeSize_perfect hj hi]
    simp only [List.nil_append] at hc
    simp [hc]
    unfold computeNumLeftSiblings; omega


theorem emptyRoot_WF {H : HashFn} (hk : HashLen H) : (emptyRoot H).WF := by
  refine ⟨by simp [emptyRoot], by simp [emptyRoot], hk _⟩

theorem computeRootAux_WF {H : HashFn} (hk : HashLen H) {ign : Bool} : ∀ (fuel : Nat) {L : List NsHash} {r : NsHash},
    (∀ x ∈ L, x.WF) → computeRootAux H ign fuel L = .ok r → r.WF := by
  intro fuel
  induction fuel with
  | zero => intro L r _ e; simp [computeRootAux] at e
  | succ f ih =>
    intro L r wl e
    match L, wl, e with
    | [], _, e => simp [computeRootAux] at e; rw [← e]; exact emptyRoot_WF hk
    | [x], wl, e => simp [computeRootAux] at e; rw [← e]; exact wl x (by simp)
    | a :: b :: rest, wl, e =>
      unfold computeRootAux at e
      simp only at e
      split at e
      · cases e
      · rename_i l hl
        split at e
        · cases e
        · rename_i rr hr
          exact hashNodes_WF hk (ih (fun x hx => wl x (List.mem_of_mem_take hx)) hl)
            (ih (fun x hx => wl x (List.mem_of_mem_drop hx)) hr) e

theorem computeRoot_WF {H : HashFn} (hk : HashLen H) {ign : Bool} {L : List NsHash} {r : NsHash}
    (wl : ∀ x ∈ L, x.WF) (e : computeRoot H ign L = .ok r) : r.WF := computeRootAux_WF hk _ wl e

theorem buildRangeProofAux_WF {H : HashFn} (hk : HashLen H) {ign : Bool} : ∀ (fuel : Nat) {L : List NsHash} {off s e : Nat}
    {sibs : List NsHash}, (∀ x ∈ L, x.WF) → buildRangeProofAux H ign fuel L off s e = .ok sibs → ∀ p ∈ sibs, p.WF := by
  intro fuel
  induction fuel with
  | zero => intro L off s e sibs _ h; simp [buildRangeProofAux] at h
  | succ f ih =>
    intro L off s e sibs wl h
    match L, wl, h with
    | [], _, h => simp [buildRangeProofAux] at h; subst h; intro p hp; simp at hp; subst hp; exact emptyRoot_WF hk
    | [x], wl, h =>
      simp only [buildRangeProofAux] at h
      injection h with h
      subst h
      intro p hp
      split at hp
      · simp at hp
      · simp at hp; rw [hp]; exact wl x (by simp)
    | a :: b :: rest, wl, h =>
      rw [buildRangeProofAux_unfold (by simp)] at h
      have wt : ∀ x ∈ (a :: b :: rest).take (nextSmallerPo2 (a :: b :: rest).length), x.WF :=
        fun x hx => wl x (List.mem_of_mem_take hx)
      have wd : ∀ x ∈ (a :: b :: rest).drop (nextSmallerPo2 (a :: b :: rest).length), x.WF :=
        fun x hx => wl x (List.mem_of_mem_drop hx)
      split at h
      · cases h
      · rename_i l hl
        split at h
        · cases h
        · rename_i r hr
          injection h with h
          subst h
          have wlft : ∀ p ∈ l, p.WF := by
            split at hl
            · cases hc : computeRoot H ign ((a :: b :: rest).take (nextSmallerPo2 (a :: b :: rest).length)) with
              | error er => rw [hc] at hl; simp [Except.map] at hl
              | ok x =>
                rw [hc] at hl
                simp only [Except.map, Except.ok.injEq] at hl
                subst hl
                intro p hp; simp at hp; subst hp; exact computeRoot_WF hk wt hc
            · split at hl
              · exact ih wt hl
              · injection hl with hl; subst hl; intro p hp; simp at hp
          have wrgt : ∀ p ∈ r, p.WF := by
            split at hr
            · cases hc : computeRoot H ign ((a :: b :: rest).drop (nextSmallerPo2 (a :: b :: rest).length)) with
              | error er => rw [hc] at hr; simp [Except.map] at hr
              | ok x =>
                rw [hc] at hr
                simp only [Except.map, Except.ok.injEq] at hr
                subst hr
                intro p hp; simp at hp; subst hp; exact computeRoot_WF hk wd hc
            · split at hr
              · exact ih wd hr
              · injection hr with hr; subst hr; intro p hp; simp at hp
          intro p hp
          rcases List.mem_append.mp hp with h1 | h1
          · exact wlft p h1
          · exact wrgt p h1

theorem buildRangeProof_WF {H : HashFn} (hk : HashLen H) {ign : Bool} {L : List NsHash} {s e : Nat} {sibs : List NsHash}
    (wl : ∀ x ∈ L, x.WF) (h : buildRangeProof H ign L s e = .ok sibs) : ∀ p ∈ sibs, p.WF := by
  unfold buildRangeProof at h
  split at h
  · cases h
  · split at h
    · cases h
    · exact buildRangeProofAux_WF hk _ wl h

theorem ofBytes_toBytes {h : NsHash} (w : h.WF) : NsHash.ofBytes? h.toBytes = some h := by
  obtain ⟨a, b, c⟩ := w
  cases h with
  | mk mn mx hs =>
    simp only at a b c
    unfold NsHash.ofBytes? NsHash.toBytes
    have hl : (mn ++ mx ++ hs).length = NAMESPACED_HASH_SIZE := by simp [a, b, c, NAMESPACED_HASH_SIZE]; omega
    simp only [hl, ↓reduceIte, Option.some.injEq, NsHash.mk.injEq]
    refine ⟨?_, ?_, ?_⟩
    · rw [List.append_assoc, List.take_left' a]
    · rw [List.append_assoc, List.drop_left' a, List.take_left' b]
    · exact List.drop_left' (by simp [a, b]; omega)

theorem parseNodes_toBytes : ∀ {sibs : List NsHash}, (∀ p ∈ sibs, p.WF) → parseNodes (sibs.map NsHash.toBytes) = some sibs := by
  intro sibs
  induction sibs with
  | nil => intro _; rfl
  | cons a t ih =>
    intro w
    simp only [List.map_cons, parseNodes, ofBytes_toBytes (w a (by simp)), ih (fun p hp => w p (by simp [hp]))]


theorem AllLeaf.allWF {H : HashFn} (hk : HashLen H) {L : List NsHash} (al : AllLeaf H L) : ∀ x ∈ L, x.WF := by
  intro x hx
  obtain ⟨ns, d, hl, rfl⟩ := al x hx
  exact hashLeaf_WF hk hl

theorem computeRootAux_cons2 {H : HashFn} {ign : Bool} {fuel : Nat} {a b : NsHash} {rest : List NsHash} {r : NsHash}
    (e : computeRootAux H ign (fuel + 1) (a :: b :: rest) = .ok r) :
    ∃ l rr, computeRootAux H ign fuel ((a :: b :: rest).take (nextSmallerPo2 (a :: b :: rest).length)) = .ok l ∧
      computeRootAux H ign fuel ((a :: b :: rest).drop (nextSmallerPo2 (a :: b :: rest).length)) = .ok rr ∧
      hashNodes H ign l rr = .ok r := by
  unfold computeRootAux at e
  simp only at e
  split at e
  · cases e
  · rename_i l hl
    split at e
    · cases e
    · rename_i rr hr
      exact ⟨l, rr, hl, hr, e⟩

theorem ltB_irrefl : ∀ (a : Bytes), ltB a a = false := by
  intro a
  induction a with
  | nil => rfl
  | cons x t ih => simp [ltB, ih]

theorem ltB_trichotomy : ∀ (a b : Bytes), ltB a b = true ∨ a = b ∨ ltB b a = true := by
  intro a
  induction a with
  | nil => intro b; cases b <;> simp [ltB]
  | cons x t ih =>
    intro b
    cases b with
    | nil => simp [ltB]
    | cons y u =>
      by_cases h1 : x < y
      · left; simp [ltB, h1]
      · by_cases h2 : x = y
        · subst h2
          rcases ih u with h | h | h
          · left; simp [ltB, h]
          · right; left; rw [h]
          · right; right; simp [ltB, h]
        · right; right
          have : y < x := by
            rcases Nat.lt_trichotomy x.toNat y.toNat with h | h | h
            · exact absurd (UInt8.lt_iff_toNat_lt.mpr h) h1
            · exact absurd (UInt8.toNat_inj.mp h) h2
            · exact UInt8.lt_iff_toNat_lt.mpr h
          simp [ltB, this]

theorem ltB_asymm : ∀ {a b : Bytes}, ltB a b = true → ltB b a = false := by
  intro a
  induction a with
  | nil => intro b h; cases b <;> simp [ltB] at h ⊢
  | cons x t ih =>
    intro b h
    cases b with
    | nil => simp [ltB] at h
    | cons y u =>
      simp only [ltB] at h ⊢
      by_cases h1 : x < y
      · have h2 : ¬ (y < x) := by
          intro h2
          have := UInt8.lt_iff_toNat_lt.mp h1
          have := UInt8.lt_iff_toNat_lt.mp h2
          omega
        have h3 : ¬ (y = x) := by
          intro h3; subst h3
          have := UInt8.lt_iff_toNat_lt.mp h1
          omega
        simp [h2, h3]
      · simp only [h1, ↓reduceIte] at h
        by_cases h2 : x = y
        · subst h2
          simp only [↓reduceIte] at h
          simp [h1, ih h]
        · simp [h2] at h

theorem ltB_trans : ∀ {a b c : Bytes}, ltB a b = true → ltB b c = true → ltB a c = true := by
  intro a
  induction a with
  | nil =>
    intro b c h1 h2
    cases b with
    | nil => simp [ltB] at h1
    | cons y u => cases c with
      | nil => simp [ltB] at h2
      | cons z v => simp [ltB]
  | cons x t ih =>
    intro b c h1 h2
    cases b with
    | nil => simp [ltB] at h1
    | cons y u =>
      cases c with
      | nil => simp [ltB] at h2
      | cons z v =>
        simp only [ltB] at h1 h2 ⊢
        by_cases hxy : x < y
        · by_cases hyz : y < z
          · have : x < z := by
              have := UInt8.lt_iff_toNat_lt.mp hxy
              have := UInt8.lt_iff_toNat_lt.mp hyz
              exact UInt8.lt_iff_toNat_lt.mpr (by omega)
            simp [this]
          · simp only [hyz, ↓reduceIte] at h2
            by_cases hyz2 : y = z
            · subst hyz2; simp [hxy]
            · simp [hyz2] at h2
        · simp only [hxy, ↓reduceIte] at h1
          by_cases hxy2 : x = y
          · subst hxy2
            simp only [↓reduceIte] at h1
            by_cases hyz : x < z
            · simp [hyz]
            · simp only [hyz, ↓reduceIte] at h2 ⊢
              by_cases hyz2 : x = z
              · subst hyz2
                simp only [↓reduceIte] at h2 ⊢
                exact ih h1 h2
              · simp [hyz2] at h2
          · simp [hxy2] at h1

theorem leB_refl (a : Bytes) : leB a a = true := by simp [leB, ltB_irrefl]

theorem leB_trans {a b c : Bytes} (h1 : leB a b = true) (h2 : leB b c = true) : leB a c = true := by
  unfold leB at *
  simp only [Bool.not_eq_true'] at *
  rcases ltB_trichotomy c a with h | h | h
  · -- c < a: then with a ≤ b, c < b … contradiction with b ≤ c
    exfalso
    rcases ltB_trichotomy a b with h' | h' | h'
    · have := ltB_trans h h'; rw [this] at h2; cases h2
    · subst h'; rw [h] at h2; cases h2
    · rw [h'] at h1; cases h1
  · subst h; exact ltB_irrefl _
  · exact ltB_asymm h

theorem leB_total (a b : Bytes) : leB a b = true ∨ leB b a = true := by
  unfold leB
  rcases ltB_trichotomy a b with h | h | h
  · left; simp [ltB_asymm h]
  · subst h; left; simp [ltB_irrefl]
  · right; simp [ltB_asymm h]

theorem leB_antisymm {a b : Bytes} (h1 : leB a b = true) (h2 : leB b a = true) : a = b := by
  unfold leB at *
  simp only [Bool.not_eq_true'] at *
  rcases ltB_trichotomy a b with h | h | h
  · rw [h] at h2; cases h2
  · exact h
  · rw [h] at h1; cases h1

theorem ltB_of_not_leB {a b : Bytes} (h : leB a b = false) : ltB b a = true := by
  unfold leB at h; simpa using h

theorem leB_of_ltB {a b : Bytes} (h : ltB a b = true) : leB a b = true := by
  unfold leB; simp [ltB_asymm h]

theorem ltB_of_ltB_of_leB {a b c : Bytes} (h1 : ltB a b = true) (h2 : leB b c = true) : ltB a c = true := by
  rcases ltB_trichotomy b c with h | h | h
  · exact ltB_trans h1 h
  · subst h; exact h1
  · unfold leB at h2; rw [h] at h2; cases h2

theorem ltB_of_leB_of_ltB {a b c : Bytes} (h1 : leB a b = true) (h2 : ltB b c = true) : ltB a c = true := by
  rcases ltB_trichotomy a b with h | h | h
  · exact ltB_trans h h2
  · subst h; exact h2
  · unfold leB at h1; rw [h] at h1; cases h1

/-- every 29-byte string is at most the all-0xff namespace -/
theorem leB_maxNsId : ∀ (n : Nat) (a : Bytes), a.length = n → leB a (List.replicate n 255) = true := by
  intro n
  induction n with
  | zero => intro a h; have : a = [] := List.eq_nil_of_length_eq_zero h
            subst this; rfl
  | succ n ih =>
    intro a h
    cases a with
    | nil => simp at h
    | cons x t =>
      have ht : t.length = n := by simpa using h
      have := ih t ht
      unfold leB at this ⊢
      simp only [List.replicate_succ, ltB]
      have hx : ¬ ((255 : UInt8) < x) := by
        intro hh
        have := UInt8.lt_iff_toNat_lt.mp hh
        have := UInt8.toNat_lt x
        simp at *; omega
      simp only [hx, ↓reduceIte]
      by_cases h2 : (255 : UInt8) = x
      · simp only [h2, ↓reduceIte]; rw [← h2]; exact this
      · simp [h2]


/-- a leaf hash: equal min and max namespace of 29 bytes -/
def LeafNs (x : NsHash) : Prop := x.minNs = x.maxNs ∧ x.minNs.length = NS_SIZE

theorem leB_maxB_left (a b : Bytes) : leB a (maxB a b) = true := by
  unfold maxB; split
  · assumption
  · exact leB_refl a
theorem leB_maxB_right (a b : Bytes) : leB b (maxB a b) = true := by
  unfold maxB; split
  · exact leB_refl b
  · rename_i h
    rcases leB_total a b with h' | h'
    · exact absurd h' h
    · exact h'

theorem eq_maxNsId_of_le {a : Bytes} (hl : a.length = NS_SIZE) (h : leB maxNsId a = true) : a = maxNsId :=
  leB_antisymm (leB_maxNsId NS_SIZE a hl) h

/-- what the root of a namespace-sorted list of leaf hashes says about their namespaces (`ignore_max_ns = true`) -/
structure RangeOK (L : List NsHash) (r : NsHash) : Prop where
  minLe : ∀ x ∈ L, leB r.minNs x.minNs = true
  minMem : ∃ x ∈ L, r.minNs = x.minNs
  maxGe : ∀ x ∈ L, x.minNs ≠ maxNsId → leB x.minNs r.maxNs = true
  maxAll : (∀ x ∈ L, x.minNs = maxNsId) → r.maxNs = maxNsId
  maxNotAll : (∃ x ∈ L, x.minNs ≠ maxNsId) → r.maxNs ≠ maxNsId
  maxMem : ∃ x ∈ L, leB r.maxNs x.minNs = true
  maxMemNon : (∃ x ∈ L, x.minNs ≠ maxNsId) → ∃ x ∈ L, x.minNs ≠ maxNsId ∧ leB r.maxNs x.minNs = true
  minMax : leB r.minNs r.maxNs = true

theorem range_node {H : HashFn} {L : List NsHash} {k : Nat} {l rr r : NsHash} (hk1 : 1 ≤ k) (hklt : k < L.length)
    (hleaf : ∀ x ∈ L, LeafNs x) (hsort : L.Pairwise (fun a b => leB a.minNs b.minNs = true))
    (RL : RangeOK (L.take k) l) (RR : RangeOK (L.drop k) rr) (hn : hashNodes H true l rr = .ok r) : RangeOK L r := by
  have hsplit : L.take k ++ L.drop k = L := List.take_append_drop k L
  have hsort' := hsort
  rw [← hsplit, List.pairwise_append] at hsort'
  obtain ⟨hst, hsd, hcross⟩ := hsort'
  have hmemL : ∀ x, x ∈ L ↔ x ∈ L.take k ∨ x ∈ L.drop k := by
    intro x; conv => lhs; rw [← hsplit]
    exact List.mem_append
  obtain ⟨xl, hxl, hxle⟩ := RL.minMem
  obtain ⟨xr, hxr, hxre⟩ := RR.minMem
  have hlr : leB l.minNs rr.minNs = true := by rw [hxle, hxre]; exact hcross xl hxl xr hxr
  -- unfold hash_nodes
  unfold hashNodes at hn
  split at hn
  · cases hn
  · injection hn with hn
    subst hn
    have hmin : minB l.minNs rr.minNs = l.minNs := by unfold minB; simp [hlr]
    have hminLe : ∀ x ∈ L, leB l.minNs x.minNs = true := by
      intro x hx
      rcases (hmemL x).mp hx with h | h
      · exact RL.minLe x h
      · rw [hxle]; exact hcross xl hxl x h
    have hdropMax : rr.minNs = maxNsId → ∀ x ∈ L.drop k, x.minNs = maxNsId := by
      intro h x hx
      have := RR.minLe x hx
      rw [h] at this
      exact eq_maxNsId_of_le (hleaf x (List.mem_of_mem_drop hx)).2 this
    simp only [Bool.true_and, hmin]
    by_cases cA : (l.minNs == maxNsId) = true
    · have hA : l.minNs = maxNsId := by simpa using cA
      simp only [cA, ↓reduceIte]
      refine ⟨hminLe, ⟨xl, (hmemL xl).mpr (Or.inl hxl), hxle⟩, ?_, fun _ => rfl,
        (fun ⟨x, hx, hne'⟩ => absurd (eq_maxNsId_of_le (hleaf x hx).2 (by rw [← hA]; exact hminLe x hx)) hne'), ?_,
        (fun ⟨x, hx, hne'⟩ => absurd (eq_maxNsId_of_le (hleaf x hx).2 (by rw [← hA]; exact hminLe x hx)) hne'), ?_⟩
      · intro x hx _; exact leB_maxNsId NS_SIZE _ (hleaf x hx).2
      · exact ⟨xl, (hmemL xl).mpr (Or.inl hxl), by rw [← hxle, hA]; exact leB_refl _⟩
      · rw [hA]; exact leB_refl _
    · have hA : l.minNs ≠ maxNsId := by simpa using cA
      have notAll : ¬ (∀ x ∈ L, x.minNs = maxNsId) := by
        intro h; apply hA; rw [hxle]; exact h xl ((hmemL xl).mpr (Or.inl hxl))
      simp only [cA, Bool.false_eq_true, ↓reduceIte]
      by_cases cB : (rr.minNs == maxNsId) = true
      · have hB : rr.minNs = maxNsId := by simpa using cB
        simp only [cB, ↓reduceIte]
        refine ⟨hminLe, ⟨xl, (hmemL xl).mpr (Or.inl hxl), hxle⟩, ?_, fun h => absurd h notAll,
          (fun ⟨x, hx, hne'⟩ => by
            rcases (hmemL x).mp hx with h | h
            · exact RL.maxNotAll ⟨x, h, hne'⟩
            · exact absurd (hdropMax hB x h) hne'), ?_,
          (fun _ => by
            obtain ⟨y, hy, hyn, hyl⟩ := RL.maxMemNon ⟨xl, hxl, by rw [← hxle]; exact hA⟩
            exact ⟨y, (hmemL y).mpr (Or.inl hy), hyn, hyl⟩), RL.minMax⟩
        · intro x hx hne'
          rcases (hmemL x).mp hx with h | h
          · exact RL.maxGe x h hne'
          · exact absurd (hdropMax hB x h) hne'
        · obtain ⟨y, hy, hyl⟩ := RL.maxMem
          exact ⟨y, (hmemL y).mpr (Or.inl hy), hyl⟩
      · simp only [cB, Bool.false_eq_true, ↓reduceIte]
        refine ⟨hminLe, ⟨xl, (hmemL xl).mpr (Or.inl hxl), hxle⟩, ?_, fun h => absurd h notAll,
          (fun _ => by
            rcases maxB_cases l.maxNs rr.maxNs with h | h
            · rw [h]; exact RL.maxNotAll ⟨xl, hxl, by rw [← hxle]; exact hA⟩
            · rw [h]; exact RR.maxNotAll ⟨xr, hxr, by rw [← hxre]; simpa using cB⟩), ?_,
          (fun _ => by
            rcases maxB_cases l.maxNs rr.maxNs with h | h
            · obtain ⟨y, hy, hyn, hyl⟩ := RL.maxMemNon ⟨xl, hxl, by rw [← hxle]; exact hA⟩
              exact ⟨y, (hmemL y).mpr (Or.inl hy), hyn, by rw [h]; exact hyl⟩
            · obtain ⟨y, hy, hyn, hyl⟩ := RR.maxMemNon ⟨xr, hxr, by rw [← hxre]; simpa using cB⟩
              exact ⟨y, (hmemL y).mpr (Or.inr hy), hyn, by rw [h]; exact hyl⟩), ?_⟩
        · intro x hx hne'
          rcases (hmemL x).mp hx with h | h
          · exact leB_trans (RL.maxGe x h hne') (leB_maxB_left _ _)
          · exact leB_trans (RR.maxGe x h hne') (leB_maxB_right _ _)
        · rcases maxB_cases l.maxNs rr.maxNs with h | h
          · obtain ⟨y, hy, hyl⟩ := RL.maxMem
            exact ⟨y, (hmemL y).mpr (Or.inl hy), by rw [h]; exact hyl⟩
          · obtain ⟨y, hy, hyl⟩ := RR.maxMem
            exact ⟨y, (hmemL y).mpr (Or.inr hy), by rw [h]; exact hyl⟩
        · exact leB_trans RL.minMax (leB_maxB_left _ _)

theorem computeRootAux_range {H : HashFn} : ∀ (fuel : Nat) {L : List NsHash} {r : NsHash},
    L ≠ [] → (∀ x ∈ L, LeafNs x) → L.Pairwise (fun a b => leB a.minNs b.minNs = true) →
    computeRootAux H true fuel L = .ok r → RangeOK L r := by
  intro fuel
  induction fuel with
  | zero => intro L r _ _ _ e; simp [computeRootAux] at e
  | succ f ih =>
    intro L r hne hleaf hsort e
    match L, hne, hleaf, hsort, e with
    | [x], _, hleaf, _, e =>
      simp [computeRootAux] at e
      subst e
      obtain ⟨h1, h2⟩ := hleaf x (by simp)
      refine ⟨?_, ⟨x, by simp, rfl⟩, ?_, ?_,
        (fun ⟨y, hy, hne'⟩ => by simp at hy; subst hy; rw [← h1]; exact hne'),
        ⟨x, by simp, by rw [← h1]; exact leB_refl _⟩,
        (fun ⟨y, hy, hne'⟩ => by simp at hy; subst hy; exact ⟨y, by simp, hne', by rw [← h1]; exact leB_refl _⟩),
        by rw [← h1]; exact leB_refl _⟩
      · intro y hy; simp at hy; subst hy; exact leB_refl _
      · intro y hy _; simp at hy; subst hy; rw [← h1]; exact leB_refl _
      · intro h; rw [← h1]; exact h x (by simp)
    | a :: b :: rest, _, hleaf, hsort, e =>
      obtain ⟨l, rr, hl, hr, hn⟩ := computeRootAux_cons2 e
      obtain ⟨m, hm, hmlt, _⟩ := nextSmallerPo2_spec (a :: b :: rest).length (by simp)
      have hk1 : 1 ≤ nextSmallerPo2 (a :: b :: rest).length := by rw [hm]; exact Nat.one_le_two_pow
      have hklt : nextSmallerPo2 (a :: b :: rest).length < (a :: b :: rest).length := by rw [hm]; exact hmlt
      have hsplit := List.take_append_drop (nextSmallerPo2 (a :: b :: rest).length) (a :: b :: rest)
      have htne : (a :: b :: rest).take (nextSmallerPo2 (a :: b :: rest).length) ≠ [] := by
        intro h; have := congrArg List.length h; rw [List.length_take, List.length_nil] at this; omega
      have hdne : (a :: b :: rest).drop (nextSmallerPo2 (a :: b :: rest).length) ≠ [] := by
        intro h; have := congrArg List.length h; rw [List.length_drop, List.length_nil] at this; omega
      have hsort' := hsort
      rw [← hsplit, List.pairwise_append] at hsort'
      obtain ⟨hst, hsd, _⟩ := hsort'
      have RL := ih htne (fun x hx => hleaf x (List.mem_of_mem_take hx)) hst hl
      have RR := ih hdne (fun x hx => hleaf x (List.mem_of_mem_drop hx)) hsd hr
      exact range_node hk1 hklt hleaf hsort RL RR hn

/-! ## Collision-freeness RELATIVE to the byte strings actually hashed

The former hypothesis `HashOK` (injective on ALL byte strings with 32-byte output) was contradictory (pigeonhole), so
theorems that assumed it were vacuous; it and all lemmas stated with it have been removed (audit item X1).  The satisfiable formulation: the hash has no collision among an explicitly given set `S` of inputs — the
inputs hashed by the two computations a theorem compares (honest roots, verifier). -/

/-- `H` has no collision among the inputs satisfying `S` -/
def NoCollOn (H : HashFn) (S : Bytes → Prop) : Prop := ∀ a b, S a → S b → H a = H b → a = b

/-- 32-byte output and no collision among the inputs in `S` -/
structure HashOKOn (H : HashFn) (S : Bytes → Prop) : Prop where
  inj : NoCollOn H S
  len : HashLen H

theorem NoCollOn.mono {H : HashFn} {S S' : Bytes → Prop} (h : NoCollOn H S) (hs : ∀ x, S' x → S x) : NoCollOn H S' :=
  fun a b ha hb => h a b (hs a ha) (hs b hb)

theorem HashOKOn.mono {H : HashFn} {S S' : Bytes → Prop} (h : HashOKOn H S) (hs : ∀ x, S' x → S x) : HashOKOn H S' :=
  ⟨h.inj.mono hs, h.len⟩

theorem HashOKOn.hlen {H : HashFn} {S : Bytes → Prop} (hk : HashOKOn H S) : HashLen H := hk.len

/-- a violation of `NoCollOn` is an explicit collision among inputs of `S` -/
def CollisionIn (H : HashFn) (S : Bytes → Prop) : Prop := ∃ x y, S x ∧ S y ∧ x ≠ y ∧ H x = H y

theorem noCollOn_or_collision (H : HashFn) (S : Bytes → Prop) : NoCollOn H S ∨ CollisionIn H S := by
  by_cases h : NoCollOn H S
  · exact Or.inl h
  · right
    apply Classical.byContradiction
    intro hn
    apply h
    intro a b ha hb hab
    apply Classical.byContradiction
    intro hne
    exact hn ⟨a, b, ha, hb, hne, hab⟩

/-- the byte string hashed for a leaf: `0x00 ‖ ns ‖ data` -/
def leafInput (ns d : Bytes) : Bytes := LEAF_PREFIX :: (ns ++ d)
/-- the byte string hashed for an inner node: `0x01 ‖ left ‖ right` -/
def nodeInput (l r : NsHash) : Bytes := NODE_PREFIX :: (l.toBytes ++ r.toBytes)

/-- `x` is the hash of a leaf with a 29-byte namespace whose preimage is among the inputs in `S` -/
def IsLeafOn (H : HashFn) (S : Bytes → Prop) (x : NsHash) : Prop :=
  ∃ ns d, ns.length = NS_SIZE ∧ x = hashLeaf H ns d ∧ S (leafInput ns d)

def AllLeafOn (H : HashFn) (S : Bytes → Prop) (L : List NsHash) : Prop := ∀ x ∈ L, IsLeafOn H S x

theorem IsLeafOn.isLeaf {H : HashFn} {S : Bytes → Prop} {x : NsHash} (h : IsLeafOn H S x) : IsLeaf H x := by
  obtain ⟨ns, d, hl, hx, _⟩ := h; exact ⟨ns, d, hl, hx⟩
theorem AllLeafOn.allLeaf {H : HashFn} {S : Bytes → Prop} {L : List NsHash} (h : AllLeafOn H S L) : AllLeaf H L :=
  fun x hx => (h x hx).isLeaf
theorem AllLeafOn.take {H : HashFn} {S : Bytes → Prop} {L : List NsHash} (h : AllLeafOn H S L) (n : Nat) :
    AllLeafOn H S (L.take n) := fun x hx => h x (List.mem_of_mem_take hx)
theorem AllLeafOn.drop {H : HashFn} {S : Bytes → Prop} {L : List NsHash} (h : AllLeafOn H S L) (n : Nat) :
    AllLeafOn H S (L.drop n) := fun x hx => h x (List.mem_of_mem_drop hx)
theorem AllLeafOn.mono {H : HashFn} {S S' : Bytes → Prop} {L : List NsHash} (h : AllLeafOn H S L) (hs : ∀ x, S x → S' x) :
    AllLeafOn H S' L := by
  intro x hx; obtain ⟨ns, d, hl, he, hS⟩ := h x hx; exact ⟨ns, d, hl, he, hs _ hS⟩

/-- inputs hashed by `compute_root` over the leaf hashes `ls` (the inner nodes; leaves are hashed before) -/
def rootInputs (H : HashFn) (ign : Bool) : Nat → List NsHash → List Bytes
  | 0, _ => []
  | fuel + 1, ls =>
    match ls with
    | [] => []
    | [_] => []
    | _ =>
      let k := nextSmallerPo2 ls.length
      rootInputs H ign fuel (ls.take k) ++ rootInputs H ign fuel (ls.drop k) ++
        (match computeRootAux H ign fuel (ls.take k), computeRootAux H ign fuel (ls.drop k) with
         | .ok l, .ok r => [nodeInput l r]
         | _, _ => [])

/-- inputs hashed by the root computation of a perfect tree of depth `j` -/
def perfectInputs (H : HashFn) (ign : Bool) : Nat → List NsHash → List Bytes
  | 0, _ => []
  | j + 1, L =>
    perfectInputs H ign j (L.take (2 ^ j)) ++ perfectInputs H ign j (L.drop (2 ^ j)) ++
      (match perfectRoot H ign j (L.take (2 ^ j)), perfectRoot H ign j (L.drop (2 ^ j)) with
       | .ok l, .ok r => [nodeInput l r]
       | _, _ => [])

/-- inputs hashed by `check_range_proof_inner` (the `hash_nodes` calls of the recursion) -/
def innerInputs (H : HashFn) (ign : Bool) :
    Nat → List NsHash → List NsHash → Nat → Nat → Nat → List Bytes
  | 0, _, _, _, _, _ => []
  | fuel + 1, leaves, proof, start, size, offset =>
    let split := nextSmallerPo2 size
    if leaves.length + start = 0 then []
    else
      let endIdx := leaves.length + start - 1
      let rIn : List Bytes :=
        if endIdx ≥ split + offset then
          if size - split = 1 then [] else innerInputs H ign fuel leaves proof start (size - split) (offset + split)
        else []
      let rightRes : Except Err (NsHash × List NsHash × List NsHash) :=
        if endIdx ≥ split + offset then
          let rsize := size - split
          if rsize = 1 then
            match takeLast? leaves with
            | none => .error .missingLeaf
            | some (x, rest) => .ok (x, rest, proof)
          else checkRangeProofInner H ign fuel leaves proof start rsize (offset + split)
        else
          match takeLast? proof with
          | none => .error .missingProofNode
          | some (x, rest) => .ok (x, leaves, rest)
      match rightRes with
      | .error _ => rIn
      | .ok (right, leaves1, proof1) =>
        let lIn : List Bytes :=
          if start < split + offset then
            if split = 1 then [] else innerInputs H ign fuel leaves1 proof1 start split offset
          else []
        let leftRes : Except Err (NsHash × List NsHash × List NsHash) :=
          if start < split + offset then
            if split = 1 then
              match takeLast? leaves1 with
              | none => .error .missingLeaf
              | some (x, rest) => .ok (x, rest, proof1)
            else checkRangeProofInner H ign fuel leaves1 proof1 start split offset
          else
            match takeLast? proof1 with
            | none => .error .missingProofNode
            | some (x, rest) => .ok (x, leaves1, rest)
        match leftRes with
        | .error _ => rIn ++ lIn
        | .ok (left, _, _) => rIn ++ lIn ++ [nodeInput left right]

/-- inputs hashed by `check_range_proof(root, leaves, proof, start)` -/
def proofInputs (H : HashFn) (ign : Bool) (leaves proof : List NsHash) (start : Nat) : List Bytes :=
  if leaves.length = 0 then []
  else if leaves.length = 1 ∧ proof.isEmpty then []
  else
    let numLeft := computeNumLeftSiblings start
    if proof.length < numLeft then []
    else
      match computeTreeSize (proof.length - numLeft) (start + leaves.length - 1) with
      | .error _ => []
      | .ok treeSize => innerInputs H ign treeSize leaves proof start treeSize 0

/-! ### the five uses of injectivity, with membership side conditions -/

theorem hashNodes_hash_inj_on {H : HashFn} {S : Bytes → Prop} (hi : NoCollOn H S) {ign ign' : Bool}
    {l r l' r' h h' : NsHash} (wl : l.WF) (wr : r.WF) (wl' : l'.WF) (wr' : r'.WF)
    (e : hashNodes H ign l r = .ok h) (e' : hashNodes H ign' l' r' = .ok h')
    (hS : S (nodeInput l r)) (hS' : S (nodeInput l' r')) (hh : h.hash = h'.hash) : l = l' ∧ r = r' := by
  unfold hashNodes at e e'
  split at e
  · cases e
  · split at e'
    · cases e'
    · injection e with e; injection e' with e'
      subst e; subst e'
      have := hi _ _ hS hS' hh
      unfold nodeInput at this
      injection this with _ this
      have h1 := List.append_inj this (by rw [toBytes_length wl, toBytes_length wl'])
      exact ⟨toBytes_inj wl wl' h1.1, toBytes_inj wr wr' h1.2⟩

theorem leaf_ne_node_on {H : HashFn} {S : Bytes → Prop} (hi : NoCollOn H S) {ign : Bool} {ns d : Bytes} {l r h : NsHash}
    (e : hashNodes H ign l r = .ok h) (hS : S (leafInput ns d)) (hS' : S (nodeInput l r))
    (hh : (hashLeaf H ns d).hash = h.hash) : False := by
  unfold hashNodes at e
  split at e
  · cases e
  · injection e with e
    subst e
    have := hi _ _ hS hS' hh
    simp [leafInput, nodeInput, LEAF_PREFIX, NODE_PREFIX] at this

theorem hashLeaf_inj_on {H : HashFn} {S : Bytes → Prop} (hi : NoCollOn H S) {ns ns' d d' : Bytes}
    (hl : ns.length = ns'.length) (hS : S (leafInput ns d)) (hS' : S (leafInput ns' d'))
    (hh : (hashLeaf H ns d).hash = (hashLeaf H ns' d').hash) : ns = ns' ∧ d = d' := by
  have := hi _ _ hS hS' hh
  unfold leafInput at this
  injection this with _ this
  exact List.append_inj this hl

theorem emptyRoot_ne_node_on {H : HashFn} {S : Bytes → Prop} (hi : NoCollOn H S) {ign : Bool} {l r h : NsHash}
    (e : hashNodes H ign l r = .ok h) (hE : S []) (hS : S (nodeInput l r)) (hh : (emptyRoot H).hash = h.hash) : False := by
  unfold hashNodes at e
  split at e
  · cases e
  · injection e with e
    subst e
    have := hi _ _ hE hS hh
    simp [nodeInput] at this

theorem emptyRoot_ne_leaf_on {H : HashFn} {S : Bytes → Prop} (hi : NoCollOn H S) {ns d : Bytes}
    (hE : S []) (hS : S (leafInput ns d)) (hh : (emptyRoot H).hash = (hashLeaf H ns d).hash) : False := by
  have := hi _ _ hE hS hh
  simp [leafInput] at this


/-- inputs of one single-leaf step, leaf in the right child -/
theorem innerInputs_single_right {H : HashFn} {ign : Bool} {fuel : Nat} {x : NsHash} {proof : List NsHash}
    {start size offset : Nat} {right sib h : NsHash} {lv1 pf1 pf' : List NsHash}
    (split : Nat) (hsplit : split = nextSmallerPo2 size)
    (hge : split + offset ≤ start)
    (hrr : (size - split = 1 ∧ right = x ∧ lv1 = [] ∧ pf1 = proof) ∨
      (size - split ≠ 1 ∧
        checkRangeProofInner H ign fuel [x] proof start (size - split) (offset + split) = .ok (right, lv1, pf1)))
    (htl : takeLast? pf1 = some (sib, pf')) (hn : hashNodes H ign sib right = .ok h) :
    innerInputs H ign (fuel + 1) [x] proof start size offset =
      (if size - split = 1 then []
       else innerInputs H ign fuel [x] proof start (size - split) (offset + split)) ++
        [nodeInput sib right] := by
  subst hsplit
  conv => lhs; unfold innerInputs
  have h0 : ¬ ([x].length + start = 0) := by simp
  have hnl : ¬ (start < nextSmallerPo2 size + offset) := by omega
  have hge' : [x].length + start - 1 ≥ nextSmallerPo2 size + offset := by simp; omega
  simp only [h0, ↓reduceIte, hge', hnl]
  rcases hrr with ⟨h1, rfl, rfl, rfl⟩ | ⟨h1, hrec⟩
  · simp only [h1, ↓reduceIte, takeLast?, List.getLast?_singleton, List.dropLast_singleton]
    simp only [takeLast?] at htl
    cases hg : pf1.getLast? with
    | none => simp [hg] at htl
    | some y =>
      simp only [hg, Option.some.injEq, Prod.mk.injEq] at htl
      simp [htl.1]
  · simp only [h1, ↓reduceIte, hrec, htl, List.append_nil]

/-- inputs of one single-leaf step, leaf in the left child -/
theorem innerInputs_single_left {H : HashFn} {ign : Bool} {fuel : Nat} {x : NsHash} {proof : List NsHash}
    {start size offset : Nat} {left sib h : NsHash} {lv' pf1 pf' : List NsHash}
    (split : Nat) (hsplit : split = nextSmallerPo2 size)
    (hlt : start < split + offset)
    (htl : takeLast? proof = some (sib, pf1))
    (hll : (split = 1 ∧ left = x ∧ lv' = [] ∧ pf' = pf1) ∨
      (split ≠ 1 ∧ checkRangeProofInner H ign fuel [x] pf1 start split offset = .ok (left, lv', pf')))
    (hn : hashNodes H ign left sib = .ok h) :
    innerInputs H ign (fuel + 1) [x] proof start size offset =
      (if split = 1 then [] else innerInputs H ign fuel [x] pf1 start split offset) ++
        [nodeInput left sib] := by
  subst hsplit
  conv => lhs; unfold innerInputs
  have h0 : ¬ ([x].length + start = 0) := by simp
  have hge' : ¬ ([x].length + start - 1 ≥ nextSmallerPo2 size + offset) := by simp; omega
  simp only [h0, ↓reduceIte, hge', htl, hlt, List.nil_append]
  rcases hll with ⟨h1, rfl, _, _⟩ | ⟨h1, hrec⟩
  · simp [h1, takeLast?]
  · simp only [h1, ↓reduceIte, hrec]

/-- one step of the perfect-tree root computation, with the hashed input -/
theorem perfectInputs_succ {H : HashFn} {ign : Bool} {j : Nat} {L : List NsHash} {h : NsHash}
    (e : perfectRoot H ign (j + 1) L = .ok h) :
    ∃ l r, perfectRoot H ign j (L.take (2 ^ j)) = .ok l ∧ perfectRoot H ign j (L.drop (2 ^ j)) = .ok r ∧
      hashNodes H ign l r = .ok h ∧
      perfectInputs H ign (j + 1) L =
        perfectInputs H ign j (L.take (2 ^ j)) ++ perfectInputs H ign j (L.drop (2 ^ j)) ++ [nodeInput l r] := by
  obtain ⟨l, r, hl, hr, hn⟩ := perfectRoot_succ e
  refine ⟨l, r, hl, hr, hn, ?_⟩
  conv => lhs; unfold perfectInputs
  simp only [hl, hr]

theorem perfectRoot_succ_ne_leaf_on {H : HashFn} {S : Bytes → Prop} (hi : NoCollOn H S) {ign : Bool} {j : Nat}
    {L : List NsHash} {ns d : Bytes} (hS : S (leafInput ns d)) (hT : ∀ y ∈ perfectInputs H ign (j + 1) L, S y)
    (e : perfectRoot H ign (j + 1) L = .ok (hashLeaf H ns d)) : False := by
  obtain ⟨l, r, _, _, hn, hPI⟩ := perfectInputs_succ e
  exact leaf_ne_node_on hi hn hS (hT _ (by rw [hPI]; simp)) rfl

theorem IsLeafOn.WF {H : HashFn} {S : Bytes → Prop} {x : NsHash} (h : IsLeafOn H S x) (hk : HashLen H) : x.WF :=
  h.isLeaf.WF hk

/-- shallow verifier subtree against a deeper perfect real tree: impossible (relative collision-freeness) -/
theorem inner_single_shallow_on {H : HashFn} {S : Bytes → Prop} (hk : HashOKOn H S) {ign ign' : Bool} :
    ∀ (fuel j : Nat) {x : NsHash} {proof : List NsHash}
    {start size offset : Nat} {h : NsHash} {lv' pf' : List NsHash} {L : List NsHash},
    IsLeafOn H S x → (∀ p ∈ proof, p.WF) → AllLeafOn H S L →
    (∀ y ∈ innerInputs H ign fuel [x] proof start size offset, S y) → (∀ y ∈ perfectInputs H ign' (j + 1) L, S y) →
    2 ≤ size → size ≤ 2 ^ j →
    checkRangeProofInner H ign fuel [x] proof start size offset = .ok (h, lv', pf') →
    perfectRoot H ign' (j + 1) L = .ok h → False := by
  intro fuel
  induction fuel with
  | zero => intro j x proof start size offset h lv' pf' L _ _ _ _ _ _ _ e; simp [checkRangeProofInner] at e
  | succ f ih =>
    intro j x proof start size offset h lv' pf' L lx wp al hV hT h2 hsz e pr
    obtain ⟨m, hm, hlt, hle⟩ := nextSmallerPo2_spec size h2
    obtain ⟨l, r, hl, hr, hn', hPI⟩ := perfectInputs_succ pr
    have hTn : S (nodeInput l r) := hT _ (by rw [hPI]; simp)
    have hTl : ∀ y ∈ perfectInputs H ign' j (L.take (2 ^ j)), S y := fun y hy => hT y (by rw [hPI]; simp [hy])
    have hTr : ∀ y ∈ perfectInputs H ign' j (L.drop (2 ^ j)), S y := fun y hy => hT y (by rw [hPI]; simp [hy])
    have wl := perfectRoot_WF hk.hlen j (al.take _).allLeaf hl
    have wr := perfectRoot_WF hk.hlen j (al.drop _).allLeaf hr
    have hmj : m < j := (Nat.pow_lt_pow_iff_right (by omega)).mp (Nat.lt_of_lt_of_le hlt hsz)
    obtain ⟨j', rfl⟩ : ∃ j', j = j' + 1 := ⟨j - 1, by omega⟩
    have hmle : 2 ^ m ≤ 2 ^ j' := Nat.pow_le_pow_right (by omega) (by omega)
    rcases inner_single_step e _ hm.symm with ⟨hge, right, lv1, pf1, sib, hrr, htl, hn, _⟩ | ⟨hlt2, sib, pf1, left, htl, hll, hn⟩
    · have hpf1 := takeLast?_some htl
      have hI := innerInputs_single_right _ hm.symm hge hrr htl hn
      have hVn : S (nodeInput sib right) := hV _ (by rw [hI]; simp)
      rcases hrr with ⟨_, rfl, _, rfl⟩ | ⟨hne, hrec⟩
      · have wsib : sib.WF := wp sib (by rw [hpf1]; simp)
        obtain ⟨_, rfl⟩ := hashNodes_hash_inj_on hk.inj wsib (lx.WF hk.hlen) wl wr hn hn' hVn hTn rfl
        obtain ⟨ns, d, _, rfl, hS⟩ := lx
        exact perfectRoot_succ_ne_leaf_on hk.inj hS hTr hr
      · have hVr : ∀ y ∈ innerInputs H ign f [x] proof start (size - 2 ^ m) (offset + 2 ^ m), S y :=
          fun y hy => hV y (by rw [hI]; simp [hne, hy])
        obtain ⟨wright, wpf1⟩ := inner_single_WF hk.hlen f hrec (lx.WF hk.hlen) wp
        have wsib : sib.WF := wpf1 sib (by rw [hpf1]; simp)
        obtain ⟨_, rfl⟩ := hashNodes_hash_inj_on hk.inj wsib wright wl wr hn hn' hVn hTn rfl
        exact ih j' lx wp (al.drop _) hVr hTr (by omega) (by omega) hrec hr
    · have hpf := takeLast?_some htl
      have hI := innerInputs_single_left _ hm.symm hlt2 htl hll hn
      have hVn : S (nodeInput left sib) := hV _ (by rw [hI]; simp)
      have wsib : sib.WF := wp sib (by rw [hpf]; simp)
      have wpf1 : ∀ p ∈ pf1, p.WF := fun p hp => wp p (by rw [hpf]; simp [hp])
      rcases hll with ⟨_, rfl, _, rfl⟩ | ⟨hne, hrec⟩
      · obtain ⟨rfl, _⟩ := hashNodes_hash_inj_on hk.inj (lx.WF hk.hlen) wsib wl wr hn hn' hVn hTn rfl
        obtain ⟨ns, d, _, rfl, hS⟩ := lx
        exact perfectRoot_succ_ne_leaf_on hk.inj hS hTl hl
      · have hVl : ∀ y ∈ innerInputs H ign f [x] pf1 start (2 ^ m) offset, S y :=
          fun y hy => hV y (by rw [hI]; simp [hne, hy])
        obtain ⟨wleft, _⟩ := inner_single_WF hk.hlen f hrec (lx.WF hk.hlen) wpf1
        obtain ⟨rfl, _⟩ := hashNodes_hash_inj_on hk.inj wleft wsib wl wr hn hn' hVn hTn rfl
        have : 2 ≤ 2 ^ m := by
          have : 1 ≤ 2 ^ m := Nat.one_le_two_pow
          omega
        exact ih j' lx wpf1 (al.take _) hVl hTl this hmle hrec hl

theorem inner_single_perfect_on {H : HashFn} {S : Bytes → Prop} (hk : HashOKOn H S) {ign ign' : Bool} : ∀ (fuel m j : Nat) {x : NsHash} {proof : List NsHash}
    {start offset : Nat} {h : NsHash} {lv' pf' : List NsHash} {L : List NsHash},
    IsLeafOn H S x → (∀ p ∈ proof, p.WF) → AllLeafOn H S L →
    (∀ y ∈ innerInputs H ign fuel [x] proof start (2 ^ (m + 1)) offset, S y) → (∀ y ∈ perfectInputs H ign' j L, S y) → offset ≤ start → start < offset + 2 ^ (m + 1) →
    checkRangeProofInner H ign fuel [x] proof start (2 ^ (m + 1)) offset = .ok (h, lv', pf') →
    perfectRoot H ign' j L = .ok h → j = m + 1 ∧ L[start - offset]? = some x := by
  intro fuel
  induction fuel with
  | zero => intro m j x proof start offset h lv' pf' L _ _ _ _ _ _ _ e; simp [checkRangeProofInner] at e
  | succ f ih =>
    intro m j x proof start offset h lv' pf' L lx wp al hV hT hos hlt e pr
    have hstep := inner_single_step e _ (nextSmallerPo2_pow m).symm
    have hsub : 2 ^ (m + 1) - 2 ^ m = 2 ^ m := by rw [Nat.pow_succ]; omega
    rw [hsub] at hstep
    -- the real tree is not a single leaf
    cases j with
    | zero =>
      exfalso
      have hL := perfectRoot_zero pr
      obtain ⟨ns, d, _, rfl, hS⟩ := al h (by rw [hL]; simp)
      rcases hstep with ⟨hge, right, lv1, pf1, sib, hrr, htl, hn, _⟩ | ⟨hlt2, sib, pf1, left, htl, hll, hn⟩
      · have hI := innerInputs_single_right _ (nextSmallerPo2_pow m).symm hge (by rw [hsub]; exact hrr) htl hn
        exact leaf_ne_node_on hk.inj hn hS (hV _ (by rw [hI]; simp)) rfl
      · have hI := innerInputs_single_left _ (nextSmallerPo2_pow m).symm hlt2 htl hll hn
        exact leaf_ne_node_on hk.inj hn hS (hV _ (by rw [hI]; simp)) rfl
    | succ j' =>
      obtain ⟨l, r, hl, hr, hn', hPI⟩ := perfectInputs_succ pr
      have hTn : S (nodeInput l r) := hT _ (by rw [hPI]; simp)
      have hTl : ∀ y ∈ perfectInputs H ign' j' (L.take (2 ^ j')), S y := fun y hy => hT y (by rw [hPI]; simp [hy])
      have hTr : ∀ y ∈ perfectInputs H ign' j' (L.drop (2 ^ j')), S y := fun y hy => hT y (by rw [hPI]; simp [hy])
      have wl := perfectRoot_WF hk.hlen j' (al.take _).allLeaf hl
      have wr := perfectRoot_WF hk.hlen j' (al.drop _).allLeaf hr
      have hlenL := perfectRoot_length j' hl
      rcases hstep with ⟨hge, right, lv1, pf1, sib, hrr, htl, hn, _⟩ | ⟨hlt2, sib, pf1, left, htl, hll, hn⟩
      · have hpf1 := takeLast?_some htl
        have hI := innerInputs_single_right _ (nextSmallerPo2_pow m).symm hge (by rw [hsub]; exact hrr) htl hn
        rw [hsub] at hI
        have hVn : S (nodeInput sib right) := hV _ (by rw [hI]; simp)
        rcases hrr with ⟨h1, rfl, _, rfl⟩ | ⟨hne, hrec⟩
        · have wsib : sib.WF := wp sib (by rw [hpf1]; simp)
          obtain ⟨_, rfl⟩ := hashNodes_hash_inj_on hk.inj wsib (lx.WF hk.hlen) wl wr hn hn' hVn hTn rfl
          have hm0 : m = 0 := by
            cases m with
            | zero => rfl
            | succ m' => have := two_le_two_pow_succ m'; omega
          subst hm0
          cases j' with
          | succ j'' => obtain ⟨ns, d, _, rfl, hS⟩ := lx; exact (perfectRoot_succ_ne_leaf_on hk.inj hS hTr hr).elim
          | zero =>
            refine ⟨rfl, ?_⟩
            have hd := perfectRoot_zero hr
            have : start - offset = 1 := by simp at hlt hge; omega
            rw [this]
            have : (L.drop (2 ^ 0))[0]? = some right := by rw [hd]; rfl
            simpa using this
        · obtain ⟨wright, wpf1⟩ := inner_single_WF hk.hlen f hrec (lx.WF hk.hlen) wp
          have wsib : sib.WF := wpf1 sib (by rw [hpf1]; simp)
          obtain ⟨_, rfl⟩ := hashNodes_hash_inj_on hk.inj wsib wright wl wr hn hn' hVn hTn rfl
          obtain ⟨m', rfl⟩ : ∃ m', m = m' + 1 := by
            cases m with
            | zero => simp at hne
            | succ m' => exact ⟨m', rfl⟩
          have hlt' : start < offset + 2 ^ (m' + 1) + 2 ^ (m' + 1) := by
            have : 2 ^ (m' + 1 + 1) = 2 ^ (m' + 1) + 2 ^ (m' + 1) := by rw [Nat.pow_succ]; omega
            omega
          obtain ⟨hj, hx⟩ := ih m' j' lx wp (al.drop _) (fun y hy => hV y (by rw [hI]; simp [hne, hy])) hTr (by omega) hlt' hrec hr
          subst hj
          refine ⟨rfl, ?_⟩
          rw [List.getElem?_drop] at hx
          have : 2 ^ (m' + 1) + (start - (offset + 2 ^ (m' + 1))) = start - offset := by omega
          rw [this] at hx; exact hx
      · have hpf := takeLast?_some htl
        have hI := innerInputs_single_left _ (nextSmallerPo2_pow m).symm hlt2 htl hll hn
        have hVn : S (nodeInput left sib) := hV _ (by rw [hI]; simp)
        have wsib : sib.WF := wp sib (by rw [hpf]; simp)
        have wpf1 : ∀ p ∈ pf1, p.WF := fun p hp => wp p (by rw [hpf]; simp [hp])
        rcases hll with ⟨h1, rfl, _, rfl⟩ | ⟨hne, hrec⟩
        · obtain ⟨rfl, _⟩ := hashNodes_hash_inj_on hk.inj (lx.WF hk.hlen) wsib wl wr hn hn' hVn hTn rfl
          have hm0 : m = 0 := by
            cases m with
            | zero => rfl
            | succ m' => have := two_le_two_pow_succ m'; omega
          subst hm0
          cases j' with
          | succ j'' => obtain ⟨ns, d, _, rfl, hS⟩ := lx; exact (perfectRoot_succ_ne_leaf_on hk.inj hS hTl hl).elim
          | zero =>
            refine ⟨rfl, ?_⟩
            have hd := perfectRoot_zero hl
            have : start - offset = 0 := by simp at hlt2; omega
            rw [this]
            have : (L.take (2 ^ 0))[0]? = some left := by rw [hd]; rfl
            rw [List.getElem?_take] at this
            simpa using this
        · obtain ⟨wleft, _⟩ := inner_single_WF hk.hlen f hrec (lx.WF hk.hlen) wpf1
          obtain ⟨rfl, _⟩ := hashNodes_hash_inj_on hk.inj wleft wsib wl wr hn hn' hVn hTn rfl
          obtain ⟨m', rfl⟩ : ∃ m', m = m' + 1 := by
            cases m with
            | zero => simp at hne
            | succ m' => exact ⟨m', rfl⟩
          obtain ⟨hj, hx⟩ := ih m' j' lx wpf1 (al.take _) (fun y hy => hV y (by rw [hI]; simp [hne, hy])) hTl hos (by omega) hrec hl
          subst hj
          refine ⟨rfl, ?_⟩
          rw [List.getElem?_take] at hx
          split at hx
          · exact hx
          · cases hx


/-- general verifier subtree against a perfect real tree, the requested index inside the real tree:
    the leaf sits at its index -/
theorem inner_single_general_on {H : HashFn} {S : Bytes → Prop} (hk : HashOKOn H S) {ign ign' : Bool} : ∀ (fuel j : Nat) {x : NsHash} {proof : List NsHash}
    {start size offset : Nat} {h : NsHash} {lv' pf' : List NsHash} {L : List NsHash},
    IsLeafOn H S x → (∀ p ∈ proof, p.WF) → AllLeafOn H S L →
    (∀ y ∈ innerInputs H ign fuel [x] proof start size offset, S y) → (∀ y ∈ perfectInputs H ign' j L, S y) → 2 ≤ size → offset ≤ start → start < offset + 2 ^ j →
    checkRangeProofInner H ign fuel [x] proof start size offset = .ok (h, lv', pf') →
    perfectRoot H ign' j L = .ok h → L[start - offset]? = some x := by
  intro fuel
  induction fuel with
  | zero => intro j x proof start size offset h lv' pf' L _ _ _ _ _ _ _ _ e; simp [checkRangeProofInner] at e
  | succ f ih =>
    intro j x proof start size offset h lv' pf' L lx wp al hV hT h2 hos hlt e pr
    obtain ⟨m, hm, hmlt, hmle⟩ := nextSmallerPo2_spec size h2
    have hstep := inner_single_step e _ hm.symm
    cases j with
    | zero =>
      exfalso
      have hL := perfectRoot_zero pr
      obtain ⟨ns, d, _, rfl, hS⟩ := al h (by rw [hL]; simp)
      rcases hstep with ⟨hge, right, lv1, pf1, sib, hrr, htl, hn, _⟩ | ⟨hlt2, sib, pf1, left, htl, hll, hn⟩
      · have hI := innerInputs_single_right _ hm.symm hge hrr htl hn
        exact leaf_ne_node_on hk.inj hn hS (hV _ (by rw [hI]; simp)) rfl
      · have hI := innerInputs_single_left _ hm.symm hlt2 htl hll hn
        exact leaf_ne_node_on hk.inj hn hS (hV _ (by rw [hI]; simp)) rfl
    | succ j' =>
      obtain ⟨l, r, hl, hr, hn', hPI⟩ := perfectInputs_succ pr
      have hTn : S (nodeInput l r) := hT _ (by rw [hPI]; simp)
      have hTl : ∀ y ∈ perfectInputs H ign' j' (L.take (2 ^ j')), S y := fun y hy => hT y (by rw [hPI]; simp [hy])
      have hTr : ∀ y ∈ perfectInputs H ign' j' (L.drop (2 ^ j')), S y := fun y hy => hT y (by rw [hPI]; simp [hy])
      have wl := perfectRoot_WF hk.hlen j' (al.take _).allLeaf hl
      have wr := perfectRoot_WF hk.hlen j' (al.drop _).allLeaf hr
      rcases hstep with ⟨hge, right, lv1, pf1, sib, hrr, htl, hn, _⟩ | ⟨hlt2, sib, pf1, left, htl, hll, hn⟩
      · have hpf1 := takeLast?_some htl
        have hI := innerInputs_single_right _ hm.symm hge hrr htl hn
        have hVn : S (nodeInput sib right) := hV _ (by rw [hI]; simp)
        -- 2^m ≤ start - offset < 2^(j'+1), hence m ≤ j'
        have hmj : m ≤ j' := by
          have : 2 ^ m < 2 ^ (j' + 1) := by omega
          have := (Nat.pow_lt_pow_iff_right (by omega)).mp this
          omega
        rcases hrr with ⟨h1, rfl, _, rfl⟩ | ⟨hne, hrec⟩
        · have wsib : sib.WF := wp sib (by rw [hpf1]; simp)
          obtain ⟨_, rfl⟩ := hashNodes_hash_inj_on hk.inj wsib (lx.WF hk.hlen) wl wr hn hn' hVn hTn rfl
          cases j' with
          | succ j'' => obtain ⟨ns, d, _, rfl, hS⟩ := lx; exact (perfectRoot_succ_ne_leaf_on hk.inj hS hTr hr).elim
          | zero =>
            have hm0 : m = 0 := by omega
            subst hm0
            have hd := perfectRoot_zero hr
            have : start - offset = 1 := by simp at hlt hge; omega
            rw [this]
            have : (L.drop (2 ^ 0))[0]? = some right := by rw [hd]; rfl
            simpa using this
        · obtain ⟨wright, wpf1⟩ := inner_single_WF hk.hlen f hrec (lx.WF hk.hlen) wp
          have wsib : sib.WF := wpf1 sib (by rw [hpf1]; simp)
          obtain ⟨_, rfl⟩ := hashNodes_hash_inj_on hk.inj wsib wright wl wr hn hn' hVn hTn rfl
          by_cases hmeq : m = j'
          · subst hmeq
            have hlt' : start < offset + 2 ^ m + 2 ^ m := by
              have : 2 ^ (m + 1) = 2 ^ m + 2 ^ m := by rw [Nat.pow_succ]; omega
              omega
            have hx := ih m lx wp (al.drop _) (fun y hy => hV y (by rw [hI]; simp [hne, hy])) hTr (by omega) (by omega) hlt' hrec hr
            rw [List.getElem?_drop] at hx
            have : 2 ^ m + (start - (offset + 2 ^ m)) = start - offset := by omega
            rw [this] at hx; exact hx
          · exfalso
            obtain ⟨j'', rfl⟩ : ∃ j'', j' = j'' + 1 := ⟨j' - 1, by omega⟩
            have : 2 ^ m ≤ 2 ^ j'' := Nat.pow_le_pow_right (by omega) (by omega)
            exact inner_single_shallow_on hk f j'' lx wp (al.drop _) (fun y hy => hV y (by rw [hI]; simp [hne, hy])) hTr (by omega) (by omega) hrec hr
      · have hpf := takeLast?_some htl
        have hI := innerInputs_single_left _ hm.symm hlt2 htl hll hn
        have hVn : S (nodeInput left sib) := hV _ (by rw [hI]; simp)
        have wsib : sib.WF := wp sib (by rw [hpf]; simp)
        have wpf1 : ∀ p ∈ pf1, p.WF := fun p hp => wp p (by rw [hpf]; simp [hp])
        rcases hll with ⟨h1, rfl, _, rfl⟩ | ⟨hne, hrec⟩
        · obtain ⟨rfl, _⟩ := hashNodes_hash_inj_on hk.inj (lx.WF hk.hlen) wsib wl wr hn hn' hVn hTn rfl
          cases j' with
          | succ j'' => obtain ⟨ns, d, _, rfl, hS⟩ := lx; exact (perfectRoot_succ_ne_leaf_on hk.inj hS hTl hl).elim
          | zero =>
            have hd := perfectRoot_zero hl
            have : start - offset = 0 := by omega
            rw [this]
            have : (L.take (2 ^ 0))[0]? = some left := by rw [hd]; rfl
            rw [List.getElem?_take] at this
            simpa using this
        · obtain ⟨wleft, _⟩ := inner_single_WF hk.hlen f hrec (lx.WF hk.hlen) wpf1
          obtain ⟨rfl, _⟩ := hashNodes_hash_inj_on hk.inj wleft wsib wl wr hn hn' hVn hTn rfl
          obtain ⟨m', rfl⟩ : ∃ m', m = m' + 1 := by
            cases m with
            | zero => simp at hne
            | succ m' => exact ⟨m', rfl⟩
          obtain ⟨hj, hx⟩ := inner_single_perfect_on hk f m' j' lx wpf1 (al.take _) (fun y hy => hV y (by rw [hI]; simp [hne, hy])) hTl hos (by omega) hrec hl
          rw [List.getElem?_take] at hx
          split at hx
          · exact hx
          · cases hx



theorem rootInputs_perfect {H : HashFn} {ign : Bool} : ∀ (j fuel : Nat) (L : List NsHash),
    L.length = 2 ^ j → 2 ^ j < fuel → rootInputs H ign fuel L = perfectInputs H ign j L := by
  intro j
  induction j with
  | zero =>
    intro fuel L hl hf
    match L, hl with
    | [x], _ =>
      cases fuel with
      | zero => simp at hf
      | succ f => simp [rootInputs, perfectInputs]
  | succ j ih =>
    intro fuel L hl hf
    cases fuel with
    | zero => simp at hf
    | succ f =>
      have h2 := two_le_two_pow_succ j
      match L, hl with
      | [], hl => simp at hl; omega
      | [_], hl => simp at hl; omega
      | a :: b :: rest, hl =>
        conv => lhs; unfold rootInputs
        simp only
        rw [hl, nextSmallerPo2_pow]
        have hp : 2 ^ (j + 1) = 2 ^ j + 2 ^ j := by rw [Nat.pow_succ]; omega
        have h1 : ((a :: b :: rest).take (2 ^ j)).length = 2 ^ j := by rw [List.length_take, hl]; omega
        have h3 : ((a :: b :: rest).drop (2 ^ j)).length = 2 ^ j := by rw [List.length_drop, hl]; omega
        rw [ih f _ h1 (by omega), ih f _ h3 (by omega), computeRootAux_perfect j f _ h1 (by omega),
          computeRootAux_perfect j f _ h3 (by omega)]
        conv => rhs; unfold perfectInputs

/-- **Position binding of single-leaf range proofs against perfect trees** under collision-freeness relative to the
    inputs hashed by the verifier (`proofInputs`), by the honest root computation (`rootInputs`) and the leaf preimages. -/
theorem checkRangeProof_single_sound_on {H : HashFn} {S : Bytes → Prop} (hk : HashOKOn H S) {ign ign' : Bool} {j : Nat} {L : List NsHash}
    {root x : NsHash} {proof : List NsHash} {start : Nat}
    (al : AllLeafOn H S L) (hl : L.length = 2 ^ j) (hroot : computeRoot H ign' L = .ok root)
    (lx : IsLeafOn H S x) (wp : ∀ p ∈ proof, p.WF) (hs : start < 2 ^ j)
    (hV : ∀ y ∈ proofInputs H ign [x] proof start, S y) (hT : ∀ y ∈ rootInputs H ign' (L.length + 1) L, S y)
    (e : checkRangeProof H ign root [x] proof start = .ok ()) : L[start]? = some x := by
  rw [computeRoot_perfect hl] at hroot
  have hT' : ∀ y ∈ perfectInputs H ign' j L, S y := by
    intro y hy; apply hT; rw [rootInputs_perfect j _ L hl (by omega)]; exact hy
  unfold checkRangeProof at e
  simp only [List.length_singleton, Nat.one_ne_zero, ↓reduceIte, true_and] at e
  by_cases hp : proof.isEmpty = true
  · simp only [hp, ↓reduceIte] at e
    split at e
    · rename_i hc
      simp only [List.head?_cons, Bool.and_eq_true, beq_iff_eq, Option.some.injEq] at hc
      obtain ⟨rfl, rfl⟩ := hc
      cases j with
      | zero => rw [perfectRoot_zero hroot]; rfl
      | succ j' => obtain ⟨ns, d, _, rfl, hS⟩ := lx; exact (perfectRoot_succ_ne_leaf_on hk.inj hS hT' hroot).elim
    · cases e
  · simp only [hp, Bool.false_eq_true, ↓reduceIte] at e
    split at e
    · cases e
    · rename_i hnl
      have h11 : start + 1 - 1 = start := by omega
      rw [h11] at e
      cases hts : computeTreeSize (proof.length - computeNumLeftSiblings start) start with
      | error er => simp [hts] at e
      | ok treeSize =>
        simp only [hts] at e
        cases hin : checkRangeProofInner H ign treeSize [x] proof start treeSize 0 with
        | error er => simp [hin] at e
        | ok v =>
          obtain ⟨computed, lv', pf'⟩ := v
          simp only [hin] at e
          split at e
          · rename_i heq
            have heq' : computed = root := by simpa using heq
            subst heq'
            have hsz : 2 ≤ treeSize := by
              have hge := computeTreeSize_ge hts
              by_cases h0 : start = 0
              · subst h0
                have hn0 : computeNumLeftSiblings 0 = 0 := rfl
                rw [hn0] at hts
                have : 1 ≤ proof.length := by
                  cases proof with
                  | nil => simp at hp
                  | cons a b => simp
                exact computeTreeSize_ge_two (by omega) hts
              · omega
            have hV' : ∀ y ∈ innerInputs H ign treeSize [x] proof start treeSize 0, S y := by
              intro y hy; apply hV
              unfold proofInputs
              have hp' : ¬ (True ∧ proof.isEmpty = true) := by simp [hp]
              simp only [List.length_singleton, Nat.one_ne_zero, ↓reduceIte, hp', hnl, h11, hts]
              exact hy
            have := inner_single_general_on hk treeSize j lx wp al hV' hT' hsz (Nat.zero_le _) (by omega) hin hroot
            simpa using this
          · cases e


/-- one step of `compute_root` on at least two leaves, with the hashed inputs -/
theorem rootInputs_cons2 {H : HashFn} {ign : Bool} {fuel : Nat} {a b : NsHash} {rest : List NsHash} {r : NsHash}
    (e : computeRootAux H ign (fuel + 1) (a :: b :: rest) = .ok r) :
    ∃ l rr, computeRootAux H ign fuel ((a :: b :: rest).take (nextSmallerPo2 (a :: b :: rest).length)) = .ok l ∧
      computeRootAux H ign fuel ((a :: b :: rest).drop (nextSmallerPo2 (a :: b :: rest).length)) = .ok rr ∧
      hashNodes H ign l rr = .ok r ∧
      rootInputs H ign (fuel + 1) (a :: b :: rest) =
        rootInputs H ign fuel ((a :: b :: rest).take (nextSmallerPo2 (a :: b :: rest).length)) ++
        rootInputs H ign fuel ((a :: b :: rest).drop (nextSmallerPo2 (a :: b :: rest).length)) ++ [nodeInput l rr] := by
  obtain ⟨l, rr, hl, hr, hn⟩ := computeRootAux_cons2 e
  refine ⟨l, rr, hl, hr, hn, ?_⟩
  conv => lhs; unfold rootInputs
  simp only [hl, hr]

/-- **The hash part of an NMT root determines the leaves** (relative collision-freeness) -/
theorem computeRootAux_hash_inj_on {H : HashFn} {S : Bytes → Prop} (hk : HashOKOn H S) (hE : S []) {ign ign' : Bool} : ∀ (fuel fuel' : Nat) (L L' : List NsHash)
    (r r' : NsHash), L.length < fuel → L'.length < fuel' → AllLeafOn H S L → AllLeafOn H S L' →
    (∀ y ∈ rootInputs H ign fuel L, S y) → (∀ y ∈ rootInputs H ign' fuel' L', S y) →
    computeRootAux H ign fuel L = .ok r → computeRootAux H ign' fuel' L' = .ok r' → r.hash = r'.hash → L = L' := by
  intro fuel
  induction fuel with
  | zero => intro fuel' L L' r r' h; omega
  | succ f ih =>
    intro fuel' L L' r r' hf hf' al al' hT hT' e e' hh
    obtain ⟨f', rfl⟩ : ∃ f', fuel' = f' + 1 := ⟨fuel' - 1, by omega⟩
    match L, L', hf, hf', al, al', hT, hT', e, e' with
    | [], [], _, _, _, _, _, _, _, _ => rfl
    | [], [x'], _, _, _, al', _, _, e, e' =>
      exfalso
      simp [computeRootAux] at e e'
      subst e; subst e'
      obtain ⟨ns, d, _, hx, hS⟩ := al' x' (by simp)
      rw [hx] at hh
      exact emptyRoot_ne_leaf_on hk.inj hE hS hh
    | [], a' :: b' :: rest', _, _, _, _, _, hT', e, e' =>
      exfalso
      simp [computeRootAux] at e
      subst e
      obtain ⟨l, rr, _, _, hn, hRI⟩ := rootInputs_cons2 e'
      exact emptyRoot_ne_node_on hk.inj hn hE (hT' _ (by rw [hRI]; simp)) hh
    | [x], [], _, _, al, _, _, _, e, e' =>
      exfalso
      simp [computeRootAux] at e e'
      subst e; subst e'
      obtain ⟨ns, d, _, hx, hS⟩ := al x (by simp)
      rw [hx] at hh
      exact emptyRoot_ne_leaf_on hk.inj hE hS hh.symm
    | [x], [x'], _, _, al, al', _, _, e, e' =>
      simp [computeRootAux] at e e'
      subst e; subst e'
      obtain ⟨ns, d, hl, hx, hS⟩ := al x (by simp)
      obtain ⟨ns', d', hl', hx', hS'⟩ := al' x' (by simp)
      rw [hx, hx'] at hh
      obtain ⟨rfl, rfl⟩ := hashLeaf_inj_on hk.inj (by rw [hl, hl']) hS hS' hh
      rw [hx, hx']
    | [x], a' :: b' :: rest', _, _, al, _, _, hT', e, e' =>
      exfalso
      simp [computeRootAux] at e
      subst e
      obtain ⟨ns, d, _, hx, hS⟩ := al x (by simp)
      rw [hx] at hh
      obtain ⟨l, rr, _, _, hn, hRI⟩ := rootInputs_cons2 e'
      exact leaf_ne_node_on hk.inj hn hS (hT' _ (by rw [hRI]; simp)) hh
    | a :: b :: rest, [], _, _, _, _, hT, _, e, e' =>
      exfalso
      simp [computeRootAux] at e'
      subst e'
      obtain ⟨l, rr, _, _, hn, hRI⟩ := rootInputs_cons2 e
      exact emptyRoot_ne_node_on hk.inj hn hE (hT _ (by rw [hRI]; simp)) hh.symm
    | a :: b :: rest, [x'], _, _, _, al', hT, _, e, e' =>
      exfalso
      simp [computeRootAux] at e'
      subst e'
      obtain ⟨ns, d, _, hx, hS⟩ := al' x' (by simp)
      rw [hx] at hh
      obtain ⟨l, rr, _, _, hn, hRI⟩ := rootInputs_cons2 e
      exact leaf_ne_node_on hk.inj hn hS (hT _ (by rw [hRI]; simp)) hh.symm
    | a :: b :: rest, a' :: b' :: rest', hf, hf', al, al', hT, hT', e, e' =>
      obtain ⟨l, rr, hl, hr, hn, hRI⟩ := rootInputs_cons2 e
      obtain ⟨l', rr', hl', hr', hn', hRI'⟩ := rootInputs_cons2 e'
      have wl := computeRootAux_WF hk.hlen _ (AllLeaf.allWF hk.hlen (al.take _).allLeaf) hl
      have wr := computeRootAux_WF hk.hlen _ (AllLeaf.allWF hk.hlen (al.drop _).allLeaf) hr
      have wl' := computeRootAux_WF hk.hlen _ (AllLeaf.allWF hk.hlen (al'.take _).allLeaf) hl'
      have wr' := computeRootAux_WF hk.hlen _ (AllLeaf.allWF hk.hlen (al'.drop _).allLeaf) hr'
      obtain ⟨rfl, rfl⟩ := hashNodes_hash_inj_on hk.inj wl wr wl' wr' hn hn' (hT _ (by rw [hRI]; simp)) (hT' _ (by rw [hRI']; simp)) hh
      obtain ⟨m, hm, hmlt, _⟩ := nextSmallerPo2_spec (a :: b :: rest).length (by simp)
      obtain ⟨m', hm', hmlt', _⟩ := nextSmallerPo2_spec (a' :: b' :: rest').length (by simp)
      have h1 := ih f' _ _ _ _ (by rw [List.length_take]; omega) (by rw [List.length_take]; omega)
        (al.take _) (al'.take _) (fun y hy => hT y (by rw [hRI]; exact List.mem_append_left _ (List.mem_append_left _ hy)))
        (fun y hy => hT' y (by rw [hRI']; exact List.mem_append_left _ (List.mem_append_left _ hy))) hl hl' rfl
      have h2 := ih f' _ _ _ _ (by rw [List.length_drop]; omega) (by rw [List.length_drop]; omega)
        (al.drop _) (al'.drop _) (fun y hy => hT y (by rw [hRI]; exact List.mem_append_left _ (List.mem_append_right _ hy)))
        (fun y hy => hT' y (by rw [hRI']; exact List.mem_append_left _ (List.mem_append_right _ hy))) hr hr' rfl
      rw [← List.take_append_drop (nextSmallerPo2 (a :: b :: rest).length) (a :: b :: rest),
        ← List.take_append_drop (nextSmallerPo2 (a' :: b' :: rest').length) (a' :: b' :: rest'), h1, h2]

theorem computeRoot_hash_inj_on {H : HashFn} {S : Bytes → Prop} (hk : HashOKOn H S) (hE : S []) {ign ign' : Bool} {L L' : List NsHash} {r r' : NsHash}
    (al : AllLeafOn H S L) (al' : AllLeafOn H S L')
    (hT : ∀ y ∈ rootInputs H ign (L.length + 1) L, S y) (hT' : ∀ y ∈ rootInputs H ign' (L'.length + 1) L', S y) (e : computeRoot H ign L = .ok r) (e' : computeRoot H ign' L' = .ok r')
    (hh : r.hash = r'.hash) : L = L' :=
  computeRootAux_hash_inj_on hk hE _ _ L L' r r' (by omega) (by omega) al al' hT hT' e e' hh



end Lumina.Proofs.Nmt

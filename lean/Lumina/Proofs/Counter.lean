/-
  C41 — helper lemmas: the inductive invariant of the Counter transition system, the variant.
-/
import Lumina.Model.CounterObs

namespace Lumina.Proofs.Counter
open Lumina.Model.Counter

/-- states reachable from `init` by ANY interleaving of ANY labels (unbounded number of guards) -/
inductive Reachable : State → Prop
  | init : Reachable init
  | step {s s' : State} {l : Label} : Reachable s → step s l = some s' → Reachable s'

/-- the inductive invariant -/
structure Inv (s : State) : Prop where
  noEarly : ∀ g ∈ s.guards, g ≠ .early
  epochLe : ∀ e, (s.waiter = .armed e ∨ s.waiter = .awaiting e) → e ≤ s.epoch
  /-- no lost wake-up: a blocked waiter either still has a guard that is going to notify, or
      the notification it is waiting for has already happened -/
  noLost : ∀ e, s.waiter = .awaiting e → (∃ g ∈ s.guards, g = .alive ∨ g = .dec) ∨ e < s.epoch
  doneSafe : s.waiter = .done → ∀ g ∈ s.guards, g ≠ .alive

theorem getElem?_lt {α} {l : List α} {i : Nat} {a : α} (h : l[i]? = some a) : i < l.length := by
  obtain ⟨h1, _⟩ := List.getElem?_eq_some_iff.mp h
  exact h1

theorem mem_set_cases {α} {l : List α} {i : Nat} {a b : α} (h : b ∈ l.set i a) : b ∈ l ∨ b = a :=
  List.mem_or_eq_of_mem_set h

theorem inv_init : Inv init := by
  constructor <;> simp [init]

theorem holders_zero {s : State} (h : holders s = 0) : ∀ g ∈ s.guards, g ≠ .alive := by
  intro g hg hga
  subst hga
  have : 0 < s.guards.count .alive := List.count_pos_iff.mpr hg
  unfold holders at h
  omega

theorem inv_step {s s' : State} {l : Label} (hi : Inv s) (hs : step s l = some s') : Inv s' := by
  obtain ⟨h1, h2, h3, h4⟩ := hi
  cases l with
  | newGuard =>
    simp only [step] at hs
    split at hs
    · rename_i hw
      cases hs
      constructor
      · intro g hg
        simp only [List.mem_append, List.mem_singleton] at hg
        rcases hg with hg | hg
        · exact h1 g hg
        · subst hg; simp
      · intro e he; simp [hw] at he
      · intro e he; simp [hw] at he
      · intro hd; simp [hw] at hd
    · cases hs
  | decr i =>
    simp only [step] at hs
    split at hs
    · rename_i hg
      cases hs
      have hlt := getElem?_lt hg
      constructor
      · intro g hgm
        rcases mem_set_cases hgm with h | h
        · exact h1 g h
        · subst h; simp
      · exact h2
      · intro e he
        left
        exact ⟨.dec, List.mem_set hlt _, Or.inr rfl⟩
      · intro hd g hgm
        rcases mem_set_cases hgm with h | h
        · exact h4 hd g h
        · subst h; simp
    · cases hs
  | notify i =>
    simp only [step] at hs
    split at hs
    · rename_i hg
      cases hs
      constructor
      · intro g hgm
        rcases mem_set_cases hgm with h | h
        · exact h1 g h
        · subst h; simp
      · intro e he
        have := h2 e he
        simp only
        omega
      · intro e he
        right
        have := h2 e (Or.inr he)
        simp only
        omega
      · intro hd g hgm
        rcases mem_set_cases hgm with h | h
        · exact h4 hd g h
        · subst h; simp
    · cases hs
  | call =>
    simp only [step] at hs
    split at hs
    · cases hs
      constructor
      · exact h1
      · intro e he; simp at he
      · intro e he; simp at he
      · intro hd; simp at hd
    · cases hs
  | arm =>
    simp only [step] at hs
    split at hs
    · cases hs
      constructor
      · exact h1
      · intro e he
        simp at he
        subst he
        simp
      · intro e he; simp at he
      · intro hd; simp at hd
    · cases hs
  | check =>
    simp only [step] at hs
    split at hs
    · rename_i e hw
      split at hs
      · rename_i hz
        cases hs
        constructor
        · exact h1
        · intro e' he; simp at he
        · intro e' he; simp at he
        · intro _; exact holders_zero hz
      · rename_i hz
        cases hs
        constructor
        · exact h1
        · intro e' he
          simp at he
          subst he
          exact h2 e (Or.inl hw)
        · intro e' he
          simp at he
          subst he
          left
          -- some guard still holds the Arc; it is not `early`, so it is `alive`
          unfold holders at hz
          have hpos : 0 < s.guards.count .alive ∨ 0 < s.guards.count .early := by omega
          rcases hpos with hp | hp
          · exact ⟨.alive, List.count_pos_iff.mp hp, Or.inl rfl⟩
          · exact absurd rfl (h1 .early (List.count_pos_iff.mp hp))
        · intro hd; simp at hd
    · cases hs
  | wake =>
    simp only [step] at hs
    split at hs
    · split at hs
      · cases hs
        constructor
        · exact h1
        · intro e' he; simp at he
        · intro e' he; simp at he
        · intro hd; simp at hd
      · cases hs
    · cases hs
  | rearm =>
    simp only [step] at hs
    split at hs
    · cases hs
      constructor
      · exact h1
      · intro e he
        simp at he
        subst he
        simp
      · intro e he; simp at he
      · intro hd; simp at hd
    · cases hs
  | cancel =>
    simp only [step] at hs
    cases hs
    constructor
    · exact h1
    · intro e he; simp at he
    · intro e he; simp at he
    · intro hd; simp at hd

theorem inv_reachable {s : State} (h : Reachable s) : Inv s := by
  induction h with
  | init => exact inv_init
  | step _ hs ih => exact inv_step ih hs

/-! ### the variant -/

theorem count_set_of {l : List G} {i : Nat} {a b c : G} (h : l[i]? = some a) :
    (l.set i b).count c = l.count c - (if a == c then 1 else 0) + (if b == c then 1 else 0) := by
  obtain ⟨hlt, he⟩ := List.getElem?_eq_some_iff.mp h
  rw [List.count_set hlt, he]

theorem count_pos_of {l : List G} {i : Nat} {a : G} (h : l[i]? = some a) : 0 < l.count a := by
  obtain ⟨hlt, he⟩ := List.getElem?_eq_some_iff.mp h
  exact List.count_pos_iff.mpr (he ▸ List.getElem_mem hlt)

theorem variant_decreases {s s' : State} {l : Label} (hs : step s l = some s')
    (hl : l.isExternal = false) : variant s' < variant s := by
  cases l with
  | newGuard => simp [Label.isExternal] at hl
  | cancel => simp [Label.isExternal] at hl
  | decr i =>
    simp only [step] at hs
    split at hs
    · rename_i hg
      cases hs
      have hp := count_pos_of hg
      simp only [variant, pendingNotifies, count_set_of hg]
      simp only [beq_self_eq_true, ↓reduceIte, show (G.alive == G.dec) = false from rfl,
        show (G.dec == G.alive) = false from rfl, Bool.false_eq_true]
      cases s.waiter <;> simp only <;> (try split) <;> omega
    · cases hs
  | notify i =>
    simp only [step] at hs
    split at hs
    · rename_i hg
      cases hs
      have hp := count_pos_of hg
      simp only [variant, pendingNotifies, count_set_of hg]
      simp only [beq_self_eq_true, ↓reduceIte, show (G.notified == G.dec) = false from rfl,
        show (G.dec == G.alive) = false from rfl, show (G.notified == G.alive) = false from rfl,
        Bool.false_eq_true]
      cases s.waiter <;> simp only <;> (try split) <;> (try split) <;> omega
    · cases hs
  | call =>
    simp only [step] at hs
    split at hs
    · rename_i hw
      cases hs
      simp only [variant, pendingNotifies, hw]
      omega
    · cases hs
  | arm =>
    simp only [step] at hs
    split at hs
    · rename_i hw
      cases hs
      simp only [variant, pendingNotifies, hw]
      simp
    · cases hs
  | check =>
    simp only [step] at hs
    split at hs
    · rename_i e hw
      split at hs
      · cases hs
        simp only [variant, pendingNotifies, hw]
        omega
      · cases hs
        simp only [variant, pendingNotifies, hw]
        omega
    · cases hs
  | wake =>
    simp only [step] at hs
    split at hs
    · rename_i e hw
      split at hs
      · rename_i hne
        cases hs
        simp only [variant, pendingNotifies, hw]
        rw [if_pos hne]
        omega
      · cases hs
    · cases hs
  | rearm =>
    simp only [step] at hs
    split at hs
    · rename_i hw
      cases hs
      simp only [variant, pendingNotifies, hw]
      simp
    · cases hs

/-! ### runs -/

theorem reachable_run {s s' : State} {ls : List Label} (h : Reachable s) (hr : run s ls = some s') :
    Reachable s' := by
  induction ls generalizing s with
  | nil => simp [run, runWith] at hr; subst hr; exact h
  | cons l ls ih =>
    simp only [run, runWith] at hr
    split at hr
    · rename_i s1 hs1
      exact ih (Reachable.step h hs1) hr
    · cases hr

theorem step_not_idle {s s' : State} {l : Label} (hs : step s l = some s')
    (hl : l.isExternal = false) (hw : s.waiter ≠ .idle) : s'.waiter ≠ .idle := by
  cases l <;> simp only [step] at hs
  case newGuard => simp [Label.isExternal] at hl
  case cancel => simp [Label.isExternal] at hl
  case decr i => split at hs <;> cases hs; exact hw
  case notify i => split at hs <;> cases hs; exact hw
  case call => split at hs <;> cases hs; simp
  case arm => split at hs <;> cases hs; simp
  case check =>
    split at hs
    · split at hs <;> cases hs <;> simp
    · cases hs
  case wake =>
    split at hs
    · split at hs <;> cases hs; simp
    · cases hs
  case rearm => split at hs <;> cases hs; simp

theorem run_not_idle {s s' : State} {ls : List Label} (hr : run s ls = some s')
    (hl : ∀ l ∈ ls, l.isExternal = false) (hw : s.waiter ≠ .idle) : s'.waiter ≠ .idle := by
  induction ls generalizing s with
  | nil => simp [run, runWith] at hr; subst hr; exact hw
  | cons l ls ih =>
    simp only [run, runWith] at hr
    split at hr
    · rename_i s1 hs1
      exact ih hr (fun l' hl' => hl l' (List.mem_cons_of_mem _ hl'))
        (step_not_idle hs1 (hl l List.mem_cons_self) hw)
    · cases hr

theorem run_variant {s s' : State} {ls : List Label} (hr : run s ls = some s')
    (hl : ∀ l ∈ ls, l.isExternal = false) : ls.length + variant s' ≤ variant s := by
  induction ls generalizing s with
  | nil => simp [run, runWith] at hr; subst hr; simp
  | cons l ls ih =>
    simp only [run, runWith] at hr
    split at hr
    · rename_i s1 hs1
      have h1 := ih hr (fun l' hl' => hl l' (List.mem_cons_of_mem _ hl'))
      have h2 := variant_decreases hs1 (hl l List.mem_cons_self)
      simp only [List.length_cons]
      omega
    · cases hr

/-- deadlock freedom: while the wait is in progress some step of the protocol is enabled -/
theorem progress {s : State} (h : Reachable s) (hi : s.waiter ≠ .idle) (hd : s.waiter ≠ .done) :
    ∃ l, l.isExternal = false ∧ (step s l).isSome = true := by
  have inv := inv_reachable h
  cases hw : s.waiter with
  | idle => exact absurd hw hi
  | done => exact absurd hw hd
  | start => exact ⟨.arm, rfl, by simp [step, hw]⟩
  | armed e => exact ⟨.check, rfl, by simp only [step, hw]; split <;> simp⟩
  | rearming => exact ⟨.rearm, rfl, by simp [step, hw]⟩
  | awaiting e =>
    rcases inv.noLost e hw with ⟨g, hg, hga⟩ | hlt
    · obtain ⟨i, hi'⟩ := List.mem_iff_getElem?.mp hg
      rcases hga with rfl | rfl
      · exact ⟨.decr i, rfl, by simp [step, hi']⟩
      · exact ⟨.notify i, rfl, by simp [step, hi']⟩
    · refine ⟨.wake, rfl, ?_⟩
      have : s.epoch ≠ e := by omega
      simp [step, hw, this]

/-! ### one poll -/

theorem step_waiter_guards {s s' : State} {l : Label} (hl : l.isWaiter = true)
    (hs : step s l = some s') : s'.guards = s.guards ∧ s'.epoch = s.epoch := by
  cases l <;> simp [Label.isWaiter] at hl <;> simp only [step] at hs <;>
    (repeat' (split at hs)) <;> all_goals (first | (cases hs; done) | (cases hs; simp))

theorem waiterLabel_isWaiter {s : State} {l : Label} (h : waiterLabel s = some l) :
    l.isWaiter = true := by
  simp only [waiterLabel] at h
  (repeat' (split at h)) <;> all_goals (first | (cases h; done) | (cases h; rfl))

theorem pollFuel_guards (f : Nat) (s : State) :
    (pollFuel f s).guards = s.guards ∧ (pollFuel f s).epoch = s.epoch := by
  induction f generalizing s with
  | zero => simp [pollFuel]
  | succ f ih =>
    simp only [pollFuel]
    split
    · rename_i l hl
      split
      · rename_i s1 hs1
        have h1 := ih s1
        have := step_waiter_guards (waiterLabel_isWaiter hl) hs1
        exact ⟨h1.1.trans this.1, h1.2.trans this.2⟩
      · simp
    · simp

theorem pollFuel_reachable (f : Nat) {s : State} (h : Reachable s) : Reachable (pollFuel f s) := by
  induction f generalizing s with
  | zero => simpa [pollFuel] using h
  | succ f ih =>
    simp only [pollFuel]
    split
    · split
      · rename_i s1 hs1
        exact ih (Reachable.step h hs1)
      · exact h
    · exact h

theorem count_zero_of_all_notified {l : List G} (h : ∀ g ∈ l, g = .notified) :
    l.count .alive = 0 ∧ l.count .early = 0 ∧ l.count .dec = 0 := by
  refine ⟨?_, ?_, ?_⟩ <;> · apply List.count_eq_zero.mpr; intro hm; have := h _ hm; cases this

/-- once every guard has finished its drop, ONE poll of the wait future completes it -/
theorem poll_done_of_all_notified {s : State} (h : Reachable s) (hall : ∀ g ∈ s.guards, g = .notified)
    (hi : s.waiter ≠ .idle) : (poll s).waiter = .done := by
  have inv := inv_reachable h
  obtain ⟨hz1, hz2, _⟩ := count_zero_of_all_notified hall
  cases hw : s.waiter with
  | idle => exact absurd hw hi
  | done => simp [poll, pollFuel, waiterLabel, hw]
  | start => simp [poll, pollFuel, waiterLabel, step, hw, holders, hz1, hz2]
  | armed e => simp [poll, pollFuel, waiterLabel, step, hw, holders, hz1, hz2]
  | rearming => simp [poll, pollFuel, waiterLabel, step, hw, holders, hz1, hz2]
  | awaiting e =>
    have hne : s.epoch ≠ e := by
      rcases inv.noLost e hw with ⟨g, hg, hga⟩ | hlt
      · have := hall g hg
        subst this
        rcases hga with h | h <;> cases h
      · omega
    simp [poll, pollFuel, waiterLabel, step, hw, holders, hz1, hz2, hne]

/-! ### sequential histories satisfy the spec -/

open Lumina.Spec.C41 (Hist specPoll)

structure Agree (s : State) (h : Hist) : Prop where
  created : h.created = s.guards.length
  released : ∀ i, i < s.guards.length → s.guards[i]? ≠ some .alive → h.released.contains i = true
  dropped : ∀ i, h.dropped.contains i = true → s.guards[i]? = some .notified

theorem agree_init : Agree init Hist.empty := by
  constructor <;> simp [init, Hist.empty]

theorem seqStep_reachable {s : State} (op : SeqOp) (h : Reachable s) : Reachable (seqStep s op).1 := by
  cases op <;> simp only [seqStep]
  case guard => split; exact Reachable.step h ‹_›; exact h
  case drop i =>
    split
    · split
      · exact Reachable.step (Reachable.step h ‹_›) ‹_›
      · exact h
    · exact h
  case dec i => split; exact Reachable.step h ‹_›; exact h
  case notify i => split; exact Reachable.step h ‹_›; exact h
  case wait => split; exact Reachable.step h ‹_›; exact h
  case poll =>
    split
    · exact h
    · exact h
    · exact pollFuel_reachable _ h
  case cancel => exact Reachable.step (l := .cancel) h rfl

theorem getElem?_set_cases {l : List G} {i j : Nat} {a : G} :
    (l.set i a)[j]? = if i = j then (if j < l.length then some a else none) else l[j]? := by
  rw [List.getElem?_set]
  split <;> simp_all

theorem agree_step {s : State} {h : Hist} (op : SeqOp) (ha : Agree s h) :
    Agree (seqStep s op).1 (track h op (seqStep s op).2) := by
  obtain ⟨hc, hr, hd⟩ := ha
  cases op <;> simp only [seqStep]
  case guard =>
    split
    · rename_i s1 hs1
      simp only [step] at hs1
      split at hs1
      · cases hs1
        constructor
        · simp [track, hc]
        · intro i hi hne
          simp only [List.length_append, List.length_singleton] at hi
          simp only [track]
          by_cases hlt : i < s.guards.length
          · rw [List.getElem?_append_left hlt] at hne
            exact hr i hlt hne
          · have : i = s.guards.length := by omega
            subst this
            simp at hne
        · intro i hi
          simp only [track] at hi
          have := hd i hi
          have hlt := getElem?_lt this
          rw [List.getElem?_append_left hlt]
          exact this
      · cases hs1
    · exact ⟨hc, hr, hd⟩
  case drop i =>
    split
    · rename_i s1 hs1
      split
      · rename_i s2 hs2
        simp only [step] at hs1
        split at hs1
        · rename_i hg
          cases hs1
          simp only [step] at hs2
          split at hs2
          · cases hs2
            have hlt := getElem?_lt hg
            constructor
            · simp [track, hc]
            · intro j hj hne
              simp only [track, List.contains_cons, Bool.or_eq_true, beq_iff_eq]
              by_cases hij : j = i
              · left; exact hij
              · right
                simp only [List.length_set] at hj
                simp only [getElem?_set_cases, List.length_set] at hne
                have hij' : ¬ i = j := fun h => hij h.symm
                simp only [hij', ↓reduceIte] at hne
                exact hr j hj hne
            · intro j hj
              simp only [track, List.contains_cons, Bool.or_eq_true, beq_iff_eq] at hj
              simp only [getElem?_set_cases, List.length_set]
              by_cases hij : i = j
              · subst hij; simp [hlt]
              · simp only [hij, ↓reduceIte]
                rcases hj with hj | hj
                · exact absurd hj.symm hij
                · exact hd j hj
          · cases hs2
        · cases hs1
      · exact ⟨hc, hr, hd⟩
    · exact ⟨hc, hr, hd⟩
  case dec i =>
    split
    · rename_i s1 hs1
      simp only [step] at hs1
      split at hs1
      · rename_i hg
        cases hs1
        have hlt := getElem?_lt hg
        constructor
        · simp [track, hc]
        · intro j hj hne
          simp only [track, List.contains_cons, Bool.or_eq_true, beq_iff_eq]
          by_cases hij : j = i
          · left; exact hij
          · right
            simp only [List.length_set] at hj
            simp only [getElem?_set_cases] at hne
            have hij' : ¬ i = j := fun h => hij h.symm
            simp only [hij', ↓reduceIte] at hne
            exact hr j hj hne
        · intro j hj
          simp only [track] at hj
          have hjn := hd j hj
          simp only [getElem?_set_cases]
          by_cases hij : i = j
          · subst hij; rw [hg] at hjn; cases hjn
          · simp only [hij, ↓reduceIte]; exact hjn
      · cases hs1
    · exact ⟨hc, hr, hd⟩
  case notify i =>
    split
    · rename_i s1 hs1
      simp only [step] at hs1
      split at hs1
      · rename_i hg
        cases hs1
        have hlt := getElem?_lt hg
        constructor
        · simp [track, hc]
        · intro j hj hne
          simp only [track]
          simp only [List.length_set] at hj
          simp only [getElem?_set_cases] at hne
          by_cases hij : i = j
          · subst hij
            exact hr i hlt (by rw [hg]; simp)
          · simp only [hij, ↓reduceIte] at hne
            exact hr j hj hne
        · intro j hj
          simp only [track, List.contains_cons, Bool.or_eq_true, beq_iff_eq] at hj
          simp only [getElem?_set_cases]
          by_cases hij : i = j
          · subst hij; simp [hlt]
          · simp only [hij, ↓reduceIte]
            rcases hj with hj | hj
            · exact absurd hj.symm hij
            · exact hd j hj
      · cases hs1
    · exact ⟨hc, hr, hd⟩
  case wait =>
    split
    · rename_i s1 hs1
      simp only [step] at hs1
      split at hs1
      · cases hs1; exact ⟨hc, hr, hd⟩
      · cases hs1
    · exact ⟨hc, hr, hd⟩
  case poll =>
    split
    · exact ⟨hc, hr, hd⟩
    · exact ⟨hc, hr, hd⟩
    · have hg := (pollFuel_guards 8 s).1
      have key : Agree (poll s) h := by
        constructor
        · simp only [poll, hg]; exact hc
        · simp only [poll, hg]; exact hr
        · simp only [poll, hg]; exact hd
      split <;> exact key
  case cancel => exact ⟨hc, hr, hd⟩

theorem seqStep_poll_eq {s : State} (hni : s.waiter ≠ .idle) (hnd : s.waiter ≠ .done) :
    seqStep s .poll = (poll s, if (poll s).waiter = .done then .ready else .pending) := by
  cases hw : s.waiter <;> simp_all [seqStep]

/-- verdict of the spec on one poll of the model, in any reachable state with an agreeing history -/
theorem poll_spec {s : State} {h : Hist} (hreach : Reachable s) (ha : Agree s h) :
    ((seqStep s .poll).2 = .ready → specPoll h true = true) ∧
    ((seqStep s .poll).2 = .pending → specPoll h false = true) := by
  by_cases hni : s.waiter = .idle
  · simp [seqStep, hni]
  by_cases hnd : s.waiter = .done
  · simp [seqStep, hnd]
  rw [seqStep_poll_eq hni hnd]
  have hg := (pollFuel_guards 8 s).1
  have hr' : Reachable (poll s) := pollFuel_reachable _ hreach
  by_cases hdone : (poll s).waiter = .done
  · simp only [hdone, ↓reduceIte, forall_const, reduceCtorEq, false_implies, and_true]
    -- ready: every guard has released its count
    have hsafe := (inv_reachable hr').doneSafe hdone
    simp only [specPoll, ↓reduceIte, List.all_eq_true, List.mem_range]
    intro i hi
    rw [ha.created] at hi
    apply ha.released i hi
    intro hcontra
    have hm : G.alive ∈ (poll s).guards := by
      simp only [poll, hg]
      exact List.mem_iff_getElem?.mpr ⟨i, hcontra⟩
    exact hsafe _ hm rfl
  · simp only [hdone, ↓reduceIte, forall_const, reduceCtorEq, false_implies, true_and]
    -- pending: some guard's drop has not completed
    simp only [specPoll, Bool.false_eq_true, ↓reduceIte, List.any_eq_true, List.mem_range,
      Bool.not_eq_true']
    apply Classical.byContradiction
    intro hno
    apply hdone
    apply poll_done_of_all_notified hreach
    · intro g hgm
      obtain ⟨i, hi⟩ := List.mem_iff_getElem?.mp hgm
      have hlt := getElem?_lt hi
      have hin : h.dropped.contains i = true := by
        apply Classical.byContradiction
        intro hc
        exact hno ⟨i, by rw [ha.created]; exact hlt, by simpa using hc⟩
      have := ha.dropped i hin
      rw [hi] at this
      cases this
      rfl
    · exact hni

/-! ### the Notify semantics as an explicit hypothesis -/

theorem stepN_tokio (s : State) (l : Label) : stepN tokioReady s l = step s l := by
  cases l <;> simp only [stepN]
  simp only [step, tokioReady]
  split
  · simp
  · rfl

theorem stepN_congr {ready : Nat → Nat → Bool} (hN : ∀ ep e, ready ep e = tokioReady ep e)
    (s : State) (l : Label) : stepN ready s l = step s l := by
  rw [← stepN_tokio]
  cases l <;> simp only [stepN]
  split
  · rw [hN]
  · rfl

/-- reachability under an arbitrary Notify semantics -/
inductive ReachableN (ready : Nat → Nat → Bool) : State → Prop
  | init : ReachableN ready init
  | step {s s' : State} {l : Label} : ReachableN ready s → stepN ready s l = some s' → ReachableN ready s'

theorem reachableN_reachable {ready : Nat → Nat → Bool} (hN : ∀ ep e, ready ep e = tokioReady ep e)
    {s : State} (h : ReachableN ready s) : Reachable s := by
  induction h with
  | init => exact Reachable.init
  | step _ hs ih => exact Reachable.step ih (by rw [← stepN_congr hN]; exact hs)

/-- the part of the invariant that does not depend on the Notify semantics at all -/
structure SafeInv (s : State) : Prop where
  noEarly : ∀ g ∈ s.guards, g ≠ .early
  doneSafe : s.waiter = .done → ∀ g ∈ s.guards, g ≠ .alive

theorem safe_stepN {ready : Nat → Nat → Bool} {s s' : State} {l : Label} (hi : SafeInv s)
    (hs : stepN ready s l = some s') : SafeInv s' := by
  obtain ⟨h1, h4⟩ := hi
  cases l with
  | wake =>
    simp only [stepN] at hs
    split at hs
    · split at hs
      · cases hs
        exact ⟨h1, by intro hd; simp at hd⟩
      · cases hs
    · cases hs
  | newGuard =>
    simp only [stepN, step] at hs
    split at hs
    · rename_i hw
      cases hs
      refine ⟨?_, by intro hd; simp [hw] at hd⟩
      intro g hg
      simp only [List.mem_append, List.mem_singleton] at hg
      rcases hg with hg | hg
      · exact h1 g hg
      · subst hg; simp
    · cases hs
  | decr i =>
    simp only [stepN, step] at hs
    split at hs
    · cases hs
      constructor
      · intro g hgm
        rcases mem_set_cases hgm with h | h
        · exact h1 g h
        · subst h; simp
      · intro hd g hgm
        rcases mem_set_cases hgm with h | h
        · exact h4 hd g h
        · subst h; simp
    · cases hs
  | notify i =>
    simp only [stepN, step] at hs
    split at hs
    · cases hs
      constructor
      · intro g hgm
        rcases mem_set_cases hgm with h | h
        · exact h1 g h
        · subst h; simp
      · intro hd g hgm
        rcases mem_set_cases hgm with h | h
        · exact h4 hd g h
        · subst h; simp
    · cases hs
  | call =>
    simp only [stepN, step] at hs
    split at hs
    · cases hs; exact ⟨h1, by intro hd; simp at hd⟩
    · cases hs
  | arm =>
    simp only [stepN, step] at hs
    split at hs
    · cases hs; exact ⟨h1, by intro hd; simp at hd⟩
    · cases hs
  | check =>
    simp only [stepN, step] at hs
    split at hs
    · split at hs
      · rename_i hz
        cases hs
        exact ⟨h1, fun _ => holders_zero hz⟩
      · cases hs
        exact ⟨h1, by intro hd; simp at hd⟩
    · cases hs
  | rearm =>
    simp only [stepN, step] at hs
    split at hs
    · cases hs; exact ⟨h1, by intro hd; simp at hd⟩
    · cases hs
  | cancel =>
    simp only [stepN, step] at hs
    cases hs
    exact ⟨h1, by intro hd; simp at hd⟩

theorem safe_reachableN {ready : Nat → Nat → Bool} {s : State} (h : ReachableN ready s) : SafeInv s := by
  induction h with
  | init => exact ⟨by simp [init], by simp [init]⟩
  | step _ hs ih => exact safe_stepN ih hs

end Lumina.Proofs.Counter
